"""Per-property configuration of the orchestrator (tools/egv.py).

Every file tools/props.d/Cxx.py defines `P = dict(...)` for one property (see tools/README.md)."""
import glob, os, importlib.util

COMMON_TRUSTED = [
    "TLC 1.8.0 and the CommunityModules Json/IOUtils modules",
    "harness/src/rec.rs (event recorder) and the per-property recorder binary: record only, no oracle",
    "tools/egv.py (sharding, verdict parsing, known-finding matching)",
]

PROPS = {}
_d = os.path.join(os.path.dirname(os.path.abspath(__file__)), "props.d")
for _f in sorted(glob.glob(os.path.join(_d, "C*.py"))):
    _spec = importlib.util.spec_from_file_location("props_" + os.path.basename(_f)[:-3], _f)
    _m = importlib.util.module_from_spec(_spec)
    _m.COMMON_TRUSTED = COMMON_TRUSTED
    _spec.loader.exec_module(_m)
    PROPS[os.path.basename(_f)[:-3]] = _m.P

# properties that are deliberately not claimed: id -> reason
NOT_APPLICABLE = {}
# commits in /repo that add cfg-guarded hooks (none needed so far)
HOOK_COMMITS = []
