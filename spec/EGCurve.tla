------------------------------- MODULE EGCurve ------------------------------
(* Circles, ellipses, rounded-rectangle corners, arcs and sectors.            *)
(* ABSTRACT part: the ideal curves.  Pixel (i, j) is the unit square          *)
(* [i, i+1] x [j, j+1]; the ideal ellipse of a box <<x, y, w, h>> has centre  *)
(* (x + w/2, y + h/2) and semi-axes w/2, h/2.  All arithmetic is done in      *)
(* doubled integer coordinates relative to the centre.                        *)
(* TRANSCRIBED part: the closed-form tests of the code (circle/mod.rs,        *)
(* ellipse/mod.rs) used by the (M) instances.                                 *)
EXTENDS Integers, Sequences, FiniteSets, EGGeom, TrigTable

---------------------------------------------------------------------------
(* ABSTRACT: half-pixel band in the max norm *)
PX0(b, i) == 2 * (i - b[1]) - b[3]      \* doubled left edge of the pixel square, relative to the centre
PY0(b, j) == 2 * (j - b[2]) - b[4]
FarAbs(a0)  == Max(Abs(a0), Abs(a0 + 2))
NearAbs(a0) == IF a0 <= 0 /\ a0 + 2 >= 0 THEN 0 ELSE Min(Abs(a0), Abs(a0 + 2))
\* (X/w)^2 + (Y/h)^2 <= 1 in doubled coordinates (semi-axes w/2, h/2 double to w, h)
InsideClosed(w, h, X, Y) == IF w = h THEN X * X + Y * Y <= w * w ELSE X * X * h * h + Y * Y * w * w <= w * w * h * h
InsideOpen(w, h, X, Y)   == IF w = h THEN X * X + Y * Y < w * w ELSE X * X * h * h + Y * Y * w * w < w * w * h * h
\* all four corners of the pixel square are inside the closed ideal curve
MustContain(b, p) == InsideClosed(b[3], b[4], FarAbs(PX0(b, p[1])), FarAbs(PY0(b, p[2])))
\* the pixel square meets the open interior of the ideal curve
MayContain(b, p)  == InsideOpen(b[3], b[4], NearAbs(PX0(b, p[1])), NearAbs(PY0(b, p[2])))

\* runs of one row
RowOf(rs, y) == SelectSeq(rs, LAMBDA r : r[1] = y)
InRow(row, x) == \E k \in 1..Len(row) : row[k][2] <= x /\ x <= row[k][3]

\* band rule for an ellipse-like shape with box b whose point set is given as runs; probed on b grown by 1
BandOK(b, rs) ==
  \A y \in (b[2] - 1)..(b[2] + b[4]) :
    LET row == RowOf(rs, y) IN
    \A x \in (b[1] - 1)..(b[1] + b[3]) :
      LET p == <<x, y>>  in == InRow(row, x) IN
      (MustContain(b, p) => in) /\ (in => MayContain(b, p))

\* mirror symmetry about both centre lines of the box
MirrorOK(b, rs) ==
  /\ \A k \in 1..Len(rs) : InRuns(rs, <<2 * b[1] + b[3] - 1 - rs[k][3], rs[k][1]>>)
                        /\ InRuns(rs, <<2 * b[1] + b[3] - 1 - rs[k][2], rs[k][1]>>)
  /\ \A k \in 1..Len(rs) : LET my == 2 * b[2] + b[4] - 1 - rs[k][1] IN
       \E j \in 1..Len(rs) : rs[j][1] = my /\ rs[j][2] = rs[k][2] /\ rs[j][3] = rs[k][3]
\* every row is one run (canonical runs: at most one run per y), every column is one run
RowsContiguous(rs) == \A k \in 2..Len(rs) : rs[k][1] # rs[k - 1][1]
ColumnsContiguous(b, rs) ==
  \A x \in b[1]..(b[1] + b[3] - 1) :
    LET ys == { rs[k][1] : k \in { j \in 1..Len(rs) : rs[j][2] <= x /\ x <= rs[j][3] } } IN
    ys = {} \/ (CHOOSE m \in ys : \A z \in ys : m >= z) - (CHOOSE m \in ys : \A z \in ys : m <= z) + 1 = Cardinality(ys)
\* a point on each side of the box
TouchesAllSides(b, rs) ==
  /\ \E k \in 1..Len(rs) : rs[k][1] = b[2]
  /\ \E k \in 1..Len(rs) : rs[k][1] = b[2] + b[4] - 1
  /\ \E k \in 1..Len(rs) : rs[k][2] = b[1]
  /\ \E k \in 1..Len(rs) : rs[k][3] = b[1] + b[3] - 1

\* rounded rectangle with CONFINED radii rad = << <<rx, ry>> tl, tr, br, bl >>: corner boxes and their ellipse boxes
CornerBoxes(b, rad) ==
  << <<b[1], b[2], rad[1][1], rad[1][2]>>,
     <<b[1] + b[3] - rad[2][1], b[2], rad[2][1], rad[2][2]>>,
     <<b[1] + b[3] - rad[3][1], b[2] + b[4] - rad[3][2], rad[3][1], rad[3][2]>>,
     <<b[1], b[2] + b[4] - rad[4][2], rad[4][1], rad[4][2]>> >>
CornerEllipses(b, rad) ==
  << <<b[1], b[2], 2 * rad[1][1], 2 * rad[1][2]>>,
     <<b[1] + b[3] - 2 * rad[2][1], b[2], 2 * rad[2][1], 2 * rad[2][2]>>,
     <<b[1] + b[3] - 2 * rad[3][1], b[2] + b[4] - 2 * rad[3][2], 2 * rad[3][1], 2 * rad[3][2]>>,
     <<b[1], b[2] + b[4] - 2 * rad[4][2], 2 * rad[4][1], 2 * rad[4][2]>> >>
RRectBandOK(b, rad, rs) ==
  LET cb == CornerBoxes(b, rad)  ce == CornerEllipses(b, rad) IN
  \A y \in (b[2] - 1)..(b[2] + b[4]) :
    LET row == RowOf(rs, y) IN
    \A x \in (b[1] - 1)..(b[1] + b[3]) :
      LET p == <<x, y>>  in == InRow(row, x)
          cs == { c \in 1..4 : InRect(cb[c], p) } IN
      IF ~InRect(b, p) THEN ~in
      ELSE IF cs = {} THEN in
      ELSE IF Cardinality(cs) > 1 THEN TRUE
      ELSE LET c == CHOOSE c \in cs : TRUE IN (MustContain(ce[c], p) => in) /\ (in => MayContain(ce[c], p))

\* confine_radii(): for each side the two radii along it fit into the side
ConfinedOK(size, rad) ==
  /\ rad[1][1] + rad[2][1] <= size[1]      \* top
  /\ rad[4][1] + rad[3][1] <= size[1]      \* bottom
  /\ rad[1][2] + rad[4][2] <= size[2]      \* left
  /\ rad[2][2] + rad[3][2] <= size[2]      \* right

---------------------------------------------------------------------------
(* ABSTRACT: arcs and sectors.  Screen coordinates (y down); direction of     *)
(* angle t is (cos t, sin t), so a positive sweep runs clockwise on screen    *)
(* (common/plane_sector.rs, linear_equation.rs).  Angles in 1/16 degree.      *)
(* v = 2 * pixel - centre2x is the doubled vector from the circle centre.     *)
Cross16(a, v) == Cos16(a) * v[2] - Sin16(a) * v[1]      \* 2^16 * |v| * sin(angle(v) - a)
Dot16(a, v)   == Cos16(a) * v[1] + Sin16(a) * v[2]
\* start and end of the swept interval in increasing angle
WStart(a0, sw) == IF sw >= 0 THEN a0 ELSE a0 + sw
WEnd(a0, sw)   == IF sw >= 0 THEN a0 + sw ELSE a0
\* For sweeps below 180 degrees the wedge is the intersection of the two half planes AND lies on the forward
\* side of its bisector; without the last conjunct a zero sweep would denote the whole LINE through the centre
\* (both rays) instead of the single ray it sweeps.
InWedge(a0, sw, v) ==
  LET s == Cross16(WStart(a0, sw), v) >= 0  e == Cross16(WEnd(a0, sw), v) <= 0
      fwd == Dot16(WStart(a0, sw), v) + Dot16(WEnd(a0, sw), v) >= 0 IN
  IF Abs(sw) >= 5760 THEN TRUE ELSE IF Abs(sw) >= 2880 THEN s \/ e ELSE s /\ e /\ fwd
\* distance (pixels) from v/2 to the ray of angle a is at most 1.51:  |cross| / 2 <= 1.51  resp.  |v| / 2 <= 1.51
NearRay(a, v) == IF Dot16(a, v) >= 0 THEN Abs(Cross16(a, v)) <= 197919 ELSE 100 * (v[1] * v[1] + v[2] * v[2]) <= 912
NearBoundary(a0, sw, v) == NearRay(WStart(a0, sw), v) \/ NearRay(WEnd(a0, sw), v)
Centre2x(tl, d) == <<2 * tl[1] + (IF d > 0 THEN d - 1 ELSE 0), 2 * tl[2] + (IF d > 0 THEN d - 1 ELSE 0)>>
\* wedge rule: `base` = run-encoded circle (sector) or ring (arc); `rs` = the sector / arc point set
WedgeOK(tl, d, a0, sw, base, rs) ==
  LET c == Centre2x(tl, d) IN
  \A k \in 1..Len(base) :
    LET y == base[k][1]  row == RowOf(rs, y) IN
    \A x \in base[k][2]..base[k][3] :
      LET v == <<2 * x - c[1], 2 * y - c[2]>>  in == InRow(row, x)
          w == InWedge(a0, sw, v)  nb == NearBoundary(a0, sw, v) IN
      (in => (w \/ nb)) /\ ((w /\ ~nb) => in)
\* every point of rs lies in the run-encoded set `outer`
RunsSubset(rs, outer) == \A k \in 1..Len(rs) :
  \E j \in 1..Len(outer) : outer[j][1] = rs[k][1] /\ outer[j][2] <= rs[k][2] /\ rs[k][3] <= outer[j][3]

---------------------------------------------------------------------------
(* TRANSCRIBED closed forms *)
\* circle/mod.rs:  diameter_to_threshold, center_2x, contains
DiameterToThreshold(d) == IF d <= 4 THEN d * d - (d \div 2) ELSE d * d
CircleContainsT(tl, d, p) ==
  LET c == <<2 * tl[1] + SatSubU(d, 1), 2 * tl[2] + SatSubU(d, 1)>>
      dx == c[1] - 2 * p[1]  dy == c[2] - 2 * p[2] IN
  dx * dx + dy * dy < DiameterToThreshold(d)
\* ellipse/mod.rs: EllipseContains::new / contains, center_2x
EllipseContainsT(tl, sz, p) ==
  LET w == sz[1]  h == sz[2]
      a == w * w  b == h * h
      th == IF w = h THEN DiameterToThreshold(w) ELSE b * a
      qx == 2 * p[1] - (2 * tl[1] + SatSubU(w, 1))  qy == 2 * p[2] - (2 * tl[2] + SatSubU(h, 1))
      x == qx * qx  y == qy * qy IN
  IF a = b THEN x + y < th ELSE b * x + a * y < th

\* rounded_rectangle/corner_radii.rs CornerRadii::confine (after the D13 repair): scale by the side with the
\* largest relative overlap.  rad = << tl, tr, br, bl >>, each <<w, h>>; returns the confined radii
ConfineT(rad, size) ==
  LET cands == << <<rad[1][1] + rad[2][1], size[1]>>, <<rad[2][2] + rad[3][2], size[2]>>,
                  <<rad[4][1] + rad[3][1], size[1]>>, <<rad[1][2] + rad[4][2], size[2]>> >>
      \* fold over the four sides: acc = <<size, corner_size>>
      Step(acc, c) == IF c[1] > c[2] /\ (acc[2] = 0 \/ c[1] * acc[1] > acc[2] * c[2]) THEN <<c[2], c[1]>> ELSE acc
      sel == Step(Step(Step(Step(<<0, 0>>, cands[1]), cands[2]), cands[3]), cands[4])
      Sc(r) == <<(r[1] * sel[1]) \div sel[2], (r[2] * sel[1]) \div sel[2]>>
  IN IF sel[2] > 0 THEN <<Sc(rad[1]), Sc(rad[2]), Sc(rad[3]), Sc(rad[4])>> ELSE rad
\* rounded_rectangle/ellipse_quadrant.rs: corner c (1 tl, 2 tr, 3 br, 4 bl) of rectangle b with confined radii
QuadrantContainsT(b, rad, c, p) ==
  LET cb == CornerBoxes(b, rad)[c]  ce == CornerEllipses(b, rad)[c] IN
  EllipseContainsT(<<ce[1], ce[2]>>, <<ce[3], ce[4]>>, p)
\* rounded_rectangle/mod.rs RoundedRectangleContains::contains (after the D18 repair: every corner whose box
\* contains the point must accept it)
RRContainsT(b, rad0, p) ==
  LET rad == ConfineT(rad0, <<b[3], b[4]>>)
      cb == CornerBoxes(b, rad)
      slStart == b[2] + rad[1][2]  slEnd == b[2] + b[4] - rad[4][2]      \* straight_rows_left
      srStart == b[2] + rad[2][2]  srEnd == b[2] + b[4] - rad[3][2]      \* straight_rows_right
  IN /\ InRect(b, p)
     /\ ~(p[2] < slStart /\ p[1] < cb[1][1] + cb[1][3] /\ ~QuadrantContainsT(b, rad, 1, p))
     /\ ~(p[2] < srStart /\ p[1] >= cb[2][1] /\ ~QuadrantContainsT(b, rad, 2, p))
     /\ ~(p[2] >= slEnd /\ p[1] < cb[4][1] + cb[4][3] /\ ~QuadrantContainsT(b, rad, 4, p))
     /\ ~(p[2] >= srEnd /\ p[1] >= cb[3][1] /\ ~QuadrantContainsT(b, rad, 3, p))
\* rounded_rectangle/points.rs Scanlines::next for row y (after the D6 repair): <<y, x_start, x_end (exclusive)>>
RRScanlineT(b, rad0, y) ==
  LET rad == ConfineT(rad0, <<b[3], b[4]>>)
      cb == CornerBoxes(b, rad)
      slStart == b[2] + rad[1][2]  slEnd == b[2] + b[4] - rad[4][2]
      srStart == b[2] + rad[2][2]  srEnd == b[2] + b[4] - rad[3][2]
      FirstIn(c, lo, hi) == LET hs == { x \in lo..(hi - 1) : QuadrantContainsT(b, rad, c, <<x, y>>) } IN
                            IF hs = {} THEN hi ELSE CHOOSE m \in hs : \A z \in hs : m <= z
      LastIn(c, lo, hi)  == LET hs == { x \in lo..(hi - 1) : QuadrantContainsT(b, rad, c, <<x, y>>) } IN
                            IF hs = {} THEN lo ELSE (CHOOSE m \in hs : \A z \in hs : m >= z) + 1
      xs == IF y < slStart THEN FirstIn(1, b[1], cb[1][1] + cb[1][3])
            ELSE IF y >= slEnd THEN FirstIn(4, b[1], cb[4][1] + cb[4][3]) ELSE b[1]
      xe == IF y < srStart THEN LastIn(2, cb[2][1], b[1] + b[3])
            ELSE IF y >= srEnd THEN LastIn(3, cb[3][1], b[1] + b[3]) ELSE b[1] + b[3]
  IN <<y, xs, xe>>
=============================================================================
