------------------------------- MODULE EGGeom ------------------------------
(* Points, sizes and rectangles of embedded-graphics.                         *)
(*   point     <<x, y>>            size   <<w, h>>                            *)
(*   rectangle <<x, y, w, h>>      (top-left corner plus size, w, h >= 0)     *)
(*   option    <<>> = None, otherwise the value itself                        *)
(* ABSTRACT part: the meaning of a rectangle as a set of points (what the     *)
(* properties talk about).  TRANSCRIBED part: what core/src/primitives/       *)
(* rectangle/mod.rs computes, method by method.  MC_C16 relates the two.      *)
EXTENDS Integers, Sequences, FiniteSets, EGInt

Left(r)   == r[1]
Top(r)    == r[2]
W(r)      == r[3]
H(r)      == r[4]
Right(r)  == r[1] + r[3]      \* exclusive
Bottom(r) == r[2] + r[4]      \* exclusive
TopLeft(r) == <<r[1], r[2]>>
SizeOf(r)  == <<r[3], r[4]>>
IsEmpty(r) == r[3] = 0 \/ r[4] = 0
None == <<>>

---------------------------------------------------------------------------
(* ABSTRACT: set meaning *)
PointsOf(r) == { <<x, y>> : x \in r[1]..(r[1] + r[3] - 1), y \in r[2]..(r[2] + r[4] - 1) }
InRect(r, p) == /\ p[1] >= r[1] /\ p[1] < r[1] + r[3]
                /\ p[2] >= r[2] /\ p[2] < r[2] + r[4]

\* row-major order on points
RMLess(p, q) == p[2] < q[2] \/ (p[2] = q[2] /\ p[1] < q[1])

\* row-major enumeration of a rectangle, as a sequence
RowMajor(r) ==
  IF IsEmpty(r) THEN <<>>
  ELSE [i \in 1..(r[3] * r[4]) |-> <<r[1] + ((i - 1) % r[3]), r[2] + ((i - 1) \div r[3])>>]

\* Interval form (no sets; valid for coordinates up to +-2^30).
SameSet(a, b) == (IsEmpty(a) /\ IsEmpty(b)) \/ (~IsEmpty(a) /\ ~IsEmpty(b) /\ a = b)
SubsetRect(a, b) == IsEmpty(a) \/ (/\ ~IsEmpty(b) /\ Left(a) >= Left(b) /\ Right(a) <= Right(b)
                                  /\ Top(a) >= Top(b) /\ Bottom(a) <= Bottom(b))
\* r denotes exactly the common points of a and b
IsIntersection(a, b, r) ==
  LET l == Max(Left(a), Left(b))    rr == Min(Right(a), Right(b))
      t == Max(Top(a), Top(b))      bb == Min(Bottom(a), Bottom(b))
      ne == ~IsEmpty(a) /\ ~IsEmpty(b) /\ l < rr /\ t < bb
  IN IF ne THEN r = <<l, t, rr - l, bb - t>> ELSE IsEmpty(r)
\* r is the smallest rectangle containing the non-empty a and b
IsHull(a, b, r) ==
  LET l == Min(Left(a), Left(b))    rr == Max(Right(a), Right(b))
      t == Min(Top(a), Top(b))      bb == Max(Bottom(a), Bottom(b))
  IN r = <<l, t, rr - l, bb - t>>

Shift(r, d) == <<r[1] + d[1], r[2] + d[2], r[3], r[4]>>
Grow(r, n)  == <<r[1] - n, r[2] - n, r[3] + 2 * n, r[4] + 2 * n>>

---------------------------------------------------------------------------
(* Point sets and point sequences as row runs <<y, x0, x1>> (x1 inclusive).   *)
(* A sequence of points is encoded losslessly by merging consecutive points   *)
(* (x+1, same y); a set is encoded by its sorted maximal runs.                *)
RunBefore(a, b) == a[1] < b[1] \/ (a[1] = b[1] /\ a[3] < b[2])
\* the encoded point sequence is strictly increasing in row-major order
RunsOrdered(rs) == \A i \in 1..Len(rs) : rs[i][2] <= rs[i][3] /\ (i > 1 => RunBefore(rs[i - 1], rs[i]))
RunsCanonical(rs) == /\ RunsOrdered(rs)
                     /\ \A i \in 2..Len(rs) : rs[i - 1][1] = rs[i][1] => rs[i - 1][3] + 1 < rs[i][2]
RunsToSet(rs) == UNION { { <<x, rs[i][1]>> : x \in rs[i][2]..rs[i][3] } : i \in 1..Len(rs) }
SameRunSet(a, b) == IF RunsCanonical(a) /\ RunsCanonical(b) THEN a = b ELSE RunsToSet(a) = RunsToSet(b)
RunsInRect(rs, r) == \A i \in 1..Len(rs) :
  /\ rs[i][1] >= r[2] /\ rs[i][1] < r[2] + r[4] /\ rs[i][2] >= r[1] /\ rs[i][3] < r[1] + r[3]
RECURSIVE RunsCountFrom(_, _)
RunsCountFrom(rs, i) == IF i > Len(rs) THEN 0 ELSE (rs[i][3] - rs[i][2] + 1) + RunsCountFrom(rs, i + 1)
RunsCount(rs) == RunsCountFrom(rs, 1)
\* the k-th point (0-based) of the sequence that emission-order runs <<y, x0, x1>> stand for, <<>> beyond the end
RECURSIVE RunsNthFrom(_, _, _)
RunsNthFrom(rs, i, k) ==
  IF i > Len(rs) THEN <<>>
  ELSE LET n == rs[i][3] - rs[i][2] + 1 IN
       IF k < n THEN <<rs[i][2] + k, rs[i][1]>> ELSE RunsNthFrom(rs, i + 1, k - n)
RunsNth(rs, k) == RunsNthFrom(rs, 1, k)
\* A sequence of points `seq` (as pulled with next()) observed through other Iterator methods (record q as written by
\* the harness' iter_protocol): count, last, size_hint, an nth walk, two calls after the end, and mixed consumption
\* <<k, count, last, fold count, fold first, fold last, skip(k).count()>> after k calls of next()
SeqProtoFails(seq, q) ==
  LET n == Len(seq)
      At(k) == IF k < n THEN seq[k + 1] ELSE <<>> IN
       (IF q.cnt = n THEN {} ELSE {"count_differs_from_next"})
  \cup (IF q.last = (IF n = 0 THEN <<>> ELSE seq[n]) THEN {} ELSE {"last_differs_from_next"})
  \cup (IF q.lo <= n /\ (q.hi = -1 \/ q.hi >= n) THEN {} ELSE {"size_hint_excludes_length"})
  \cup (IF q.mlo <= n - q.k /\ (q.mhi = -1 \/ q.mhi >= n - q.k) THEN {} ELSE {"size_hint_excludes_remaining_length"})
  \cup (IF /\ Len(q.walk) = (IF n \div q.stride <= 4096 THEN n \div q.stride ELSE 4096)
           /\ \A j \in 1..Len(q.walk) : q.walk[j][1] = j * q.stride - 1 /\ <<q.walk[j][2], q.walk[j][3]>> = At(q.walk[j][1])
        THEN {} ELSE {"nth_differs_from_next"})
  \* (q.after - two more calls of next() after the end - is recorded but not judged: Iterator does not promise fusedness)
  \cup (IF \A j \in 1..Len(q.mixed) :
            LET mx == q.mixed[j]  k == mx[1]  rest == IF k < n THEN n - k ELSE 0
                lastP == IF rest = 0 THEN <<>> ELSE seq[n]
                firstP == IF rest = 0 THEN <<>> ELSE seq[k + 1]
            IN mx[2] = rest /\ mx[3] = lastP /\ mx[4] = rest /\ mx[5] = firstP /\ mx[6] = lastP /\ mx[7] = rest
        THEN {} ELSE {"rest_after_next_differs"})
  \* q.huge: <<index code, items pulled before, nth(index).is_some(), skip(index).count()>> for indices >= 2^32 -
  \* far beyond the end of every recorded sequence, so nth() returns nothing and skip() leaves nothing
  \cup (IF \A j \in 1..Len(q.huge) : q.huge[j][3] = 0 /\ q.huge[j][4] = 0 THEN {} ELSE {"index_beyond_2_32_wraps_into_the_sequence"})
\* the protocol record a CORRECT iterator over `seq` produces (used by the models, which have no code to observe:
\* MC_C16 feeds SeqProtoFails with it, so the two definitions are checked against each other)
SeqProtoOf(seq, stride) ==
  LET n == Len(seq)
      At(k) == IF k < n THEN seq[k + 1] ELSE <<>>
      nw == IF n \div stride <= 4096 THEN n \div stride ELSE 4096
      Mx(k) == LET rest == IF k < n THEN n - k ELSE 0
                   lastP == IF rest = 0 THEN <<>> ELSE seq[n]
                   firstP == IF rest = 0 THEN <<>> ELSE seq[k + 1]
               IN <<k, rest, lastP, rest, firstP, lastP, rest>>
  IN [cnt |-> n, last |-> (IF n = 0 THEN <<>> ELSE seq[n]), lo |-> n, hi |-> n, stride |-> stride,
      walk |-> [j \in 1..nw |-> <<j * stride - 1, At(j * stride - 1)[1], At(j * stride - 1)[2]>>],
      after |-> <<1, 1>>, k |-> n \div 2, mlo |-> n - n \div 2, mhi |-> n - n \div 2,
      mixed |-> <<Mx(1), Mx(stride + 1), Mx(n \div 2 + 1), Mx(n)>>, huge |-> <<>>]
\* membership of a point in a run-encoded set
InRuns(rs, p) == \E i \in 1..Len(rs) : rs[i][1] = p[2] /\ rs[i][2] <= p[1] /\ p[1] <= rs[i][3]
\* runs of the row-major enumeration of a set of points S lying inside the rectangle r
RunsOfSet(S, r) ==
  LET rowRuns(y) ==
        LET xs == { p[1] : p \in { q \in S : q[2] = y } }
            starts == { x \in xs : (x - 1) \notin xs }
            RECURSIVE Mk(_)
            Mk(st) == IF st = {} THEN <<>>
                      ELSE LET x0 == CHOOSE x \in st : \A z \in st : x <= z
                               x1 == CHOOSE x \in xs : x >= x0 /\ (x + 1) \notin xs /\ \A z \in x0..x : z \in xs
                           IN <<<<y, x0, x1>>>> \o Mk(st \ {x0})
        IN Mk(starts)
      RECURSIVE Rows(_)
      Rows(y) == IF y >= r[2] + r[4] THEN <<>> ELSE rowRuns(y) \o Rows(y + 1)
  IN Rows(r[2])

---------------------------------------------------------------------------
(* TRANSCRIBED: core/src/primitives/rectangle/mod.rs *)

\* center_offset (mod.rs:76)
CenterOffset(sz) == <<SatSubU(sz[1], 1) \div 2, SatSubU(sz[2], 1) \div 2>>
\* Rectangle::center (mod.rs:126)
Center(r) == <<r[1] + CenterOffset(SizeOf(r))[1], r[2] + CenterOffset(SizeOf(r))[2]>>
\* Rectangle::with_center (mod.rs:110)
WithCenter(c, sz) == <<c[1] - CenterOffset(sz)[1], c[2] - CenterOffset(sz)[2], sz[1], sz[2]>>
\* Rectangle::bottom_right (mod.rs:135)
BottomRight(r) == IF r[3] > 0 /\ r[4] > 0 THEN <<r[1] + r[3] - 1, r[2] + r[4] - 1>> ELSE None
\* Rectangle::contains (mod.rs:144)
ContainsT(r, p) ==
  IF p[1] >= r[1] /\ p[2] >= r[2]
  THEN BottomRight(r) # None /\ p[1] <= BottomRight(r)[1] /\ p[2] <= BottomRight(r)[2]
  ELSE FALSE
\* Rectangle::with_corners (mod.rs:95) and Size::from_bounding_box (size.rs:186)
WithCorners(p, q) == <<Min(p[1], q[1]), Min(p[2], q[2]), Abs(p[1] - q[1]) + 1, Abs(p[2] - q[2]) + 1>>
\* overlaps (mod.rs:617): inclusive ranges <<s, e>>
InRange(rg, v) == rg[1] <= v /\ v <= rg[2]
Overlaps(f, s) == InRange(s, f[1]) \/ InRange(s, f[2]) \/ (f[1] < s[1] /\ f[2] > s[2])
\* Rectangle::intersection (mod.rs:221)
Zero == <<0, 0, 0, 0>>
Intersection(a, b) ==
  LET obr == BottomRight(b)  sbr == BottomRight(a) IN
  CASE obr # None /\ sbr # None ->
         IF Overlaps(<<a[1], sbr[1]>>, <<b[1], obr[1]>>) /\ Overlaps(<<a[2], sbr[2]>>, <<b[2], obr[2]>>)
         THEN WithCorners(<<Max(a[1], b[1]), Max(a[2], b[2])>>, <<Min(sbr[1], obr[1]), Min(sbr[2], obr[2])>>)
         ELSE Zero
    [] obr # None /\ sbr = None -> IF ContainsT(b, TopLeft(a)) THEN a ELSE Zero
    [] obr = None /\ sbr # None -> IF ContainsT(a, TopLeft(b)) THEN b ELSE Zero
    [] OTHER -> Zero
\* anchors: 1..9 = TopLeft, TopCenter, TopRight, CenterLeft, Center, CenterRight, BottomLeft, ...
AnchorXOf(a) == ((a - 1) % 3)       \* 0 Left, 1 Center, 2 Right
AnchorYOf(a) == ((a - 1) \div 3)    \* 0 Top,  1 Center, 2 Bottom
\* Rectangle::anchor_x / anchor_y (mod.rs:480, 508)
AnchorC(pos, len, k) ==
  LET delta == Max(SatAsI32(len), 1) - 1 IN
  pos + (CASE k = 0 -> 0 [] k = 1 -> TruncDiv(delta, 2) [] OTHER -> delta)
AnchorPoint(r, a) == <<AnchorC(r[1], r[3], AnchorXOf(a)), AnchorC(r[2], r[4], AnchorYOf(a))>>
\* Rectangle::envelope (mod.rs:309)
Envelope(a, b) ==
  LET tl == <<Min(a[1], b[1]), Min(a[2], b[2])>>
      ba == AnchorPoint(a, 9)  bb == AnchorPoint(b, 9)
  IN WithCorners(tl, <<Max(ba[1], bb[1]), Max(ba[2], bb[2])>>)
\* resize_width_mut / resize_height_mut (mod.rs:398, 411)
ResizeC(pos, len, new, k) ==
  LET delta == Max(SatAsI32(len), 1) - Max(SatAsI32(new), 1) IN
  pos + (CASE k = 0 -> 0 [] k = 1 -> TruncDiv(delta, 2) [] OTHER -> delta)
Resized(r, sz, a) == <<ResizeC(r[1], r[3], sz[1], AnchorXOf(a)), ResizeC(r[2], r[4], sz[2], AnchorYOf(a)), sz[1], sz[2]>>
ResizedWidth(r, w, kx)  == <<ResizeC(r[1], r[3], w, kx), r[2], w, r[4]>>
ResizedHeight(r, h, ky) == <<r[1], ResizeC(r[2], r[4], h, ky), r[3], h>>
\* Rectangle::offset (mod.rs:428)
Offset(r, n) ==
  LET sz == IF n >= 0 THEN <<r[3] + 2 * n, r[4] + 2 * n>>
            ELSE <<SatSubU(r[3], 2 * (-n)), SatSubU(r[4], 2 * (-n))>>
  IN WithCenter(Center(r), sz)
\* rows() / columns() as half-open ranges <<start, end>>
Rows(r)    == <<r[2], r[2] + SatAsI32(r[4])>>
Columns(r) == <<r[1], r[1] + SatAsI32(r[3])>>

---------------------------------------------------------------------------
(* rectangle::Points iterator machine (points.rs): state <<x, xend, y, yend, xstart>> *)
PointsInit(r) == IF IsEmpty(r) THEN <<0, 0, 0, 0, 0>>
                 ELSE <<r[1], r[1] + r[3], r[2], r[2] + r[4], r[1]>>
\* one call of next(): returns <<item-or-None, state'>>
RECURSIVE PointsNext(_)
PointsNext(s) ==
  IF s[3] >= s[4] THEN <<None, s>>
  ELSE IF s[1] < s[2] THEN << <<s[1], s[3]>>, <<s[1] + 1, s[2], s[3], s[4], s[5]>> >>
  ELSE PointsNext(<<s[5], s[2], s[3] + 1, s[4], s[5]>>)
RECURSIVE PointsDrain(_, _)
PointsDrain(s, acc) ==
  LET n == PointsNext(s) IN IF n[1] = None THEN acc ELSE PointsDrain(n[2], Append(acc, n[1]))
PointsSeq(r) == PointsDrain(PointsInit(r), <<>>)
=============================================================================
