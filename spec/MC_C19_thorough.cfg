CONSTANTS
  GT = 6
  GP = 5
  GL = 3
  NV = 5
  Gen = TRUE
SPECIFICATION Spec
INVARIANTS TriRowsInOrder TriRowOK TriEndOK TriFormsAgree TriAreaAgree TriEdgesInFill PairOK PolyPrefixOK PolyNoStutter PolyEndOK
CHECK_DEADLOCK FALSE
