CONSTANTS
  FontIds = {1, 2, 3}
  MaxLen = 3
  StyleIds = {1, 2, 3, 4, 5}
  LHIds = {2, 3}
  Variant = "fixed"
  Strict = FALSE
  Gen = FALSE
  FontTable <- C02FontTable
  StyleTable <- C02StyleTable
SPECIFICATION Spec
INVARIANTS PaintedInsideBox TransparentPaintsNothing
CHECK_DEADLOCK FALSE
