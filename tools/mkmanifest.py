#!/usr/bin/env python3
"""Regenerate MANIFEST.json from tools/props.py (single source of truth for the registered checks)."""
import json, os, sys
ROOT = os.path.dirname(os.path.dirname(os.path.abspath(__file__)))
sys.path.insert(0, os.path.join(ROOT, "tools"))
from props import PROPS, NOT_APPLICABLE, HOOK_COMMITS

ids = [json.loads(l)["id"] for l in open(os.path.join(ROOT, "properties.jsonl"))]
checks = []
for pid in ids:
    if pid not in PROPS or PROPS[pid].get("wip"):
        continue
    P = PROPS[pid]
    checks.append({
        "property_id": pid,
        "quick_cmd": "./check %s quick" % pid,
        "thorough_cmd": "./check %s thorough" % pid,
        "evidence_file": "evidence/%s.json" % pid,
        "replay_cmd_template": "./check %s --replay {path}" % pid,
        "engine": "egv",
        "level_claimed": {"category": P["level"], "text": P["level_text"], "design_ref": "DESIGN.md §6 " + pid},
        "level_note": P["level_note"],
        "technique": P.get("technique", "TLA+ specification; TLC bounded model checking of the design (MC_%s) + TLC trace validation (Trace_%s) of events recorded from the real crate" % (pid, pid))
                     + ("; TLAPS proofs of unbounded lemmas / inductive invariants (%s, thorough tier, never deciding the check)" % ", ".join(P["proofs"]) if P.get("proofs") else ""),
    })
na = [{"property_id": p, "reason": NOT_APPLICABLE.get(p, "check not built yet (work in progress); not claimed")} for p in ids if p not in PROPS or PROPS[p].get("wip")]
m = {
    "version": 1,
    "setup_cmd": "cd harness && cargo build --release --offline --bins && cargo build --release --offline --features fixed_point --target-dir target_fixed_point --bin egv_c18 --bin egv_c08 --bin egv_c02 --bin egv_c05 --bin egv_c06 --bin egv_c07 && cargo build --offline --target-dir target_dev --bin egv_c08 --bin egv_c09",
    "hooks": {
        "guard": "--cfg embedded_graphics_verif",
        "enable": "harness/.cargo/config.toml passes --cfg embedded_graphics_verif (and the matching --check-cfg) to every crate of the harness build",
        "baseline_off_cmd": "cd /repo && cargo test --workspace --no-fail-fast --offline",
        "source_commits": HOOK_COMMITS,
        "add_only": True,
    },
    "engines": [{
        "name": "egv", "path": "check", "serves_properties": [c["property_id"] for c in checks],
        "kind_free_text": "explicit TLA+ specification (spec/EG*.tla, P_*.tla) checked with TLC: bounded model checking of the design (MC_*), spec-generated cases replayed into the real crate (G), and TLC trace validation (Trace_*) of NDJSON events recorded from the real crate by the oracle-free Rust harness (harness/)",
    }],
    "checks": checks,
    "not_applicable": na,
    "notes": "All checks: exit 0 held / exit 1 with VIOLATION line / exit 2 tool error. known_findings.json lists genuine defects (open = reported as KNOWN-FINDING, fixed = repaired by a fix: commit in /repo).",
}
json.dump(m, open(os.path.join(ROOT, "MANIFEST.json"), "w"), indent=1)
print("MANIFEST.json:", len(checks), "checks,", len(na), "not claimed")
