CONSTANTS
  Cfgs <- CfgsWide3
  BppSet = {1, 2, 4, 8, 16, 24, 32}
  Depth = 3
  Hist = FALSE
  Writer = "patched"
  Gen = FALSE
SPECIFICATION Spec
INVARIANTS Refines Readback TailOK OutsideOK PropOK
CHECK_DEADLOCK FALSE
