CONSTANTS
  DMax = 16
  NoSwap = TRUE
SPECIFICATION Spec
INVARIANTS InsideTheSweep FullSweepIsCircle
CHECK_DEADLOCK FALSE
