------------------------------ MODULE Trace_C02 -----------------------------
(* (T) for C02: recorded bounding boxes and touched point sets vs P_C02.      *)
EXTENDS TraceBase, P_C02
VARIABLE l
Init == l = 1
StepCase(e)  == e.ev = "case"
StepDraw(e)  == e.ev = "draw" /\
  LET f == DrawFails(e) IN
  Report(e.case, f, IF f = {} THEN <<>> ELSE [kind |-> e.kind, bbox |-> e.bbox, n |-> e.n, nout |-> Len(Outside(e)),
                                              firstout |-> IF Outside(e) = <<>> THEN <<>> ELSE Outside(e)[1]])
\* a library call of this case panicked: the property promises a result for every input of its domain
StepPanic(e) == e.ev = "panic" /\ Report(e.case, {"library_call_panicked"}, [msg |-> e.msg, loc |-> e.loc])
Next == /\ l <= NRec
        /\ LET e == Rec[l] IN StepCase(e) \/ StepDraw(e) \/ StepPanic(e)
        /\ l' = l + 1
Spec == Init /\ [][Next]_l
Done == IF TLCGet("stats").diameter = NRec + 1
        THEN PrintT("TRACE-ACCEPTED " \o ToString(NRec))
        ELSE PrintT("TRACE-REJECTED at line " \o ToString(TLCGet("stats").diameter)) /\ FALSE
=============================================================================
