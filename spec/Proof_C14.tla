----------------------------- MODULE Proof_C14 -----------------------------
(* Unbounded facts about the glyph atlas addressing and the advance of the     *)
(* mono text line machine (EGFont!Cell, GlyphsPerRow, Advance, LineWidth) that *)
(* MC_C14 explores for the font geometries of its configuration, here for      *)
(* EVERY character size, atlas width, spacing, glyph index and line length:    *)
(*  - a glyph cell never leaves the atlas on the right (its column is below    *)
(*    the number of glyphs per row);                                           *)
(*  - two different glyph indices address cells that do not overlap (so the    *)
(*    glyph a mapping designates cannot show pixels of another glyph);         *)
(*  - on a line the k-th character cell starts at x0 + k * (cw + spacing),     *)
(*    cells of different characters do not overlap when spacing >= 0, and the  *)
(*    line is LineWidth(n) wide, growing by one advance per character.         *)
(* Checked with TLAPS (tlapm); not load-bearing for any check.                 *)
EXTENDS Integers, TLAPS

GPR(aw, cw) == aw \div cw                       \* EGFont!GlyphsPerRow
CellX(i, aw, cw) == (i % GPR(aw, cw)) * cw      \* EGFont!Cell, first component
CellY(i, aw, cw, ch) == (i \div GPR(aw, cw)) * ch
Advance(cw, s) == cw + s
LineWidth(n, cw, s) == IF n = 0 THEN 0 ELSE n * Advance(cw, s) - s

LEMMA DivMod ==
  ASSUME NEW m \in Int, NEW d \in Nat, d >= 1
  PROVE  /\ m \div d \in Int /\ m % d \in Int
         /\ m = d * (m \div d) + (m % d) /\ 0 <= m % d /\ m % d < d
  OBVIOUS

LEMMA MulMono ==
  ASSUME NEW a \in Nat, NEW b \in Nat, NEW w \in Nat, a >= b + 1
  PROVE  a * w >= b * w + w
<1>1. PICK k \in Nat : k + (b + 1) = a
  <2>1. a - (b + 1) \in Nat /\ (a - (b + 1)) + (b + 1) = a  OBVIOUS
  <2> QED BY <2>1
<1>2. a * w = k * w + b * w + w  BY <1>1
<1>3. k * w >= 0 /\ k * w \in Int /\ b * w \in Int /\ a * w \in Int  OBVIOUS
<1> QED BY <1>2, <1>3

LEMMA GprPositive ==
  ASSUME NEW aw \in Nat, NEW cw \in Nat, cw >= 1, aw >= cw
  PROVE  GPR(aw, cw) \in Nat /\ GPR(aw, cw) >= 1 /\ GPR(aw, cw) * cw <= aw
<1>1. /\ aw \div cw \in Int /\ aw % cw \in Int /\ aw = cw * (aw \div cw) + (aw % cw)
      /\ 0 <= aw % cw /\ aw % cw < cw
  BY DivMod
<1>2. PICK g \in Int : g = aw \div cw  BY <1>1
<1>3. PICK r \in Int : r = aw % cw  BY <1>1
<1>4. cw * g + r = aw /\ 0 <= r /\ r < cw  BY <1>1, <1>2, <1>3
<1>5. g >= 1
  <2>1. CASE g <= 0
    <3>1. cw * g <= 0  BY <2>1
    <3> QED BY <3>1, <1>4
  <2> QED BY <2>1
<1>6. cw * g = g * cw /\ cw * g \in Int  OBVIOUS
<1> QED BY <1>2, <1>4, <1>5, <1>6 DEF GPR

THEOREM CellInsideAtlasRow ==
  ASSUME NEW aw \in Nat, NEW cw \in Nat, cw >= 1, aw >= cw, NEW i \in Nat
  PROVE  CellX(i, aw, cw) >= 0 /\ CellX(i, aw, cw) + cw <= aw
<1>1. PICK g \in Nat : g = GPR(aw, cw) /\ g >= 1 /\ g * cw <= aw  BY GprPositive
<1>2. i % g \in Int /\ 0 <= i % g /\ i % g < g  BY <1>1, DivMod
<1>3. PICK c \in Nat : c = i % g  BY <1>2
<1>4. g >= c + 1  BY <1>2, <1>3
<1>5. g * cw >= c * cw + cw  BY <1>4, MulMono
<1>6. c * cw >= 0 /\ c * cw \in Int /\ g * cw \in Int  OBVIOUS
<1>7. CellX(i, aw, cw) = c * cw  BY <1>1, <1>3 DEF CellX
<1> QED BY <1>1, <1>5, <1>6, <1>7

\* different indices: different column (x ranges apart by >= cw) or different row (y ranges apart by >= ch)
THEOREM CellsDisjoint ==
  ASSUME NEW aw \in Nat, NEW cw \in Nat, cw >= 1, aw >= cw, NEW ch \in Nat, NEW i \in Nat, NEW j \in Nat, i # j
  PROVE  \/ CellX(i, aw, cw) + cw <= CellX(j, aw, cw) \/ CellX(j, aw, cw) + cw <= CellX(i, aw, cw)
         \/ CellY(i, aw, cw, ch) + ch <= CellY(j, aw, cw, ch) \/ CellY(j, aw, cw, ch) + ch <= CellY(i, aw, cw, ch)
<1>1. PICK g \in Nat : g = GPR(aw, cw) /\ g >= 1  BY GprPositive
<1>2. /\ i \div g \in Int /\ i % g \in Int /\ i = g * (i \div g) + (i % g) /\ 0 <= i % g /\ i % g < g
  BY <1>1, DivMod
<1>3. /\ j \div g \in Int /\ j % g \in Int /\ j = g * (j \div g) + (j % g) /\ 0 <= j % g /\ j % g < g
  BY <1>1, DivMod
<1>4. PICK ci \in Nat, cj \in Nat : ci = i % g /\ cj = j % g  BY <1>2, <1>3
<1>5. PICK ri \in Int, rj \in Int : ri = i \div g /\ rj = j \div g  BY <1>2, <1>3
<1>6. ri >= 0 /\ rj >= 0
  <2>1. g * ri + ci = i /\ g * rj + cj = j /\ ci < g /\ cj < g  BY <1>2, <1>3, <1>4, <1>5
  <2>2. ri >= 0
    <3>1. CASE ri <= -1
      <4>1. g * ri <= -g  BY <3>1, <1>1
      <4> QED BY <4>1, <2>1
    <3> QED BY <3>1
  <2>3. rj >= 0
    <3>1. CASE rj <= -1
      <4>1. g * rj <= -g  BY <3>1, <1>1
      <4> QED BY <4>1, <2>1
    <3> QED BY <3>1
  <2> QED BY <2>2, <2>3
<1>7. CellX(i, aw, cw) = ci * cw /\ CellX(j, aw, cw) = cj * cw
      /\ CellY(i, aw, cw, ch) = ri * ch /\ CellY(j, aw, cw, ch) = rj * ch
  BY <1>1, <1>4, <1>5 DEF CellX, CellY
<1>8. ci # cj \/ ri # rj
  BY <1>2, <1>3, <1>4, <1>5
<1>9. CASE ci >= cj + 1
  <2>1. ci * cw >= cj * cw + cw  BY <1>9, MulMono
  <2> QED BY <2>1, <1>7
<1>10. CASE cj >= ci + 1
  <2>1. cj * cw >= ci * cw + cw  BY <1>10, MulMono
  <2> QED BY <2>1, <1>7
<1>11. CASE ri >= rj + 1
  <2>1. ri \in Nat /\ rj \in Nat  BY <1>6
  <2>2. ri * ch >= rj * ch + ch  BY <1>11, <2>1, MulMono
  <2> QED BY <2>2, <1>7
<1>12. CASE rj >= ri + 1
  <2>1. ri \in Nat /\ rj \in Nat  BY <1>6
  <2>2. rj * ch >= ri * ch + ch  BY <1>12, <2>1, MulMono
  <2> QED BY <2>2, <1>7
<1> QED BY <1>8, <1>9, <1>10, <1>11, <1>12

\* the line machine: character k (0-based) occupies [x0 + k * A, x0 + k * A + cw) with A = cw + s
THEOREM LineCellsInOrder ==
  ASSUME NEW cw \in Nat, NEW s \in Nat, NEW k \in Nat, NEW x0 \in Int
  PROVE  x0 + k * Advance(cw, s) + cw <= x0 + (k + 1) * Advance(cw, s)
<1>1. (k + 1) * Advance(cw, s) = k * Advance(cw, s) + Advance(cw, s)  BY DEF Advance
<1>2. k * Advance(cw, s) \in Int /\ Advance(cw, s) = cw + s  BY DEF Advance
<1> QED BY <1>1, <1>2

THEOREM LineWidthGrows ==
  ASSUME NEW cw \in Nat, NEW s \in Int, NEW n \in Nat, n >= 1
  PROVE  /\ LineWidth(1, cw, s) = cw
         /\ LineWidth(n + 1, cw, s) = LineWidth(n, cw, s) + Advance(cw, s)
         /\ LineWidth(n, cw, s) = (n - 1) * Advance(cw, s) + cw
<1>1. Advance(cw, s) \in Int /\ Advance(cw, s) = cw + s  BY DEF Advance
<1>2. (n + 1) * Advance(cw, s) = n * Advance(cw, s) + Advance(cw, s)  BY <1>1
<1>3. (n - 1) * Advance(cw, s) = n * Advance(cw, s) - Advance(cw, s)  BY <1>1
<1>4. n * Advance(cw, s) \in Int /\ 1 * Advance(cw, s) = Advance(cw, s)  BY <1>1
<1> QED BY <1>1, <1>2, <1>3, <1>4 DEF LineWidth
=============================================================================
