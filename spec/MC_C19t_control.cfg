CONSTANTS
  G = 2
  Ws = {1}
  D <- DQuick
  Als = {1}
  HasFill = TRUE
  EdgesUsed <- TwoEdges
SPECIFICATION Spec
INVARIANTS OutlineIsThreeLines
CHECK_DEADLOCK FALSE
