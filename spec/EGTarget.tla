------------------------------ MODULE EGTarget ------------------------------
(* The draw target: the environment every drawable talks to                   *)
(* (core/src/draw_target/mod.rs).                                             *)
(*   frame buffer   fb : function from a finite set of points to colours      *)
(*                  (a point outside DOMAIN fb has never been written)        *)
(*   bounding box   box : rectangle; writes outside it are discarded          *)
(*   call           record [m, area, color, colors, px] as logged by the      *)
(*                  recording targets of the harness:                         *)
(*                    m = "draw_iter"        px     = <<<<x, y, c>>, ...>>    *)
(*                    m = "fill_contiguous"  area, colors (a sequence)        *)
(*                    m = "fill_solid"       area, color                      *)
(*                    m = "clear"            color                            *)
(* ABSTRACT: Apply gives each call its DOCUMENTED meaning.                    *)
(* TRANSCRIBED: LowerDefault rewrites fill_contiguous / fill_solid / clear    *)
(* into the draw_iter call the trait defaults (mod.rs:420-440) produce.       *)
EXTENDS Integers, Sequences, FiniteSets, TLC, EGGeom

EmptyFb == [p \in {} |-> 0]

\* write a sequence of assignments <<x, y, c>> in order; only points inside box are affected
RECURSIVE ApplyPixelsFrom(_, _, _, _)
ApplyPixelsFrom(fb, box, px, i) ==
  IF i > Len(px) THEN fb
  ELSE LET p == <<px[i][1], px[i][2]>> IN
       ApplyPixelsFrom(IF InRect(box, p) THEN (p :> px[i][3]) @@ fb ELSE fb, box, px, i + 1)
ApplyPixels(fb, box, px) ==
  \* fast path: no point is written twice
  LET inside == { i \in 1..Len(px) : InRect(box, <<px[i][1], px[i][2]>>) }
      pts    == { <<px[i][1], px[i][2]>> : i \in inside }
  IN IF Cardinality(pts) = Cardinality(inside)
     THEN [ p \in pts |-> LET i == CHOOSE j \in inside : <<px[j][1], px[j][2]>> = p IN px[i][3] ] @@ fb
     ELSE ApplyPixelsFrom(fb, box, px, 1)

\* the assignments fill_contiguous denotes: row-major points of the area zipped with the colours
ZipArea(area, colors) ==
  IF IsEmpty(area) THEN <<>>
  ELSE [ i \in 1..Min(area[3] * area[4], Len(colors)) |->
           <<area[1] + ((i - 1) % area[3]), area[2] + ((i - 1) \div area[3]), colors[i]>> ]

ApplyFillContiguous(fb, box, area, colors) == ApplyPixels(fb, box, ZipArea(area, colors))
ApplyFillSolid(fb, box, area, c) ==
  LET pts == { p \in PointsOf(area) : InRect(box, p) } IN [ p \in pts |-> c ] @@ fb
ApplyClear(fb, box, c) == [ p \in PointsOf(box) |-> c ] @@ fb

Apply(fb, box, call) ==
  CASE call.m = "draw_iter"       -> ApplyPixels(fb, box, call.px)
    [] call.m = "fill_contiguous" -> ApplyFillContiguous(fb, box, call.area, call.colors)
    [] call.m = "fill_solid"      -> ApplyFillSolid(fb, box, call.area, call.color)
    [] call.m = "clear"           -> ApplyClear(fb, box, call.color)

RECURSIVE ApplyAllFrom(_, _, _, _)
ApplyAllFrom(fb, box, calls, i) ==
  IF i > Len(calls) THEN fb ELSE ApplyAllFrom(Apply(fb, box, calls[i]), box, calls, i + 1)
ApplyAll(fb, box, calls) == ApplyAllFrom(fb, box, calls, 1)

\* every point a call ADDRESSES (also points the target would discard)
Addressed(box, call) ==
  CASE call.m = "draw_iter"       -> { <<call.px[i][1], call.px[i][2]>> : i \in 1..Len(call.px) }
    [] call.m = "fill_contiguous" -> PointsOf(call.area)
    [] call.m = "fill_solid"      -> PointsOf(call.area)
    [] call.m = "clear"           -> PointsOf(box)

---------------------------------------------------------------------------
(* TRANSCRIBED trait defaults (core/src/draw_target/mod.rs:420-440):          *)
(* fill_contiguous -> draw_iter(area.points().zip(colors));                   *)
(* fill_solid -> fill_contiguous(area, repeat(color)); clear -> fill_solid(bounding_box) *)
MkDrawIter(px) == [m |-> "draw_iter", area |-> Zero, color |-> -1, colors |-> <<>>, px |-> px]
LowerFillContiguous(area, colors) ==
  LET pts == PointsSeq(area) IN
  MkDrawIter([ i \in 1..Min(Len(pts), Len(colors)) |-> <<pts[i][1], pts[i][2], colors[i]>> ])
LowerFillSolid(area, c) ==
  LET pts == PointsSeq(area) IN MkDrawIter([ i \in 1..Len(pts) |-> <<pts[i][1], pts[i][2], c>> ])
LowerDefault(box, call) ==
  CASE call.m = "draw_iter"       -> call
    [] call.m = "fill_contiguous" -> LowerFillContiguous(call.area, call.colors)
    [] call.m = "fill_solid"      -> LowerFillSolid(call.area, call.color)
    [] call.m = "clear"           -> LowerFillSolid(box, call.color)

\* coloured runs <<y, x0, x1, c>> of a frame buffer restricted to a rectangle (for reporting)
FbAsSet(fb) == { <<p[1], p[2], fb[p]>> : p \in DOMAIN fb }
=============================================================================
