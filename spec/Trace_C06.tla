------------------------------ MODULE Trace_C06 -----------------------------
(* (T) for C06: every recorded styled closed shape is checked against P_C06.  *)
EXTENDS TraceBase, P_C06, EGStyledCurve
VARIABLE l
Init == l = 1
StepCase(e)   == e.ev = "case"
\* DRIFT: draw() and pixels() of small styled ellipses / rounded rectangles vs the transcribed scanline machines of
\* EGStyledCurve (the closed form of what MC_C06e steps)
SmallStyled(e) == e.kind \in {"ellipse", "rrect"} /\ e.shape_box[3] <= 14 /\ e.shape_box[4] <= 14 /\ e.style.w <= 10
                  /\ (e.kind = "rrect" => Len(e.radii) = 4)
ShapeOf(e) == IF e.kind = "ellipse" THEN e.shape_box ELSE <<e.shape_box, e.radii>>
StepStyled(e) == e.ev = "styled" /\
  DriftReport(e.case, ~SmallStyled(e) \/ CRunsToSet(e.draw) = StyledMapT(e.kind, ShapeOf(e), e.style, "draw"),
              "draw_differs_from_transcribed_scanline_machine", [kind |-> e.kind, shape_box |-> e.shape_box, style |-> e.style]) /\
  DriftReport(e.case, ~SmallStyled(e) \/ e.trunc # 0 \/ CRunsToSet(e.pixels) = StyledMapT(e.kind, ShapeOf(e), e.style, "pixels"),
              "pixels_differs_from_transcribed_scanline_machine", [kind |-> e.kind, shape_box |-> e.shape_box, style |-> e.style]) /\
  (\A k \in 1..Len(e.wins) :
     LET wf == WindowFails(e, e.wins[k]) IN
     Report(e.case, wf, IF wf = {} THEN <<>> ELSE [kind |-> e.kind, stroke_box |-> e.stroke_box, window |-> e.wins[k].box,
                                                   drawn_box |-> IF e.wins[k].map = <<>> THEN <<>> ELSE e.wins[k].map[1]])) /\
  (IF DOMAIN e.pproto = {} THEN TRUE
   ELSE Report(e.case, SeqProtoFails(e.pproto.seq, e.pproto.proto), [kind |-> e.kind, what |-> "pixels_iterator_protocol", n |-> Len(e.pproto.seq)])) /\
  LET f == StyledFails(e) IN
  Report(e.case, f, IF f = {} THEN <<>> ELSE [kind |-> e.kind, shape_box |-> e.shape_box, fill_box |-> e.fill_box,
                                              stroke_box |-> e.stroke_box, diff |-> Differences(e)])
\* a library call of this case panicked: the property promises a result for every input of its domain
StepPanic(e) == e.ev = "panic" /\ Report(e.case, {"library_call_panicked"}, [msg |-> e.msg, loc |-> e.loc])
Next == /\ l <= NRec
        /\ LET e == Rec[l] IN StepCase(e) \/ StepStyled(e) \/ StepPanic(e)
        /\ l' = l + 1
Spec == Init /\ [][Next]_l
Done == IF TLCGet("stats").diameter = NRec + 1
        THEN PrintT("TRACE-ACCEPTED " \o ToString(NRec))
        ELSE PrintT("TRACE-REJECTED at line " \o ToString(TLCGet("stats").diameter)) /\ FALSE
=============================================================================
