//! C13 recorder: the provided `From` conversions between the 14 built-in colour types.
//! Records only (no oracle); judged by spec/Trace_C13.tla.
//!
//! For every ordered pair (A, B) all source colours (or a structured + seeded subset) are converted
//! and the results are PROJECTED onto per-channel relations: the set of all observed
//! (source channel value, result channel value).  The projection is lossless for what C13 states
//! (claims per channel); it is computed with bitmaps and involves no comparison with an expectation.
use egv::util::*;
use egv::*;
use embedded_graphics::pixelcolor::*;
use embedded_graphics::prelude::*;

#[derive(Clone, Copy, PartialEq)]
enum Kind {
    Bin,
    Gray,
    Rgb,
}
trait Cx: PixelColor + Copy {
    const NAME: &'static str;
    const KIND: Kind;
    const NCH: usize;
    const WIDTHS: [u32; 3];
    fn make(args: [u8; 3]) -> Self;
    fn chans(self) -> [u8; 3];
    /// RGB types: the luma `Gray8::from(self)` reports (used for the binary threshold claim)
    fn luma8(self) -> u8;
}
macro_rules! cx_rgb {
    ($($t:ident ($r:expr, $g:expr, $b:expr)),*) => {$(
        impl Cx for $t {
            const NAME: &'static str = stringify!($t);
            const KIND: Kind = Kind::Rgb;
            const NCH: usize = 3;
            const WIDTHS: [u32; 3] = [$r, $g, $b];
            fn make(a: [u8; 3]) -> Self { <$t>::new(a[0], a[1], a[2]) }
            fn chans(self) -> [u8; 3] { [self.r(), self.g(), self.b()] }
            fn luma8(self) -> u8 { Gray8::from(self).luma() }
        }
    )*};
}
macro_rules! cx_gray {
    ($($t:ident ($l:expr)),*) => {$(
        impl Cx for $t {
            const NAME: &'static str = stringify!($t);
            const KIND: Kind = Kind::Gray;
            const NCH: usize = 1;
            const WIDTHS: [u32; 3] = [$l, 0, 0];
            fn make(a: [u8; 3]) -> Self { <$t>::new(a[0]) }
            fn chans(self) -> [u8; 3] { [self.luma(), 0, 0] }
            fn luma8(self) -> u8 { 0 }
        }
    )*};
}
cx_rgb!(Rgb332(3, 3, 2), Rgb444(4, 4, 4), Rgb555(5, 5, 5), Bgr555(5, 5, 5), Rgb565(5, 6, 5), Bgr565(5, 6, 5),
        Rgb666(6, 6, 6), Bgr666(6, 6, 6), Rgb888(8, 8, 8), Bgr888(8, 8, 8));
cx_gray!(Gray2(2), Gray4(4), Gray8(8));
impl Cx for BinaryColor {
    const NAME: &'static str = "BinaryColor";
    const KIND: Kind = Kind::Bin;
    const NCH: usize = 1;
    const WIDTHS: [u32; 3] = [1, 0, 0];
    fn make(a: [u8; 3]) -> Self {
        if a[0] % 2 == 1 {
            BinaryColor::On
        } else {
            BinaryColor::Off
        }
    }
    fn chans(self) -> [u8; 3] {
        [self.is_on() as u8, 0, 0]
    }
    fn luma8(self) -> u8 {
        0
    }
}
const NAMES: [&str; 14] = [
    "BinaryColor", "Gray2", "Gray4", "Gray8", "Rgb332", "Rgb444", "Rgb555", "Bgr555", "Rgb565", "Bgr565", "Rgb666",
    "Bgr666", "Rgb888", "Bgr888",
];
macro_rules! with_type {
    ($name:expr, $m:ident, $($args:tt)*) => {
        match $name {
            "BinaryColor" => $m!(BinaryColor, $($args)*),
            "Gray2" => $m!(Gray2, $($args)*),
            "Gray4" => $m!(Gray4, $($args)*),
            "Gray8" => $m!(Gray8, $($args)*),
            "Rgb332" => $m!(Rgb332, $($args)*),
            "Rgb444" => $m!(Rgb444, $($args)*),
            "Rgb555" => $m!(Rgb555, $($args)*),
            "Bgr555" => $m!(Bgr555, $($args)*),
            "Rgb565" => $m!(Rgb565, $($args)*),
            "Bgr565" => $m!(Bgr565, $($args)*),
            "Rgb666" => $m!(Rgb666, $($args)*),
            "Bgr666" => $m!(Bgr666, $($args)*),
            "Rgb888" => $m!(Rgb888, $($args)*),
            "Bgr888" => $m!(Bgr888, $($args)*),
            n => panic!("unknown colour type {}", n),
        }
    };
}
macro_rules! lvl3 {
    ($b:ident, $a:ident, $rec:expr, $d:expr) => {
        run_pair::<$a, $b>($rec, $d)
    };
}
macro_rules! lvl2 {
    ($a:ident, $to:expr, $rec:expr, $d:expr) => {
        with_type!($to, lvl3, $a, $rec, $d)
    };
}

/// a relation over 0..=255 x 0..=255 as a bitmap; listed sorted by x, then y
struct Rel(Box<[[u64; 4]; 256]>);
impl Rel {
    fn new() -> Rel {
        Rel(Box::new([[0; 4]; 256]))
    }
    #[inline]
    fn add(&mut self, x: u8, y: u8) {
        self.0[x as usize][(y >> 6) as usize] |= 1u64 << (y & 63);
    }
    fn list(&self) -> Value {
        let mut out = vec![];
        for x in 0..256usize {
            for y in 0..256usize {
                if self.0[x][y >> 6] >> (y & 63) & 1 == 1 {
                    out.push(json!([x, y]));
                }
            }
        }
        Value::Array(out)
    }
}

fn max_of<A: Cx>() -> [u8; 3] {
    let mut m = [0u8; 3];
    for ch in 0..A::NCH {
        m[ch] = ((1u32 << A::WIDTHS[ch]) - 1) as u8;
    }
    m
}

/// Enumerate source colours of A: `all` = every value; otherwise every channel swept over all its
/// values with the other channels on a 6-value lattice, plus `nseed` seeded colours.
fn for_each_source<A: Cx>(all: bool, nseed: u64, seed: u64, mut f: impl FnMut(A)) -> u64 {
    let m = max_of::<A>();
    let mut n = 0u64;
    if all || A::NCH == 1 {
        for r in 0..=m[0] {
            for g in 0..=m[1] {
                for b in 0..=m[2] {
                    f(A::make([r, g, b]));
                    n += 1;
                }
            }
        }
        return n;
    }
    let lat = |mx: u8| -> Vec<u8> {
        let mut v = vec![0, 1, (mx as u32 * 85 / 255) as u8, (mx as u32 * 170 / 255) as u8, mx - 1, mx];
        v.sort();
        v.dedup();
        v
    };
    for ch in 0..3 {
        let (o1, o2) = match ch {
            0 => (1, 2),
            1 => (0, 2),
            _ => (0, 1),
        };
        for &x in &lat(m[o1]) {
            for &y in &lat(m[o2]) {
                for v in 0..=m[ch] {
                    let mut a = [0u8; 3];
                    a[ch] = v;
                    a[o1] = x;
                    a[o2] = y;
                    f(A::make(a));
                    n += 1;
                }
            }
        }
    }
    let mut rng = Rng::new(seed);
    for _ in 0..nseed {
        let x = rng.u32();
        f(A::make([x as u8 & m[0], (x >> 8) as u8 & m[1], (x >> 16) as u8 & m[2]]));
        n += 1;
    }
    n
}

fn chan_list<T: Cx>(c: T) -> Value {
    Value::Array(c.chans()[..T::NCH].iter().map(|x| json!(x)).collect())
}

/// relations recorded for a pair (mirrors RelShape / BackShape of spec/P_C13.tla): (cin, cout), 0-based
fn rel_shape(a: Kind, an: usize, b: Kind, bn: usize) -> Vec<(usize, usize)> {
    let _ = an;
    match (a, b) {
        (Kind::Rgb, Kind::Bin) => vec![],
        (_, Kind::Bin) => vec![(0, 0)],
        (Kind::Rgb, Kind::Rgb) => vec![(0, 0), (1, 1), (2, 2)],
        (Kind::Rgb, _) => vec![],
        _ => (0..bn).map(|c| (0, c)).collect(),
    }
}
fn back_shape(a: Kind, b: Kind) -> Vec<usize> {
    match (a, b) {
        (Kind::Bin, _) => vec![0],
        (_, Kind::Bin) => vec![],
        (Kind::Rgb, Kind::Rgb) => vec![0, 1, 2],
        (Kind::Rgb, _) => vec![],
        _ => vec![0],
    }
}

fn run_pair<A: Cx + From<B>, B: Cx + From<A>>(rec: &mut Rec, d: &Value) {
    let all = d["mode"].as_str().unwrap() == "all";
    let nseed = i(&d["nseed"]) as u64;
    let seed = i(&d["seed"]) as u64;
    let rs = rel_shape(A::KIND, A::NCH, B::KIND, B::NCH);
    let bs = back_shape(A::KIND, B::KIND);
    let mut rels: Vec<Rel> = rs.iter().map(|_| Rel::new()).collect();
    let mut backs: Vec<Rel> = bs.iter().map(|_| Rel::new()).collect();
    let mut l8on = Rel::new();
    let want_l8 = A::KIND == Kind::Rgb && B::KIND == Kind::Bin;
    let r = catch(|| {
        for_each_source::<A>(all, nseed, seed, |c: A| {
            let out = B::from(c);
            let (ci, co) = (c.chans(), out.chans());
            for (k, &(cin, cout)) in rs.iter().enumerate() {
                rels[k].add(ci[cin], co[cout]);
            }
            if !bs.is_empty() {
                let back = A::from(out).chans();
                for (k, &cin) in bs.iter().enumerate() {
                    backs[k].add(ci[cin], back[cin]);
                }
            }
            if want_l8 {
                l8on.add(c.luma8(), co[0]);
            }
        })
    });
    let n = match r {
        Ok(n) => n,
        Err(p) => {
            rec.note("panicked_pairs");
            rec.ev("panic", json!({"from": A::NAME, "to": B::NAME, "msg": p.msg, "loc": p.loc}));
            return;
        }
    };
    rec.note_n("conversions", n);
    let m = max_of::<A>();
    rec.ev(
        "pair",
        json!({"from": A::NAME, "to": B::NAME, "n": n, "exh": (all || A::NCH == 1) as i32,
               "rels": rels.iter().map(|r| r.list()).collect::<Vec<_>>(),
               "backs": backs.iter().map(|r| r.list()).collect::<Vec<_>>(),
               "l8on": if want_l8 { l8on.list() } else { json!([]) },
               "black": chan_list(B::from(A::make([0, 0, 0]))),
               "white": chan_list(B::from(A::make(m)))}),
    );
    // RGB -> gray: rows of result lumas along every channel, the other two on a lattice
    if A::KIND == Kind::Rgb && B::KIND == Kind::Gray {
        let lat_n = i(&d["lat"]) as u32;
        for ch in 0..3 {
            let (o1, o2) = match ch {
                0 => (1, 2),
                1 => (0, 2),
                _ => (0, 1),
            };
            let lat = |mx: u8| -> Vec<u8> {
                let mut v: Vec<u8> = (0..lat_n).map(|k| (mx as u32 * k / (lat_n - 1)) as u8).collect();
                v.dedup();
                v
            };
            let (mut fixes, mut rows) = (vec![], vec![]);
            for &x in &lat(m[o1]) {
                for &y in &lat(m[o2]) {
                    let mut a = [0u8; 3];
                    a[o1] = x;
                    a[o2] = y;
                    let mut row = vec![];
                    for v in 0..=m[ch] {
                        a[ch] = v;
                        row.push(json!(B::from(A::make(a)).chans()[0]));
                    }
                    a[ch] = 0;
                    fixes.push(json!(a));
                    rows.push(Value::Array(row));
                }
            }
            rec.ev("lrows", json!({"from": A::NAME, "to": B::NAME, "ch": ch + 1, "fixes": fixes, "rows": rows}));
        }
    }
}

fn run_case(rec: &mut Rec, d: &Value) {
    rec.begin(d.clone());
    match d["k"].as_str().unwrap() {
        // the list of ordered pairs this recorder exercises (all of them exist: the harness would
        // not compile otherwise)
        "graph" => {
            let mut pairs = vec![];
            for a in NAMES {
                for b in NAMES {
                    if a != b {
                        pairs.push(json!([a, b]));
                    }
                }
            }
            rec.ev("graph", json!({ "pairs": pairs }));
        }
        // the named web colours (WebColors trait): the table of every RGB type against the Rgb888 table
        "css" => {
            fn tab<T: Cx>(v: Vec<(&'static str, T)>) -> Vec<(&'static str, [u8; 3])> {
                v.into_iter().map(|(n, c)| (n, c.chans())).collect()
            }
            let reference = tab(egv::css_colors!(Rgb888));
            let tables: Vec<(&str, Vec<(&'static str, [u8; 3])>)> = vec![
                ("Rgb555", tab(egv::css_colors!(Rgb555))), ("Bgr555", tab(egv::css_colors!(Bgr555))),
                ("Rgb565", tab(egv::css_colors!(Rgb565))), ("Bgr565", tab(egv::css_colors!(Bgr565))),
                ("Rgb666", tab(egv::css_colors!(Rgb666))), ("Bgr666", tab(egv::css_colors!(Bgr666))),
                ("Bgr888", tab(egv::css_colors!(Bgr888))),
            ];
            for (ty, t) in tables {
                let items: Vec<Value> = t.iter().zip(reference.iter()).map(|((n, c), (rn, r))| {
                    assert_eq!(n, rn);
                    json!([r[0], r[1], r[2], c[0], c[1], c[2]])
                }).collect();
                rec.ev("css", json!({"to": ty, "items": items}));
            }
            rec.nontrivial();
        }
        "pair" => {
            let (from, to) = (d["from"].as_str().unwrap(), d["to"].as_str().unwrap());
            with_type!(from, lvl2, to, rec, d);
            rec.nontrivial();
        }
        k => panic!("unknown case kind {}", k),
    }
}

fn main() {
    let args = Args::parse();
    install_panic_hook();
    let mut rec = Rec::new(&args);
    if let Some(cases) = &args.cases {
        for d in cases {
            run_case(&mut rec, d);
        }
        rec.finish(json!({}));
        return;
    }
    run_case(&mut rec, &json!({"k": "css"}));
    for d in args.gen.iter().chain(args.witnesses.iter()) {
        run_case(&mut rec, d);
    }
    run_case(&mut rec, &json!({"k": "graph"}));
    let th = args.thorough();
    for a in NAMES {
        for b in NAMES {
            if a == b {
                continue;
            }
            // every source colour of every pair in both tiers (2^24 for the 888 sources; the whole
            // recording takes about 10 s); thorough uses a finer lattice for the RGB -> gray rows
            run_case(
                &mut rec,
                &json!({"k": "pair", "from": a, "to": b, "mode": "all", "nseed": 0, "seed": args.seed ^ 0xC13,
                        "lat": if th { 16 } else { 6 }}),
            );
        }
    }
    rec.finish(json!({}));
}
