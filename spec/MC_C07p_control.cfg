CONSTANTS
  G = 3
  Ws = {2, 3}
  PreD19 = FALSE
  D <- DQuick
  NV = 3
  RoundMode <- AwayMode
SPECIFICATION Spec
INVARIANTS Equivariant
CHECK_DEADLOCK FALSE
