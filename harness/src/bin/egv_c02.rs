//! C02 recorder: bounding_box() of a drawable and the set of points its draw() touches.
use egv::catalog;
use egv::drawables::*;
use egv::fonts_table::FONTS;
use egv::shapes::style_desc;
use egv::targets::*;
use egv::util::*;
use egv::*;
use embedded_graphics::{image::ImageDrawable, image::ImageRaw, prelude::*};
use std::collections::BTreeSet;

fn run_ct<C>(rec: &mut Rec, desc: &Value)
where
    C: ImgCol,
    for<'a> ImageRaw<'a, C>: ImageDrawable<Color = C>,
{
    rec.begin(desc.clone());
    let d = &desc["d"];
    let r = catch(|| {
        let mut t = MapTarget::<C>::new();
        draw_desc::<C, _>(d, &mut t).unwrap();
        let bb = bbox_desc::<C>(d);
        let touched: BTreeSet<(i32, i32)> = t.map.keys().cloned().collect();
        (bb, touched)
    });
    match r {
        Ok((bb, touched)) => {
            if !touched.is_empty() {
                rec.nontrivial();
            }
            let kind = d["kind"].as_str().unwrap();
            // style fields in one uniform shape so the spec can decide transparency
            let style = match kind {
                "prim" => json!({"fill": d["style"]["fill"], "stroke": d["style"]["stroke"], "w": d["style"]["w"], "tc": -1, "bc": -1, "ul": -1, "st": -1}),
                "text" => json!({"fill": -1, "stroke": -1, "w": 0, "tc": d["tc"], "bc": d["bc"], "ul": d["ul"], "st": d["st"]}),
                _ => json!({"fill": -1, "stroke": -1, "w": 0, "tc": -1, "bc": -1, "ul": -1, "st": -1}),
            };
            rec.ev("draw", json!({"kind": kind, "bbox": rect_json(&bb), "style": style, "touched": runs_of(&touched), "n": touched.len()}));
        }
        Err(p) => {
            rec.note("panicked_cases");
            rec.ev("panic", json!({"msg": p.msg, "loc": p.loc}));
        }
    }
}

fn run_case(rec: &mut Rec, desc: &Value) {
    let ct = desc["ct"].as_str().unwrap().to_string();
    with_color_type!(ct.as_str(), run_ct(rec, desc));
}

fn main() {
    let args = Args::parse();
    install_panic_hook();
    let mut rec = Rec::new(&args);
    let mut rng = Rng::new(args.seed ^ 0xC02);
    let th = args.thorough();
    if let Some(cases) = &args.cases {
        for d in cases {
            run_case(&mut rec, d);
        }
        rec.finish(json!({}));
        return;
    }
    for d in args.gen.iter().chain(args.witnesses.iter()) {
        run_case(&mut rec, d);
    }
    // styled primitives, images, sub-images
    for (ct, tl) in [("Rgb565", (2, 1)), ("BinaryColor", (-6, -4))] {
        let mut all = catalog::prims(ct, th, &mut rng, tl);
        all.extend(catalog::images(ct, th, &mut rng, tl));
        catalog::add_dotted(&mut all, if th { 2 } else { 5 });
        for d in all {
            run_case(&mut rec, &json!({"d": d, "ct": ct}));
        }
    }
    // wide strokes on lines, triangles, polylines (vertices in a grid)
    let col = catalog::colors_for("Rgb565");
    let g: i32 = 6;
    let nw = if th { 40_000 } else { 5_000 };
    for k in 0..nw {
        let w = 1 + rng.u32r(0, 11);
        let al = rng.u32r(0, 2);
        let mut p = || json!([rng.i32(0, g - 1) * 2 - 3, rng.i32(0, g - 1) * 2 - 4]);
        let shape = match k % 8 {
            0 | 1 => json!({"k":"line","s":p(),"e":p()}),
            2 | 3 => json!({"k":"triangle","v":[p(), p(), p()]}),
            // wide strokes (also wider than the shape) on the closed and angular primitives
            4 => {
                let tl = p();
                match (k / 8) % 4 {
                    0 => json!({"k":"rect","r":[tl[0], tl[1], (k / 32) % 9, (k / 288) % 9]}),
                    1 => json!({"k":"circle","tl":tl,"d":(k / 32) % 14}),
                    2 => json!({"k":"ellipse","tl":tl,"size":[(k / 32) % 11, (k / 352) % 9]}),
                    _ => json!({"k":"rrect","r":[tl[0], tl[1], (k / 32) % 10, (k / 320) % 8],"radii":[[2, 3], [(k / 32) % 5, 1], [0, 0], [4, 4]]}),
                }
            }
            5 => {
                let tl = p();
                let kind = if (k / 8) % 2 == 0 { "arc" } else { "sector" };
                let sw: i32 = [-400, -270, -135, -90, -30, 0, 45, 135, 200, 360][(k / 384) % 10] * 16;
                let a0: i32 = (((k / 16) % 24) as i32 * 15 - 180) * 16;
                json!({"k":kind,"tl":tl,"d":(k / 16) % 17,"a0":a0,"sw":sw})
            }
            _ => {
                let n = 2 + (k / 8) % 4;
                let v: Vec<Value> = (0..n).map(|_| p()).collect();
                json!({"k":"polyline","v":v,"off":[0, 0]})
            }
        };
        let fill = if k % 5 == 0 { col.fill } else { -1 };
        run_case(&mut rec, &json!({"d": {"kind":"prim","shape":shape,"style":style_desc(fill, col.stroke, w, al)}, "ct": "Rgb565"}));
    }
    if th {
        for _ in 0..20_000 {
            let n = rng.usize(2, 8);
            let v: Vec<Value> = (0..n).map(|_| json!([rng.i32(-200, 200), rng.i32(-200, 200)])).collect();
            let w = rng.u32r(1, 9);
            run_case(&mut rec, &json!({"d": {"kind":"prim","shape":{"k":"polyline","v":v,"off":[rng.i32(-5, 5), rng.i32(-5, 5)]},"style":style_desc(-1, col.stroke, w, 1)}, "ct": "Rgb565"}));
        }
    }
    // text: EVERY built-in font (the font metrics are what varies)
    let c = catalog::colors_for("BinaryColor");
    // incl. whitespace-only lines as first / last / widest line (blanks are visible with a background or a
    // decoration) and a tab (drawn as the replacement glyph)
    let strings = ["", "A", "gj|", "ab\ncd", "x\n\nyz", "Hi\n   ", "  \nHi", "a\n     \nb", " \t"];
    let combos: Vec<(i64, i64, i64, i64)> = if th {
        let mut all = vec![];
        for tc in [c.text, -1] {
            for bc in [c.bg, -1] {
                for ul in [-1, -2, c.deco] {
                    for st in [-1, -2, c.deco] {
                        all.push((tc, bc, ul, st));
                    }
                }
            }
        }
        all
    } else {
        vec![(c.text, -1, -1, -1), (c.text, c.bg, c.deco, -1), (-1, c.bg, -2, c.deco), (-1, -1, -1, -1), (c.text, c.bg, -2, -2), (-1, -1, c.deco, c.deco)]
    };
    let lhs: Vec<Value> = if th { vec![json!([1, 100]), json!([0, 0]), json!([0, 1]), json!([1, 50]), json!([1, 400]), json!([0, 1024])] } else { vec![json!([1, 100]), json!([0, 3])] };
    // invisible / zero-width / control / combining / non-BMP characters: ordinary unmapped characters, one cell each;
    // on every 9th font (all fonts in the thorough tier)
    let exotic = ["\u{FEFF}Hel", "ab\u{200B}cd\u{200D}", "x\u{2060}\u{200C}y\nz", "a\0b\u{7f}", "q\re", "e\u{301}\u{1F600}o", "\u{a0}\u{ad}|"];
    let mut n = 0usize;
    for (fi, (fname, _)) in FONTS.iter().enumerate() {
        let strs: Vec<&str> = if th || fi % 9 == 0 { strings.iter().chain(exotic.iter()).copied().collect() } else { strings.to_vec() };
        for s in strs.iter() {
            for bl in 0..4 {
                for al in 0..3 {
                    n += 1;
                    // quick: two colour/decoration combinations per (font, string, baseline, alignment), rotating
                    let picks: Vec<usize> = if th { (0..combos.len()).collect() } else { vec![n % combos.len(), (n / 7 + 1) % combos.len()] };
                    for ci in picks {
                        let (tc, bc, ul, st) = combos[ci];
                        let lh = &lhs[(n + ci) % lhs.len()];
                        if th && (n + ci) % 3 != 0 {
                            continue;
                        }
                        let d = json!({"kind":"text","s":codepoints(s),"font":fname,"tc":tc,"bc":bc,"ul":ul,"st":st,"al":al,"bl":bl,"lh":lh,"pos":[4, -3]});
                        run_case(&mut rec, &json!({"d": d, "ct": "BinaryColor"}));
                    }
                }
            }
        }
    }
    // thin sliver triangles, exhaustively: every non-degenerate vertex triple of a 7 x 5 grid whose doubled area is at
    // most 6, with inside strokes of width 2 and 3 (the stroke may fill the whole sliver) and a centre stroke
    {
        let (gw, gh) = (7i32, 5i32);
        let cells: Vec<(i32, i32)> = (0..gw * gh).map(|k| (k % gw - 3, k / gw - 2)).collect();
        let mut n = 0usize;
        for a in 0..cells.len() {
            for b in 0..cells.len() {
                for c in (b + 1)..cells.len() {
                    let (p, q, r) = (cells[a], cells[b], cells[c]);
                    let area2 = ((q.0 - p.0) * (r.1 - p.1) - (r.0 - p.0) * (q.1 - p.1)).abs();
                    if area2 == 0 || area2 > 6 {
                        continue;
                    }
                    n += 1;
                    if !th && n % 2 == 0 {
                        continue;
                    }
                    let (w, al) = [(2u32, 0u32), (3, 0), (2, 1)][n % 3];
                    let shape = json!({"k":"triangle","v":[[p.0, p.1], [q.0, q.1], [r.0, r.1]]});
                    run_case(&mut rec, &json!({"d": {"kind":"prim","shape":shape,"style":style_desc(-1, col.stroke, w, al)}, "ct": "Rgb565"}));
                }
            }
        }
    }
    // LONG thick polylines (32 .. 70 vertices; a renderer may treat long polylines differently, e.g. cull segments):
    // random walks inside a box with sharp spikes (mitered corners of 25 .. 60 degrees) pointing in all four directions
    // at varying depth inside the vertex bounding box
    for k in 0..(if th { 1500 } else { 120 }) {
        let n = 32 + rng.usize(0, 38);
        let mut v: Vec<Value> = vec![];
        let (mut x, mut y) = (rng.i32(-40, 40), rng.i32(-40, 40));
        // two far vertices so that the vertex box is much larger than most of the walk
        let frame = rng.i32(60, 110);
        v.push(json!([-frame, rng.i32(-frame, frame)]));
        while v.len() + 3 < n {
            if rng.chance(1, 3) {
                // a spike: out along one axis and back, a few pixels apart
                let len = rng.i32(12, 50);
                let gap = rng.i32(2, 9);
                let (dx, dy, gx, gy) = *rng.pick(&[(1, 0, 0, 1), (-1, 0, 0, 1), (0, 1, 1, 0), (0, -1, 1, 0)]);
                v.push(json!([x, y]));
                v.push(json!([x + dx * len + gx * gap, y + dy * len + gy * gap]));
                v.push(json!([x + 2 * gx * gap, y + 2 * gy * gap]));
                x += 2 * gx * gap;
                y += 2 * gy * gap;
            } else {
                x = (x + rng.i32(-25, 25)).clamp(-55, 55);
                y = (y + rng.i32(-25, 25)).clamp(-55, 55);
                v.push(json!([x, y]));
            }
        }
        v.push(json!([frame, rng.i32(-frame, frame)]));
        v.push(json!([rng.i32(-frame, frame), frame]));
        v.push(json!([rng.i32(-frame, frame), -frame]));
        let w = 2 + (k as u32) % 6;
        run_case(&mut rec, &json!({"d": {"kind":"prim","shape":{"k":"polyline","v":v,"off":[(k % 3) as i32 * 7 - 7, 0]},"style":style_desc(-1, col.stroke, w, 1)}, "ct": "Rgb565"}));
    }
    // thick polylines with an interior vertex exactly on the straight, non axis-aligned line between its neighbours,
    // followed by every fourth vertex of a neighbourhood
    {
        let mut n = 0usize;
        for d in [(1, 1), (-1, 1), (1, -1), (-1, -1), (2, 1), (-2, 1), (1, 2), (1, -2), (-2, -1), (2, -1), (-1, 2), (-1, -2)] {
            for (k1, k2) in [(1, 1), (1, 2), (2, 1), (3, 1), (1, 3)] {
                let a = (0, 0);
                let b = (a.0 + k1 * d.0, a.1 + k1 * d.1);
                let c = (b.0 + k2 * d.0, b.1 + k2 * d.1);
                for ex in -3..=3 {
                    for ey in -3..=3 {
                        n += 1;
                        let e = (c.0 + ex, c.1 + ey);
                        let w = if th { 2 + (n as u32 % 3) } else { 2 };
                        let v = if n % 3 == 0 { json!([[e.0, e.1], [a.0, a.1], [b.0, b.1], [c.0, c.1]]) } else { json!([[a.0, a.1], [b.0, b.1], [c.0, c.1], [e.0, e.1]]) };
                        let shape = json!({"k":"polyline","v":v,"off":[0, 0]});
                        run_case(&mut rec, &json!({"d": {"kind":"prim","shape":shape,"style":style_desc(-1, col.stroke, w, 1)}, "ct": "Rgb565"}));
                    }
                }
            }
        }
    }
    // very large arcs and sectors (the truncated 1/1024 border directions are off by several pixels at this radius)
    for (d, a0, sw, w) in [(5716u32, 100i32 * 16, 1419i32, 11u32), (8001, -37 * 16, 2011, 3), (6400, 200 * 16 + 5, -1111, 1), (7000, 45 * 16, 16 * 90 + 7, 20)] {
        for kind in ["arc", "sector"] {
            if !th && kind == "sector" && d > 6000 {
                continue;
            }
            let shape = json!({"k":kind,"tl":[-2500, -2600],"d":d,"a0":a0,"sw":sw});
            run_case(&mut rec, &json!({"d": {"kind":"prim","shape":shape,"style":style_desc(-1, col.stroke, w, (d % 3) as u32)}, "ct": "Rgb565"}));
        }
    }
    rec.finish(json!({}));
}
