----------------------------- MODULE EGAdapters -----------------------------
(* Draw-target adapters: Translated, Clipped, Cropped, ColorConverted         *)
(* (src/draw_target/{translated,clipped,cropped,color_converted}.rs) and the  *)
(* colour-stream cropping iterator (src/iterator/contiguous.rs).              *)
(*                                                                            *)
(* A stack is a sequence of layers, layer 1 wraps the parent target, the last *)
(* layer is the one drawing operations are issued on:                         *)
(*   [k |-> "tr", o |-> <<dx, dy>>]   parent.translated(o)                    *)
(*   [k |-> "cl", a |-> rect]         parent.clipped(a)                       *)
(*   [k |-> "cr", a |-> rect]         parent.cropped(a)                       *)
(*   [k |-> "cc", cmap |-> f]         parent.color_converted(); f = Into      *)
(* ABSTRACT part: BoxOf (documented bounding box of every layer), Effect (the *)
(* list of assignments an operation denotes on the PARENT), Allowed (points   *)
(* of the parent that the clip layers let through).                           *)
(* TRANSCRIBED part: Lower* — the call each adapter makes on its parent.      *)
EXTENDS EGTarget

LayerBelow(stack, i) == SubSeq(stack, 1, i - 1)

---------------------------------------------------------------------------
(* ABSTRACT *)
\* point-set intersection as a canonical rectangle (Zero if empty)
CapRect(a, b) ==
  LET l == Max(Left(a), Left(b))    r == Min(Right(a), Right(b))
      t == Max(Top(a), Top(b))      bt == Min(Bottom(a), Bottom(b))
  IN IF ~IsEmpty(a) /\ ~IsEmpty(b) /\ l < r /\ t < bt THEN <<l, t, r - l, bt - t>> ELSE Zero

\* documented bounding box of the top of `stack` over a parent with box pbox
RECURSIVE BoxOf(_, _)
BoxOf(pbox, stack) ==
  IF stack = <<>> THEN pbox
  ELSE LET n == Len(stack)  top == stack[n]  below == BoxOf(pbox, SubSeq(stack, 1, n - 1)) IN
       CASE top.k = "tr" -> Shift(below, <<-top.o[1], -top.o[2]>>)
         [] top.k = "cl" -> CapRect(top.a, below)
         [] top.k = "cr" -> LET c == CapRect(top.a, below) IN <<0, 0, c[3], c[4]>>
         [] top.k = "cc" -> below

\* The documented coordinate shift of a crop layer: the origin of the cropped target coincides with the top left corner
\* of (area /\ parent box); a ZERO SIZED area whose corner lies inside the parent keeps its corner (draw_target/mod.rs:
\* "its coordinate system is shifted so that the origin coincides with area.top_left").
CropShift(a, below) ==
  IF IsEmpty(a) /\ ~IsEmpty(below) /\ InRect(below, <<a[1], a[2]>>) THEN <<a[1], a[2]>>
  ELSE LET c == CapRect(a, below) IN <<c[1], c[2]>>
\* a crop layer whose area misses its parent has no documented coordinate shift
WellDefined(pbox, stack) ==
  \A i \in 1..Len(stack) : stack[i].k = "cr" =>
     LET below == BoxOf(pbox, SubSeq(stack, 1, i - 1))  a == stack[i].a IN
     ~IsEmpty(CapRect(a, below)) \/ (IsEmpty(a) /\ ~IsEmpty(below) /\ InRect(below, <<a[1], a[2]>>))

\* one assignment <<x, y, c>> in the coordinates of layer i, pushed down one layer; <<>> if clipped away
PushDown(pbox, stack, i, e) ==
  LET ly == stack[i]  below == BoxOf(pbox, SubSeq(stack, 1, i - 1)) IN
  CASE ly.k = "tr" -> <<e[1] + ly.o[1], e[2] + ly.o[2], e[3]>>
    [] ly.k = "cl" -> IF InRect(CapRect(ly.a, below), <<e[1], e[2]>>) THEN e ELSE <<>>
    [] ly.k = "cr" -> LET c == CropShift(ly.a, below) IN <<e[1] + c[1], e[2] + c[2], e[3]>>
    [] ly.k = "cc" -> <<e[1], e[2], ly.cmap[e[3]]>>
RECURSIVE PushToParent(_, _, _, _)
PushToParent(pbox, stack, i, e) ==
  IF e = <<>> \/ i = 0 THEN e ELSE PushToParent(pbox, stack, i - 1, PushDown(pbox, stack, i, e))

\* the assignments an operation on the top of the stack denotes, in top coordinates
Assignments(topbox, op) ==
  CASE op.m = "draw_iter"       -> op.px
    [] op.m = "fill_contiguous" -> ZipArea(op.area, op.colors)
    [] op.m = "fill_solid"      -> LET pts == RowMajor(op.area) IN [i \in 1..Len(pts) |-> <<pts[i][1], pts[i][2], op.color>>]
    [] op.m = "clear"           -> LET pts == RowMajor(topbox) IN [i \in 1..Len(pts) |-> <<pts[i][1], pts[i][2], op.color>>]

\* Effect: the assignment list on the parent (in order), before the parent's own box filter
Effect(pbox, stack, op) ==
  LET as == Assignments(BoxOf(pbox, stack), op)
      pushed == [i \in 1..Len(as) |-> PushToParent(pbox, stack, Len(stack), as[i])]
  IN SelectSeq(pushed, LAMBDA e : e # <<>>)

\* a point of layer i's coordinates mapped to parent coordinates (no clipping)
RECURSIVE MapPointDown(_, _, _, _)
MapPointDown(pbox, stack, i, p) ==
  IF i = 0 THEN p
  ELSE LET ly == stack[i] IN
       MapPointDown(pbox, stack, i - 1,
         CASE ly.k = "tr" -> <<p[1] + ly.o[1], p[2] + ly.o[2]>>
           [] ly.k = "cr" -> LET c == CropShift(ly.a, BoxOf(pbox, SubSeq(stack, 1, i - 1))) IN <<p[1] + c[1], p[2] + c[2]>>
           [] OTHER -> p)
HasClip(stack) == \E i \in 1..Len(stack) : stack[i].k = "cl"
\* parent points that every clip layer lets through
Allowed(pbox, stack) ==
  LET clipSet(i) == { MapPointDown(pbox, stack, i - 1, p) : p \in PointsOf(BoxOf(pbox, SubSeq(stack, 1, i))) }
      idx == { i \in 1..Len(stack) : stack[i].k = "cl" }
  IN IF idx = {} THEN {} ELSE
     LET i0 == CHOOSE i \in idx : TRUE IN { p \in clipSet(i0) : \A i \in idx : p \in clipSet(i) }

---------------------------------------------------------------------------
(* TRANSCRIBED: iterator/contiguous.rs Cropped<I> over a colour sequence cs.  *)
(* state [pos (items of cs consumed), x, y, w, h, rowSkip]                    *)
\* fixed = FALSE: the constructor as it was before the repair of D22 (a zero sized crop area is returned unchanged
\* by Intersection, so its width can exceed the width of the stream: row_skip = size.width - crop.width underflowed)
CroppedNewG(size, cropArea, fixed) ==
  LET ca == Intersection(<<0, 0, size[1], size[2]>>, cropArea)         \* contiguous.rs:69
      initialSkip == ca[2] * size[1] + ca[1]                          \* :75
      w == IF fixed THEN Min(ca[3], size[1]) ELSE ca[3]               \* :73 crop_area.size.component_min(size)
      h == IF fixed THEN Min(ca[4], size[2]) ELSE ca[4]
  IN [pos |-> initialSkip,                                             \* nth(initial_skip - 1) consumes initial_skip items
      x |-> 0, y |-> 0, w |-> w, h |-> h, rowSkip |-> size[1] - w]
CroppedNew(size, cropArea) == CroppedNewG(size, cropArea, TRUE)
\* all fields of the machine are unsigned in the code (u32 / usize)
CroppedUnsignedOK(st) == st.pos >= 0 /\ st.rowSkip >= 0 /\ st.w >= 0 /\ st.h >= 0
\* one call of next(): <<item or <<>> for None, state'>>
CroppedNext(st, cs) ==
  IF st.y >= st.h \/ st.w = 0 THEN << <<>>, st >>
  ELSE IF st.x < st.w
  THEN << IF st.pos < Len(cs) THEN <<cs[st.pos + 1]>> ELSE <<>>, [st EXCEPT !.x = st.x + 1, !.pos = Min(st.pos + 1, Len(cs))] >>
  ELSE IF st.y + 1 < st.h
  THEN LET np == st.pos + st.rowSkip + 1 IN
       << IF np <= Len(cs) THEN <<cs[np]>> ELSE <<>>, [st EXCEPT !.x = 1, !.y = st.y + 1, !.pos = Min(np, Len(cs))] >>
  ELSE << <<>>, [st EXCEPT !.x = 1, !.y = st.y + 1] >>
\* what a consumer that stops at the first None receives
RECURSIVE CroppedDrainFrom(_, _, _)
CroppedDrainFrom(st, cs, acc) ==
  LET n == CroppedNext(st, cs) IN
  IF n[1] = <<>> THEN acc ELSE CroppedDrainFrom(n[2], cs, Append(acc, n[1][1]))
CroppedDrain(cs, size, cropArea) == CroppedDrainFrom(CroppedNew(size, cropArea), cs, <<>>)

MkCall(m, area, color, colors, px) == [m |-> m, area |-> area, color |-> color, colors |-> colors, px |-> px]

(* TRANSCRIBED: the call one adapter makes on ITS parent (whose box is pb) for an incoming call *)
\* translated.rs:40-70
LowerTranslated(o, call) ==
  CASE call.m = "draw_iter" -> MkCall("draw_iter", Zero, -1, <<>>, [i \in 1..Len(call.px) |-> <<call.px[i][1] + o[1], call.px[i][2] + o[2], call.px[i][3]>>])
    [] call.m = "fill_contiguous" -> MkCall("fill_contiguous", Shift(call.area, o), -1, call.colors, <<>>)
    [] call.m = "fill_solid" -> MkCall("fill_solid", Shift(call.area, o), call.color, <<>>, <<>>)
    [] call.m = "clear" -> call
\* clipped.rs:20-70; clip == clip_area.intersection(parent.bounding_box()) computed at construction
ClipAreaOf(pb, a) == Intersection(a, pb)
LowerClipped(clip, call) ==
  CASE call.m = "draw_iter" ->
         MkCall("draw_iter", Zero, -1, <<>>, SelectSeq(call.px, LAMBDA e : ContainsT(clip, <<e[1], e[2]>>)))
    [] call.m = "fill_contiguous" ->
         LET inter == Intersection(clip, call.area) IN
         IF inter = call.area THEN call
         ELSE LET crop == <<inter[1] - call.area[1], inter[2] - call.area[2], inter[3], inter[4]>> IN   \* clipped.rs:59 (positions subtracted, D39)
              MkCall("fill_contiguous", inter, -1, CroppedDrain(call.colors, SizeOf(call.area), crop), <<>>)
    [] call.m = "fill_solid" -> MkCall("fill_solid", Intersection(call.area, clip), call.color, <<>>, <<>>)
    [] call.m = "clear" -> MkCall("fill_solid", Intersection(clip, clip), call.color, <<>>, <<>>)   \* default clear
\* cropped.rs:20-70: Translated(area.top_left) with area = a.intersection(parent box); clear is the default
CropAreaOf(pb, a) == Intersection(a, pb)
LowerCropped(ca, call) ==
  IF call.m = "clear" THEN MkCall("fill_solid", Shift(<<0, 0, ca[3], ca[4]>>, <<ca[1], ca[2]>>), call.color, <<>>, <<>>)
  ELSE LowerTranslated(<<ca[1], ca[2]>>, call)
\* color_converted.rs:35-70
LowerConverted(cmap, call) ==
  CASE call.m = "draw_iter" -> MkCall("draw_iter", Zero, -1, <<>>, [i \in 1..Len(call.px) |-> <<call.px[i][1], call.px[i][2], cmap[call.px[i][3]]>>])
    [] call.m = "fill_contiguous" -> MkCall("fill_contiguous", call.area, -1, [i \in 1..Len(call.colors) |-> cmap[call.colors[i]]], <<>>)
    [] call.m = "fill_solid" -> MkCall("fill_solid", call.area, cmap[call.color], <<>>, <<>>)
    [] call.m = "clear" -> MkCall("clear", Zero, cmap[call.color], <<>>, <<>>)

\* transcribed bounding_box() of every layer
RECURSIVE BoxOfT(_, _)
BoxOfT(pbox, stack) ==
  IF stack = <<>> THEN pbox
  ELSE LET n == Len(stack)  top == stack[n]  below == BoxOfT(pbox, SubSeq(stack, 1, n - 1)) IN
       CASE top.k = "tr" -> Shift(below, <<-top.o[1], -top.o[2]>>)
         [] top.k = "cl" -> ClipAreaOf(below, top.a)
         [] top.k = "cr" -> LET c == CropAreaOf(below, top.a) IN <<0, 0, c[3], c[4]>>
         [] top.k = "cc" -> below
\* the call arriving at the parent: lower through the layers from the top down
RECURSIVE LowerStack(_, _, _, _)
LowerStack(pbox, stack, i, call) ==
  IF i = 0 THEN call
  ELSE LET ly == stack[i]  below == BoxOfT(pbox, SubSeq(stack, 1, i - 1)) IN
       LowerStack(pbox, stack, i - 1,
         CASE ly.k = "tr" -> LowerTranslated(ly.o, call)
           [] ly.k = "cl" -> LowerClipped(ClipAreaOf(below, ly.a), call)
           [] ly.k = "cr" -> LowerCropped(CropAreaOf(below, ly.a), call)
           [] ly.k = "cc" -> LowerConverted(ly.cmap, call))
=============================================================================
