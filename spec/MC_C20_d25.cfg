CONSTANTS
  SIZE = 3
  MaxDepth = 2
  Gen = FALSE
  GenMod = 1
  Alphabet = "small"
SPECIFICATION Spec
VIEW MachineView
INVARIANTS ObsOKPinned
CHECK_DEADLOCK FALSE
