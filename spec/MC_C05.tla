------------------------------- MODULE MC_C05 ------------------------------
(* (M) for C05: the points() iterators of Circle and Ellipse as state          *)
(* machines (circle/points.rs, ellipse/points.rs: `Points` pulls points from   *)
(* the current `Scanline` and fetches the next row from `Scanlines` when it is *)
(* exhausted), stepped one loop iteration per action, against the abstract     *)
(* row-major enumerator of the transcribed contains():                         *)
(*     Emit(p) is allowed iff p is the row-major minimum of what remains.      *)
(* Mutant = TRUE re-creates the behaviour of the pinned snapshot, where a row  *)
(* without points ended the iteration (defect D5) - the negative control.      *)
(* Every explored shape is printed as a (G) case.                              *)
EXTENDS EGCurve, SequencesExt, TLC, Json
CONSTANTS DMax, EMax, Mutant, Gen
VARIABLES shape, enum, y, cur, out, done

Shapes == { [k |-> "circle", tl |-> <<-2, 1>>, size |-> <<d, d>>] : d \in 0..DMax }
     \cup { [k |-> "ellipse", tl |-> <<1, -3>>, size |-> <<w, h>>] : w \in 0..EMax, h \in 0..EMax }
     \cup { [k |-> "ellipse", tl |-> <<0, 0>>, size |-> s] : s \in { <<1, 24>>, <<2, 20>>, <<3, 33>>, <<24, 1>>, <<20, 2>>, <<2, 9>> } }
BoxOfShape(s) == <<s.tl[1], s.tl[2], s.size[1], s.size[2]>>
ShapeContainsT(s, p) == IF s.k = "circle" THEN CircleContainsT(s.tl, s.size[1], p) ELSE EllipseContainsT(s.tl, s.size, p)
\* the abstract enumerator's script: the contains() set (probed on the box grown by 1) in row-major order
Enum(s) == SetToSortSeq({ p \in PointsOf(Grow(BoxOfShape(s), 1)) : ShapeContainsT(s, p) }, RMLess)

\* Scanlines::next for row yy: <<yy, x0, x1 (exclusive)>>; <<yy, 0, 0>> if the row has no point
Scanline(s, yy) ==
  LET b == BoxOfShape(s)
      hits == { x \in b[1]..(b[1] + b[3] - 1) : ShapeContainsT(s, <<x, yy>>) } IN
  IF hits = {} THEN <<yy, 0, 0>>
  ELSE LET x == CHOOSE m \in hits : \A z \in hits : m <= z IN <<yy, x, (b[1] + b[3]) - (x - b[1])>>

Init == /\ shape \in Shapes /\ enum = Enum(shape)
        /\ y = shape.tl[2] /\ cur = <<0, 0, 0>> /\ out = <<>> /\ done = FALSE
        /\ (Gen => PrintT("GEN " \o ToJson(IF shape.k = "circle" THEN [k |-> "circle", tl |-> shape.tl, d |-> shape.size[1]]
                                                                 ELSE [k |-> "ellipse", tl |-> shape.tl, size |-> shape.size])))
\* one iteration of the loop in Points::next
Emit      == /\ ~done /\ cur[2] < cur[3]
             /\ out' = Append(out, <<cur[2], cur[1]>>) /\ cur' = <<cur[1], cur[2] + 1, cur[3]>>
             /\ UNCHANGED <<shape, enum, y, done>>
FetchRow  == /\ ~done /\ cur[2] >= cur[3] /\ y < shape.tl[2] + shape.size[2]
             /\ cur' = Scanline(shape, y) /\ y' = y + 1
             /\ done' = (Mutant /\ cur'[2] >= cur'[3])        \* snapshot: an empty row returned None
             /\ UNCHANGED <<shape, enum, out>>
Finish    == /\ ~done /\ cur[2] >= cur[3] /\ y >= shape.tl[2] + shape.size[2]
             /\ done' = TRUE /\ UNCHANGED <<shape, enum, y, cur, out>>
Next == Emit \/ FetchRow \/ Finish
Spec == Init /\ [][Next]_<<shape, enum, y, cur, out, done>>

\* refinement of the abstract enumerator: only the row-major minimum of the remaining points is ever emitted
EmitsInOrder == IsPrefix(out, enum)
Complete == done => out = enum
=============================================================================
