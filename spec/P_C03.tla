------------------------------- MODULE P_C03 -------------------------------
(* Property C03 — clipped / cropped / translated / converted targets and the  *)
(* trait defaults are exact.                                                  *)
(*  BoxFails : every layer reports the documented bounding box (as a point    *)
(*             set; for a non-empty box that is the exact rectangle).         *)
(*  OpFails  : after an operation issued on the top of the stack the parent   *)
(*             holds exactly fb (+) Effect(stack, op), and - if the stack     *)
(*             contains a clipped layer - no call that reaches the parent     *)
(*             addresses a point outside what the clip layers allow.          *)
(* Stacks containing a cropped layer whose area misses its parent have no     *)
(* documented coordinate shift: only their bounding boxes are checked.        *)
EXTENDS EGAdapters

BoxFails(pbox, stack, boxes) ==
  IF \A i \in 0..Len(stack) : SameSet(boxes[i + 1], BoxOf(pbox, SubSeq(stack, 1, i)))
  THEN {} ELSE {"bounding_box_of_adapter"}

OpFails(pbox, stack, fb, op, parentCalls) ==
  IF ~WellDefined(pbox, stack) THEN {}
  ELSE LET exp == ApplyPixels(fb, pbox, Effect(pbox, stack, op))
           got == ApplyAll(fb, pbox, parentCalls)
           allowed == Allowed(pbox, stack)
       IN   (IF exp = got THEN {} ELSE {"parent_content_differs"})
       \cup (IF ~HasClip(stack) \/ \A i \in 1..Len(parentCalls) : Addressed(pbox, parentCalls[i]) \subseteq allowed
             THEN {} ELSE {"point_outside_clip_reached_parent"})
=============================================================================
