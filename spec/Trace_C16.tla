------------------------------ MODULE Trace_C16 -----------------------------
(* (T) for C16: every recorded Rectangle call of the real library is checked  *)
(* against the property-level predicates of P_C16.                            *)
EXTENDS TraceBase, P_C16
VARIABLE l

Init == l = 1

StepCase(e) == e.ev = "case"
StepBin(e) ==
  /\ e.ev = "bin"
  /\ \A i \in 1..Len(e.items) :
       LET it == e.items[i] IN
       Report(e.case, BinFails(it[1], it[2], it[3], it[4], it[5]), it)
StepUn(e) ==
  /\ e.ev = "un"
  /\ Report(e.case, UnFails(e.r, e), [r |-> e.r])

Next == /\ l <= NRec
        /\ LET e == Rec[l] IN StepCase(e) \/ StepBin(e) \/ StepUn(e)
        /\ l' = l + 1
Spec == Init /\ [][Next]_l

Done == IF TLCGet("stats").diameter = NRec + 1
        THEN PrintT("TRACE-ACCEPTED " \o ToString(NRec))
        ELSE PrintT("TRACE-REJECTED at line " \o ToString(TLCGet("stats").diameter)) /\ FALSE
=============================================================================
