----------------------------- MODULE Proof_C09 -----------------------------
(* The inductive invariant of the ContiguousPixels machine                    *)
(* (image_raw.rs:277-343 as transcribed in EGImage!CPNew / CPNext, after the  *)
(* repair D4) for EVERY area size w x h >= 1 x 1, initial skip I and row skip *)
(* s: the k-th colour of the stream (k = r w + c, row r, column c) is read    *)
(* from raw index I + r (w + s) + c - i.e. from the pixel (x + c, y + r) of   *)
(* the padded parent data when I = y dw + x and s = dw - w - and the stream   *)
(* ends after exactly w h colours.  MC_C09 checks the same for small images.  *)
(*   state: rx = remaining_x, ry = remaining_y, idx = raw index of the next   *)
(*          item the underlying iterator would yield;                         *)
(*   ghost: (r, c) = row and column of the next colour, c = w: row finished.  *)
(* Checked with TLAPS (tlapm); not load-bearing for any check.                *)
EXTENDS Integers, TLAPS

Inv(w, h, I, s, rx, ry, idx, r, c) ==
  /\ r \in 0..(h - 1) /\ c \in 0..w
  /\ rx = w - c /\ ry = h - 1 - r
  /\ idx = I + r * (w + s) + c

THEOREM InitInv ==
  ASSUME NEW w \in Nat, NEW h \in Nat, w >= 1, h >= 1, NEW I \in Nat, NEW s \in Nat
  PROVE  Inv(w, h, I, s, w, h - 1, I, 0, 0)
  BY DEF Inv

\* a call with remaining_x > 0: next() of the raw iterator
THEOREM StepInRow ==
  ASSUME NEW w \in Nat, NEW h \in Nat, w >= 1, h >= 1, NEW I \in Nat, NEW s \in Nat,
         NEW rx \in Int, NEW ry \in Int, NEW idx \in Int, NEW r \in Int, NEW c \in Int,
         Inv(w, h, I, s, rx, ry, idx, r, c), rx > 0
  PROVE  /\ c < w /\ idx = I + r * (w + s) + c                    \* colour (r, c) is read from this raw index
         /\ Inv(w, h, I, s, rx - 1, ry, idx + 1, r, c + 1)
  BY DEF Inv

\* a call with remaining_x = 0 and remaining_y > 0: nth(row_skip) of the raw iterator
THEOREM StepNextRow ==
  ASSUME NEW w \in Nat, NEW h \in Nat, w >= 1, h >= 1, NEW I \in Nat, NEW s \in Nat,
         NEW rx \in Int, NEW ry \in Int, NEW idx \in Int, NEW r \in Int, NEW c \in Int,
         Inv(w, h, I, s, rx, ry, idx, r, c), rx = 0, ry > 0
  PROVE  /\ idx + s = I + (r + 1) * (w + s) + 0                   \* colour (r + 1, 0) is read from this raw index
         /\ Inv(w, h, I, s, w - 1, ry - 1, idx + s + 1, r + 1, 1)
<1>1. c = w /\ r + 1 <= h - 1
  BY DEF Inv
<1>2. (r + 1) * (w + s) = r * (w + s) + w + s
  OBVIOUS
<1> QED BY <1>1, <1>2 DEF Inv

\* a call with remaining_x = 0 and remaining_y = 0 returns None: all w h colours have been delivered
THEOREM EndsAfterAllRows ==
  ASSUME NEW w \in Nat, NEW h \in Nat, w >= 1, h >= 1, NEW I \in Nat, NEW s \in Nat,
         NEW rx \in Int, NEW ry \in Int, NEW idx \in Int, NEW r \in Int, NEW c \in Int,
         Inv(w, h, I, s, rx, ry, idx, r, c), rx = 0, ry = 0
  PROVE  r * w + c = w * h
<1>1. c = w /\ r = h - 1
  BY DEF Inv
<1>2. (h - 1) * w + w = w * h
  OBVIOUS
<1> QED BY <1>1, <1>2

\* rows are padded to whole bytes: the padded width is at least the width and less than a byte more
THEOREM PaddedWidth ==
  ASSUME NEW w \in Nat, NEW bpp \in {1, 2, 4}
  PROVE  LET dw == ((w * bpp + 7) \div 8) * (8 \div bpp) IN dw >= w /\ dw < w + (8 \div bpp)
<1>1. CASE bpp = 1
  BY <1>1
<1>2. CASE bpp = 2
  BY <1>2
<1>3. CASE bpp = 4
  BY <1>3
<1> QED BY <1>1, <1>2, <1>3
=============================================================================
