------------------------------- MODULE MC_C15 ------------------------------
(* (M) for C15.  Text::draw is explored as a machine over the transcribed     *)
(* lines() iterator (EGText) and the MonoTextStyle draw_string machine        *)
(* (EGFont), one action per loop body / branch:                               *)
(*   (NextLine -> Arm -> (Char | Spacing)* -> Done -> Strike -> Underline ->  *)
(*    Return)*                                                                *)
(* over small abstract fonts, all strings over {a, LF, CR} up to MaxLen, the  *)
(* three alignments, four baselines, several line heights and colour /        *)
(* decoration combinations.  When the drawing is complete the observation     *)
(* record of P_C15 is assembled -- the other drawings it relates (T', the     *)
(* separate lines, Baseline::Top, the chained halves) come from the same      *)
(* transcription run as a function -- and the six relations are checked.      *)
(* Variant = "pinned" is text.rs of the pinned tree (alignment measured       *)
(* before the CR is removed, D11), "fixed" is work/patches/D11.diff.  Strict  *)
(* = FALSE exempts the open known finding D12 (transparent style with         *)
(* spacing returns x + n (cw + s)).  Every configuration is printed as a (G)  *)
(* case for the recorder.                                                     *)
EXTENDS P_C15, Json, SequencesExt
CONSTANTS FontIds, MaxLen, StyleIds, LHIds, Variant, Strict, Gen
VARIABLES cfg, tm

\* abstract fonts <<cw, ch, s, baseline, underline, strikethrough>>: two glyphs, 'a' and the replacement '?'
FontTable == <<
  <<1, 2, 0, 1, <<2, 1>>, <<1, 1>>>>,
  <<2, 3, 1, 1, <<3, 1>>, <<1, 1>>>>,
  <<1, 1, 2, 0, <<2, 1>>, <<0, 1>>>>,
  <<3, 4, 2, 2, <<4, 2>>, <<2, 1>>>> >>
Bit(x, y) == ((5 * x + 3 * y + x * y + (x \div 2) * (y + 1)) % 4) \in {0, 3}
ByteOf(b, y, aw) ==
  LET v(k) == IF 8 * (b - 1) + k < aw /\ Bit(8 * (b - 1) + k, y) THEN 2 ^ (7 - k) ELSE 0
  IN v(0) + v(1) + v(2) + v(3) + v(4) + v(5) + v(6) + v(7)
MkFont(i) ==
  LET t == FontTable[i]  aw == 2 * t[1]  ah == t[2] IN
  [cw |-> t[1], ch |-> t[2], s |-> t[3], bl |-> t[4], ul |-> t[5], st |-> t[6], aw |-> aw, ah |-> ah,
   atlas |-> Mat([y \in 1..ah |-> Mat([b \in 1..((aw + 7) \div 8) |-> ByteOf(b, y - 1, aw)])]),
   map |-> <<97, 63>>, repl |-> 1]
\* colours: text 1, background 2, custom underline 3, custom strikethrough 4
StyleTable == <<
  [tc |-> 1, bg |-> NoCol, ulm |-> 0, ulc |-> 3, stm |-> 0, stc |-> 4],      \* text colour only
  [tc |-> 1, bg |-> 2, ulm |-> 1, ulc |-> 3, stm |-> 0, stc |-> 4],          \* text + background + underline
  [tc |-> NoCol, bg |-> NoCol, ulm |-> 2, ulc |-> 3, stm |-> 0, stc |-> 4],  \* transparent with a custom underline
  [tc |-> NoCol, bg |-> 2, ulm |-> 0, ulc |-> 3, stm |-> 2, stc |-> 4],      \* background + custom strikethrough
  [tc |-> NoCol, bg |-> NoCol, ulm |-> 0, ulc |-> 3, stm |-> 0, stc |-> 4] >>  \* nothing at all
\* line heights: 0, 1, ch, 2 ch pixels, 150 %
LHOf(i, ch) == CASE i = 1 -> <<0, 0>> [] i = 2 -> <<0, 1>> [] i = 3 -> <<0, ch>> [] i = 4 -> <<0, 2 * ch>> [] OTHER -> <<1, 150>>

Strings == UNION { [1..k -> {97, LF, CR}] : k \in 0..MaxLen }
Configs == [fi : FontIds, text : Strings, align : 0..2, base : 0..3, lhi : LHIds, si : StyleIds]
Pos == <<2, 3>>

Fonts == Mat([i \in 1..Len(FontTable) |-> MkFont(i)])     \* constant level: evaluated once
F  == Fonts[cfg.fi]
Sty == StyleTable[cfg.si]
TS == [align |-> cfg.align, base |-> cfg.base, lh |-> LHOf(cfg.lhi, FontTable[cfg.fi][2])]
LinesOfT == SplitLF(cfg.text)

GenDesc(c) ==
  LET fn == Fonts[c.fi]  s == StyleTable[c.si] IN
  [k |-> "mc", font |-> fn, text |-> c.text, pos |-> Pos, align |-> c.align, base |-> c.base,
   lh |-> LHOf(c.lhi, fn.ch), sty |-> <<s.tc, s.bg, s.ulm, s.ulc, s.stm, s.stc>>, chains |-> "all"]

Init == \E c \in Configs :
          /\ cfg = c
          /\ tm = TMInit(Pos, EmptyPic)
          /\ (Gen => PrintT("GEN " \o ToJson(GenDesc(c))))
Take(a) == /\ ~TMDone(LinesOfT, tm)
           /\ TMAction(F, Sty, TS, LinesOfT, tm) = a
           /\ tm' = TMStep(F, Sty, TS, Pos, LinesOfT, Variant, tm)
           /\ UNCHANGED cfg
NextLine  == Take("NextLine")    \* text.rs:119-149 one item of lines(), :163
Arm       == Take("Arm")         \* mono_text_style.rs:205
Char      == Take("Char")        \* :142-145
Spacing   == Take("Spacing")     \* :147-161
Done      == Take("Done")        \* :162
Strike    == Take("Strike")      \* :118-121
Underline == Take("Underline")   \* :123-126
Return    == Take("Return")      \* :234, text.rs:164-169
Next == NextLine \/ Arm \/ Char \/ Spacing \/ Done \/ Strike \/ Underline \/ Return
Spec == Init /\ [][Next]_<<cfg, tm>>

---------------------------------------------------------------------------
\* the observation record of P_C15, assembled from the transcription
Draw(ts, text, pos) ==
  LET r == TextDrawT(F, Sty, ts, text, pos, Variant) IN
  [ret |-> r.ret, map |-> RasterOfPic(r.pic), bbox |-> BoundingBoxT(F, Sty, ts, text, pos, Variant)]
Obs ==
  LET tl == NormalizeCRLF(cfg.text)
      ls == TrueLines(cfg.text)
      lh == LineHeightA(TS.lh, F.ch)
      whole == [ret |-> tm.next, map |-> RasterOfPic(tm.pic), bbox |-> BoundingBoxT(F, Sty, TS, cfg.text, Pos, Variant)]
      lf == IF tl = cfg.text THEN whole ELSE Draw(TS, tl, Pos)
      single == ~HasLF(cfg.text) /\ cfg.align = 0
  IN [font |-> F, text |-> cfg.text, pos |-> Pos, align |-> cfg.align, base |-> cfg.base, lh |-> TS.lh, sty |-> Sty,
      whole |-> whole,
      lf |-> [text |-> tl, ret |-> lf.ret, map |-> lf.map, bbox |-> lf.bbox],
      lines |-> [j \in 1..Len(ls) |->
                   LET y == Pos[2] + (j - 1) * lh
                       d == Draw(TS, ls[j], <<Pos[1], y>>) IN
                   [text |-> ls[j], y |-> y, ret |-> d.ret, map |-> d.map,
                    m0 |-> MeasureStringT(F, Sty, Len(ls[j]), <<0, 0>>, cfg.base).next,
                    mp |-> MeasureStringT(F, Sty, Len(ls[j]), <<Pos[1], y>>, cfg.base).next]],
      top |-> IF cfg.base = 0 THEN [used |-> 0, ret |-> <<0, 0>>, map |-> EmptyRaster]
              ELSE LET d == Draw([TS EXCEPT !.base = 0], cfg.text, Pos) IN [used |-> 1, ret |-> d.ret, map |-> d.map],
      \* the transcribed machine never reads the target's bounding box: on every target it is the same run
      small |-> << [box |-> <<0, 0, 0, 0>>, ret |-> whole.ret, map |-> whole.map] >>,
      chains |-> IF ~single THEN <<>>
                 ELSE [i \in 1..(Len(cfg.text) + 1) |->
                         LET k == i - 1
                             d1 == Draw(TS, SubSeq(cfg.text, 1, k), Pos)
                             d2 == Draw(TS, SubSeq(cfg.text, k + 1, Len(cfg.text)), d1.ret) IN
                         [k |-> k, ret1 |-> d1.ret, map1 |-> d1.map, at2 |-> d1.ret, ret2 |-> d2.ret, map2 |-> d2.map]]]

\* input class of the open known finding D12 (mono_text_style.rs:221-226)
InD12 == Sty.tc = NoCol /\ Sty.bg = NoCol /\ F.s > 0
LayoutOK == TMDone(LinesOfT, tm) =>
              LET o == Obs  fl == AllFails(o) IN
              /\ LayoutWellFormed(o)
              /\ IF InD12 /\ ~Strict THEN fl \subseteq {"ret_ne_measure"} ELSE fl = {}
\* the stepped machine and the functional form of the transcription agree (sanity of TMRun)
MachineOK == TMDone(LinesOfT, tm) =>
               LET r == TextDrawT(F, Sty, TS, cfg.text, Pos, Variant) IN
               /\ r.pic = tm.pic /\ r.ret = tm.next /\ TextRetT(F, Sty, TS, cfg.text, Pos, Variant) = tm.next
=============================================================================
