CONSTANTS
  FontIds = {1, 2}
  MaxLen = 3
  StyleIds = {1, 2, 3}
  LHIds = {1, 2, 3, 4}
  Variant = "fixed"
  Strict = FALSE
  Gen = FALSE
SPECIFICATION Spec
INVARIANTS LayoutOK MachineOK
CHECK_DEADLOCK FALSE
