------------------------------- MODULE MC_C13 ------------------------------
(* (M) for C13: the TRANSCRIBED conversion code of EGColor (convert_channel,  *)
(* luma, thresholds, the per-type macros of conversion.rs) explored by TLC:   *)
(*  "cc"    convert_channel as a machine: x runs from 0 to FROM_MAX for every *)
(*          pair of the seven channel widths 1,2,3,4,5,6,8 -- all 7 x 7 pairs *)
(*          x all inputs, complete.  Invariants: nearest value, extremes,     *)
(*          widening round trip; action property: monotone.                   *)
(*  "pair"  every ordered pair of colour types: the observation the harness   *)
(*          would record is computed by the transcription over a full sweep   *)
(*          of every source channel and judged by P_C13!PairFails.            *)
(*  "luma"  the luma formula on a 16^3 lattice of Rgb888: monotone in each    *)
(*          channel (action property), every RGB -> gray conversion too.      *)
(*  "gray"  gray -> RGB -> gray as a three-stage pipeline for all 30 pairs    *)
(*          and all luma values: identity whenever the RGB type is wide enough*)
EXTENDS P_C13, TLC, FiniteSets
VARIABLES s

Widths == {1, 2, 3, 4, 5, 6, 8}
M(w) == 2 ^ w - 1
CC(a, b, x) == ConvertChannelT(M(a), M(b), x)
Lattice == { 17 * k : k \in 0..15 }

\* ---- observation of one pair computed by the transcription (what egv_c13 records from the library)
SweepSrc(ta, ch, x) == [c \in 1..NChan(ta) |-> IF c = ch THEN x ELSE 0]
Tab(ta, cin, F(_)) == [i \in 1..(ChMax(ta, cin) + 1) |-> <<i - 1, F(i - 1)>>]
PairObsT(a, b) ==
  LET ta == Types[a]  tb == Types[b]  rs == RelShape(ta, tb)  bs == BackShape(ta, tb) IN
  [ rels  |-> [i \in 1..Len(rs) |-> Tab(ta, rs[i][1], LAMBDA x : ConvertT(ta, tb, SweepSrc(ta, rs[i][1], x))[rs[i][2]])],
    backs |-> [i \in 1..Len(bs) |-> Tab(ta, bs[i], LAMBDA x : ConvertT(tb, ta, ConvertT(ta, tb, SweepSrc(ta, bs[i], x)))[bs[i]])],
    l8on  |-> IF IsRgb(ta) /\ tb.kind = "bin"
              THEN LET S == { <<RgbToGrayT(ta, Types["Gray8"], <<cr, cg, cb>>)[1], RgbToBinT(ta, <<cr, cg, cb>>)[1]>> :
                              cr \in {0, ChMax(ta, 1) \div 2, ChMax(ta, 1)}, cg \in 0..ChMax(ta, 2), cb \in {0, ChMax(ta, 3) \div 2, ChMax(ta, 3)} }
                       \* sorted by luma then flag
                       Ord(p) == p[1] * 2 + p[2]
                   IN [i \in 1..Cardinality(S) |-> CHOOSE p \in S : Cardinality({q \in S : Ord(q) < Ord(p)}) = i - 1]
              ELSE <<>>,
    black |-> ConvertT(ta, tb, [c \in 1..NChan(ta) |-> 0]),
    white |-> ConvertT(ta, tb, [c \in 1..NChan(ta) |-> ChMax(ta, c)]) ]

Init ==
  \/ \E a \in Widths, b \in Widths : s = [m |-> "cc", a |-> a, b |-> b, x |-> 0, y |-> CC(a, b, 0)]
  \/ \E p \in ConvPairs : s = [m |-> "pair", from |-> p[1], to |-> p[2]]
  \/ \E r \in Lattice, g \in Lattice, b \in Lattice : s = [m |-> "luma", c |-> <<r, g, b>>]
  \/ \E g \in GrayNames, t \in RgbNames : \E l \in 0..ChMax(Types[g], 1) :
       s = [m |-> "gray", g |-> g, t |-> t, l |-> l, stage |-> 0, val |-> <<l>>]

StepCC == /\ s.m = "cc" /\ s.x < M(s.a)
          /\ s' = [s EXCEPT !.x = s.x + 1, !.y = CC(s.a, s.b, s.x + 1)]
StepLuma == /\ s.m = "luma"
            /\ \E ch \in 1..3 : /\ s.c[ch] < 255
                                /\ s' = [s EXCEPT !.c[ch] = s.c[ch] + 17]
StepGray == /\ s.m = "gray" /\ s.stage < 2
            /\ s' = [s EXCEPT !.stage = s.stage + 1,
                              !.val = IF s.stage = 0 THEN GrayToRgbT(Types[s.g], Types[s.t], s.val)
                                      ELSE RgbToGrayT(Types[s.t], Types[s.g], s.val)]
Next == StepCC \/ StepLuma \/ StepGray
Spec == Init /\ [][Next]_s

\* ---- convert_channel
NearestOK == s.m = "cc" => Nearest(M(s.a), M(s.b), s.x, s.y)
ExtremesOK == s.m = "cc" => (s.x = 0 => s.y = 0) /\ (s.x = M(s.a) => s.y = M(s.b))
WidenBackOK == (s.m = "cc" /\ s.a <= s.b) => CC(s.b, s.a, s.y) = s.x
MonoCC == [][(s.m = "cc") => s'.y >= s.y]_s
\* the whole table of one width pair judged by the property predicate used on the traces
\* (a width that no colour type has is presented through a gray type of that width)
TableOK == (s.m = "cc" /\ s.x = 0) =>
  LET ta == Gray(s.a)  tb == Gray(s.b) IN
  RelFails(ta, 1, tb, 1, [i \in 1..(M(s.a) + 1) |-> <<i - 1, CC(s.a, s.b, i - 1)>>]) = {}
\* ---- every pair of types
PairOK == s.m = "pair" => PairFails(s.from, s.to, PairObsT(s.from, s.to)) = {}
\* ---- luma
LumaOf(c) == LumaT(c)
MonoLuma == [][(s.m = "luma") => /\ LumaOf(s'.c) >= LumaOf(s.c)
                                 /\ \A g \in GrayNames : ConvertChannelT(255, ChMax(Types[g], 1), LumaOf(s'.c))
                                                         >= ConvertChannelT(255, ChMax(Types[g], 1), LumaOf(s.c))]_s
LumaExtremesOK == s.m = "luma" => /\ LumaOf(s.c) \in 0..255
                                  /\ (s.c = <<0, 0, 0>> => LumaOf(s.c) = 0)
                                  /\ (s.c = <<255, 255, 255>> => LumaOf(s.c) = 255)
                                  \* equal channels reproduce the gray value (weights sum to 256)
                                  /\ (s.c[1] = s.c[2] /\ s.c[2] = s.c[3] => LumaOf(s.c) = s.c[1])
\* ---- gray -> RGB -> gray
GrayBackOK == (s.m = "gray" /\ s.stage = 2 /\ Widens(Types[s.g], Types[s.t])) => s.val = <<s.l>>
GrayRgbOK == (s.m = "gray" /\ s.stage = 1) =>
  \A ch \in 1..3 : Nearest(ChMax(Types[s.g], 1), ChMax(Types[s.t], ch), s.l, s.val[ch])
=============================================================================
