CONSTANTS
  MaxLen = 4
  Depth = 2
  Pinned = TRUE
  Gen = FALSE
SPECIFICATION Spec
INVARIANTS IterOK
CHECK_DEADLOCK FALSE
