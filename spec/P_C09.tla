------------------------------- MODULE P_C09 -------------------------------
(* Property C09 — raw images and sub-images reproduce their pixel data        *)
(* exactly.  Property-level predicates over an input and an OBSERVATION; each *)
(* returns the set of failure codes (empty = allowed).  MC_C09 feeds them the *)
(* transcribed machines of EGImage, Trace_C09 what the real library did.      *)
(* Only the ABSTRACT part of EGImage is used here (Pixel, PixelOpt,           *)
(* ExpectedLen, AbsChain).                                                    *)
(*                                                                            *)
(* An observed target call is a record                                        *)
(*   m     "fc" fill_contiguous | "fs" fill_solid | "di" draw_iter | "clear"  *)
(*   area  rectangle (fc, fs)      c   colour (fs, clear)                     *)
(*   n     fc: number of colours the stream yielded when drained to its first *)
(*         None;  cs  the first colours of the stream (at least area.w*area.h *)
(*         of them when there are that many);  px  di: <<x, y, colour>> list  *)
EXTENDS EGImage

\* ImageRaw::new(data of length it[1]) reported ok = it[2] (0/1): accepted exactly when the length
\* is the padded row length times the height.  (The expected_data_size it[3] carried by the error
\* is not part of the property text; Trace_C09 reports a wrong one as DRIFT only.)
NewFails(bpp, w, h, it) ==
  LET want == ExpectedLen(w, h, bpp) IN
       (IF it[2] = 1 /\ it[1] # want THEN {"new_accepts_wrong_length"} ELSE {})
  \cup (IF it[2] = 0 /\ it[1] = want THEN {"new_rejects_required_length"} ELSE {})
  \* it[2] = 2 / 3: new_const (the constructor for const contexts) rejected / accepted a buffer that new() accepted / rejected
  \cup (IF it[2] \in {2, 3} THEN {"new_const_differs_from_new"} ELSE {})
NewExpectedOK(bpp, w, h, it) == it[2] = 0 => it[3] = ExpectedLen(w, h, bpp)

\* probes <<x, y, option>> of pixel(): None exactly outside the box, the layout value inside
PixelFails(img, probes) ==
       (IF \A i \in 1..Len(probes) : (probes[i][3] = NoneV) = ~InRect(BoxOf(img), <<probes[i][1], probes[i][2]>>)
        THEN {} ELSE {"pixel_none_iff_outside"})
  \cup (IF \A i \in 1..Len(probes) : probes[i][3] # NoneV /\ InRect(BoxOf(img), <<probes[i][1], probes[i][2]>>)
                                     => probes[i][3] = Some(Pixel(img, <<probes[i][1], probes[i][2]>>))
        THEN {} ELSE {"pixel_value"})

---------------------------------------------------------------------------
(* the documented meaning of target calls: "set these pixels, later wins"; a   *)
(* colour stream is matched with the points of its area in row-major order     *)
(* (zip semantics), surplus colours have no effect                             *)
Used(c) == Min(Min(c.n, Len(c.cs)), c.area[3] * c.area[4])
TouchedBy(c) ==
  CASE c.m = "fc" -> IF Used(c) = c.area[3] * c.area[4] THEN PointsOf(c.area)
                     ELSE { <<c.area[1] + ((i - 1) % c.area[3]), c.area[2] + ((i - 1) \div c.area[3])>> : i \in 1..Used(c) }
    [] c.m = "fs" -> PointsOf(c.area)
    [] c.m = "di" -> { <<c.px[i][1], c.px[i][2]>> : i \in 1..Len(c.px) }
    [] OTHER -> {}
Touched(calls) == UNION { TouchedBy(calls[i]) : i \in 1..Len(calls) }
\* colour option that call c leaves at p
CallAt(c, p) ==
  CASE c.m = "fc" -> IF InRect(c.area, p)
                     THEN LET i == (p[2] - c.area[2]) * c.area[3] + (p[1] - c.area[1]) + 1 IN
                          IF i <= Used(c) THEN Some(c.cs[i]) ELSE NoneV
                     ELSE NoneV
    [] c.m = "fs" -> IF InRect(c.area, p) THEN Some(c.c) ELSE NoneV
    [] c.m = "di" -> LET I == { i \in 1..Len(c.px) : c.px[i][1] = p[1] /\ c.px[i][2] = p[2] } IN
                     IF I = {} THEN NoneV ELSE Some(c.px[CHOOSE i \in I : \A j \in I : j <= i][3])
    [] OTHER -> NoneV
RECURSIVE FinalFrom(_, _, _)
FinalFrom(calls, p, k) ==
  IF k = 0 THEN NoneV
  ELSE LET v == CallAt(calls[k], p) IN IF v # NoneV THEN v ELSE FinalFrom(calls, p, k - 1)
FinalAt(calls, p) == FinalFrom(calls, p, Len(calls))

\* the calls paint exactly the map { o + q |-> want[q] : q in the box of size sz }
SemCodes(calls, o, sz, want(_)) ==
  LET D == { <<o[1] + q[1], o[2] + q[2]>> : q \in PointsOf(<<0, 0, sz[1], sz[2]>>) }
      T == Touched(calls)
  IN   (IF T \subseteq D THEN {} ELSE {"touches_outside"})
  \cup (IF D \subseteq T THEN {} ELSE {"misses_pixel"})
  \cup (IF \A p \in D \cap T : FinalAt(calls, p) = Some(want(<<p[1] - o[1], p[2] - o[2]>>))
        THEN {} ELSE {"wrong_colour"})

\* every colour stream handed to fill_contiguous holds exactly area.w * area.h colours
StreamCodes(calls) ==
  IF \A i \in 1..Len(calls) : calls[i].m = "fc" => calls[i].n = calls[i].area[3] * calls[i].area[4]
  THEN {} ELSE {"stream_len"}

\* top-left corners that centre a box of size sz on c (an even side has two middle pixels)
CenterOffsets(c, sz) ==
  { <<c[1] - dx, c[2] - dy>> : dx \in {(sz[1] - 1) \div 2, sz[1] \div 2}, dy \in {(sz[2] - 1) \div 2, sz[2] \div 2} }

\* Sufficient condition for SemCodes(calls, o, sz, want) = {} that is cheap to evaluate: a single
\* call that paints the box row by row (a colour stream over exactly the box, or a pixel list in
\* row-major order).  exp = the wanted colours in row-major order.  Anything else is judged by
\* SemCodes itself.
FastSem(calls, o, sz, exp) ==
  /\ Len(calls) = 1
  /\ LET c == calls[1]  k == Len(exp) IN
     \/ /\ c.m = "fc" /\ c.area = <<o[1], o[2], sz[1], sz[2]>> /\ c.n >= k /\ Len(c.cs) >= k
        /\ SubSeq(c.cs, 1, k) = exp
     \/ /\ c.m = "di" /\ Len(c.px) = k
        /\ c.px = [i \in 1..k |-> <<o[1] + ((i - 1) % sz[1]), o[2] + ((i - 1) \div sz[1]), exp[i]>>]

\* Image::new(d, at) [mode 0] / Image::with_center(d, at) [mode 1] of the drawable
\* d = img.sub_image(areas[1]).sub_image(areas[2])..., which reported size(), was drawn and the
\* target saw `calls`
DrawFails(img, areas, mode, at, size, calls) ==
  LET abs == AbsChain(img, areas)
      off == abs[1]
      sz  == abs[2]
      empty == sz[1] = 0 \/ sz[2] = 0
      want(q) == Pixel(img, <<off[1] + q[1], off[2] + q[2]>>)
      exp == [i \in 1..(sz[1] * sz[2]) |-> Pixel(img, <<off[1] + ((i - 1) % sz[1]), off[2] + ((i - 1) \div sz[1])>>)]
      o0 == IF mode = 0 THEN at ELSE <<at[1] - ((sz[1] - 1) \div 2), at[2] - ((sz[2] - 1) \div 2)>>
  IN   (IF (empty /\ (size[1] = 0 \/ size[2] = 0)) \/ (~empty /\ size = sz) THEN {} ELSE {"size"})
  \cup (IF \E i \in 1..Len(calls) : calls[i].m = "clear" THEN {"clear_called"} ELSE {})
  \cup StreamCodes(calls)
  \cup (IF empty THEN (IF Touched(calls) = {} THEN {} ELSE {"touches_outside"})
        ELSE IF FastSem(calls, o0, sz, exp) THEN {}
        ELSE LET c0 == SemCodes(calls, o0, sz, want) IN
             IF c0 = {} THEN {}
             ELSE IF mode = 1 /\ \E o \in CenterOffsets(at, sz) : SemCodes(calls, o, sz, want) = {} THEN {}
             ELSE c0)

\* The same drawable drawn on the target seen through .clipped(clip) (the target itself is much larger than
\* everything drawn): exactly the part of the picture inside clip arrives, streams are still exact.
SemCodesClip(calls, o, sz, want(_), clip) ==
  LET D == { p \in { <<o[1] + q[1], o[2] + q[2]>> : q \in PointsOf(<<0, 0, sz[1], sz[2]>>) } : InRect(clip, p) }
      T == Touched(calls)
  IN   (IF T \subseteq D THEN {} ELSE {"clipped_touches_outside"})
  \cup (IF D \subseteq T THEN {} ELSE {"clipped_misses_pixel"})
  \cup (IF \A p \in D \cap T : FinalAt(calls, p) = Some(want(<<p[1] - o[1], p[2] - o[2]>>))
        THEN {} ELSE {"clipped_wrong_colour"})
ClipDrawFails(img, areas, mode, at, size, clip, calls) ==
  LET abs == AbsChain(img, areas)
      off == abs[1]
      sz  == abs[2]
      empty == sz[1] = 0 \/ sz[2] = 0
      want(q) == Pixel(img, <<off[1] + q[1], off[2] + q[2]>>)
      o0 == IF mode = 0 THEN at ELSE <<at[1] - ((sz[1] - 1) \div 2), at[2] - ((sz[2] - 1) \div 2)>>
  IN   (IF (empty /\ (size[1] = 0 \/ size[2] = 0)) \/ (~empty /\ size = sz) THEN {} ELSE {"size"})
  \cup (IF \E i \in 1..Len(calls) : calls[i].m = "clear" THEN {"clear_called"} ELSE {})
  \cup StreamCodes(calls)
  \cup (IF empty THEN (IF Touched(calls) = {} THEN {} ELSE {"clipped_touches_outside"})
        ELSE LET c0 == SemCodesClip(calls, o0, sz, want, clip) IN
             IF c0 = {} THEN {}
             ELSE IF mode = 1 /\ \E o \in CenterOffsets(at, sz) : SemCodesClip(calls, o, sz, want, clip) = {} THEN {}
             ELSE c0)

\* The same drawable on a target that REPORTS the window win as its bounding box and logs everything it receives:
\* nothing but the picture arrives, and every pixel of the picture inside the window arrives
SemCodesWin(calls, o, sz, want(_), win) ==
  LET D == { <<o[1] + q[1], o[2] + q[2]>> : q \in PointsOf(<<0, 0, sz[1], sz[2]>>) }
      T == Touched(calls)
  IN   (IF T \subseteq D THEN {} ELSE {"window_touches_outside"})
  \cup (IF { p \in D : InRect(win, p) } \subseteq T THEN {} ELSE {"window_misses_pixel_inside_its_box"})
  \cup (IF \A p \in D \cap T : FinalAt(calls, p) = Some(want(<<p[1] - o[1], p[2] - o[2]>>))
        THEN {} ELSE {"window_wrong_colour"})
WinDrawFails(img, areas, mode, at, size, win, calls) ==
  LET abs == AbsChain(img, areas)
      off == abs[1]
      sz  == abs[2]
      empty == sz[1] = 0 \/ sz[2] = 0
      want(q) == Pixel(img, <<off[1] + q[1], off[2] + q[2]>>)
      o0 == IF mode = 0 THEN at ELSE <<at[1] - ((sz[1] - 1) \div 2), at[2] - ((sz[2] - 1) \div 2)>>
  IN   StreamCodes(calls)
  \cup (IF empty THEN (IF Touched(calls) = {} THEN {} ELSE {"window_touches_outside"})
        ELSE LET c0 == SemCodesWin(calls, o0, sz, want, win) IN
             IF c0 = {} THEN {}
             ELSE IF mode = 1 /\ \E o \in CenterOffsets(at, sz) : SemCodesWin(calls, o, sz, want, win) = {} THEN {}
             ELSE c0)

\* The same drawable (Image::new at `at`) on a target that discards the first k colours of the stream with one nth()
\* call and pulls the rest: exactly the colours from position k + 1 on arrive (none if k reaches the end)
SkipDrawFails(img, areas, at, size, k, calls) ==
  LET abs == AbsChain(img, areas)
      off == abs[1]
      sz  == abs[2]
      n == sz[1] * sz[2]
      exp == [i \in 1..n |-> Pixel(img, <<off[1] + ((i - 1) % sz[1]), off[2] + ((i - 1) \div sz[1])>>)]
      rest == IF k >= n THEN <<>> ELSE SubSeq(exp, k + 1, n)
  IN IF n = 0 THEN (IF \A i \in 1..Len(calls) : calls[i].n = 0 THEN {} ELSE {"skipped_stream"})
     ELSE IF /\ Len(calls) = 1 /\ calls[1].m = "fc" /\ calls[1].area = <<at[1], at[2], sz[1], sz[2]>>
             /\ calls[1].n = Len(rest) /\ calls[1].cs = rest
          THEN {} ELSE {"skipped_stream"}

\* ImageRaw::new on a huge size given as 16-bit halves <<whi, wlo, hhi, hlo>> with a buffer of len <= 64 bytes:
\* a size with w, h >= 1 and a side above 4096 requires more than 512 bytes
HugeNewWF(it) == it[5] \in 0..64 /\ it[6] \in {0, 1} /\ \A k \in 1..4 : it[k] \in 0..65535
HugeNewFails(bpp, it) ==
  LET zero  == (it[1] = 0 /\ it[2] = 0) \/ (it[3] = 0 /\ it[4] = 0)
      small == it[1] = 0 /\ it[3] = 0 /\ it[2] <= 4096 /\ it[4] <= 4096
      fits  == IF zero THEN it[5] = 0 ELSE IF small THEN it[5] = ExpectedLen(it[2], it[4], bpp) ELSE FALSE
  IN   (IF it[6] = 1 /\ ~fits THEN {"new_accepts_wrong_length"} ELSE {})
  \cup (IF it[6] = 0 /\ fits THEN {"new_rejects_required_length"} ELSE {})

\* One image with more than 2^32 pixels (1 bpp, all zero except the bytes o.rowbytes at the rows of the sub-image o.sub,
\* whose x is a multiple of 8 and whose width is 8 * Len(o.rowbytes[1])): the sub-image drawn at o.at, pixel() probes
\* <<x, y, option>>, and the whole image drawn at the origin on a target that stops reading after o.cap colours.
GiantBit(o, x, y) ==
  LET rx == x - o.sub[1]  ry == y - o.sub[2] IN
  IF rx >= 0 /\ rx < o.sub[3] /\ ry >= 0 /\ ry < o.sub[4]
  THEN (o.rowbytes[ry + 1][(rx \div 8) + 1] \div (2 ^ (7 - (rx % 8)))) % 2 ELSE 0
GiantFails(o) ==
  LET n == o.sub[3] * o.sub[4]
      exp == [i \in 1..n |-> GiantBit(o, o.sub[1] + ((i - 1) % o.sub[3]), o.sub[2] + ((i - 1) \div o.sub[3]))]
  IN   (IF /\ Len(o.subcalls) = 1 /\ o.subcalls[1].m = "fc"
           /\ o.subcalls[1].area = <<o.at[1], o.at[2], o.sub[3], o.sub[4]>>
           /\ o.subcalls[1].n = n /\ o.subcalls[1].cs = exp
        THEN {} ELSE {"giant_sub_image"})
  \cup (IF \A i \in 1..Len(o.probes) :
            LET p == o.probes[i]  inside == p[1] >= 0 /\ p[2] >= 0 /\ p[1] < o.size[1] /\ p[2] < o.size[2] IN
            p[3] = IF inside THEN Some(GiantBit(o, p[1], p[2])) ELSE NoneV
        THEN {} ELSE {"giant_pixel"})
  \cup (IF /\ Len(o.whole) = 1 /\ o.whole[1].m = "fc" /\ o.whole[1].area = <<0, 0, o.size[1], o.size[2]>>
           /\ o.whole[1].over = 1 /\ o.whole[1].n >= o.cap
           /\ \A i \in 1..Len(o.whole[1].cs) : o.whole[1].cs[i] = 0
        THEN {} ELSE {"giant_whole_stream"})
\* "@deep" run (dev-profile build, very long images that are empty or one pixel wide in the other direction):
\* the colour stream of the whole image has w x h colours, that of its lower half (sub_image at (0, h / 2), clipped
\* by the image) has w x (h - h / 2), and drawing needs no stack in proportion to the number of rows / columns
DeepFails(e) ==
       (IF e.n[1] = e.w * e.h THEN {} ELSE {"fill_contiguous_stream_length"})
  \cup (IF e.n[2] = e.w * (e.h - e.h \div 2) THEN {} ELSE {"sub_image_stream_length"})
  \cup (IF e.stack <= 262144 THEN {} ELSE {"stack_use_grows_with_image_size"})
=============================================================================
