CONSTANTS
  CWs = {2}
  CHs = {2}
  Ss = {0, 2}
  GPRs = {1, 3}
  RowsS = {1, 2}
  Extras = {0, 1}
  MapIds = {1, 2, 3, 4, 5, 6, 7, 8}
  Repls = {0, 4}
  Alphabet = {97, 98, 101, 122}
  MaxLen = 2
  StyleSet = "quick"
  Gen = FALSE
  Strict = TRUE
SPECIFICATION Spec
INVARIANTS LineOK RasterOK MappingOK GlyphOK
CHECK_DEADLOCK FALSE
