------------------------------- MODULE MC_C16 ------------------------------
(* (M) for C16: the transcribed Rectangle methods of EGGeom are explored as a *)
(* small machine over rectangles (state r; every method is an action that     *)
(* records its inputs and result in `last`),                                   *)
(* and the property-level predicates of P_C16 are checked on every step.      *)
(* The grid of initial rectangles is also printed as (G) cases.               *)
EXTENDS P_C16, TLC, Json, SequencesExt
CONSTANTS Lo, Hi, SMax, OffMax, Gen
VARIABLES r, last
\* negative constants cannot be written in a TLC cfg file; the cfg substitutes these
LoQuick == -2
LoThorough == -3

Grid == { <<x, y, w, h>> : x \in Lo..Hi, y \in Lo..Hi, w \in 0..SMax, h \in 0..SMax }
Sizes == { <<w, h>> : w \in 0..(SMax + 1), h \in 0..(SMax + 1) }

SeqOfSet(S) == SetToSeq(S)

\* the observation record of the unary battery, computed by the transcriptions
UnObs(q) ==
  [ center |-> Center(q), wc |-> WithCenter(Center(q), SizeOf(q)), br |-> BottomRight(q),
    probes |-> SeqOfSet({ <<p[1], p[2], IF ContainsT(q, p) THEN 1 ELSE 0>> : p \in PointsOf(Grow(q, 1)) }),
    pts_logged |-> 1, points |-> PointsSeq(q), proto |-> SeqProtoOf(PointsSeq(q), 2),
    rows |-> Rows(q), cols |-> Columns(q),
    anchors |-> [a \in 1..9 |-> AnchorPoint(q, a)],
    resized |-> SeqOfSet({ <<s[1], s[2], a, Resized(q, s, a)>> : s \in Sizes, a \in 1..9 }),
    rw |-> SeqOfSet({ <<w, k, ResizedWidth(q, w, k)>> : w \in 0..(SMax + 1), k \in 0..2 }),
    rh |-> SeqOfSet({ <<h, k, ResizedHeight(q, h, k)>> : h \in 0..(SMax + 1), k \in 0..2 }),
    off |-> SeqOfSet({ <<n, Offset(q, n)>> : n \in (-OffMax)..OffMax }),
    corners |-> SeqOfSet({ <<p, TopLeft(q), WithCorners(p, TopLeft(q))>> : p \in PointsOf(Grow(q, 1)) }) ]

Init == /\ r \in Grid
        /\ last = [op |-> "init"]
        /\ (Gen => PrintT("GEN " \o ToJson([k |-> "grid", r |-> r, lo |-> Lo, hi |-> Hi, smax |-> SMax])))

Bin == \E b \in Grid :
         /\ last' = [op |-> "bin", a |-> r, b |-> b, inter |-> Intersection(r, b),
                     rev |-> Intersection(b, r), env |-> Envelope(r, b)]
         /\ r' = r
Un  == /\ last' = [op |-> "un", r |-> r, u |-> UnObs(r)]
       /\ r' = r
Next == last.op = "init" /\ (Bin \/ Un)
Spec == Init /\ [][Next]_<<r, last>>

\* one method call per behaviour: the methods are pure, so longer histories add nothing

BinOK == last.op = "bin" => BinFails(last.a, last.b, last.inter, last.rev, last.env) = {}
UnOK  == last.op = "un"  => UnFails(last.r, last.u) = {}
\* interval form and set form of the abstract meaning agree on the grid
FormsAgree == last.op = "bin" =>
  /\ PointsOf(last.inter) = PointsOf(last.a) \cap PointsOf(last.b)
  /\ (PointsOf(last.a) \cup PointsOf(last.b)) \subseteq PointsOf(last.env)
PointsMachineOK == last.op = "un" => last.u.points = RowMajor(last.r)
=============================================================================
