------------------------------ MODULE EGTriangle -----------------------------
(* Triangles of embedded-graphics.  A triangle is <<a, b, c>> of points.      *)
(* ABSTRACT part: the closed mathematical triangle (cross products), its      *)
(* lattice points row by row (exact integer half-plane bounds), distance <= 1 *)
(* to an edge SEGMENT (exact: dot/cross products and an integer square root). *)
(* Valid without overflow for |coordinates| <= 700.                           *)
(* TRANSCRIBED part: Triangle::sorted_yx / sorted_clockwise / area_doubled /  *)
(* scanline_intersection (src/primitives/triangle/mod.rs), Scanline::extend / *)
(* bresenham_intersection (src/primitives/common/scanline.rs), and the fill-  *)
(* only ScanlineIterator (triangle/scanline_iterator.rs,                      *)
(* scanline_intersections.rs with stroke_width = 0) that Triangle::points()   *)
(* runs.  The stroke path (LineJoin, ThickSegment, is_collapsed) is NOT       *)
(* transcribed; the one-pixel outline is specified abstractly only.           *)
EXTENDS Integers, Sequences, EGInt, EGGeom, EGLine, SequencesExt

Big == 1048576

---------------------------------------------------------------------------
(* ABSTRACT *)
\* twice the signed area of (a, b, p): > 0 iff p is on the left of a -> b in a y-up frame
Orient(a, b, p) == Cross(PSub(b, a), PSub(p, a))
Area2(t) == Orient(t[1], t[2], t[3])
\* p is in the closed triangle (meaningful for Area2 # 0)
InsideTri(t, p) ==
  LET o1 == Orient(t[1], t[2], p)  o2 == Orient(t[2], t[3], p)  o3 == Orient(t[3], t[1], p) IN
  (o1 >= 0 /\ o2 >= 0 /\ o3 >= 0) \/ (o1 <= 0 /\ o2 <= 0 /\ o3 <= 0)
\* Euclidean distance of p to the segment u v is <= 1
NearSeg(u, v, p) ==
  LET d == PSub(v, u)  w == PSub(p, u)  t == Dot(w, d)  D2 == LenSq(d) IN
  IF t <= 0 THEN LenSq(w) <= 1
  ELSE IF t >= D2 THEN LenSq(PSub(p, v)) <= 1
  ELSE Abs(Cross(d, w)) <= ISqrt(D2)                 \* |cross| / |d| <= 1, |cross| an integer
NearEdge(t, p) == NearSeg(t[1], t[2], p) \/ NearSeg(t[2], t[3], p) \/ NearSeg(t[3], t[1], p)
\* bounding box <<x, y, w, h>>
TriBox(t) ==
  LET x0 == Min(Min(t[1][1], t[2][1]), t[3][1])  x1 == Max(Max(t[1][1], t[2][1]), t[3][1])
      y0 == Min(Min(t[1][2], t[2][2]), t[3][2])  y1 == Max(Max(t[1][2], t[2][2]), t[3][2])
  IN <<x0, y0, x1 - x0 + 1, y1 - y0 + 1>>
\* the x with sgn * Orient(u, v, <<x, y>>) >= 0, as an interval <<lo, hi>>:
\* sgn * Orient = K - dy * x  with  dx, dy = sgn * (v - u),  K = dx * (y - u.y) + dy * u.x
EdgeRowBound(u, v, sgn, y) ==
  LET dx == sgn * (v[1] - u[1])  dy == sgn * (v[2] - u[2])
      K  == dx * (y - u[2]) + dy * u[1]
  IN IF dy > 0 THEN <<-Big, K \div dy>>
     ELSE IF dy < 0 THEN <<CeilDiv(-K, -dy), Big>>
     ELSE IF K >= 0 THEN <<-Big, Big>> ELSE <<Big, -Big>>
\* the lattice points of the closed triangle in row y are exactly lo..hi (empty iff lo > hi); Area2 # 0
TriRowInterval(t, y) ==
  LET sgn == Sgn(Area2(t))
      b1 == EdgeRowBound(t[1], t[2], sgn, y)
      b2 == EdgeRowBound(t[2], t[3], sgn, y)
      b3 == EdgeRowBound(t[3], t[1], sgn, y)
  IN <<Max(Max(b1[1], b2[1]), b3[1]), Min(Min(b1[2], b2[2]), b3[2])>>

---------------------------------------------------------------------------
(* TRANSCRIBED: src/primitives/triangle/mod.rs *)
\* sort_two_yx (mod.rs:325)
SortTwoYX(p1, p2) ==
  IF p1[2] < p2[2] \/ (p1[2] = p2[2] /\ p1[1] < p2[1]) THEN <<p1, p2>> ELSE <<p2, p1>>
\* Triangle::sorted_yx (mod.rs:202)
SortedYX(t) ==
  LET s1 == SortTwoYX(t[1], t[2])        \* (y1, y2)
      s2 == SortTwoYX(t[3], s1[1])       \* (y1, y3)
      s3 == SortTwoYX(s2[2], s1[2])      \* (y2, y3)
  IN <<s2[1], s3[1], s3[2]>>
\* Triangle::area_doubled (mod.rs:181)
AreaDoubled(t) ==
  LET p1 == t[1]  p2 == t[2]  p3 == t[3] IN
  (-p2[2]) * p3[1] + p1[2] * (p3[1] - p2[1]) + p1[1] * (p2[2] - p3[2]) + p2[1] * p3[2]
\* Triangle::sorted_clockwise (mod.rs:188)
SortedClockwise(t) ==
  LET a == AreaDoubled(t) IN
  IF a < 0 THEN <<t[2], t[1], t[3]>> ELSE IF a > 0 THEN t ELSE SortedYX(t)

(* Scanline (common/scanline.rs): <<y, xs, xe>>, the x range xs..xe is half open *)
ScanEmpty(y) == <<y, 0, 0>>                          \* new_empty (:23)
ScanIsEmpty(sc) == sc[2] >= sc[3]                    \* is_empty (:28)
\* extend (scanline.rs:33)
ScanExtend(sc, x) ==
  IF ScanIsEmpty(sc) THEN <<sc[1], x, x + 1>>
  ELSE IF x < sc[2] THEN <<sc[1], x, sc[3]>>
  ELSE IF x >= sc[3] THEN <<sc[1], sc[2], x + 1>>
  ELSE sc
\* bresenham_intersection (scanline.rs:47-67): points().skip_while(y differs).take_while(y equal).for_each(extend)
BresenhamIntersection(sc, s, e) ==
  IF ~(Min(s[2], e[2]) <= sc[1] /\ sc[1] <= Max(s[2], e[2])) THEN sc               \* :49-57
  ELSE FoldLeft(LAMBDA a, p :      \* a = <<phase (0 skipping, 1 taking, 2 done), scanline>>
                  IF a[1] = 2 THEN a
                  ELSE IF p[2] = sc[1] THEN <<1, ScanExtend(a[2], p[1])>>
                  ELSE IF a[1] = 1 THEN <<2, a[2]>> ELSE a,
                <<0, sc>>, LinePoints(s, e))[2]
\* Triangle::scanline_intersection (mod.rs:212-233)
TriScanline(t, y) ==
  LET sv == SortedYX(t)  p1 == sv[1]  p2 == sv[2]  p3 == sv[3] IN
  IF AreaDoubled(t) = 0 THEN BresenhamIntersection(ScanEmpty(y), p1, p3)           \* :221
  ELSE BresenhamIntersection(BresenhamIntersection(BresenhamIntersection(ScanEmpty(y), p1, p2), p1, p3), p2, p3)

(* ScanlineIterator for stroke_width = 0, has_fill = true (what Triangle::points() builds,          *)
(* triangle/points.rs:18): scanline_intersections.rs:140-190 then yields exactly one line per row,  *)
(* internal = triangle.scanline_intersection(y) (:173), first = second = empty.                     *)
(* state [tri (sorted clockwise), rows <<next, end>>, internal (pending scanline)]                  *)
TriScanInit(t) ==                                                                    \* scanline_iterator.rs:21-49
  LET tc == SortedClockwise(t)  bb == TriBox(t) IN
  [tri |-> tc, rows |-> <<bb[2] + 1, bb[2] + bb[4]>>, internal |-> TriScanline(tc, bb[2])]
\* Iterator::next (scanline_iterator.rs:63-71, scanline_intersections.rs:196-207): <<some?, scanline, state'>>
TriScanNext(it) ==
  IF ~ScanIsEmpty(it.internal)                                                       \* try_take (scanline.rs:129)
  THEN <<TRUE, it.internal, [it EXCEPT !.internal = <<it.internal[1], 0, 0>>]>>
  ELSE IF it.rows[1] >= it.rows[2] THEN <<FALSE, <<>>, it>>                          \* rows.next()?
  ELSE LET y == it.rows[1]  sc == TriScanline(it.tri, y)
           it1 == [it EXCEPT !.rows = <<y + 1, it.rows[2]>>] IN
       IF ScanIsEmpty(sc) THEN <<FALSE, <<>>, [it1 EXCEPT !.internal = sc]>>         \* an empty row ends the iteration
       ELSE <<TRUE, sc, [it1 EXCEPT !.internal = <<y, 0, 0>>]>>
\* Triangle::points() (triangle/points.rs:39-45) flattens the scanlines; as row runs <<y, x0, x1>> (x1 inclusive)
RECURSIVE TriScanDrain(_, _)
TriScanDrain(it, acc) ==
  LET r == TriScanNext(it) IN
  IF r[1] THEN TriScanDrain(r[3], Append(acc, <<r[2][1], r[2][2], r[2][3] - 1>>)) ELSE acc
TriPointsRuns(t) == TriScanDrain(TriScanInit(t), <<>>)
=============================================================================
