------------------------------- MODULE MC_C19 ------------------------------
(* (M) for C19.  Three families of behaviours, selected by `mode`:            *)
(*  poly : polyline::Points (EGLine, polyline/points.rs) stepped one next()   *)
(*         per action for every polyline with <= NV vertices in a GL x GL     *)
(*         grid (repeats and reversals included), two translations;           *)
(*         invariant: the emitted sequence is a prefix of / equals the        *)
(*         concatenation of the segment lines with shared joints dropped.     *)
(*  tri  : the fill-only ScanlineIterator that Triangle::points() runs        *)
(*         (EGTriangle), one scanline per action, for every vertex multiset   *)
(*         of a GT x GT grid; invariants: cover / outside per row, and at the *)
(*         end the property battery incl. all 6 vertex orders.                *)
(*  pair : all (a,b,c,d) of a GP x GP grid with c, d strictly on opposite     *)
(*         sides of ab: no gap, shared edge line in both (single state).      *)
(* The one-pixel OUTLINE of a triangle is not transcribed (LineJoin /         *)
(* ThickSegment); it is checked on the real code only (Trace_C19).            *)
(* Every explored case is printed as a (G) descriptor.                        *)
EXTENDS P_C19, TLC, Json
CONSTANTS GT, GP, GL, NV, Gen
VARIABLES mode, inp, it, out, done
vars == <<mode, inp, it, out, done>>

\* grids are shifted so that coordinates of both signs occur
Grid(g) == { <<x - 1, y - 2>> : x \in 0..(g - 1), y \in 0..(g - 1) }
Idx(p) == p[2] * 64 + p[1]
TriCases  == { t \in Grid(GT) \X Grid(GT) \X Grid(GT) : Idx(t[1]) <= Idx(t[2]) /\ Idx(t[2]) <= Idx(t[3]) }
PairCases == { q \in Grid(GP) \X Grid(GP) \X Grid(GP) \X Grid(GP) :
                 Idx(q[1]) < Idx(q[2]) /\ Orient(q[1], q[2], q[3]) > 0 /\ Orient(q[1], q[2], q[4]) < 0 }
PolyCases == { [v |-> v, off |-> off] : v \in UNION { [1..k -> Grid(GL)] : k \in 0..NV }, off \in { <<0, 0>>, <<-2, 3>> } }

Init == \/ \E t \in TriCases :
             /\ mode = "tri" /\ inp = t /\ it = TriScanInit(t) /\ out = <<>> /\ done = FALSE
             /\ (Gen => PrintT("GEN " \o ToJson([k |-> "tri", v |-> t])))
        \/ \E q \in PairCases :
             /\ mode = "pair" /\ inp = q /\ it = <<>> /\ out = <<>> /\ done = TRUE
             /\ (Gen => PrintT("GEN " \o ToJson([k |-> "pair", v |-> q])))
        \/ \E c \in PolyCases :
             /\ mode = "poly" /\ inp = c /\ it = PolyInit(c.v, c.off) /\ out = <<>> /\ done = FALSE
             /\ (Gen => PrintT("GEN " \o ToJson([k |-> "poly", v |-> [i \in 1..Len(c.v) |-> c.v[i]], off |-> c.off])))

\* one call of ScanlineIterator::next()
StepTri ==
  /\ mode = "tri" /\ ~done
  /\ LET r == TriScanNext(it) IN
       IF r[1] THEN out' = Append(out, <<r[2][1], r[2][2], r[2][3] - 1>>) /\ it' = r[3] /\ done' = FALSE
       ELSE out' = out /\ it' = r[3] /\ done' = TRUE
  /\ UNCHANGED <<mode, inp>>
\* one call of polyline::Points::next()
StepPoly ==
  /\ mode = "poly" /\ ~done
  /\ LET r == PolyNext(it) IN
       IF r[1] THEN out' = Append(out, r[2]) /\ it' = r[3] /\ done' = FALSE
       ELSE out' = out /\ it' = r[3] /\ done' = TRUE
  /\ UNCHANGED <<mode, inp>>
Next == StepTri \/ StepPoly
Spec == Init /\ [][Next]_vars

n == Len(out)

---------------------------------------------------------------------------
(* triangles *)
\* one run per row, top to bottom
TriRowsInOrder == mode = "tri" => \A i \in 1..n : out[i][1] = TriBox(inp)[2] + i - 1 /\ out[i][2] <= out[i][3]
\* cover / outside for the row just emitted
TriRowOK == (mode = "tri" /\ n >= 1 /\ Area2(inp) # 0) =>
  LET run == out[n]  iv == TriRowInterval(inp, run[1]) IN
  /\ iv[1] > iv[2] \/ (run[2] <= iv[1] /\ iv[2] <= run[3])
  /\ \A x \in run[2]..run[3] : (iv[1] <= x /\ x <= iv[2]) \/ NearEdge(inp, <<x, run[1]>>)
\* at the end: every row was produced, and the property battery holds for all 6 vertex orders
TriEndOK == (mode = "tri" /\ done) =>
  /\ n = TriBox(inp)[4]
  /\ TriFillFails(inp, [k \in 1..6 |-> IF k = 1 THEN out ELSE TriPointsRuns(Perm(inp, k))]) = {}
\* the row-interval form of the closed triangle agrees with the cross-product form on the bounding box
TriFormsAgree == (mode = "tri" /\ done /\ Area2(inp) # 0) =>
  \A p \in PointsOf(Grow(TriBox(inp), 1)) :
    InsideTri(inp, p) = (LET iv == TriRowInterval(inp, p[2]) IN iv[1] <= p[1] /\ p[1] <= iv[2])
\* the transcribed area is the abstract orientation, and the clockwise sort makes it non-negative
TriAreaAgree == mode = "tri" => AreaDoubled(inp) = Area2(inp) /\ AreaDoubled(SortedClockwise(inp)) >= 0
\* the three edge lines from the (y,x)-sorted vertices lie in the fill (the outline is part of the triangle)
TriEdgesInFill == (mode = "tri" /\ done) =>
  LET sv == SortedYX(inp) IN
  \A p \in ToSet(LinePoints(sv[1], sv[2])) \cup ToSet(LinePoints(sv[1], sv[3])) \cup ToSet(LinePoints(sv[2], sv[3])) :
    InRuns(out, p)

(* pairs *)
PairOK == mode = "pair" =>
  PairFails(inp, TriPointsRuns(<<inp[1], inp[2], inp[3]>>), TriPointsRuns(<<inp[1], inp[2], inp[4]>>),
            LinePoints(inp[1], inp[2]), LinePoints(inp[2], inp[1])) = {}

(* polylines *)
Segs == [i \in 1..(Len(inp.v) - 1) |-> LinePoints(PAdd(inp.v[i], inp.off), PAdd(inp.v[i + 1], inp.off))]
PolyPrefixOK == mode = "poly" => IsPrefix(out, IF Len(inp.v) < 2 THEN <<>> ELSE PolyExpected(Segs))
\* a joint is never emitted twice in a row
PolyNoStutter == (mode = "poly" /\ n >= 2) => out[n] # out[n - 1]
PolyEndOK == (mode = "poly" /\ done) => PolyFails(inp.v, Segs, out, out, out) = {}
=============================================================================
