----------------------------- MODULE Proof_C06 -----------------------------
(* Unbounded versions of the stroke-width arithmetic behind property C06 that *)
(* MC_C06 checks for widths 0..7: for EVERY stroke width the inside and the   *)
(* outside part add up to the width, Center puts the larger half inside, and  *)
(* the transcribed Rectangle::offset (centre-based: WithCenter(Center(r), ..) *)
(* of EGGeom) is the grown / shrunk rectangle of the abstract reading for     *)
(* every non-degenerate rectangle - which is where "the stroke area is the    *)
(* shape grown on every side by the outside part" comes from.  Checked with   *)
(* TLAPS (tlapm); not load-bearing for any check.                             *)
EXTENDS Integers, TLAPS

OutsideW(al, w) == CASE al = 0 -> 0 [] al = 1 -> w \div 2 [] OTHER -> w
InsideW(al, w)  == CASE al = 0 -> w [] al = 1 -> (w + 1) \div 2 [] OTHER -> 0

THEOREM WidthSplits ==
  ASSUME NEW al \in {0, 1, 2}, NEW w \in Nat
  PROVE  /\ InsideW(al, w) \in Nat /\ OutsideW(al, w) \in Nat
         /\ InsideW(al, w) + OutsideW(al, w) = w
         /\ al = 1 => InsideW(al, w) - OutsideW(al, w) \in {0, 1}
<1>1. CASE al = 0
  BY <1>1 DEF InsideW, OutsideW
<1>2. CASE al = 2
  BY <1>2 DEF InsideW, OutsideW
<1>3. CASE al = 1
  <2>1. w = 2 * (w \div 2) + (w % 2) /\ (w % 2) \in {0, 1}
    OBVIOUS
  <2>2. (w + 1) \div 2 = (w \div 2) + (w % 2)
    BY <2>1
  <2> QED BY <1>3, <2>1, <2>2 DEF InsideW, OutsideW
<1> QED BY <1>1, <1>2, <1>3

LEMMA DivShift ==
  ASSUME NEW a \in Nat, NEW n \in Nat
  PROVE  (a + 2 * n) \div 2 = (a \div 2) + n
  OBVIOUS

\* Rectangle::center / with_center / offset for a rectangle with both sides >= 1 (mod.rs:140, 120, 424), n >= 0:
\* center = top_left + (size - 1) / 2, with_center(c, s) = c - (s - 1) / 2
CenterC(pos, len) == pos + (len - 1) \div 2
FromCenter(c, len) == c - (len - 1) \div 2
THEOREM OffsetGrows ==
  ASSUME NEW pos \in Int, NEW len \in Nat, len >= 1, NEW n \in Nat
  PROVE  FromCenter(CenterC(pos, len), len + 2 * n) = pos - n
<1> DEFINE m == len - 1
<1>0. m \in Nat
  OBVIOUS
<1>1. m = 2 * (m \div 2) + (m % 2) /\ (m % 2) \in {0, 1}
  BY <1>0
<1>2. (m + 2 * n) \div 2 = (m \div 2) + n
  BY <1>0, DivShift
<1> QED BY <1>2 DEF FromCenter, CenterC

\* ... and shrinking by n while both sides stay >= 1
THEOREM OffsetShrinks ==
  ASSUME NEW pos \in Int, NEW len \in Nat, NEW n \in Nat, len - 2 * n >= 1
  PROVE  FromCenter(CenterC(pos, len), len - 2 * n) = pos + n
<1> DEFINE m == len - 1 - 2 * n
<1>0. m \in Nat
  OBVIOUS
<1>1. m = 2 * (m \div 2) + (m % 2) /\ (m % 2) \in {0, 1}
  BY <1>0
<1>2. (m + 2 * n) \div 2 = (m \div 2) + n
  BY <1>0, DivShift
<1>3. len - 1 = m + 2 * n
  OBVIOUS
<1> QED BY <1>2, <1>3 DEF FromCenter, CenterC
=============================================================================
