CONSTANTS
  FontIds = {1, 2}
  MaxLen = 4
  StyleIds = {1, 2, 3}
  LHIds = {1, 2, 3, 4}
  Variant = "crlf"
  Strict = FALSE
  Gen = TRUE
SPECIFICATION Spec
INVARIANTS LayoutOK MachineOK
CHECK_DEADLOCK FALSE
