P = dict(
    bin="egv_c13", trace="Trace_C13", level="model_checking",
    mc=[dict(module="MC_C13", quick_cfg="MC_C13.cfg", thorough_cfg="MC_C13.cfg")],
    required_events=["graph", "pair", "lrows"],
    level_text="TLC explores the transcribed convert_channel for all 7x7 channel-width pairs x all inputs (complete), the transcribed "
               "conversion of every ordered pair of colour types, the luma formula on a 16^3 lattice and the gray->RGB->gray pipeline "
               "against the nearest-value / extremes / monotonicity / round-trip rules; the real From impls of all 182 ordered pairs are "
               "run over every source colour (all 2^24 for the 24-bit sources), projected onto "
               "per-channel relations and validated by TLC against the same predicates",
    level_note="trusted: EGColor abstract part (type table, Nearest, UpperHalf, Widens), P_C13, recorder egv_c13 (the per-channel "
               "projection); RGB->gray is only required to be monotone with fixed extremes (luma weights are a drift item); "
               "monotonicity of RGB->gray is checked on a lattice of the two other channels, not for every row",
    rule="one case per ordered pair of colour types (182) plus the graph case; a case converts every source colour of the source type; "
         "harness note `conversions` counts the individual conversions; all pair cases "
         "are non-trivial",
    trusted=COMMON_TRUSTED + ["spec/EGColor.tla abstract part and spec/P_C13.tla"],
    exhaustive=dict(quick=True, thorough=True),
)
