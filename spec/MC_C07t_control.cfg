CONSTANTS
  G = 2
  Ws = {2, 3}
  D <- DQuick
  Als = {2}
  HasFill = TRUE
  RoundMode <- AwayMode
SPECIFICATION Spec
INVARIANTS Equivariant
CHECK_DEADLOCK FALSE
