//! C03 recorder: drawing operations issued through adapter stacks; logs what reaches the parent.
use egv::stacks::*;
use egv::targets::*;
use egv::util::*;
use egv::*;
use embedded_graphics::{
    image::{ImageDrawable, ImageRaw},
    pixelcolor::Rgb888,
    prelude::*,
    primitives::Rectangle,
    Pixel,
};

struct Boxes {
    boxes: Vec<Value>,
    cmaps: Vec<Value>,
}
impl StackVisitor for Boxes {
    fn layer_box(&mut self, level: usize, b: Rectangle) {
        assert_eq!(level, self.boxes.len());
        self.boxes.push(rect_json(&b));
    }
    fn cmap(&mut self, level: usize, table: Value) {
        while self.cmaps.len() < level {
            self.cmaps.push(json!([]));
        }
        self.cmaps[level - 1] = table;
    }
    fn top<T, C>(&mut self, _t: &mut T)
    where
        T: DrawTarget<Color = C, Error = FaultErr>,
        C: Chain,
        for<'a> ImageRaw<'a, C>: ImageDrawable<Color = C>,
    {
    }
}

/// issues one operation on the top of the stack; remembers the operation as actually issued
struct IssueOp<'a> {
    op: &'a Value,
    actual: Value,
}
impl<'a> StackVisitor for IssueOp<'a> {
    fn top<T, C>(&mut self, t: &mut T)
    where
        T: DrawTarget<Color = C, Error = FaultErr>,
        C: Chain,
        for<'b> ImageRaw<'b, C>: ImageDrawable<Color = C>,
    {
        let mask = if C::BITS >= 32 { u32::MAX } else { (1u32 << C::BITS) - 1 };
        let col = |v: &Value| C::from_u32(i(v) as u32 & mask);
        let op = self.op;
        let zero = json!([0, 0, 0, 0]);
        match op["m"].as_str().unwrap() {
            "draw_iter" => {
                let px: Vec<Pixel<C>> = op["px"].as_array().unwrap().iter().map(|e| Pixel(Point::new(i(&e[0]) as i32, i(&e[1]) as i32), col(&e[2]))).collect();
                self.actual = json!({"m":"draw_iter","area":zero,"color":-1,"colors":[],
                    "px": px.iter().map(|Pixel(p, c)| json!([p.x, p.y, c.raw()])).collect::<Vec<_>>()});
                t.draw_iter(px.into_iter()).unwrap();
            }
            "fill_contiguous" => {
                let cs: Vec<C> = op["colors"].as_array().unwrap().iter().map(|c| col(c)).collect();
                self.actual = json!({"m":"fill_contiguous","area":op["area"],"color":-1,"px":[],
                    "colors": cs.iter().map(|c| c.raw()).collect::<Vec<_>>()});
                t.fill_contiguous(&rect_from(&op["area"]), cs.into_iter()).unwrap();
            }
            "fill_solid" => {
                let c = col(&op["color"]);
                self.actual = json!({"m":"fill_solid","area":op["area"],"color":c.raw(),"colors":[],"px":[]});
                t.fill_solid(&rect_from(&op["area"]), c).unwrap();
            }
            "clear" => {
                let c = col(&op["color"]);
                self.actual = json!({"m":"clear","area":zero,"color":c.raw(),"colors":[],"px":[]});
                t.clear(c).unwrap();
            }
            m => panic!("unknown op {}", m),
        }
    }
}

fn run_on<T: DrawTarget<Color = Rgb888, Error = FaultErr>>(
    rec: &mut Rec,
    desc: &Value,
    parent: &mut T,
    calls_since: &mut dyn FnMut(&T, usize) -> (Vec<Value>, usize),
) {
    let layers = desc["layers"].as_array().unwrap();
    let mut b = Boxes { boxes: vec![], cmaps: vec![] };
    with_stack(parent, layers, &mut b);
    while b.cmaps.len() < layers.len() {
        b.cmaps.push(json!([]));
    }
    rec.ev("stack", json!({"pbox": desc["pbox"], "native": desc["native"], "layers": desc["layers"], "boxes": b.boxes, "cmaps": b.cmaps}));
    let mut seen = 0usize;
    let huge = desc["huge"].as_i64() == Some(1);
    for op in desc["ops"].as_array().unwrap() {
        let mut v = IssueOp { op, actual: json!({}) };
        // a panic inside one operation is recorded for that operation
        let r = catch(|| with_stack(parent, layers, &mut v));
        let (calls, n) = calls_since(parent, seen);
        seen = n;
        if !calls.is_empty() {
            rec.nontrivial();
        }
        match r {
            Ok(()) => rec.ev(if huge { "hugeop" } else { "op" }, json!({"op": v.actual, "parent": calls})),
            Err(p) => {
                rec.note("panicked_operations");
                rec.ev("oppanic", json!({"op": op, "msg": p.msg, "loc": p.loc}));
            }
        }
    }
}

/// A colour stream with a constant-time nth(): the colour of stream position i of an area `w` wide is a function of
/// (row, column) = (i / w, i % w), so that the checker can predict it without forming i (which exceeds 32 bits).
struct RowColStream {
    pos: u64,
    w: u64,
}
impl RowColStream {
    fn colour(row: u64, col: u64) -> u32 {
        ((row * 7 + col * 3) % 251) as u32
    }
}
impl Iterator for RowColStream {
    type Item = Rgb888;
    fn next(&mut self) -> Option<Rgb888> {
        let c = Self::colour(self.pos / self.w, self.pos % self.w);
        self.pos += 1;
        Some(<Rgb888 as Col>::from_u32(c))
    }
    fn nth(&mut self, n: usize) -> Option<Rgb888> {
        self.pos += n as u64;
        self.next()
    }
}

/// fill_contiguous of a huge area through a clipped target whose clip area lies behind stream position 2^32
fn run_hugeclip(rec: &mut Rec, desc: &Value) {
    rec.begin(desc.clone());
    let (pbox, clip, area) = (rect_from(&desc["pbox"]), rect_from(&desc["clip"]), rect_from(&desc["area"]));
    let r = catch(|| {
        let mut p = LogNative::<Rgb888>::new(pbox);
        p.clipped(&clip).fill_contiguous(&area, RowColStream { pos: 0, w: area.size.width as u64 }).unwrap();
        p.calls_json()
    });
    match r {
        Ok(calls) => {
            rec.nontrivial();
            rec.ev("hugeclip", json!({"pbox": desc["pbox"], "clip": desc["clip"], "area": desc["area"], "parent": calls}));
        }
        Err(p) => {
            rec.note("panicked_operations");
            rec.ev("oppanic", json!({"op": desc, "msg": p.msg, "loc": p.loc}));
        }
    }
}

fn run_case(rec: &mut Rec, desc: &Value) {
    if desc["k"].as_str() == Some("hugeclip") {
        return run_hugeclip(rec, desc);
    }
    rec.begin(desc.clone());
    let pbox = rect_from(&desc["pbox"]);
    let r = catch(|| {
        if i(&desc["native"]) == 1 {
            let mut p = LogNative::<Rgb888>::new(pbox);
            run_on(rec, desc, &mut p, &mut |p: &LogNative<Rgb888>, from| (p.calls[from..].iter().map(|c| c.to_json()).collect(), p.calls.len()));
        } else {
            let mut p = LogDefault::<Rgb888>::new(pbox);
            if let Some(c) = desc["cap"].as_u64() {
                p.cap = c as usize;
            }
            run_on(rec, desc, &mut p, &mut |p: &LogDefault<Rgb888>, from| (p.calls[from..].iter().map(|c| c.to_json()).collect(), p.calls.len()));
        }
    });
    if let Err(p) = r {
        rec.note("panicked_cases");
        rec.ev("panic", json!({"msg": p.msg, "loc": p.loc}));
    }
}

fn rnd_rect(rng: &mut Rng, lo: i32, hi: i32, smax: u32) -> Value {
    let s = |rng: &mut Rng| if rng.chance(1, 7) { 0 } else { rng.u32r(0, smax) };
    json!([rng.i32(lo, hi), rng.i32(lo, hi), s(rng), s(rng)])
}

fn rnd_layer(rng: &mut Rng, lo: i32, hi: i32, smax: u32) -> Value {
    match rng.u32r(0, 6) {
        0 | 1 => json!({"k":"tr","o":[rng.i32(-4, 4) * if hi > 50 { 37 } else { 1 }, rng.i32(-4, 4)]}),
        2 | 3 => json!({"k":"cl","a":rnd_rect(rng, lo, hi, smax)}),
        4 | 5 => json!({"k":"cr","a":rnd_rect(rng, lo, hi, smax)}),
        _ => json!({"k":"cc"}),
    }
}

fn rnd_op(rng: &mut Rng, lo: i32, hi: i32, smax: u32) -> Value {
    let zero = json!([0, 0, 0, 0]);
    match rng.u32r(0, 9) {
        0..=2 => {
            let n = rng.usize(0, 12);
            let mut px: Vec<Value> = vec![];
            for _ in 0..n {
                if !px.is_empty() && rng.chance(1, 5) {
                    let mut e = px[rng.usize(0, px.len() - 1)].clone(); // duplicate point, other colour
                    e[2] = json!(rng.u32r(0, 255));
                    px.push(e);
                } else {
                    px.push(json!([rng.i32(lo - 2, hi + 2), rng.i32(lo - 2, hi + 2), rng.u32r(0, 255)]));
                }
            }
            json!({"m":"draw_iter","area":zero,"color":-1,"colors":[],"px":px})
        }
        3..=6 => {
            let a = rnd_rect(rng, lo, hi, smax);
            let full = (i(&a[2]) * i(&a[3])) as usize;
            let n = match rng.u32r(0, 5) {
                0 => rng.usize(0, full),      // short stream
                1 => full + rng.usize(1, 5),  // over-long stream
                _ => full,
            };
            let cs: Vec<u32> = (0..n).map(|k| (k as u32 * 7 + 1) % 251).collect();
            json!({"m":"fill_contiguous","area":a,"color":-1,"colors":cs,"px":[]})
        }
        7 | 8 => json!({"m":"fill_solid","area":rnd_rect(rng, lo, hi, smax),"color":rng.u32r(0, 255),"colors":[],"px":[]}),
        _ => json!({"m":"clear","area":zero,"color":rng.u32r(0, 255),"colors":[],"px":[]}),
    }
}

fn main() {
    let args = Args::parse();
    install_panic_hook();
    let mut rec = Rec::new(&args);
    let mut rng = Rng::new(args.seed ^ 0xC03);
    let th = args.thorough();
    if let Some(cases) = &args.cases {
        for d in cases {
            run_case(&mut rec, d);
        }
        rec.finish(json!({}));
        return;
    }
    // (G): stacks explored by MC_C03 x the operation alphabet it explored, in chunks
    let mut alphabet: Vec<Value> = vec![];
    for g in &args.gen {
        if g["k"] == "alphabet" {
            alphabet = g["ops"].as_array().unwrap().clone();
        }
    }
    let mut n = 0usize;
    for g in &args.gen {
        if g["k"] == "stack" {
            for (ci, chunk) in alphabet.chunks(48).enumerate() {
                n += 1;
                // every chunk on the native parent; every third also on the draw_iter-only parent
                for native in [1, 0] {
                    if native == 0 && (n + ci) % 3 != 0 {
                        continue;
                    }
                    let mut ops = chunk.to_vec();
                    if n % 2 == 0 {
                        ops.reverse();
                    }
                    run_case(&mut rec, &json!({"pbox": g["pbox"], "native": native, "layers": g["layers"], "ops": ops}));
                }
            }
        }
    }
    for d in &args.witnesses {
        run_case(&mut rec, d);
    }
    // systematic sweep: every way a fill_contiguous area can overlap a clip (width, left cut, right cut,
    // rows cut above / below), distinct colour per stream position, full / short / over-long streams
    {
        let mut ops_by_clip: Vec<(Value, Vec<Value>)> = vec![];
        let wmax = if th { 12 } else { 9 };
        for cx in 0..=4 {
            for cw in 1..=8u32 {
                for (cy, ch) in [(0, 8u32), (2, 3), (3, 1)] {
                    let mut ops = vec![];
                    for ax in -2..=5 {
                        for aw in 1..=wmax {
                            let (ay, ah) = match (ax + aw as i32 + cx) % 3 { 0 => (1, 3), 1 => (-1, 4), _ => (2, 2) };
                            let full = (aw * ah) as usize;
                            let n = match (ax + 2 * aw as i32 + cw as i32) % 7 { 0 => full - 1, 1 => full + 2, 2 => full / 2, _ => full };
                            let cs: Vec<u32> = (0..n).map(|k| (k as u32 * 5 + 1) % 251).collect();
                            ops.push(json!({"m":"fill_contiguous","area":[ax, ay, aw, ah],"color":-1,"colors":cs,"px":[]}));
                        }
                    }
                    ops_by_clip.push((json!([cx, cy, cw, ch]), ops));
                }
            }
        }
        let mut k = 0usize;
        for (clip, ops) in ops_by_clip {
            for chunk in ops.chunks(36) {
                k += 1;
                let layers = match k % 4 {
                    0 => json!([{"k":"cl","a":clip}]),
                    1 => json!([{"k":"tr","o":[1, -1]}, {"k":"cl","a":clip}]),
                    2 => json!([{"k":"cl","a":clip}, {"k":"tr","o":[-1, 0]}]),
                    _ => json!([{"k":"cl","a":[0, 0, 11, 7]}, {"k":"cl","a":clip}]),
                };
                run_case(&mut rec, &json!({"pbox": [0, 0, 12, 8], "native": ((k / 4) % 2 == 0) as i32, "layers": layers, "ops": chunk}));
            }
        }
    }
    // huge areas (>= 2^32 points) through the default fill methods: only a prefix of the pixel stream is pulled
    for (k, area) in [[-5, -3, 65536, 65536], [2, 1, 70000, 61357], [0, 0, 4294967, 1001], [-1, -1, 65536, 65537]].iter().enumerate() {
        for layers in [json!([]), json!([{"k":"tr","o":[3, -2]}]), json!([{"k":"cc"}, {"k":"tr","o":[-1, 1]}]), json!([{"k":"tr","o":[1, 1]}, {"k":"cc"}, {"k":"cc"}])] {
            let ops = json!([
                {"m":"fill_solid","area":area,"color":77 + k,"colors":[],"px":[]},
                {"m":"fill_contiguous","area":area,"color":-1,"colors":(0..900).map(|j| (j * 3 + 1) % 251).collect::<Vec<u32>>(),"px":[]},
            ]);
            run_case(&mut rec, &json!({"pbox": [0, 0, 9, 7], "native": 0, "layers": layers, "ops": ops, "huge": 1, "cap": 700}));
        }
    }
    // a huge area through a clipped target: the visible part lies behind stream position 2^32 (rows above the clip x
    // width + columns left of it), so the adapter has to seek that far in the colour stream
    for (area, clip) in [([-70000, -70000, 70010, 70012], [0, 0, 9, 7]), ([-5, -65536, 65536, 65540], [1, 1, 6, 3]), ([-100000, -43000, 100004, 43003], [0, 0, 12, 8]),
                         ([2, -3, 70000, 5], [3, 0, 4, 4])] {
        run_case(&mut rec, &json!({"k":"hugeclip","pbox":[0, 0, 12, 8],"clip":clip,"area":area}));
    }
    // seeded stacks of depth <= 3
    let nseed = if th { 60_000 } else { 3_000 };
    for k in 0..nseed {
        let (lo, hi, smax) = if th && k % 5 == 0 { (-1000, 1000, 40) } else { (-6, 10, 9) };
        let depth = rng.usize(0, 3);
        let layers: Vec<Value> = (0..depth).map(|_| rnd_layer(&mut rng, lo, hi, smax)).collect();
        let pbox = if rng.chance(1, 12) { json!([rng.i32(lo, hi), rng.i32(lo, hi), 0, rng.u32r(0, 3)]) } else { rnd_rect(&mut rng, lo, hi, smax + 4) };
        let ops: Vec<Value> = (0..4).map(|_| rnd_op(&mut rng, lo, hi, smax)).collect();
        run_case(&mut rec, &json!({"pbox": pbox, "native": (k % 2) as i32, "layers": layers, "ops": ops}));
    }
    // parents and clip areas at the very top / left of the coordinate range (rows and columns i32::MIN): clipped layers only
    // (a translated or cropped box would not be representable there)
    {
        const M: i64 = i32::MIN as i64;
        for native in [1, 0] {
            run_case(&mut rec, &json!({"pbox": [-5, M, 12, 6], "native": native, "layers": [{"k":"cl","a":[-3, M, 8, 4]}], "ops": [
                {"m":"draw_iter","area":[0,0,0,0],"color":-1,"colors":[],"px":[[0,M,7],[1,M,8],[9,M,5],[2,M + 1,9],[2,M + 5,4],[3,M,6]]},
                {"m":"fill_solid","area":[-4,M,3,2],"color":3,"colors":[],"px":[]},
                {"m":"fill_contiguous","area":[-4,M,3,2],"color":-1,"colors":[1,2,3,4,5,6],"px":[]},
                {"m":"draw_iter","area":[0,0,0,0],"color":-1,"colors":[],"px":[[4,M,1],[4,M + 1,2]]},
                {"m":"clear","area":[0,0,0,0],"color":2,"colors":[],"px":[]}]}));
            run_case(&mut rec, &json!({"pbox": [M, M, 6, 6], "native": native, "layers": [{"k":"cl","a":[M, M, 3, 3]}], "ops": [
                {"m":"draw_iter","area":[0,0,0,0],"color":-1,"colors":[],"px":[[M,M,7],[M + 1,M,8],[M + 3,M,5],[M + 1,M + 1,9]]},
                {"m":"fill_contiguous","area":[M,M,2,2],"color":-1,"colors":[1,2,3,4],"px":[]},
                {"m":"fill_contiguous","area":[M,M,4,2],"color":-1,"colors":[1,2,3,4,5,6,7,8],"px":[]},
                {"m":"fill_solid","area":[M + 1,M,4,4],"color":9,"colors":[],"px":[]}]}));
            run_case(&mut rec, &json!({"pbox": [M, 3, 6, 6], "native": native, "layers": [{"k":"cl","a":[M, 4, 3, 3]}, {"k":"cl","a":[M + 1, 2, 9, 4]}], "ops": [
                {"m":"draw_iter","area":[0,0,0,0],"color":-1,"colors":[],"px":[[M,4,7],[M + 1,4,8],[M + 2,5,5],[M + 1,9,9]]},
                {"m":"fill_contiguous","area":[M,3,3,3],"color":-1,"colors":[1,2,3,4,5,6,7,8,9],"px":[]}]}));
        }
    }
    rec.finish(json!({}));
}
