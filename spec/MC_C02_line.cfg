CONSTANTS
  R = 2
  RT = 6
  WMax = 7
  Broken = FALSE
  Gen = FALSE
SPECIFICATION Spec
INVARIANTS ThickInsideStyledBox ExtentsParallel ThickRemBound
CHECK_DEADLOCK FALSE
