P = dict(
    bin="egv_c02", trace="Trace_C02", level="model_checking",
    mc=[],
    required_events=["draw"],
    level_text="TLC checks for every recorded drawable that all points written on an unbounded target lie inside "
               "bounding_box() and that transparent styles write nothing: the styled-primitive / image catalogue, wide strokes "
               "on lines, triangles and polylines, and text in EVERY built-in font x strings x baselines x alignments x "
               "colour/decoration combinations x line heights",
    level_note="trusted: P_C02, MapTarget, run encoding; tightness of the box is not checked",
    rule="one case per (drawable descriptor, colour type); non-trivial = at least one pixel written; distinct = distinct descriptor",
    trusted=COMMON_TRUSTED + ["spec/P_C02.tla", "harness MapTarget"],
)
