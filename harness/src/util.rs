//! Helpers: panic capture, colour <-> integer, point-set encodings.

use embedded_graphics::{pixelcolor::*, prelude::*, primitives::Rectangle};
use serde_json::{json, Value};
use std::cell::RefCell;
use std::collections::{BTreeMap, BTreeSet};
use std::panic::{catch_unwind, AssertUnwindSafe};

thread_local! {
    static LAST_PANIC: RefCell<Option<(String, String)>> = RefCell::new(None);
}

/// Install a quiet panic hook that remembers message and location.
pub fn install_panic_hook() {
    std::panic::set_hook(Box::new(|info| {
        let msg = if let Some(s) = info.payload().downcast_ref::<&str>() {
            s.to_string()
        } else if let Some(s) = info.payload().downcast_ref::<String>() {
            s.clone()
        } else {
            "<non-string panic>".to_string()
        };
        let mut loc = info
            .location()
            .map(|l| format!("{}:{}", l.file(), l.line()))
            .unwrap_or_default();
        // a panic raised inside libcore (e.g. u32::pow) is attributed to the first frame of the
        // library under test (needs line tables: profile.release.debug = "line-tables-only")
        if loc.starts_with("/rustc/") || loc.contains("/library/core/") {
            let bt = std::backtrace::Backtrace::force_capture().to_string();
            let mut prev_fn = String::new();
            for line in bt.lines() {
                let t = line.trim();
                if let Some(rest) = t.strip_prefix("at ") {
                    // frames of the library under test: absolute path that is neither the rust
                    // toolchain, a registry crate nor the harness itself
                    if rest.starts_with('/') && !rest.starts_with("/rustc/") && !rest.contains("/.cargo/") && !rest.contains("/harness/src/") && !rest.contains("/.rustup/") {
                        let mut parts = rest.rsplitn(2, ':'); // strip the column
                        let _col = parts.next();
                        let fl = parts.next().unwrap_or(rest);
                        loc = format!("{} (via libcore, in {})", fl, prev_fn);
                        break;
                    }
                } else {
                    prev_fn = t.splitn(2, ": ").nth(1).unwrap_or(t).to_string();
                }
            }
        }
        if std::env::var_os("EGV_BT").is_some() {
            eprintln!("egv harness: panic at {}: {}\n{}", loc, msg, std::backtrace::Backtrace::force_capture());
        }
        // outside of `catch` nobody will look at LAST_PANIC: the process is about to die with status 101
        if CATCH_DEPTH.with(|d| d.get()) == 0 {
            eprintln!("egv harness: uncaught panic at {}: {}", loc, msg);
        }
        LAST_PANIC.with(|p| *p.borrow_mut() = Some((msg, loc)));
    }));
}

pub struct Panicked {
    pub msg: String,
    pub loc: String,
}

/// Run `f`; a panic in the code under test is data, never a harness crash.
thread_local! {
    static CATCH_DEPTH: std::cell::Cell<u32> = const { std::cell::Cell::new(0) };
}
pub fn catch<T>(f: impl FnOnce() -> T) -> Result<T, Panicked> {
    LAST_PANIC.with(|p| *p.borrow_mut() = None);
    CATCH_DEPTH.with(|d| d.set(d.get() + 1));
    let r = catch_unwind(AssertUnwindSafe(f));
    CATCH_DEPTH.with(|d| d.set(d.get() - 1));
    match r {
        Ok(v) => Ok(v),
        Err(_) => {
            let (msg, loc) = LAST_PANIC
                .with(|p| p.borrow_mut().take())
                .unwrap_or_else(|| ("<unknown>".into(), String::new()));
            // A panic raised by the HARNESS itself (its source paths are relative, the library under test
            // and libcore have absolute paths) is a tool error, never an observation of the library.
            if !loc.starts_with('/') {
                eprintln!("egv harness bug: panic at {}: {}", loc, msg);
                std::process::exit(101);
            }
            Err(Panicked { msg, loc })
        }
    }
}

/// Colour types with a stable integer view (the raw storage value).
pub trait Col: PixelColor + core::fmt::Debug + 'static {
    const NAME: &'static str;
    const BITS: u32;
    fn raw(self) -> u32;
    fn from_u32(v: u32) -> Self;
}

macro_rules! impl_col {
    ($($t:ident),*) => {$(
        impl Col for $t {
            const NAME: &'static str = stringify!($t);
            const BITS: u32 = <<$t as PixelColor>::Raw as embedded_graphics::pixelcolor::raw::RawData>::BITS_PER_PIXEL as u32;
            fn raw(self) -> u32 { self.into_storage() as u32 }
            fn from_u32(v: u32) -> Self {
                <$t as From<<$t as PixelColor>::Raw>>::from(<<$t as PixelColor>::Raw as embedded_graphics::pixelcolor::raw::RawData>::from_u32(v))
            }
        }
    )*};
}
impl_col!(
    BinaryColor, Gray2, Gray4, Gray8, Rgb332, Rgb444, Rgb555, Bgr555, Rgb565, Bgr565, Rgb666, Bgr666, Rgb888,
    Bgr888
);

pub fn rect_json(r: &Rectangle) -> Value {
    json!([r.top_left.x, r.top_left.y, r.size.width, r.size.height])
}
pub fn pt_json(p: Point) -> Value {
    json!([p.x, p.y])
}
pub fn rect_from(v: &Value) -> Rectangle {
    Rectangle::new(
        Point::new(v[0].as_i64().unwrap() as i32, v[1].as_i64().unwrap() as i32),
        Size::new(v[2].as_u64().unwrap() as u32, v[3].as_u64().unwrap() as u32),
    )
}
pub fn pt_from(v: &Value) -> Point {
    Point::new(v[0].as_i64().unwrap() as i32, v[1].as_i64().unwrap() as i32)
}
pub fn i(v: &Value) -> i64 {
    v.as_i64().unwrap_or_else(|| panic!("expected integer, got {}", v))
}

/// A set of points as sorted row runs `[y, x0, x1]` (inclusive).
pub fn runs_of(set: &BTreeSet<(i32, i32)>) -> Value {
    // BTreeSet<(y, x)>
    let mut out: Vec<Value> = vec![];
    let mut cur: Option<(i32, i32, i32)> = None;
    for &(y, x) in set.iter() {
        match cur {
            Some((cy, x0, x1)) if cy == y && x == x1 + 1 => cur = Some((cy, x0, x)),
            Some((cy, x0, x1)) => {
                out.push(json!([cy, x0, x1]));
                cur = Some((y, x, x));
            }
            None => cur = Some((y, x, x)),
        }
    }
    if let Some((cy, x0, x1)) = cur {
        out.push(json!([cy, x0, x1]));
    }
    Value::Array(out)
}

/// A pixel map as sorted coloured row runs `[y, x0, x1, c]`.
pub fn cruns_of(map: &BTreeMap<(i32, i32), u32>) -> Value {
    let mut out: Vec<Value> = vec![];
    let mut cur: Option<(i32, i32, i32, u32)> = None;
    for (&(y, x), &c) in map.iter() {
        match cur {
            Some((cy, x0, x1, cc)) if cy == y && x == x1 + 1 && cc == c => cur = Some((cy, x0, x, cc)),
            Some((cy, x0, x1, cc)) => {
                out.push(json!([cy, x0, x1, cc]));
                cur = Some((y, x, x, c));
            }
            None => cur = Some((y, x, x, c)),
        }
    }
    if let Some((cy, x0, x1, cc)) = cur {
        out.push(json!([cy, x0, x1, cc]));
    }
    Value::Array(out)
}

/// Sequence of points as `[[x,y],...]`.
pub fn pts_json<I: IntoIterator<Item = Point>>(it: I) -> Value {
    Value::Array(it.into_iter().map(|p| json!([p.x, p.y])).collect())
}

/// Pull at most `budget` items from an iterator; returns (items, exhausted?).
pub fn pull<I: Iterator>(mut it: I, budget: usize) -> (Vec<I::Item>, bool) {
    let mut v = Vec::new();
    for _ in 0..budget {
        match it.next() {
            Some(x) => v.push(x),
            None => return (v, true),
        }
    }
    let done = it.next().is_none();
    (v, done)
}

/// Observations of a (finite) iterator through Iterator methods an implementation may override, each on a fresh
/// iterator from `mk` (`pt` projects an item to a point): count(), last(), size_hint() of the fresh iterator, a walk with
/// nth(stride - 1) recorded as [index, x, y], the size_hint after `k` items, two more next() calls after the end, and
/// MIXED consumption: k items pulled with next(), the rest taken by count() / last() / fold(), and skip(k).count().
pub fn iter_protocol_with<T, I: Iterator<Item = T>>(
    mk: impl Fn() -> I,
    stride: usize,
    pt: impl Fn(&T) -> embedded_graphics::geometry::Point,
) -> serde_json::Value {
    use serde_json::json;
    let pj = |p: Option<T>| p.map(|t| pt(&t)).map(|p| json!([p.x, p.y])).unwrap_or(json!([]));
    let cnt = mk().count();
    let last = pj(mk().last());
    let (lo, hi) = mk().size_hint();
    let mut walk = vec![];
    let mut it = mk();
    let mut idx = stride - 1;
    while let Some(t) = it.nth(stride - 1) {
        if walk.len() < 4096 {
            let p = pt(&t);
            walk.push(json!([idx, p.x, p.y]));
        }
        idx += stride;
        if idx > cnt + 2 * stride + 16 {
            break;
        }
    }
    let after = [it.next().is_none() as i32, it.next().is_none() as i32];
    // size_hint in the middle
    let mut it2 = mk();
    let k = cnt / 2;
    for _ in 0..k {
        it2.next();
    }
    let (mlo, mhi) = it2.size_hint();
    // mixed consumption
    let mut mixed = vec![];
    for k in [1usize, stride + 1, cnt / 2 + 1, cnt] {
        let adv = |k: usize| {
            let mut it = mk();
            for _ in 0..k {
                it.next();
            }
            it
        };
        let c = adv(k).count();
        let l = pj(adv(k).last());
        // first and last item and the number of items seen by fold()
        let (fc, ff, fl) = adv(k).fold((0usize, None, None), |(n, f, _), t| {
            let p = pt(&t);
            (n + 1, f.or(Some(p)), Some(p))
        });
        let sc = mk().skip(k).count();
        let pp = |p: Option<embedded_graphics::geometry::Point>| p.map(|p| json!([p.x, p.y])).unwrap_or(json!([]));
        mixed.push(json!([k, c, l, fc, pp(ff), pp(fl), sc]));
    }
    // indices beyond the u32 range (an nth() override that computes in 32 bits wraps them back into the sequence):
    // [index code, items already pulled with next(), nth(index).is_some(), skip(index).count()]
    let mut huge = vec![];
    if cnt <= 1 << 22 {
        for (code, idx) in [(1usize << 32), (1 << 32) + 1, (1 << 32) + 3, (1 << 33) + cnt.saturating_sub(1), (1 << 40) + 2, usize::MAX - 1, usize::MAX].into_iter().enumerate() {
            for pulled in [0usize, 1] {
                let adv = || {
                    let mut it = mk();
                    for _ in 0..pulled {
                        it.next();
                    }
                    it
                };
                let some = adv().nth(idx).is_some() as i32;
                let sc = adv().skip(idx).count().min(1 << 30);
                huge.push(json!([code, pulled, some, sc]));
            }
        }
    }
    json!({"cnt": cnt, "last": last, "lo": lo.min(1 << 30), "hi": hi.map(|h| h.min(1 << 30) as i64).unwrap_or(-1), "stride": stride, "walk": walk,
           "after": after, "k": k, "mlo": mlo.min(1 << 30), "mhi": mhi.map(|h| h.min(1 << 30) as i64).unwrap_or(-1), "mixed": mixed, "huge": huge})
}
pub fn iter_protocol<I: Iterator<Item = embedded_graphics::geometry::Point>>(mk: impl Fn() -> I, stride: usize) -> serde_json::Value {
    iter_protocol_with(mk, stride, |p| *p)
}

/// A `Text` with the given character style, alignment (0 left, 1 center, 2 right), baseline (0 top, 1 bottom, 2 middle,
/// 3 alphabetic) and line height ((0, pixels) | (1, percent)), constructed along one of the routes of the public API that
/// must all give the same Text: Text::new / with_baseline / with_alignment where the other settings are the defaults,
/// Text::with_text_style with a TextStyle from the builder in two call orders, from TextStyle::with_alignment /
/// with_baseline, from a builder made of another style, or from the public fields.  The route is a function of `salt`.
pub fn mk_text<'a, S: Clone>(
    s: &'a str,
    pos: embedded_graphics::geometry::Point,
    cs: S,
    align: u8,
    base: u8,
    lh: (u8, u32),
    salt: usize,
) -> embedded_graphics::text::Text<'a, S> {
    use embedded_graphics::text::{Alignment, Baseline, LineHeight, Text, TextStyle, TextStyleBuilder};
    let a = match align {
        0 => Alignment::Left,
        1 => Alignment::Center,
        _ => Alignment::Right,
    };
    let b = match base {
        0 => Baseline::Top,
        1 => Baseline::Bottom,
        2 => Baseline::Middle,
        _ => Baseline::Alphabetic,
    };
    let l = if lh.0 == 0 { LineHeight::Pixels(lh.1) } else { LineHeight::Percent(lh.1) };
    let default_lh = lh == (1, 100);
    let route = salt % 6;
    if default_lh && a == Alignment::Left && b == Baseline::Alphabetic && route % 2 == 0 {
        return Text::new(s, pos, cs);
    }
    if default_lh && a == Alignment::Left && route % 2 == 0 {
        return Text::with_baseline(s, pos, cs, b);
    }
    if default_lh && b == Baseline::Alphabetic && route % 2 == 0 {
        return Text::with_alignment(s, pos, cs, a);
    }
    let ts: TextStyle = match route {
        1 => TextStyleBuilder::new().line_height(l).baseline(b).alignment(a).build(),
        2 if default_lh && b == Baseline::Alphabetic => TextStyle::with_alignment(a),
        2 if default_lh && a == Alignment::Left => TextStyle::with_baseline(b),
        3 => {
            let other = TextStyleBuilder::new().alignment(Alignment::Center).baseline(Baseline::Middle).line_height(LineHeight::Pixels(3)).build();
            TextStyleBuilder::from(&other).alignment(a).baseline(b).line_height(l).build()
        }
        4 => {
            let mut t = TextStyle::default();
            t.alignment = a;
            t.baseline = b;
            t.line_height = l;
            t
        }
        _ => TextStyleBuilder::new().alignment(a).baseline(b).line_height(l).build(),
    };
    if route == 5 {
        // the public fields of Text
        let mut t = Text::new(s, pos, cs);
        t.text_style = ts;
        return t;
    }
    Text::with_text_style(s, pos, cs, ts)
}
