------------------------------ MODULE EGThickTri -----------------------------
(* TRANSCRIBED: stroked (and filled) triangles with StrokeAlignment::Center,   *)
(* i.e. StrokeOffset::None - the case EGLine!ExtentsT covers.                  *)
(*   triangle/styled.rs:92-156            draw_styled, styled_bounding_box     *)
(*   triangle/scanline_iterator.rs        rows of the styled box; the          *)
(*                                        iteration ENDS at the first row that *)
(*                                        yields no line                       *)
(*   triangle/scanline_intersections.rs   edge_intersections (left / right     *)
(*                                        merging), generate_lines (fill       *)
(*                                        between the two stroke ranges)       *)
(*   common/closed_thick_segment_iter.rs  the three segments of the box        *)
(* Inside / Outside alignment (StrokeOffset::Right / Left, is_collapsed) are   *)
(* not transcribed: the ParallelsIterator of EGLine has StrokeOffset::None.    *)
(* Scanlines <<x0, x1>> half open as in EGThick.                               *)
EXTENDS EGThick, EGTriangle

V(t, k) == t[((k - 1) % 3) + 1]                      \* vertices, 1-based, cyclic
\* the join at vertex k (between edge k-1 -> k and edge k -> k+1)
TriJoinT(t, k, w) == JoinFromPointsT(V(t, k + 2), V(t, k), V(t, k + 1), w)
\* edge_intersections (:78-127) visits the edges v2->v3, v3->v1, v1->v2 of the clockwise sorted triangle
TriSegsT(t, w) == LET j == [k \in 1..3 |-> TriJoinT(t, k, w)] IN << <<j[2], j[3]>>, <<j[3], j[1]>>, <<j[1], j[2]>> >>
Hull2(a, b) == <<Min(a[1], b[1]), Max(a[2], b[2])>>
RECURSIVE EdgeFold(_, _, _, _, _)
EdgeFold(segs, i, y, left, right) ==
  IF i > 3 THEN <<left, right>>
  ELSE LET sc == SegIntersectionT(segs[i], y) IN
       IF ~ScIsEmpty(left)
       THEN IF TouchesT(left, sc) THEN EdgeFold(segs, i + 1, y, Hull2(left, sc), right)
            ELSE IF ~ScIsEmpty(right)
                 THEN EdgeFold(segs, i + 1, y, left, IF TouchesT(right, sc) THEN Hull2(right, sc) ELSE right)
                 ELSE EdgeFold(segs, i + 1, y, left, sc)
       ELSE EdgeFold(segs, i + 1, y, sc, right)
\* the sequence of (at most two) stroke ranges of row y
EdgeIntersectionsT(segs, w, y) ==
  IF w = 0 THEN <<>>
  ELSE LET lr == EdgeFold(segs, 1, y, ScEmpty, ScEmpty)
           merged == TouchesT(lr[1], lr[2])
           l == IF merged THEN Hull2(lr[1], lr[2]) ELSE lr[1]
           r == IF merged THEN ScEmpty ELSE lr[2] IN
       (IF ScIsEmpty(l) THEN <<>> ELSE <<l>>) \o (IF ScIsEmpty(r) THEN <<>> ELSE <<r>>)
\* generate_lines (:129-190), not collapsed: [fill, strokes]
TriRowT(tc, segs, w, hasFill, y) ==
  LET es == EdgeIntersectionsT(segs, w, y)
      tri == LET s == TriScanline(tc, y) IN <<s[2], s[3]>>
      fill == IF ~hasFill THEN ScEmpty
              ELSE IF Len(es) = 2 THEN <<Min(es[1][2], es[2][2]), Max(es[1][1], es[2][1])>>
              ELSE IF Len(es) = 0 THEN tri ELSE ScEmpty
  IN [fill |-> fill, strokes |-> es]
RowIsEmpty(r) == ScIsEmpty(r.fill) /\ r.strokes = <<>>

\* styled_bounding_box for Center alignment and stroke width >= 2 (styled.rs:130-156)
TriThickBoxT(t, w) ==
  LET tc == SortedClockwise(t)
      j == [k \in 1..3 |-> TriJoinT(tc, k, w)]
      segs == << <<j[1], j[2]>>, <<j[2], j[3]>>, <<j[3], j[1]>> >>          \* ClosedThickSegmentIter
  IN HullOfBoxes([i \in 1..3 |-> EdgesBoxT(segs[i], FALSE)], 1, <<>>)
\* the rows draw_styled renders, in order, up to (excluding) the first row without any line
RECURSIVE TriRowsFrom(_, _, _, _, _, _, _)
TriRowsFrom(tc, segs, w, hasFill, y, yEnd, acc) ==
  IF y >= yEnd THEN acc
  ELSE LET r == TriRowT(tc, segs, w, hasFill, y) IN
       IF RowIsEmpty(r) THEN acc ELSE TriRowsFrom(tc, segs, w, hasFill, y + 1, yEnd, Append(acc, [y |-> y, fill |-> r.fill, strokes |-> r.strokes]))
\* styled.rs:131-134: stroke widths 0 and 1 use the triangle's own bounding box
TriStyledBoxT(t, w) == IF w < 2 THEN TriBox(t) ELSE TriThickBoxT(t, w)
TriThickRowsT(t, w, hasFill) ==
  LET tc == SortedClockwise(t)  b == TriStyledBoxT(t, w) IN
  TriRowsFrom(tc, TriSegsT(tc, w), w, hasFill, b[2], b[2] + b[4], <<>>)
\* every point that receives a colour: fill ranges if a fill colour is set, stroke ranges if the stroke is visible
TriThickSetT(t, w, hasFill, hasStroke) ==
  LET rows == TriThickRowsT(t, w, hasFill) IN
  UNION { (IF hasFill THEN { <<x, rows[i].y>> : x \in rows[i].fill[1]..(rows[i].fill[2] - 1) } ELSE {})
          \cup (IF hasStroke THEN UNION { { <<x, rows[i].y>> : x \in rows[i].strokes[k][1]..(rows[i].strokes[k][2] - 1) } : k \in 1..Len(rows[i].strokes) } ELSE {})
          : i \in 1..Len(rows) }
=============================================================================
