#!/usr/bin/env python3
"""Developer tool: prepare a scratch worktree + TASK.md for a bug-seeding sub-agent (round N).

  tools/mkseedtask.py <round> <property id> ...     -> /tmp/mut<round>_<id>/{TASK.md,out/}
The task text contains ONLY the property and the summaries of the changes earlier seeders delivered;
nothing about /verif."""
import glob, json, os, subprocess, sys
ROOT = os.path.dirname(os.path.dirname(os.path.abspath(__file__)))
rnd = sys.argv[1]
props = {json.loads(l)["id"]: json.loads(l) for l in open(os.path.join(ROOT, "properties.jsonl"))}
for pid in sys.argv[2:]:
    P = props[pid]
    d = "/tmp/mut%s_%s" % (rnd, pid)
    subprocess.run("git -C /repo worktree remove --force %s 2>/dev/null; rm -rf %s; git -C /repo worktree prune; git -C /repo worktree add --detach %s HEAD >/dev/null" % (d, d, d), shell=True, check=True)
    os.makedirs(d + "/out", exist_ok=True)
    earlier = []
    for f in sorted(glob.glob(os.path.join(ROOT, "seeded", pid + "-*", "meta.json"))):
        m = json.load(open(f))
        earlier.append("- %s (needs: %s)" % (" ".join(m.get("summary", "").split()), " ".join(m.get("needs_to_manifest", "").split())))
    t = open(os.path.join(ROOT, "tools", "seedtask.tmpl")).read()
    t = (t.replace("@ID@", pid).replace("@DIR@", d).replace("@ROUND@", rnd).replace("@TITLE@", P["title"])
          .replace("@STATEMENT@", P["statement"]).replace("@QUANT@", P["quantifier"]["text"]).replace("@EARLIER@", "\n".join(earlier)))
    open(d + "/TASK.md", "w").write(t)
    print(d)
