----------------------------- MODULE Proof_C18 -----------------------------
(* Unbounded versions of three clauses of C18 that MC_C18 checks for all      *)
(* diameters up to a bound, here for the transcribed hit tests of EGCurve     *)
(* (circle/mod.rs contains, ellipse/mod.rs EllipseContains) and EVERY size    *)
(* d, w, h >= 1 and position:                                                 *)
(*  - mirror symmetry about both centre lines (the mirror image of pixel x in *)
(*    a shape whose left column is l and whose width is w is l + (w-1) + l - x)*)
(*  - a circle IS the ellipse with equal axes (same predicate)                *)
(*  - nothing outside the bounding box is contained (so every row and column  *)
(*    run lies inside the box).                                               *)
(* Checked with TLAPS (tlapm); not load-bearing for any check.                *)
EXTENDS Integers, TLAPS

Thr(d) == IF d <= 4 THEN d * d - (d \div 2) ELSE d * d
\* doubled centre of a side starting at t with length n >= 1:  2 t + n - 1
C2(t, n) == 2 * t + n - 1
CircleIn(l, t, d, x, y) ==
  LET dx == C2(l, d) - 2 * x  dy == C2(t, d) - 2 * y IN dx * dx + dy * dy < Thr(d)
EllipseIn(l, t, w, h, x, y) ==
  LET a == w * w  b == h * h
      qx == 2 * x - C2(l, w)  qy == 2 * y - C2(t, h) IN
  IF a = b THEN qx * qx + qy * qy < (IF w = h THEN Thr(w) ELSE b * a)
  ELSE b * (qx * qx) + a * (qy * qy) < (IF w = h THEN Thr(w) ELSE b * a)
MirX(l, w, x) == l + (w - 1) + l - x

LEMMA SquareOfNegation == ASSUME NEW u \in Int PROVE (-u) * (-u) = u * u
  OBVIOUS

THEOREM CircleMirror ==
  ASSUME NEW l \in Int, NEW t \in Int, NEW d \in Nat, d >= 1, NEW x \in Int, NEW y \in Int
  PROVE  /\ CircleIn(l, t, d, MirX(l, d, x), y) <=> CircleIn(l, t, d, x, y)
         /\ CircleIn(l, t, d, x, MirX(t, d, y)) <=> CircleIn(l, t, d, x, y)
<1> DEFINE u == C2(l, d) - 2 * x  v == C2(t, d) - 2 * y
<1>1. C2(l, d) - 2 * MirX(l, d, x) = -u /\ C2(t, d) - 2 * MirX(t, d, y) = -v
  BY DEF C2, MirX
<1>2. u \in Int /\ v \in Int /\ (-u) * (-u) = u * u /\ (-v) * (-v) = v * v
  BY SquareOfNegation DEF C2
<1> QED BY <1>1, <1>2 DEF CircleIn

THEOREM EllipseMirror ==
  ASSUME NEW l \in Int, NEW t \in Int, NEW w \in Nat, NEW h \in Nat, w >= 1, h >= 1, NEW x \in Int, NEW y \in Int
  PROVE  /\ EllipseIn(l, t, w, h, MirX(l, w, x), y) <=> EllipseIn(l, t, w, h, x, y)
         /\ EllipseIn(l, t, w, h, x, MirX(t, h, y)) <=> EllipseIn(l, t, w, h, x, y)
<1> DEFINE u == 2 * x - C2(l, w)  v == 2 * y - C2(t, h)
<1>1. 2 * MirX(l, w, x) - C2(l, w) = -u /\ 2 * MirX(t, h, y) - C2(t, h) = -v
  BY DEF C2, MirX
<1>2. u \in Int /\ v \in Int /\ (-u) * (-u) = u * u /\ (-v) * (-v) = v * v
  BY SquareOfNegation DEF C2
<1> QED BY <1>1, <1>2 DEF EllipseIn

THEOREM CircleIsEqualAxesEllipse ==
  ASSUME NEW l \in Int, NEW t \in Int, NEW d \in Nat, d >= 1, NEW x \in Int, NEW y \in Int
  PROVE  EllipseIn(l, t, d, d, x, y) <=> CircleIn(l, t, d, x, y)
<1> DEFINE u == C2(l, d) - 2 * x  v == C2(t, d) - 2 * y
<1>1. 2 * x - C2(l, d) = -u /\ 2 * y - C2(t, d) = -v
  BY DEF C2
<1>2. u \in Int /\ v \in Int /\ (-u) * (-u) = u * u /\ (-v) * (-v) = v * v
  BY SquareOfNegation DEF C2
<1> QED BY <1>1, <1>2 DEF EllipseIn, CircleIn

\* a pixel left of the bounding box of a circle is not contained (the other three sides follow by the mirror theorems
\* and by exchanging the roles of x and y): there |dx| >= d + 1, so dx^2 >= (d + 1)^2 > Thr(d)
LEMMA SquareLower ==
  ASSUME NEW u \in Int, NEW v \in Int, NEW d \in Nat, u >= d + 1
  PROVE  u * u + v * v >= d * d + 2 * d + 1
<1>1. PICK k \in Nat : u = (d + 1) + k
  <2>1. u - (d + 1) \in Nat /\ u = (d + 1) + (u - (d + 1))  OBVIOUS
  <2> QED BY <2>1
<1>2. u * u = (d * d + 2 * d + 1) + k * (2 * (d + 1) + k)
  BY <1>1
<1>3. k * (2 * (d + 1) + k) >= 0 /\ v * v >= 0
  OBVIOUS
<1>4. u * u \in Int /\ v * v \in Int /\ d * d \in Int /\ k * (2 * (d + 1) + k) \in Int
  OBVIOUS
<1> QED BY <1>2, <1>3, <1>4

THEOREM CircleInsideBox ==
  ASSUME NEW l \in Int, NEW t \in Int, NEW d \in Nat, d >= 1, NEW x \in Int, NEW y \in Int, x < l
  PROVE  ~CircleIn(l, t, d, x, y)
<1>1. C2(l, d) - 2 * x \in Int /\ C2(t, d) - 2 * y \in Int /\ C2(l, d) - 2 * x >= d + 1
  BY DEF C2
<1>2. (C2(l, d) - 2 * x) * (C2(l, d) - 2 * x) + (C2(t, d) - 2 * y) * (C2(t, d) - 2 * y) >= d * d + 2 * d + 1
  BY <1>1, SquareLower
<1>3. Thr(d) <= d * d /\ d * d \in Nat /\ Thr(d) \in Int
  BY DEF Thr
<1> QED BY <1>1, <1>2, <1>3 DEF CircleIn
=============================================================================
