P = dict(
    features={"quick": [None, "fixed_point"], "thorough": [None, "fixed_point"]},
    bin="egv_c06", trace="Trace_C06", level="model_checking",
    mc=[dict(module="MC_C06", quick_cfg="MC_C06.cfg", thorough_cfg="MC_C06_thorough.cfg", workers=8),
        dict(module="MC_C06", quick_cfg="MC_C06_control.cfg", expect_violation=True, coverage=False, workers=8),
        dict(module="MC_C06e", quick_cfg="MC_C06e.cfg", thorough_cfg="MC_C06e_thorough.cfg", workers=12, thorough_timeout=3000, coverage=False),
        dict(module="MC_C06e", quick_cfg="MC_C06e_control_ell.cfg", expect_violation=True, coverage=False, workers=8),
        dict(module="MC_C06e", quick_cfg="MC_C06e_control_rr.cfg", expect_violation=True, coverage=False, workers=8)],
    proofs=["Proof_C06"],
    required_events=["styled"], drift_checked=True,
    level_text="MC_C06 steps the transcribed call decompositions of styled rectangles (five rectangles) and circles (styled "
               "scanlines) call by call and compares the resulting map with the painting rule over the transcribed areas (one "
               "negative control); MC_C06e does the same for styled ellipses and rounded rectangles (EGStyledCurve: styled scanlines, one row per step, along the draw() route and the pixels() route, which select their branch differently; two negative controls); for every closed shape x style of an exhaustive small domain (sizes <= 10x10, stroke widths 0..7 so that the "
               "fill area collapses, three alignments, four colour presences) plus seeded larger ones, TLC checks the pixel "
               "maps of draw() and pixels() against the painting rule over the point sets of the public fill_area() / "
               "stroke_area(), and the documented geometry of the two areas",
    level_note="trusted: P_C06 / EGStyled.ExpectedPaint, MapTarget, run encoding; areas are probed on all boxes grown by 2",
    rule="one case per (closed shape, style); non-trivial = draw() painted at least one pixel; distinct = distinct descriptor",
    trusted=COMMON_TRUSTED + ["spec/P_C06.tla, spec/EGStyled.tla", "harness MapTarget (set pixels, later wins)"],
)
