------------------------------ MODULE Trace_C13 -----------------------------
(* (T) for C13: what the real From conversions did for every ordered pair of  *)
(* colour types (per-channel relations over all source colours, round trips,  *)
(* extremes, luma rows) is judged by the property-level predicates of P_C13.  *)
(* The transcription of conversion.rs (EGColor, operators ending in T) is     *)
(* compared exactly and reported as DRIFT only.                               *)
EXTENDS TraceBase, P_C13, FiniteSets
VARIABLE l

Init == l = 1

StepCase(e) == e.ev = "case"
\* structure: the recorder must cover the whole conversion graph
StepGraph(e) == e.ev = "graph" /\ { <<e.pairs[i][1], e.pairs[i][2]>> : i \in 1..Len(e.pairs) } = ConvPairs

\* exact comparison with the transcription (never a verdict)
RelDrift(e) ==
  LET ta == Types[e.from]  tb == Types[e.to]  rs == RelShape(ta, tb) IN
  IF tb.kind # "bin" /\ Len(e.rels) = Len(rs)
     /\ \E i \in 1..Len(rs) : \E j \in 1..Len(e.rels[i]) :
          e.rels[i][j][2] # ConvChT(ta, rs[i][1], tb, rs[i][2], e.rels[i][j][1])
  THEN PrintT("DRIFT " \o ToJson([module |-> "EGColor", what |-> "ConvertChannelT differs from the observed conversion",
                                  from |-> e.from, to |-> e.to]))
  ELSE TRUE
StepPair(e) ==
  /\ e.ev = "pair"
  /\ Report(e.case, PairFails(e.from, e.to, e),
            [ev |-> "pair", from |-> e.from, to |-> e.to, n |-> e.n, rels |-> e.rels, backs |-> e.backs,
             l8on |-> e.l8on, black |-> e.black, white |-> e.white])
  /\ RelDrift(e)
LumaDrift(e) ==
  LET ta == Types[e.from]  tb == Types[e.to] IN
  IF \E i \in 1..Len(e.rows) : \E x \in 1..Len(e.rows[i]) :
       e.rows[i][x] # RgbToGrayT(ta, tb, [c \in 1..3 |-> IF c = e.ch THEN x - 1 ELSE e.fixes[i][c]])[1]
  THEN PrintT("DRIFT " \o ToJson([module |-> "EGColor", what |-> "RgbToGrayT (BT.601 weights 77/150/29) differs from the observed luma",
                                  from |-> e.from, to |-> e.to, ch |-> e.ch]))
  ELSE TRUE
StepLRows(e) ==
  /\ e.ev = "lrows"
  /\ \A i \in 1..Len(e.rows) :
       Report(e.case, LumaRowFails(Types[e.to], e.rows[i]),
              [ev |-> "lrows", from |-> e.from, to |-> e.to, ch |-> e.ch, fix |-> e.fixes[i], lumas |-> e.rows[i]])
  /\ LumaDrift(e)
StepCss(e) ==
  /\ e.ev = "css"
  /\ Report(e.case, CssFails(Types[e.to], e.items),
            [ev |-> "css", to |-> e.to,
             bad |-> SelectSeq(e.items, LAMBDA it : \E ch \in 1..3 : ~Nearest(255, ChMax(Types[e.to], ch), it[ch], it[3 + ch]))])
\* a library call of this case panicked: the property promises a result for every input of its domain
StepPanic(e) == e.ev = "panic" /\ Report(e.case, {"library_call_panicked"}, [msg |-> e.msg, loc |-> e.loc])

Next == /\ l <= NRec
        /\ LET e == Rec[l] IN StepCase(e) \/ StepGraph(e) \/ StepPair(e) \/ StepLRows(e) \/ StepCss(e) \/ StepPanic(e)
        /\ l' = l + 1
Spec == Init /\ [][Next]_l

Done == IF TLCGet("stats").diameter = NRec + 1
        THEN PrintT("TRACE-ACCEPTED " \o ToString(NRec))
        ELSE PrintT("TRACE-REJECTED at line " \o ToString(TLCGet("stats").diameter)) /\ FALSE
=============================================================================
