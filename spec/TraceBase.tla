------------------------------ MODULE TraceBase -----------------------------
(* Shared conventions of all trace specifications (DESIGN.md §4).             *)
(* The recorded events are read once from the NDJSON file named by the        *)
(* environment variable TRACE.  Trace specs are monitors: structure is        *)
(* enforced by enabling conditions, property predicates are evaluated into    *)
(* VERDICT lines so that one failing case does not hide the following ones.   *)
EXTENDS Integers, Sequences, TLC, Json, IOUtils

Rec == ndJsonDeserialize(IOEnv.TRACE)
NRec == Len(Rec)

\* one line per failing case/item; parsed by tools/egv.py
Verdict(case, codes, detail) ==
  PrintT("VERDICT " \o ToJson([case |-> case, codes |-> codes, detail |-> detail]))
\* Report(case, codes, detail): TRUE always; prints iff codes is non-empty
Report(case, codes, detail) == IF codes = {} THEN TRUE ELSE Verdict(case, codes, detail)

\* DRIFT: the code and an implementation-shaped TRANSCRIPTION disagree.  Never a verdict (DESIGN section 5
\* rule 2): it means "the model no longer mirrors the code" and is counted in the evidence.
DriftReport(case, cond, what, detail) ==
  IF cond THEN TRUE ELSE PrintT("DRIFT " \o ToJson([case |-> case, what |-> what, detail |-> detail]))

\* acceptance: every recorded line was consumed (one state per line plus the initial state)
Accepted(l) == l = NRec + 1
=============================================================================
