CONSTANTS
  SIZE = 3
  MaxDepth = 99
  Gen = FALSE
  GenMod = 1
  Alphabet = "small"
SPECIFICATION Spec
VIEW MachineView
INVARIANTS FillFastIsFill TypeOK EqIffCellsAgree DiffOK AreaTight ObsOK PatternBack PatternDomain
PROPERTIES StepProp
CHECK_DEADLOCK FALSE
