//! C11 recorder: RawData::load / store in both data orders and the RawDataSlice iterator.
//! Records only (no oracle); judged by spec/Trace_C11.tla.
//!
//! Encodings (see spec/P_C11.tla): usize as four 16-bit limbs, values as little-endian value
//! bytes, Option as [] / value bytes.
use egv::util::*;
use egv::*;
use embedded_graphics::iterator::raw::RawDataSlice;
use embedded_graphics::pixelcolor::raw::*;

fn limbs(x: usize) -> Value {
    let x = x as u64;
    json!([x & 0xFFFF, (x >> 16) & 0xFFFF, (x >> 32) & 0xFFFF, (x >> 48) & 0xFFFF])
}
fn from_limbs(v: &Value) -> usize {
    let l: Vec<u64> = v.as_array().unwrap().iter().map(|x| x.as_u64().unwrap()).collect();
    (l[0] | (l[1] << 16) | (l[2] << 32) | (l[3] << 48)) as usize
}
/// descriptor count: a plain integer or four limbs
fn count_from(v: &Value) -> usize {
    if v.is_array() {
        from_limbs(v)
    } else {
        v.as_u64().unwrap() as usize
    }
}
fn nbytes(bpp: usize) -> usize {
    if bpp < 8 {
        1
    } else {
        bpp / 8
    }
}
fn vb(bpp: usize, v: u32) -> Value {
    Value::Array(v.to_le_bytes()[..nbytes(bpp)].iter().map(|b| json!(b)).collect())
}
fn opt_vb(bpp: usize, v: Option<u32>) -> Value {
    match v {
        Some(v) => vb(bpp, v),
        None => json!([]),
    }
}
fn val_from(v: &Value) -> u32 {
    let mut b = [0u8; 4];
    for (k, x) in v.as_array().unwrap().iter().enumerate() {
        b[k] = x.as_u64().unwrap() as u8;
    }
    u32::from_le_bytes(b)
}
fn bytes_json(b: &[u8]) -> Value {
    Value::Array(b.iter().map(|x| json!(x)).collect())
}
fn bytes_from(v: &Value) -> Vec<u8> {
    v.as_array().unwrap().iter().map(|x| x.as_u64().unwrap() as u8).collect()
}

/// The library calls for one (raw type, data order), type-erased.
struct Vt {
    load: fn(&[u8], usize) -> Option<u32>,
    /// returns (value actually held by the raw object, store() was Ok)
    store: fn(u32, &mut [u8], usize) -> (u32, bool),
    /// one iterator run: observation per script step
    iter: fn(&[u8], &[(u8, usize)]) -> Vec<Value>,
}
fn load_g<R: RawData, O: DataOrder>(buf: &[u8], i: usize) -> Option<u32>
where
    R::Storage: Into<u32>,
{
    R::load::<O>(buf, i).map(|r| r.into_inner().into())
}
fn store_g<R: RawData + Copy, O: DataOrder>(v: u32, buf: &mut [u8], i: usize) -> (u32, bool)
where
    R::Storage: Into<u32>,
{
    let r = R::from_u32(v);
    (r.into_inner().into(), r.store::<O>(buf, i).is_ok())
}
fn iter_g<R: RawData, O: DataOrder>(buf: &[u8], script: &[(u8, usize)]) -> Vec<Value>
where
    R::Storage: Into<u32>,
{
    let bpp = R::BITS_PER_PIXEL;
    let mut it = RawDataSlice::<R, O>::new(buf).into_iter();
    let mut obs = vec![];
    for (k, &(op, n)) in script.iter().enumerate() {
        // consuming observations of the REMAINING items through provided Iterator methods an implementation may
        // override: 3 count(), 4 last(), 5 fold() (all remaining values); they end the run
        if op >= 3 {
            assert!(k + 1 == script.len(), "harness: a consuming step must be the last one");
            obs.push(match op {
                3 => limbs(it.count()),
                4 => opt_vb(bpp, it.last().map(|r| r.into_inner().into())),
                _ => Value::Array(it.fold(vec![], |mut v, r| {
                    if v.len() < 4096 {
                        v.push(opt_vb(bpp, Some(r.into_inner().into())));
                    }
                    v
                })),
            });
            return obs;
        }
        obs.push(match op {
            0 => opt_vb(bpp, it.next().map(|r| r.into_inner().into())),
            1 => opt_vb(bpp, it.nth(n).map(|r| r.into_inner().into())),
            _ => {
                let (lo, hi) = it.size_hint();
                let mut o = limbs(lo).as_array().unwrap().clone();
                o.push(json!(hi.is_some() as i32));
                o.extend(limbs(hi.unwrap_or(0)).as_array().unwrap().iter().cloned());
                Value::Array(o)
            }
        });
    }
    obs
}
macro_rules! vt {
    ($r:ty, $o:ty) => {
        Vt { load: load_g::<$r, $o>, store: store_g::<$r, $o>, iter: iter_g::<$r, $o> }
    };
}
fn vtable(bpp: usize, order: usize) -> Vt {
    match (bpp, order) {
        (1, 0) => vt!(RawU1, LittleEndianMsb0),
        (2, 0) => vt!(RawU2, LittleEndianMsb0),
        (4, 0) => vt!(RawU4, LittleEndianMsb0),
        (8, 0) => vt!(RawU8, LittleEndianMsb0),
        (16, 0) => vt!(RawU16, LittleEndianMsb0),
        (24, 0) => vt!(RawU24, LittleEndianMsb0),
        (32, 0) => vt!(RawU32, LittleEndianMsb0),
        (1, 1) => vt!(RawU1, BigEndianLsb0),
        (2, 1) => vt!(RawU2, BigEndianLsb0),
        (4, 1) => vt!(RawU4, BigEndianLsb0),
        (8, 1) => vt!(RawU8, BigEndianLsb0),
        (16, 1) => vt!(RawU16, BigEndianLsb0),
        (24, 1) => vt!(RawU24, BigEndianLsb0),
        (32, 1) => vt!(RawU32, BigEndianLsb0),
        _ => panic!("no raw type with {} bpp / order {}", bpp, order),
    }
}

/// Panics of library calls, aggregated per battery: (what, msg, loc) -> (count, first index)
type Panics = std::collections::BTreeMap<(String, String, String), (u64, usize)>;
fn note_panic(ps: &mut Panics, what: &str, ix: usize, p: &Panicked) {
    let e = ps.entry((what.to_string(), p.msg.clone(), p.loc.clone())).or_insert((0, ix));
    e.0 += 1;
}
fn flush_panics(rec: &mut Rec, bpp: usize, order: usize, ps: Panics) {
    for ((what, msg, loc), (n, ix)) in ps {
        rec.note_n("panicked_calls", n);
        rec.ev("panic", json!({"bpp": bpp, "order": order, "what": what, "n": n, "ix": limbs(ix), "msg": msg, "loc": loc}));
    }
}

/// load at every index, then store of every value at every index (each on a fresh copy)
fn load_store(rec: &mut Rec, bpp: usize, order: usize, buf: &[u8], ixs: &[usize], vals: &[u32]) {
    let vt = vtable(bpp, order);
    let mut ps = Panics::new();
    let mut loads = vec![];
    for &ix in ixs {
        match catch(|| (vt.load)(buf, ix)) {
            Ok(r) => loads.push(json!([limbs(ix), opt_vb(bpp, r)])),
            Err(p) => note_panic(&mut ps, "load", ix, &p),
        }
    }
    rec.ev("load", json!({"bpp": bpp, "order": order, "buf": bytes_json(buf), "items": loads}));
    let mut stores = vec![];
    for &ix in ixs {
        for &v in vals {
            let mut b = buf.to_vec();
            // the raw value is built with RawData::from_u32; every second time the argument carries bits above the bit
            // depth, which the constructor has to drop (a value that keeps them spills into its neighbours on store)
            let garbage = if bpp < 32 && ix.wrapping_add(v as usize) % 2 == 1 { ((ix as u32).wrapping_mul(7).wrapping_add(v) | 1) << bpp } else { 0 };
            match catch(|| {
                let (held, ok) = (vt.store)(v | garbage, &mut b, ix);
                (held, ok, (vt.load)(&b, ix))
            }) {
                Ok((held, ok, back)) => {
                    let over = (bpp < 32 && (held >> bpp) != 0) as i32;
                    stores.push(json!([limbs(ix), vb(bpp, held), ok as i32, bytes_json(&b), opt_vb(bpp, back), over]))
                }
                Err(p) => note_panic(&mut ps, "store", ix, &p),
            }
        }
    }
    rec.ev("store", json!({"bpp": bpp, "order": order, "buf": bytes_json(buf), "items": stores}));
    flush_panics(rec, bpp, order, ps);
}

fn enc_script(script: &[(u8, usize)]) -> Value {
    Value::Array(
        script
            .iter()
            .map(|&(op, n)| {
                let mut s = vec![json!(op)];
                s.extend(limbs(n).as_array().unwrap().iter().cloned());
                Value::Array(s)
            })
            .collect(),
    )
}

fn run_case(rec: &mut Rec, d: &Value) {
    let bpp = i(&d["bpp"]) as usize;
    let order = i(&d["order"]) as usize;
    match d["k"].as_str().unwrap() {
        // load/store battery: buffers = `buf`, or every sequence of length `len` over `bytes`
        "sl" => {
            rec.begin(d.clone());
            let ixs: Vec<usize> = d["ixs"].as_array().unwrap().iter().map(from_limbs).collect();
            let vals: Vec<u32> = d["vals"].as_array().unwrap().iter().map(val_from).collect();
            if d.get("buf").is_some() {
                load_store(rec, bpp, order, &bytes_from(&d["buf"]), &ixs, &vals);
            } else {
                let len = i(&d["len"]) as usize;
                let bytes = bytes_from(&d["bytes"]);
                let n = bytes.len().pow(len as u32);
                for mut code in 0..n {
                    let mut buf = vec![0u8; len];
                    for b in buf.iter_mut() {
                        *b = bytes[code % bytes.len()];
                        code /= bytes.len();
                    }
                    load_store(rec, bpp, order, &buf, &ixs, &vals);
                }
            }
            rec.nontrivial();
        }
        // iterator scripts over one buffer; a step is [op, n] (0 next, 1 nth(n), 2 size_hint, 3 count, 4 last, 5 fold: consuming, last step only)
        "it" => {
            rec.begin(d.clone());
            let buf = bytes_from(&d["buf"]);
            let vt = vtable(bpp, order);
            let mut runs = vec![];
            let mut ps = Panics::new();
            for s in d["scripts"].as_array().unwrap() {
                let script: Vec<(u8, usize)> =
                    s.as_array().unwrap().iter().map(|st| (i(&st[0]) as u8, count_from(&st[1]))).collect();
                match catch(|| (vt.iter)(&buf, &script)) {
                    Ok(obs) => runs.push(json!([enc_script(&script), obs])),
                    Err(p) => note_panic(&mut ps, "iter", script.len(), &p),
                }
            }
            rec.ev("iter", json!({"bpp": bpp, "order": order, "buf": bytes_json(&buf), "runs": runs}));
            flush_panics(rec, bpp, order, ps);
            rec.nontrivial();
        }
        k => panic!("unknown case kind {}", k),
    }
}

const BPPS: [usize; 7] = [1, 2, 4, 8, 16, 24, 32];

fn pixel_slots(bpp: usize, len: usize) -> usize {
    if bpp < 8 {
        len * (8 / bpp)
    } else {
        len / (bpp / 8)
    }
}
fn mask(bpp: usize) -> u32 {
    if bpp == 32 {
        u32::MAX
    } else {
        (1u32 << bpp) - 1
    }
}
fn background(rng: &mut Rng, pat: usize, len: usize) -> Vec<u8> {
    (0..len)
        .map(|k| match pat {
            0 => 0x00,
            1 => 0xFF,
            2 => 0xA5,
            3 => (0x10 * (k as u8 + 1)) | (k as u8 + 1),
            _ => rng.u32() as u8,
        })
        .collect()
}
/// boundary values: 0, 1, max, max-1, single bits, bytes all different, alternating patterns
fn boundary_vals(bpp: usize) -> Vec<u32> {
    let m = mask(bpp);
    let mut v = vec![0, 1, m, m.saturating_sub(1), 0x1234_5678 & m, 0x8765_4321 & m, 0xA5A5_A5A5 & m, 0x5A5A_5A5A & m, 0x00FF_00FF & m, 0xFF00_FF00 & m];
    for b in 0..bpp {
        v.push(1u32 << b);
        v.push(m ^ (1u32 << b));
    }
    v.sort();
    v.dedup();
    v
}
fn ix_list(bpp: usize, len: usize) -> Vec<usize> {
    let n = pixel_slots(bpp, len);
    let mut v: Vec<usize> = (0..=n + 1).collect();
    // far beyond the buffer; usize::MAX / 4 can still be multiplied by the pixel size
    v.extend([usize::MAX / 4, usize::MAX]);
    v
}
fn desc_sl(bpp: usize, order: usize, buf: &[u8], ixs: &[usize], vals: &[u32]) -> Value {
    json!({"k": "sl", "bpp": bpp, "order": order, "buf": bytes_json(buf),
           "ixs": ixs.iter().map(|&x| limbs(x)).collect::<Vec<_>>(),
           "vals": vals.iter().map(|&v| vb(bpp, v)).collect::<Vec<_>>()})
}
fn desc_step(op: u8, n: usize) -> Value {
    if n < (1 << 31) {
        json!([op, n])
    } else {
        json!([op, limbs(n)])
    }
}
fn rnd_script(rng: &mut Rng, n_items: usize, steps: usize) -> Value {
    let mut s = vec![];
    for _ in 0..steps {
        s.push(match rng.u32r(0, 9) {
            0..=3 => desc_step(0, 0),
            4..=5 => desc_step(1, rng.usize(0, 3)),
            6 => desc_step(1, rng.usize(0, n_items + 2)),
            7 => {
                if rng.chance(1, 6) {
                    desc_step(1, *rng.pick(&[usize::MAX / 4, usize::MAX / 4 - 1, 1 << 40, usize::MAX]))
                } else {
                    desc_step(1, rng.usize(0, 8))
                }
            }
            _ => desc_step(2, 0),
        });
    }
    // two thirds of the scripts end with a consuming observation of what remains
    match rng.u32r(0, 5) {
        0 | 1 => s.push(desc_step(3, 0)),
        2 => s.push(desc_step(4, 0)),
        3 => s.push(desc_step(5, 0)),
        _ => {}
    }
    Value::Array(s)
}

fn main() {
    let args = Args::parse();
    install_panic_hook();
    let mut rec = Rec::new(&args);
    let mut rng = Rng::new(args.seed ^ 0xC11);
    if let Some(cases) = &args.cases {
        for d in cases {
            run_case(&mut rec, d);
        }
        rec.finish(json!({}));
        return;
    }
    for d in args.gen.iter().chain(args.witnesses.iter()) {
        run_case(&mut rec, d);
    }
    let th = args.thorough();
    let max_len = if th { 13 } else { 9 };
    for &bpp in &BPPS {
        for order in 0..2 {
            // (a) every index x boundary values, buffers 0..max_len bytes, 4 (5) backgrounds
            for len in 0..=max_len {
                for pat in 0..(if th { 6 } else { 4 }) {
                    let buf = background(&mut rng, if pat >= 4 { 4 } else { pat }, len);
                    let mut vals = boundary_vals(bpp);
                    if bpp >= 8 {
                        for _ in 0..4 {
                            vals.push(rng.u32() & mask(bpp));
                        }
                        if !th && vals.len() > 24 {
                            // quick: a seeded subset of the boundary values per buffer
                            let mut sub = vec![];
                            for _ in 0..24 {
                                sub.push(*rng.pick(&vals));
                            }
                            vals = sub;
                        }
                    }
                    run_case(&mut rec, &desc_sl(bpp, order, &buf, &ix_list(bpp, len), &vals));
                }
            }
            // (b) value sweep at the first, a middle and the last pixel of two buffers:
            //     every value up to 8 bpp (quick) / 16 bpp (thorough), seeded values above
            let all: Vec<u32> = if bpp <= 8 || (th && bpp == 16) {
                (0..=mask(bpp)).collect()
            } else {
                let n = if th { 100_000 } else { 512 };
                let mut v = boundary_vals(bpp);
                while v.len() < n {
                    v.push(rng.u32() & mask(bpp));
                }
                v
            };
            for (len, pat) in [(nbytes(bpp) * 3 + 1, 2usize), (nbytes(bpp) * 2, 4)] {
                let buf = background(&mut rng, pat, len);
                let n = pixel_slots(bpp, len);
                let mut ixs = vec![0, n / 2, n - 1, n];
                if bpp < 8 {
                    ixs = (0..=n).collect(); // every slot of every byte
                }
                ixs.dedup();
                for (c, chunk) in all.chunks(2048).enumerate() {
                    // the first chunks visit every chosen index, later ones cycle through them
                    let ix_c = if c < 2 { ixs.clone() } else { vec![ixs[c % ixs.len()]] };
                    run_case(&mut rec, &desc_sl(bpp, order, &buf, &ix_c, chunk));
                }
            }
            // (c) iterator: the complete iteration and seeded scripts
            for len in 0..=max_len {
                for pat in [3usize, 4] {
                    let buf = background(&mut rng, pat, len);
                    let n = pixel_slots(bpp, len);
                    let mut scripts = vec![Value::Array((0..n + 2).map(|_| desc_step(0, 0)).collect())];
                    // every consuming observation: on the fresh iterator, after one item, after draining with next()
                    // (and one more call), after an nth() that lands exactly on the end / skips beyond it
                    for term in 3..=5u8 {
                        let nexts = |k: usize| (0..k).map(|_| desc_step(0, 0)).collect::<Vec<Value>>();
                        for mut pre in [vec![], nexts(1), nexts(n), nexts(n + 1), vec![desc_step(1, n.saturating_sub(1))], vec![desc_step(1, n)],
                                        vec![desc_step(1, n + 5)], vec![desc_step(0, 0), desc_step(1, n + 5)], vec![desc_step(1, usize::MAX)]] {
                            pre.push(desc_step(term, 0));
                            scripts.push(Value::Array(pre));
                        }
                    }
                    let (nscripts, steps) = if th { (40, 12) } else { (12, 8) };
                    for _ in 0..nscripts {
                        let st = rng.usize(1, steps);
                        scripts.push(rnd_script(&mut rng, n, st));
                    }
                    run_case(&mut rec, &json!({"k": "it", "bpp": bpp, "order": order, "buf": bytes_json(&buf), "scripts": scripts}));
                }
            }
            // (d) a display-row sized buffer
            for len in if th { vec![64usize, 257, 1024] } else { vec![64usize, 257] } {
                let buf = background(&mut rng, 4, len);
                let n = pixel_slots(bpp, len);
                let mut scripts = vec![Value::Array((0..n + 2).map(|_| desc_step(0, 0)).collect())];
                for _ in 0..(if th { 30 } else { 8 }) {
                    let mut s = vec![];
                    for _ in 0..12 {
                        s.push(match rng.u32r(0, 5) {
                            0 | 1 => desc_step(0, 0),
                            2 => desc_step(1, rng.usize(0, n / 3 + 1)),
                            3 => desc_step(1, rng.usize(0, 5)),
                            _ => desc_step(2, 0),
                        });
                    }
                    s.push(desc_step(3 + rng.u32r(0, 2) as u8, 0));
                    scripts.push(Value::Array(s));
                }
                run_case(&mut rec, &json!({"k": "it", "bpp": bpp, "order": order, "buf": bytes_json(&buf), "scripts": scripts}));
                let ixs: Vec<usize> = vec![0, 1, n / 2, n.saturating_sub(2), n.saturating_sub(1), n, n + 1, usize::MAX / 4];
                let vals: Vec<u32> = boundary_vals(bpp).into_iter().take(6).chain((0..4).map(|_| rng.u32() & mask(bpp))).collect();
                run_case(&mut rec, &desc_sl(bpp, order, &buf, &ixs, &vals));
            }
        }
    }
    rec.finish(json!({}));
}
