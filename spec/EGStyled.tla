------------------------------ MODULE EGStyled ------------------------------
(* PrimitiveStyle (src/primitives/primitive_style.rs) and the painting rule   *)
(* of styled closed shapes.                                                   *)
(*   style  [fill, stroke (colour or -1), w (stroke width), al (0 inside,     *)
(*           1 center, 2 outside)]                                            *)
EXTENDS Integers, Sequences, FiniteSets, EGGeom

\* primitive_style.rs:86-105
OutsideW(st) == CASE st.al = 0 -> 0 [] st.al = 1 -> st.w \div 2 [] OTHER -> st.w
InsideW(st)  == CASE st.al = 0 -> st.w [] st.al = 1 -> (st.w + 1) \div 2 [] OTHER -> 0
HasFill(st)   == st.fill >= 0
HasStroke(st) == st.stroke >= 0 /\ st.w > 0          \* effective_stroke_color
IsTransparent(st) == ~HasFill(st) /\ ~HasStroke(st)

\* ABSTRACT painting rule (property C06): given the point sets F (fill area) and S (stroke area)
\* the set of painted <<x, y, colour>> triples
ExpectedPaint(st, F, S) ==
       (IF HasFill(st) THEN { <<p[1], p[2], st.fill>> : p \in F } ELSE {})
  \cup (IF HasStroke(st) THEN { <<p[1], p[2], st.stroke>> : p \in S \ F } ELSE {})

\* coloured runs <<y, x0, x1, c>> as a set of <<x, y, c>> triples
CRunsToSet(rs) == UNION { { <<x, rs[i][1], rs[i][4]>> : x \in rs[i][2]..rs[i][3] } : i \in 1..Len(rs) }
=============================================================================
