CONSTANTS
  Wide = TRUE
SPECIFICATION Spec
INVARIANT Fits
CHECK_DEADLOCK FALSE
