//! C15 recorder: text layout.  For one `Text` (string, position, alignment, baseline, line height,
//! character style) it records what the library does for several related calls -- the text itself, the
//! text with CR LF replaced by LF, every line as a separate single-line text, the text with
//! Baseline::Top, the text drawn in two chained halves -- plus `measure_string` / `bounding_box`
//! results.  No call is compared with another one here; spec/Trace_C15.tla relates them.
#[path = "../text_c14_c15.rs"]
mod tc;

use egv::targets::MapTarget;
use egv::util::*;
use egv::*;
use embedded_graphics::primitives::Rectangle;
use embedded_graphics::{
    mono_font::MonoFont,
    pixelcolor::Gray8,
    prelude::*,
    text::{renderer::TextRenderer, Alignment, Baseline, LineHeight, Text, TextStyle, TextStyleBuilder},
};
use tc::*;

#[derive(Clone, Debug)]
struct Layout {
    text: Vec<u32>,
    pos: (i32, i32),
    align: u8,
    base: u8,
    lh: (u8, u32),
    sty: StyleSpec,
    /// split points of the chained drawing; None = every split point
    chains: Option<Vec<usize>>,
}

impl Layout {
    fn from_json(d: &Value) -> Layout {
        Layout {
            text: cps_of(&d["text"]),
            pos: (i(&d["pos"][0]) as i32, i(&d["pos"][1]) as i32),
            align: i(&d["align"]) as u8,
            base: i(&d["base"]) as u8,
            lh: (i(&d["lh"][0]) as u8, i(&d["lh"][1]) as u32),
            sty: StyleSpec::from_arr(&d["sty"]),
            chains: d["chains"].as_array().map(|a| a.iter().map(|k| i(k) as usize).collect()),
        }
    }
    fn fields(&self) -> Value {
        json!({"text": self.text, "pos": [self.pos.0, self.pos.1], "align": self.align, "base": self.base,
               "lh": [self.lh.0, self.lh.1], "sty": self.sty.to_arr(),
               "chains": match &self.chains { Some(v) => json!(v), None => json!("all") }})
    }
}

fn text_style(align: u8, base: u8, lh: (u8, u32)) -> TextStyle {
    TextStyleBuilder::new()
        .alignment(match align {
            0 => Alignment::Left,
            1 => Alignment::Center,
            _ => Alignment::Right,
        })
        .baseline(baseline(base))
        .line_height(if lh.0 == 0 { LineHeight::Pixels(lh.1) } else { LineHeight::Percent(lh.1) })
        .build()
}
fn baseline(b: u8) -> Baseline {
    match b {
        0 => Baseline::Top,
        1 => Baseline::Bottom,
        2 => Baseline::Middle,
        _ => Baseline::Alphabetic,
    }
}

struct Drawn {
    ret: Value,
    map: Value,
    bbox: Value,
    painted: bool,
}

fn draw(font: &MonoFont, sty: &StyleSpec, ts: TextStyle, text: &[u32], pos: Point) -> Drawn {
    let s = string_of(text);
    // (the same settings, constructed along one of several routes of the Text / TextStyle API)
    let al = match ts.alignment {
        Alignment::Left => 0,
        Alignment::Center => 1,
        Alignment::Right => 2,
    };
    let bl = match ts.baseline {
        Baseline::Top => 0,
        Baseline::Bottom => 1,
        Baseline::Middle => 2,
        Baseline::Alphabetic => 3,
    };
    let lh = match ts.line_height {
        LineHeight::Pixels(p) => (0u8, p),
        LineHeight::Percent(p) => (1u8, p),
    };
    let t = mk_text(&s, pos, sty.build(font), al, bl, lh, text.len() + pos.x.unsigned_abs() as usize + pos.y.unsigned_abs() as usize);
    let mut target = MapTarget::<Gray8>::new();
    let ret = t.draw(&mut target).unwrap();
    Drawn { ret: pt_json(ret), map: raster(&target.map), bbox: rect_json(&t.bounding_box()), painted: !target.map.is_empty() }
}

/// The distance between two lines the driver uses to place the separately drawn lines
/// (the trace specification re-computes it and rejects the trace if it differs).
fn line_distance(lh: (u8, u32), ch: u32) -> i32 {
    (if lh.0 == 0 { lh.1 } else { ch * lh.1 / 100 }) as i32
}

fn record_layout(rec: &mut Rec, font: &MonoFont, lay: &Layout) -> bool {
    let ts = text_style(lay.align, lay.base, lay.lh);
    let pos = Point::new(lay.pos.0, lay.pos.1);
    let whole = draw(font, &lay.sty, ts, &lay.text, pos);
    // T': every CR LF replaced by LF
    let mut tl: Vec<u32> = vec![];
    let mut k = 0;
    while k < lay.text.len() {
        if lay.text[k] == 13 && k + 1 < lay.text.len() && lay.text[k + 1] == 10 {
            tl.push(10);
            k += 2;
        } else {
            tl.push(lay.text[k]);
            k += 1;
        }
    }
    let lf = if tl == lay.text { None } else { Some(draw(font, &lay.sty, ts, &tl, pos)) };
    let lfr = lf.as_ref().unwrap_or(&whole);
    // the lines of T as separate single-line texts
    let d = line_distance(lay.lh, font.character_size.height);
    let style = lay.sty.build(font);
    let mut lines = vec![];
    // the lines of T: split at LF; a CR in front of that LF belongs to the line ending (the last line has none)
    let raw_lines: Vec<&[u32]> = lay.text.split(|&c| c == 10).collect();
    let nl = raw_lines.len();
    let true_lines: Vec<&[u32]> =
        raw_lines.iter().enumerate().map(|(j, l)| if j + 1 < nl && l.last() == Some(&13) { &l[..l.len() - 1] } else { *l }).collect();
    for (j, line) in true_lines.iter().enumerate() {
        let line: &[u32] = line;
        let y = lay.pos.1 + j as i32 * d;
        let p = Point::new(lay.pos.0, y);
        let dr = draw(font, &lay.sty, ts, line, p);
        let s = string_of(line);
        let m0 = style.measure_string(&s, Point::zero(), baseline(lay.base)).next_position;
        // (measured at the line's own x for left aligned text; an aligned line does not start at x, and near the edge of
        // the coordinate range a text STARTING at x would not fit, so x = 0 is used there: only mp.y is used then)
        let mp = style.measure_string(&s, if lay.align == 0 { p } else { Point::new(0, y) }, baseline(lay.base)).next_position;
        lines.push(json!({"text": line, "y": y, "ret": dr.ret, "map": dr.map, "m0": pt_json(m0), "mp": pt_json(mp)}));
    }
    // the same text with Baseline::Top
    // (not on the last rows of the coordinate range: with Baseline::Top the same text would not fit there)
    let top = if lay.base != 0 && lay.pos.1 < i32::MAX - (1 << 16) {
        let dr = draw(font, &lay.sty, text_style(lay.align, 0, lay.lh), &lay.text, pos);
        json!({"used": 1, "ret": dr.ret, "map": dr.map})
    } else {
        json!({"used": 0, "ret": [0, 0], "map": [0, 0, 0, 0, []]})
    };
    // chained drawing: single-line, left-aligned texts only
    let mut chains = vec![];
    if lay.align == 0 && !lay.text.iter().any(|&c| c == 10) {
        let ks: Vec<usize> = match &lay.chains {
            Some(v) => v.iter().copied().filter(|&k| k <= lay.text.len()).collect(),
            None => (0..=lay.text.len()).collect(),
        };
        for k in ks {
            let d1 = draw(font, &lay.sty, ts, &lay.text[..k], pos);
            let at2 = pt_from(&d1.ret);
            let d2 = draw(font, &lay.sty, ts, &lay.text[k..], at2);
            chains.push(json!({"k": k, "ret1": d1.ret, "map1": d1.map, "at2": pt_json(at2), "ret2": d2.ret, "map2": d2.map}));
        }
    }
    // the same Text on targets that report a small bounding box (what was written is logged wherever it falls)
    let mut small = vec![];
    if lay.text.len() <= 12 && lay.pos.0.unsigned_abs() < 1_000_000_000 && lay.pos.1.unsigned_abs() < 1_000_000_000 {
        let s = string_of(&lay.text);
        let ch = font.character_size.height as i32;
        for (k, b) in [
            Rectangle::new(pos + Point::new(-3, -ch), Size::new(9, (ch + 2) as u32)),
            Rectangle::new(pos + Point::new(2, -2 * ch - 40), Size::new(30, 3)),
            Rectangle::new(pos + Point::new(-40, 0), Size::new(20, 1)),
            Rectangle::new(Point::new(0, 0), Size::new(0, 0)),
        ]
        .iter()
        .enumerate()
        {
            if (k + lay.text.len() + lay.pos.0.unsigned_abs() as usize) % 2 == 0 {
                continue;
            }
            let t = Text::with_text_style(&s, pos, lay.sty.build(font), ts);
            let mut target = MapTarget::<Gray8>::with_box(*b);
            let ret = t.draw(&mut target).unwrap();
            small.push(json!({"box": rect_json(b), "ret": pt_json(ret), "map": raster(&target.map)}));
        }
    }
    let mut f = lay.fields();
    let o = f.as_object_mut().unwrap();
    o.insert("small".into(), json!(small));
    o.remove("chains");
    o.insert("sty".into(), json!({"tc": lay.sty.tc, "bg": lay.sty.bg, "ulm": lay.sty.ul.0, "ulc": lay.sty.ul.1,
                                  "stm": lay.sty.st.0, "stc": lay.sty.st.1}));
    o.insert("font".into(), metrics_json(font));
    o.insert("whole".into(), json!({"ret": whole.ret, "map": whole.map, "bbox": whole.bbox}));
    o.insert("lf".into(), json!({"text": tl, "ret": lfr.ret, "map": lfr.map, "bbox": lfr.bbox}));
    o.insert("lines".into(), json!(lines));
    o.insert("top".into(), top);
    o.insert("chains".into(), json!(chains));
    rec.ev("layout", f);
    whole.painted
}

/// Lines that are millions of pixels apart (very large line heights): the pictures are logged as sparse coloured
/// runs, the whole text against its lines drawn separately `line_height` apart (event "tall").
fn record_tall(rec: &mut Rec, font: &MonoFont, lay: &Layout) -> bool {
    let ts = text_style(lay.align, lay.base, lay.lh);
    let sparse = |text: &[u32], pos: Point| {
        let s = string_of(text);
        let al = lay.align;
        let t = mk_text(&s, pos, lay.sty.build(font), al, lay.base, lay.lh, text.len() + al as usize);
        let mut target = MapTarget::<Gray8>::new();
        let ret = t.draw(&mut target).unwrap();
        (pt_json(ret), cruns_of(&target.map), !target.map.is_empty())
    };
    let _ = ts;
    let pos = Point::new(lay.pos.0, lay.pos.1);
    let (ret, map, painted) = sparse(&lay.text, pos);
    let d = line_distance(lay.lh, font.character_size.height);
    let raw_lines: Vec<&[u32]> = lay.text.split(|&c| c == 10).collect();
    let nl = raw_lines.len();
    let mut lines = vec![];
    for (j, l) in raw_lines.iter().enumerate() {
        let line: &[u32] = if j + 1 < nl && l.last() == Some(&13) { &l[..l.len() - 1] } else { l };
        let y = lay.pos.1 + j as i32 * d;
        let (lret, lmap, _) = sparse(line, Point::new(lay.pos.0, y));
        lines.push(json!({"y": y, "ret": lret, "map": lmap}));
    }
    rec.ev("tall", json!({"ch": font.character_size.height, "lh": [lay.lh.0, lay.lh.1], "pos": [lay.pos.0, lay.pos.1], "ret": ret, "map": map, "lines": lines}));
    painted
}

fn run_layout(rec: &mut Rec, font: &MonoFont, lay: &Layout) {
    // record_layout emits its single event at the very end: a panic leaves nothing half-written
    match catch(|| if lay.lh.0 == 1 && lay.lh.1 > 1_000_000 { record_tall(rec, font, lay) } else { record_layout(rec, font, lay) }) {
        Ok(true) => rec.nontrivial(),
        Ok(false) => {}
        Err(p) => {
            rec.ev("panic", json!({"msg": p.msg, "loc": p.loc}));
            rec.note("panicked_cases");
        }
    }
}

/// A spaced custom font with the ASCII mapping and a complete atlas of seeded bits.
fn custom_font(v: &Value) -> FontSpec {
    let u = |x: &Value| i(x) as u32;
    let (cw, ch) = (u(&v["cw"]), u(&v["ch"]));
    let mut rng = Rng::new(i(&v["seed"]) as u64 ^ 0xC15F);
    let (aw, ah) = (16 * cw, 6 * ch);
    let atlas = (0..ah)
        .map(|_| {
            let mut row: Vec<u8> = (0..(aw + 7) / 8).map(|_| rng.u32r(0, 255) as u8).collect();
            if aw % 8 != 0 {
                let last = row.len() - 1;
                row[last] &= !(0xffu8 >> (aw % 8));
            }
            row
        })
        .collect();
    FontSpec {
        cw,
        ch,
        s: u(&v["s"]),
        bl: u(&v["bl"]),
        ul: (u(&v["ul"][0]), u(&v["ul"][1])),
        st: (u(&v["st"][0]), u(&v["st"][1])),
        aw,
        ah,
        atlas,
        map: vec![0, 0x20, 0x7f],
        repl: 31,
    }
}

fn run_case(rec: &mut Rec, fonts: &[BFont], d: &Value) {
    rec.begin(d.clone());
    let lay = Layout::from_json(d);
    match d["k"].as_str().unwrap() {
        "builtin" => {
            let name = d["font"].as_str().unwrap();
            let bf = fonts.iter().find(|b| b.name == name).unwrap_or_else(|| panic!("unknown font {}", name));
            run_layout(rec, bf.font, &lay);
        }
        "custom" => custom_font(&d["font"]).with_font(|font, _| run_layout(rec, font, &lay)),
        // (G) a configuration explored by MC_C15, or an explicit font (witnesses)
        "mc" | "explicit" => FontSpec::from_json(&d["font"]).with_font(|font, _| run_layout(rec, font, &lay)),
        k => panic!("unknown case kind {}", k),
    }
}

fn s(t: &str) -> Vec<u32> {
    t.chars().map(|c| c as u32).collect()
}

/// The 16 strings of the enumerated domain.
fn strings() -> Vec<Vec<u32>> {
    vec![
        s(""), s("a"), s("Hello!"), s("ab\ncd"), s("ab\n\ncde"), s("ab\n"), s("\nab"), s("ab\r\ncd"), s("\r\nab"), s("abc\r\n"),
        s("a\r\n\r\nbc"), s("a\rb"), s("ab\r"), s("a\u{2603}b\nc\u{7f}"), s("\r\n"), s("a\r\r\nb"),
    ]
}

fn styles(c: [i64; 4]) -> Vec<StyleSpec> {
    vec![
        StyleSpec { tc: c[0], bg: -1, ul: (0, 0), st: (0, 0) },
        StyleSpec { tc: c[0], bg: c[1], ul: (0, 0), st: (0, 0) },
        StyleSpec { tc: c[0], bg: c[1], ul: (1, 0), st: (2, c[3]) },
        StyleSpec { tc: -1, bg: -1, ul: (2, c[2]), st: (0, 0) },
        StyleSpec { tc: -1, bg: c[1], ul: (0, 0), st: (1, 0) },
        StyleSpec { tc: -1, bg: -1, ul: (0, 0), st: (0, 0) },
    ]
}

fn font_json(kind: &str, name: &str, custom: &Value) -> (String, Value) {
    if kind == "builtin" {
        ("builtin".into(), json!(name))
    } else {
        ("custom".into(), custom.clone())
    }
}

fn main() {
    let args = Args::parse();
    install_panic_hook();
    let mut rec = Rec::new(&args);
    let fonts = builtin_fonts();
    if let Some(cases) = &args.cases {
        for d in cases {
            run_case(&mut rec, &fonts, d);
        }
        rec.finish(json!({}));
        return;
    }
    for d in args.gen.iter().chain(args.witnesses.iter()) {
        run_case(&mut rec, &fonts, d);
    }
    let mut rng = Rng::new(args.seed ^ 0xC15);
    let col = [200, 40, 90, 130];
    let strs = strings();
    let stys = styles(col);
    let customs: Vec<Value> = vec![
        json!({"cw": 3, "ch": 5, "s": 1, "bl": 3, "ul": [6, 1], "st": [2, 1], "seed": 1}),
        json!({"cw": 4, "ch": 6, "s": 2, "bl": 4, "ul": [7, 1], "st": [3, 1], "seed": 2}),
        json!({"cw": 2, "ch": 3, "s": 3, "bl": 2, "ul": [3, 2], "st": [1, 1], "seed": 3}),
        json!({"cw": 5, "ch": 8, "s": 1, "bl": 6, "ul": [9, 1], "st": [4, 2], "seed": 4}),
        json!({"cw": 6, "ch": 9, "s": 2, "bl": 6, "ul": [8, 1], "st": [4, 1], "seed": 5}),
        json!({"cw": 1, "ch": 1, "s": 1, "bl": 0, "ul": [1, 1], "st": [0, 1], "seed": 6}),
    ];
    // (1) the full product on small fonts
    let full: Vec<(&str, &str, &Value)> = vec![
        ("builtin", "ascii::FONT_4X6", &Value::Null),
        ("custom", "", &customs[0]),
        ("custom", "", &customs[2]),
        ("custom", "", &customs[5]),
    ];
    let lhs_of = |ch: u32| -> Vec<(u8, u32)> { vec![(1, 100), (0, ch + 3), (1, 150)] };
    for (kind, name, cf) in &full {
        let ch = if *kind == "builtin" { 6 } else { i(&cf["ch"]) as u32 };
        let (k, f) = font_json(kind, name, cf);
        for text in &strs {
            for align in 0..3u8 {
                for base in 0..4u8 {
                    for lh in lhs_of(ch) {
                        for sty in &stys[..4] {
                            let pos = (rng.i32(-9, 9), rng.i32(-9, 9));
                            let chains = vec![rng.usize(0, text.len()), text.len() / 2];
                            run_case(&mut rec, &fonts, &json!({"k": k, "font": f, "text": text, "pos": [pos.0, pos.1],
                                "align": align, "base": base, "lh": [lh.0, lh.1], "sty": sty.to_arr(), "chains": chains}));
                        }
                    }
                }
            }
        }
    }
    // (2) seeded combinations: one font per size / weight (quick) or every font constant (thorough),
    //     the remaining custom fonts, seeded strings
    let per_font = if args.thorough() { 120 } else { 90 };
    let mut pool: Vec<(String, Value, u32)> = vec![];
    for bf in &fonts {
        if args.thorough() || bf.name.starts_with("ascii::") || bf.name == "jis_x0201::FONT_9X15" || bf.name == "iso_8859_2::FONT_10X20" {
            pool.push(("builtin".into(), json!(bf.name), bf.font.character_size.height));
        }
    }
    for cf in &customs {
        pool.push(("custom".into(), cf.clone(), i(&cf["ch"]) as u32));
    }
    // incl. zero-width / invisible code points and every Unicode "line break" character other than LF (VT, FF, NEL,
    // LS, PS): for Text they are ordinary characters of one cell each - only LF (and CR LF) ends a line
    let alphabet: Vec<u32> = s("abcXYZ gj,!\u{e9}\u{2603}\u{7f}\u{200b}\u{feff}\u{2028}\u{2029}\u{85}\u{b}\u{c}\u{2060}\u{ad}\u{301}\u{1F600}");
    for (k, f, ch) in &pool {
        for n in 0..per_font {
            let text: Vec<u32> = if n % 3 != 0 {
                rng.pick(&strs).clone()
            } else {
                let len = rng.usize(0, if args.thorough() { 24 } else { 10 });
                (0..len)
                    .map(|_| match rng.u32r(0, 11) {
                        0 => 10,
                        1 => 13,
                        2 => {
                            // CR LF as a unit is generated by emitting CR here and LF next time with some probability
                            13
                        }
                        _ => *rng.pick(&alphabet),
                    })
                    .collect::<Vec<u32>>()
                    .iter()
                    .flat_map(|&c| if c == 13 && rng.bool() { vec![13, 10] } else { vec![c] })
                    .collect()
            };
            let lh = match rng.u32r(0, 5) {
                0 => (0u8, rng.u32r(0, 3 * ch)),
                1 => (1u8, rng.u32r(25, 400)),
                2 => (0u8, 0),
                _ => *rng.pick(&lhs_of(*ch)),
            };
            let pos = (rng.i32(-50, 50), rng.i32(-50, 50));
            let chains = vec![rng.usize(0, text.len())];
            run_case(&mut rec, &fonts, &json!({"k": k, "font": f, "text": text, "pos": [pos.0, pos.1],
                "align": rng.u32r(0, 2), "base": rng.u32r(0, 3), "lh": [lh.0, lh.1], "sty": rng.pick(&stys).to_arr(), "chains": chains}));
        }
    }
    // exotic code points in fixed strings, every alignment / baseline, a few fonts
    for (k, f, _) in pool.iter().take(4).chain(pool.iter().rev().take(2)) {
        for (j, text) in [s("a\u{200b}b"), s("\u{feff}Hi"), s("ab\u{2028}cd"), s("x\u{2029}\ny\u{85}z"), s("\u{b}\u{c}|"), s("q\u{200d}\u{2060}\r\nw\u{ad}")].iter().enumerate() {
            for align in 0..3u32 {
                let base = (j as u32 + align) % 4;
                run_case(&mut rec, &fonts, &json!({"k": k, "font": f, "text": text, "pos": [7 - j as i32, j as i32 * 3 - 4],
                    "align": align, "base": base, "lh": [1, 100], "sty": stys[(j + align as usize) % stys.len()].to_arr(), "chains": [1, 2]}));
            }
        }
    }
    // positions at the edge of the coordinate range (the whole text still fits): right aligned text ending at
    // i32::MAX - 1, centred text close to it, left aligned text starting at i32::MIN, rows near both ends
    for (k, f, _) in pool.iter().take(3) {
        for (j, (align, x)) in [(2u32, i32::MAX - 1), (1, i32::MAX - 40), (0, i32::MIN), (0, i32::MIN + 3), (2, i32::MAX - 300)].iter().enumerate() {
            for (y, base) in [(i32::MAX - 200, 0u32), (i32::MIN + 200, 1), (0, 3)] {
                for text in [s("ab"), s("a"), s("ab\nc")] {
                    run_case(&mut rec, &fonts, &json!({"k": k, "font": f, "text": text, "pos": [x, y], "align": align, "base": base,
                        "lh": [1, 100], "sty": stys[j % stys.len()].to_arr(), "chains": []}));
                }
            }
        }
    }
    // very large relative line heights: font height x percent between 2^31 and 2^32 (exact in the library's u32
    // arithmetic, e.g. 150 000 000 % of a 20 px font = 30 000 000 px), lines that far apart still fit
    for (k, f, ch) in pool.iter().take(4).chain(pool.iter().rev().take(2)) {
        let pct = (3_000_000_000u64 / (*ch).max(1) as u64).min(2_000_000_000) as u32; // (event integers stay below 2^31)
        for (j, (align, base)) in [(0u32, 0u32), (2, 1), (1, 3)].iter().enumerate() {
            for text in [s("a\nb"), s("ab\r\nc\nd")] {
                run_case(&mut rec, &fonts, &json!({"k": k, "font": f, "text": text, "pos": [7 * j as i32, -1_000_000_000 + j as i32], "align": align,
                    "base": base, "lh": [1, pct], "sty": stys[j % stys.len()].to_arr(), "chains": []}));
            }
        }
    }
    // the very last rows of the coordinate range: the text fits completely (bottom baseline on row i32::MAX, the second
    // line of a two-line text on it), and so does the returned position
    // (styles without an underline: an underline lies below the cell, i.e. beyond the last row)
    let no_ul: Vec<_> = stys.iter().filter(|s| s.to_arr()[2] == 0).collect();
    for (k, f, _) in pool.iter().take(3) {
        for (j, (align, x)) in [(0u32, 5), (2, 90), (1, -40)].iter().enumerate() {
            for (text, y, lh) in [(s("a"), i32::MAX, json!([1, 100])), (s("ab"), i32::MAX - 1, json!([1, 100])), (s("ab\nc"), i32::MAX - 5, json!([0, 5])),
                                  (s("a\r\nbc\nd"), i32::MAX - 6, json!([0, 3]))] {
                run_case(&mut rec, &fonts, &json!({"k": k, "font": f, "text": text, "pos": [x, y], "align": align, "base": 1,
                    "lh": lh, "sty": no_ul[j % no_ul.len()].to_arr(), "chains": []}));
            }
        }
    }
    rec.note_n("fonts_in_seeded_part", pool.len() as u64);
    rec.finish(json!({}));
}
