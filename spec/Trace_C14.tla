------------------------------ MODULE Trace_C14 -----------------------------
(* (T) for C14.  A case is one font followed by lines drawn with it:          *)
(*   font  metrics, atlas bits read through font.image.pixel(), raw mapping   *)
(*         string, replacement index, glyph_mapping.index() probes            *)
(*   line  characters, position, style, returned position, raster of the      *)
(*         painted pixels                                                     *)
(* Verdicts come from P_C14 only; exact comparison with the transcription of  *)
(* EGFont is reported as DRIFT (small lines and ill-formed mappings).         *)
EXTENDS TraceBase, P_C14
VARIABLES l, font

NoFont == [set |-> FALSE]
Init == l = 1 /\ font = NoFont

Drift(case, what, detail) ==
  PrintT("DRIFT " \o ToJson([module |-> "EGFont", case |-> case, what |-> what, detail |-> detail]))
Stat(r) == PrintT("STAT " \o ToJson(r))

ObsFont(e) ==
  LET wf == WellFormedMapping(e.map) IN
  [set |-> TRUE, cw |-> e.cw, ch |-> e.ch, s |-> e.s, bl |-> e.bl, ul |-> e.ul, st |-> e.st,
   aw |-> e.aw, ah |-> e.ah, atlas |-> e.atlas, map |-> e.map, repl |-> e.repl,
   builtin |-> e.builtin, name |-> e.name, wf |-> wf, exp |-> IF wf THEN Expand(e.map) ELSE <<>>,
   probes |-> e.probes]

StepCase(e) == e.ev = "case" /\ font' = NoFont
StepFont(e) ==
  /\ e.ev = "font"
  /\ (e.cw >= 0 /\ e.ch >= 0 /\ e.s >= 0 /\ AtlasWellFormed(e)) = TRUE
  /\ LET fo == ObsFont(e) IN
     /\ font' = fo
     /\ Report(e.case, FontFails(fo), FontDetail(fo))
     \* the transcribed chars()/index() against what the library's chars()/index() returned
     /\ IF e.has_chars = 1 /\ Len(e.map) <= 400 /\ e.chars # CharsT(e.map)
        THEN Drift(e.case, "chars", [font |-> e.name]) ELSE TRUE
     /\ IF ~fo.wf /\ \E k \in 1..Len(e.probes) : e.probes[k][2] # IndexT(e.map, e.repl, e.probes[k][1])
        THEN Drift(e.case, "index", [font |-> e.name]) ELSE TRUE
     \* informational statistics about the built-in fonts (not demanded by the property text): the
     \* replacement glyph is not '?'; atlas cells that no character designates
     /\ Stat([fonts |-> 1, mapped_chars |-> Len(fo.exp), probes |-> Len(e.probes),
              builtin_replacement_not_qmark |-> IF e.builtin = 1 /\ fo.wf /\ IndexIn(fo.exp, e.repl, 63) # e.repl THEN 1 ELSE 0,
              builtin_cells_not_designated |->
                IF e.builtin = 1 /\ fo.wf /\ e.cw > 0 /\ e.ch > 0
                THEN Max(0, (e.aw \div e.cw) * (e.ah \div e.ch) - Len(fo.exp)) ELSE 0])
StepLine(e) ==
  /\ e.ev = "line"
  /\ font.set
  /\ RCanonical(e.map) = TRUE          \* structure (forced to plain evaluation)
  /\ LET sty == [tc |-> e.tc, bg |-> e.bg, ulm |-> e.ul[1], ulc |-> e.ul[2], stm |-> e.st[1], stc |-> e.st[2]]
         \* a line without LF is the last line of its text: no CR is part of a line ending there (D26), every CR is
         \* an unmapped character with its own cell, for Text::draw (api 0) as for draw_string (api 1)
         eff == e.chars
         ln  == [chars |-> eff, pos |-> e.pos, sty |-> sty, map |-> e.map]
         small == ~font.wf \/ Len(e.chars) * font.cw * font.ch <= 160
     IN /\ Report(e.case, LineFails(font, ln), LineDetail(font, ln))
        /\ IF small
           THEN LET t == DrawStringT(font, sty, eff, e.pos, 0, EmptyPic) IN
                IF RasterOfPic(t.pic) # e.map \/ t.ret # e.ret
                THEN Drift(e.case, "draw_string", [font |-> font.name, chars |-> eff, sty |-> sty,
                                                  ret |-> e.ret, model_ret |-> t.ret])
                ELSE TRUE
           ELSE TRUE
        /\ LET u == UnconstrainedCells(font, ln) IN
           Stat([lines |-> 1, chars |-> Len(e.chars), unconstrained_cells |-> u, drift_compared |-> IF small THEN 1 ELSE 0])
  /\ UNCHANGED font
\* a library call of this case panicked: the property promises a result for every input of its domain
StepPanic(e) == e.ev = "panic" /\ Report(e.case, {"library_call_panicked"}, [msg |-> e.msg, loc |-> e.loc]) /\ UNCHANGED font

Next == /\ l <= NRec
        /\ LET e == Rec[l] IN StepCase(e) \/ StepFont(e) \/ StepLine(e) \/ StepPanic(e)
        /\ l' = l + 1
Spec == Init /\ [][Next]_<<l, font>>

Done == IF TLCGet("stats").diameter = NRec + 1
        THEN PrintT("TRACE-ACCEPTED " \o ToString(NRec))
        ELSE PrintT("TRACE-REJECTED at line " \o ToString(TLCGet("stats").diameter)) /\ FALSE
=============================================================================
