CONSTANTS
  SMax = 3
  WMax = 2
  Mutant = "rr"
SPECIFICATION Spec
INVARIANTS PaintsByTheAreas AreasDocumented RowsOrdered StrokeSides
CHECK_DEADLOCK FALSE
