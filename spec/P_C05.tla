------------------------------- MODULE P_C05 -------------------------------
(* Property C05 — points() enumerates exactly the points contains() accepts:  *)
(* each once, in row-major order, all inside bounding_box(); contains() is    *)
(* false everywhere else.                                                     *)
(* An observation is a record                                                 *)
(*   bbox   bounding_box()                                                    *)
(*   pr     the sequence points() yielded, as emission-order runs             *)
(*   trunc  1 iff points() had not ended after area + 64 items                *)
(*   cr     {p in bbox grown by 2 : contains(p)} as sorted maximal runs       *)
(*   far    probes <<x, y, contains>> far outside the bounding box            *)
EXTENDS EGGeom

\* The abstract enumerator: Emit(p) is allowed iff p is the row-major minimum of what remains.
\* For a complete sequence this is: strictly increasing and the same set.
ShapeFails(o) ==
     (IF o.trunc = 0 THEN {} ELSE {"points_does_not_end"})
\cup (IF RunsOrdered(o.pr) THEN {} ELSE {"not_row_major_or_duplicate"})
\cup (IF SameRunSet(o.pr, o.cr) THEN {} ELSE {"points_differ_from_contains"})
\cup (IF RunsInRect(o.cr, o.bbox) THEN {} ELSE {"contains_true_outside_bbox"})
\cup (IF RunsInRect(o.pr, o.bbox) THEN {} ELSE {"point_outside_bbox"})
\cup (IF \A i \in 1..Len(o.far) : o.far[i][3] = 0 THEN {} ELSE {"contains_true_far_outside"})
\* o.ctd: probes at which the hit test through the ContainsPoint trait differs from the inherent contains()
\cup (IF o.ctd = <<>> THEN {} ELSE {"contains_through_the_trait_differs"})

\* A very large shape (o.bbox at least 3 x 3 for the curved kinds): probes <<x, y, contains>> - false outside the bounding
\* box, false at the four corner pixels of a circle / ellipse, true at the centre; the first points lie in the box in
\* row-major order
BigFails(o) ==
  LET b == o.bbox
      corner(p) == p[1] \in {b[1], b[1] + b[3] - 1} /\ p[2] \in {b[2], b[2] + b[4] - 1}
      centre(p) == p[1] \in {b[1] + (b[3] - 1) \div 2, b[1] + b[3] \div 2} /\ p[2] \in {b[2] + (b[4] - 1) \div 2, b[2] + b[4] \div 2}
  IN   (IF \A i \in 1..Len(o.probes) : InRect(b, <<o.probes[i][1], o.probes[i][2]>>) \/ o.probes[i][3] = 0
        THEN {} ELSE {"contains_true_outside_bbox"})
  \cup (IF o.kind \in {"circle", "ellipse"} /\ \E i \in 1..Len(o.probes) : corner(<<o.probes[i][1], o.probes[i][2]>>) /\ o.probes[i][3] = 1
        THEN {"big_curve_contains_its_box_corner"} ELSE {})
  \cup (IF o.kind = "triangle" \/ \A i \in 1..Len(o.probes) : centre(<<o.probes[i][1], o.probes[i][2]>>) => o.probes[i][3] = 1
        THEN {} ELSE {"big_shape_misses_its_centre"})
  \cup (IF /\ \A i \in 1..Len(o.first) : InRect(b, o.first[i])
           /\ \A i \in 1..(Len(o.first) - 1) : RMLess(o.first[i], o.first[i + 1])
        THEN {} ELSE {"big_first_points"})
  \* ... and contains() accepts every one of them
  \cup (IF \A i \in 1..Len(o.first_in) : o.first_in[i] = 1 THEN {} ELSE {"big_first_points_not_contained"})

\* points() observed through other Iterator methods (o.proto, recorded when next() showed the sequence o.pr of o.np
\* points to be finite): they all describe the same sequence
ProtoFails(o) ==
  LET q == o.proto  n == o.np IN
  IF o.trunc # 0 THEN {}
  ELSE (IF q.cnt = n THEN {} ELSE {"count_differs_from_next"})
  \cup (IF q.last = (IF n = 0 THEN <<>> ELSE RunsNth(o.pr, n - 1)) THEN {} ELSE {"last_differs_from_next"})
  \cup (IF q.lo <= n /\ (q.hi = -1 \/ q.hi >= n) THEN {} ELSE {"size_hint_excludes_length"})
  \cup (IF q.mlo <= n - q.k /\ (q.mhi = -1 \/ q.mhi >= n - q.k) THEN {} ELSE {"size_hint_excludes_remaining_length"})
  \cup (IF /\ Len(q.walk) = Min(n \div q.stride, 4096)
           /\ \A j \in 1..Len(q.walk) : q.walk[j][1] = j * q.stride - 1 /\ <<q.walk[j][2], q.walk[j][3]>> = RunsNth(o.pr, q.walk[j][1])
        THEN {} ELSE {"nth_differs_from_next"})
  \* (q.after - two more calls of next() after the end - is recorded but not judged: Iterator does not promise fusedness)
  \* mixed consumption <<k, count, last, fold count, fold first, fold last, skip(k).count()>>: after k items pulled with
  \* next() the other methods see exactly the rest of the same sequence
  \cup (IF \A j \in 1..Len(q.mixed) :
            LET mx == q.mixed[j]  k == mx[1]  rest == IF k < n THEN n - k ELSE 0
                lastP == IF rest = 0 THEN <<>> ELSE RunsNth(o.pr, n - 1)
                firstP == IF rest = 0 THEN <<>> ELSE RunsNth(o.pr, k)
            IN mx[2] = rest /\ mx[3] = lastP /\ mx[4] = rest /\ mx[5] = firstP /\ mx[6] = lastP /\ mx[7] = rest
        THEN {} ELSE {"rest_after_next_differs"})
  \* indices >= 2^32 (see EGGeom!SeqProtoFails)
  \cup (IF \A j \in 1..Len(q.huge) : q.huge[j][3] = 0 /\ q.huge[j][4] = 0 THEN {} ELSE {"index_beyond_2_32_wraps_into_the_sequence"})
=============================================================================
