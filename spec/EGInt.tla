------------------------------- MODULE EGInt -------------------------------
(* Rust integer semantics needed by the transcriptions of embedded-graphics   *)
(* arithmetic.  TLC integers are 32-bit; every operator is written so that no *)
(* intermediate leaves the i32 range for the arguments used in this project.  *)
EXTENDS Integers

Min(a, b) == IF a <= b THEN a ELSE b
Max(a, b) == IF a >= b THEN a ELSE b
Abs(a)    == IF a >= 0 THEN a ELSE -a
Sgn(a)    == IF a > 0 THEN 1 ELSE IF a < 0 THEN -1 ELSE 0

I32Max == 2147483647
I32Min == -2147483647 - 1

\* Rust `/` on signed integers truncates towards zero.
TruncDiv(a, b) ==
  IF a >= 0 THEN (IF b > 0 THEN a \div b ELSE -(a \div (-b)))
            ELSE (IF b > 0 THEN -((-a) \div b) ELSE (-a) \div (-b))
\* Rust `%` on signed integers has the sign of the dividend.
TruncRem(a, b) == a - b * TruncDiv(a, b)
\* rem_euclid for a positive modulus.
RemEuclid(a, m) == a % m
\* floor / ceil division by a positive divisor
FloorDiv(a, b) == a \div b
CeilDiv(a, b)  == -((-a) \div b)

\* u32 saturating arithmetic (operands are naturals below 2^31 here).
SatSubU(a, b) == IF a >= b THEN a - b ELSE 0
SatAddU(a, b) == a + b
\* `u32 as i32` saturating (saturating_as); operands below 2^31 are unchanged.
SatAsI32(u) == Min(u, I32Max)

Pow2(n) == 2 ^ n
\* integer square root (floor), by bisection on 0..46340 (46340^2 < 2^31)
RECURSIVE ISqrtB(_, _, _)
ISqrtB(n, lo, hi) ==
  IF lo >= hi THEN lo
  ELSE LET mid == (lo + hi + 1) \div 2 IN
       IF mid * mid <= n THEN ISqrtB(n, mid, hi) ELSE ISqrtB(n, lo, mid - 1)
ISqrt(n) == ISqrtB(n, 0, 46340)
=============================================================================
