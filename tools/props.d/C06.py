P = dict(
    bin="egv_c06", trace="Trace_C06", level="model_checking",
    mc=[],
    required_events=["styled"],
    level_text="for every closed shape x style of an exhaustive small domain (sizes <= 10x10, stroke widths 0..7 so that the "
               "fill area collapses, three alignments, four colour presences) plus seeded larger ones, TLC checks the pixel "
               "maps of draw() and pixels() against the painting rule over the point sets of the public fill_area() / "
               "stroke_area(), and the documented geometry of the two areas",
    level_note="trusted: P_C06 / EGStyled.ExpectedPaint, MapTarget, run encoding; areas are probed on all boxes grown by 2",
    rule="one case per (closed shape, style); non-trivial = draw() painted at least one pixel; distinct = distinct descriptor",
    trusted=COMMON_TRUSTED + ["spec/P_C06.tla, spec/EGStyled.tla", "harness MapTarget (set pixels, later wins)"],
)
