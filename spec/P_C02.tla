------------------------------- MODULE P_C02 -------------------------------
(* Property C02 — bounding boxes contain everything that is drawn; a           *)
(* completely transparent style draws nothing.  Observation o:                 *)
(*   bbox     bounding_box() of the drawable                                   *)
(*   touched  the set of points draw() wrote on an unbounded target (runs)     *)
(*   style    [fill, stroke, w] (primitives) / [tc, bc, ul, st] (text);        *)
(*            -1 = absent, decorations: -2 = "same colour as the text"         *)
(* Tightness of the box is NOT demanded.                                       *)
EXTENDS EGGeom

PrimTransparent(st) == st.fill < 0 /\ (st.stroke < 0 \/ st.w = 0)
DecoAbsent(st, v)   == v = -1 \/ (v = -2 /\ st.tc < 0)
TextTransparent(st) == st.tc < 0 /\ st.bc < 0 /\ DecoAbsent(st, st.ul) /\ DecoAbsent(st, st.st)
Transparent(o) == CASE o.kind = "prim" -> PrimTransparent(o.style)
                    [] o.kind = "text" -> TextTransparent(o.style)
                    [] OTHER -> FALSE

DrawFails(o) ==
       (IF RunsInRect(o.touched, o.bbox) THEN {} ELSE {"pixel_outside_bounding_box"})
  \cup (IF ~Transparent(o) \/ o.touched = <<>> THEN {} ELSE {"transparent_style_draws"})

\* the touched runs that stick out of the box (for the verdict detail)
Outside(o) == SelectSeq(o.touched, LAMBDA r : ~RunsInRect(<<r>>, o.bbox))
=============================================================================
