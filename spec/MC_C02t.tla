------------------------------- MODULE MC_C02t ------------------------------
(* (M) for C02 / C07 / C19, stroked triangles with centre alignment: the        *)
(* TRANSCRIBED renderer of triangle/styled.rs (EGThickTri: joins of the         *)
(* clockwise sorted triangle, the three thick segments, left / right merging   *)
(* of their scanline intersections, the fill between the two stroke ranges,    *)
(* the iteration that ends at the first row without a line) as a machine that  *)
(* renders ONE ROW PER STEP, side by side for a triangle and its translate.    *)
(*   RowInsideBox    every fill / stroke range lies inside the transcribed      *)
(*                   styled bounding box (C02)                                  *)
(*   Equivariant     box and rows of the translated triangle are the translated *)
(*                   box and rows (C07)                                         *)
(*   RowsOrdered     two stroke ranges of a row do not touch (else they would   *)
(*                   have been merged) and the fill lies between them           *)
(*   NoRowLost       the iteration does not end before the last row of the box  *)
(*                   (an empty row would end it: scanline_iterator.rs)          *)
(*   OutlineIsThreeLines   for stroke width 1 the stroke is exactly the union   *)
(*                   of the three edge lines (C19)                              *)
EXTENDS EGThickTri, TLC
CONSTANTS G, Ws, D, HasFill, Als
VARIABLES t, w, al, col, tc, segs, box, tc2, segs2, box2, y, row, row2, alive

DQuick == <<-7, 5>>
Pts == { <<x, yy>> : x \in 0..G, yy \in 0..G }
Mv(p) == <<p[1] + D[1], p[2] + D[2]>>
vars == <<t, w, al, col, tc, segs, box, tc2, segs2, box2, y, row, row2, alive>>
\* negative control of RowInsideBox (cfg: BoxUsed <- BoxWithoutStroke): the triangle's own box for every width
BoxUsed(tt, ww, aa) == TriStyledBoxT(tt, ww, aa)
BoxWithoutStroke(tt, ww, aa) == TriBox(tt)
\* negative control of OutlineIsThreeLines (cfg: EdgesUsed <- TwoEdges)
EdgesUsed == 3
TwoEdges == 2
NoRow == [fill |-> ScEmpty, strokes |-> <<>>]
Init == /\ t \in [1..3 -> Pts] /\ w \in Ws /\ al \in Als
        /\ tc = SortedClockwise(t) /\ segs = TriSegsT(tc, w, OffOf(al)) /\ box = BoxUsed(t, w, al)
        /\ col = IsCollapsedT(tc, w, OffOf(al))
        /\ LET t2 == [k \in 1..3 |-> Mv(t[k])] IN
           /\ tc2 = SortedClockwise(t2) /\ segs2 = TriSegsT(tc2, w, OffOf(al)) /\ box2 = BoxUsed(t2, w, al)
        /\ y = box[2] /\ row = NoRow /\ row2 = NoRow /\ alive = TRUE
Step == /\ alive /\ y < box[2] + box[4]
        /\ row' = TriRowT(tc, segs, w, HasFill, y, col) /\ row2' = TriRowT(tc2, segs2, w, HasFill, y + D[2], IsCollapsedT(tc2, w, OffOf(al)))
        /\ alive' = ~RowIsEmpty(row')
        /\ y' = y + 1 /\ UNCHANGED <<t, w, al, col, tc, segs, box, tc2, segs2, box2>>
Next == Step
Spec == Init /\ [][Next]_vars

In(sc) == ScIsEmpty(sc) \/ (box[1] <= sc[1] /\ sc[2] <= box[1] + box[3])
RowInsideBox == In(row.fill) /\ \A k \in 1..Len(row.strokes) : In(row.strokes[k])
Sh(sc) == IF ScIsEmpty(sc) THEN sc ELSE <<sc[1] + D[1], sc[2] + D[1]>>
SameRange(a, b) == (ScIsEmpty(a) /\ ScIsEmpty(b)) \/ a = b
Equivariant == /\ box2 = <<box[1] + D[1], box[2] + D[2], box[3], box[4]>>
               /\ SameRange(row2.fill, Sh(row.fill))
               /\ row2.strokes = [k \in 1..Len(row.strokes) |-> Sh(row.strokes[k])]
RowsOrdered == Len(row.strokes) = 2 => ~TouchesT(row.strokes[1], row.strokes[2])
NoRowLost == alive
\* C19's reading (P_C19!OutlineOK): each edge line in ONE OF ITS TWO DIRECTIONS, one choice for the whole outline.
\* Evaluated once per triangle (in the initial state) on the closed form of the machine.
Dir(a, b, rev) == IF rev = 0 THEN LinePoints(a, b) ELSE LinePoints(b, a)
SetOf(s) == { s[i] : i \in 1..Len(s) }
OutlineIsThreeLines ==
  (w = 1 /\ y = box[2] /\ row = NoRow) =>
    LET O == TriThickSetT(t, 1, FALSE, TRUE, al) IN
    \E i \in 0..1, j \in 0..1, k \in 0..1 :
      O = SetOf(Dir(tc[1], tc[2], i)) \cup SetOf(Dir(tc[2], tc[3], j)) \cup (IF EdgesUsed = 3 THEN SetOf(Dir(tc[3], tc[1], k)) ELSE {})
=============================================================================
