//! Catalogue of drawable descriptors shared by the drawing-path properties (C01, C02, C04, C07).
//! Only enumerates inputs; nothing here judges an output.

use crate::drawables::codepoints;
use crate::rng::Rng;
use crate::shapes::style_desc;
use serde_json::{json, Value};

pub struct Colors {
    pub fill: i64,
    pub stroke: i64,
    pub text: i64,
    pub bg: i64,
    pub deco: i64,
}
pub fn colors_for(ct: &str) -> Colors {
    match ct {
        "BinaryColor" => Colors { fill: 1, stroke: 0, text: 1, bg: 0, deco: 1 },
        "Gray2" => Colors { fill: 1, stroke: 2, text: 3, bg: 0, deco: 2 },
        "Gray4" => Colors { fill: 5, stroke: 9, text: 15, bg: 2, deco: 7 },
        "Gray8" => Colors { fill: 50, stroke: 90, text: 250, bg: 20, deco: 130 },
        "Rgb565" => Colors { fill: 0x1234, stroke: 0xF81F, text: 0xFFE0, bg: 0x0011, deco: 0x07E0 },
        "Rgb888" => Colors { fill: 0x123456, stroke: 0xFF00FF, text: 0xFFFF00, bg: 0x000011, deco: 0x00FF00 },
        _ => panic!("colour type"),
    }
}

/// all style combinations: 4 colour presences x widths x 3 alignments
pub fn styles(c: &Colors, widths: &[u32]) -> Vec<Value> {
    let mut v = vec![];
    // four colour presences plus "stroke and fill have the SAME colour" (shortcuts for equal colours)
    for (f, s) in [(c.fill, c.stroke), (c.fill, -1), (-1, c.stroke), (-1, -1), (c.fill, c.fill)] {
        for &w in widths {
            for al in 0..3 {
                v.push(style_desc(f, s, w, al));
            }
        }
    }
    v
}

fn prim(shape: Value, style: &Value) -> Value {
    json!({"kind":"prim","shape":shape,"style":style})
}

/// Closed shapes (rect, circle, ellipse, rounded rectangle) placed at `tl`.
pub fn closed_shapes(thorough: bool, tl: (i32, i32)) -> Vec<Value> {
    let mut v = vec![];
    let (x, y) = tl;
    let rs: Vec<u32> = if thorough { (0..=12).chain([16, 24]).collect() } else { vec![0, 1, 2, 3, 5, 8] };
    for &w in &rs {
        for &h in &rs {
            v.push(json!({"k":"rect","r":[x, y, w, h]}));
        }
    }
    let ds: Vec<u32> = if thorough { (0..=24).collect() } else { (0..=9).collect() };
    for &d in &ds {
        v.push(json!({"k":"circle","tl":[x, y],"d":d}));
    }
    let es: Vec<u32> = if thorough { (0..=12).chain([17, 24]).collect() } else { vec![0, 1, 2, 3, 4, 5, 7] };
    for &w in &es {
        for &h in &es {
            v.push(json!({"k":"ellipse","tl":[x, y],"size":[w, h]}));
        }
    }
    // very thin ellipses have rows / columns without any point (empty scanlines); placed at `tl` and so that their
    // first column / row is 0 or -1 (an "empty" scanline is the range 0..0: the origin is a special place)
    for (w, h) in [(2u32, 20u32), (4, 40), (2, 9), (3, 30), (20, 2), (40, 4)] {
        for (ex, ey) in [(x, y), (0, 3), (-1, -20), (3, 0), (-20, -1)] {
            v.push(json!({"k":"ellipse","tl":[ex, ey],"size":[w, h]}));
        }
    }
    let rr: Vec<u32> = if thorough { vec![1, 2, 3, 4, 5, 7, 10, 14] } else { vec![1, 2, 4, 5, 7] };
    let radii: Vec<[(u32, u32); 4]> = vec![
        [(0, 0); 4],
        [(1, 1); 4],
        [(2, 3); 4],
        [(1, 2), (3, 1), (0, 0), (2, 2)],
        [(5, 5); 4],
        [(9, 2), (1, 9), (4, 4), (0, 7)],
    ];
    let nrad = if thorough { 6 } else { 4 };
    for &w in &rr {
        for &h in &rr {
            for r in radii.iter().take(nrad) {
                v.push(json!({"k":"rrect","r":[x, y, w, h],"radii":[[r[0].0,r[0].1],[r[1].0,r[1].1],[r[2].0,r[2].1],[r[3].0,r[3].1]]}));
            }
        }
    }
    v
}

/// Open / vertex based shapes: lines, triangles, polylines, arcs, sectors around `o`.
pub fn vertex_shapes(thorough: bool, o: (i32, i32), rng: &mut Rng) -> Vec<Value> {
    let mut v = vec![];
    let (ox, oy) = o;
    let g = if thorough { 6 } else { 5 };
    for a in 0..g * g {
        for b in 0..g * g {
            if !thorough && (a * 7 + b) % 3 != 0 {
                continue;
            }
            v.push(json!({"k":"line","s":[ox + a % g, oy + a / g],"e":[ox + b % g, oy + b / g]}));
        }
    }
    // longer lines: axis-aligned in all four directions with even and odd deltas around 32 / 64 (a draw() fast path
    // for long horizontal / vertical lines is an obvious optimisation), and a few long sloped ones
    for len in [31, 32, 33, 37, 38, 45, 63, 64, 65] {
        if !thorough && len % 2 == 0 && len != 32 {
            continue;
        }
        for (dx, dy) in [(1, 0), (-1, 0), (0, 1), (0, -1)] {
            v.push(json!({"k":"line","s":[ox + 3, oy + 2],"e":[ox + 3 + dx * len, oy + 2 + dy * len]}));
        }
    }
    for (dx, dy) in [(41, 13), (-41, 13), (13, -41), (-37, -37), (52, 1), (-1, 52)] {
        v.push(json!({"k":"line","s":[ox + 1, oy - 1],"e":[ox + 1 + dx, oy - 1 + dy]}));
    }
    let tg = 4;
    for n in 0..(tg * tg * tg * tg * tg * tg) {
        if !thorough && n % 5 != 0 {
            continue;
        }
        let c: Vec<i32> = (0..6).scan(n, |k, _| { let r = *k % tg; *k /= tg; Some(r) }).collect();
        v.push(json!({"k":"triangle","v":[[ox + 2 * c[0], oy + 2 * c[1]],[ox + 2 * c[2], oy + 2 * c[3]],[ox + 2 * c[4], oy + 2 * c[5]]]}));
    }
    let npoly = if thorough { 6000 } else { 1200 };
    for n in 0..npoly {
        let len = n % 7; // 0..=6 vertices
        let m = if n % 3 == 0 { 4 } else { 9 };
        let mut pts: Vec<Value> = vec![];
        for _ in 0..len {
            if !pts.is_empty() && rng.chance(1, 8) {
                let l: Value = pts[rng.usize(0, pts.len() - 1)].clone();
                pts.push(l); // repeated vertex / reversal
            } else {
                pts.push(json!([ox + rng.i32(0, m), oy + rng.i32(0, m)]));
            }
        }
        let off = if n % 4 == 0 { json!([rng.i32(-3, 3), rng.i32(-3, 3)]) } else { json!([0, 0]) };
        v.push(json!({"k":"polyline","v":pts,"off":off}));
    }
    // closed polylines (first vertex == last vertex, >= 4 entries): every closing corner of a small grid incl. very
    // acute ones, triangles and quadrilaterals, both orientations
    {
        let gs: [(i32, i32); 9] = [(0, 0), (4, 0), (8, 1), (0, 4), (5, 5), (9, 4), (1, 8), (4, 9), (8, 8)];
        let mut n = 0usize;
        for a in 0..gs.len() {
            for b in 0..gs.len() {
                for c in 0..gs.len() {
                    if a == b || b == c || a == c {
                        continue;
                    }
                    n += 1;
                    if !thorough && n % 4 != 0 {
                        continue;
                    }
                    let p = |k: usize| json!([ox + gs[k].0, oy + gs[k].1]);
                    let mut pts = vec![p(a), p(b), p(c)];
                    if n % 3 == 0 {
                        pts.push(p((a + b + c) % gs.len()));
                    }
                    pts.push(p(a));
                    v.push(json!({"k":"polyline","v":pts,"off":if n % 5 == 0 { json!([2, -3]) } else { json!([0, 0]) }}));
                }
            }
        }
    }
    // open polylines whose segments are all exactly horizontal or vertical (staircases, combs, with and without a
    // translation)
    for (k, pts) in [vec![(0, 0), (5, 0)], vec![(0, 0), (0, 4)], vec![(0, 0), (4, 0), (4, 3)], vec![(6, 5), (2, 5), (2, 1), (7, 1)],
                     vec![(0, 0), (3, 0), (3, 2), (6, 2), (6, 5), (9, 5)], vec![(8, 8), (8, 2), (1, 2), (1, 6), (5, 6)], vec![(0, 3), (7, 3), (7, 0), (2, 0), (2, 8)]]
        .iter()
        .enumerate()
    {
        for off in [(0, 0), (3, -2)] {
            let pv: Vec<Value> = pts.iter().map(|p| json!([ox + p.0, oy + p.1])).collect();
            let _ = k;
            v.push(json!({"k":"polyline","v":pv,"off":[off.0, off.1]}));
        }
    }
    let ds: Vec<u32> = if thorough { (0..=12).chain([15, 16, 23, 24]).collect() } else { vec![0, 1, 2, 3, 4, 5, 6, 7, 8, 15, 16] };
    let sweeps = [-400, -360, -225, -90, -30, 0, 45, 135, 200, 360];
    for &d in &ds {
        for a0 in 0..24 {
            for (si, &sw) in sweeps.iter().enumerate() {
                if !thorough && (a0 + si) % 2 != 0 {
                    continue;
                }
                let kind = if (a0 + si / 2) % 2 == 0 { "arc" } else { "sector" };
                v.push(json!({"k":kind,"tl":[ox, oy],"d":d,"a0":(a0 as i32 * 15 - 180) * 16,"sw":sw * 16}));
            }
        }
    }
    v
}

/// Styled primitives: closed shapes x all styles, vertex shapes x cycled styles.
pub fn prims(ct: &str, thorough: bool, rng: &mut Rng, tl: (i32, i32)) -> Vec<Value> {
    let c = colors_for(ct);
    let widths: Vec<u32> = if thorough { vec![0, 1, 2, 3, 4, 5, 7, 12] } else { vec![0, 1, 2, 3, 4] };
    let st = styles(&c, &widths);
    let mut v = vec![];
    let closed = closed_shapes(thorough, tl);
    for (n, s) in closed.iter().enumerate() {
        for (k, style) in st.iter().enumerate() {
            // quick: every shape with a third of the styles (rotating), thorough: full product
            if thorough || (n + k) % 3 == 0 {
                v.push(prim(s.clone(), style));
            }
        }
    }
    let open = vertex_shapes(thorough, tl, rng);
    for (n, s) in open.iter().enumerate() {
        let per = if thorough { 6 } else { 3 };
        for j in 0..per {
            v.push(prim(s.clone(), &st[(n * 7 + j * 13) % st.len()]));
        }
        // degenerate triangles (collinear / coincident vertices) and axis-aligned lines take special paths in
        // the styled code: they get every style with width 0..2
        let special = match s["k"].as_str().unwrap() {
            "triangle" => {
                let p: Vec<(i64, i64)> = (0..3).map(|i| (s["v"][i][0].as_i64().unwrap(), s["v"][i][1].as_i64().unwrap())).collect();
                (p[1].0 - p[0].0) * (p[2].1 - p[0].1) - (p[2].0 - p[0].0) * (p[1].1 - p[0].1) == 0
            }
            "line" => s["s"][0] == s["e"][0] || s["s"][1] == s["e"][1],
            _ => false,
        };
        if special && (thorough || n % 2 == 0) {
            for style in st.iter().filter(|x| x["w"].as_u64().unwrap() <= 2 || x["w"].as_u64().unwrap() == 4) {
                v.push(prim(s.clone(), style));
            }
        }
    }
    v
}

pub fn bpp_of(ct: &str) -> u32 {
    match ct {
        "BinaryColor" => 1,
        "Gray2" => 2,
        "Gray4" => 4,
        "Gray8" => 8,
        "Rgb565" => 16,
        "Rgb888" => 24,
        _ => panic!("colour type"),
    }
}

/// Raw images and sub-images of colour type `ct` drawn at `pos`.
pub fn images(ct: &str, thorough: bool, rng: &mut Rng, pos: (i32, i32)) -> Vec<Value> {
    let bpp = bpp_of(ct) as usize;
    let mut v = vec![];
    let smax = if thorough { 9 } else { 5 };
    let subs: Vec<Value> = vec![
        json!([]),
        json!([0, 0, 2, 2]),
        json!([1, 1, 3, 2]),
        json!([-1, 0, 3, 3]),
        json!([2, 1, 9, 9]),
        json!([0, 0, 0, 0]),
        json!([7, 7, 2, 2]),
        json!([1, 0, 1, 4]),
    ];
    for w in 0..=smax {
        for h in 0..=smax {
            let row = (w * bpp + 7) / 8;
            let data: Vec<u32> = (0..row * h).map(|_| rng.u32r(0, 255)).collect();
            for (si, sub) in subs.iter().enumerate() {
                if !thorough && si > 0 && (w + h + si) % 2 != 0 {
                    continue;
                }
                let sub2 = if si % 3 == 1 { json!([1, 0, 2, 2]) } else { json!([]) };
                let center = ((w + h + si) % 4 == 0) as i32;
                v.push(json!({"kind":"image","w":w,"h":h,"data":data,"pos":[pos.0, pos.1],"sub":sub,"sub2":sub2,"center":center}));
            }
        }
    }
    v
}

/// Dotted-stroke copies of styled primitives that have a visible stroke (for the properties that are not
/// restricted to solid strokes: C02, C04, C07, C08).  Every `every`-th eligible descriptor gets a copy.
pub fn add_dotted(v: &mut Vec<Value>, every: usize) {
    let mut extra = vec![];
    // dotted rectangles that are 1 or 2 pixels thin (the dot size is clamped to the thickness of the stroke area),
    // odd and even lengths, every alignment and a few widths
    for (k, (w, h)) in [(1u32, 1u32), (2, 1), (5, 1), (6, 1), (1, 2), (1, 7), (1, 8), (2, 2), (7, 2), (2, 6), (3, 3), (8, 3)].iter().enumerate() {
        for al in 0..3u32 {
            for sw in [1u32, 2, 3] {
                let mut st = crate::shapes::style_desc(if (k + al as usize) % 2 == 0 { 1 } else { -1 }, 0, sw, al);
                st["dot"] = json!(1);
                extra.push(json!({"kind":"prim","shape":{"k":"rect","r":[3 - k as i32, k as i32 - 4, w, h]},"style":st}));
            }
        }
    }
    let mut n = 0usize;
    for d in v.iter() {
        if d["kind"] == "prim" && d["style"]["stroke"].as_i64().unwrap_or(-1) >= 0 && d["style"]["w"].as_u64().unwrap_or(0) >= 1 {
            n += 1;
            if n % every == 0 {
                let mut c = d.clone();
                c["style"]["dot"] = json!(1);
                extra.push(c);
            }
        }
    }
    v.extend(extra);
}

/// custom fonts with non-zero character spacing (see drawables::font_by_name)
pub const SPACED_FONTS: [&str; 2] = ["spaced:ascii::FONT_6X9:2", "spaced:ascii::FONT_4X6:1"];

pub const TEXT_FONTS: [&str; 6] = [
    "ascii::FONT_4X6",
    "ascii::FONT_6X10",
    "ascii::FONT_9X15_BOLD",
    "iso_8859_1::FONT_10X20",
    "ascii::FONT_6X13_ITALIC",
    "jis_x0201::FONT_6X13",
];

pub fn text_strings() -> Vec<&'static str> {
    // incl. whitespace-only lines (first, last, widest) and a tab (drawn as the replacement glyph)
    // ... zero-width and other invisible code points (they are ordinary unmapped characters: one cell each), NUL, DEL,
    // a lone CR, combining marks, non-BMP
    vec!["", "A", "gj|", "ab\ncd", "x\n\nyz", "Hi\r\nq", "a\u{2603}b", "line\n", "Hi\n   ", "  \nHi", "a\n     \nb", " \t",
         "\u{FEFF}Hel", "ab\u{200B}cd\u{200D}", "x\u{2060}\u{200C}y\nz", "a\0b\u{7f}", "q\re", "e\u{301}\u{1F600}o", "\u{a0}\u{ad}|"]
}

/// Text drawables; `full` = all colour/decoration combinations instead of eight.
pub fn texts(ct: &str, thorough: bool, pos: (i32, i32)) -> Vec<Value> {
    let c = colors_for(ct);
    let mut v = vec![];
    // (tc, bc, ul, st)
    let combos: Vec<(i64, i64, i64, i64)> = if thorough {
        let mut all = vec![];
        for tc in [c.text, -1] {
            for bc in [c.bg, -1] {
                for ul in [-1, -2, c.deco] {
                    for st in [-1, -2, c.deco] {
                        all.push((tc, bc, ul, st));
                    }
                }
            }
        }
        all
    } else {
        vec![
            (c.text, -1, -1, -1),
            (c.text, c.bg, -1, -1),
            (-1, c.bg, -1, -1),
            (-1, -1, -1, -1),
            (c.text, -1, -2, -1),
            (c.text, c.bg, c.deco, -2),
            (-1, -1, c.deco, c.deco),
            (-1, c.bg, -2, c.deco),
        ]
    };
    let mut fonts: Vec<&str> = if thorough { TEXT_FONTS.to_vec() } else { TEXT_FONTS[..4].to_vec() };
    fonts.extend(SPACED_FONTS.iter());
    let mut n = 0usize;
    for s in text_strings() {
        for f in &fonts {
            for (tc, bc, ul, st) in &combos {
                n += 1;
                let al = n % 3;
                let bl = (n / 3) % 4;
                let lh = match n % 5 {
                    0 => json!([0, 7]),
                    1 => json!([1, 150]),
                    _ => json!([1, 100]),
                };
                v.push(json!({"kind":"text","s":codepoints(s),"font":f,"tc":tc,"bc":bc,"ul":ul,"st":st,
                    "al":al,"bl":bl,"lh":lh,"pos":[pos.0, pos.1]}));
            }
        }
    }
    v
}
