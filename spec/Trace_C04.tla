------------------------------ MODULE Trace_C04 -----------------------------
(* (T) for C04.  State: the reference call log of the current case.  A `ref`   *)
(* event starts the protocol (fault-free run); every entry of a `faults` event *)
(* is one run with fault index k and is checked against EGFault.               *)
EXTENDS TraceBase, P_C04
VARIABLES l, ref

Init == l = 1 /\ ref = <<>>
\* JSON booleans arrive as TRUE/FALSE
StepCase(e) == e.ev = "case" /\ ref' = <<>>
StepRef(e)  == /\ e.ev = "ref"
               /\ ref' = e.calls
               /\ Report(e.case, RefRunFails(e.calls, e.ret), [ncalls |-> Len(e.calls), ret |-> e.ret])
StepFaults(e) ==
  /\ e.ev = "faults"
  /\ \A i \in 1..Len(e.runs) :
       LET r == e.runs[i] IN
       Report(e.case, FaultRunFails(ref, r.k, r.calls, r.ret), [k |-> r.k, n |-> Len(ref), ncalls |-> Len(r.calls), ret |-> r.ret])
  /\ UNCHANGED ref
StepPanic(e) == e.ev = "panic" /\ UNCHANGED ref
Next == /\ l <= NRec
        /\ LET e == Rec[l] IN StepCase(e) \/ StepRef(e) \/ StepFaults(e) \/ StepPanic(e)
        /\ l' = l + 1
Spec == Init /\ [][Next]_<<l, ref>>
Done == IF TLCGet("stats").diameter = NRec + 1
        THEN PrintT("TRACE-ACCEPTED " \o ToString(NRec))
        ELSE PrintT("TRACE-REJECTED at line " \o ToString(TLCGet("stats").diameter)) /\ FALSE
=============================================================================
