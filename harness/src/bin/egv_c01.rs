//! C01 recorder: one drawable through three drawing paths (native target, draw_iter-only target,
//! pixels() via draw_iter).  Only logs the calls; their meaning lives in spec/EGTarget.tla.
use egv::catalog;
use egv::drawables::*;
use egv::targets::*;
use egv::util::*;
use egv::*;
use embedded_graphics::{image::ImageDrawable, image::ImageRaw, prelude::*};

fn run_ct<C>(rec: &mut Rec, desc: &Value)
where
    C: ImgCol,
    for<'a> ImageRaw<'a, C>: ImageDrawable<Color = C>,
{
    let d = &desc["d"];
    let bx = rect_from(&desc["box"]);
    rec.begin(desc.clone());
    let r = catch(|| {
        let mut tn = LogNative::<C>::new(bx);
        draw_desc::<C, _>(d, &mut tn).expect("no fault injected");
        let mut td = LogDefault::<C>::new(bx);
        draw_desc::<C, _>(d, &mut td).expect("no fault injected");
        let mut tp = LogDefault::<C>::new(bx);
        let mut hasp = 0;
        let mut trunc = 0;
        if let Some((px, done)) = pixels_desc::<C>(d, 400_000) {
            hasp = 1;
            trunc = (!done) as i32;
            tp.draw_iter(px.into_iter()).unwrap();
        }
        (tn, td, tp, hasp, trunc)
    });
    match r {
        Ok((tn, td, tp, hasp, trunc)) => {
            if !tn.calls.is_empty() {
                rec.nontrivial();
            }
            for c in &tn.calls {
                rec.note(match c {
                    Call::DrawIter { .. } => "native_draw_iter_calls",
                    Call::FillContiguous { .. } => "native_fill_contiguous_calls",
                    Call::FillSolid { .. } => "native_fill_solid_calls",
                    Call::Clear { .. } => "native_clear_calls",
                    Call::Failed { .. } => "failed_calls",
                });
            }
            rec.ev("draw", json!({"box": rect_json(&bx), "n": tn.calls_json(), "d": td.calls_json(), "p": tp.calls_json(), "hasp": hasp, "trunc": trunc}));
        }
        Err(p) => {
            rec.note("panicked_cases");
            rec.ev("panic", json!({"msg": p.msg, "loc": p.loc}));
        }
    }
}

fn run_case(rec: &mut Rec, desc: &Value) {
    let ct = desc["ct"].as_str().unwrap().to_string();
    with_color_type!(ct.as_str(), run_ct(rec, desc));
}

/// the drawable on targets whose box is exactly its (unstyled / styled) bounding box
fn own_box_case<C>(rec: &mut Rec, d: &Value, ct: &str, both: bool)
where
    C: ImgCol,
    for<'a> ImageRaw<'a, C>: ImageDrawable<Color = C>,
{
    let styled = catch(|| bbox_desc::<C>(d));
    if let Ok(b) = styled {
        if !b.is_zero_sized() && b.size.width <= 64 && b.size.height <= 64 {
            run_case(rec, &json!({"d": d, "ct": ct, "box": rect_json(&b)}));
        }
    }
    if both && d["kind"] == "prim" {
        let b: embedded_graphics::primitives::Rectangle = egv::shapes::Shape::from_desc(&d["shape"]).bounding_box();
        if !b.is_zero_sized() && b.size.width <= 64 && b.size.height <= 64 {
            run_case(rec, &json!({"d": d, "ct": ct, "box": rect_json(&b)}));
        }
    }
}

fn boxes(tl: (i32, i32)) -> Vec<Value> {
    let (x, y) = tl;
    vec![
        json!([x - 2, y - 1, 26, 22]), // drawable inside (for small shapes)
        json!([x + 2, y + 2, 20, 16]), // straddles the top-left corner of the target
        json!([x - 6, y - 5, 9, 8]),   // straddles the bottom-right corner, non-origin / negative box
        json!([x + 60, y + 60, 8, 8]), // completely outside
        json!([x + 1, y + 1, 0, 0]),   // empty target
    ]
}

fn main() {
    let args = Args::parse();
    install_panic_hook();
    let mut rec = Rec::new(&args);
    let mut rng = Rng::new(args.seed ^ 0xC01);
    let th = args.thorough();
    if let Some(cases) = &args.cases {
        for d in cases {
            run_case(&mut rec, d);
        }
        rec.finish(json!({}));
        return;
    }
    for d in args.gen.iter().chain(args.witnesses.iter()) {
        run_case(&mut rec, d);
    }
    let plan: Vec<(&str, (i32, i32))> = if th {
        vec![("BinaryColor", (2, 1)), ("Rgb565", (-4, -3)), ("Rgb565", (2, 1)), ("Gray8", (-4, -3))]
    } else {
        vec![("BinaryColor", (2, 1)), ("Rgb565", (-4, -3))]
    };
    let mut n = 0usize;
    for (ct, tl) in plan {
        let bxs = boxes(tl);
        let mut all = catalog::prims(ct, th, &mut rng, tl);
        all.extend(catalog::texts(ct, th, tl));
        for ict in ["BinaryColor", "Gray2", "Gray4", "Gray8", "Rgb565", "Rgb888"] {
            if ict == ct {
                all.extend(catalog::images(ict, th, &mut rng, tl));
            }
        }
        for d in all {
            n += 1;
            let pick: Vec<usize> = if th { vec![0, 1, 2, 3, 4] } else {
                vec![match n % 20 { 0..=7 => 0, 8..=13 => 1, 14..=16 => 2, 17 => 3, _ => 4 }]
            };
            for b in pick {
                run_case(&mut rec, &json!({"d": d, "ct": ct, "box": bxs[b]}));
            }
            // a target whose bounding box IS the drawable's own bounding box ("fill the whole display"): every fourth
            // drawable, and every rectangle / rounded rectangle
            let own = d["kind"] == "prim" && (d["shape"]["k"] == "rect" || d["shape"]["k"] == "rrect");
            if own || n % 4 == 0 {
                with_color_type!(ct, own_box_case(&mut rec, &d, ct, own));
            }
        }
    }
    // images of every raw width (the colour types not covered above)
    for ict in ["Gray2", "Gray4", "Gray8", "Rgb888", "BinaryColor", "Rgb565"] {
        let tl = (1, -2);
        let bxs = boxes(tl);
        for d in catalog::images(ict, th, &mut rng, tl) {
            n += 1;
            run_case(&mut rec, &json!({"d": d, "ct": ict, "box": bxs[n % 3]}));
        }
    }
    rec.finish(json!({}));
}
