CONSTANTS
  DMax = 24
  EMax = 12
  Mutant = FALSE
  Gen = TRUE
SPECIFICATION Spec
INVARIANTS EmitsInOrder Complete
CHECK_DEADLOCK FALSE
