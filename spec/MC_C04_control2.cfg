CONSTANTS
  MaxLen = 4
  Mutant = "finish"
SPECIFICATION Spec
INVARIANT Protocol
CHECK_DEADLOCK FALSE
