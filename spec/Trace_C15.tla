------------------------------ MODULE Trace_C15 -----------------------------
(* (T) for C15.  One `layout` event per case: the observations of the related *)
(* drawings of one Text (see P_C15).  The driver protocol (which texts were   *)
(* drawn where) is structure: a malformed event rejects the trace.  Verdicts  *)
(* come from the relations of P_C15; the returned position and bounding box   *)
(* are additionally compared with the transcription of text.rs (both orders   *)
(* of "measure" and "remove CR", see EGText) and reported as DRIFT.           *)
EXTENDS TraceBase, P_C15
VARIABLE l

Init == l = 1
Drift(case, what, detail) ==
  PrintT("DRIFT " \o ToJson([module |-> "EGText", case |-> case, what |-> what, detail |-> detail]))
Stat(r) == PrintT("STAT " \o ToJson(r))

StepCase(e) == e.ev = "case"
StepLayout(e) ==
  /\ e.ev = "layout"
  /\ LayoutWellFormed(e) = TRUE                  \* structure (forced to plain evaluation)
  /\ \A j \in 1..Len(e.lines) :
       /\ Report(e.case, RetFails(e, j), RetDetail(e, j))
       /\ Report(e.case, AlignFails(e, j), AlignDetail(e, j))
  /\ Report(e.case, BaselineFails(e), BaselineDetail(e))
  /\ Report(e.case, LinesFails(e), LinesDetail(e))
  /\ Report(e.case, CRLFFails(e), CRLFDetail(e))
  /\ \A i \in 1..Len(e.chains) : Report(e.case, ChainFails(e, i), ChainDetail(e, i))
  /\ \A i \in 1..Len(e.small) : Report(e.case, SmallFails(e, i), SmallDetail(e, i))
  /\ LET ts == [align |-> e.align, base |-> e.base, lh |-> e.lh]
         pin == e.whole.ret = TextRetT(e.font, e.sty, ts, e.text, e.pos, "pinned")
                /\ e.whole.bbox = BoundingBoxT(e.font, e.sty, ts, e.text, e.pos, "pinned")
         fix == e.whole.ret = TextRetT(e.font, e.sty, ts, e.text, e.pos, "fixed")
                /\ e.whole.bbox = BoundingBoxT(e.font, e.sty, ts, e.text, e.pos, "fixed")
         crl == e.whole.ret = TextRetT(e.font, e.sty, ts, e.text, e.pos, "crlf")
                /\ e.whole.bbox = BoundingBoxT(e.font, e.sty, ts, e.text, e.pos, "crlf")
         x == Exercised(e)
     IN /\ IF pin \/ fix \/ crl THEN TRUE
           ELSE Drift(e.case, "text_ret_bbox", [text |-> e.text, align |-> e.align, ret |-> e.whole.ret, bbox |-> e.whole.bbox])
        /\ Stat([layouts |-> 1, rel_ret |-> x.ret, rel_align |-> x.align, rel_baseline_shift |-> x.baseline_shift,
                 rel_multiline |-> x.multiline, rel_crlf |-> x.crlf, rel_chain |-> x.chain, rel_bounded |-> x.bounded,
                 model_pinned_only |-> IF pin /\ ~fix /\ ~crl THEN 1 ELSE 0, model_fixed_only |-> IF fix /\ ~pin /\ ~crl THEN 1 ELSE 0,
                 model_crlf_only |-> IF crl /\ ~fix THEN 1 ELSE 0])
\* a library call of this case panicked: the property promises a result for every input of its domain
StepTall(e) == e.ev = "tall" /\ Report(e.case, TallFails(e), [lh |-> e.lh, pos |-> e.pos, ret |-> e.ret, ys |-> [j \in 1..Len(e.lines) |-> e.lines[j].y]])
StepPanic(e) == e.ev = "panic" /\ Report(e.case, {"library_call_panicked"}, [msg |-> e.msg, loc |-> e.loc])

Next == /\ l <= NRec
        /\ LET e == Rec[l] IN StepCase(e) \/ StepLayout(e) \/ StepTall(e) \/ StepPanic(e)
        /\ l' = l + 1
Spec == Init /\ [][Next]_l

Done == IF TLCGet("stats").diameter = NRec + 1
        THEN PrintT("TRACE-ACCEPTED " \o ToString(NRec))
        ELSE PrintT("TRACE-REJECTED at line " \o ToString(TLCGet("stats").diameter)) /\ FALSE
=============================================================================
