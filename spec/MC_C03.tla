------------------------------- MODULE MC_C03 ------------------------------
(* (M) for C03: the adapter stack as a state machine.  A parent frame buffer  *)
(* is driven through a stack of adapters chosen in Init.  `fbS` follows the   *)
(* ABSTRACT meaning (P_C03 / EGAdapters!Effect), `fbC` follows the            *)
(* TRANSCRIBED lowering of every adapter (LowerStack, including the           *)
(* contiguous::Cropped iterator machine).  Invariants: the two agree, the     *)
(* lowered calls respect the clip layers, transcribed boxes = documented      *)
(* boxes.  Every initial stack and the operation alphabet are printed as (G)  *)
(* cases for the recorder.                                                    *)
EXTENDS P_C03, Json, SequencesExt
CONSTANTS Depth, Gen, Mutant
VARIABLES pbox, stack, fbS, fbC, last, depth

CMap == [c \in 0..70 |-> c + 10]
Layers ==
       { [k |-> "tr", o |-> o] : o \in { <<1, 0>>, <<-1, 2>> } }
  \cup { [k |-> "cl", a |-> a] : a \in { <<0, 0, 2, 2>>, <<1, -1, 3, 2>>, <<1, 1, 0, 2>>, <<1, 1, 2, 0>>, <<5, 5, 2, 2>> } }
  \cup { [k |-> "cr", a |-> a] : a \in { <<0, 0, 2, 2>>, <<1, -1, 3, 2>>, <<1, 1, 0, 2>>, <<5, 5, 2, 2>> } }
  \cup { [k |-> "cc", cmap |-> CMap] }
Stacks == { <<>> } \cup { <<a>> : a \in Layers } \cup { <<a, b>> : a \in Layers, b \in Layers }
PBoxes == { <<0, 0, 3, 3>>, <<1, -1, 2, 3>>, <<2, 2, 0, 0>> }

Areas == { <<x, y, w, h>> : x \in (-1)..2, y \in (-1)..2, w \in 0..2, h \in 0..2 }
\* colour streams with a distinct colour per position, of every length 0 .. w*h + 1
Ops ==
       { MkCall("fill_contiguous", a, -1, [i \in 1..n |-> i], <<>>) : a \in Areas, n \in 0..5 }
  \cup { MkCall("fill_solid", a, c, <<>>, <<>>) : a \in Areas, c \in {7} }
  \cup { MkCall("clear", Zero, 9, <<>>, <<>>) }
  \cup { MkCall("draw_iter", Zero, -1, <<>>, << <<x, y, 3>>, <<x + 1, y - 1, 4>>, <<x, y, 5>> >>) : x \in (-1)..3, y \in (-1)..3 }
ValidOp(op) == op.m # "fill_contiguous" \/ Len(op.colors) <= op.area[3] * op.area[4] + 1

\* negative control: the Cropped iterator skips one colour too few between rows
BrokenDrainFrom(st, cs, acc) == CroppedDrainFrom([st EXCEPT !.rowSkip = IF st.rowSkip > 0 THEN st.rowSkip - 1 ELSE 0], cs, acc)
LowerM(call) ==
  IF Mutant /\ Len(stack) > 0 /\ stack[Len(stack)].k = "cl" /\ call.m = "fill_contiguous"
  THEN LET clip == ClipAreaOf(BoxOfT(pbox, SubSeq(stack, 1, Len(stack) - 1)), stack[Len(stack)].a)
           inter == Intersection(clip, call.area) IN
       IF inter = call.area THEN LowerStack(pbox, stack, Len(stack), call)
       ELSE LowerStack(pbox, stack, Len(stack) - 1,
              MkCall("fill_contiguous", inter, -1,
                     BrokenDrainFrom(CroppedNew(SizeOf(call.area), Shift(inter, <<-call.area[1], -call.area[2]>>)), call.colors, <<>>), <<>>))
  ELSE LowerStack(pbox, stack, Len(stack), call)

StackJson(s) == [i \in 1..Len(s) |-> IF s[i].k = "tr" THEN [k |-> "tr", o |-> s[i].o]
                                     ELSE IF s[i].k = "cc" THEN [k |-> "cc"] ELSE [k |-> s[i].k, a |-> s[i].a]]
Init == /\ pbox \in PBoxes /\ stack \in Stacks
        /\ fbS = EmptyFb /\ fbC = EmptyFb /\ last = <<>> /\ depth = 0
        /\ (Gen => PrintT("GEN " \o ToJson([k |-> "stack", pbox |-> pbox, layers |-> StackJson(stack)])))
Do(op) == /\ depth < Depth
          /\ fbS' = ApplyPixels(fbS, pbox, Effect(pbox, stack, op))
          /\ last' = LowerM(op)
          /\ fbC' = Apply(fbC, pbox, last')
          /\ depth' = depth + 1
          /\ UNCHANGED <<pbox, stack>>
Next == \E op \in Ops : ValidOp(op) /\ Do(op)
Spec == Init /\ [][Next]_<<pbox, stack, fbS, fbC, last, depth>>

WD == WellDefined(pbox, stack)
EffectMatchesLowering == WD => fbS = fbC
ClipRespected == (WD /\ HasClip(stack) /\ last # <<>>) => Addressed(pbox, last) \subseteq Allowed(pbox, stack)
BoxesDocumented == \A i \in 0..Len(stack) : SameSet(BoxOfT(pbox, SubSeq(stack, 1, i)), BoxOf(pbox, SubSeq(stack, 1, i)))
\* the unsigned fields of the Cropped machine never go negative, for every clip area a clipped layer can have and
\* every area of the alphabet (checked in the initial states only: it does not depend on the history);
\* UnsignedOKPinned = the same for the constructor before the repair of D22 (negative control)
ClipAreas == LET L == { l.a : l \in { l \in Layers : l.k = "cl" } } IN L \cup { Intersection(a, pb) : a \in L, pb \in PBoxes }
CropStates(fixed) ==
  { CroppedNewG(SizeOf(a), Shift(Intersection(c, a), <<-a[1], -a[2]>>), fixed) : a \in { a \in Areas : \E c \in ClipAreas : Intersection(c, a) # a }, c \in ClipAreas }
UnsignedOK == depth = 0 => \A st \in CropStates(TRUE) : CroppedUnsignedOK(st)
UnsignedOKPinned == depth = 0 => \A st \in CropStates(FALSE) : CroppedUnsignedOK(st)
\* printed once: the operation alphabet for the recorder
ASSUME Gen => PrintT("GEN " \o ToJson([k |-> "alphabet", ops |-> SetToSeq({ op \in Ops : ValidOp(op) })]))
=============================================================================
