//! C17 recorder: Line::points() and the pixels of stroked lines.  Records only; judged by
//! spec/Trace_C17.tla.  One case = one line with a list of stroke widths.
//!   event `line`: s, e, pts (Line::points(), pulled with a budget), pdone (1 = iterator ended),
//!                 strokes = [[w, pixels() points in emission order, ended 0/1,
//!                             draw() result as points sorted by (y, x), number of pixels draw() wrote or -1]]
use egv::targets::MapTarget;
use egv::util::*;
use egv::*;
use embedded_graphics::{
    pixelcolor::BinaryColor,
    prelude::*,
    primitives::{Line, PrimitiveStyle},
    Pixel,
};

/// very long lines (the exact distance arithmetic of EGLine does not reach them): only count and end points
fn run_long(rec: &mut Rec, d: &Value) {
    let (s, e) = (pt_from(&d["s"]), pt_from(&d["e"]));
    rec.begin(d.clone());
    let r = catch(|| {
        let m = (e.x as i64 - s.x as i64).abs().max((e.y as i64 - s.y as i64).abs()) as usize;
        let mut n = 0usize;
        let (mut first, mut last) = (None, None);
        for p in Line::new(s, e).points() {
            if n > m + 66 {
                break;
            }
            if first.is_none() {
                first = Some(p);
            }
            last = Some(p);
            n += 1;
        }
        // random access: nth(k) against the k-th item pulled with next(), and the length of what follows
        let mut nth = vec![];
        for k in [0usize, 1, n / 3, n / 2, n.saturating_sub(1), n, n + 5] {
            let by_next = Line::new(s, e).points().take(k + 1).last().filter(|_| k < n);
            let mut it = Line::new(s, e).points();
            let by_nth = it.nth(k);
            let rest = it.count();
            let pj = |p: Option<Point>| p.map(pt_json).unwrap_or(json!([]));
            nth.push(json!([k, pj(by_nth), pj(by_next), rest]));
        }
        // strokes: only the number of pixels (width 1 is the thin line; a wider stroke has at least as many)
        let mut strokes = vec![];
        for w in [1u32, 3] {
            let c = Line::new(s, e).into_styled(PrimitiveStyle::with_stroke(BinaryColor::On, w)).pixels().take(40 * (m + 66)).count();
            strokes.push(json!([w, c]));
        }
        (n, first, last, nth, strokes)
    });
    match r {
        Ok((n, first, last, nth, strokes)) => {
            rec.nontrivial();
            let pj = |p: Option<Point>| p.map(pt_json).unwrap_or(json!([]));
            rec.ev("longline", json!({"s": pt_json(s), "e": pt_json(e), "np": n, "first": pj(first), "last": pj(last), "nth": nth, "strokes": strokes}));
        }
        Err(p) => {
            rec.note("panicked_cases");
            rec.ev("panic", json!({"msg": p.msg, "loc": p.loc}));
        }
    }
}

/// lines longer than 2^29 pixels (dx > 0, 0 <= dy <= dx; nearly horizontal or nearly diagonal so that the cross product
/// can be evaluated in 32 bits): ONE pass with next() - number of points, first and last point, a few sampled points
fn run_xlong(rec: &mut Rec, d: &Value) {
    let (s, e) = (pt_from(&d["s"]), pt_from(&d["e"]));
    rec.begin(d.clone());
    let r = catch(|| {
        let m = (e.x as i64 - s.x as i64) as usize;
        let want = [m / 4, m / 2, m / 2 + 1, 3 * (m / 4), m - 1];
        let mut samples = vec![];
        let mut n = 0usize;
        let (mut first, mut last) = (None, None);
        for p in Line::new(s, e).points() {
            if n > m + 66 {
                break;
            }
            if first.is_none() {
                first = Some(p);
            }
            if want.contains(&n) {
                samples.push(json!([n, p.x, p.y]));
            }
            last = Some(p);
            n += 1;
        }
        (n, first, last, samples)
    });
    match r {
        Ok((n, first, last, samples)) => {
            rec.nontrivial();
            let pj = |p: Option<Point>| p.map(pt_json).unwrap_or(json!([]));
            rec.ev("xlong", json!({"s": pt_json(s), "e": pt_json(e), "np": n, "first": pj(first), "last": pj(last), "samples": samples}));
        }
        Err(p) => {
            rec.note("panicked_cases");
            rec.ev("panic", json!({"msg": p.msg, "loc": p.loc}));
        }
    }
}

/// very wide strokes on long lines (width x length beyond 2^30): far too many pixels to enumerate, so a PREFIX of
/// `pixels()` is pulled - the stroke contains the thin line, so it has at least as many pixels as the thin line (or
/// as the prefix asks for), and no pixel of the prefix repeats
fn run_hugestroke(rec: &mut Rec, d: &Value) {
    let (s, e, w) = (pt_from(&d["s"]), pt_from(&d["e"]), i(&d["w"]) as u32);
    rec.begin(d.clone());
    const N: usize = 200_000;
    let r = catch(|| {
        let style = PrimitiveStyle::with_stroke(BinaryColor::On, w);
        let mut seen = std::collections::HashSet::new();
        let mut dup = 0usize;
        let mut n = 0usize;
        let mut first = None;
        for Pixel(p, _) in Line::new(s, e).into_styled(style).pixels().take(N) {
            if first.is_none() {
                first = Some(p);
            }
            if !seen.insert((p.x, p.y)) {
                dup += 1;
            }
            n += 1;
        }
        (n, dup, first)
    });
    match r {
        Ok((n, dup, first)) => {
            rec.nontrivial();
            let thin = (e.x as i64 - s.x as i64).abs().max((e.y as i64 - s.y as i64).abs()) + 1;
            rec.ev("hugestroke", json!({"s": pt_json(s), "e": pt_json(e), "w": w, "asked": N, "thin": thin, "n": n, "dup": dup,
                "first": first.map(pt_json).unwrap_or(json!([]))}));
        }
        Err(p) => {
            rec.note("panicked_cases");
            rec.ev("panic", json!({"msg": p.msg, "loc": p.loc}));
        }
    }
}

fn run_case(rec: &mut Rec, d: &Value) {
    if d["k"].as_str() == Some("hugestroke") {
        return run_hugestroke(rec, d);
    }
    if d["k"].as_str() == Some("longline") {
        return run_long(rec, d);
    }
    if d["k"].as_str() == Some("xlongline") {
        return run_xlong(rec, d);
    }
    assert_eq!(d["k"].as_str(), Some("line"), "unknown case kind {}", d["k"]);
    // optional stroke alignment (0 inside, 2 outside; it is documented as ignored for lines) and optional dotted stroke
    // style (documented: only implemented for rectangles, every other primitive uses the solid default)
    let al = d["al"].as_i64().unwrap_or(1);
    let dot = d["dot"].as_i64() == Some(1);
    let (s, e) = (pt_from(&d["s"]), pt_from(&d["e"]));
    let ws: Vec<u32> = d["ws"].as_array().unwrap().iter().map(|w| i(w) as u32).collect();
    rec.begin(d.clone());
    let r = catch(|| {
        let line = Line::new(s, e);
        let m = (e.x as i64 - s.x as i64).abs().max((e.y as i64 - s.y as i64).abs()) as usize;
        let (pts, pdone) = pull(line.points(), m + 66);
        let mut strokes = vec![];
        for &w in &ws {
            let style = if dot {
                embedded_graphics::primitives::PrimitiveStyleBuilder::new()
                    .stroke_color(BinaryColor::On)
                    .stroke_width(w)
                    .stroke_style(embedded_graphics::primitives::StrokeStyle::Dotted)
                    .build()
            } else if al == 1 {
                PrimitiveStyle::with_stroke(BinaryColor::On, w)
            } else {
                embedded_graphics::primitives::PrimitiveStyleBuilder::new()
                    .stroke_color(BinaryColor::On)
                    .stroke_width(w)
                    .stroke_alignment(if al == 0 { embedded_graphics::primitives::StrokeAlignment::Inside } else { embedded_graphics::primitives::StrokeAlignment::Outside })
                    .build()
            };
            let styled = line.into_styled(style);
            // more items than there are lattice points in the band the property allows
            let budget = (2 * m + 8) * (w as usize + 8) + 64;
            let (px, sdone) = pull(styled.pixels(), budget);
            let seq: Vec<Point> = px.iter().map(|Pixel(p, _)| *p).collect();
            let (dm, dw) = if sdone {
                let mut t = MapTarget::<BinaryColor>::new();
                styled.draw(&mut t).unwrap();
                (t.map.keys().map(|&(y, x)| json!([x, y])).collect::<Vec<_>>(), t.writes as i64)
            } else {
                (vec![], -1)
            };
            // the same pixel sequence through count / last / nth / size_hint and after a few next() calls
            let proto = if sdone && px.len() <= 3000 {
                iter_protocol_with(|| styled.pixels(), 1 + (px.len() % 4), |Pixel(p, _)| *p)
            } else {
                json!({})
            };
            strokes.push(json!([w, pts_json(seq), sdone as i32, dm, dw, proto]));
        }
        (pts, pdone, strokes)
    });
    match r {
        Ok((pts, pdone, strokes)) => {
            if !pts.is_empty() {
                rec.nontrivial();
            }
            rec.ev(
                "line",
                json!({"s": pt_json(s), "e": pt_json(e), "pts": pts_json(pts), "pdone": pdone as i32, "strokes": strokes}),
            );
        }
        Err(p) => {
            rec.note("panicked_cases");
            rec.ev("panic", json!({"msg": p.msg, "loc": p.loc}));
        }
    }
}

fn line_desc(s: (i32, i32), e: (i32, i32), ws: &[u32]) -> Value {
    json!({"k":"line","s":[s.0, s.1],"e":[e.0, e.1],"ws":ws})
}

fn main() {
    let args = Args::parse();
    install_panic_hook();
    let mut rec = Rec::new(&args);
    let mut rng = Rng::new(args.seed ^ 0xC17);
    let th = args.thorough();
    if let Some(cases) = &args.cases {
        for d in cases {
            run_case(&mut rec, d);
        }
        rec.finish(json!({}));
        return;
    }
    // (G) the lines explored by MC_C17, and the witnesses of open findings
    for d in args.gen.iter().chain(args.witnesses.iter()) {
        run_case(&mut rec, d);
    }
    // exhaustive: every delta of [-R, R]^2 (all octants, axis-parallel, diagonal, zero length)
    // from three start points, every width 1..=W
    let (r, wmax) = if th { (16, 16) } else { (8, 6) };
    let ws: Vec<u32> = (1..=wmax).collect();
    for s in [(0, 0), (-7, 3), (5, -11)] {
        for dx in -r..=r {
            for dy in -r..=r {
                run_case(&mut rec, &line_desc(s, (s.0 + dx, s.1 + dy), &ws));
            }
        }
    }
    // seeded: medium lines with a few widths, and long lines with |coordinates| <= 700 (bounds of the exact
    // integer arithmetic of EGLine).  The library used to overflow in thickness_threshold = (2w)^2 * |delta|^2
    // beyond w * |delta| ~ 23170 (D15b, repaired); half of the long lines now lie BEYOND that product so that a
    // re-narrowing of the threshold arithmetic shows as a stroke that is too thin.
    let (n_med, n_long) = if th { (15000, 8000) } else { (300, 90) };
    for k in 0..n_med {
        let s = (rng.i32(-60, 60), rng.i32(-60, 60));
        let e = (s.0 + rng.i32(-48, 48), s.1 + rng.i32(-48, 48));
        let ws = [1, rng.u32r(2, 9), rng.u32r(10, 24)];
        let mut d = line_desc(s, e, &ws);
        // a third of the medium lines with a non-default stroke alignment (must make no difference)
        if k % 3 != 0 {
            d["al"] = json!(if k % 3 == 1 { 0 } else { 2 });
        } else if k % 2 == 0 {
            d["dot"] = json!(1);
        }
        run_case(&mut rec, &d);
    }
    // very long lines: count and end points only
    for (s, e) in [((0, 0), (50_000, 20_000)), ((-3, 7), (46_341, 1)), ((10, -10), (-70_000, 65_000)), ((0, 0), (0, 1_000_000)),
                   ((5, 5), (2_000_000, -1_999_999)), ((-1_000_000, -1_000_000), (1_000_000, 999_983))] {
        run_case(&mut rec, &json!({"k":"longline","s":[s.0, s.1],"e":[e.0, e.1]}));
    }
    // lines longer than 2^29 pixels (the Bresenham error terms need about 3 x the major delta: fine up to ~7 * 10^8)
    {
        let xl: &[((i32, i32), (i32, i32))] = if th {
            &[((-7, 3), (536_870_906, 4)), ((0, 0), (600_000_001, 600_000_000)), ((5, -2), (700_000_000, 0)), ((-350_000_000, -350_000_000), (350_000_001, 349_999_999)),
              ((1, 1), (536_870_914, 1)), ((0, 0), (650_000_003, 650_000_003))]
        } else {
            &[((-7, 3), (536_870_906, 4)), ((0, 0), (600_000_001, 600_000_000))]
        };
        for (s, e) in xl {
            run_case(&mut rec, &json!({"k":"xlongline","s":[s.0, s.1],"e":[e.0, e.1]}));
        }
        // stroke width x length around and beyond 2^30
        for (s, e, w) in [((0, 0), (40_000, 30_000), 25_000u32), ((3, -5), (3, 69_995), 16_000), ((0, 0), (1_200_000, 5), 1_000),
                          ((0, 0), (30_000, 100), 20_000), ((-9, 9), (-40_009, -29_991), 30_000)] {
            run_case(&mut rec, &json!({"k":"hugestroke","s":[s.0, s.1],"e":[e.0, e.1],"w":w}));
        }
    }
    let mut made = 0;
    while made < n_long {
        let s = (rng.i32(-700, 700), rng.i32(-700, 700));
        let e = match rng.u32r(0, 5) {
            0 => (rng.i32(-700, 700), s.1 + rng.i32(-3, 3)), // nearly horizontal
            1 => (s.0 + rng.i32(-3, 3), rng.i32(-700, 700)), // nearly vertical
            2 => {
                let k = rng.i32(-500, 500); // nearly diagonal
                ((s.0 + k).clamp(-700, 700), (s.1 + k + rng.i32(-2, 2)).clamp(-700, 700))
            }
            _ => (rng.i32(-700, 700), rng.i32(-700, 700)),
        };
        let d2 = (e.0 - s.0) as i64 * (e.0 - s.0) as i64 + (e.1 - s.1) as i64 * (e.1 - s.1) as i64;
        let w = rng.u32r(2, 40);
        let wl2 = (w as i64 * w as i64) * d2;
        if wl2 > 60_000i64 * 60_000 {
            continue;
        }
        if made % 2 == 1 && wl2 < 24_000i64 * 24_000 {
            continue;
        }
        made += 1;
        run_case(&mut rec, &line_desc(s, e, &[1, w]));
    }
    rec.finish(json!({}));
}
