CONSTANTS
  G = 2
  Ws = {1}
  D <- DQuick
  Als = {0, 1, 2}
  HasFill = TRUE
SPECIFICATION Spec
INVARIANTS OutlineIsThreeLines NoRowLost
CHECK_DEADLOCK FALSE
