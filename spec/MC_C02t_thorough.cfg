CONSTANTS
  G = 4
  Ws = {1, 2, 3, 4, 5}
  D <- DQuick
  HasFill = TRUE
SPECIFICATION Spec
INVARIANTS RowInsideBox Equivariant RowsOrdered NoRowLost OutlineIsThreeLines
CHECK_DEADLOCK FALSE
