------------------------------ MODULE Trace_C18 -----------------------------
(* (T) for C18: recorded point sets of curved primitives checked against the  *)
(* ideal curves and against each other (P_C18).                               *)
EXTENDS TraceBase, P_C18
VARIABLE l
Init == l = 1
StepCase(e)    == e.ev = "case"
\* DRIFT: the recorded contains() set of small circles / ellipses vs the transcribed closed forms of EGCurve
\* (binds MC_C05 / MC_C06 / MC_C18, which explore those transcriptions, to the code)
TranscribedSet(e) ==
  LET g == Grow(e.box, 2)
      S == { p \in PointsOf(g) : IF e.kind = "circle" THEN CircleContainsT(<<e.box[1], e.box[2]>>, e.box[3], p)
                                                        ELSE EllipseContainsT(<<e.box[1], e.box[2]>>, <<e.box[3], e.box[4]>>, p) }
  IN RunsOfSet(S, g)
StepCurve(e)   == /\ e.ev = "curve"
                  /\ Report(e.case, CurveFails(e), [kind |-> e.kind, box |-> e.box, rad |-> e.rad])
                  /\ DriftReport(e.case, e.kind = "rrect" \/ e.box[3] > 40 \/ e.box[4] > 40 \/ e.set = TranscribedSet(e),
                                 "circle_or_ellipse_contains_transcription", [kind |-> e.kind, box |-> e.box])
StepEq(e)      == e.ev = "eq" /\ Report(e.case, EqFails(e), [what |-> e.what])
StepConfine(e) == e.ev = "confine" /\ Report(e.case, ConfineFails(e), [size |-> e.size, rout |-> e.rout])
StepAng(e)     == e.ev = "ang" /\ Report(e.case, AngFails(e), [kind |-> e.kind, d |-> e.d, a0 |-> e.a0, sw |-> e.sw])
\* a library call of this case panicked: the property promises a result for every input of its domain
StepPanic(e) == e.ev = "panic" /\ Report(e.case, {"library_call_panicked"}, [msg |-> e.msg, loc |-> e.loc])
Next == /\ l <= NRec
        /\ LET e == Rec[l] IN StepCase(e) \/ StepCurve(e) \/ StepEq(e) \/ StepConfine(e) \/ StepAng(e) \/ StepPanic(e)
        /\ l' = l + 1
Spec == Init /\ [][Next]_l
Done == IF TLCGet("stats").diameter = NRec + 1
        THEN PrintT("TRACE-ACCEPTED " \o ToString(NRec))
        ELSE PrintT("TRACE-REJECTED at line " \o ToString(TLCGet("stats").diameter)) /\ FALSE
=============================================================================
