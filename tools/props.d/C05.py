P = dict(
    features={"quick": [None], "thorough": [None, "fixed_point"]},
    bin="egv_c05", trace="Trace_C05", level="model_checking",
    mc=[dict(module="MC_C05", quick_cfg="MC_C05.cfg", thorough_cfg="MC_C05_thorough.cfg", workers=8),
        dict(module="MC_C05", quick_cfg="MC_C05_control.cfg", expect_violation=True, coverage=False, workers=8),
        dict(module="MC_C05r", quick_cfg="MC_C05r.cfg", thorough_cfg="MC_C05r_thorough.cfg", workers=10),
        dict(module="MC_C05r", quick_cfg="MC_C05r_control.cfg", expect_violation=True, coverage=False, workers=10)],
    drift_checked=True,
    proofs=["Proof_C05"],
    required_events=["shape"],
    level_text="MC_C05 steps the transcribed points() machines of Circle and Ellipse against the abstract row-major enumerator of "
               "the transcribed contains() (control: the snapshot's stop-at-empty-row behaviour is refuted); TLC validates, for every recorded shape, that the points() sequence is exactly the row-major enumeration of the "
               "contains() set probed on the bounding box plus a margin, over an exhaustive small domain of all six primitives "
               "and seeded larger ones",
    level_note="trusted: run encoding of the recorder, P_C05; contains() is probed on bbox+2 and 12 far points, not on the whole plane",
    rule="one case per shape (rect, circle, ellipse, rounded rectangle, triangle with non-zero area, sector); "
         "non-trivial = points() or contains() non-empty; distinct = distinct descriptor",
    trusted=COMMON_TRUSTED + ["spec/P_C05.tla, run encoding in spec/EGGeom.tla"],
)
