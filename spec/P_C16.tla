------------------------------- MODULE P_C16 -------------------------------
(* Property C16 — Rectangle operations agree with the set of points they      *)
(* describe.  Property-level predicates over an input and an OBSERVED result. *)
(* MC_C16 feeds them the transcribed methods of EGGeom, Trace_C16 feeds them  *)
(* what the real library returned.  Each operator returns the set of failure  *)
(* codes (empty = the observation is allowed).                                *)
EXTENDS EGGeom

\* binary operations: a, b inputs; inter = a.intersection(b), rev = b.intersection(a), env = a.envelope(b)
BinFails(a, b, inter, rev, env) ==
     (IF IsIntersection(a, b, inter) THEN {} ELSE {"inter_set"})
\cup (IF IsIntersection(b, a, rev) THEN {} ELSE {"inter_rev_set"})
\cup (IF SameSet(inter, rev) THEN {} ELSE {"inter_comm"})
\cup (IF SubsetRect(inter, a) /\ SubsetRect(inter, b) THEN {} ELSE {"inter_contained"})
\cup (IF SubsetRect(a, env) /\ SubsetRect(b, env) THEN {} ELSE {"env_contains"})
\cup (IF (~IsEmpty(a) /\ ~IsEmpty(b)) => IsHull(a, b, env) THEN {} ELSE {"env_min"})

\* rectangles more than 2^31 apart (sizes small): only comparisons, no differences that could leave 32 bits
FarFails(a, b, inter, rev, panicked) ==
  IF panicked = 1 THEN {"intersection_panicked"}
  ELSE   (IF IsIntersection(a, b, inter) THEN {} ELSE {"inter_set"})
    \cup (IF IsIntersection(b, a, rev) THEN {} ELSE {"inter_rev_set"})
    \cup (IF SameSet(inter, rev) THEN {} ELSE {"inter_comm"})

\* rectangles whose last column / row is (close to) i32::MAX: the corner exists, so bottom_right() must return it and
\* contains() must accept it; only differences are taken (the sums do not fit the specification's 32-bit integers)
\* item = <<r, bottom_right or <<>>, contains(bottom right corner) 0/1, contains(top left) 0/1, panicked 0/1, points().count()>>
EdgeFails(it) ==
  LET r == it[1] IN
  IF it[5] = 1 THEN {"edge_rectangle_method_panicked"}
  ELSE   (IF Len(it[2]) = 2 /\ it[2][1] - r[1] = r[3] - 1 /\ it[2][2] - r[2] = r[4] - 1 THEN {} ELSE {"bottom_right_of_edge_rectangle"})
    \cup (IF it[3] = 1 /\ it[4] = 1 THEN {} ELSE {"edge_rectangle_does_not_contain_its_corner"})
    \* points() enumerates all width x height points (it[6] = points().count())
    \cup (IF it[6] = r[3] * r[4] THEN {} ELSE {"points_of_edge_rectangle_incomplete"})

\* intersections of NON-EMPTY rectangles that end on / near i32::MAX, written with inclusive last columns / rows
\* (x + w does not fit the specification's integers there).  item = <<a, b, a.intersection(b), b.intersection(a), panicked>>
EdgeInterOK(a, b, r) ==
  LET l == Max(a[1], b[1])  rr == Min(a[1] + (a[3] - 1), b[1] + (b[3] - 1))
      t == Max(a[2], b[2])  bb == Min(a[2] + (a[4] - 1), b[2] + (b[4] - 1)) IN
  IF l <= rr /\ t <= bb THEN r = <<l, t, rr - l + 1, bb - t + 1>> ELSE (r[3] = 0 \/ r[4] = 0)
EdgeBinFails(it) ==
  IF it[5] = 1 THEN {"edge_intersection_panicked"}
  ELSE   (IF EdgeInterOK(it[1], it[2], it[3]) THEN {} ELSE {"edge_inter_set"})
    \cup (IF EdgeInterOK(it[2], it[1], it[4]) THEN {} ELSE {"edge_inter_rev_set"})

\* with_corners with corners up to i32::MAX apart: an extent of exactly 2^31 pixels does not fit the specification's
\* integers, so the recorder reports each size as <<0, size>> if it is below 2^31 and as <<1, size - 2^31 + 1>> otherwise.
\* item = <<p, q, result top-left, <<width code, height code>>, panicked>>
AxisFarOK(a, b, lo, sz) ==
  LET mx == Max(a, b)  mn == Min(a, b)
      far == mx >= -1 /\ mx - I32Max = mn IN         \* the corners are exactly i32::MAX apart (mx < -1: impossible)
  lo = mn /\ sz = (IF far THEN <<1, 1>> ELSE <<0, mx - mn + 1>>)
FarCornersFails(it) ==
  LET p == it[1]  q == it[2] IN
  IF it[5] = 1 THEN {"with_corners_far_panicked"}
  ELSE IF AxisFarOK(p[1], q[1], it[3][1], it[4][1]) /\ AxisFarOK(p[2], q[2], it[3][2], it[4][2]) THEN {} ELSE {"with_corners_far"}

\* doubled middle of a side that is treated as at least one pixel long
Mid2(pos, len) == 2 * pos + Max(len, 1) - 1
AnchorCOK(pos, len, k, v) ==
  CASE k = 0 -> v = pos
    [] k = 2 -> v = pos + Max(len, 1) - 1
    [] OTHER -> Abs(2 * v - Mid2(pos, len)) <= 1
\* edge anchors stay put, a centre anchor moves by at most one pixel
ResizeCOK(pos, len, k, pos2, len2) ==
  CASE k = 0 -> pos2 = pos
    [] k = 2 -> pos2 + Max(len2, 1) - 1 = pos + Max(len, 1) - 1
    [] OTHER -> Abs(Mid2(pos2, len2) - Mid2(pos, len)) <= 2
OffsetCOK(pos, len, n, pos2, len2) ==
  IF len = 0 THEN TRUE
  ELSE IF len + 2 * n >= 1 THEN pos2 = pos - n /\ len2 = len + 2 * n
  ELSE len2 = 0

\* unary battery; u is the record of observations for rectangle r
UnFails(r, u) ==
     (IF IsEmpty(r) \/ (Abs(2 * u.center[1] - (2 * r[1] + r[3] - 1)) <= 1 /\ Abs(2 * u.center[2] - (2 * r[2] + r[4] - 1)) <= 1)
      THEN {} ELSE {"center"})
\cup (IF u.wc = r THEN {} ELSE {"with_center_identity"})
\cup (IF u.br = (IF IsEmpty(r) THEN None ELSE <<r[1] + r[3] - 1, r[2] + r[4] - 1>>) THEN {} ELSE {"bottom_right"})
\cup (IF \A i \in 1..Len(u.probes) : (u.probes[i][3] = 1) = InRect(r, <<u.probes[i][1], u.probes[i][2]>>)
      THEN {} ELSE {"contains"})
\cup (IF u.pts_logged = 0 \/ u.points = RowMajor(r) THEN {} ELSE {"points"})
\* points() consumed through count / last / nth / size_hint / fold / skip and with indices beyond 2^32
\cup (IF u.pts_logged = 0 THEN {} ELSE SeqProtoFails(u.points, u.proto))
\cup (IF u.rows = <<r[2], r[2] + r[4]>> /\ u.cols = <<r[1], r[1] + r[3]>> THEN {} ELSE {"rows_columns"})
\cup (IF \A a \in 1..9 : AnchorCOK(r[1], r[3], AnchorXOf(a), u.anchors[a][1]) /\ AnchorCOK(r[2], r[4], AnchorYOf(a), u.anchors[a][2])
      THEN {} ELSE {"anchor_point"})
\cup (IF \A i \in 1..Len(u.resized) :
           LET e == u.resized[i]  res == e[4]  a == e[3] IN
           /\ res[3] = e[1] /\ res[4] = e[2]
           /\ ResizeCOK(r[1], r[3], AnchorXOf(a), res[1], res[3])
           /\ ResizeCOK(r[2], r[4], AnchorYOf(a), res[2], res[4])
      THEN {} ELSE {"resized"})
\cup (IF \A i \in 1..Len(u.rw) :
           LET e == u.rw[i]  res == e[3] IN
           res[3] = e[1] /\ res[4] = r[4] /\ res[2] = r[2] /\ ResizeCOK(r[1], r[3], e[2], res[1], res[3])
      THEN {} ELSE {"resized_width"})
\cup (IF \A i \in 1..Len(u.rh) :
           LET e == u.rh[i]  res == e[3] IN
           res[4] = e[1] /\ res[3] = r[3] /\ res[1] = r[1] /\ ResizeCOK(r[2], r[4], e[2], res[2], res[4])
      THEN {} ELSE {"resized_height"})
\cup (IF \A i \in 1..Len(u.off) :
           LET n == u.off[i][1]  res == u.off[i][2] IN
           OffsetCOK(r[1], r[3], n, res[1], res[3]) /\ OffsetCOK(r[2], r[4], n, res[2], res[4])
      THEN {} ELSE {"offset"})
\cup (IF \A i \in 1..Len(u.corners) :
           LET p == u.corners[i][1]  q == u.corners[i][2]  res == u.corners[i][3] IN
           res = <<Min(p[1], q[1]), Min(p[2], q[2]), Abs(p[1] - q[1]) + 1, Abs(p[2] - q[2]) + 1>>
      THEN {} ELSE {"with_corners"})

\* resizing far rectangles / to very large sizes (event "xres"): the same statement as ResizeCOK, written with
\* differences that fit into TLC's 32-bit integers (positions up to +-2^31, sizes up to 2^30; the recorder keeps
\* only the anchors for which the ideal result is representable).  A result further than 2^30 + 16 from the
\* original position fails without any arithmetic on it.
ResizeXOK(pos, len, k, pos2, len2) ==
  LET l1 == Max(len, 1)  l2 == Max(len2, 1)  L == l2 - l1 IN
  IF Abs((pos2 \div 2) - (pos \div 2)) > 536870920 THEN FALSE
  ELSE LET D == pos2 - pos IN
       CASE k = 0 -> D = 0
         [] k = 2 -> D = 0 - L                                       \* pos2 + l2 - 1 = pos + l1 - 1
         [] OTHER -> D >= 0 - ((L + 2) \div 2) /\ D <= (2 - L) \div 2    \* |2 D + L| <= 2
XResFails(r, items) ==
  IF \A i \in 1..Len(items) :
       LET it == items[i]  op == it[1]  w == it[2]  h == it[3]  a == it[4]  res == it[5] IN
       CASE op = 0 -> /\ res[3] = w /\ res[4] = h
                      /\ ResizeXOK(r[1], r[3], AnchorXOf(a), res[1], res[3])
                      /\ ResizeXOK(r[2], r[4], AnchorYOf(a), res[2], res[4])
         [] op = 1 -> res[3] = w /\ res[4] = r[4] /\ res[2] = r[2] /\ ResizeXOK(r[1], r[3], a, res[1], res[3])
         [] OTHER  -> res[4] = h /\ res[3] = r[3] /\ res[1] = r[1] /\ ResizeXOK(r[2], r[4], a, res[2], res[4])
  THEN {} ELSE {"resized_far_or_large"}
=============================================================================
