------------------------------- MODULE P_C18 -------------------------------
(* Property C18 — curved primitives match their mathematical shapes and each  *)
(* other.  Observations:                                                      *)
(*  curve   [kind, box, rad, set]   contains() of a Circle / Ellipse /        *)
(*          RoundedRectangle probed on its box grown by 2 (runs); rad = the   *)
(*          radii after confine_radii() (rounded rectangle only)              *)
(*  eq      [what, a, b]            two point sets that must coincide         *)
(*  confine [size, rout]            result of confine_radii()                 *)
(*  ang     [kind, tl, d, a0, sw, set, base, circle]  sector (contains) or    *)
(*          arc (points) with angles in 1/16 degree; base = circle (sector)   *)
(*          or the circle's one-pixel inside ring (arc)                       *)
EXTENDS EGCurve

CurveFails(o) ==
  IF o.kind = "rrect"
  THEN   (IF RRectBandOK(o.box, o.rad, o.set) THEN {} ELSE {"rounded_corner_outside_half_pixel_band"})
    \cup (IF RowsContiguous(o.set) THEN {} ELSE {"row_not_contiguous"})
    \cup (IF ColumnsContiguous(o.box, o.set) THEN {} ELSE {"column_not_contiguous"})
    \cup (IF ConfinedOK(SizeOf(o.box), o.rad) THEN {} ELSE {"confined_radii_exceed_side"})
  ELSE   (IF BandOK(o.box, o.set) THEN {} ELSE {"outside_half_pixel_band"})
    \cup (IF RunsInRect(o.set, o.box) THEN {} ELSE {"point_outside_box"})
    \cup (IF MirrorOK(o.box, o.set) THEN {} ELSE {"not_mirror_symmetric"})
    \cup (IF RowsContiguous(o.set) THEN {} ELSE {"row_not_contiguous"})
    \cup (IF ColumnsContiguous(o.box, o.set) THEN {} ELSE {"column_not_contiguous"})
    \cup (IF o.kind # "circle" \/ o.box[3] = 0 \/ TouchesAllSides(o.box, o.set) THEN {} ELSE {"circle_does_not_touch_box"})

EqFails(o) == IF SameRunSet(o.a, o.b) THEN {} ELSE {o.what}
ConfineFails(o) == IF ConfinedOK(o.size, o.rout) THEN {} ELSE {"confined_radii_exceed_side"}
AngFails(o) ==
       (IF RunsSubset(o.set, o.circle) THEN {} ELSE {"point_outside_circle"})
  \cup (IF Abs(o.sw) >= 5760 \/ WedgeOK(o.tl, o.d, o.a0, o.sw, o.base, o.set) THEN {} ELSE {"outside_swept_angle_band"})
  \cup (IF Abs(o.sw) < 5760 \/ SameRunSet(o.set, o.base) THEN {} ELSE {"full_sweep_differs_from_circle"})
=============================================================================
