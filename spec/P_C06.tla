------------------------------- MODULE P_C06 -------------------------------
(* Property C06 — stroke and fill of closed shapes follow fill_area() /       *)
(* stroke_area().  Observation o (one styled Rectangle / Circle / Ellipse /   *)
(* RoundedRectangle, solid stroke):                                           *)
(*   F, S, C        contains() of fill_area(), stroke_area() and the shape,   *)
(*                  probed on `region` (all boxes grown by 2), as runs        *)
(*   shape_box, fill_box, stroke_box   the three bounding boxes               *)
(*   draw, pixels   the pixel maps left by draw() and by pixels() (coloured   *)
(*                  runs)                                                     *)
EXTENDS EGStyled

StyledFails(o) ==
  LET st == o.style
      F == RunsToSet(o.F)  S == RunsToSet(o.S)  C == RunsToSet(o.C)
      exp == ExpectedPaint(st, F, S)
      drawn == CRunsToSet(o.draw)
      viaPixels == CRunsToSet(o.pixels)
      sh == o.shape_box
      inW == InsideW(st)  outW == OutsideW(st)
      \* non-degenerate: the shape and the shrunk fill area have both sides >= 1
      nondeg == sh[3] >= 1 /\ sh[4] >= 1 /\ sh[3] - 2 * inW >= 1 /\ sh[4] - 2 * inW >= 1
      strokePx == { <<t[1], t[2]>> : t \in { u \in drawn : HasStroke(st) /\ u[3] = st.stroke /\ st.stroke # st.fill } }
  IN   (IF drawn = exp THEN {} ELSE {"draw_differs_from_areas"})
  \cup (IF viaPixels = exp THEN {} ELSE {"pixels_differs_from_areas"})
  \cup (IF o.trunc = 0 THEN {} ELSE {"pixels_does_not_end"})
  \cup (IF ~nondeg \/ o.stroke_box = Grow(sh, outW) THEN {} ELSE {"stroke_area_not_grown_by_outside_width"})
  \cup (IF ~nondeg \/ o.fill_box = Grow(sh, -inW) THEN {} ELSE {"fill_area_not_shrunk_by_inside_width"})
  \cup (IF ~nondeg \/ st.al # 0 \/ strokePx \subseteq C THEN {} ELSE {"inside_stroke_paints_outside_shape"})
  \cup (IF ~nondeg \/ st.al # 2 \/ strokePx \cap C = {} THEN {} ELSE {"outside_stroke_paints_inside_shape"})

\* The same draw() on a target that reports the window w.box as its bounding box and logs whatever it receives
\* (w.map): what it receives is part of the reference picture, and every reference pixel inside the window arrives.
WindowFails(o, w) ==
  LET ref == CRunsToSet(o.draw)  got == CRunsToSet(w.map) IN
       (IF got \subseteq ref THEN {} ELSE {"window_target_paints_differently"})
  \cup (IF \A t \in ref : InRect(w.box, <<t[1], t[2]>>) => t \in got THEN {} ELSE {"window_target_misses_pixel_inside_its_box"})

Differences(o) ==
  LET exp == ExpectedPaint(o.style, RunsToSet(o.F), RunsToSet(o.S))
      drawn == CRunsToSet(o.draw)
      D == (exp \ drawn) \cup (drawn \ exp)
  IN [n |-> Cardinality(D), first |-> IF D = {} THEN <<>> ELSE CHOOSE t \in D : TRUE,
      missing |-> Cardinality(exp \ drawn), extra |-> Cardinality(drawn \ exp)]
=============================================================================
