------------------------------ MODULE Trace_C02 -----------------------------
(* (T) for C02: recorded bounding boxes and touched point sets vs P_C02.      *)
EXTENDS TraceBase, P_C02, EGThickTri
VARIABLES l, cur      \* cur = descriptor of the current case (for the drift comparison)
Init == l = 1 /\ cur = [d |-> [kind |-> "none"]]
StepCase(e)  == e.ev = "case" /\ cur' = e.desc
\* DRIFT: the styled bounding box of a stroked Line vs the transcribed Line::extents (EGLine!LineStyledBoxT), which
\* MC_C17 proves to contain every point of the ThickPoints machine (ThickInsideStyledBox)
IsSmallLine == /\ "d" \in DOMAIN cur /\ "kind" \in DOMAIN cur.d /\ cur.d.kind = "prim" /\ "shape" \in DOMAIN cur.d
               /\ cur.d.shape.k = "line" /\ DOMAIN cur.d = {"kind", "shape", "style"}
               /\ \A v \in {cur.d.shape.s[1], cur.d.shape.s[2], cur.d.shape.e[1], cur.d.shape.e[2]} : v >= -100 /\ v <= 100
               /\ cur.d.style.w <= 24
\* DRIFT: styled bounding box and painted set of small THICK polylines vs the transcribed scanline renderer (EGThick),
\* which MC_C02p explores (RowInsideBox, Equivariant)
IsSmallThickPoly == /\ "d" \in DOMAIN cur /\ "kind" \in DOMAIN cur.d /\ cur.d.kind = "prim" /\ "shape" \in DOMAIN cur.d
                    /\ cur.d.shape.k = "polyline" /\ DOMAIN cur.d = {"kind", "shape", "style"}
                    /\ Len(cur.d.shape.v) >= 2 /\ Len(cur.d.shape.v) <= 6
                    /\ \A k \in 1..Len(cur.d.shape.v) : \A c \in 1..2 : cur.d.shape.v[k][c] >= -80 /\ cur.d.shape.v[k][c] <= 80
                    /\ \A c \in 1..2 : cur.d.shape.off[c] >= -1000 /\ cur.d.shape.off[c] <= 1000
                    /\ cur.d.style.w >= 2 /\ cur.d.style.w <= 12 /\ cur.d.style.stroke >= 0
\* DRIFT: stroked triangles of every alignment (with or without fill) vs EGThickTri (every fourth case: the comparison
\* costs about 20 ms per triangle and the recorder has tens of thousands of them)
IsSmallThickTri == /\ "d" \in DOMAIN cur /\ "kind" \in DOMAIN cur.d /\ cur.d.kind = "prim" /\ "shape" \in DOMAIN cur.d
                   /\ cur.d.shape.k = "triangle" /\ DOMAIN cur.d = {"kind", "shape", "style"}
                   /\ \A k \in 1..3 : \A c \in 1..2 : cur.d.shape.v[k][c] >= -80 /\ cur.d.shape.v[k][c] <= 80
                   /\ cur.d.style.al \in {0, 1, 2} /\ cur.d.style.w >= 1 /\ cur.d.style.w <= 12 /\ cur.d.style.stroke >= 0
                   /\ DOMAIN cur.d.style = {"al", "fill", "stroke", "w"}
ShiftBox(b, o) == <<b[1] + o[1], b[2] + o[2], b[3], b[4]>>
ShiftSet(S, o) == { <<p[1] + o[1], p[2] + o[2]>> : p \in S }
StepDraw(e)  == e.ev = "draw" /\ UNCHANGED cur /\
  DriftReport(e.case, ~IsSmallThickTri \/ e.case % 4 # 0 \/ e.bbox = TriStyledBoxT(cur.d.shape.v, cur.d.style.w, cur.d.style.al),
              "thick_triangle_bounding_box_transcription", [shape |-> cur.d.shape, w |-> cur.d.style.w, bbox |-> e.bbox]) /\
  DriftReport(e.case, ~IsSmallThickTri \/ e.case % 4 # 0 \/ RunsToSet(e.touched) = TriThickSetT(cur.d.shape.v, cur.d.style.w, cur.d.style.fill >= 0, TRUE, cur.d.style.al),
              "thick_triangle_pixels_transcription", [shape |-> cur.d.shape, style |-> cur.d.style]) /\
  DriftReport(e.case, ~IsSmallThickPoly \/ e.bbox = ShiftBox(PolyThickBoxT(cur.d.shape.v, cur.d.style.w), cur.d.shape.off),
              "thick_polyline_bounding_box_transcription", [shape |-> cur.d.shape, w |-> cur.d.style.w, bbox |-> e.bbox]) /\
  DriftReport(e.case, ~IsSmallThickPoly \/ RunsToSet(e.touched) = ShiftSet(PolyThickSetT(cur.d.shape.v, cur.d.style.w), cur.d.shape.off),
              "thick_polyline_pixels_transcription", [shape |-> cur.d.shape, w |-> cur.d.style.w]) /\
  DriftReport(e.case, ~IsSmallLine \/ e.bbox = LineStyledBoxT(cur.d.shape.s, cur.d.shape.e, cur.d.style.w),
              "line_styled_bounding_box_transcription", [shape |-> cur.d.shape, bbox |-> e.bbox]) /\
  LET f == DrawFails(e) IN
  Report(e.case, f, IF f = {} THEN <<>> ELSE [kind |-> e.kind, bbox |-> e.bbox, n |-> e.n, nout |-> Len(Outside(e)),
                                              firstout |-> IF Outside(e) = <<>> THEN <<>> ELSE Outside(e)[1]])
\* a library call of this case panicked: the property promises a result for every input of its domain
StepPanic(e) == e.ev = "panic" /\ UNCHANGED cur /\ Report(e.case, {"library_call_panicked"}, [msg |-> e.msg, loc |-> e.loc])
Next == /\ l <= NRec
        /\ LET e == Rec[l] IN StepCase(e) \/ StepDraw(e) \/ StepPanic(e)
        /\ l' = l + 1
Spec == Init /\ [][Next]_<<l, cur>>
Done == IF TLCGet("stats").diameter = NRec + 1
        THEN PrintT("TRACE-ACCEPTED " \o ToString(NRec))
        ELSE PrintT("TRACE-REJECTED at line " \o ToString(TLCGet("stats").diameter)) /\ FALSE
=============================================================================
