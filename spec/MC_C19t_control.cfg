CONSTANTS
  G = 2
  Ws = {1}
  D <- DQuick
  HasFill = TRUE
  OutlineEdges <- TwoEdges
SPECIFICATION Spec
INVARIANTS OutlineIsThreeLines
CHECK_DEADLOCK FALSE
