CONSTANTS
  R = 5
  RT = 0
  WMax = 1
  Broken = TRUE
  Gen = FALSE
  ThickCases <- NoCases
SPECIFICATION Spec
INVARIANTS ThinDistOK ThinEndOK
CHECK_DEADLOCK FALSE
