CONSTANTS
  Depth = 2
  Gen = FALSE
  Mutant = FALSE
SPECIFICATION Spec
INVARIANTS EffectMatchesLowering ClipRespected BoxesDocumented
CHECK_DEADLOCK FALSE
