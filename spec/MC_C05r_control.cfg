CONSTANTS
  SMax = 5
  Mutant = "first_corner_only"
SPECIFICATION Spec
INVARIANTS RowsAgree ConfinedFits
CHECK_DEADLOCK FALSE
