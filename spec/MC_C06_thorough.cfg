CONSTANTS
  SMax = 10
  WMax = 7
  Mutant = FALSE
SPECIFICATION Spec
INVARIANTS PaintsByTheAreas AreasDocumented
CHECK_DEADLOCK FALSE
