------------------------------- MODULE MC_C02 ------------------------------
(* (M) for C02: the text machine of MC_C15 (Text::draw over the transcribed    *)
(* lines() iterator and the MonoTextStyle draw_string machine, one action per  *)
(* loop body) with C02's safety invariant checked after EVERY step:            *)
(*     everything painted so far lies inside the transcribed bounding_box(),   *)
(* and a completely transparent style paints nothing.  The abstract fonts      *)
(* include the three decoration geometries that matter: underline below the    *)
(* cell, underline inside the cell (the shape of defect D10) and a             *)
(* strikethrough at the bottom row.                                            *)
(* The control cfg substitutes the snapshot's measure_string (height =         *)
(* underline offset + height, D10) and must be refuted.                        *)
(* The input class of the open known finding D12 (colourless style with        *)
(* character_spacing > 0: decorations are `spacing` pixels wider than the      *)
(* measured line) is exempt, as in MC_C15.                                     *)
EXTENDS MC_C15

\* <<cw, ch, s, baseline, underline <<offset, height>>, strikethrough>>
C02FontTable == <<
  <<1, 2, 0, 1, <<2, 1>>, <<1, 1>>>>,      \* underline below the cell
  <<2, 4, 0, 2, <<2, 1>>, <<3, 1>>>>,      \* underline inside the cell (D10), strikethrough on the last row
  <<2, 3, 1, 1, <<3, 2>>, <<1, 1>>>> >>    \* spaced font
\* colours: text 1, background 2, custom underline 3, custom strikethrough 4
C02StyleTable == <<
  [tc |-> 1, bg |-> 2, ulm |-> 1, ulc |-> 3, stm |-> 0, stc |-> 4],
  [tc |-> NoCol, bg |-> 2, ulm |-> 2, ulc |-> 3, stm |-> 2, stc |-> 4],
  [tc |-> NoCol, bg |-> NoCol, ulm |-> 1, ulc |-> 3, stm |-> 1, stc |-> 4],   \* transparent: decorations follow the absent text colour
  [tc |-> 1, bg |-> NoCol, ulm |-> 2, ulc |-> 3, stm |-> 1, stc |-> 4],
  [tc |-> NoCol, bg |-> NoCol, ulm |-> 2, ulc |-> 3, stm |-> 0, stc |-> 4] >> \* only a custom underline

\* measure_string of the pinned snapshot (mono_text_style.rs:270-274 before c499d29)
MeasurePinned(f, sty, n, pos, base) ==
  LET w == SatSubU(n * (f.cw + f.s), f.s)
      h == IF sty.ulm # 0 THEN f.ul[2] + f.ul[1] ELSE f.ch
  IN [box |-> <<pos[1], pos[2] - BaselineOffT(f, base), w, h>>, next |-> <<pos[1] + w, pos[2]>>]

Box == BoundingBoxT(F, Sty, TS, cfg.text, Pos, Variant)
Transparent == Sty.tc = NoCol /\ Sty.bg = NoCol /\ EffDeco(Sty.ulm, Sty.ulc, Sty.tc) = NoCol /\ EffDeco(Sty.stm, Sty.stc, Sty.tc) = NoCol
PaintedInsideBox == InD12 \/ (DOMAIN tm.pic \subseteq PointsOf(Box))
TransparentPaintsNothing == Transparent => tm.pic = EmptyPic
=============================================================================
