CONSTANTS
  SMax = 5
  WMax = 4
  Mutant = "none"
SPECIFICATION Spec
INVARIANTS PaintsByTheAreas AreasDocumented RowsOrdered StrokeSides MachineIsClosedForm
CHECK_DEADLOCK FALSE
