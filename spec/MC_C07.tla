------------------------------- MODULE MC_C07 ------------------------------
(* (M) for C07: the line-join intersection (common/linear_equation.rs          *)
(* LinearEquation::from_line, line/intersection_params.rs                      *)
(* IntersectionParams::intersection) as a small pipeline machine               *)
(*     equations -> denominator -> numerators -> rounded point                 *)
(* run side by side for two lines and for the same lines moved by `d`.         *)
(* Invariant (translation equivariance, the design-level core of C07 for       *)
(* thick polylines and triangles): result(lines + d) = result(lines) + d.      *)
(* Rounding = "up" is the repaired code (ties always rounded up),              *)
(* Rounding = "away" is the pinned snapshot (half away from zero, defect D14)  *)
(* and serves as the negative control.                                         *)
EXTENDS Integers, Sequences, EGInt, TLC
CONSTANTS G, Rounding
VARIABLES lines, d, stage, a, b

Pts == { <<x, y>> : x \in 0..G, y \in 0..G }
Offsets == { <<-7, -9>>, <<5, -3>>, <<-2, 6>> }
Move(l, o) == << <<l[1][1] + o[1], l[1][2] + o[2]>>, <<l[2][1] + o[1], l[2][2] + o[2]>> >>

\* LinearEquation::from_line: normal = rotate_90(delta), origin_distance = start . normal
LE(l) == LET nx == -(l[2][2] - l[1][2])  ny == l[2][1] - l[1][1] IN
         [nx |-> nx, ny |-> ny, od |-> l[1][1] * nx + l[1][2] * ny]
Den(e1, e2) == e1.nx * e2.ny - e1.ny * e2.nx
XNum(e1, e2) == e1.od * e2.ny - e2.od * e1.ny
YNum(e1, e2) == e1.nx * e2.od - e2.nx * e1.od
RoundUp(num, den) == LET n == IF den < 0 THEN -num ELSE num  dd == Abs(den) IN (n + dd \div 2) \div dd
RoundAway(num, den) == TruncDiv(IF num < 0 THEN num - Abs(den) \div 2 ELSE num + Abs(den) \div 2, den)
Round(num, den) == IF Rounding = "up" THEN RoundUp(num, den) ELSE RoundAway(num, den)

\* pipeline state of one side: [e1, e2, den, xn, yn, p]
Start(ls) == [e1 |-> LE(ls[1]), e2 |-> LE(ls[2]), den |-> 0, xn |-> 0, yn |-> 0, p |-> <<>>]
Step(s, st) == CASE st = 1 -> [s EXCEPT !.den = Den(s.e1, s.e2)]
                 [] st = 2 -> [s EXCEPT !.xn = XNum(s.e1, s.e2), !.yn = YNum(s.e1, s.e2)]
                 [] st = 3 -> [s EXCEPT !.p = IF s.den = 0 THEN <<"colinear">> ELSE <<Round(s.xn, s.den), Round(s.yn, s.den)>>]

Init == /\ lines \in { <<l1, l2>> : l1 \in { <<p, q>> : p \in Pts, q \in Pts }, l2 \in { <<p, q>> : p \in Pts, q \in Pts } }
        /\ lines[1][1] # lines[1][2] /\ lines[2][1] # lines[2][2]
        /\ d \in Offsets /\ stage = 1
        /\ a = Start(lines) /\ b = Start(<<Move(lines[1], d), Move(lines[2], d)>>)
Next == /\ stage <= 3 /\ a' = Step(a, stage) /\ b' = Step(b, stage) /\ stage' = stage + 1
        /\ UNCHANGED <<lines, d>>
Spec == Init /\ [][Next]_<<lines, d, stage, a, b>>

DenominatorInvariant == stage > 1 => a.den = b.den
Equivariant == stage > 3 =>
  IF a.p = <<"colinear">> THEN b.p = <<"colinear">> ELSE b.p = <<a.p[1] + d[1], a.p[2] + d[2]>>
=============================================================================
