//! C08 recorder: totality (no panic, termination within a step budget) and heap freedom of every
//! library call on display-scale inputs, in a build with overflow checks and debug assertions.
//! One record per library call: api, outcome, panic message/location, allocations, steps.
use egv::drawables::{char_style, string_of, text_style};
use egv::fonts_table::FONTS;
use egv::shapes::*;
use egv::util::*;
use egv::*;
use embedded_graphics::{
    framebuffer::{buffer_size, Framebuffer},
    image::{GetPixel, Image, ImageDrawableExt, ImageRaw},
    mono_font::MonoTextStyleBuilder,
    pixelcolor::{
        raw::{BigEndianLsb0, LittleEndianMsb0, RawData, RawU1, RawU16, RawU2, RawU24, RawU32, RawU4, RawU8},
        BinaryColor, Gray8, Rgb565, Rgb888,
    },
    prelude::*,
    primitives::Rectangle,
    text::Text,
    Pixel,
};
use std::alloc::{GlobalAlloc, Layout, System};
use std::cell::Cell;

thread_local! {
    static ALLOCS: Cell<u64> = const { Cell::new(0) };
}
struct Counting;
unsafe impl GlobalAlloc for Counting {
    unsafe fn alloc(&self, l: Layout) -> *mut u8 {
        let _ = ALLOCS.try_with(|a| a.set(a.get() + 1));
        System.alloc(l)
    }
    unsafe fn dealloc(&self, p: *mut u8, l: Layout) {
        System.dealloc(p, l)
    }
    unsafe fn realloc(&self, p: *mut u8, l: Layout, n: usize) -> *mut u8 {
        let _ = ALLOCS.try_with(|a| a.set(a.get() + 1));
        System.realloc(p, l, n)
    }
}
#[global_allocator]
static A: Counting = Counting;
fn allocs() -> u64 {
    ALLOCS.with(|a| a.get())
}

type C = Rgb565;

/// target that does nothing (and never allocates); iterators are drained up to a budget
struct NullTarget {
    bbox: Rectangle,
    steps: usize,
    budget: usize,
    over: bool,
}
impl NullTarget {
    fn new(budget: usize) -> Self {
        NullTarget { bbox: Rectangle::new(Point::new(-64, -64), Size::new(480, 320)), steps: 0, budget, over: false }
    }
}
impl Dimensions for NullTarget {
    fn bounding_box(&self) -> Rectangle {
        self.bbox
    }
}
impl DrawTarget for NullTarget {
    type Color = C;
    type Error = core::convert::Infallible;
    fn draw_iter<I: IntoIterator<Item = Pixel<C>>>(&mut self, pixels: I) -> Result<(), Self::Error> {
        for _ in pixels {
            self.steps += 1;
            if self.steps > self.budget {
                self.over = true;
                break;
            }
        }
        Ok(())
    }
    fn fill_contiguous<I: IntoIterator<Item = C>>(&mut self, _area: &Rectangle, colors: I) -> Result<(), Self::Error> {
        for _ in colors {
            self.steps += 1;
            if self.steps > self.budget {
                self.over = true;
                break;
            }
        }
        Ok(())
    }
    fn fill_solid(&mut self, _area: &Rectangle, _color: C) -> Result<(), Self::Error> {
        self.steps += 1;
        Ok(())
    }
    fn clear(&mut self, _color: C) -> Result<(), Self::Error> {
        self.steps += 1;
        Ok(())
    }
}
/// draw_iter-only variant (the trait defaults run)
struct NullDefault(NullTarget);
impl Dimensions for NullDefault {
    fn bounding_box(&self) -> Rectangle {
        self.0.bbox
    }
}
impl DrawTarget for NullDefault {
    type Color = C;
    type Error = core::convert::Infallible;
    fn draw_iter<I: IntoIterator<Item = Pixel<C>>>(&mut self, pixels: I) -> Result<(), Self::Error> {
        self.0.draw_iter(pixels)
    }
}

// Run one library call; `f` returns (steps, within_budget, rejected_ok) where rejected_ok is only
// meaningful for the rejection clause (-1 = not applicable, 1 = out-of-range input was rejected
// without effect, 0 = it was accepted / had an effect).
// ---- stack use of one library call ("deep" mode, dev-profile build only) -----------------------------------
// A call whose stack use grows with the LENGTH of its input (recursion per vertex / line / character) does not
// terminate on a finite stack; optimised builds turn most such recursion into loops, so the measurement only
// means something at opt-level 0, which is what the `deep` run of the orchestrator builds.  The region below
// the stack pointer is painted, the call runs, the deepest overwritten word is found.  -1 = not measured.
thread_local! { static STACK_PROBE: Cell<bool> = const { Cell::new(false) }; }
const PAINT: usize = 48 << 20;
const MARGIN: usize = 64 << 10; // frames of the painting / scanning code itself live here
const PATTERN: u64 = 0xA5A5_5A5A_C3C3_3C3C;

#[inline(never)]
fn with_stack_probe<T>(f: impl FnOnce() -> T) -> (T, i64) {
    if !STACK_PROBE.with(|p| p.get()) {
        return (f(), -1);
    }
    let marker = 0u8;
    let sp = (&marker as *const u8 as usize) & !7;
    let lo = sp - MARGIN - PAINT;
    // SAFETY (harness only): [lo, sp - MARGIN) lies inside this thread's stack mapping (the deep threads are
    // created with PAINT + MARGIN + 32 MB of stack and call this near their top) and below every live frame.
    unsafe { std::slice::from_raw_parts_mut(lo as *mut u64, PAINT / 8).fill(PATTERN) };
    let r = f();
    let used = unsafe {
        let s = std::slice::from_raw_parts(lo as *const u64, PAINT / 8);
        match s.iter().position(|w| *w != PATTERN) {
            Some(k) => (sp - (lo + 8 * k)) as i64,
            None => 0,
        }
    };
    (r, used)
}

fn call(out: &mut Vec<Value>, api: &str, f: impl FnOnce() -> (usize, bool, i32)) {
    let mut da = 0u64;
    let mut stack = -1i64;
    let r = catch(|| {
        let a0 = allocs();
        let (r, st) = with_stack_probe(f);
        da = allocs() - a0;
        stack = st;
        r
    });
    out.push(match r {
        Ok((steps, ok, rej)) => json!({"api": api, "outcome": if ok { "returned" } else { "budget" }, "msg": "", "loc": "", "allocs": da, "steps": steps, "rej": rej, "stack": stack}),
        Err(p) => json!({"api": api, "outcome": "panic", "msg": p.msg, "loc": p.loc, "allocs": 0, "steps": 0, "rej": -1, "stack": -1}),
    });
}

const CAP: usize = 150_000;
/// step cap of one call: the deep run has inputs with 12 000 vertices / characters
fn cap() -> usize {
    if STACK_PROBE.with(|p| p.get()) { 6_000_000 } else { CAP }
}

fn prim_calls(d: &Value, out: &mut Vec<Value>) {
    let mut shape: Option<Shape> = None;
    call(out, "construct", || {
        // construction itself (from already parsed numbers) — Shape::from_desc allocates for polylines
        // only in the harness-owned Vec, which is excluded by constructing before measuring
        (0, true, -1)
    });
    if let Ok(s) = catch(|| Shape::from_desc(&d["shape"])) {
        shape = Some(s);
    } else {
        out.push(json!({"api": "construct", "outcome": "panic", "msg": "constructor panicked", "loc": "", "allocs": 0, "steps": 0, "rej": -1, "stack": -1}));
    }
    let Some(s) = shape else { return };
    let st = style_from::<C>(&d["style"]);
    let mut bb = Rectangle::zero();
    call(out, "bounding_box", || {
        bb = s.bounding_box();
        (0, true, -1)
    });
    call(out, "styled_bounding_box", || {
        let _ = s.styled_bounding_box(&st);
        (0, true, -1)
    });
    if s.has_contains() {
        call(out, "contains", || {
            let mut n = 0;
            for (dx, dy) in [(0i32, 0i32), (bb.size.width as i32, 0), (0, bb.size.height as i32), (bb.size.width as i32 / 2, bb.size.height as i32 / 2), (-1, -1), (bb.size.width as i32 + 1, bb.size.height as i32 + 1)] {
                let _ = s.contains(bb.top_left + Point::new(dx, dy));
                n += 1;
            }
            for p in [Point::zero(), Point::new(1024, -1024), Point::new(-1024, 1024)] {
                let _ = s.contains(p);
                n += 1;
            }
            (n, true, -1)
        });
    }
    let area = bb.size.width as usize * bb.size.height as usize;
    // a polyline may visit a pixel once per segment: allow the length of every segment (<= width + height of the box)
    // (deep run only: the ordinary cases have at most 8 vertices and keep their budgets)
    let nv = if let (Shape::Polyline(v, _), true) = (&s, STACK_PROBE.with(|p| p.get())) { v.len() } else { 0 };
    let seg = nv * (bb.size.width as usize + bb.size.height as usize + 4);
    let budget = (4 * area + 64 + seg).min(cap());
    let capped = 4 * area + 64 + seg > cap();
    call(out, "points", || {
        let (n, done) = s.visit_points(budget, &mut |_| {});
        (n, done || capped, -1)
    });
    // pixels()/draw() may legitimately produce more than the primitive's box (outside strokes)
    let w = i(&d["style"]["w"]) as usize;
    let sarea = (bb.size.width as usize + 2 * w + 2) * (bb.size.height as usize + 2 * w + 2);
    let sbudget = (6 * sarea + 4096 + seg * (2 * w + 3)).min(cap());
    let scapped = 6 * sarea + 4096 + seg * (2 * w + 3) > cap();
    call(out, "pixels", || {
        let (n, done) = s.visit_pixels(&st, sbudget, &mut |_| {});
        (n, done || scapped, -1)
    });
    call(out, "draw_native", || {
        let mut t = NullTarget::new(sbudget);
        s.draw(&st, &mut t).unwrap();
        (t.steps, !t.over || scapped, -1)
    });
    call(out, "draw_clipped_translated", || {
        let mut t = NullTarget::new(sbudget);
        {
            let mut a = t.clipped(&Rectangle::new(Point::new(-10, -10), Size::new(64, 64)));
            let mut b = a.translated(Point::new(3, -2));
            s.draw(&st, &mut b).unwrap();
        }
        (t.steps, !t.over || scapped, -1)
    });
    if sarea <= 40_000 {
        call(out, "draw_default_target", || {
            let mut t = NullDefault(NullTarget::new(sbudget));
            s.draw(&st, &mut t).unwrap();
            (t.0.steps, !t.0.over, -1)
        });
    }
    // transforms and offsets used by styles
    if !matches!(s, Shape::Polyline(..)) {
        // (Shape::translate clones the harness-owned vertex list of a polyline)
        call(out, "translate", || {
            let _ = s.translate(Point::new(-1024, 1024)).bounding_box();
            (0, true, -1)
        });
    }
}

fn text_calls(d: &Value, out: &mut Vec<Value>) {
    let s = string_of(&d["s"]);
    let ts = text_style(d);
    // custom font with non-zero character spacing: "spaced:<built-in font>:<spacing>"
    let fname = d["font"].as_str().unwrap().to_string();
    let spaced_font;
    // degenerate glyph mappings of a user font: "oddmap:<built-in font>:<n>" - empty, descending range, range without
    // end, replacement index beyond the font (the clean library draws the replacement glyph / nothing for them)
    static ODD_MAPS: [embedded_graphics::mono_font::mapping::StrGlyphMapping<'static>; 5] = [
        embedded_graphics::mono_font::mapping::StrGlyphMapping::new("", 0),
        embedded_graphics::mono_font::mapping::StrGlyphMapping::new("\0 ?\0ZA\0ad", 0),
        embedded_graphics::mono_font::mapping::StrGlyphMapping::new("ab\0", 1),
        embedded_graphics::mono_font::mapping::StrGlyphMapping::new("\0az", 1000),
        embedded_graphics::mono_font::mapping::StrGlyphMapping::new("\0zz\0\u{10FFFF}\u{10FFFF}A", 2),
    ];
    let cs = if let Some(rest) = fname.strip_prefix("spaced:").or(fname.strip_prefix("oddmap:")) {
        let mut it = rest.rsplitn(2, ':');
        let sp: u32 = it.next().unwrap().parse().unwrap();
        let base = egv::drawables::font_by_name(it.next().unwrap());
        spaced_font = if fname.starts_with("oddmap:") {
            embedded_graphics::mono_font::MonoFont { glyph_mapping: &ODD_MAPS[sp as usize % ODD_MAPS.len()], ..*base }
        } else {
            embedded_graphics::mono_font::MonoFont { character_spacing: sp, ..*base }
        };
        let mut b = MonoTextStyleBuilder::<C>::new().font(&spaced_font);
        if i(&d["tc"]) >= 0 {
            b = b.text_color(C::from_u32(i(&d["tc"]) as u32));
        }
        if i(&d["bc"]) >= 0 {
            b = b.background_color(C::from_u32(i(&d["bc"]) as u32));
        }
        if i(&d["ul"]) != -1 {
            b = b.underline();
        }
        if i(&d["st"]) != -1 {
            b = b.strikethrough();
        }
        b.build()
    } else if d["font"] == "null" {
        // the null font of a builder without a font
        let mut b = MonoTextStyleBuilder::<C>::new();
        if i(&d["tc"]) >= 0 {
            b = b.text_color(C::from_u32(i(&d["tc"]) as u32));
        }
        if i(&d["bc"]) >= 0 {
            b = b.background_color(C::from_u32(i(&d["bc"]) as u32));
        }
        if i(&d["ul"]) != -1 {
            b = b.underline();
        }
        b.build()
    } else {
        char_style::<C>(d)
    };
    let pos = pt_from(&d["pos"]);
    call(out, "text_bounding_box", || {
        let _ = Text::with_text_style(&s, pos, cs, ts).bounding_box();
        (0, true, -1)
    });
    call(out, "text_draw_native", || {
        let mut t = NullTarget::new(cap());
        let _ = Text::with_text_style(&s, pos, cs, ts).draw(&mut t).unwrap();
        (t.steps, !t.over, -1)
    });
    call(out, "text_draw_default_target", || {
        let mut t = NullDefault(NullTarget::new(cap()));
        let _ = Text::with_text_style(&s, pos, cs, ts).draw(&mut t).unwrap();
        (t.0.steps, !t.0.over, -1)
    });
}

fn image_calls(d: &Value, out: &mut Vec<Value>) {
    let data: Vec<u8> = d["data"].as_array().unwrap().iter().map(|b| i(b) as u8).collect();
    let size = Size::new(i(&d["w"]) as u32, i(&d["h"]) as u32);
    let pos = pt_from(&d["pos"]);
    let sub = rect_from(&d["sub"]);
    let sub2 = rect_from(&d["sub2"]);
    macro_rules! go {
        ($ct:ty, $conv:expr) => {{
            let mut img = None;
            call(out, "image_new", || {
                img = ImageRaw::<$ct>::new(&data, size).ok();
                (0, true, -1)
            });
            if let Some(img) = img {
                let bb = img.bounding_box();
                call(out, "image_pixel_out_of_range", || {
                    let mut rejected = 1;
                    let mut n = 0;
                    for p in [Point::new(-1, 0), Point::new(0, -1), Point::new(size.width as i32, 0), Point::new(0, size.height as i32),
                              Point::new(i32::MIN, i32::MIN), Point::new(i32::MAX, i32::MAX), Point::new(i32::MAX, 0), Point::new(-1024, 1024)] {
                        n += 1;
                        if !bb.contains(p) && img.pixel(p).is_some() {
                            rejected = 0;
                        }
                    }
                    (n, true, rejected)
                });
                call(out, "image_draw", || {
                    let mut t = NullTarget::new(CAP);
                    Image::new(&img, pos).draw(&mut t.color_converted()).unwrap();
                    (t.steps, !t.over, -1)
                });
                // ImageDrawable::draw_sub_image called directly with areas that are not inside the image: beyond the right /
                // bottom edge (strictly and exactly), negative, overhanging; nothing may be drawn for them
                call(out, "image_draw_sub_image_out_of_range", || {
                    use embedded_graphics::image::ImageDrawable;
                    let (w, h) = (size.width as i32, size.height as i32);
                    let mut rejected = 1;
                    let mut n = 0;
                    for a in [Rectangle::new(Point::new(w + 1, 0), Size::new(1, 1)), Rectangle::new(Point::new(0, h + 2), Size::new(2, 1)),
                              Rectangle::new(Point::new(w + 7, h + 9), Size::new(3, 3)), Rectangle::new(Point::new(w, 0), Size::new(1, 1)),
                              Rectangle::new(Point::new(0, h), Size::new(1, 1)), Rectangle::new(Point::new(-1, 0), Size::new(2, 1)),
                              Rectangle::new(Point::new(0, -3), Size::new(1, 4)), Rectangle::new(Point::new(w - 1, h - 1), Size::new(2, 2)),
                              Rectangle::new(Point::new(1024, 1024), Size::new(1024, 1024)), Rectangle::new(Point::new(w + 1, h + 1), Size::new(0, 0)),
                              // position + size beyond the u32 range (the sum must not wrap back into the image)
                              Rectangle::new(Point::new(1, 0), Size::new(u32::MAX, 1)), Rectangle::new(Point::new(0, 1), Size::new(1, u32::MAX)),
                              Rectangle::new(Point::new(1, 1), Size::new(u32::MAX, u32::MAX)), Rectangle::new(Point::new(w.max(2), 0), Size::new(u32::MAX - w.max(2) as u32 + 2, 1)),
                              Rectangle::new(Point::new(i32::MAX, i32::MAX), Size::new(u32::MAX, u32::MAX)), Rectangle::new(Point::new(0, 0), Size::new(u32::MAX, u32::MAX))] {
                        let mut t = NullTarget::new(CAP);
                        img.draw_sub_image(&mut t.color_converted(), &a).unwrap();
                        n += 1;
                        if !a.is_zero_sized() && t.steps > 0 {
                            rejected = 0;
                        }
                    }
                    (n, true, rejected)
                });
                call(out, "sub_image_draw", || {
                    let mut t = NullTarget::new(CAP);
                    let s1 = img.sub_image(&sub);
                    Image::new(&s1, pos).draw(&mut t.color_converted()).unwrap();
                    let s2 = s1.sub_image(&sub2);
                    Image::with_center(&s2, pos).draw(&mut t.color_converted()).unwrap();
                    let _ = s2.bounding_box();
                    (t.steps, !t.over, -1)
                });
            }
        }};
    }
    match i(&d["bpp"]) {
        1 => go!(BinaryColor, ()),
        8 => go!(Gray8, ()),
        16 => go!(Rgb565, ()),
        _ => go!(Rgb888, ()),
    }
}

/// rejection clause: Framebuffer and raw load/store with out-of-range coordinates / indices
fn reject_calls(d: &Value, out: &mut Vec<Value>) {
    let p = pt_from(&d["p"]);
    macro_rules! fb {
        ($name:expr, $ct:ty, $bo:ty, $w:expr, $h:expr, $c:expr) => {{
            let mut f = Framebuffer::<$ct, _, $bo, $w, $h, { buffer_size::<$ct>($w, $h) }>::new();
            call(out, $name, || {
                let before = *f.data();
                let inside = p.x >= 0 && p.y >= 0 && (p.x as usize) < $w && (p.y as usize) < $h;
                f.set_pixel(p, $c);
                let got = f.pixel(p);
                let rejected = if inside { -1 } else { (before == *f.data() && got.is_none()) as i32 };
                (1, true, rejected)
            });
        }};
    }
    fb!("framebuffer_1bpp_5x3", BinaryColor, LittleEndianMsb0, 5, 3, BinaryColor::On);
    fb!("framebuffer_8bpp_9x2", Gray8, LittleEndianMsb0, 9, 2, Gray8::new(200));
    fb!("framebuffer_16bpp_3x3", Rgb565, BigEndianLsb0, 3, 3, Rgb565::new(31, 0, 31));
    fb!("framebuffer_24bpp_2x2", Rgb888, LittleEndianMsb0, 2, 2, Rgb888::new(1, 2, 3));
    // boundary indices: the byte / bit offset computation overflows around usize::MAX / n
    let idx: usize = match i(&d["idx"]) {
        -1 => usize::MAX,
        -2 => usize::MAX / 2 + 7,
        -3 => usize::MAX / 8 + 1,
        -4 => usize::MAX / 2,
        -5 => usize::MAX / 3,
        -6 => usize::MAX / 4,
        -7 => usize::MAX / 8,
        -8 => usize::MAX / 2 + 1,
        -9 => usize::MAX / 3 + 1,
        -10 => usize::MAX / 4 + 1,
        -11 => usize::MAX - 1,
        -12 => usize::MAX / 2 - 1,
        -13 => usize::MAX / 3 - 1,
        -14 => usize::MAX / 4 - 1,
        -15 => usize::MAX / 16,
        v => v as usize,
    };
    let len = i(&d["len"]) as usize;
    macro_rules! raw {
        ($name:expr, $r:ty, $bits:expr) => {{
            let mut buf = vec![0xA5u8; len];
            call(out, $name, || {
                let before = buf.clone(); // (allocation in the harness: subtracted below)
                let in_range = idx.checked_mul($bits).and_then(|b| b.checked_add($bits)).map(|e| e <= len * 8).unwrap_or(false);
                let r1 = <$r>::from_u32(0x5A5A5A5A).store::<LittleEndianMsb0>(&mut buf, idx);
                let l1 = <$r>::load::<LittleEndianMsb0>(&buf, idx);
                let r2 = <$r>::from_u32(0x5A5A5A5A).store::<BigEndianLsb0>(&mut buf, idx);
                let l2 = <$r>::load::<BigEndianLsb0>(&buf, idx);
                let rejected = if in_range { -1 } else { (r1.is_err() && r2.is_err() && l1.is_none() && l2.is_none() && before == buf) as i32 };
                (4, true, rejected)
            });
            // the clone above is the only allocation of this call and belongs to the harness
            if let Some(last) = out.last_mut() {
                if last["allocs"].as_u64() == Some(1) {
                    last["allocs"] = json!(0);
                }
            }
        }};
    }
    raw!("raw_u1_load_store", RawU1, 1);
    raw!("raw_u2_load_store", RawU2, 2);
    raw!("raw_u4_load_store", RawU4, 4);
    raw!("raw_u8_load_store", RawU8, 8);
    raw!("raw_u16_load_store", RawU16, 16);
    raw!("raw_u24_load_store", RawU24, 24);
    raw!("raw_u32_load_store", RawU32, 32);
}

/// flat lists of all coordinates / sizes of a descriptor (for the DisplayScale predicate of the spec)
fn numbers(d: &Value) -> (Vec<i64>, Vec<i64>, i64) {
    let mut coords = vec![];
    let mut sizes = vec![];
    let mut w = 0;
    match d["kind"].as_str().unwrap() {
        "prim" => {
            let s = &d["shape"];
            w = i(&d["style"]["w"]);
            for k in ["tl", "s", "e", "off"] {
                if s[k].is_array() {
                    coords.push(i(&s[k][0]));
                    coords.push(i(&s[k][1]));
                }
            }
            if s["v"].is_array() {
                for p in s["v"].as_array().unwrap() {
                    coords.push(i(&p[0]));
                    coords.push(i(&p[1]));
                }
            }
            if s["r"].is_array() {
                coords.push(i(&s["r"][0]));
                coords.push(i(&s["r"][1]));
                sizes.push(i(&s["r"][2]));
                sizes.push(i(&s["r"][3]));
            }
            if s["size"].is_array() {
                sizes.push(i(&s["size"][0]));
                sizes.push(i(&s["size"][1]));
            }
            if s["d"].is_number() {
                sizes.push(i(&s["d"]));
            }
            if s["radii"].is_array() {
                for r in s["radii"].as_array().unwrap() {
                    sizes.push(i(&r[0]));
                    sizes.push(i(&r[1]));
                }
            }
        }
        "text" => {
            coords.push(i(&d["pos"][0]));
            coords.push(i(&d["pos"][1]));
            sizes.push(if i(&d["lh"][0]) == 0 { i(&d["lh"][1]) } else { 0 });
        }
        "image" => {
            coords.push(i(&d["pos"][0]));
            coords.push(i(&d["pos"][1]));
            sizes.push(i(&d["w"]));
            sizes.push(i(&d["h"]));
        }
        _ => {}
    }
    (coords, sizes, w)
}

fn case_events(d: &Value) -> Vec<Value> {
    let _open = egv::rec::watch(d); // worker threads run library code before Rec::begin sees the case
    let mut out = vec![];
    match d["kind"].as_str().unwrap() {
        "prim" => prim_calls(d, &mut out),
        "text" => text_calls(d, &mut out),
        "image" => image_calls(d, &mut out),
        "reject" => reject_calls(d, &mut out),
        k => panic!("unknown kind {}", k),
    }
    out
}

const V: [i32; 13] = [0, 1, 2, 63, 64, 65, 240, 255, 256, 257, 320, 480, 1024];

fn gen_cases(th: bool, seed: u64) -> Vec<Value> {
    let mut rng = Rng::new(seed ^ 0xC08);
    let mut v = vec![];
    let n = if th { 150_000 } else { 24_000 };
    // boundary-biased value, small values more likely so that most cases are cheap
    let sz = |rng: &mut Rng| -> u32 {
        match rng.u32r(0, 9) {
            0..=3 => V[rng.usize(0, 5)] as u32,
            4..=6 => V[rng.usize(0, 9)] as u32,
            7 => rng.u32r(0, 1024),
            _ => V[rng.usize(0, 12)] as u32,
        }
    };
    let co = |rng: &mut Rng| -> i32 {
        let a = match rng.u32r(0, 9) {
            0..=4 => V[rng.usize(0, 12)],
            5..=7 => V[rng.usize(0, 8)],
            _ => rng.i32(0, 1024),
        };
        if rng.bool() { a } else { -a }
    };
    let ws = [0u32, 1, 2, 3, 5, 16, 63, 64, 65, 127, 128];
    for k in 0..n {
        let w = if rng.chance(2, 3) { ws[rng.usize(0, 4)] } else { ws[rng.usize(0, 10)] };
        let (f, s) = [(0x1234i64, 0xF800i64), (0x1234, -1), (-1, 0xF800), (-1, -1)][rng.usize(0, 3)];
        let mut style = style_desc(f, s, w, rng.u32r(0, 2));
        if rng.chance(1, 4) {
            style["dot"] = json!(1); // dotted stroke style
        }
        let ang = |rng: &mut Rng| -> i32 { match rng.u32r(0, 3) { 0 => [0, 90, 180, 270, 360, -90, -360, 1080, -1080][rng.usize(0, 8)] * 16, 1 => rng.i32(-1080, 1080) * 16, _ => rng.i32(-1080 * 16, 1080 * 16) } };
        let shape = match k % 10 {
            0 => json!({"k":"rect","r":[co(&mut rng), co(&mut rng), sz(&mut rng), sz(&mut rng)]}),
            1 => json!({"k":"circle","tl":[co(&mut rng), co(&mut rng)],"d":sz(&mut rng)}),
            2 => json!({"k":"ellipse","tl":[co(&mut rng), co(&mut rng)],"size":[sz(&mut rng), sz(&mut rng)]}),
            3 => {
                let mut rr = || json!([sz(&mut rng), sz(&mut rng)]);
                let radii = if k % 20 == 3 { let r = rr(); json!([r, r, r, r]) } else { json!([rr(), rr(), rr(), rr()]) };
                json!({"k":"rrect","r":[co(&mut rng), co(&mut rng), sz(&mut rng), sz(&mut rng)],"radii":radii})
            }
            4 => json!({"k":"line","s":[co(&mut rng), co(&mut rng)],"e":[co(&mut rng), co(&mut rng)]}),
            5 => {
                let a = json!([co(&mut rng), co(&mut rng)]);
                let b = if rng.chance(1, 6) { a.clone() } else { json!([co(&mut rng), co(&mut rng)]) };
                let c = if rng.chance(1, 6) { b.clone() } else { json!([co(&mut rng), co(&mut rng)]) };
                json!({"k":"triangle","v":[a, b, c]})
            }
            6 => {
                let len = rng.usize(0, 8);
                let mut pts: Vec<Value> = vec![];
                for _ in 0..len {
                    if !pts.is_empty() && rng.chance(1, 6) { let l = pts[pts.len() - 1].clone(); pts.push(l); } else { pts.push(json!([co(&mut rng), co(&mut rng)])); }
                }
                json!({"k":"polyline","v":pts,"off":[co(&mut rng) / 8, co(&mut rng) / 8]})
            }
            7 => json!({"k":"arc","tl":[co(&mut rng), co(&mut rng)],"d":sz(&mut rng),"a0":ang(&mut rng),"sw":ang(&mut rng)}),
            8 => json!({"k":"sector","tl":[co(&mut rng), co(&mut rng)],"d":sz(&mut rng),"a0":ang(&mut rng),"sw":ang(&mut rng)}),
            _ => {
                // short / nearby versions: small shapes with wide strokes (stroke wider than the shape)
                let a = json!([co(&mut rng) % 70, co(&mut rng) % 70]);
                match rng.u32r(0, 2) {
                    0 => json!({"k":"line","s":a,"e":[i(&a[0]) + rng.i32(-3, 3) as i64, i(&a[1]) + rng.i32(-3, 3) as i64]}),
                    1 => json!({"k":"triangle","v":[a, [i(&a[0]) + rng.i32(-9, 9) as i64, i(&a[1]) + rng.i32(-9, 9) as i64], [i(&a[0]) + rng.i32(-9, 9) as i64, i(&a[1]) + rng.i32(-9, 9) as i64]]}),
                    _ => json!({"k":"polyline","v":[a, [i(&a[0]) + rng.i32(-9, 9) as i64, i(&a[1])], [i(&a[0]), i(&a[1]) + rng.i32(-9, 9) as i64], a],"off":[0, 0]}),
                }
            }
        };
        v.push(json!({"kind":"prim","shape":shape,"style":style}));
    }
    // text: fonts incl. the null font, degenerate strings, line heights up to 1024 px / 400 %
    let strings: Vec<Vec<u32>> = vec![vec![], vec![65], vec![10], vec![13, 10], vec![65, 10, 10, 66], "Hello, World!\n\u{e9}\u{2603}\t".chars().map(|c| c as u32).collect(), vec![0], vec![0x1F600, 0x7f]];
    let nfont = if th { FONTS.len() } else { 40 };
    for fi in 0..=nfont + 6 {
        let fname = if fi == nfont { "null".to_string() } else if fi > nfont {
            format!("spaced:{}:{}", FONTS[(fi * 13) % FONTS.len()].0, [1, 2, 3, 7, 16, 64][fi - nfont - 1])
        } else if fi % 8 == 5 {
            format!("oddmap:{}:{}", FONTS[(fi * 7) % FONTS.len()].0, fi / 8)
        } else { FONTS[(fi * 7) % FONTS.len()].0.to_string() };
        for (si, s) in strings.iter().enumerate() {
            for k in 0..(if th { 6 } else { 2 }) {
                let lh = match (fi + si + k) % 5 { 0 => json!([0, 0]), 1 => json!([0, 1024]), 2 => json!([1, 400]), 3 => json!([1, 0]), _ => json!([1, 100]) };
                let (tc, bc, ul, st) = [(0xFFFFi64, -1i64, -1i64, -1i64), (0xFFFF, 0x11, -2, -2), (-1, -1, 0x7E0, 0x7E0), (-1, 0x11, -2, 0x7E0)][(fi + si + k) % 4];
                v.push(json!({"kind":"text","s":s,"font":fname,"tc":tc,"bc":bc,"ul":ul,"st":st,"al":(fi + k) % 3,"bl":(si + k) % 4,"lh":lh,
                    "pos":[co(&mut rng), co(&mut rng)]}));
            }
        }
    }
    // images and sub-images (incl. zero sizes and out-of-range sub areas)
    for k in 0..(if th { 3000 } else { 400 }) {
        let bpp = [1usize, 8, 16, 24][k % 4];
        let dims = [0u32, 1, 2, 7, 8, 9, 63, 64, 65, 255, 256, 257];
        let (w, h) = (dims[rng.usize(0, 11)], dims[rng.usize(0, 8)]);
        let len = ((w as usize * bpp + 7) / 8) * h as usize;
        if len > 120_000 { continue; }
        let data: Vec<u32> = (0..len).map(|j| (j as u32 * 31 + k as u32) & 0xFF).collect();
        let pos = json!([co(&mut rng), co(&mut rng)]);
        let sub = json!([co(&mut rng) / 4, co(&mut rng) / 4, sz(&mut rng), sz(&mut rng)]);
        let sub2 = json!([co(&mut rng) / 4, co(&mut rng) / 4, sz(&mut rng), sz(&mut rng)]);
        v.push(json!({"kind":"image","bpp":bpp,"w":w,"h":h,"data":data,"pos":pos,"sub":sub,"sub2":sub2}));
    }
    // rejection clause
    let pts = [(-1, 0), (0, -1), (5, 0), (0, 3), (9, 1), (2, 2), (3, 3), (i32::MIN, 0), (0, i32::MIN), (i32::MAX, i32::MAX), (i32::MAX, 0), (-1024, 1024), (1024, 1024), (0, 0), (1, 1), (4, 2), (8, 1)];
    for (pi, p) in pts.iter().enumerate() {
        for len in [0, 1, 2, 3, 4, 7] {
            for idx in [0i64, 1, 2, 3, 4, 7, 8, 15, 16, 31, 32, 56, 57, -1, -2, -3, -4, -5, -6, -7, -8, -9, -10, -11, -12, -13, -14, -15] {
                if (pi + len as usize + idx.unsigned_abs() as usize) % 3 != 0 && !th { continue; }
                v.push(json!({"kind":"reject","p":[p.0, p.1],"len":len,"idx":idx}));
            }
        }
    }
    v
}

/// Inputs whose LENGTH is large while every coordinate stays display-scale: long runs of coincident vertices,
/// long zig-zags, long strings and many lines (see `with_stack_probe`).
fn deep_cases() -> Vec<Value> {
    const P: usize = 12_000;
    let mut v = vec![];
    let coincident: Vec<Value> = (0..P).map(|_| json!([5, 5])).collect();
    let runs: Vec<Value> = (0..P).map(|j| if (j / 100) % 2 == 0 { json!([0, 0]) } else { json!([40, 25]) }).collect();
    let zigzag: Vec<Value> = (0..P).map(|j| json!([(j % 64) as i64, ((j * 7) % 48) as i64])).collect();
    let tail: Vec<Value> = (0..P).map(|j| if j < 3 { json!([3 * j as i64, 7]) } else { json!([9, 9]) }).collect();
    for pts in [coincident, runs, zigzag, tail] {
        for w in [1u32, 3] {
            v.push(json!({"kind":"prim","shape":{"k":"polyline","v":pts,"off":[2, -3]},"style":style_desc(-1, 0xF800, w, 0)}));
        }
    }
    let many_lines: Vec<u32> = (0..P).map(|_| 10).collect();
    let long_line: Vec<u32> = (0..P).map(|j| 65 + (j % 26) as u32).collect();
    let crlf: Vec<u32> = (0..P).map(|j| if j % 2 == 0 { 13 } else { 10 }).collect();
    let unmapped: Vec<u32> = (0..P).map(|_| 0x2603).collect();
    for (si, s) in [many_lines, long_line, crlf, unmapped].iter().enumerate() {
        for (k, fname) in [FONTS[0].0, FONTS[FONTS.len() / 2].0, "null"].iter().enumerate() {
            v.push(json!({"kind":"text","s":s,"font":fname,"tc":0xFFFF,"bc":if k == 1 { 0x11 } else { -1 },"ul":-1,"st":-1,"al":(si + k) % 3,
                "bl":k % 4,"lh":[1, 100],"pos":[3, 4]}));
        }
    }
    // images that are long in one direction and degenerate in the other: rows / columns without any pixel must not
    // cost stack (a colour stream that skips empty rows one call per row)
    // (display scale: 1024 rows / columns)
    for (bpp, w, h) in [(1usize, 0u32, 1024u32), (8, 0, 1024), (16, 1024, 0), (1, 1, 1024), (8, 1024, 1), (24, 0, 1000)] {
        let len = ((w as usize * bpp + 7) / 8) * h as usize;
        let data: Vec<u32> = (0..len).map(|j| (j as u32 * 29 + 3) & 0xFF).collect();
        v.push(json!({"kind":"image","bpp":bpp,"w":w,"h":h,"data":data,"pos":[3, -4],"sub":[0, 5, 1, h / 2],"sub2":[0, 0, 1, 9]}));
    }
    v
}

fn write_case(rec: &mut Rec, d: &Value, evs: Vec<Value>) {
    rec.begin(d.clone());
    let (coords, sizes, w) = numbers(d);
    if evs.iter().any(|e| i(&e["steps"]) > 0) {
        rec.nontrivial();
    }
    for e in &evs {
        if e["outcome"] == "panic" {
            rec.note("panicking_calls");
        }
        if i(&e["stack"]) >= 0 {
            rec.note("stack_measured_calls");
            rec.note_n("stack_max_kb_sum", (i(&e["stack"]) / 1024) as u64);
        }
    }
    rec.ev("calls", json!({"kind": d["kind"], "coords": coords, "sizes": sizes, "w": w, "calls": evs}));
}

fn main() {
    let args = Args::parse();
    install_panic_hook();
    let mut rec = Rec::new(&args);
    if args.tier == "deep" {
        // one case at a time, each in a thread with a big stack, with the stack probe on
        for d in args.cases.clone().unwrap_or_else(deep_cases) {
            let evs = std::thread::scope(|sc| {
                std::thread::Builder::new()
                    .stack_size(PAINT + MARGIN + (32 << 20))
                    .spawn_scoped(sc, || {
                        STACK_PROBE.with(|p| p.set(true));
                        case_events(&d)
                    })
                    .expect("spawn")
                    .join()
                    .expect("worker")
            });
            write_case(&mut rec, &d, evs);
        }
        rec.finish(json!({}));
        return;
    }
    let cases: Vec<Value> = if let Some(c) = &args.cases {
        c.clone()
    } else {
        let mut c: Vec<Value> = args.gen.iter().chain(args.witnesses.iter()).cloned().collect();
        c.extend(gen_cases(args.thorough(), args.seed));
        c
    };
    // run in parallel (thread-local allocation counters), write sequentially
    let nthreads = std::thread::available_parallelism().map(|n| n.get()).unwrap_or(4).min(16);
    let chunk = (cases.len() + nthreads - 1) / nthreads.max(1);
    let results: Vec<Vec<Vec<Value>>> = std::thread::scope(|sc| {
        let hs: Vec<_> = cases.chunks(chunk.max(1)).map(|ch| sc.spawn(move || ch.iter().map(case_events).collect::<Vec<_>>())).collect();
        hs.into_iter().map(|h| h.join().expect("worker")).collect()
    });
    let mut it = cases.iter();
    for part in results {
        for evs in part {
            let d = it.next().unwrap();
            write_case(&mut rec, d, evs);
        }
    }
    rec.finish(json!({}));
}
