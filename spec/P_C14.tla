------------------------------- MODULE P_C14 -------------------------------
(* Property C14 — text draws the glyph the font's mapping designates, in the  *)
(* right cell.  Property-level predicates over (input, observation); they     *)
(* return sets of failure codes (empty = allowed) and use only the ABSTRACT   *)
(* part of EGFont.                                                            *)
(*                                                                            *)
(* Font observation f: the font record of EGFont plus                         *)
(*   builtin  1 for a font constant of the library, 0 for a custom font       *)
(*   wf       the mapping string is well formed (WellFormedMapping(f.map))    *)
(*   exp      Expand(f.map) when wf, <<>> otherwise                           *)
(*   probes   <<c, i>>: font.glyph_mapping.index(c) returned i                *)
(* Line observation ln: [chars, pos, sty, map]: one line drawn with baseline  *)
(* Top at pos; map = raster of everything the call painted.                   *)
(*                                                                            *)
(* Reading (DESIGN.md §6 C14).  With x, y = pos, n = Len(chars), adv = cw + s,*)
(* W = n adv - s: for the i-th character (from 0) and (dx, dy) inside the     *)
(* cell, the pixel (x + i adv + dx, y + dy) shows the atlas bit of            *)
(* Cell(Index(chars[i])) at (dx, dy): on = text colour, off = background      *)
(* colour, each "untouched" when the colour is not set; the s columns between *)
(* two cells show the background colour; underline and strikethrough cover    *)
(* [x, x + W) x [y + offset, y + offset + height) in their colour, on top of  *)
(* the glyphs; nothing else is touched.  Where both decorations cover a pixel *)
(* either colour is accepted.  A cell that does not lie inside the atlas has  *)
(* no glyph bitmap: its pixels are not constrained (custom fonts only).       *)
EXTENDS EGFont

FontFails(f) ==
     (IF f.builtin = 1 /\ ~f.wf THEN {"builtin_mapping_malformed"} ELSE {})
\cup (IF f.wf /\ \E k \in 1..Len(f.probes) : f.probes[k][2] # IndexIn(f.exp, f.repl, f.probes[k][1])
      THEN {"index_differs_from_mapping"} ELSE {})
\cup (IF f.builtin = 1 /\ f.wf /\ Cardinality({ f.exp[i] : i \in 1..Len(f.exp) }) # Len(f.exp)
      THEN {"builtin_index_not_injective"} ELSE {})
\cup (IF f.builtin = 1 /\ f.wf /\ \E i \in 0..(Len(f.exp) - 1) : ~CellInAtlas(f, i)
      THEN {"builtin_cell_outside_image"} ELSE {})
FontDetail(f) ==
  [font |-> f.name, n |-> Len(f.exp),
   bad_probes |-> IF f.wf THEN { f.probes[k] : k \in { k \in 1..Len(f.probes) : f.probes[k][2] # IndexIn(f.exp, f.repl, f.probes[k][1]) } } ELSE {},
   cells_outside |-> IF f.wf THEN { i \in 0..(Len(f.exp) - 1) : ~CellInAtlas(f, i) } ELSE {}]

\* the evaluation of one line: for every pixel of the hull of what was expected and what was
\* touched, "ok" or the kind of failure
LineKinds(f, ln) ==
  LET n   == Len(ln.chars)
      x   == ln.pos[1]
      y   == ln.pos[2]
      sty == ln.sty
      adv == Advance(f)
      w   == LineWidth(f, n)
      idx == Mat([i \in 1..n |-> IndexIn(f.exp, f.repl, ln.chars[i])])
      cel == Mat([i \in 1..n |-> Cell(f, idx[i])])
      cin == Mat([i \in 1..n |-> CellInAtlas(f, idx[i])])
      ulc == IF n > 0 THEN EffDeco(sty.ulm, sty.ulc, sty.tc) ELSE NoCol
      stc == IF n > 0 THEN EffDeco(sty.stm, sty.stc, sty.tc) ELSE NoCol
      ulr == <<x, y + f.ul[1], w, f.ul[2]>>
      str == <<x, y + f.st[1], w, f.st[2]>>
      h   == Hull(<< <<x, y, w, IF n = 0 THEN 0 ELSE f.ch>>,
                     IF ulc # NoCol THEN ulr ELSE Zero, IF stc # NoCol THEN str ELSE Zero, RBox(ln.map) >>)
      Kind(px, py) ==
        LET obs == RGet(ln.map, px, py)
            rx  == px - x
            ry  == py - y
            inUl == ulc # NoCol /\ InRect(ulr, <<px, py>>)
            inSt == stc # NoCol /\ InRect(str, <<px, py>>)
        IN IF inUl \/ inSt
           THEN IF (inUl /\ obs = ulc) \/ (inSt /\ obs = stc) THEN "ok"
                ELSE IF inUl THEN "underline" ELSE "strikethrough"
           ELSE IF ~(rx >= 0 /\ rx < w /\ ry >= 0 /\ ry < f.ch)
           THEN IF obs = NoCol THEN "ok"
                ELSE IF rx >= w /\ ( (ulc # NoCol /\ obs = ulc /\ ry >= f.ul[1] /\ ry < f.ul[1] + f.ul[2])
                                  \/ (stc # NoCol /\ obs = stc /\ ry >= f.st[1] /\ ry < f.st[1] + f.st[2]) )
                THEN "decoration_too_wide"
                ELSE "touched_outside_line"
           ELSE LET i  == (rx \div adv) + 1
                    dx == rx % adv
                IN IF dx >= f.cw THEN (IF obs = sty.bg THEN "ok" ELSE "spacing")
                   ELSE IF ~cin[i] THEN "ok"
                   ELSE IF AtlasBit(f, cel[i][1] + dx, cel[i][2] + ry) = 1
                        THEN (IF obs = sty.tc THEN "ok" ELSE "glyph_on_pixel")
                        ELSE (IF obs = sty.bg THEN "ok" ELSE "glyph_off_pixel")
  IN [p \in PointsOf(h) |-> Kind(p[1], p[2])]

LineFails(f, ln) ==
  IF ~f.wf \/ f.cw = 0 \/ f.ch = 0 THEN {}
  ELSE LET k == LineKinds(f, ln) IN { k[p] : p \in DOMAIN k } \ {"ok"}

\* diagnostic detail of a failing line (evaluated only when LineFails is non-empty)
LineDetail(f, ln) ==
  LET k == LineKinds(f, ln)
      bad == { p \in DOMAIN k : k[p] # "ok" }
      wide == { p \in bad : k[p] = "decoration_too_wide" }
      first == CHOOSE p \in bad : \A q \in bad : ~RMLess(q, p)
  IN [font |-> f.name, chars |-> ln.chars, pos |-> ln.pos, sty |-> ln.sty, s |-> f.s, n |-> Len(ln.chars),
      nbad |-> Cardinality(bad), first |-> <<first[1], first[2], k[first], RGet(ln.map, first[1], first[2])>>,
      extra |-> IF wide = {} THEN 0
                ELSE SetMax({ p[1] : p \in wide }) - (ln.pos[1] + LineWidth(f, Len(ln.chars))) + 1]

\* cells of the line that have no bitmap (not constrained); counted in the evidence
UnconstrainedCells(f, ln) ==
  IF ~f.wf \/ f.cw = 0 \/ f.ch = 0 THEN 0
  ELSE Cardinality({ i \in 1..Len(ln.chars) : ~CellInAtlas(f, IndexIn(f.exp, f.repl, ln.chars[i])) })
=============================================================================
