------------------------------- MODULE MC_C06 ------------------------------
(* (M) for C06: the TRANSCRIBED drawing of styled rectangles (the fill         *)
(* rectangle plus four border rectangles of rectangle/styled.rs) and of styled *)
(* circles (StyledScanlines of circle/styled.rs: stroke range of the row from  *)
(* the stroke area, fill range searched inside it, left stroke / fill / right  *)
(* stroke) as machines that issue one target call per step.  When a machine    *)
(* has finished, the pixel map (EGTarget!Apply) must equal the ABSTRACT        *)
(* painting rule over the transcribed fill_area() / stroke_area().             *)
(* Mutant = TRUE: the left/right borders of a rectangle use the full stroke    *)
(* width instead of min(2w, width+1)/2 (negative control).                     *)
EXTENDS EGStyled, EGCurve, EGTarget
CONSTANTS SMax, WMax, Mutant
VARIABLES shape, st, pc, fb

Styles == { [fill |-> f, stroke |-> s, w |-> w, al |-> al] : f \in {7, -1}, s \in {9, -1}, w \in 0..WMax, al \in 0..2 }
Shapes == { [k |-> "rect", r |-> <<-1, 2, w, h>>] : w \in 0..SMax, h \in 0..SMax }
     \cup { [k |-> "circle", tl |-> <<1, -2>>, d |-> d] : d \in 0..(SMax + 2) }
Huge == <<-60, -60, 120, 120>>

RCalls == LET c == RectCalls(shape.r, st) IN
          IF Mutant /\ Len(c) >= 4
          THEN [c EXCEPT ![Len(c) - 1] = << <<c[Len(c) - 1][1][1], c[Len(c) - 1][1][2], st.w, c[Len(c) - 1][1][4]>>, c[Len(c) - 1][2] >>]
          ELSE c
\* circle: rows of the stroke area
SA == CircleOffsetT(shape.tl, shape.d, OutsideW(st))
FA == CircleOffsetT(shape.tl, shape.d, -InsideW(st))
C2x(a) == <<2 * a[1][1] + SatSubU(a[2], 1), 2 * a[1][2] + SatSubU(a[2], 1)>>
Dist2(c, x, yy) == (2 * x - c[1]) * (2 * x - c[1]) + (2 * yy - c[2]) * (2 * yy - c[2])
\* circle/points.rs Scanlines::next and circle/styled.rs StyledScanlines::next for row yy:
\* <<stroke start, stroke end, fill start, fill end>> (ends exclusive), <<>> if the row is empty
StyledRow(yy) ==
  LET cols == SA[1][1]..(SA[1][1] + SA[2] - 1)
      c == C2x(SA)
      hs == { x \in cols : Dist2(c, x, yy) < DiameterToThreshold(SA[2]) } IN
  IF hs = {} THEN <<>>
  ELSE LET x0 == CHOOSE m \in hs : \A z \in hs : m <= z
           x1 == (SA[1][1] + SA[2]) - (x0 - SA[1][1])
           fs == { x \in x0..(x1 - 1) : Dist2(c, x, yy) < DiameterToThreshold(FA[2]) } IN
       IF fs = {} THEN <<x0, x1, x1, x1>>
       ELSE LET f0 == CHOOSE m \in fs : \A z \in fs : m <= z IN <<x0, x1, f0, x1 - (f0 - x0)>>
Span(yy, a, b, c) == IF a < b THEN << [m |-> "fill_solid", area |-> <<a, yy, b - a, 1>>, color |-> c, colors |-> <<>>, px |-> <<>>] >> ELSE <<>>
RowCalls(yy) ==
  LET r == StyledRow(yy) IN
  IF r = <<>> THEN <<>>
  ELSE CASE HasStroke(st) /\ HasFill(st) -> Span(yy, r[1], r[3], st.stroke) \o Span(yy, r[3], r[4], st.fill) \o Span(yy, r[4], r[2], st.stroke)
         [] HasStroke(st) /\ ~HasFill(st) -> Span(yy, r[1], r[3], st.stroke) \o Span(yy, r[4], r[2], st.stroke)
         [] OTHER -> <<>>
\* fill only: Scanlines of the fill area
FillRowCalls(yy) ==
  LET cols == FA[1][1]..(FA[1][1] + FA[2] - 1)  c == C2x(FA)
      hs == { x \in cols : Dist2(c, x, yy) < DiameterToThreshold(FA[2]) } IN
  IF hs = {} THEN <<>>
  ELSE LET x0 == CHOOSE m \in hs : \A z \in hs : m <= z IN Span(yy, x0, (FA[1][1] + FA[2]) - (x0 - FA[1][1]), st.fill)

Init == shape \in Shapes /\ st \in Styles /\ pc = 1 /\ fb = EmptyFb
\* rectangle: one fill_solid call per step
RectStep == /\ shape.k = "rect" /\ pc <= Len(RCalls)
            /\ fb' = ApplyFillSolid(fb, Huge, RCalls[pc][1], RCalls[pc][2])
            /\ pc' = pc + 1 /\ UNCHANGED <<shape, st>>
\* circle: one scanline per step (pc counts rows of the stroke area resp. fill area)
CircleRows == IF HasStroke(st) THEN SA[2] ELSE IF HasFill(st) THEN FA[2] ELSE 0
CircleStep == /\ shape.k = "circle" /\ pc <= CircleRows
              /\ LET yy == (IF HasStroke(st) THEN SA[1][2] ELSE FA[1][2]) + pc - 1
                     calls == IF HasStroke(st) THEN RowCalls(yy) ELSE FillRowCalls(yy) IN
                 fb' = ApplyAll(fb, Huge, calls)
              /\ pc' = pc + 1 /\ UNCHANGED <<shape, st>>
Next == RectStep \/ CircleStep
Spec == Init /\ [][Next]_<<shape, st, pc, fb>>

Finished == IF shape.k = "rect" THEN pc > Len(RCalls) ELSE pc > CircleRows
Expected ==
  IF shape.k = "rect"
  THEN ExpectedPaint(st, PointsOf(RectFillArea(shape.r, st)), PointsOf(RectStrokeArea(shape.r, st)))
  ELSE LET region == PointsOf(Grow(<<SA[1][1], SA[1][2], SA[2], SA[2]>>, 1)) IN
       ExpectedPaint(st, { p \in region : CircleContainsT(FA[1], FA[2], p) }, { p \in region : CircleContainsT(SA[1], SA[2], p) })
PaintsByTheAreas == Finished => FbAsSet(fb) = Expected
\* documented geometry of the areas for non-degenerate rectangles
AreasDocumented ==
  (shape.k = "rect" /\ shape.r[3] >= 1 /\ shape.r[4] >= 1 /\ shape.r[3] - 2 * InsideW(st) >= 1 /\ shape.r[4] - 2 * InsideW(st) >= 1) =>
    /\ RectStrokeArea(shape.r, st) = Grow(shape.r, OutsideW(st))
    /\ RectFillArea(shape.r, st) = Grow(shape.r, -InsideW(st))
\* C02 at the design level (checked in every state, i.e. for every prefix of the call sequence): what has been painted
\* lies inside the transcribed styled_bounding_box() = bounding_box().offset(outside stroke width)
\* (rectangle/styled.rs:291, circle/styled.rs:145), and a transparent style paints nothing
StyledBox == Offset(IF shape.k = "rect" THEN shape.r ELSE <<shape.tl[1], shape.tl[2], shape.d, shape.d>>, OutsideW(st))
\* negative control (cfg: StyledBox <- BoxWithoutStroke): the stroke forgotten
BoxWithoutStroke == IF shape.k = "rect" THEN shape.r ELSE <<shape.tl[1], shape.tl[2], shape.d, shape.d>>
InsideStyledBox == DOMAIN fb \subseteq PointsOf(StyledBox)
TransparentPaintsNothing == IsTransparent(st) => fb = EmptyFb
=============================================================================
