P = dict(
    bin="egv_c03", trace="Trace_C03", level="model_checking",
    mc=[dict(module="MC_C03", quick_cfg="MC_C03.cfg", thorough_cfg="MC_C03.cfg"),
        dict(module="MC_C03", quick_cfg="MC_C03_control.cfg", expect_violation=True, coverage=False),
        dict(module="MC_C03", quick_cfg="MC_C03_d22.cfg", expect_violation=True, coverage=False),
        dict(module="MC_C03", thorough_cfg="MC_C03_thorough.cfg", thorough_timeout=3000)],
    drift_checked=True,
    proofs=["Proof_C03"],
    required_events=["stack", "op"],
    level_text="TLC model-checks the transcribed lowering of every adapter (incl. the contiguous::Cropped iterator machine) "
               "against the abstract set-theoretic Effect for all stacks of depth <= 2 over small parameter sets and an "
               "operation alphabet; the explored stacks and alphabet are replayed into the real adapters (native and "
               "draw_iter-only parents) together with seeded stacks of depth <= 3, and TLC validates every recorded "
               "operation: parent content = fb (+) Effect, clip respected, bounding boxes documented",
    level_note="trusted: EGTarget.Apply, EGAdapters abstract part (BoxOf / Effect / Allowed), logging targets; "
               "stacks whose cropped layer misses its parent are only checked for their bounding boxes",
    rule="one case per (parent box, native/default parent, adapter stack, operation list); non-trivial = at least one call "
         "reached the parent; distinct = distinct descriptor",
    trusted=COMMON_TRUSTED + ["spec/EGTarget.tla Apply", "spec/EGAdapters.tla abstract part", "harness/src/targets.rs loggers"],
)
