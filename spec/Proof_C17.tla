----------------------------- MODULE Proof_C17 -----------------------------
(* The inductive invariant of the Bresenham machine (bresenham.rs:140-152 as  *)
(* transcribed in EGLine!BNext) for EVERY line, in major / minor coordinates: *)
(* a = steps made along the major axis, b = steps made along the minor axis,  *)
(* M = |major delta| >= 1, m = |minor delta| <= M.  MC_C17 checks the same    *)
(* statements (ThinErrIsCross, ThinErrorRange, ThinDistOK, ThinEndOK) for the *)
(* lines of a grid.                                                           *)
(*   Inv(a, b, err):  err = 2 (m a - M b)   (twice the cross product with the *)
(*                    ideal line)  and  -M < err <= M + 2 m                   *)
(* One call of next(): if err > M the pending minor step is made (b + 1,      *)
(* err - 2 M); the point (a, b) is returned; then a + 1, err + 2 m.           *)
(* Consequences: every returned point is within half a pixel of the ideal     *)
(* line (|2 cross| <= M), and the point returned at a = M is the end point.   *)
(* Checked with TLAPS (tlapm); not load-bearing for any check.                *)
EXTENDS Integers, TLAPS

Inv(M, m, a, b, err) == err = 2 * (m * a - M * b) /\ -M < err /\ err <= M + 2 * m
Bm(M, b, err) == IF err > M THEN b + 1 ELSE b           \* minor coordinate of the returned point
Ec(M, err) == IF err > M THEN err - 2 * M ELSE err      \* error after the pending correction

THEOREM InitInv ==
  ASSUME NEW M \in Nat, NEW m \in Nat, M >= 1
  PROVE  Inv(M, m, 0, 0, 0)
  BY DEF Inv

THEOREM StepInv ==
  ASSUME NEW M \in Nat, NEW m \in Nat, M >= 1, m <= M,
         NEW a \in Nat, NEW b \in Int, NEW err \in Int, Inv(M, m, a, b, err)
  PROVE  LET b1 == Bm(M, b, err)  e1 == Ec(M, err) IN
         /\ e1 = 2 * (m * a - M * b1) /\ -M < e1 /\ e1 <= M          \* the returned point (a, b1): |2 cross| <= M
         /\ Inv(M, m, a + 1, b1, e1 + 2 * m)                         \* the state after the call
<1>1. CASE err > M
  <2>1. Bm(M, b, err) = b + 1 /\ Ec(M, err) = err - 2 * M
    BY <1>1 DEF Bm, Ec
  <2>2. M * (b + 1) = M * b + M /\ m * (a + 1) = m * a + m
    OBVIOUS
  <2> QED BY <1>1, <2>1, <2>2 DEF Inv
<1>2. CASE ~(err > M)
  <2>1. Bm(M, b, err) = b /\ Ec(M, err) = err
    BY <1>2 DEF Bm, Ec
  <2>2. m * (a + 1) = m * a + m
    OBVIOUS
  <2> QED BY <1>2, <2>1, <2>2 DEF Inv
<1> QED BY <1>1, <1>2

\* the point returned after M major steps is the end point (minor coordinate m)
THEOREM EndsAtEnd ==
  ASSUME NEW M \in Nat, NEW m \in Nat, M >= 1, NEW b1 \in Int, NEW e1 \in Int,
         e1 = 2 * (m * M - M * b1), -M < e1, e1 <= M
  PROVE  b1 = m
<1> DEFINE k == m - b1
<1>1. k \in Int /\ e1 = 2 * (M * k)
  OBVIOUS
<1>2. CASE k >= 1
  <2>1. M * k >= M
    BY <1>2
  <2> QED BY <1>1, <2>1
<1>3. CASE k <= -1
  <2>1. M * k <= -M
    BY <1>3
  <2> QED BY <1>1, <2>1
<1> QED BY <1>1, <1>2, <1>3

\* every returned point lies inside the bounding box of the two end points (the clause of C02 for thin lines, and
\* "connects its end points" of C17): for 0 <= a <= M the minor coordinate of the returned point is in 0 .. m
LEMMA MulLe ==
  ASSUME NEW m \in Nat, NEW a \in Nat, NEW M \in Nat, a <= M
  PROVE  m * a <= m * M
<1>1. PICK k \in Nat : a + k = M
  <2>1. M - a \in Nat /\ a + (M - a) = M  OBVIOUS
  <2> QED BY <2>1
<1>2. m * M = m * a + m * k  BY <1>1
<1>3. m * k >= 0 /\ m * k \in Int /\ m * a \in Int /\ m * M \in Int  OBVIOUS
<1> QED BY <1>2, <1>3

THEOREM ReturnedPointInsideBox ==
  ASSUME NEW M \in Nat, NEW m \in Nat, M >= 1, m <= M, NEW a \in Nat, a <= M,
         NEW b1 \in Int, NEW e1 \in Int, e1 = 2 * (m * a - M * b1), -M < e1, e1 <= M
  PROVE  0 <= b1 /\ b1 <= m
<1>1. PICK P \in Int : P = m * a  OBVIOUS
<1>2. PICK Q \in Int : Q = M * b1  OBVIOUS
<1>3. PICK R \in Int : R = m * M  OBVIOUS
<1>4. 0 <= P /\ P <= R
  <2>1. m * a >= 0  OBVIOUS
  <2>2. m * a <= m * M  BY MulLe
  <2> QED BY <2>1, <2>2, <1>1, <1>3
<1>5. 2 * (P - Q) = e1  BY <1>1, <1>2
<1>6. 0 <= b1
  <2>1. CASE b1 <= -1
    <3>1. M * b1 <= -M  BY <2>1
    <3>2. Q <= -M  BY <3>1, <1>2
    <3> QED BY <3>2, <1>4, <1>5
  <2> QED BY <2>1
<1>7. b1 <= m
  <2>1. CASE b1 >= m + 1
    <3>1. PICK k \in Nat : m + 1 + k = b1
      <4>1. b1 - (m + 1) \in Nat /\ m + 1 + (b1 - (m + 1)) = b1  BY <2>1
      <4> QED BY <4>1
    <3>2. M * b1 = M * m + M + M * k  BY <3>1
    <3>3. M * k >= 0 /\ M * k \in Int /\ M * m \in Int /\ M * m = m * M  OBVIOUS
    <3>4. Q >= R + M  BY <3>2, <3>3, <1>2, <1>3
    <3> QED BY <3>4, <1>4, <1>5
  <2> QED BY <2>1
<1> QED BY <1>6, <1>7
=============================================================================
