CONSTANTS
  Lo <- LoQuick
  Hi = 2
  SMax = 3
  OffMax = 2
  Gen = TRUE
SPECIFICATION Spec
INVARIANTS BinOK UnOK FormsAgree PointsMachineOK
CHECK_DEADLOCK FALSE
