CONSTANTS
  DMax = 32
  NoSwap = FALSE
SPECIFICATION Spec
INVARIANTS InsideTheSweep FullSweepIsCircle
CHECK_DEADLOCK FALSE
