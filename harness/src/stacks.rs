//! Adapter stacks (translated / clipped / cropped / color_converted, depth <= 3) built from JSON.
//!
//! layer descriptors (layer 1 wraps the parent, the last one is the top):
//!   {"k":"tr","o":[dx,dy]}  {"k":"cl","a":[x,y,w,h]}  {"k":"cr","a":[x,y,w,h]}  {"k":"cc"}
//! A `color_converted` layer over a target of colour type C has colour type `C::Up`
//! (chain Rgb888 <- Gray8 <- Gray2 <- BinaryColor), so every nesting has a static type.

use crate::drawables::ImgCol;
use crate::targets::FaultErr;
use crate::util::*;
use embedded_graphics::{
    image::{ImageDrawable, ImageRaw},
    pixelcolor::*,
    prelude::*,
    primitives::Rectangle,
};
use serde_json::{json, Value};

pub trait Chain: ImgCol {
    type Up: Chain + Into<Self>;
}
impl Chain for Rgb888 {
    type Up = Gray8;
}
impl Chain for Gray8 {
    type Up = Gray2;
}
impl Chain for Gray2 {
    type Up = BinaryColor;
}
impl Chain for BinaryColor {
    type Up = BinaryColor;
}

/// Called with the top of the stack (and, on the way up, with every layer's bounding box).
pub trait StackVisitor {
    fn layer_box(&mut self, _level: usize, _bbox: Rectangle) {}
    /// conversion table of a `cc` layer: [[from_raw, to_raw], ...]
    fn cmap(&mut self, _level: usize, _table: Value) {}
    fn top<T, C>(&mut self, t: &mut T)
    where
        T: DrawTarget<Color = C, Error = FaultErr>,
        C: Chain,
        for<'a> ImageRaw<'a, C>: ImageDrawable<Color = C>;
}

fn cmap_table<Src: Col + Into<Dst>, Dst: Col>() -> Value {
    let n = 1u32 << Src::BITS.min(8);
    Value::Array((0..n).map(|v| json!([v, Into::<Dst>::into(Src::from_u32(v)).raw()])).collect())
}

macro_rules! level_fn {
    ($name:ident, $next:ident) => {
        pub fn $name<T, C, V>(t: &mut T, layers: &[Value], level: usize, v: &mut V)
        where
            T: DrawTarget<Color = C, Error = FaultErr>,
            C: Chain,
            V: StackVisitor,
            for<'a> ImageRaw<'a, C>: ImageDrawable<Color = C>,
            for<'a> ImageRaw<'a, C::Up>: ImageDrawable<Color = C::Up>,
            for<'a> ImageRaw<'a, <C::Up as Chain>::Up>: ImageDrawable<Color = <C::Up as Chain>::Up>,
            for<'a> ImageRaw<'a, <<C::Up as Chain>::Up as Chain>::Up>: ImageDrawable<Color = <<C::Up as Chain>::Up as Chain>::Up>,
        {
            v.layer_box(level, t.bounding_box());
            if layers.is_empty() {
                v.top(t);
                return;
            }
            let ly = &layers[0];
            match ly["k"].as_str().unwrap() {
                "tr" => {
                    let mut a = t.translated(pt_from(&ly["o"]));
                    $next::<_, C, V>(&mut a, &layers[1..], level + 1, v)
                }
                "cl" => {
                    let mut a = t.clipped(&rect_from(&ly["a"]));
                    $next::<_, C, V>(&mut a, &layers[1..], level + 1, v)
                }
                "cr" => {
                    let mut a = t.cropped(&rect_from(&ly["a"]));
                    $next::<_, C, V>(&mut a, &layers[1..], level + 1, v)
                }
                "cc" => {
                    v.cmap(level + 1, cmap_table::<C::Up, C>());
                    let mut a = t.color_converted::<C::Up>();
                    $next::<_, C::Up, V>(&mut a, &layers[1..], level + 1, v)
                }
                k => panic!("unknown layer kind {}", k),
            }
        }
    };
}

pub fn level0<T, C, V>(t: &mut T, layers: &[Value], level: usize, v: &mut V)
where
    T: DrawTarget<Color = C, Error = FaultErr>,
    C: Chain,
    V: StackVisitor,
    for<'a> ImageRaw<'a, C>: ImageDrawable<Color = C>,
{
    assert!(layers.is_empty(), "adapter stacks deeper than 3 are not instantiated");
    v.layer_box(level, t.bounding_box());
    v.top(t);
}

// the HRTB where-clauses differ per level (fewer `Up`s are needed further up), so the levels are
// written with the same macro but the innermost ones simply carry unused bounds
level_fn!(level1, level0);
level_fn!(level2, level1);
level_fn!(level3, level2);

/// Build `layers` over `parent` (colour type Rgb888) and visit the top.
pub fn with_stack<T, V>(parent: &mut T, layers: &[Value], v: &mut V)
where
    T: DrawTarget<Color = Rgb888, Error = FaultErr>,
    V: StackVisitor,
{
    assert!(layers.len() <= 3);
    level3::<T, Rgb888, V>(parent, layers, 0, v)
}
