----------------------------- MODULE Proof_C05 -----------------------------
(* The inductive invariant of rectangle::Points (core/src/primitives/rectangle *)
(* /points.rs:44-57 as transcribed in EGGeom!PointsInit / PointsNext) for      *)
(* EVERY non-empty rectangle: the k-th point returned (k = r w + c) is         *)
(* (left + c, top + r) - the points of the rectangle in row-major order, each  *)
(* once - and the iterator ends after exactly w h points.  MC_C16 checks the   *)
(* same for the rectangles of a grid (PointsMachineOK).                        *)
(*   state: xs = x.start, ys = y.start (the two Range<i32> with fixed ends     *)
(*          xe = left + w, ye = top + h), x_start = left;                      *)
(*   ghost: (r, c) = row and column of the next point.                         *)
(* One call of next(): while ys < ye: if xs < xe return (xs, ys) and xs + 1;   *)
(* otherwise ys + 1, xs = left and loop.                                       *)
(* Checked with TLAPS (tlapm); not load-bearing for any check.                 *)
EXTENDS Integers, TLAPS

Inv(left, top, w, h, xs, ys, r, c) ==
  /\ r \in 0..h /\ c \in 0..w
  /\ xs = left + c /\ ys = top + r
  /\ (r = h => c = 0)

THEOREM InitInv ==
  ASSUME NEW left \in Int, NEW top \in Int, NEW w \in Nat, NEW h \in Nat, w >= 1, h >= 1
  PROVE  Inv(left, top, w, h, left, top, 0, 0)
  BY DEF Inv

\* a loop iteration that returns a point: the point of (row r, column c), then column c + 1
THEOREM StepReturn ==
  ASSUME NEW left \in Int, NEW top \in Int, NEW w \in Nat, NEW h \in Nat, w >= 1, h >= 1,
         NEW xs \in Int, NEW ys \in Int, NEW r \in Int, NEW c \in Int,
         Inv(left, top, w, h, xs, ys, r, c), ys < top + h, xs < left + w
  PROVE  /\ r < h /\ c < w /\ xs = left + c /\ ys = top + r
         /\ Inv(left, top, w, h, xs + 1, ys, r, c + 1)
  BY DEF Inv

\* a loop iteration at the end of a row: next row, first column (no point is returned by this iteration)
THEOREM StepNextRow ==
  ASSUME NEW left \in Int, NEW top \in Int, NEW w \in Nat, NEW h \in Nat, w >= 1, h >= 1,
         NEW xs \in Int, NEW ys \in Int, NEW r \in Int, NEW c \in Int,
         Inv(left, top, w, h, xs, ys, r, c), ys < top + h, ~(xs < left + w)
  PROVE  c = w /\ Inv(left, top, w, h, left, ys + 1, r + 1, 0)
  BY DEF Inv

\* the loop ends (next() returns None) exactly after the last row: w h points have been returned
THEOREM EndsAfterAllPoints ==
  ASSUME NEW left \in Int, NEW top \in Int, NEW w \in Nat, NEW h \in Nat, w >= 1, h >= 1,
         NEW xs \in Int, NEW ys \in Int, NEW r \in Int, NEW c \in Int,
         Inv(left, top, w, h, xs, ys, r, c), ~(ys < top + h)
  PROVE  r = h /\ c = 0 /\ r * w + c = w * h
<1>1. r = h /\ c = 0
  BY DEF Inv
<1> QED BY <1>1

\* row-major order: the point of (r, c + 1) and the first point of row r + 1 come after the point of (r, c)
RMLess(p, q) == p[2] < q[2] \/ (p[2] = q[2] /\ p[1] < q[1])
THEOREM RowMajorOrder ==
  ASSUME NEW left \in Int, NEW top \in Int, NEW w \in Nat, NEW r \in Nat, NEW c \in Nat, c < w
  PROVE  /\ RMLess(<<left + c, top + r>>, <<left + c + 1, top + r>>)
         /\ RMLess(<<left + c, top + r>>, <<left, top + r + 1>>)
  BY DEF RMLess
=============================================================================
