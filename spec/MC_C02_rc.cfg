CONSTANTS
  SMax = 6
  WMax = 5
  Mutant = FALSE
SPECIFICATION Spec
INVARIANTS InsideStyledBox TransparentPaintsNothing
CHECK_DEADLOCK FALSE
