CONSTANTS
  WMax = 5
  HMax = 4
  BppSet = {1, 2, 8}
  Variant = "patched"
  Gen = TRUE
SPECIFICATION Spec
INVARIANTS DrawOK StreamOK EndsOK PixelTOK NewTOK ChainOK
CHECK_DEADLOCK FALSE
