CONSTANTS
  G = 2
  Rounding = "away"
SPECIFICATION Spec
INVARIANTS DenominatorInvariant Equivariant
CHECK_DEADLOCK FALSE
