------------------------------- MODULE MC_C20 ------------------------------
(* (M) + (G) for C20.  The MockDisplay machine of EGMock is explored on a      *)
(* SIZE x SIZE abstraction (SIZE = 3): two displays (the display under test d *)
(* and a reference display rf that is produced by clone / exchanged by swap), *)
(* one action per mutating MockDisplay operation.  The statements of the      *)
(* property (P_C20) are invariants / step properties of the machine.          *)
(*   MC_C20.cfg               machine, alphabet "small" (three cells, a point *)
(*                            beyond each side, 21 operations), UNBOUNDED     *)
(*                            histories: VIEW hides the bookkeeping, the      *)
(*                            complete state graph has 11 664 states          *)
(*   MC_C20_thorough.cfg      machine, alphabet "grid" (every cell, the whole *)
(*                            ring around the display), histories <= 5        *)
(*   MC_C20_gen*.cfg          alphabet "gen" (a fourth cell in the pixel      *)
(*                            lists); every history of length MaxDepth is a   *)
(*                            state and is printed as one GEN descriptor      *)
(*                            (coordinates mapped onto corners / edges of the *)
(*                            real 64 x 64 display, colours onto the extreme  *)
(*                            colours of one of the 12 colour types) that     *)
(*                            egv_c20 replays into the real MockDisplay;      *)
(*                            plus pattern descriptors over every character   *)
EXTENDS P_C20, TLC, Json, SequencesExt
CONSTANTS MaxDepth,     \* histories up to this length (Next is guarded, no CONSTRAINT)
          Gen,          \* TRUE: keep the history and print GEN lines
          GenMod,       \* print one of GenMod histories (deterministic subset)
          Alphabet      \* "small" | "gen" | "grid"
VARIABLES d, rf, last, depth, hist, hh
vars == <<d, rf, last, depth, hist, hh>>

Grid == PointsOf(DisplayArea)
Ring == PointsOf(Grow(DisplayArea, 1)) \ Grid
Colours == {0, 1}
Mx == SIZE - 1

---------------------------------------------------------------------------
(* alphabets: sequences of abstract operations *)
Dr(px)   == [o |-> "d", px |-> px]                 \* draw_iter(px)
St(p, c) == [o |-> "s", p |-> p, c |-> c]          \* set_pixel(p, Some(c) / None)
Tv == [o |-> "v"]                                 \* set_allow_overdraw(toggle)
Tb == [o |-> "b"]                                 \* set_allow_out_of_bounds_drawing(toggle)
Cl == [o |-> "c"]                                 \* reference := display.clone()
Sw == [o |-> "x"]                                 \* swap(display, reference)
Px(p, c) == <<p[1], p[2], c>>

\* three cells that are extreme in different directions (MapX / MapY below send them to (31,0),
\* (63,63) = the last cell and (0,32)), the first cell Q, one point beyond each side
P0 == <<1, 0>>   P1 == <<Mx, Mx>>   P2 == <<0, 1>>   Q == <<0, 0>>
OutL == <<-1, 1>>   OutR == <<SIZE, 1>>   OutT == <<1, -1>>   OutB == <<1, SIZE>>

\* q = the point used by the two list operations that may touch a fourth cell
OpsWith(q) ==
  << Dr(<<Px(P0, 0)>>), Dr(<<Px(P0, 1)>>), Dr(<<Px(P1, 0)>>), Dr(<<Px(P1, 1)>>), Dr(<<Px(P2, 0)>>), Dr(<<Px(P2, 1)>>),
     Dr(<<Px(OutL, 0)>>), Dr(<<Px(OutR, 0)>>), Dr(<<Px(OutT, 0)>>), Dr(<<Px(OutB, 0)>>),
     Dr(<<Px(q, 0), Px(q, 1)>>),                       \* the same point twice in one call
     Dr(<<Px(P1, 0), Px(OutR, 0), Px(P2, 1)>>),        \* inside, outside, inside
     Dr(<<Px(P2, 1), Px(P1, 1)>>),
     Dr(<<Px(OutB, 1), Px(q, 1)>>),                    \* outside first
     St(P0, NoColour), St(P1, NoColour), St(P2, 1),
     Tv, Tb, Cl, Sw >>
SmallOps == OpsWith(P0)     \* three cells: the complete state graph stays small (11 664 states)
GenOps == OpsWith(Q)        \* four cells, for the depth-bounded generation of histories

GridOps ==
     SetToSeq({ Dr(<<Px(p, c)>>) : p \in Grid, c \in Colours })
  \o SetToSeq({ Dr(<<Px(p, 0)>>) : p \in Ring })
  \o SetToSeq({ Dr(<<Px(p, 0), Px(q, 1)>>) : p \in {P0, OutL}, q \in {P0, P1, OutB} })
  \o SetToSeq({ St(p, NoColour) : p \in Grid })
  \o << St(P2, 1), Tv, Tb, Cl, Sw >>

Ops == IF Alphabet = "small" THEN SmallOps ELSE IF Alphabet = "gen" THEN GenOps ELSE GridOps

\* effect of an operation: [d, rf, out]
Apply(op, a, b) ==
  CASE op.o = "d" -> LET r == DrawIter(a, op.px) IN [d |-> r.st, rf |-> b, out |-> r.out]
    [] op.o = "s" -> LET r == SetPixel(a, op.p, op.c) IN [d |-> r.st, rf |-> b, out |-> r.out]
    [] op.o = "v" -> [d |-> SetAllowOverdraw(a, ~a.ovr), rf |-> b, out |-> OutOk]
    [] op.o = "b" -> [d |-> SetAllowOutOfBounds(a, ~a.oob), rf |-> b, out |-> OutOk]
    [] op.o = "c" -> [d |-> a, rf |-> a, out |-> OutOk]
    [] op.o = "x" -> [d |-> b, rf |-> a, out |-> OutOk]

---------------------------------------------------------------------------
(* (G): descriptors for the real 64 x 64 display *)
Real == 64
MapC(v, mid) == IF v < 0 THEN v ELSE IF v = 0 THEN 0 ELSE IF v = Mx THEN Real - 1
                ELSE IF v >= SIZE THEN Real + (v - SIZE) ELSE mid
MapX(v) == MapC(v, 31)
MapY(v) == MapC(v, 32)
\* the two model colours are the smallest and the largest colour of the character set
Pal(ct, c) == LET cs == { e[2] : e \in CharTable(ct) } IN IF c = 0 THEN SetMin(cs) ELSE SetMax(cs)
GenCTs == SetToSeq(ColourTypes)
\* operation with the flag value resolved against the pre-state (what the recorder replays)
Resolve(op, a) ==
  CASE op.o = "v" -> [o |-> "v", b |-> IF a.ovr THEN 0 ELSE 1]
    [] op.o = "b" -> [o |-> "b", b |-> IF a.oob THEN 0 ELSE 1]
    [] OTHER -> op
JsonOp(op, ct) ==
  CASE op.o = "d" -> <<"d", [i \in 1..Len(op.px) |-> <<MapX(op.px[i][1]), MapY(op.px[i][2]), Pal(ct, op.px[i][3])>>]>>
    [] op.o = "s" -> <<"s", MapX(op.p[1]), MapY(op.p[2]), IF op.c = NoColour THEN -1 ELSE Pal(ct, op.c)>>
    [] op.o = "v" -> <<"v", op.b>>
    [] op.o = "b" -> <<"b", op.b>>
    [] op.o = "c" -> <<"c">>
    [] op.o = "x" -> <<"x">>
HistDesc(h, k) ==
  LET ct == GenCTs[(k % Len(GenCTs)) + 1] IN
  [k |-> "hist", ct |-> ct, ops |-> [i \in 1..Len(h) |-> JsonOp(h[i], ct)]]

\* pattern descriptors: every character of every colour type; all 2 x 2 patterns over
\* {blank, first, last character}
PatDesc(ct, rows) == [k |-> "pat", ct |-> ct, rows |-> rows]
\* (an operator with a parameter: TLC evaluates constant definitions without parameters eagerly)
GenPatterns(cts) ==
  \A ct \in cts :
    LET chs == SetToSeq({ e[1] : e \in CharTable(ct) })
        a == Pal(ct, 0)  b == Pal(ct, 1)
        abc == { Blank, CharOf(ct, a), CharOf(ct, b) }
    IN /\ PrintT("GEN " \o ToJson(PatDesc(ct, <<chs>>)))
       /\ PrintT("GEN " \o ToJson(PatDesc(ct, <<chs \o <<Blank>>, <<Blank>> \o chs>>)))
       /\ \A i \in 1..Len(chs) : PrintT("GEN " \o ToJson(PatDesc(ct, <<<<chs[i]>>>>)))
       /\ \A f \in [1..4 -> abc] : PrintT("GEN " \o ToJson(PatDesc(ct, <<<<f[1], f[2]>>, <<f[3], f[4]>>>>)))

---------------------------------------------------------------------------
Init == /\ d = New /\ rf = New
        /\ last = [i |-> 0, out |-> OutOk]
        /\ depth = 0 /\ hist = <<>> /\ hh = 0
        /\ (Gen => GenPatterns(ColourTypes))

Step(i) ==
  LET op == Ops[i]  r == Apply(op, d, rf) IN
  /\ d' = r.d /\ rf' = r.rf
  /\ last' = [i |-> i, out |-> r.out]
  /\ depth' = depth + 1
  /\ IF Gen
     THEN /\ hist' = Append(hist, Resolve(op, d))
          /\ hh' = (hh * 31 + i) % 1000003
          /\ IF depth' = MaxDepth /\ hh' % GenMod = 0
             THEN PrintT("GEN " \o ToJson(HistDesc(hist', hh' \div GenMod)))
             ELSE TRUE
     ELSE hist' = hist /\ hh' = hh

Next == depth < MaxDepth /\ \E i \in 1..Len(Ops) : Step(i)
Spec == Init /\ [][Next]_vars

MachineView == <<d, rf>>
DepthView == <<d, rf, depth>>

---------------------------------------------------------------------------
(* invariants = the statements of the property *)

TypeOK ==
  /\ \A s \in {d, rf} : /\ DOMAIN s.cells \subseteq Grid          \* nothing is ever stored outside
                        /\ \A p \in DOMAIN s.cells : s.cells[p] \in Colours
                        /\ s.ovr \in BOOLEAN /\ s.oob \in BOOLEAN

\* eq <=> all SIZE x SIZE cells agree (flags ignored), in both directions
EqIffCellsAgree ==
  /\ Eq(d, rf) = CellsAgreeFull(d.cells, rf.cells)
  /\ Eq(rf, d) = Eq(d, rf)
  /\ CellsAgree(d.cells, rf.cells) = CellsAgreeFull(d.cells, rf.cells)
\* diff empty <=> eq; documented colours cell by cell
DiffOK ==
  LET df == Diff(d, rf) IN
  /\ (DOMAIN df = {}) = Eq(d, rf)
  /\ \A p \in Grid :
       LET a == GetPixel(d, p)  b == GetPixel(rf, p) IN
       Get(df, p) = (IF a = b THEN NoColour ELSE IF b = NoColour THEN DiffGreen
                    ELSE IF a = NoColour THEN DiffRed ELSE DiffBlue)
\* affected_area is the smallest rectangle that contains every touched cell
AreaTight ==
  LET r == AffectedArea(d)  T == DOMAIN d.cells IN
  /\ IsTightBox(d.cells, r)
  /\ T \subseteq PointsOf(r)
  /\ \A q \in { <<x, y, w, h>> : x \in 0..Mx, y \in 0..Mx, w \in 0..SIZE, h \in 0..SIZE } :
       T \subseteq PointsOf(q) => PointsOf(r) \subseteq PointsOf(q)
  /\ (T = {} => r = Zero)
\* the set form of fill_solid (used by the trace spec for clear() and large fills) is the stepped machine
FillFastIsFill ==
  \A a \in { <<x, y, w, h>> : x \in (-1)..Mx, y \in (-1)..Mx, w \in 0..(SIZE + 1), h \in 0..(SIZE + 1) } :
    LET f == FillSolidFast(d, a, 1)  g == FillSolid(d, a, 1) IN f.st = g.st /\ f.out = g.out /\ f.at = g.at
\* the machine's own observations satisfy the property-level predicate of the trace spec
OutsideProbes == { <<SIZE, 0>>, <<0, SIZE>>, <<-1, 1>>, <<SIZE, SIZE - 1>>, <<SIZE + 1, 1>>, <<-1, -1>> }
OutsideSeq(pinned) ==
  SetToSeq({ <<p[1], p[2], LET v == IF pinned THEN GetPixelPinnedT(d, p) ELSE GetPixelT(d, p) IN
                           IF v = NoColour THEN 0 ELSE IF v = PanicV THEN 2 ELSE 1>> : p \in OutsideProbes })
MachineObs ==
  [cells |-> Triples(d.cells), ref |-> Triples(rf.cells), aa |-> AffectedArea(d), raa |-> AffectedArea(rf),
   eq |-> IF Eq(d, rf) THEN 1 ELSE 0, eqr |-> IF Eq(rf, d) THEN 1 ELSE 0, ne |-> IF Eq(d, rf) THEN 0 ELSE 1,
   diff |-> Triples(Diff(d, rf)),
   outside |-> OutsideSeq(FALSE),
   daa |-> AffectedAreaOf(Diff(d, rf)), sw |-> Triples(SwapXY(d.cells)), swaa |-> AffectedAreaOf(SwapXY(d.cells)),
   mp |-> Triples(d.cells), mpaa |-> AffectedArea(d)]
ObsOK == ObsFails(d, rf, MachineObs) = {}
\* negative control (MC_C20_d25.cfg): get_pixel as it was before the repair D25 must be refuted
ObsOKPinned == ObsFails(d, rf, [MachineObs EXCEPT !.outside = OutsideSeq(TRUE)]) = {}
\* Debug -> from_pattern gives the display back whenever every colour has a character
\* (BinaryColor: both model colours; Gray8: colour 1 has none)
PatternBack ==
  \A ct \in {"BinaryColor", "Gray4", "Gray8", "Rgb565"} :
    LET T == Triples(d.cells)
        fp == FromPattern(ct, DebugText(ct, d.cells))
    IN /\ DebugBackFails(ct, T, fp.out, fp.cells) = {}
       /\ AllHaveChar(ct, T) => (fp.out = OutOk /\ fp.cells = T)
       /\ ~AllHaveChar(ct, T) => fp.out = OutOther
\* every text of at most 2 x 2 characters over {blank, '.', '#'} and of at most SIZE x SIZE
\* characters over {blank, '#'} round-trips (checked once, in the initial state)
TextsOver(syms, N) ==
  UNION { { [n |-> n, w |-> [i \in 1..n |-> w],
             chars |-> { <<p[1], p[2], f[p]>> : p \in { q \in DOMAIN f : f[q] # Blank } }] :
            f \in [{ <<x, y>> : x \in 0..(w - 1), y \in 0..(n - 1) } -> syms] } :
          n \in 0..N, w \in 0..N }
PatTexts == TextsOver({Blank, 46, 35}, 2) \cup TextsOver({Blank, 35}, SIZE)
PatternDomain ==
  depth = 0 =>
    \A t \in PatTexts :
      LET fp == FromPattern("BinaryColor", t)
          dbg == DebugText("BinaryColor", CellsOfTriples(fp.cells))
      IN /\ ValidPattern("BinaryColor", t) /\ fp.out = OutOk
         /\ dbg.chars = t.chars
         /\ PatternFails("BinaryColor", t, fp.out, dbg.chars) = {}
         /\ FromPattern("BinaryColor", dbg).cells = fp.cells

(* step properties: one operation, pre-state -> post-state *)
StepOK ==
  last'.i # 0 /\ depth' = depth + 1 =>
  LET op == Ops[last'.i] IN
  CASE op.o = "d" ->
         /\ (last'.out # OutOk) = ShouldPanic(d, op.px)            \* panics exactly when ...
         /\ DrawFails(d, op.px, last'.out) = {}
         /\ d'.cells = AfterDraw(d, op.px)                         \* get_pixel = colour last drawn
         /\ \A p \in Grid : GetPixel(d', p) = Get(AfterDraw(d, op.px), p)
         /\ d'.ovr = d.ovr /\ d'.oob = d.oob /\ rf' = rf
    [] op.o = "s" ->
         /\ last'.out = OutOk
         /\ \A p \in Grid : GetPixel(d', p) = IF p = op.p THEN op.c ELSE GetPixel(d, p)
         /\ d'.ovr = d.ovr /\ d'.oob = d.oob /\ rf' = rf
    [] op.o = "v" -> d' = [d EXCEPT !.ovr = ~d.ovr] /\ rf' = rf
    [] op.o = "b" -> d' = [d EXCEPT !.oob = ~d.oob] /\ rf' = rf
    [] op.o = "c" -> d' = d /\ rf' = d
    [] op.o = "x" -> d' = rf /\ rf' = d
StepProp == [][StepOK]_vars
=============================================================================
