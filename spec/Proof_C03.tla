----------------------------- MODULE Proof_C03 -----------------------------
(* Unbounded (all integers) version of the invariant UnsignedOK that MC_C03   *)
(* checks on a grid: the unsigned fields of the contiguous::Cropped machine   *)
(* (initial skip, row skip, width, height) are never negative - for EVERY     *)
(* stream size and EVERY crop area - with the constructor as repaired by D22, *)
(* and the row skip CAN be negative with the constructor as it was before.    *)
(* The intersection is the library's (Rectangle::intersection returns a zero  *)
(* sized rectangle unchanged if its corner lies inside the other rectangle),  *)
(* written with explicit emptiness tests instead of the Option of             *)
(* bottom_right().  Checked with TLAPS (tlapm); not load-bearing for a check. *)
EXTENDS Integers, TLAPS

Max(a, b) == IF a >= b THEN a ELSE b
Min(a, b) == IF a <= b THEN a ELSE b
IsRect(r) == r[1] \in Int /\ r[2] \in Int /\ r[3] \in Nat /\ r[4] \in Nat
Empty(r) == r[3] = 0 \/ r[4] = 0
\* contains() of a non-empty rectangle
Has(r, x, y) == x >= r[1] /\ y >= r[2] /\ x <= r[1] + r[3] - 1 /\ y <= r[2] + r[4] - 1
\* Rectangle::intersection (core/src/primitives/rectangle/mod.rs:221), for a = the stream area <<0, 0, w, h>>
Inter(a, b) ==
  IF ~Empty(a) /\ ~Empty(b)
  THEN LET l == Max(a[1], b[1])  r == Min(a[1] + a[3] - 1, b[1] + b[3] - 1)
           t == Max(a[2], b[2])  d == Min(a[2] + a[4] - 1, b[2] + b[4] - 1)
       IN IF l <= r /\ t <= d THEN <<l, t, r - l + 1, d - t + 1>> ELSE <<0, 0, 0, 0>>
  ELSE IF Empty(a) /\ ~Empty(b) THEN (IF Has(b, a[1], a[2]) THEN a ELSE <<0, 0, 0, 0>>)
  ELSE IF ~Empty(a) /\ Empty(b) THEN (IF Has(a, b[1], b[2]) THEN b ELSE <<0, 0, 0, 0>>)
  ELSE <<0, 0, 0, 0>>

\* Cropped::new (src/iterator/contiguous.rs:68-90): [pos, w, h, rowSkip]
CroppedNew(w, h, crop, fixed) ==
  LET ca == Inter(<<0, 0, w, h>>, crop)
      cw == IF fixed THEN Min(ca[3], w) ELSE ca[3]
      ch == IF fixed THEN Min(ca[4], h) ELSE ca[4]
  IN [pos |-> ca[2] * w + ca[1], w |-> cw, h |-> ch, rowSkip |-> w - cw]

LEMMA InterCorner ==
  ASSUME NEW w \in Nat, NEW h \in Nat, NEW b, IsRect(b)
  PROVE  LET ca == Inter(<<0, 0, w, h>>, b) IN ca[1] \in Nat /\ ca[2] \in Nat /\ ca[3] \in Nat /\ ca[4] \in Nat
  BY DEF Inter, Empty, Has, Max, Min, IsRect

THEOREM UnsignedOKForAll ==
  ASSUME NEW w \in Nat, NEW h \in Nat, NEW b, IsRect(b)
  PROVE  LET st == CroppedNew(w, h, b, TRUE) IN st.pos >= 0 /\ st.w >= 0 /\ st.h >= 0 /\ st.rowSkip >= 0
<1> DEFINE ca == Inter(<<0, 0, w, h>>, b)
<1>1. ca[1] \in Nat /\ ca[2] \in Nat /\ ca[3] \in Nat /\ ca[4] \in Nat
  BY InterCorner
<1>2. ca[2] * w + ca[1] >= 0
  BY <1>1
<1>3. Min(ca[3], w) \in Nat /\ Min(ca[4], h) \in Nat /\ w - Min(ca[3], w) >= 0
  BY <1>1 DEF Min
<1> QED BY <1>2, <1>3 DEF CroppedNew

\* the defect D22: before the repair the row skip is negative for a 1 pixel wide stream and a 2 x 0 crop area
THEOREM PinnedRowSkipNegative ==
  CroppedNew(1, 1, <<0, 0, 2, 0>>, FALSE).rowSkip = -1
  BY DEF CroppedNew, Inter, Empty, Has, Max, Min

(* The inductive invariant of the Cropped iterator (contiguous.rs:93-118) for EVERY crop size cw x ch >= 1 x 1, *)
(* initial skip I and row skip s: the colour of crop row r, column c is the item I + r (cw + s) + c of the       *)
(* underlying stream - with I = cy W + cx and s = W - cw that is the stream position of point (cx + c, cy + r)  *)
(* of the W wide area - and the cropped stream ends after cw ch colours.                                          *)
(*   state: x, y (counters of the struct), idx = position of the underlying stream;  ghost: none needed, the     *)
(*   counters are the column (x = colours delivered in the current row) and the row.                             *)
CInv(cw, ch, I, s, x, y, idx) ==
  /\ x \in 0..cw /\ y \in 0..(ch - 1)
  /\ idx = I + y * (cw + s) + x

THEOREM CroppedInit ==
  ASSUME NEW cw \in Nat, NEW ch \in Nat, cw >= 1, ch >= 1, NEW I \in Nat, NEW s \in Nat
  PROVE  CInv(cw, ch, I, s, 0, 0, I)
  BY DEF CInv

\* next() with x < width: the underlying next()
THEOREM CroppedStepInRow ==
  ASSUME NEW cw \in Nat, NEW ch \in Nat, cw >= 1, ch >= 1, NEW I \in Nat, NEW s \in Nat,
         NEW x \in Int, NEW y \in Int, NEW idx \in Int, CInv(cw, ch, I, s, x, y, idx), x < cw
  PROVE  /\ idx = I + y * (cw + s) + x                  \* colour (row y, column x) comes from this position
         /\ CInv(cw, ch, I, s, x + 1, y, idx + 1)
  BY DEF CInv

\* next() with x = width and another row: the underlying nth(row_skip)
THEOREM CroppedStepNextRow ==
  ASSUME NEW cw \in Nat, NEW ch \in Nat, cw >= 1, ch >= 1, NEW I \in Nat, NEW s \in Nat,
         NEW x \in Int, NEW y \in Int, NEW idx \in Int, CInv(cw, ch, I, s, x, y, idx), x = cw, y + 1 < ch
  PROVE  /\ idx + s = I + (y + 1) * (cw + s) + 0        \* colour (row y + 1, column 0) comes from this position
         /\ CInv(cw, ch, I, s, 1, y + 1, idx + s + 1)
<1>1. (y + 1) * (cw + s) = y * (cw + s) + cw + s
  OBVIOUS
<1> QED BY <1>1 DEF CInv

\* next() with x = width in the last row returns None: cw ch colours have been delivered
THEOREM CroppedEnds ==
  ASSUME NEW cw \in Nat, NEW ch \in Nat, cw >= 1, ch >= 1, NEW I \in Nat, NEW s \in Nat,
         NEW x \in Int, NEW y \in Int, NEW idx \in Int, CInv(cw, ch, I, s, x, y, idx), x = cw, y + 1 >= ch
  PROVE  y * cw + x = cw * ch
<1>1. y = ch - 1
  BY DEF CInv
<1>2. (ch - 1) * cw + cw = cw * ch
  OBVIOUS
<1> QED BY <1>1, <1>2
=============================================================================
