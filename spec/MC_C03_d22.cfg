CONSTANTS
  Depth = 0
  Gen = FALSE
  Mutant = FALSE
SPECIFICATION Spec
INVARIANTS UnsignedOKPinned
CHECK_DEADLOCK FALSE
