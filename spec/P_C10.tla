------------------------------- MODULE P_C10 -------------------------------
(* Property C10 -- Framebuffer reads back what was written, in the layout of   *)
(* ImageRaw.  Property-level predicate over (framebuffer, expected content m   *)
(* after the operation, bytes before the operation, did the operation address  *)
(* a point inside, OBSERVATION after the operation); returns the set of        *)
(* failure codes.  The expected content is EGFramebuffer.MApply -- "pixel(p)   *)
(* returns the colour most recently written to p, the all-zero colour if never *)
(* written".  Only the ABSTRACT parts of EGFramebuffer / EGImage are used.     *)
(* observation o:                                                              *)
(*   data    the N bytes of data()                                             *)
(*   probes  <<x, y, option>> results of pixel()                               *)
(*   iclip, iccalls  a clip area and the target calls of drawing the same      *)
(*           image on the recording target seen through .clipped(iclip)        *)
(*   isize   size of as_image();  icalls  the target calls of drawing          *)
(*           Image::new(&as_image(), (0,0)) on a recording target (P_C09 call  *)
(*           records)                                                          *)
EXTENDS EGFramebuffer, P_C09

ObsFails(fb, m, before, inside, o) ==
  LET box == FbBox(fb)
      used == BufSize(fb)
      want(q) == m[q]
      exp == [i \in 1..(fb.w * fb.h) |-> m[<<(i - 1) % fb.w, (i - 1) \div fb.w>>]]
  IN   (IF Len(o.data) = fb.n THEN {} ELSE {"data_len"})
  \* pixel(p): the colour most recently written inside, None outside
  \cup (IF \A i \in 1..Len(o.probes) : (o.probes[i][3] = NoneV) = ~InRect(box, <<o.probes[i][1], o.probes[i][2]>>)
        THEN {} ELSE {"pixel_none_iff_outside"})
  \cup (IF \A i \in 1..Len(o.probes) : o.probes[i][3] # NoneV /\ InRect(box, <<o.probes[i][1], o.probes[i][2]>>)
                                       => o.probes[i][3] = Some(m[<<o.probes[i][1], o.probes[i][2]>>])
        THEN {} ELSE {"pixel_readback"})
  \* bytes beyond the used prefix of an oversized buffer are never modified
  \cup (IF Len(o.data) = fb.n /\ SubSeq(o.data, used + 1, fb.n) # SubSeq(before, used + 1, fb.n) THEN {"tail_modified"} ELSE {})
  \* writes outside the area change no byte
  \cup (IF ~inside /\ o.data # before THEN {"outside_write_changed_bytes"} ELSE {})
  \* data()[0..BUFFER_SIZE] is the ImageRaw layout of the content (padding bits are free)
  \cup (IF Len(o.data) = fb.n /\ AbsMap(fb, o.data) # m THEN {"layout"} ELSE {})
  \* as_image(): same size, drawing it reproduces the content
  \cup (IF o.isize = <<fb.w, fb.h>> THEN {} ELSE {"as_image_size"})
  \cup (IF fb.w = 0 \/ fb.h = 0 THEN {}
        ELSE IF FastSem(o.icalls, <<0, 0>>, <<fb.w, fb.h>>, exp) THEN {}
        ELSE IF SemCodes(o.icalls, <<0, 0>>, <<fb.w, fb.h>>, want) = {} THEN {} ELSE {"as_image_draw"})
  \* ... also through a clipped target (the adapter seeks in the image's colour iterator)
  \cup (IF fb.w = 0 \/ fb.h = 0 \/ o.iclip[3] = 0 \/ o.iclip[4] = 0 THEN {}
        ELSE IF SemCodesClip(o.iccalls, <<0, 0>>, <<fb.w, fb.h>>, want, o.iclip) = {} /\ StreamCodes(o.iccalls) = {} THEN {}
        ELSE {"as_image_draw_clipped"})
=============================================================================
