------------------------------- MODULE EGColor ------------------------------
(* The 14 built-in colour types of embedded-graphics, their raw storage       *)
(* representation and the conversions between them.  Constant-level module.   *)
(*                                                                            *)
(*   colour   sequence of channel values: <<r, g, b>> for RGB/BGR types,      *)
(*            <<luma>> for gray types, <<on>> (0/1) for BinaryColor           *)
(*   raw      the storage integer (into_storage / RawUx::into_inner), < 2^24  *)
(*   type     a key of Types                                                  *)
(*                                                                            *)
(* ABSTRACT part (what the properties C12/C13 talk about): the table of       *)
(* channel widths and positions (names of the types, core/src/pixelcolor/     *)
(* rgb_color.rs:232-244 and raw/mod.rs:12-25 "to_be_bytes: the colour         *)
(* components have the same order in memory as in the name of the type"),     *)
(* Pack / Unpack, byte views, Nearest (acceptance rule of channel scaling).   *)
(* TRANSCRIBED part (operators ending in T): rgb_color.rs new/r/g/b/From,     *)
(* conversion.rs convert_channel / luma / thresholds.                         *)
EXTENDS Integers, Sequences, EGInt

\* kind, channel widths (rb, gb, bb | lb), BGR flag, BITS_PER_PIXEL of the raw type
Rgb(rb, gb, bb, bgr, raw) == [kind |-> "rgb", rb |-> rb, gb |-> gb, bb |-> bb, lb |-> 0, bgr |-> bgr, raw |-> raw]
Gray(lb)                  == [kind |-> "gray", rb |-> 0, gb |-> 0, bb |-> 0, lb |-> lb, bgr |-> FALSE, raw |-> lb]
Types ==
  [ BinaryColor |-> [kind |-> "bin", rb |-> 0, gb |-> 0, bb |-> 0, lb |-> 1, bgr |-> FALSE, raw |-> 1],  \* binary_color.rs:121-123
    Gray2  |-> Gray(2), Gray4 |-> Gray(4), Gray8 |-> Gray(8),                  \* gray_color.rs:66-68
    Rgb332 |-> Rgb(3, 3, 2, FALSE, 8),                                         \* rgb_color.rs:232
    Rgb444 |-> Rgb(4, 4, 4, FALSE, 16),                                        \* :234
    Rgb555 |-> Rgb(5, 5, 5, FALSE, 16), Bgr555 |-> Rgb(5, 5, 5, TRUE, 16),     \* :236-237
    Rgb565 |-> Rgb(5, 6, 5, FALSE, 16), Bgr565 |-> Rgb(5, 6, 5, TRUE, 16),     \* :238-239
    Rgb666 |-> Rgb(6, 6, 6, FALSE, 24), Bgr666 |-> Rgb(6, 6, 6, TRUE, 24),     \* :241-242
    Rgb888 |-> Rgb(8, 8, 8, FALSE, 24), Bgr888 |-> Rgb(8, 8, 8, TRUE, 24) ]    \* :243-244
TypeNames == DOMAIN Types
RgbNames  == { n \in TypeNames : Types[n].kind = "rgb" }
GrayNames == { n \in TypeNames : Types[n].kind = "gray" }

IsRgb(t)    == t.kind = "rgb"
NChan(t)    == IF IsRgb(t) THEN 3 ELSE 1
\* width of channel ch (1 = r / luma / on, 2 = g, 3 = b)
ChBits(t, ch) == IF IsRgb(t) THEN (IF ch = 1 THEN t.rb ELSE IF ch = 2 THEN t.gb ELSE t.bb) ELSE t.lb
ChMax(t, ch)  == 2 ^ ChBits(t, ch) - 1
UsedBits(t)   == IF IsRgb(t) THEN t.rb + t.gb + t.bb ELSE t.lb
\* bit position of channel ch: RGB types carry red in the most significant bits, BGR types blue;
\* the channels are adjacent and start at bit 0
ChPos(t, ch) ==
  IF ~IsRgb(t) THEN 0
  ELSE IF t.bgr THEN (IF ch = 1 THEN 0 ELSE IF ch = 2 THEN t.rb ELSE t.rb + t.gb)
  ELSE (IF ch = 1 THEN t.gb + t.bb ELSE IF ch = 2 THEN t.bb ELSE 0)
StorageBytes(t) == IF t.raw <= 8 THEN 1 ELSE t.raw \div 8

IsColor(t, c) == Len(c) = NChan(t) /\ \A ch \in 1..NChan(t) : c[ch] \in 0..ChMax(t, ch)
\* every colour value of a type
Colors(t) == IF IsRgb(t) THEN { <<r, g, b>> : r \in 0..ChMax(t, 1), g \in 0..ChMax(t, 2), b \in 0..ChMax(t, 3) }
             ELSE { <<l>> : l \in 0..ChMax(t, 1) }

-----------------------------------------------------------------------------
(* ABSTRACT: raw representation *)
Pack(t, c) ==
  IF IsRgb(t) THEN c[1] * 2 ^ ChPos(t, 1) + c[2] * 2 ^ ChPos(t, 2) + c[3] * 2 ^ ChPos(t, 3) ELSE c[1]
UnpackCh(t, raw, ch) == (raw \div 2 ^ ChPos(t, ch)) % 2 ^ ChBits(t, ch)
Unpack(t, raw) == [ch \in 1..NChan(t) |-> UnpackCh(t, raw, ch)]
\* raw AND UsedMask: the used bits are the low UsedBits(t) bits
ClearUnused(t, raw) == raw % 2 ^ UsedBits(t)
\* new(r, g, b) / Gray::new(luma): every argument modulo its channel width
NewCh(t, ch, a) == a % 2 ^ ChBits(t, ch)
New(t, args) == [ch \in 1..NChan(t) |-> NewCh(t, ch, args[ch])]
\* the n bytes of x, most / least significant first
BeByte(n, x, k) == (x \div 256 ^ (n - k)) % 256
LeByte(n, x, k) == (x \div 256 ^ (k - 1)) % 256
BeBytes(n, x) == [k \in 1..n |-> BeByte(n, x, k)]
LeBytes(n, x) == [k \in 1..n |-> LeByte(n, x, k)]

-----------------------------------------------------------------------------
(* ABSTRACT: conversions (C13) *)
\* scaling a channel value x of range 0..ma to range 0..mb: y is acceptable iff it is within half
\* a target step of the exactly scaled value x * mb / ma (both neighbours at an exact tie)
Nearest(ma, mb, x, y) == y \in 0..mb /\ 2 * Abs(y * ma - x * mb) <= ma
\* On exactly for the upper half of the luma range
UpperHalf(bits, luma) == luma >= 2 ^ (bits - 1)
\* all ordered pairs of distinct types have a From impl (conversion.rs:58-153: 90 + 6 + 30 + 30 + 13 + 13)
ConvPairs == { <<a, b>> \in TypeNames \X TypeNames : a # b }
\* b has at least as many bits as a in every channel (gray / binary sources: the luma width)
Widens(ta, tb) ==
  IF IsRgb(ta) THEN IsRgb(tb) /\ \A ch \in 1..3 : ChBits(tb, ch) >= ChBits(ta, ch)
  ELSE \A ch \in 1..NChan(tb) : ChBits(tb, ch) >= ta.lb

-----------------------------------------------------------------------------
(* TRANSCRIBED: core/src/pixelcolor/rgb_color.rs (macro impl_rgb_color!) *)
\* u8 / storage arithmetic: x & m for m = 2^k - 1, x >> s, x << s (no bits lost for the values used)
AndLow(x, m) == x % (m + 1)
\* :147-149  MAX_R = ((1usize << r_bits) - 1) as u8
MaxT(t, ch) == (2 ^ ChBits(t, ch) - 1) % 256
\* :200-229  rgb_color!: Rgb positions (g_bits + b_bits, b_bits, 0), Bgr positions (0, r_bits, r_bits + g_bits)
PosT(t, ch) ==
  IF t.bgr THEN (IF ch = 1 THEN 0 ELSE IF ch = 2 THEN t.rb ELSE t.rb + t.gb)
  ELSE (IF ch = 1 THEN t.gb + t.bb ELSE IF ch = 2 THEN t.bb ELSE 0)
\* :119-125  new(): ((r & MAX_R) as storage) << r_pos | ... (disjoint fields, so | is +)
NewRawT(t, args) ==
  AndLow(args[1], MaxT(t, 1)) * 2 ^ PosT(t, 1) + AndLow(args[2], MaxT(t, 2)) * 2 ^ PosT(t, 2)
  + AndLow(args[3], MaxT(t, 3)) * 2 ^ PosT(t, 3)
\* :129-145  r(): (self.0 >> r_pos) as u8 & MAX_R
ChanT(t, raw, ch) == AndLow((raw \div 2 ^ PosT(t, ch)) % 256, MaxT(t, ch))
\* :76-79, :165-170  From<Raw>: data.into_inner() & RGB_MASK, RGB_MASK = R_MASK | G_MASK | B_MASK
\* (x & (MAX << pos) keeps exactly the field of that channel)
FromRawT(t, data) ==
  AndLow(data \div 2 ^ PosT(t, 1), MaxT(t, 1)) * 2 ^ PosT(t, 1)
  + AndLow(data \div 2 ^ PosT(t, 2), MaxT(t, 2)) * 2 ^ PosT(t, 2)
  + AndLow(data \div 2 ^ PosT(t, 3), MaxT(t, 3)) * 2 ^ PosT(t, 3)
\* :173-177  From<colour> for Raw: Raw::new(color.0) = color.0 & MASK (raw/mod.rs:186-188, 201)
IntoRawT(t, stored) == stored % 2 ^ t.raw
\* gray_color.rs:34-36 Gray::new(luma) = RawUx::new(luma) = luma & MASK;  :44-46 luma() = into_inner()
GrayNewT(t, luma) == luma % 2 ^ t.raw
\* raw/to_bytes.rs:26-45 (u8/u16/u32 storage) and :78-110 (RawU24: bytes [1..4] of the big-endian
\* u32, bytes [0..3] of the little-endian u32)
BeBytesT(t, raw) ==
  IF t.raw = 24 THEN LET b4 == BeBytes(4, raw) IN <<b4[2], b4[3], b4[4]>> ELSE BeBytes(StorageBytes(t), raw)
LeBytesT(t, raw) ==
  IF t.raw = 24 THEN LET b4 == LeBytes(4, raw) IN <<b4[1], b4[2], b4[3]>> ELSE LeBytes(StorageBytes(t), raw)


\* ---- the same, uniformly for all 14 types: `stored` is the integer inside the colour object
\* (RGB: the packed storage word; gray: the RawUx value; binary: 0 = Off, 1 = On)
\* binary_color.rs:127-135 From<RawU1>: data != 0 -> On;  :137-141 Into<RawU1>: RawU1::new(map_color(0, 1))
\* gray_color.rs:52-62 From/Into raw: the wrapped RawUx itself
StoredOfNewT(t, args) ==
  IF IsRgb(t) THEN NewRawT(t, args) ELSE IF t.kind = "gray" THEN GrayNewT(t, args[1]) ELSE args[1] % 2
ChannelsT(t, stored) == IF IsRgb(t) THEN [ch \in 1..3 |-> ChanT(t, stored, ch)] ELSE << stored >>
FromRawAnyT(t, data) ==
  IF IsRgb(t) THEN FromRawT(t, data) ELSE IF t.kind = "gray" THEN data ELSE (IF data # 0 THEN 1 ELSE 0)
IntoRawAnyT(t, stored) == IF IsRgb(t) THEN IntoRawT(t, stored) ELSE stored % 2 ^ t.raw

-----------------------------------------------------------------------------
(* TRANSCRIBED: core/src/pixelcolor/conversion.rs *)
\* :7-20  convert_channel::<FROM_MAX, TO_MAX>(value):
\*          if TO_MAX != FROM_MAX { result = value * ((TO_MAX << 24) / FROM_MAX);
\*                                  ((result + (1 << 23)) >> 24) as u8 } else { value }
\* The u32 intermediates exceed TLC's 32-bit integers, so the arithmetic is carried out on 12-bit
\* limbs: K = (TO_MAX << 24) / FROM_MAX = Khi * 2^12 + Klo with
\*   Khi = (TO_MAX * 2^12) / FROM_MAX, Klo = (((TO_MAX * 2^12) % FROM_MAX) * 2^12) / FROM_MAX  (long division)
\* and (value * K + 2^23) >> 24 = (value * Khi + ((value * Klo + 2^23) >> 12)) >> 12.
RecipHi(fm, tm) == (tm * 4096) \div fm
RecipLo(fm, tm) == (((tm * 4096) % fm) * 4096) \div fm
ConvertChannelT(fm, tm, v) ==
  IF tm # fm
  THEN ((v * RecipHi(fm, tm) + ((v * RecipLo(fm, tm) + 8388608) \div 4096)) \div 4096) % 256
  ELSE v
\* :23-30  luma(Rgb888): ((r * 77 + g * 150 + b * 29 + 128) / 256) as u8
LumaT(c) == ((c[1] * 77 + c[2] * 150 + c[3] * 29 + 128) \div 256) % 256

ConvChT(ta, cha, tb, chb, v) == ConvertChannelT(ChMax(ta, cha), ChMax(tb, chb), v)
\* :35-43  RGB -> RGB: per channel, r -> r, g -> g, b -> b
RgbToRgbT(ta, tb, c) == [ch \in 1..3 |-> ConvChT(ta, ch, tb, ch, c[ch])]
\* :72-76  gray -> gray
GrayToGrayT(ta, tb, c) == << ConvChT(ta, 1, tb, 1, c[1]) >>
\* :87-95  gray -> RGB: every channel is the converted luma
GrayToRgbT(ta, tb, c) == [ch \in 1..3 |-> ConvChT(ta, 1, tb, ch, c[1])]
\* :97-102 RGB -> gray: luma(Rgb888::from(other)) -> Gray8 -> gray type (Gray8 -> Gray8 is the identity)
To888T(ta, c) == IF ta.rb = 8 THEN c ELSE [ch \in 1..3 |-> ConvertChannelT(ChMax(ta, ch), 255, c[ch])]
RgbToGrayT(ta, tb, c) == << ConvertChannelT(255, ChMax(tb, 1), LumaT(To888T(ta, c))) >>
\* :116-120 binary -> X: map_color(BLACK, WHITE)
BinToT(tb, c) == [ch \in 1..NChan(tb) |-> IF c[1] = 1 THEN ChMax(tb, ch) ELSE 0]
\* :132-136 gray -> binary: luma >= GRAY_50.luma(), GRAY_50 = 0x80 >> (8 - bits) (gray_color.rs:28)
GrayToBinT(ta, c) == << IF c[1] >= 128 \div 2 ^ (8 - ta.lb) THEN 1 ELSE 0 >>
\* :145-149 RGB -> binary: luma(Rgb888::from(color)) >= 128
RgbToBinT(ta, c) == << IF LumaT(To888T(ta, c)) >= 128 THEN 1 ELSE 0 >>

ConvertT(ta, tb, c) ==
  IF ta.kind = "bin" THEN BinToT(tb, c)
  ELSE IF tb.kind = "bin" THEN (IF IsRgb(ta) THEN RgbToBinT(ta, c) ELSE GrayToBinT(ta, c))
  ELSE IF IsRgb(ta) THEN (IF IsRgb(tb) THEN RgbToRgbT(ta, tb, c) ELSE RgbToGrayT(ta, tb, c))
  ELSE (IF IsRgb(tb) THEN GrayToRgbT(ta, tb, c) ELSE GrayToGrayT(ta, tb, c))
=============================================================================
