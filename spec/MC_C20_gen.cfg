CONSTANTS
  SIZE = 3
  MaxDepth = 4
  Gen = TRUE
  GenMod = 5
  Alphabet = "gen"
SPECIFICATION Spec
INVARIANTS TypeOK EqIffCellsAgree DiffOK AreaTight ObsOK PatternBack
PROPERTIES StepProp
CHECK_DEADLOCK FALSE
