----------------------------- MODULE Proof_C17 -----------------------------
(* The inductive invariant of the Bresenham machine (bresenham.rs:140-152 as  *)
(* transcribed in EGLine!BNext) for EVERY line, in major / minor coordinates: *)
(* a = steps made along the major axis, b = steps made along the minor axis,  *)
(* M = |major delta| >= 1, m = |minor delta| <= M.  MC_C17 checks the same    *)
(* statements (ThinErrIsCross, ThinErrorRange, ThinDistOK, ThinEndOK) for the *)
(* lines of a grid.                                                           *)
(*   Inv(a, b, err):  err = 2 (m a - M b)   (twice the cross product with the *)
(*                    ideal line)  and  -M < err <= M + 2 m                   *)
(* One call of next(): if err > M the pending minor step is made (b + 1,      *)
(* err - 2 M); the point (a, b) is returned; then a + 1, err + 2 m.           *)
(* Consequences: every returned point is within half a pixel of the ideal     *)
(* line (|2 cross| <= M), and the point returned at a = M is the end point.   *)
(* Checked with TLAPS (tlapm); not load-bearing for any check.                *)
EXTENDS Integers, TLAPS

Inv(M, m, a, b, err) == err = 2 * (m * a - M * b) /\ -M < err /\ err <= M + 2 * m
Bm(M, b, err) == IF err > M THEN b + 1 ELSE b           \* minor coordinate of the returned point
Ec(M, err) == IF err > M THEN err - 2 * M ELSE err      \* error after the pending correction

THEOREM InitInv ==
  ASSUME NEW M \in Nat, NEW m \in Nat, M >= 1
  PROVE  Inv(M, m, 0, 0, 0)
  BY DEF Inv

THEOREM StepInv ==
  ASSUME NEW M \in Nat, NEW m \in Nat, M >= 1, m <= M,
         NEW a \in Nat, NEW b \in Int, NEW err \in Int, Inv(M, m, a, b, err)
  PROVE  LET b1 == Bm(M, b, err)  e1 == Ec(M, err) IN
         /\ e1 = 2 * (m * a - M * b1) /\ -M < e1 /\ e1 <= M          \* the returned point (a, b1): |2 cross| <= M
         /\ Inv(M, m, a + 1, b1, e1 + 2 * m)                         \* the state after the call
<1>1. CASE err > M
  <2>1. Bm(M, b, err) = b + 1 /\ Ec(M, err) = err - 2 * M
    BY <1>1 DEF Bm, Ec
  <2>2. M * (b + 1) = M * b + M /\ m * (a + 1) = m * a + m
    OBVIOUS
  <2> QED BY <1>1, <2>1, <2>2 DEF Inv
<1>2. CASE ~(err > M)
  <2>1. Bm(M, b, err) = b /\ Ec(M, err) = err
    BY <1>2 DEF Bm, Ec
  <2>2. m * (a + 1) = m * a + m
    OBVIOUS
  <2> QED BY <1>2, <2>1, <2>2 DEF Inv
<1> QED BY <1>1, <1>2

\* the point returned after M major steps is the end point (minor coordinate m)
THEOREM EndsAtEnd ==
  ASSUME NEW M \in Nat, NEW m \in Nat, M >= 1, NEW b1 \in Int, NEW e1 \in Int,
         e1 = 2 * (m * M - M * b1), -M < e1, e1 <= M
  PROVE  b1 = m
<1> DEFINE k == m - b1
<1>1. k \in Int /\ e1 = 2 * (M * k)
  OBVIOUS
<1>2. CASE k >= 1
  <2>1. M * k >= M
    BY <1>2
  <2> QED BY <1>1, <2>1
<1>3. CASE k <= -1
  <2>1. M * k <= -M
    BY <1>3
  <2> QED BY <1>1, <2>1
<1> QED BY <1>1, <1>2, <1>3
=============================================================================
