#!/usr/bin/env python3
"""Binding demonstration (DESIGN §10.1), not a registered check.

For a few properties: record the real code (quick tier), take one shard, apply scripted corruptions to single
recorded fields and require that the trace specification reports a verdict (or rejects the trace structure)
for each of them — and reports NOTHING for the uncorrupted shard and for a neutral edit (case renumbering).

  tools/selftest.py            run all
  tools/selftest.py C03        run one property
"""
import copy, json, os, subprocess, sys, tempfile

ROOT = os.path.dirname(os.path.dirname(os.path.abspath(__file__)))
sys.path.insert(0, os.path.join(ROOT, "tools"))
import egv  # noqa: E402
from props import PROPS  # noqa: E402


def load(shard, limit=2500):
    out = []
    with open(shard) as f:
        for line in f:
            out.append(json.loads(line))
            if len(out) >= limit and out[-1]["ev"] == "case":
                out.pop()
                break
    return out


def run(pid, events, workdir, tag):
    path = os.path.join(workdir, tag + ".ndjson")
    with open(path, "w") as f:
        for e in events:
            f.write(json.dumps(e, separators=(",", ":")) + "\n")
    r = egv.validate_shard((PROPS[pid], path, workdir))
    return len(r["verdicts"]), r["ok"]


def first(events, ev, pred=lambda e: True):
    for i, e in enumerate(events):
        if e["ev"] == ev and pred(e):
            return i
    raise SystemExit("selftest: no %s event to corrupt" % ev)


def c01_flip_colour(ev):
    # change the colour of every native fill_solid of one case whose native and default maps are non-empty
    i = first(ev, "draw", lambda e: any(c["m"] == "fill_solid" for c in e["n"]) and any(len(c["px"]) > 0 for c in e["d"]))
    for c in ev[i]["n"]:
        if c["m"] == "fill_solid":
            c["color"] ^= 1


def c01_drop_default_call(ev):
    i = first(ev, "draw", lambda e: len(e["d"]) > 0 and len(e["d"][0]["px"]) > 0)
    ev[i]["d"][0]["px"].pop()


def c03_shift_parent_area(ev):
    # change the colour of one fill_solid that reached the parent and overlaps the parent's box
    pbox = None
    for e in ev:
        if e["ev"] == "stack":
            pbox = e["pbox"]
        if e["ev"] == "op" and pbox:
            for c in e["parent"]:
                a = c["area"]
                if (c["m"] == "fill_solid" and a[2] > 0 and a[3] > 0 and max(a[0], pbox[0]) < min(a[0] + a[2], pbox[0] + pbox[2])
                        and max(a[1], pbox[1]) < min(a[1] + a[3], pbox[1] + pbox[3])):
                    c["color"] = (c["color"] + 1) % 251
                    return
    raise SystemExit("selftest: no suitable parent call")


def c03_wrong_box(ev):
    i = first(ev, "stack", lambda e: len(e["boxes"]) > 1 and e["boxes"][-1][2] * e["boxes"][-1][3] > 0)
    ev[i]["boxes"][-1][2] += 1


def c04_extra_call(ev):
    i = first(ev, "faults", lambda e: len(e["runs"]) > 0 and len(e["runs"][0]["calls"]) > 0)
    r = ev[i]["runs"][0]
    r["calls"].append(copy.deepcopy(r["calls"][-1]))


def c04_swallow(ev):
    i = first(ev, "faults", lambda e: len(e["runs"]) > 0)
    ev[i]["runs"][0]["ret"] = 0


def c05_swap_points(ev):
    i = first(ev, "shape", lambda e: len(e["pr"]) >= 2)
    ev[i]["pr"][0], ev[i]["pr"][1] = ev[i]["pr"][1], ev[i]["pr"][0]


def c05_extra_contains(ev):
    i = first(ev, "shape", lambda e: len(e["cr"]) >= 1)
    ev[i]["cr"][-1][2] += 1


def c16_bump_intersection(ev):
    i = first(ev, "bin", lambda e: any(it[2][2] * it[2][3] > 0 for it in e["items"]))
    for it in ev[i]["items"]:
        if it[2][2] * it[2][3] > 0:
            it[2][2] += 1
            return


def c16_wrong_center(ev):
    i = first(ev, "un", lambda e: e["r"][2] > 2 and e["r"][3] > 0)
    ev[i]["center"][0] += 2


def c02_pixel_outside_box(ev):
    i = first(ev, "draw", lambda e: len(e["touched"]) > 0)
    ev[i]["touched"][-1][2] += 1000


def c02_transparent_draws(ev):
    i = first(ev, "draw", lambda e: len(e["touched"]) > 0)
    for k in ev[i]["style"]:
        ev[i]["style"][k] = -1 if isinstance(ev[i]["style"][k], int) and k not in ("w", "al") else ev[i]["style"][k]
    if "w" in ev[i]["style"]:
        ev[i]["style"]["w"] = 0


def c06_drop_draw_run(ev):
    i = first(ev, "styled", lambda e: len(e["draw"]) > 2 and len(e["F"]) > 0)
    ev[i]["draw"].pop(len(ev[i]["draw"]) // 2)


def c06_stroke_into_fill(ev):
    # recolour: claim the fill runs were painted with nothing (remove the whole fill from draw by emptying it)
    i = first(ev, "styled", lambda e: len(e["draw"]) > 0 and len(e["S"]) > 0)
    ev[i]["draw"] = []


def c07_shift_box(ev):
    i = first(ev, "pair", lambda e: e["box1"][2] > 0 and e["box1"][3] > 0)
    ev[i]["box1"][0] += 1


def c07_shift_map(ev):
    i = first(ev, "pair", lambda e: len(e["map1"]) > 0)
    ev[i]["map1"][0][0] += 1


def c08_allocation(ev):
    i = first(ev, "calls", lambda e: len(e["calls"]) > 0)
    ev[i]["calls"][0]["allocs"] = 1


def c08_panic(ev):
    i = first(ev, "calls", lambda e: len(e["calls"]) > 0)
    ev[i]["calls"][-1]["outcome"] = "panic"
    ev[i]["calls"][-1]["msg"] = "attempt to add with overflow"
    ev[i]["calls"][-1]["loc"] = "src/x.rs:1"


def c09_wrong_colour(ev):
    i = first(ev, "draw", lambda e: any(c["m"] == "fc" and c["n"] > 1 for c in e["native"]))
    for c in ev[i]["native"]:
        if c["m"] == "fc" and c["n"] > 1:
            c["cs"][1] ^= 1
            return


def c09_stream_too_long(ev):
    i = first(ev, "draw", lambda e: any(c["m"] == "fc" and c["n"] > 1 for c in e["native"]))
    for c in ev[i]["native"]:
        if c["m"] == "fc" and c["n"] > 1:
            c["n"] += c["area"][2]
            return


def c10_readback(ev):
    i = first(ev, "op", lambda e: any(len(p[2]) == 1 for p in e["probes"]))
    for p in ev[i]["probes"]:
        if len(p[2]) == 1:
            p[2][0] ^= 1
            return


def c10_tail(ev):
    i = first(ev, "op", lambda e: len(e["data"]) > 0)
    ev[i]["data"][-1] ^= 0x80


def c11_load_value(ev):
    i = first(ev, "load", lambda e: any(len(it[1]) == 1 for it in e["items"]))
    for it in ev[i]["items"]:
        if len(it[1]) == 1:
            it[1][0] ^= 1
            return


def c11_store_neighbour(ev):
    i = first(ev, "store", lambda e: any(len(it[3]) > 1 for it in e["items"]))
    for it in ev[i]["items"]:
        if len(it[3]) > 1 and it[2] == 1:
            it[3][-1] ^= 0x10
            it[3][0] ^= 0x01
            return


def c12_raw(ev):
    i = first(ev, "row")
    ev[i]["raw"][5] += 1


def c12_rt(ev):
    i = first(ev, "rawrow", lambda e: len(e["rt2"]) > 0)
    ev[i]["rt2"][-1] ^= 1


def c13_white(ev):
    i = first(ev, "pair", lambda e: len(e["white"]) > 0 and e["white"][0] > 0)
    ev[i]["white"][0] -= 1


def c13_nearest(ev):
    i = first(ev, "pair", lambda e: len(e["rels"]) > 0 and len(e["rels"][0]) > 3)
    ev[i]["rels"][0][2][1] += 2


def c14_glyph_pixel(ev):
    i = first(ev, "line", lambda e: e["map"][2] > 4 and e["map"][3] > 4)
    rows = ev[i]["map"][4]
    y, x = len(rows) // 2, len(rows[0]) // 2
    rows[y][x] = -1 if rows[y][x] != -1 else ev[i]["tc"]


def c14_index(ev):
    i = first(ev, "font", lambda e: len(e["probes"]) > 5)
    ev[i]["probes"][3][1] += 1


def c15_ret(ev):
    i = first(ev, "layout", lambda e: len(e["text"]) > 0)
    ev[i]["whole"]["ret"][0] += 1
    ev[i]["lf"]["ret"][0] += 1 if ev[i]["lf"]["text"] == ev[i]["text"] else 0


def c15_bbox(ev):
    i = first(ev, "layout", lambda e: e["lf"]["text"] != e["text"])
    ev[i]["whole"]["bbox"][2] += 1


def c17_drop_point(ev):
    i = first(ev, "line", lambda e: len(e["pts"]) > 4)
    ev[i]["pts"].pop(2)


def c17_twice(ev):
    i = first(ev, "line", lambda e: any(len(s[1]) > 3 and s[0] > 1 for s in e["strokes"]))
    for s in ev[i]["strokes"]:
        if len(s[1]) > 3 and s[0] > 1:
            s[1].append(s[1][0])
            return


def c18_drop_run(ev):
    i = first(ev, "curve", lambda e: len(e["set"]) > 4)
    ev[i]["set"].pop(len(ev[i]["set"]) // 2)


def c18_confine(ev):
    i = first(ev, "confine")
    ev[i]["rout"][0][0] += ev[i]["size"][0]


def c19_order(ev):
    i = first(ev, "tri", lambda e: len(e["ts"][0]) > 2)
    ev[i]["ts"][3] = ev[i]["ts"][3][:-1]


def c19_poly_twice(ev):
    i = first(ev, "poly", lambda e: len(e["pts"]) > 2)
    ev[i]["pts"].append(ev[i]["pts"][0])


def c20_eq(ev):
    i = first(ev, "obs", lambda e: e["eq"] == 1)
    ev[i]["eq"] = 0


def c20_affected(ev):
    i = first(ev, "obs", lambda e: e["aa"][2] > 0)
    ev[i]["aa"][2] += 1


def renumber(ev):
    for e in ev:
        e["case"] += 100000


CORRUPTIONS = {
    "C01": [c01_flip_colour, c01_drop_default_call],
    "C03": [c03_shift_parent_area, c03_wrong_box],
    "C04": [c04_extra_call, c04_swallow],
    "C05": [c05_swap_points, c05_extra_contains],
    "C16": [c16_bump_intersection, c16_wrong_center],
    "C02": [c02_pixel_outside_box, c02_transparent_draws],
    "C06": [c06_drop_draw_run, c06_stroke_into_fill],
    "C07": [c07_shift_box, c07_shift_map],
    "C08": [c08_allocation, c08_panic],
    "C09": [c09_wrong_colour, c09_stream_too_long],
    "C10": [c10_readback, c10_tail],
    "C11": [c11_load_value, c11_store_neighbour],
    "C12": [c12_raw, c12_rt],
    "C13": [c13_white, c13_nearest],
    "C14": [c14_glyph_pixel, c14_index],
    "C15": [c15_ret, c15_bbox],
    "C17": [c17_drop_point, c17_twice],
    "C18": [c18_drop_run, c18_confine],
    "C19": [c19_order, c19_poly_twice],
    "C20": [c20_eq, c20_affected],
}


def main():
    pids = sys.argv[1:] or sorted(CORRUPTIONS)
    ok = True
    for pid in pids:
        P = PROPS[pid]
        work = tempfile.mkdtemp(prefix="egv_selftest_")
        binpath = egv.build(P["bin"])
        out = os.path.join(work, "trace")
        open(os.path.join(work, "empty"), "w").close()
        subprocess.run([binpath, "--tier", "quick", "--seed", "1", "--out", out, "--shards", "4", "--gen", os.path.join(work, "empty"),
                        "--witnesses", os.path.join(work, "empty")], check=True, stdout=subprocess.DEVNULL)
        shards = sorted(p for p in os.listdir(out) if p.endswith(".ndjson"))
        base = load(os.path.join(out, shards[0]))
        n0, accepted = run(pid, base, work, "clean")
        # (verdicts on the unchanged trace are the occurrences of OPEN known findings, e.g. D12 for C14 / C15)
        print("%s clean shard prefix (%d events): verdicts=%d accepted=%s" % (pid, len(base), n0, accepted))
        ok &= accepted
        ev = copy.deepcopy(base)
        renumber(ev)
        n, accepted = run(pid, ev, work, "renumbered")
        print("%s neutral edit (case ids renumbered): verdicts=%d accepted=%s" % (pid, n, accepted))
        ok &= (n == n0 and accepted)
        for c in CORRUPTIONS[pid]:
            # the first shard whose prefix holds an event this corruption applies to
            for sh in shards:
                b = base if sh == shards[0] else load(os.path.join(out, sh))
                ev = copy.deepcopy(b)
                try:
                    c(ev)
                except SystemExit:
                    continue
                nb = n0 if sh == shards[0] else run(pid, b, work, "clean_" + sh)[0]
                n, accepted = run(pid, ev, work, c.__name__)
                det = n > nb or not accepted
                print("%s corruption %-24s verdicts=%d (unchanged: %d) accepted=%s -> %s" % (pid, c.__name__, n, nb, accepted, "DETECTED" if det else "MISSED"))
                ok &= det
                break
            else:
                print("%s corruption %-24s no applicable event in any shard prefix" % (pid, c.__name__))
                ok = False
        subprocess.run(["rm", "-rf", work])
    print("selftest", "PASSED" if ok else "FAILED")
    return 0 if ok else 1


if __name__ == "__main__":
    sys.exit(main())
