--------------------------- MODULE EGStyledCurve ---------------------------
(* TRANSCRIBED: styled ellipses and styled rounded rectangles                  *)
(*   ellipse/mod.rs:92-113          OffsetOutline for Ellipse, center_2x       *)
(*   ellipse/points.rs:66-84        Scanlines::next                            *)
(*   ellipse/styled.rs:150-180      StyledScanlines::next                      *)
(*   ellipse/styled.rs:30-96,118-146  branch selection of pixels() / draw()    *)
(*   rounded_rectangle/mod.rs:243-269  OffsetOutline for RoundedRectangle      *)
(*   rounded_rectangle/styled.rs:164-200  StyledScanlines::next                *)
(*   common/styled_scanline.rs      stroke_left / fill / stroke_right          *)
(* A styled scanline is <<y, s0, s1, f0, f1>> (ends exclusive); s0 >= s1 means *)
(* an empty stroke range, f0 >= f1 an empty fill range.                        *)
EXTENDS EGStyled, EGCurve

\* ellipse boxes <<x, y, w, h>>
EllipseOffsetT(b, n) ==
  LET sz == IF n >= 0 THEN <<b[3] + 2 * n, b[4] + 2 * n>>
            ELSE <<SatSubU(b[3], 2 * (-n)), SatSubU(b[4], 2 * (-n))>>
  IN WithCenter(Center(b), sz)
EllStrokeArea(b, st) == EllipseOffsetT(b, OutsideW(st))
EllFillArea(b, st)   == EllipseOffsetT(b, -InsideW(st))
EllC2x(b) == <<2 * b[1] + SatSubU(b[3], 1), 2 * b[2] + SatSubU(b[4], 1)>>
\* EllipseContains::new(size).contains(q), q already doubled and relative to a centre
EllipseContainsQ(sz, qx, qy) ==
  LET w == sz[1]  h == sz[2]  a == w * w  bb == h * h
      th == IF w = h THEN DiameterToThreshold(w) ELSE bb * a
      x == qx * qx  y == qy * qy IN
  IF a = bb THEN x + y < th ELSE bb * x + a * y < th
MinOf(S) == CHOOSE m \in S : \A z \in S : m <= z
MaxOf(S) == CHOOSE m \in S : \A z \in S : m >= z
\* points.rs Scanlines::next for row y of ellipse box b: <<x0, x1>> or <<>> (Scanline::new_empty)
EllScanlineT(b, y) ==
  LET c == EllC2x(b)
      hs == { x \in b[1]..(b[1] + b[3] - 1) : EllipseContainsQ(<<b[3], b[4]>>, 2 * x - c[1], 2 * y - c[2]) } IN
  IF hs = {} THEN <<>> ELSE LET x0 == MinOf(hs) IN <<x0, (b[1] + b[3]) - (x0 - b[1])>>
\* styled.rs StyledScanlines::next: the fill test uses the size of the FILL area but the centre of the
\* STROKE area (self.scanlines.center_2x); mirror = FALSE is the negative control (fill end not mirrored)
EllStyledRowT(sa, fa, y, mirror) ==
  LET r == EllScanlineT(sa, y)  c == EllC2x(sa) IN
  IF r = <<>> THEN <<y, 0, 0, 0, 0>>
  ELSE LET fs == { x \in r[1]..(r[2] - 1) : EllipseContainsQ(<<fa[3], fa[4]>>, 2 * x - c[1], 2 * y - c[2]) } IN
       IF fs = {} THEN <<y, r[1], r[2], r[2], r[2]>>
       ELSE LET f0 == MinOf(fs) IN <<y, r[1], r[2], f0, IF mirror THEN r[2] - (f0 - r[1]) ELSE r[2]>>

\* rounded rectangles: rr = <<box, rad>>, rad = << tl, tr, br, bl >> each <<w, h>> (unconfined, as stored)
RROffsetT(rr, n) ==
  LET Adj(r) == IF n >= 0 THEN <<r[1] + n, r[2] + n>> ELSE <<SatSubU(r[1], -n), SatSubU(r[2], -n)>> IN
  <<Offset(rr[1], n), <<Adj(rr[2][1]), Adj(rr[2][2]), Adj(rr[2][3]), Adj(rr[2][4])>>>>
RRStrokeArea(rr, st) == RROffsetT(rr, OutsideW(st))
RRFillArea(rr, st)   == RROffsetT(rr, -InsideW(st))
\* rfind = TRUE: the code; FALSE: negative control (fill runs to the end of the stroke scanline)
RRStyledRowT(sa, fa, y, rfind) ==
  LET sc == RRScanlineT(sa[1], sa[2], y)  fb == fa[1] IN
  IF y >= fb[2] /\ y < fb[2] + fb[4]
  THEN LET fs == { x \in sc[2]..(sc[3] - 1) : RRContainsT(fb, fa[2], <<x, y>>) } IN
       IF fs = {} THEN <<y, sc[2], sc[3], sc[3], sc[3]>>
       ELSE <<y, sc[2], sc[3], MinOf(fs), IF rfind THEN MaxOf(fs) + 1 ELSE sc[3]>>
  ELSE <<y, sc[2], sc[3], sc[3], sc[3]>>

\* common/scanline.rs:132 Scanline::draw: one fill_solid of height 1 unless the range is empty
SpanCall(y, a, b, c) == IF a < b THEN << [m |-> "fill_solid", area |-> <<a, y, b - a, 1>>, color |-> c, colors |-> <<>>, px |-> <<>>] >> ELSE <<>>
\* styled_scanline.rs: draw_stroke / draw_stroke_and_fill; for the fill-only branch `row` is a plain scanline <<y, s0, s1, ..>>
\* strokeOn: draw() selects the branch by effective_stroke_color(), pixels() by style.stroke_color
StyledRowCalls(row, st, strokeOn) ==
  CASE strokeOn /\ HasFill(st)  -> SpanCall(row[1], row[2], row[4], st.stroke) \o SpanCall(row[1], row[4], row[5], st.fill)
                                   \o SpanCall(row[1], row[5], row[3], st.stroke)
    [] strokeOn /\ ~HasFill(st) -> SpanCall(row[1], row[2], row[4], st.stroke) \o SpanCall(row[1], row[5], row[3], st.stroke)
    [] OTHER -> <<>>

\* the whole picture as a set of <<x, y, colour>> triples (closed form of the machine MC_C06e steps row by row;
\* MC_C06e!MachineIsClosedForm).  k = "ellipse": sh = box; k = "rrect": sh = <<box, radii>>.  route = "draw" | "pixels"
SpanSet(y, a, b, c) == { <<x, y, c>> : x \in a..(b - 1) }
StyledMapT(k, sh, st, route) ==
  LET sa == IF k = "ellipse" THEN EllStrokeArea(sh, st) ELSE RRStrokeArea(sh, st)
      fa == IF k = "ellipse" THEN EllFillArea(sh, st) ELSE RRFillArea(sh, st)
      sbox == IF k = "ellipse" THEN sa ELSE sa[1]
      fbox == IF k = "ellipse" THEN fa ELSE fa[1]
      strokeOn == IF route = "draw" THEN HasStroke(st) ELSE st.stroke >= 0
      plain == route = "draw" /\ ~HasStroke(st) /\ HasFill(st)
      rb == IF plain THEN fbox ELSE sbox
      Row(y) == IF k = "ellipse" THEN EllStyledRowT(sa, fa, y, TRUE) ELSE RRStyledRowT(sa, fa, y, TRUE)
      PRow(y) == IF k = "ellipse"
                 THEN LET r == EllScanlineT(fa, y) IN IF r = <<>> THEN <<y, 0, 0>> ELSE <<y, r[1], r[2]>>
                 ELSE RRScanlineT(fa[1], fa[2], y)
      RowSet(y) == IF plain THEN LET r == PRow(y) IN SpanSet(y, r[2], r[3], st.fill)
                   ELSE LET r == Row(y) IN
                        (IF strokeOn THEN SpanSet(y, r[2], r[4], st.stroke) \cup SpanSet(y, r[5], r[3], st.stroke) ELSE {})
                        \cup (IF HasFill(st) THEN SpanSet(y, r[4], r[5], st.fill) ELSE {})
  IN IF ~strokeOn /\ ~HasFill(st) THEN {} ELSE UNION { RowSet(y) : y \in rb[2]..(rb[2] + rb[4] - 1) }
=============================================================================
