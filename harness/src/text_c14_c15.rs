//! Shared helpers of the C14 / C15 recorders (included with `#[path]`, not part of the egv lib).
//! Record only: nothing in here compares or judges.
#![allow(dead_code)]

use egv::util::*;
use egv::*;
use embedded_graphics::{
    image::{GetPixel, ImageRaw},
    mono_font::{
        mapping::{self, StrGlyphMapping},
        DecorationDimensions, MonoFont, MonoTextStyle, MonoTextStyleBuilder,
    },
    pixelcolor::{BinaryColor, Gray8},
    prelude::*,
    text::DecorationColor,
};
use std::collections::BTreeMap;

/// A font constant of the library together with the mapping constant of its module.
pub struct BFont {
    pub name: &'static str,
    pub font: &'static MonoFont<'static>,
    pub mapping: &'static StrGlyphMapping<'static>,
}

macro_rules! add_fonts {
    ($v:ident, $m:ident, $map:ident, [$($f:ident),*]) => {
        $( $v.push(BFont {
            name: concat!(stringify!($m), "::", stringify!($f)),
            font: &embedded_graphics::mono_font::$m::$f,
            mapping: &mapping::$map,
        }); )*
    };
}
macro_rules! add_full {
    ($v:ident, $m:ident, $map:ident) => {
        add_fonts!($v, $m, $map, [
            FONT_4X6, FONT_5X7, FONT_5X8, FONT_6X9, FONT_6X10, FONT_6X12, FONT_6X13, FONT_6X13_BOLD,
            FONT_6X13_ITALIC, FONT_7X13, FONT_7X13_BOLD, FONT_7X13_ITALIC, FONT_7X14, FONT_7X14_BOLD, FONT_8X13,
            FONT_8X13_BOLD, FONT_8X13_ITALIC, FONT_9X15, FONT_9X15_BOLD, FONT_9X18, FONT_9X18_BOLD, FONT_10X20
        ]);
    };
}

/// Every `pub const FONT_*` under mono_font::{ascii, iso_8859_*, jis_x0201}
/// (table written from `grep 'pub const FONT_' /repo/src/mono_font/generated/*.rs`: 13 x 22 + 6 = 292).
pub fn builtin_fonts() -> Vec<BFont> {
    let mut v = vec![];
    add_full!(v, ascii, ASCII);
    add_full!(v, iso_8859_1, ISO_8859_1);
    add_full!(v, iso_8859_2, ISO_8859_2);
    add_full!(v, iso_8859_3, ISO_8859_3);
    add_full!(v, iso_8859_4, ISO_8859_4);
    add_full!(v, iso_8859_5, ISO_8859_5);
    add_full!(v, iso_8859_7, ISO_8859_7);
    add_full!(v, iso_8859_9, ISO_8859_9);
    add_full!(v, iso_8859_10, ISO_8859_10);
    add_full!(v, iso_8859_13, ISO_8859_13);
    add_full!(v, iso_8859_14, ISO_8859_14);
    add_full!(v, iso_8859_15, ISO_8859_15);
    add_full!(v, iso_8859_16, ISO_8859_16);
    add_fonts!(v, jis_x0201, JIS_X0201, [FONT_6X13, FONT_7X14, FONT_8X13, FONT_9X15, FONT_9X18, FONT_10X20]);
    v
}

/// The raw mapping string and the replacement index of a `StrGlyphMapping`, read through its
/// (public, derived) `Debug` output: `StrGlyphMapping { data: "...", replacement_index: N }`.
pub fn mapping_raw(m: &StrGlyphMapping) -> (Vec<u32>, usize) {
    let d = format!("{:?}", m);
    let a = d.find("data: \"").expect("debug format: data") + 7;
    let b = d.rfind("\", replacement_index: ").expect("debug format: replacement_index");
    let repl: usize = d[b + 22..].trim_end_matches(|c| c == ' ' || c == '}').parse().expect("replacement index");
    let lit: Vec<char> = d[a..b].chars().collect();
    let mut out = vec![];
    let mut i = 0;
    while i < lit.len() {
        if lit[i] != '\\' {
            out.push(lit[i] as u32);
            i += 1;
            continue;
        }
        match lit[i + 1] {
            '0' => {
                out.push(0);
                i += 2;
            }
            'n' => {
                out.push(10);
                i += 2;
            }
            'r' => {
                out.push(13);
                i += 2;
            }
            't' => {
                out.push(9);
                i += 2;
            }
            '\\' | '"' | '\'' => {
                out.push(lit[i + 1] as u32);
                i += 2;
            }
            'u' => {
                let mut j = i + 3;
                let mut v = 0u32;
                while lit[j] != '}' {
                    v = v * 16 + lit[j].to_digit(16).expect("hex digit");
                    j += 1;
                }
                out.push(v);
                i = j + 1;
            }
            c => panic!("unknown escape \\{} in Debug output of StrGlyphMapping", c),
        }
    }
    (out, repl)
}

/// A custom font, owned.  `atlas`: `ah` rows of `ceil(aw / 8)` bytes, most significant bit first.
#[derive(Clone, Debug)]
pub struct FontSpec {
    pub cw: u32,
    pub ch: u32,
    pub s: u32,
    pub bl: u32,
    pub ul: (u32, u32),
    pub st: (u32, u32),
    pub aw: u32,
    pub ah: u32,
    pub atlas: Vec<Vec<u8>>,
    pub map: Vec<u32>,
    pub repl: usize,
}

impl FontSpec {
    pub fn to_json(&self) -> Value {
        json!({"cw": self.cw, "ch": self.ch, "s": self.s, "bl": self.bl, "ul": [self.ul.0, self.ul.1],
               "st": [self.st.0, self.st.1], "aw": self.aw, "ah": self.ah, "atlas": self.atlas, "map": self.map,
               "repl": self.repl})
    }
    pub fn from_json(v: &Value) -> FontSpec {
        let u = |x: &Value| i(x) as u32;
        FontSpec {
            cw: u(&v["cw"]),
            ch: u(&v["ch"]),
            s: u(&v["s"]),
            bl: u(&v["bl"]),
            ul: (u(&v["ul"][0]), u(&v["ul"][1])),
            st: (u(&v["st"][0]), u(&v["st"][1])),
            aw: u(&v["aw"]),
            ah: u(&v["ah"]),
            atlas: v["atlas"].as_array().unwrap().iter().map(|r| r.as_array().unwrap().iter().map(|b| i(b) as u8).collect()).collect(),
            map: v["map"].as_array().unwrap().iter().map(|c| i(c) as u32).collect(),
            repl: i(&v["repl"]) as usize,
        }
    }
    /// Builds the `MonoFont` (atlas through `ImageRaw::new`, mapping through `StrGlyphMapping::new`).
    pub fn with_font<R>(&self, f: impl FnOnce(&MonoFont, &StrGlyphMapping) -> R) -> R {
        let data: Vec<u8> = self.atlas.concat();
        let s: String = self.map.iter().map(|&c| char::from_u32(c).expect("scalar value")).collect();
        let mapping = StrGlyphMapping::new(&s, self.repl);
        let image = ImageRaw::<BinaryColor>::new(&data, Size::new(self.aw, self.ah)).expect("atlas data length");
        let font = MonoFont {
            image,
            glyph_mapping: &mapping,
            character_size: Size::new(self.cw, self.ch),
            character_spacing: self.s,
            baseline: self.bl,
            underline: DecorationDimensions::new(self.ul.0, self.ul.1),
            strikethrough: DecorationDimensions::new(self.st.0, self.st.1),
        };
        f(&font, &mapping)
    }
}

/// Colours and decorations of a `MonoTextStyle`; -1 = not set; decoration mode 0 None, 1 TextColor, 2 Custom.
#[derive(Clone, Copy, Debug)]
pub struct StyleSpec {
    pub tc: i64,
    pub bg: i64,
    pub ul: (i64, i64),
    pub st: (i64, i64),
}

impl StyleSpec {
    pub fn from_arr(v: &Value) -> StyleSpec {
        StyleSpec { tc: i(&v[0]), bg: i(&v[1]), ul: (i(&v[2]), i(&v[3])), st: (i(&v[4]), i(&v[5])) }
    }
    pub fn to_arr(&self) -> Value {
        json!([self.tc, self.bg, self.ul.0, self.ul.1, self.st.0, self.st.1])
    }
    /// The style, constructed along one of several routes of the public API that must all give the same style:
    /// public fields, the builder with the font first / last / in the middle, a builder made from another style
    /// whose font is then replaced, `MonoTextStyle::new`.  The route is a deterministic function of the style.
    pub fn build<'a>(&self, font: &'a MonoFont<'a>) -> MonoTextStyle<'a, Gray8> {
        let route = (self.tc + 3 * self.bg + 5 * self.ul.0 + 7 * self.st.0 + self.ul.1 + self.st.1 + font.character_size.width as i64).rem_euclid(6);
        self.build_via(font, route as u32)
    }
    pub fn build_via<'a>(&self, font: &'a MonoFont<'a>, route: u32) -> MonoTextStyle<'a, Gray8> {
        let g = |v: i64| Gray8::new(v as u8);
        let tc = |b: MonoTextStyleBuilder<'a, Gray8>| if self.tc >= 0 { b.text_color(g(self.tc)) } else { b };
        let bg = |b: MonoTextStyleBuilder<'a, Gray8>| if self.bg >= 0 { b.background_color(g(self.bg)) } else { b };
        let ul = |b: MonoTextStyleBuilder<'a, Gray8>| match self.ul.0 {
            0 => b,
            1 => b.underline(),
            _ => b.underline_with_color(g(self.ul.1)),
        };
        let st = |b: MonoTextStyleBuilder<'a, Gray8>| match self.st.0 {
            0 => b,
            1 => b.strikethrough(),
            _ => b.strikethrough_with_color(g(self.st.1)),
        };
        match route {
            1 => st(ul(bg(tc(MonoTextStyleBuilder::new().font(font))))).build(),
            2 => st(ul(bg(tc(MonoTextStyleBuilder::new())))).font(font).build(),
            3 => tc(bg(ul(st(MonoTextStyleBuilder::new())).font(font))).build(),
            4 => {
                // a decorated style with another font, converted back into a builder, font replaced
                let other = st(ul(bg(tc(MonoTextStyleBuilder::new().font(&embedded_graphics::mono_font::ascii::FONT_6X10))))).build();
                MonoTextStyleBuilder::from(&other).font(font).build()
            }
            5 if self.tc >= 0 && self.bg < 0 && self.ul.0 == 0 && self.st.0 == 0 => MonoTextStyle::new(font, g(self.tc)),
            _ => {
                let mut st: MonoTextStyle<'a, Gray8> = MonoTextStyleBuilder::new().font(font).build();
                st.text_color = if self.tc >= 0 { Some(g(self.tc)) } else { None };
                st.background_color = if self.bg >= 0 { Some(g(self.bg)) } else { None };
                let deco = |d: (i64, i64)| match d.0 {
                    0 => DecorationColor::None,
                    1 => DecorationColor::TextColor,
                    _ => DecorationColor::Custom(g(d.1)),
                };
                st.underline_color = deco(self.ul);
                st.strikethrough_color = deco(self.st);
                st
            }
        }
    }
}

/// The atlas as read through the public `font.image.pixel()`: rows of bytes, MSB = leftmost pixel.
pub fn atlas_rows(font: &MonoFont) -> (u32, u32, Vec<Vec<u8>>) {
    let sz = font.image.size();
    let mut rows = vec![];
    for y in 0..sz.height {
        let mut row = vec![0u8; ((sz.width + 7) / 8) as usize];
        for x in 0..sz.width {
            if font.image.pixel(Point::new(x as i32, y as i32)) == Some(BinaryColor::On) {
                row[(x / 8) as usize] |= 0x80 >> (x % 8);
            }
        }
        rows.push(row);
    }
    (sz.width, sz.height, rows)
}

/// Metrics of a font as event fields.
pub fn metrics_json(font: &MonoFont) -> Value {
    json!({"cw": font.character_size.width, "ch": font.character_size.height, "s": font.character_spacing,
           "bl": font.baseline, "ul": [font.underline.offset, font.underline.height],
           "st": [font.strikethrough.offset, font.strikethrough.height]})
}

/// A picture as `[x, y, w, h, rows]`: tight bounding box of the touched pixels and `h` rows of `w`
/// colours, -1 = untouched.  Nothing touched = `[0,0,0,0,[]]`.
pub fn raster(map: &BTreeMap<(i32, i32), u32>) -> Value {
    if map.is_empty() {
        return json!([0, 0, 0, 0, []]);
    }
    let (mut x0, mut x1, mut y0, mut y1) = (i32::MAX, i32::MIN, i32::MAX, i32::MIN);
    for &(y, x) in map.keys() {
        x0 = x0.min(x);
        x1 = x1.max(x);
        y0 = y0.min(y);
        y1 = y1.max(y);
    }
    let (w, h) = ((x1 - x0 + 1) as usize, (y1 - y0 + 1) as usize);
    assert!(w * h <= 4_000_000, "picture too large to log");
    let mut rows = vec![vec![-1i64; w]; h];
    for (&(y, x), &c) in map.iter() {
        rows[(y - y0) as usize][(x - x0) as usize] = c as i64;
    }
    json!([x0, y0, w, h, rows])
}

pub fn string_of(cps: &[u32]) -> String {
    cps.iter().map(|&c| char::from_u32(c).expect("scalar value")).collect()
}
pub fn cps_of(v: &Value) -> Vec<u32> {
    v.as_array().unwrap().iter().map(|c| i(c) as u32).collect()
}

/// `font.glyph_mapping.index(c)` for every given character.
pub fn index_probes(font: &MonoFont, cs: &[u32]) -> Vec<Value> {
    cs.iter().filter_map(|&c| char::from_u32(c)).map(|ch| json!([ch as u32, font.glyph_mapping.index(ch)])).collect()
}

/// Characters that no mapping of the library contains.
pub const UNMAPPED: [u32; 5] = [0, 9, 0x80, 0x2603, 0x1F600];
