//! C14 recorder: which glyph is drawn where.  Records the font (metrics, atlas bits through
//! `font.image.pixel()`, raw mapping string, `glyph_mapping.index()` probes) and, per line, the raster of
//! what `Text::draw` / `TextRenderer::draw_string` painted.  Judged by spec/Trace_C14.tla.
#[path = "../text_c14_c15.rs"]
mod tc;

use egv::targets::MapTarget;
use egv::util::*;
use egv::*;
use embedded_graphics::{
    mono_font::{mapping::StrGlyphMapping, MonoFont},
    pixelcolor::Gray8,
    prelude::*,
    text::{renderer::TextRenderer, Baseline, Text},
};
use tc::*;

#[derive(Clone, Debug)]
struct LineSpec {
    chars: Vec<u32>,
    pos: (i32, i32),
    sty: StyleSpec,
    /// 0 = Text::with_baseline(.., Baseline::Top).draw(), 1 = TextRenderer::draw_string(.., Baseline::Top, ..)
    api: u8,
}

impl LineSpec {
    fn from_json(v: &Value) -> LineSpec {
        LineSpec {
            chars: cps_of(&v[0]),
            pos: (i(&v[1][0]) as i32, i(&v[1][1]) as i32),
            sty: StyleSpec::from_arr(&v[2]),
            api: i(&v[3]) as u8,
        }
    }
}

fn emit_font(rec: &mut Rec, font: &MonoFont, mapping: &StrGlyphMapping, raw: &[u32], repl: usize, builtin: bool, name: &str, extra_probes: &[u32]) {
    let (aw, ah, atlas) = atlas_rows(font);
    // (library calls: a panic in chars() / index() is an observation, not a harness failure)
    let chars: Vec<u32> = match catch(|| mapping.chars().map(|c| c as u32).take(5000).collect::<Vec<u32>>()) {
        Ok(c) => c,
        Err(p) => {
            rec.note("panicked_mapping_calls");
            rec.ev("panic", json!({"msg": format!("chars(): {}", p.msg), "loc": p.loc}));
            vec![]
        }
    };
    let mut probe_cs = chars.clone();
    probe_cs.extend_from_slice(&UNMAPPED);
    probe_cs.extend_from_slice(extra_probes);
    let mut seen = std::collections::BTreeSet::new();
    probe_cs.retain(|c| seen.insert(*c));
    let m = metrics_json(font);
    let probes = match catch(|| index_probes(font, &probe_cs)) {
        Ok(p) => p,
        Err(p) => {
            rec.note("panicked_mapping_calls");
            rec.ev("panic", json!({"msg": format!("index(): {}", p.msg), "loc": p.loc}));
            vec![]
        }
    };
    rec.ev(
        "font",
        json!({"name": name, "builtin": builtin as i32, "cw": m["cw"], "ch": m["ch"], "s": m["s"], "bl": m["bl"],
               "ul": m["ul"], "st": m["st"], "aw": aw, "ah": ah, "atlas": atlas, "map": raw, "repl": repl,
               "has_chars": 1, "chars": chars, "probes": probes}),
    );
}

/// Draws one line and records what was painted.  Returns true iff at least one pixel was painted.
fn draw_line(rec: &mut Rec, font: &MonoFont, ln: &LineSpec) -> bool {
    let text = string_of(&ln.chars);
    let style = ln.sty.build(font);
    let pos = Point::new(ln.pos.0, ln.pos.1);
    let mut t = MapTarget::<Gray8>::new();
    let r = catch(|| {
        if ln.api == 0 {
            Text::with_baseline(&text, pos, style, Baseline::Top).draw(&mut t).unwrap()
        } else {
            style.draw_string(&text, pos, Baseline::Top, &mut t).unwrap()
        }
    });
    match r {
        Ok(ret) => {
            rec.ev(
                "line",
                json!({"chars": ln.chars, "pos": [ln.pos.0, ln.pos.1], "api": ln.api, "tc": ln.sty.tc, "bg": ln.sty.bg,
                       "ul": [ln.sty.ul.0, ln.sty.ul.1], "st": [ln.sty.st.0, ln.sty.st.1],
                       "ret": pt_json(ret), "map": raster(&t.map)}),
            );
            !t.map.is_empty()
        }
        Err(p) => {
            rec.ev("panic", json!({"msg": p.msg, "loc": p.loc}));
            rec.note("panicked_lines");
            false
        }
    }
}

fn all_styles(c: [i64; 4]) -> Vec<StyleSpec> {
    let mut v = vec![];
    for tc in [-1, c[0]] {
        for bg in [-1, c[1]] {
            for ul in 0..3 {
                for st in 0..3 {
                    v.push(StyleSpec { tc, bg, ul: (ul, c[2]), st: (st, c[3]) });
                }
            }
        }
    }
    // text colour EQUAL to the background colour ("solid" text), with every decoration combination
    for ul in 0..3 {
        for st in 0..3 {
            v.push(StyleSpec { tc: c[0], bg: c[0], ul: (ul, c[2]), st: (st, c[3]) });
        }
    }
    v
}

fn distinct_colours(rng: &mut Rng) -> [i64; 4] {
    let mut c = [0i64; 4];
    let mut k = 0;
    while k < 4 {
        let v = rng.range(0, 255);
        if !c[..k].contains(&v) {
            c[k] = v;
            k += 1;
        }
    }
    c
}

const STYLE_FONTS: [&str; 6] = [
    "ascii::FONT_4X6",
    "ascii::FONT_6X9",
    "iso_8859_1::FONT_10X20",
    "iso_8859_15::FONT_7X13_ITALIC",
    "jis_x0201::FONT_9X18",
    "iso_8859_5::FONT_5X8",
];

/// Lines drawn with a built-in font (deterministic in name, plan and seed).
fn builtin_lines(bf: &BFont, plan: &str, seed: u64) -> Vec<LineSpec> {
    let mut rng = Rng::new(seed ^ 0xC14B);
    let chars: Vec<u32> = bf.mapping.chars().map(|c| c as u32).collect();
    let col = distinct_colours(&mut rng);
    let text_only = StyleSpec { tc: col[0], bg: -1, ul: (0, 0), st: (0, 0) };
    let four = [
        text_only,
        StyleSpec { tc: col[0], bg: col[1], ul: (0, 0), st: (0, 0) },
        StyleSpec { tc: col[0], bg: col[1], ul: (1, 0), st: (2, col[3]) },
        StyleSpec { tc: -1, bg: col[1], ul: (2, col[2]), st: (2, col[3]) },
    ];
    let mut out = vec![];
    let mut api = 0u8;
    let styles: &[StyleSpec] = if plan == "thorough" { &four } else { &four[..1] };
    for sty in styles {
        for chunk in chars.chunks(16) {
            out.push(LineSpec { chars: chunk.to_vec(), pos: (rng.i32(-40, 40), rng.i32(-40, 40)), sty: *sty, api });
            api ^= 1;
        }
    }
    // unmapped characters next to mapped ones
    let mut un = vec![];
    for (k, &u) in UNMAPPED.iter().enumerate() {
        un.push(u);
        un.push(chars[(k * 37 + 1) % chars.len()]);
    }
    out.push(LineSpec { chars: un.clone(), pos: (3, -2), sty: text_only, api: 0 });
    out.push(LineSpec { chars: un, pos: (-7, 5), sty: four[2], api: 1 });
    // carriage returns: Text treats ONE trailing CR of a line as part of the line ending (CR LF); every other CR
    // (in the middle, or a second one at the end) is an unmapped character with its own cell.  The renderer's
    // draw_string (api 1) knows no line endings at all.
    let (a, b) = (chars[1 % chars.len()], chars[2 % chars.len()]);
    for (k, (cs, api)) in [(vec![a, b, 13, 13], 0u8), (vec![a, 13, b, 13], 0), (vec![13, 13, 13], 0), (vec![a, b, 13], 1), (vec![13, a], 0), (vec![a, 13, 13, 13, 13], 0)]
        .into_iter()
        .enumerate()
    {
        out.push(LineSpec { chars: cs, pos: (k as i32 * 3 - 5, 4 - k as i32), sty: if k % 2 == 0 { four[1] } else { text_only }, api });
    }
    // seeded style combinations on seeded strings
    let combos = all_styles(col);
    let nrand = if plan == "thorough" { 8 } else { 2 };
    for _ in 0..nrand {
        let n = rng.usize(0, 8);
        let s: Vec<u32> = (0..n).map(|_| *rng.pick(&chars)).collect();
        out.push(LineSpec { chars: s, pos: (rng.i32(-40, 40), rng.i32(-40, 40)), sty: *rng.pick(&combos), api: rng.u32r(0, 1) as u8 });
    }
    if plan == "thorough" || STYLE_FONTS.contains(&bf.name) {
        let s: Vec<u32> = (0..6).map(|k| chars[(k * 29 + 33) % chars.len()]).collect();
        for (k, sty) in combos.iter().enumerate() {
            out.push(LineSpec { chars: s.clone(), pos: (k as i32 - 10, 7 - k as i32), sty: *sty, api: (k % 2) as u8 });
        }
    }
    out
}

/// A seeded custom font with lines (deterministic in seed and nlines).
fn custom_case(seed: u64, nlines: usize) -> (FontSpec, Vec<LineSpec>) {
    let mut rng = Rng::new(seed ^ 0xC14C);
    let (cw, ch, s) = (rng.u32r(1, 9), rng.u32r(1, 12), rng.u32r(0, 3));
    // mapping: singles and ranges over several blocks, sometimes duplicated, rarely ill-formed
    // (pools include C0 control characters and DEL: legal in a mapping, e.g. a code page 437 font)
    // ... and code points on both sides of the surrogate gap U+D800..U+DFFF (not chars: a range spanning it has 2048
    // fewer characters than code points)
    let pools: [u32; 10] = [0x61, 0x30, 0x3b1, 0x4e00, 0x1F600, 0x01, 0x10, 0x7b, 0xd7f0, 0xe000];
    let mut map: Vec<u32> = vec![];
    let mut exp: Vec<u32> = vec![];
    // a third of the mappings start like every built-in one: with the complete ASCII range
    if rng.chance(1, 3) {
        map.extend_from_slice(&[0, 0x20, 0x7f]);
        exp.extend(0x20..=0x7f);
    }
    // one mapping in eight has a range that spans the surrogate gap, followed by further entries
    if rng.chance(1, 8) {
        let (lo, hi) = (0xd7ff - rng.u32r(0, 3), 0xe000 + rng.u32r(0, 3));
        map.extend_from_slice(&[0, lo, hi]);
        exp.extend((lo..=hi).filter(|c| char::from_u32(*c).is_some()));
    }
    let nent = rng.usize(0, 6);
    for _ in 0..nent {
        let base = *rng.pick(&pools) + rng.u32r(0, 9);
        if !exp.is_empty() && rng.chance(1, 6) {
            let d = *rng.pick(&exp);
            map.push(d);
            exp.push(d);
        } else if rng.chance(1, 2) {
            let len = rng.u32r(1, 6);
            map.extend_from_slice(&[0, base, base + len - 1]);
            exp.extend(base..base + len);
        } else {
            map.push(base);
            exp.push(base);
        }
    }
    if rng.chance(1, 16) {
        // ill-formed tails: a range without end / a reversed range (the documentation gives them no meaning)
        if rng.bool() {
            map.extend_from_slice(&[0, 0x7a]);
        } else {
            map.extend_from_slice(&[0, 0x7a, 0x78, 0x77]);
        }
    }
    let g = exp.len() as i64;
    let cells = (g + *rng.pick(&[-1i64, 0, 0, 0, 1, 3])).max(1) as u32;
    let gpr = rng.u32r(1, cells.min(7));
    let rows = (cells + gpr - 1) / gpr;
    let aw = gpr * cw + if rng.chance(1, 3) { rng.u32r(0, cw - 1) } else { 0 };
    let ah = rows * ch + if rng.chance(1, 5) { 1 } else { 0 };
    let atlas: Vec<Vec<u8>> = (0..ah)
        .map(|_| {
            let mut row: Vec<u8> = (0..(aw + 7) / 8).map(|_| rng.u32r(0, 255) as u8).collect();
            // padding bits stay zero
            if aw % 8 != 0 {
                let last = row.len() - 1;
                row[last] &= !(0xffu8 >> (aw % 8));
            }
            row
        })
        .collect();
    let font = FontSpec {
        cw,
        ch,
        s,
        bl: rng.u32r(0, ch),
        ul: (rng.u32r(0, ch + 3), rng.u32r(0, 2)),
        st: (rng.u32r(0, ch), rng.u32r(0, 2)),
        aw,
        ah,
        atlas,
        map,
        repl: rng.usize(0, g as usize + 1),
    };
    let col = distinct_colours(&mut rng);
    let combos = all_styles(col);
    let off = rng.usize(0, 44);
    let mut lines = vec![];
    for k in 0..nlines {
        let n = rng.usize(0, 6);
        let chars: Vec<u32> = (0..n)
            .map(|_| {
                if exp.is_empty() || rng.chance(1, 5) {
                    if rng.bool() {
                        *rng.pick(&UNMAPPED)
                    } else {
                        *rng.pick(&pools) + rng.u32r(0, 20)
                    }
                } else {
                    *rng.pick(&exp)
                }
            })
            .collect();
        // (a line feed would split the line of a Text)
        // (... and surrogate code points are not characters)
        let chars: Vec<u32> = chars.into_iter().map(|c| if c == 10 { 11 } else if char::from_u32(c).is_none() { 0xe000 + (c & 7) } else { c }).collect();
        lines.push(LineSpec { chars, pos: (rng.i32(-30, 30), rng.i32(-30, 30)), sty: combos[(k + off) % combos.len()], api: (k % 2) as u8 });
    }
    (font, lines)
}

fn run_explicit(rec: &mut Rec, fs: &FontSpec, lines: &[LineSpec], name: &str) {
    let extra: Vec<u32> = lines.iter().flat_map(|l| l.chars.iter().copied()).collect();
    fs.with_font(|font, mapping| {
        emit_font(rec, font, mapping, &fs.map, fs.repl, false, name, &extra);
        let mut painted = false;
        for ln in lines {
            painted |= draw_line(rec, font, ln);
        }
        if painted {
            rec.nontrivial();
        }
    });
}

fn run_case(rec: &mut Rec, fonts: &[BFont], d: &Value) {
    rec.begin(d.clone());
    match d["k"].as_str().unwrap() {
        "builtin" => {
            let name = d["font"].as_str().unwrap();
            let bf = fonts.iter().find(|b| b.name == name).unwrap_or_else(|| panic!("unknown font {}", name));
            let (raw, repl) = mapping_raw(bf.mapping);
            emit_font(rec, bf.font, bf.mapping, &raw, repl, true, bf.name, &[]);
            let mut painted = false;
            for ln in builtin_lines(bf, d["plan"].as_str().unwrap(), i(&d["seed"]) as u64) {
                painted |= draw_line(rec, bf.font, &ln);
            }
            if painted {
                rec.nontrivial();
            }
        }
        // (G) a font of the domain explored by MC_C14: the same strings and styles
        "mc" => {
            let fs = FontSpec::from_json(d);
            let alphabet = cps_of(&d["alphabet"]);
            let maxlen = i(&d["maxlen"]) as usize;
            let pos = (i(&d["pos"][0]) as i32, i(&d["pos"][1]) as i32);
            let styles: Vec<StyleSpec> = d["styles"].as_array().unwrap().iter().map(StyleSpec::from_arr).collect();
            let mut strings: Vec<Vec<u32>> = vec![vec![]];
            let mut last: Vec<Vec<u32>> = vec![vec![]];
            for _ in 0..maxlen {
                let mut next = vec![];
                for s in &last {
                    for &a in &alphabet {
                        let mut t = s.clone();
                        t.push(a);
                        next.push(t);
                    }
                }
                strings.extend(next.iter().cloned());
                last = next;
            }
            let mut lines = vec![];
            for (k, s) in strings.iter().enumerate() {
                for (j, sty) in styles.iter().enumerate() {
                    lines.push(LineSpec { chars: s.clone(), pos, sty: *sty, api: ((k + j) % 2) as u8 });
                }
            }
            run_explicit(rec, &fs, &lines, "mc");
        }
        "custom" => {
            let (fs, lines) = custom_case(i(&d["seed"]) as u64, i(&d["nlines"]) as usize);
            run_explicit(rec, &fs, &lines, "custom");
        }
        "explicit" => {
            let fs = FontSpec::from_json(&d["font"]);
            let lines: Vec<LineSpec> = d["lines"].as_array().unwrap().iter().map(LineSpec::from_json).collect();
            run_explicit(rec, &fs, &lines, "explicit");
        }
        k => panic!("unknown case kind {}", k),
    }
}

fn main() {
    let args = Args::parse();
    install_panic_hook();
    let mut rec = Rec::new(&args);
    let fonts = builtin_fonts();
    if let Some(cases) = &args.cases {
        for d in cases {
            run_case(&mut rec, &fonts, d);
        }
    } else {
        for d in args.gen.iter().chain(args.witnesses.iter()) {
            run_case(&mut rec, &fonts, d);
        }
        let plan = if args.thorough() { "thorough" } else { "quick" };
        for bf in &fonts {
            run_case(&mut rec, &fonts, &json!({"k": "builtin", "font": bf.name, "plan": plan, "seed": args.seed}));
        }
        rec.note_n("builtin_fonts", fonts.len() as u64);
        let ncustom = if args.thorough() { 400 } else { 40 };
        for n in 0..ncustom {
            run_case(&mut rec, &fonts, &json!({"k": "custom", "seed": args.seed * 100_000 + n, "nlines": 36}));
        }
    }
    rec.finish(json!({}));
}
