------------------------------- MODULE MC_C04 ------------------------------
(* (M) for C04: draw() as the `?`-loop over an abstract program (any sequence *)
(* of <= MaxLen calls over three call kinds), a target that fails call k, and *)
(* an optional adapter layer that forwards results.  TLC explores every       *)
(* program, every k and every interleaving-free run, stepping call by call,   *)
(* and checks the protocol of EGFault at the end of every run.                *)
(* Mutant = "swallow"  : `let _ = target.call()` at one site (negative control)*)
(* Mutant = "finish"   : the loop finishes the current group of calls before   *)
(*                       returning the error (negative control)               *)
EXTENDS P_C04, TLC
CONSTANTS MaxLen, Mutant
VARIABLES prog, k, pc, log, ret, pending

Kinds == {"fill_solid", "fill_contiguous", "draw_iter"}
Mk(m, j) == [m |-> m, area |-> <<j, 0, 1, 1>>, color |-> j, n |-> j, h |-> j, failed |-> FALSE]
Progs == UNION { [1..n -> Kinds] : n \in 0..MaxLen }

Init == /\ prog \in Progs /\ k \in 0..MaxLen /\ (k = 0 \/ k <= Len(prog))
        /\ pc = 1 /\ log = <<>> /\ ret = -1 /\ pending = 0
Ref == [j \in 1..Len(prog) |-> Mk(prog[j], j)]

\* the target: call number j fails at entry iff j = k
Issue == /\ ret = -1 /\ pc <= Len(prog)
         /\ LET fails == (Len(log) + 1 = k) IN
            /\ log' = Append(log, IF fails THEN [Mk(prog[pc], pc) EXCEPT !.failed = TRUE, !.n = 0, !.h = 0] ELSE Mk(prog[pc], pc))
            /\ IF fails /\ pending = 0
               THEN CASE Mutant = "swallow" /\ pc = 2 -> pc' = pc + 1 /\ ret' = -1 /\ pending' = 0
                      [] Mutant = "finish" /\ pc % 2 = 1 /\ pc < Len(prog) -> pc' = pc + 1 /\ ret' = -1 /\ pending' = k
                      [] OTHER -> ret' = k /\ pc' = pc /\ pending' = 0          \* `?`
               ELSE IF pending # 0 THEN ret' = pending /\ pc' = pc /\ pending' = 0
               ELSE pc' = pc + 1 /\ ret' = -1 /\ pending' = 0
         /\ UNCHANGED <<prog, k>>
Finish == /\ ret = -1 /\ pc > Len(prog) /\ ret' = (IF pending # 0 THEN pending ELSE 0)
          /\ UNCHANGED <<prog, k, pc, log, pending>>
Next == Issue \/ Finish
Spec == Init /\ [][Next]_<<prog, k, pc, log, ret, pending>>

Protocol == ret # -1 =>
  IF k = 0 THEN RefRunFails(log, ret) = {} /\ Len(log) = Len(prog)
  ELSE FaultRunFails(Ref, k, log, ret) = {}
=============================================================================
