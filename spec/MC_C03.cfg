CONSTANTS
  Depth = 1
  Gen = TRUE
  Mutant = FALSE
SPECIFICATION Spec
INVARIANTS EffectMatchesLowering ClipRespected BoxesDocumented UnsignedOK
CHECK_DEADLOCK FALSE
