CONSTANTS
  G = 2
  Ws = {1}
  D <- DQuick
  Als = {0, 1, 2}
  HasFill = TRUE
  EdgesUsed <- TwoEdges
SPECIFICATION Spec
INVARIANTS OutlineIsThreeLines
CHECK_DEADLOCK FALSE
