------------------------------- MODULE EGLine -------------------------------
(* Lines of embedded-graphics.  Points are <<x, y>>.                          *)
(* ABSTRACT part: the ideal line through two end points and exact integer     *)
(* predicates about it (perpendicular distance, projection, width).  No       *)
(* intermediate exceeds 2^31 for |coordinates| <= 700 and widths <= 64:       *)
(* squares that would not fit are replaced by integer-square-root brackets    *)
(* and, between the brackets, by a product-free comparison of two fractions.  *)
(* TRANSCRIBED part: what src/primitives/line/{bresenham,points,thick_points} *)
(* .rs and src/primitives/polyline/points.rs compute, one operator per Rust   *)
(* item (anchors are file:line of the pinned tree).  Constant-level operators *)
(* only; the machines that step them live in MC_C17 / MC_C19.                 *)
EXTENDS Integers, Sequences, EGInt, EGGeom

PAdd(p, q) == <<p[1] + q[1], p[2] + q[2]>>
PSub(p, q) == <<p[1] - q[1], p[2] - q[2]>>
PNeg(p)    == <<-p[1], -p[2]>>
Dot(a, b)   == a[1] * b[1] + a[2] * b[2]
Cross(a, b) == a[1] * b[2] - a[2] * b[1]
LenSq(d)    == d[1] * d[1] + d[2] * d[2]
\* number of steps along the major axis
MajorLen(s, e) == Max(Abs(e[1] - s[1]), Abs(e[2] - s[2]))

---------------------------------------------------------------------------
(* Exact comparison of products without forming them.                         *)
\* FracLe(a, c, d, b):  a/c <= d/b  for naturals a, d and positive c, b (Euclid / continued fractions)
RECURSIVE FracLe(_, _, _, _)
FracLe(a, c, d, b) ==
  LET q1 == a \div c   q2 == d \div b   r1 == a % c   r2 == d % b IN
  IF q1 # q2 THEN q1 < q2
  ELSE IF r1 = 0 THEN TRUE
  ELSE IF r2 = 0 THEN FALSE
  ELSE FracLe(b, r2, c, r1)          \* r1/c <= r2/b  <=>  b/r2 <= c/r1
\* a * b <= c * d  for naturals
ProdLe(a, b, c, d) ==
  IF a = 0 \/ b = 0 THEN TRUE
  ELSE IF c = 0 \/ d = 0 THEN FALSE
  ELSE FracLe(a, c, d, b)

---------------------------------------------------------------------------
(* ABSTRACT: the ideal line through s and e (s # e).                          *)
(*   d = e - s, D2 = |d|^2, L = sqrt(D2) (irrational in general)              *)
(*   c  = Cross(d, p - s)    signed perpendicular distance of p times L       *)
(*   dt = Dot(p - s, d)      projection parameter of p (in pixels) times L    *)
(* r = ISqrt(D2) and r4 = ISqrt(4 * D2) are passed in so that they are        *)
(* computed once per line.  For an integer n:  n <= sqrt(N) <=> n <= ISqrt(N) *)

\* perpendicular distance <= k/2 pixels:  2|c| <= k * L  <=>  (2|c|)^2 <= k^2 * D2
DistLeHalves(D2, r, c, k) ==
  LET n == 2 * Abs(c) IN
  IF n <= k * r THEN TRUE
  ELSE IF n >= k * (r + 1) THEN FALSE
  ELSE ProdLe(n, n, k * k, D2)
\* half a pixel (k = 1) needs no bracket at all
WithinHalf(D2, r, c) == 2 * Abs(c) <= r
\* projection within one pixel of the two ends:  -1 <= dt / L <= L + 1
ProjWithinEnds(D2, r, dt) == (-dt <= r) /\ (dt - D2 <= r)
\* projection in the middle half of the segment, +- half a pixel:  L/4 - 1/2 <= dt / L <= 3L/4 + 1/2
InMiddle(D2, r4, dt) == (D2 - 4 * dt <= r4) /\ (4 * dt - 3 * D2 <= r4)
\* perpendicular extent E / L (E = max c - min c) plus one pixel is at least w - 1
WidthOK(D2, r, E, w) ==
  IF w <= 2 THEN TRUE
  ELSE LET k == w - 2 IN
       IF E >= k * (r + 1) THEN TRUE
       ELSE IF E < k * r THEN FALSE
       ELSE ProdLe(k * k, D2, E, E)

---------------------------------------------------------------------------
(* TRANSCRIBED: src/primitives/line/bresenham.rs                              *)
(* parameters  [thr, esMajor, esMinor, psMajor, psMinor]                      *)
(* state       [pt, err]                                                      *)

\* BresenhamParameters::new (bresenham.rs:42-70)
BParams(s, e) ==
  LET delta  == PSub(e, s)
      dir    == << IF delta[1] >= 0 THEN 1 ELSE -1, IF delta[2] >= 0 THEN 1 ELSE -1 >>
      ad     == <<Abs(delta[1]), Abs(delta[2])>>
      ymajor == ad[2] >= ad[1]                                   \* bresenham.rs:53
      dmaj   == IF ymajor THEN ad[2] ELSE ad[1]
      dmin   == IF ymajor THEN ad[1] ELSE ad[2]
  IN [ thr     |-> dmaj,                                          \* error_threshold (:66)
       esMajor |-> 2 * dmin,                                      \* error_step.major (:67)
       esMinor |-> 2 * dmaj,                                      \* error_step.minor (:67)
       psMajor |-> IF ymajor THEN <<0, dir[2]>> ELSE <<dir[1], 0>>,
       psMinor |-> IF ymajor THEN <<dir[1], 0>> ELSE <<0, dir[2]>> ]
\* increase_error (bresenham.rs:76): <<threshold reached, error'>>
IncreaseError(par, err) ==
  LET e1 == err + par.esMajor IN IF e1 > par.thr THEN <<TRUE, e1 - par.esMinor>> ELSE <<FALSE, e1>>
\* decrease_error (bresenham.rs:91)
DecreaseError(par, err) ==
  LET e1 == err - par.esMajor IN IF e1 <= -par.thr THEN <<TRUE, e1 + par.esMinor>> ELSE <<FALSE, e1>>
\* mirror_extra_points (bresenham.rs:105)
MirrorExtra(par) ==
  IF par.psMajor[1] # 0 THEN par.psMajor[1] = par.psMinor[2] ELSE par.psMajor[2] = -par.psMinor[1]

BInit(p)        == [pt |-> p, err |-> 0]                         \* Bresenham::new (:127)
BWithErr(p, er) == [pt |-> p, err |-> er]                        \* with_initial_error (:132)
\* Bresenham::next (bresenham.rs:140-152): <<returned point, state'>>
BNext(par, b) ==
  LET b1 == IF b.err > par.thr                                    \* :141
            THEN [pt |-> PAdd(b.pt, par.psMinor), err |-> b.err - par.esMinor]
            ELSE b
  IN << b1.pt, [pt |-> PAdd(b1.pt, par.psMajor), err |-> b1.err + par.esMajor] >>
\* next_all (bresenham.rs:155): <<"N" | "E", point, state'>>
BNextAll(par, b) ==
  IF b.err > par.thr
  THEN << "E", IF MirrorExtra(par) THEN PSub(PAdd(b.pt, par.psMinor), par.psMajor) ELSE b.pt,
          [pt |-> PAdd(b.pt, par.psMinor), err |-> b.err - par.esMinor] >>
  ELSE << "N", b.pt, [pt |-> PAdd(b.pt, par.psMajor), err |-> b.err + par.esMajor] >>
\* previous_all (bresenham.rs:177)
BPrevAll(par, b) ==
  IF b.err <= -par.thr
  THEN << "E", IF ~MirrorExtra(par) THEN PAdd(PSub(b.pt, par.psMinor), par.psMajor) ELSE b.pt,
          [pt |-> PSub(b.pt, par.psMinor), err |-> b.err + par.esMinor] >>
  ELSE << "N", b.pt, [pt |-> PSub(b.pt, par.psMajor), err |-> b.err - par.esMajor] >>
\* major_length (bresenham.rs:215)
MajorLength(s, e) == MajorLen(s, e) + 1

---------------------------------------------------------------------------
(* TRANSCRIBED: line::Points (points.rs)   state [par, b, rem]                *)
LPInit(s, e) == [par |-> BParams(s, e), b |-> BInit(s), rem |-> MajorLength(s, e)]      \* Points::new (:24)
LPEmpty == [LPInit(<<0, 0>>, <<0, 0>>) EXCEPT !.rem = 0]                                 \* Points::empty (:37)
\* Iterator::next (points.rs:50): <<some?, item, state'>>
LPNext(it) ==
  IF it.rem > 0
  THEN LET r == BNext(it.par, it.b) IN <<TRUE, r[1], [it EXCEPT !.rem = @ - 1, !.b = r[2]]>>
  ELSE <<FALSE, <<>>, it>>
RECURSIVE LPDrain(_, _)
LPDrain(it, acc) == LET r == LPNext(it) IN IF r[1] THEN LPDrain(r[3], Append(acc, r[2])) ELSE acc
\* the whole sequence of Line::new(s, e).points()
LinePoints(s, e) == LPDrain(LPInit(s, e), <<>>)

---------------------------------------------------------------------------
(* TRANSCRIBED: ParallelsIterator / ThickPoints (thick_points.rs), for        *)
(* StrokeOffset::None (the only one a styled Line uses, thick_points.rs:224). *)
(* state [par, perp, acc, thresh, flip, left, leftErr, right, rightErr, side] *)

\* next_parallel (thick_points.rs:134-163): <<"N" | "E", point, error, state'>>
RECURSIVE ParNextParallel(_, _)
ParNextParallel(it, side) ==
  LET dec == IF side = "L" THEN it.flip ELSE ~it.flip                                    \* :135-138
      err == IF side = "L" THEN it.leftErr ELSE it.rightErr
      r   == IF side = "L" THEN BNextAll(it.perp, it.left) ELSE BPrevAll(it.perp, it.right)   \* :141-144
      it1 == IF side = "L" THEN [it EXCEPT !.left = r[3]] ELSE [it EXCEPT !.right = r[3]]
      SetErr(i, v) == IF side = "L" THEN [i EXCEPT !.leftErr = v] ELSE [i EXCEPT !.rightErr = v]
  IN IF r[1] = "N" THEN <<"N", r[2], err, it1>>                                          \* :147
     ELSE IF dec
          THEN LET d == DecreaseError(it.par, err) IN                                    \* :151-156
               IF d[1] THEN <<"E", r[2], err, SetErr(it1, d[2])>>
               ELSE ParNextParallel(SetErr(it1, d[2]), side)
          ELSE LET d == IncreaseError(it.par, err) IN                                    \* :157-159
               IF d[1] THEN <<"E", r[2], d[2], SetErr(it1, d[2])>>
               ELSE ParNextParallel(SetErr(it1, d[2]), side)
\* ParallelsIterator::new (thick_points.rs:81-131)
\* off = "N" (StrokeOffset::None), "L" (Left), "R" (Right); :106-110 the first side, :128 the centre line is skipped
ParInitO(s, e, thickness, off) ==
  LET ls   == IF s = e THEN <<0, 0>> ELSE s                                              \* :87 HORIZONTAL_LINE
      le   == IF s = e THEN <<1, 0>> ELSE e
      par  == BParams(ls, le)
      dl   == PSub(le, ls)
      perp == BParams(ls, PAdd(ls, <<dl[2], -dl[1]>>))                                   \* Line::perpendicular (mod.rs:100)
      it0  == [ par |-> par, perp |-> perp,
                acc |-> (par.esMinor + par.esMajor) \div 2,                              \* :100-101
                thresh |-> (thickness * 2) * (thickness * 2) * LenSq(dl),                \* :98-99 (i64 in the code; no overflow here)
                flip |-> perp.psMinor = PNeg(par.psMajor),                               \* :104-105
                left |-> BInit(s), leftErr |-> 0, right |-> BInit(s), rightErr |-> 0,
                side |-> IF off = "L" THEN "L" ELSE "R", off |-> off ]                   \* :106-110
  IN ParNextParallel(it0, IF it0.side = "L" THEN "R" ELSE "L")[4]                        \* :128 skip centre line
ParInit(s, e, thickness) == ParInitO(s, e, thickness, "N")
\* Iterator::next (thick_points.rs:170-203): <<some?, [b, kind], state'>>
ParNext(it) ==
  IF it.acc * it.acc > it.thresh THEN <<FALSE, <<>>, it>>                                \* :171
  ELSE LET r   == ParNextParallel(it, it.side)
           it1 == [r[4] EXCEPT !.acc = @ + (IF r[1] = "N" THEN it.perp.esMinor ELSE it.perp.esMajor),
                               !.side = IF it.off # "N" THEN it.side ELSE IF it.side = "L" THEN "R" ELSE "L"]   \* :198-200
       IN <<TRUE, [b |-> BWithErr(r[2], r[3]), kind |-> r[1]], it1>>

\* ThickPoints (thick_points.rs:209-251)   state [parallel, len, rem, iter]
ThickInit(s, e, w) ==
  [parallel |-> BInit(s), len |-> MajorLength(s, e), rem |-> 0, iter |-> ParInit(s, e, w)]
\* Iterator::next (:232): <<some?, point, state'>>
RECURSIVE ThickNext(_)
ThickNext(t) ==
  IF t.rem > 0
  THEN LET r == BNext(t.iter.par, t.parallel) IN <<TRUE, r[1], [t EXCEPT !.rem = @ - 1, !.parallel = r[2]]>>
  ELSE LET n == ParNext(t.iter) IN
       IF ~n[1] THEN <<FALSE, <<>>, t>>                                                  \* :239 `?`
       ELSE ThickNext([t EXCEPT !.parallel = n[2].b, !.iter = n[3],
                                !.rem = IF n[2].kind = "E" THEN t.len - 1 ELSE t.len])   \* :242-247
RECURSIVE ThickDrain(_, _)
ThickDrain(t, acc) == LET r == ThickNext(t) IN IF r[1] THEN ThickDrain(r[3], Append(acc, r[2])) ELSE acc
\* the point sequence of Styled<Line>::pixels() for stroke width w >= 1 (styled.rs:22-45)
ThickSeq(s, e, w) == ThickDrain(ThickInit(s, e, w), <<>>)
---------------------------------------------------------------------------
(* TRANSCRIBED: Line::extents (line/mod.rs:110-173) for StrokeOffset::None and *)
(* the styled bounding box of a line (line/styled.rs:71-88).  The extents are  *)
(* the outermost right / left parallels the ParallelsIterator produces; an     *)
(* "extra" parallel is one step shorter (`reduce`).                            *)
RECURSIVE ExtLoop(_, _, _, _)
ExtLoop(it, nextIsRight, l, r) ==                                                        \* :124-136
  LET n == ParNext(it) IN
  IF ~n[1] THEN <<l, r>>
  ELSE IF nextIsRight THEN ExtLoop(n[3], FALSE, l, <<n[2].b.pt, n[2].kind>>)
       ELSE ExtLoop(n[3], TRUE, <<n[2].b.pt, n[2].kind>>, r)
\* << left line, right line >>, each << start, end >>
RECURSIVE ParLast(_, _)
ParLast(it, acc) == LET n == ParNext(it) IN IF ~n[1] THEN acc ELSE ParLast(n[3], <<n[2].b.pt, n[2].kind>>)   \* Iterator::last
ExtentsO(s, e, w, off) ==
  LET it     == ParInitO(s, e, w, off)
      reduce == PAdd(it.par.psMajor, it.par.psMinor)                                     \* :116-117
      lr     == CASE off = "N" -> ExtLoop(it, TRUE, <<s, "N">>, <<s, "N">>)
                  [] off = "L" -> <<ParLast(it, <<s, "N">>), <<s, "N">>>>                \* :137-141
                  [] OTHER     -> <<<<s, "N">>, ParLast(it, <<s, "N">>)>>                \* :142-146
      delta  == PSub(e, s)
      Mk(x)  == <<x[1], PSub(PAdd(x[1], delta), IF x[2] = "E" THEN reduce ELSE <<0, 0>>)>>  \* :154-170
  IN <<Mk(lr[1]), Mk(lr[2])>>
ExtentsT(s, e, w) == ExtentsO(s, e, w, "N")
LineStyledBoxT(s, e, w) ==
  LET x == ExtentsT(s, e, w)  a == x[1][1]  b == x[1][2]  c == x[2][1]  d == x[2][2]
      lo == <<Min(Min(a[1], b[1]), Min(c[1], d[1])), Min(Min(a[2], b[2]), Min(c[2], d[2]))>>
      hi == <<Max(Max(a[1], b[1]), Max(c[1], d[1])), Max(Max(a[2], b[2]), Max(c[2], d[2]))>>
  IN <<lo[1], lo[2], hi[1] - lo[1] + 1, hi[2] - lo[2] + 1>>                              \* Rectangle::with_corners
---------------------------------------------------------------------------
(* TRANSCRIBED: polyline::Points (src/primitives/polyline/points.rs)          *)
(* state [verts (the slice still to be visited), tr (translate), seg]         *)
\* Points::new (points.rs:20-44)
PolyInit(v, off) ==
  IF Len(v) >= 2
  THEN [verts |-> Tail(v), tr |-> off, seg |-> LPInit(PAdd(v[1], off), PAdd(v[2], off))]
  ELSE [verts |-> <<>>, tr |-> <<0, 0>>, seg |-> LPEmpty]
\* Iterator::next (points.rs:50-64) and the default Iterator::nth it calls on itself: <<some?, item, state'>>
RECURSIVE PolyNext(_), PolyNth(_, _)
PolyNext(it) ==
  LET r == LPNext(it.seg) IN
  IF r[1] THEN <<TRUE, r[2], [it EXCEPT !.seg = r[3]]>>                                  \* :51
  ELSE IF Len(it.verts) < 2 THEN <<FALSE, <<>>, it>>                                     \* :54-55 `?`
  ELSE PolyNth([it EXCEPT !.verts = Tail(it.verts),                                      \* :57
                          !.seg = LPInit(PAdd(it.verts[1], it.tr), PAdd(it.verts[2], it.tr))], 1)   \* :59, :62
PolyNth(it, k) ==
  IF k = 0 THEN PolyNext(it)
  ELSE LET r == PolyNext(it) IN IF r[1] THEN PolyNth(r[3], k - 1) ELSE r
RECURSIVE PolyDrain(_, _)
PolyDrain(it, acc) == LET r == PolyNext(it) IN IF r[1] THEN PolyDrain(r[3], Append(acc, r[2])) ELSE acc
PolyPoints(v, off) == PolyDrain(PolyInit(v, off), <<>>)
=============================================================================
