------------------------------- MODULE EGFont ------------------------------
(* Monospaced fonts of embedded-graphics: glyph mappings, glyph cells, the    *)
(* MonoTextStyle line renderer and measure_string.                            *)
(*                                                                            *)
(* Data conventions (shared by MC_C14/MC_C15 and the trace specifications):   *)
(*   character   its Unicode code point (integer); NUL = 0                    *)
(*   mapping     the raw StrGlyphMapping string as a sequence of code points  *)
(*   font        record [cw, ch, s, bl, ul, st, aw, ah, atlas, map, repl]     *)
(*               cw, ch  character_size        s   character_spacing          *)
(*               bl      baseline              ul, st  <<offset, height>>     *)
(*               aw, ah  size of the glyph atlas (font.image)                 *)
(*               atlas   ah rows of ceil(aw/8) bytes, most significant bit =  *)
(*                       leftmost pixel, as read through font.image.pixel()   *)
(*               map, repl   mapping string and replacement index             *)
(*   style       record [tc, bg, ulm, ulc, stm, stc]; tc/bg = colour or NoCol,*)
(*               ulm/stm = 0 None, 1 TextColor, 2 Custom(ulc / stc)           *)
(*   baseline    0 Top, 1 Bottom, 2 Middle, 3 Alphabetic                      *)
(*   raster      a picture as <<x, y, w, h, rows>>: the tight bounding box of *)
(*               the touched pixels and h rows of w colours, NoCol = pixel    *)
(*               untouched; nothing touched = <<0, 0, 0, 0, <<>>>>            *)
(*   pic         a picture as a function  touched point -> colour  (MC only)  *)
(*                                                                            *)
(* The ABSTRACT part states what the properties C14/C15 talk about, the       *)
(* TRANSCRIBED part mirrors src/mono_font/{mapping,mod,mono_text_style,       *)
(* draw_target}.rs item by item.  Only the abstract part may produce verdicts.*)
EXTENDS Integers, Sequences, FiniteSets, TLC, EGInt, EGGeom

NUL   == 0
NoCol == -1

\* TLC keeps [i \in 1..n |-> e] as an unevaluated lambda and re-evaluates e on every application;
\* concatenation forces it into an explicit tuple
Mat(s) == s \o <<>>
SetMin(S) == CHOOSE x \in S : \A y \in S : x <= y
SetMax(S) == CHOOSE x \in S : \A y \in S : x >= y

---------------------------------------------------------------------------
(* Pictures *)
EmptyRaster == <<0, 0, 0, 0, <<>>>>
RBox(R) == <<R[1], R[2], R[3], R[4]>>
RIsEmpty(R) == R[3] = 0
\* colour of a pixel, NoCol when the picture did not touch it
RGet(R, px, py) ==
  IF px >= R[1] /\ px < R[1] + R[3] /\ py >= R[2] /\ py < R[2] + R[4]
  THEN R[5][py - R[2] + 1][px - R[1] + 1] ELSE NoCol
\* the raster is canonical: right dimensions and a tight box, so that equal pictures are equal values
RCanonical(R) ==
  /\ Len(R[5]) = R[4] /\ \A j \in 1..R[4] : Len(R[5][j]) = R[3]
  /\ IF R[3] = 0 \/ R[4] = 0 THEN R = EmptyRaster
     ELSE /\ ~(\A i \in 1..R[3] : R[5][1][i] = NoCol)        \* (no \E: in an action conjunct TLC would
          /\ ~(\A i \in 1..R[3] : R[5][R[4]][i] = NoCol)     \*  branch on every witness)
          /\ ~(\A j \in 1..R[4] : R[5][j][1] = NoCol)
          /\ ~(\A j \in 1..R[4] : R[5][j][R[3]] = NoCol)
RShift(R, d) == IF R[3] = 0 THEN R ELSE <<R[1] + d[1], R[2] + d[2], R[3], R[4], R[5]>>
\* smallest rectangle containing the rectangles of a non-empty sequence (empty ones ignored)
RECURSIVE HullFrom(_, _, _)
HullFrom(bs, i, acc) ==
  IF i > Len(bs) THEN acc
  ELSE HullFrom(bs, i + 1,
         IF IsEmpty(bs[i]) THEN acc
         ELSE IF IsEmpty(acc) THEN bs[i]
         ELSE LET l == Min(acc[1], bs[i][1])  t == Min(acc[2], bs[i][2])
                  r == Max(acc[1] + acc[3], bs[i][1] + bs[i][3])
                  b == Max(acc[2] + acc[4], bs[i][2] + bs[i][4])
              IN <<l, t, r - l, b - t>>)
Hull(bs) == HullFrom(bs, 1, <<0, 0, 0, 0>>)
\* colour of a pixel after painting the rasters Rs[1], Rs[2], ... in this order ("later wins")
RECURSIVE TopMostFrom(_, _, _, _)
TopMostFrom(Rs, i, px, py) ==
  IF i = 0 THEN NoCol
  ELSE LET c == RGet(Rs[i], px, py) IN IF c # NoCol THEN c ELSE TopMostFrom(Rs, i - 1, px, py)
TopMost(Rs, px, py) == TopMostFrom(Rs, Len(Rs), px, py)
\* picture A is exactly the overlay of the pictures Rs
ROverlayEq(A, Rs) ==
  LET h == Hull(<<RBox(A)>> \o [i \in 1..Len(Rs) |-> RBox(Rs[i])]) IN
  \A py \in h[2]..(h[2] + h[4] - 1) : \A px \in h[1]..(h[1] + h[3] - 1) :
     RGet(A, px, py) = TopMost(Rs, px, py)
\* painted columns / rows of a non-empty raster
RXMin(R) == R[1]
RXMax(R) == R[1] + R[3] - 1
RYMin(R) == R[2]
RYMax(R) == R[2] + R[4] - 1

EmptyPic == [p \in {} |-> NoCol]
\* paint `top` over `bottom`
PicOver(top, bottom) == top @@ bottom
PicSolid(r, c) == [p \in PointsOf(r) |-> c]
RasterOfPic(pic) ==
  IF DOMAIN pic = {} THEN EmptyRaster
  ELSE LET xs == { p[1] : p \in DOMAIN pic }   ys == { p[2] : p \in DOMAIN pic }
           x0 == SetMin(xs)  x1 == SetMax(xs)  y0 == SetMin(ys)  y1 == SetMax(ys)
       IN <<x0, y0, x1 - x0 + 1, y1 - y0 + 1,
            [j \in 1..(y1 - y0 + 1) |-> [i \in 1..(x1 - x0 + 1) |->
               IF <<x0 + i - 1, y0 + j - 1>> \in DOMAIN pic THEN pic[<<x0 + i - 1, y0 + j - 1>>] ELSE NoCol]]>>

---------------------------------------------------------------------------
(* ABSTRACT: glyph mapping.  mapping.rs:14-42 (module documentation): a       *)
(* string without NUL maps a character to its position in the string; NUL     *)
(* followed by the start and end characters denotes the inclusive range.      *)
RangeSeq(lo, hi) == IF hi < lo THEN <<>> ELSE [i \in 1..(hi - lo + 1) |-> lo + i - 1]
\* the CHARACTERS lo..=hi: the surrogate code points U+D800..U+DFFF are not characters (a Rust `char` range skips them)
CharRangeSeq(lo, hi) ==
  IF hi < lo THEN <<>>
  ELSE IF hi < 55296 \/ lo > 57343 THEN RangeSeq(lo, hi)
  ELSE RangeSeq(lo, IF 55295 < hi THEN 55295 ELSE hi) \o RangeSeq(IF 57344 > lo THEN 57344 ELSE lo, hi)
\* every NUL is followed by a start and an end character with start <= end; the documentation
\* gives no meaning to anything else
RECURSIVE WFFrom(_, _)
WFFrom(m, i) ==
  IF i > Len(m) THEN TRUE
  ELSE IF m[i] = NUL THEN i + 2 <= Len(m) /\ m[i + 1] <= m[i + 2] /\ WFFrom(m, i + 3)
  ELSE WFFrom(m, i + 1)
WellFormedMapping(m) == WFFrom(m, 1)
\* the expanded mapping string (only meaningful for a well-formed mapping)
RECURSIVE ExpandFrom(_, _)
ExpandFrom(m, i) ==
  IF i > Len(m) THEN <<>>
  ELSE IF m[i] = NUL THEN CharRangeSeq(m[i + 1], m[i + 2]) \o ExpandFrom(m, i + 3)
  ELSE <<m[i]>> \o ExpandFrom(m, i + 1)
Expand(m) == ExpandFrom(m, 1)
\* exp = Expand(map).  Index of character c: its (first) position in the expanded string, counted
\* from 0, else the replacement index
Mapped(exp, c) == \E i \in 1..Len(exp) : exp[i] = c
IndexIn(exp, repl, c) ==
  IF Mapped(exp, c) THEN SetMin({ i \in 1..Len(exp) : exp[i] = c }) - 1 ELSE repl
Injective(exp) == \A i, j \in 1..Len(exp) : exp[i] = exp[j] => i = j

(* ABSTRACT: glyph cells.  Glyphs are laid out in the atlas row by row,       *)
(* gpr = aw div cw glyphs per row (mono_font/mod.rs:27-35 documentation).     *)
GlyphsPerRow(f) == f.aw \div f.cw
Cell(f, i) == <<(i % GlyphsPerRow(f)) * f.cw, (i \div GlyphsPerRow(f)) * f.ch, f.cw, f.ch>>
CellInAtlas(f, i) ==
  /\ f.cw > 0 /\ f.ch > 0 /\ GlyphsPerRow(f) > 0
  /\ LET c == Cell(f, i) IN c[1] + c[3] <= f.aw /\ c[2] + c[4] <= f.ah
AtlasBit(f, x, y) == (f.atlas[y + 1][(x \div 8) + 1] \div (2 ^ (7 - (x % 8)))) % 2
AtlasWellFormed(f) ==
  /\ Len(f.atlas) = f.ah
  /\ \A y \in 1..f.ah : Len(f.atlas[y]) = (f.aw + 7) \div 8 /\ \A b \in 1..Len(f.atlas[y]) : f.atlas[y][b] \in 0..255

(* ABSTRACT: a line of n characters *)
Advance(f) == f.cw + f.s
LineWidth(f, n) == IF n = 0 THEN 0 ELSE n * Advance(f) - f.s
\* offset between the line position and the top of the character cell
BaselineOff(f, base) ==
  CASE base = 0 -> 0
    [] base = 1 -> f.ch - 1
    [] base = 2 -> (f.ch - 1) \div 2
    [] OTHER    -> f.bl
\* colour a decoration is painted with (NoCol: not painted)
EffDeco(mode, c, tc) == CASE mode = 0 -> NoCol [] mode = 1 -> tc [] OTHER -> c

---------------------------------------------------------------------------
(* TRANSCRIBED: StrGlyphMapping::chars() (mapping.rs:114-131): a from_fn      *)
(* closure over data.chars() flattened.  State: i = next position in the      *)
(* data, cur..hi = rest of the range being flattened.                         *)
EndCh == -1      \* the iterator returned None (characters are >= 0)
CharsInit == [i |-> 1, cur |-> 0, hi |-> -1]
RECURSIVE CharsNext(_, _)
CharsNext(m, st) ==
  IF st.cur <= st.hi THEN <<st.cur, [st EXCEPT !.cur = IF @ = 55295 THEN 57344 ELSE @ + 1]>>   \* Step for char skips U+D800..U+DFFF
  ELSE IF st.i > Len(m) THEN <<EndCh, st>>                                 \* mapping.rs:118 `chars.next()?`
  ELSE IF m[st.i] = NUL THEN
         IF st.i + 2 > Len(m) THEN <<EndCh, [i |-> Len(m) + 1, cur |-> 0, hi |-> -1]>>  \* :120-121 `?` on start / end
         ELSE CharsNext(m, [i |-> st.i + 3, cur |-> m[st.i + 1], hi |-> m[st.i + 2]])   \* :123 start..=end
  ELSE CharsNext(m, [i |-> st.i + 1, cur |-> m[st.i], hi |-> m[st.i]])                  \* :125 c..=c
RECURSIVE CharsDrain(_, _, _)
CharsDrain(m, st, acc) ==
  LET r == CharsNext(m, st) IN IF r[1] = EndCh THEN acc ELSE CharsDrain(m, r[2], Append(acc, r[1]))
CharsT(m) == CharsDrain(m, CharsInit, <<>>)
\* GlyphMapping::index for StrGlyphMapping (mapping.rs:140-147): enumerate().find()
RECURSIVE IndexLoop(_, _, _, _, _)
IndexLoop(m, repl, c, st, n) ==
  LET r == CharsNext(m, st) IN
  IF r[1] = EndCh THEN repl ELSE IF r[1] = c THEN n ELSE IndexLoop(m, repl, c, r[2], n + 1)
IndexT(m, repl, c) == IndexLoop(m, repl, c, CharsInit, 0)

(* TRANSCRIBED: MonoFont::glyph (mono_font/mod.rs:100-124) returns the area   *)
(* of an unchecked SubImage of the atlas.                                     *)
GlyphT(f, c) ==
  IF f.cw = 0 \/ f.aw < f.cw THEN Zero                                     \* mod.rs:101-103
  ELSE LET gpr == f.aw \div f.cw                                            \* :105
           gi  == IndexT(f.map, f.repl, c)                                  \* :109
           row == gi \div gpr                                               \* :110
       IN <<(gi - row * gpr) * f.cw, row * f.ch, f.cw, f.ch>>               \* :113-123
\* ImageRaw::draw_sub_image (image/image_raw.rs:221-233) draws nothing unless the area is
\* non-empty and inside the image
SubImageDrawn(f, a) ==
  ~(a[3] = 0 \/ a[4] = 0 \/ a[1] < 0 \/ a[2] < 0 \/ a[1] + a[3] > f.aw \/ a[2] + a[4] > f.ah)

(* TRANSCRIBED: line_elements (mono_text_style.rs:75-107).  State: position   *)
(* x, y; k = index of next_char in the line (k > n: None); addSp.             *)
LEInit(pos) == [x |-> pos[1], y |-> pos[2], k |-> 1, addSp |-> FALSE]
LENext(f, n, st) ==
  IF st.addSp                                                               \* :88-94
  THEN [p |-> <<st.x, st.y>>, el |-> "Spacing", i |-> 0, st |-> [st EXCEPT !.x = @ + f.s, !.addSp = FALSE]]
  ELSE IF st.k <= n                                                         \* :95-102
  THEN [p |-> <<st.x, st.y>>, el |-> "Char", i |-> st.k,
        st |-> [st EXCEPT !.x = @ + f.cw, !.k = @ + 1, !.addSp = (st.k + 1 <= n)]]
  ELSE [p |-> <<st.x, st.y>>, el |-> "Done", i |-> 0, st |-> st]             \* :103-105

(* TRANSCRIBED: MonoFontDrawTarget (draw_target.rs).  The binary glyph image  *)
(* arrives as fill_contiguous(area, bits), spacing as fill_solid(area, Off).  *)
(* The effect on the parent target is written directly as painted pixels      *)
(* ("set these pixels, later wins"; the call protocol itself is C01/C03).     *)
\* Foreground :21-34, Background :59-72, Both :97-111
GlyphPic(f, sty, p, a) ==
  LET all == PointsOf(<<p[1], p[2], a[3], a[4]>>)
      bit(q) == AtlasBit(f, a[1] + q[1] - p[1], a[2] + q[2] - p[2])
      shown == CASE sty.tc # NoCol /\ sty.bg # NoCol -> all
                 [] sty.tc # NoCol /\ sty.bg = NoCol -> { q \in all : bit(q) = 1 }
                 [] OTHER                            -> { q \in all : bit(q) = 0 }
  IN [q \in shown |-> IF bit(q) = 1 THEN sty.tc ELSE sty.bg]
\* fill_solid(area, Off): Foreground :43-48 nothing, Background :81-86 / Both :120-125 background
SpacingPic(f, sty, p) ==
  IF f.s > 0 /\ sty.bg # NoCol THEN PicSolid(<<p[1], p[2], f.s, f.ch>>, sty.bg) ELSE EmptyPic   \* mono_text_style.rs:147-161

(* TRANSCRIBED: TextRenderer::draw_string for MonoTextStyle                   *)
(* (mono_text_style.rs:193-235) as a machine.  State ds:                      *)
(*   phase  "arm" -> ("el" ->)* "strike" -> "under" -> "ret"                  *)
(*   pos    line position after subtracting the baseline offset (:203)        *)
(*   le     line_elements state      next   `next` of :205                    *)
(*   pic    the picture painted so far                                        *)
BaselineOffT(f, base) ==                                                    \* :170-184
  CASE base = 0 -> 0
    [] base = 1 -> SatAsI32(SatSubU(f.ch, 1))
    [] base = 2 -> SatAsI32(SatSubU(f.ch, 1) \div 2)
    [] OTHER    -> SatAsI32(f.bl)
DSInit(f, pos, base, pic) ==
  LET p == <<pos[1], pos[2] - BaselineOffT(f, base)>> IN                    \* :203
  [phase |-> "arm", pos |-> p, le |-> LEInit(p), next |-> p, pic |-> pic]
DecorationPic(f, sty, which, width, pos) ==                                \* draw_decorations :109-129
  LET d == IF which = "strike" THEN f.st ELSE f.ul
      c == IF which = "strike" THEN EffDeco(sty.stm, sty.stc, sty.tc) ELSE EffDeco(sty.ulm, sty.ulc, sty.tc)
  IN IF c = NoCol THEN EmptyPic
     ELSE PicSolid(<<pos[1], pos[2] + d[1], width, d[2]>>, c)               \* mod.rs get_bounding_box :196-201
\* name of the step the machine takes next
DSAction(f, sty, chars, ds) ==
  CASE ds.phase = "arm"    -> "Arm"
    [] ds.phase = "el"     -> LENext(f, Len(chars), ds.le).el          \* "Char" | "Spacing" | "Done"
    [] ds.phase = "strike" -> "Strike"
    [] ds.phase = "under"  -> "Underline"
    [] OTHER               -> "Return"
DSStep(f, sty, chars, ds) ==
  CASE ds.phase = "arm" ->
         IF sty.tc = NoCol /\ sty.bg = NoCol                                \* :221-226
         THEN [ds EXCEPT !.phase = "strike", !.next = <<ds.pos[1] + (f.cw + f.s) * Len(chars), ds.pos[2]>>]
         ELSE [ds EXCEPT !.phase = "el"]                                    \* :206-220 draw_string_binary
    [] ds.phase = "el" ->
         LET e == LENext(f, Len(chars), ds.le) IN
         CASE e.el = "Char" ->                                              \* :142-145
                LET a == GlyphT(f, chars[e.i]) IN
                [ds EXCEPT !.le = e.st,
                           !.pic = IF SubImageDrawn(f, a) THEN PicOver(GlyphPic(f, sty, e.p, a), @) ELSE @]
           [] e.el = "Spacing" -> [ds EXCEPT !.le = e.st, !.pic = PicOver(SpacingPic(f, sty, e.p), @)]
           [] OTHER -> [ds EXCEPT !.phase = "strike", !.next = e.p]         \* :162
    [] ds.phase = "strike" ->                                               \* :229-232, :118-121
         [ds EXCEPT !.phase = "under",
                    !.pic = IF ds.next[1] > ds.pos[1]
                            THEN PicOver(DecorationPic(f, sty, "strike", ds.next[1] - ds.pos[1], ds.pos), @) ELSE @]
    [] ds.phase = "under" ->                                                \* :123-126
         [ds EXCEPT !.phase = "ret",
                    !.pic = IF ds.next[1] > ds.pos[1]
                            THEN PicOver(DecorationPic(f, sty, "under", ds.next[1] - ds.pos[1], ds.pos), @) ELSE @]
    [] OTHER -> ds
DSDone(ds) == ds.phase = "ret"
\* the returned position (:234)
DSReturn(f, base, ds) == <<ds.next[1], ds.next[2] + BaselineOffT(f, base)>>
RECURSIVE DSRun(_, _, _, _)
DSRun(f, sty, chars, ds) == IF DSDone(ds) THEN ds ELSE DSRun(f, sty, chars, DSStep(f, sty, chars, ds))
\* draw_string as a function: [pic, ret]
DrawStringT(f, sty, chars, pos, base, pic) ==
  LET ds == DSRun(f, sty, chars, DSInit(f, pos, base, pic)) IN [pic |-> ds.pic, ret |-> DSReturn(f, base, ds)]

(* TRANSCRIBED: measure_string (mono_text_style.rs:263-286, as of c499d29) *)
MeasureStringT(f, sty, n, pos, base) ==
  LET w == SatSubU(n * (f.cw + f.s), f.s)                                   \* :266-268
      h == IF sty.ulm # 0 THEN Max(f.ul[2] + f.ul[1], f.ch) ELSE f.ch       \* :272-277
  IN [box |-> <<pos[1], pos[2] - BaselineOffT(f, base), w, h>>, next |-> <<pos[1] + w, pos[2]>>]
\* line_height() (:288-290)
FontLineHeightT(f) == f.ch
=============================================================================
