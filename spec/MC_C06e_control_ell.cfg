CONSTANTS
  SMax = 3
  WMax = 2
  Mutant = "ell"
SPECIFICATION Spec
INVARIANTS PaintsByTheAreas AreasDocumented RowsOrdered StrokeSides
CHECK_DEADLOCK FALSE
