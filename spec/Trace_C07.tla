------------------------------ MODULE Trace_C07 -----------------------------
(* (T) for C07: every recorded (drawable, translated drawable) pair is checked *)
(* against the shift relations of P_C07.                                       *)
EXTENDS TraceBase, P_C07
VARIABLE l
Init == l = 1
StepCase(e)  == e.ev = "case"
StepPair(e)  == e.ev = "pair" /\ Report(e.case, PairFails(e), [by |-> e.by, box0 |-> e.box0, box1 |-> e.box1, n0 |-> Len(e.map0), n1 |-> Len(e.map1)])
\* a library call of this case panicked: the property promises a result for every input of its domain
StepPanic(e) == e.ev = "panic" /\ Report(e.case, {"library_call_panicked"}, [msg |-> e.msg, loc |-> e.loc, what |-> e.what])
Next == /\ l <= NRec
        /\ LET e == Rec[l] IN StepCase(e) \/ StepPair(e) \/ StepPanic(e)
        /\ l' = l + 1
Spec == Init /\ [][Next]_l
Done == IF TLCGet("stats").diameter = NRec + 1
        THEN PrintT("TRACE-ACCEPTED " \o ToString(NRec))
        ELSE PrintT("TRACE-REJECTED at line " \o ToString(TLCGet("stats").diameter)) /\ FALSE
=============================================================================
