CONSTANTS
  G = 5
  Ws = {2, 3, 4, 5}
  PreD19 = FALSE
  D <- DQuick
  NV = 3
SPECIFICATION Spec
INVARIANTS RowInsideBox RowsNonEmpty Equivariant
CHECK_DEADLOCK FALSE
