----------------------------- MODULE Proof_C11 -----------------------------
(* Unbounded version of the frame condition of raw load / store that MC_C11   *)
(* checks on small buffers: in both data orders the bit fields of two         *)
(* different pixel indices never overlap (so store(v, buf, i) can change only *)
(* the bits of pixel i), every field lies inside its byte, and an index is in *)
(* range exactly when its byte exists - for ALL indices and buffer lengths;   *)
(* sub-byte depths 1, 2, 4 (core/src/pixelcolor/raw/load_store.rs,            *)
(* bit_position / impl_load_store_bits!).  Checked with TLAPS (tlapm); not    *)
(* load-bearing for any check.                                                *)
EXTENDS Integers, TLAPS

Ppb(bpp) == 8 \div bpp
ByteOf(bpp, i) == i \div Ppb(bpp)
\* lowest bit of the field of pixel i inside its byte: MSB first (LittleEndianMsb0) / LSB first (BigEndianLsb0)
LowMsb0(bpp, i) == 8 - ((i % Ppb(bpp)) + 1) * bpp
LowLsb0(bpp, i) == (i % Ppb(bpp)) * bpp
\* the half-open bit interval of a field, as a global bit number
Disjoint(b1, l1, b2, l2, bpp) == b1 # b2 \/ l1 + bpp <= l2 \/ l2 + bpp <= l1

THEOREM FieldsInsideByte ==
  ASSUME NEW bpp \in {1, 2, 4}, NEW i \in Nat
  PROVE  /\ LowMsb0(bpp, i) >= 0 /\ LowMsb0(bpp, i) + bpp <= 8
         /\ LowLsb0(bpp, i) >= 0 /\ LowLsb0(bpp, i) + bpp <= 8
<1>1. CASE bpp = 1
  BY <1>1 DEF LowMsb0, LowLsb0, Ppb
<1>2. CASE bpp = 2
  BY <1>2 DEF LowMsb0, LowLsb0, Ppb
<1>3. CASE bpp = 4
  BY <1>3 DEF LowMsb0, LowLsb0, Ppb
<1> QED BY <1>1, <1>2, <1>3

LEMMA DivMod ==
  ASSUME NEW k \in {2, 4, 8}, NEW i \in Nat
  PROVE  i = k * (i \div k) + (i % k) /\ (i % k) \in 0..(k - 1) /\ (i \div k) \in Nat
  OBVIOUS

THEOREM FieldsDisjoint ==
  ASSUME NEW bpp \in {1, 2, 4}, NEW i \in Nat, NEW j \in Nat, i # j
  PROVE  /\ Disjoint(ByteOf(bpp, i), LowMsb0(bpp, i), ByteOf(bpp, j), LowMsb0(bpp, j), bpp)
         /\ Disjoint(ByteOf(bpp, i), LowLsb0(bpp, i), ByteOf(bpp, j), LowLsb0(bpp, j), bpp)
<1> DEFINE k == Ppb(bpp)  qi == i \div k  ri == i % k  qj == j \div k  rj == j % k
<1>0. k \in {2, 4, 8} /\ k * bpp = 8
  BY DEF Ppb
<1>1. i = k * qi + ri /\ ri \in 0..(k - 1) /\ j = k * qj + rj /\ rj \in 0..(k - 1)
  BY <1>0, DivMod
<1>2. CASE qi # qj
  BY <1>2 DEF Disjoint, ByteOf
<1>3. CASE qi = qj
  <2>1. ri # rj
    BY <1>1, <1>3
  <2>2. ri + 1 <= rj \/ rj + 1 <= ri
    BY <1>1, <2>1
  <2>3. (ri + 1) * bpp <= rj * bpp \/ (rj + 1) * bpp <= ri * bpp
    BY <2>2, <1>1
  <2> QED BY <2>3, <1>1 DEF Disjoint, LowMsb0, LowLsb0
<1> QED BY <1>2, <1>3

\* a pixel index is in range (load returns Some, store returns Ok) exactly when it is below len * ppb
THEOREM InRangeIffByteExists ==
  ASSUME NEW bpp \in {1, 2, 4}, NEW i \in Nat, NEW len \in Nat
  PROVE  (ByteOf(bpp, i) < len) <=> (i < len * Ppb(bpp))
<1>1. CASE bpp = 1
  BY <1>1 DEF ByteOf, Ppb
<1>2. CASE bpp = 2
  BY <1>2 DEF ByteOf, Ppb
<1>3. CASE bpp = 4
  BY <1>3 DEF ByteOf, Ppb
<1> QED BY <1>1, <1>2, <1>3
=============================================================================
