#!/usr/bin/env python3
"""Orchestration of the TLA+ model-based checks (DESIGN.md §3.3).

  check <ID> [quick|thorough]        run (M) TLC model check, (G) generation, harness, (T) trace validation
  check <ID> --replay <file>         re-drive one recorded case through the current code and the trace spec
exit 0 = property held on everything explored (KNOWN-FINDING lines allowed)
exit 1 = VIOLATION line(s) printed
exit 2 = tool error (build failure, TLC error, rejected trace structure, vacuity guard, timeout)
"""
import concurrent.futures as cf
import glob
import json
import os
import re
import shutil
import subprocess
import sys
import time

ROOT = os.path.dirname(os.path.dirname(os.path.abspath(__file__)))
sys.path.insert(0, os.path.join(ROOT, "tools"))
from props import PROPS  # noqa: E402

SPEC = os.path.join(ROOT, "spec")
# EGV_HARNESS lets a developer point the orchestrator at a scratch copy of the harness (which may
# depend on a scratch worktree of the repository); the registered checks never set it.
HARNESS = os.environ.get("EGV_HARNESS") or os.path.join(ROOT, "harness")
JAR = "/opt/veriftools/tla/tla2tools.jar:/opt/veriftools/tla/CommunityModules-deps.jar"
NCPU = os.cpu_count() or 4


class ToolError(Exception):
    pass


def log(*a):
    print(*a, flush=True)


def run_tlc(module, cfg, workdir, tag, env_extra=None, workers=1, xmx="2g", timeout=1800, dfs=False, extra=None):
    """Run TLC; returns (returncode, output)."""
    meta = os.path.join(workdir, "tlc_" + tag)
    shutil.rmtree(meta, ignore_errors=True)
    os.makedirs(meta, exist_ok=True)
    jopts = ["-Xss512m", "-Xmx" + xmx, "-XX:+UseParallelGC"]
    if workers == 1:
        jopts.append("-XX:ParallelGCThreads=2")   # 16 single-worker JVMs run side by side
    if dfs:
        jopts.append("-Dtlc2.tool.queue.IStateQueue=StateDeque")
    cmd = ["java"] + jopts + ["-cp", JAR, "tlc2.TLC", "-workers", str(workers), "-metadir", meta, "-cleanup",
                              "-noGenerateSpecTE", "-config", cfg] + (extra or []) + [module + ".tla"]
    env = dict(os.environ)
    env.pop("JAVA_TOOL_OPTIONS", None)
    if env_extra:
        env.update(env_extra)
    try:
        p = subprocess.run(cmd, cwd=SPEC, env=env, stdout=subprocess.PIPE, stderr=subprocess.STDOUT, timeout=timeout)
        out = p.stdout.decode("utf-8", "replace")
        rc = p.returncode
    except subprocess.TimeoutExpired as e:
        out = (e.stdout or b"").decode("utf-8", "replace") + "\nTIMEOUT"
        rc = 124
    shutil.rmtree(meta, ignore_errors=True)
    return rc, out


def run_tlapm(module, workdir):
    """Check the proofs of spec/<module>.tla with tlapm in a scratch copy (its cache is not kept)."""
    d = os.path.join(workdir, "tlaps_" + module)
    os.makedirs(d, exist_ok=True)
    shutil.copy(os.path.join(SPEC, module + ".tla"), d)
    t0 = time.time()
    try:
        p = subprocess.run(["tlapm", "--threads", str(min(8, NCPU)), "--cleanfp", module + ".tla"], cwd=d, stdout=subprocess.PIPE,
                           stderr=subprocess.STDOUT, timeout=600)
        out = p.stdout.decode("utf-8", "replace")
    except (subprocess.TimeoutExpired, FileNotFoundError) as e:
        out = "TIMEOUT or tlapm missing: %s" % e
    m = re.search(r"All (\d+) obligations? proved", out)
    f = re.search(r"(\d+)/(\d+) obligations? failed", out)
    res = {"module": module, "wall_s": round(time.time() - t0, 1)}
    if m:
        res.update(obligations=int(m.group(1)), proved=int(m.group(1)), status="proved")
    elif f:
        res.update(obligations=int(f.group(2)), proved=int(f.group(2)) - int(f.group(1)), status="unknown (unproved obligations)")
    else:
        res.update(obligations=0, proved=0, status="unknown (tlapm did not finish)")
    shutil.rmtree(d, ignore_errors=True)
    return res


def unquote_tlc(line):
    """PrintT of a string prints it as a TLA+ string literal."""
    line = line.strip()
    if line.startswith('"') and line.endswith('"'):
        line = line[1:-1]
        line = line.replace('\\"', '"').replace("\\\\", "\\")
    return line


STATES_RE = re.compile(r"(\d+) states generated, (\d+) distinct states found")


def parse_states(out):
    m = None
    for m in STATES_RE.finditer(out):
        pass
    if not m:
        return 0, 0
    return int(m.group(1)), int(m.group(2))


def build(binname, features=None):
    if features and features.startswith("@"):
        # a run MODE, not a cargo feature: "@deep" = the recorder built with the dev profile (opt-level 0, where
        # recursion is not turned into loops) and run with --tier deep (long inputs, stack use measured)
        cmd = ["cargo", "build", "--offline", "--bin", binname, "--target-dir", "target_dev"]
        p = subprocess.run(cmd, cwd=HARNESS, stdout=subprocess.PIPE, stderr=subprocess.STDOUT)
        if p.returncode != 0:
            raise ToolError("harness build (dev profile) failed:\n" + p.stdout.decode("utf-8", "replace")[-4000:])
        return os.path.join(HARNESS, "target_dev", "debug", binname)
    cmd = ["cargo", "build", "--release", "--offline", "--bin", binname]
    tdir = "target"
    if features:
        cmd += ["--features", features]
        tdir = "target_" + features.replace(",", "_")
        cmd += ["--target-dir", tdir]
    p = subprocess.run(cmd, cwd=HARNESS, stdout=subprocess.PIPE, stderr=subprocess.STDOUT)
    if p.returncode != 0:
        raise ToolError("harness build failed:\n" + p.stdout.decode("utf-8", "replace")[-4000:])
    return os.path.join(HARNESS, tdir, "release", binname)


def load_known(pid):
    path = os.path.join(ROOT, "known_findings.json")
    if not os.path.exists(path):
        return []
    with open(path) as f:
        data = json.load(f)
    return [e for e in data.get("findings", []) if e.get("property") == pid]


def match_known(entry, desc, codes, detail):
    """`match` is a python expression over desc / codes / detail (committed file, never written at run time)."""
    try:
        helpers = {"__builtins__": {}, "len": len, "abs": abs, "any": any, "all": all, "set": set, "min": min, "max": max,
                   "isinstance": isinstance, "dict": dict, "list": list, "int": int, "str": str, "sum": sum}
        # helpers live in the globals so that generator expressions inside the match string see them
        return bool(eval(entry["match"], helpers, {"desc": desc, "codes": set(codes), "detail": detail}))
    except Exception as ex:  # a match expression that does not apply to this verdict shape
        return False


def mc_phase(pid, P, tier, workdir, evidence):
    """(M): bounded model checking of the design; also produces (G) cases."""
    gen_lines = []
    tot_gen = tot_dist = 0
    mc_info = []
    for mc in P.get("mc", []):
        cfg = mc.get(tier + "_cfg") or mc.get("quick_cfg")
        if cfg is None:
            continue
        t0 = time.time()
        extra = ["-coverage", "1"] if (tier == "thorough" and mc.get("coverage", True)) else []
        rc, out = run_tlc(mc["module"], cfg, workdir, "mc_" + mc["module"], workers=min(NCPU, mc.get("workers", 12)),
                          xmx=mc.get("xmx", "8g"), timeout=mc.get(tier + "_timeout", 1500), extra=extra)
        gen, dist = parse_states(out)
        tot_gen += gen
        tot_dist += dist
        n_gen_before = len(gen_lines)
        for line in out.splitlines():
            u = unquote_tlc(line)
            if u.startswith("GEN "):
                gen_lines.append(u[4:])
        info = {"module": mc["module"], "cfg": cfg, "states_generated": gen, "distinct_states": dist,
                "wall_s": round(time.time() - t0, 1), "generated_cases": len(gen_lines) - n_gen_before}
        viol = re.findall(r"Invariant (\S+) is violated", out) + re.findall(r"Action property (\S+) is violated", out)
        expect = mc.get("expect_violation")
        if expect:
            # negative control: a deliberately wrong action that TLC must refute
            info["control"] = True
            info["refuted"] = bool(viol)
            if not viol:
                raise ToolError("negative control %s/%s was NOT refuted by TLC" % (mc["module"], cfg))
        elif viol:
            info["design_counterexample"] = viol
            log("MODEL-COUNTEREXAMPLE property=%s module=%s invariant=%s (design-level; does not decide the check)"
                % (pid, mc["module"], ",".join(viol)))
            tail = out[out.find("Error:"):][:3000]
            with open(os.path.join(workdir, "mc_%s_counterexample.txt" % mc["module"]), "w") as f:
                f.write(tail)
        elif rc != 0 or "Model checking completed. No error has been found." not in out:
            raise ToolError("TLC failed on %s/%s (rc=%s):\n%s" % (mc["module"], cfg, rc, out[-3000:]))
        if tier == "thorough" and extra:
            # per-action coverage: an action never taken means the property was never exercised
            cov = re.findall(r"<(\w+) line \d+, col \d+ to line \d+, col \d+ of module (\w+)>: (\d+):(\d+)", out)
            info["action_coverage"] = {a: int(n) for a, m_, d, n in cov}
        mc_info.append(info)
    evidence["mc"] = mc_info
    return gen_lines, tot_gen, tot_dist


def validate_shard(args):
    P, shard, workdir = args
    tag = "tr_" + os.path.basename(os.path.dirname(shard)) + "_" + os.path.basename(shard).replace(".ndjson", "")
    rc, out = run_tlc(P["trace"], P["trace"] + ".cfg", workdir, tag, env_extra={"TRACE": shard}, workers=1,
                      xmx=P.get("trace_xmx", "2g"), timeout=P.get("trace_timeout", 1700), dfs=True)
    verdicts, drifts, stats = [], [], []
    accepted = None
    for line in out.splitlines():
        u = unquote_tlc(line)
        if u.startswith("VERDICT "):
            v = json.loads(u[8:])
            fsname = os.path.basename(os.path.dirname(shard))[len("trace_"):]
            if fsname != "default":
                v["features"] = fsname
            verdicts.append(v)
        elif u.startswith("DRIFT "):
            drifts.append(json.loads(u[6:]))
        elif u.startswith("STAT "):
            stats.append(json.loads(u[5:]))
        elif u.startswith("TRACE-ACCEPTED"):
            accepted = int(u.split()[1])
        elif u.startswith("TRACE-REJECTED"):
            accepted = -1
    gen, dist = parse_states(out)
    ok = (accepted is not None and accepted >= 0 and rc == 0)
    return {"shard": shard, "ok": ok, "verdicts": verdicts, "drifts": drifts, "stats": stats, "lines": accepted,
            "states": dist, "transitions": gen, "out_tail": "" if ok else out[-2500:]}


def index_case_descs(shards, wanted):
    """One pass over the shards: descriptors of the wanted case ids."""
    out = {}
    if not wanted:
        return out
    for s in shards:
        with open(s) as f:
            for line in f:
                if '"ev":"case"' not in line[:400] and '"ev":"case"' not in line[-40:]:
                    continue
                m = re.search(r'"case":(\d+)', line)
                if m and (fs_of_shard(s), int(m.group(1))) in wanted and '"ev":"case"' in line:
                    o = json.loads(line)
                    if o.get("ev") == "case":
                        out[(fs_of_shard(s), o["case"])] = o["desc"]
    return out


def fs_of_shard(shard):
    """Feature set / run mode a shard was recorded with (case ids restart at 1 in every recorder run)."""
    return os.path.basename(os.path.dirname(shard))[len("trace_"):]


def kind_of(desc):
    """Short label of a case descriptor for the grouped violation summary."""
    try:
        d = desc
        parts = []
        for _ in range(4):
            if not isinstance(d, dict):
                break
            if "k" in d:
                parts.append(str(d["k"]))
                break
            if "kind" in d:
                parts.append(str(d["kind"]))
            d = d.get("d") or d.get("shape") or d.get("x")
        return "/".join(parts) or "?"
    except Exception:
        return "?"


def write_evidence(pid, ev):
    os.makedirs(os.path.join(ROOT, "evidence"), exist_ok=True)
    with open(os.path.join(ROOT, "evidence", pid + ".json"), "w") as f:
        json.dump(ev, f, indent=1, sort_keys=True)
        f.write("\n")


def check(pid, tier, seed, replay=None):
    P = PROPS[pid]
    t0 = time.time()
    workdir = os.path.join(os.environ.get("EGV_WORK") or os.path.join(ROOT, "work"), pid + ("_replay" if replay else ""))
    shutil.rmtree(workdir, ignore_errors=True)
    os.makedirs(workdir)
    evx = {}
    known = load_known(pid)
    open_known = [e for e in known if e.get("status") == "open"]

    # 1. build from /repo's current working tree
    feature_sets = P.get("features", {}).get(tier, [None])
    if replay:
        with open(replay) as f:
            feature_sets = json.load(f).get("features") or [None]
    bins = [(fs, build(P["bin"], fs)) for fs in feature_sets]

    # 2. (M) + (G)
    gen_lines, mc_gen, mc_dist = ([], 0, 0)
    if not replay:
        gen_lines, mc_gen, mc_dist = mc_phase(pid, P, tier, workdir, evx)
    # optional TLAPS proofs of abstract-level lemmas (thorough tier; never decide the check: an unproved
    # obligation or a time-out is recorded as "unknown", DESIGN section 8)
    if not replay and tier == "thorough" and P.get("proofs"):
        evx["tlaps"] = [run_tlapm(m, workdir) for m in P["proofs"]]
    gen_file = os.path.join(workdir, "gen.ndjson")
    with open(gen_file, "w") as f:
        for g in gen_lines:
            f.write(g + "\n")
    wit_file = os.path.join(workdir, "witnesses.ndjson")
    with open(wit_file, "w") as f:
        for e in open_known:
            for w in e.get("witnesses", []):
                f.write(json.dumps(w) + "\n")

    # 3. harness: record the implementation
    shards = []
    summaries = []
    for fs, binpath in bins:
        out = os.path.join(workdir, "trace_" + (fs or "default"))
        run_tier = fs[1:] if (fs or "").startswith("@") else tier
        cmd = [binpath, "--tier", run_tier, "--seed", str(seed), "--out", out, "--shards", str(min(16, NCPU))]
        if replay:
            cfile = os.path.join(workdir, "replay_cases.ndjson")
            with open(replay) as f:
                r = json.load(f)
            with open(cfile, "w") as f:
                f.write(json.dumps(r["desc"]) + "\n")
            cmd += ["--cases", cfile]
        else:
            cmd += ["--gen", gen_file, "--witnesses", wit_file]
        p = subprocess.run(cmd, stdout=subprocess.PIPE, stderr=subprocess.STDOUT, timeout=P.get("harness_timeout", 1800))
        hang_file = os.path.join(out, "hang.json")
        if p.returncode == 77 and os.path.exists(hang_file):
            # the recorder's watchdog ended the run: a library call of one case did not return (or its memory ran
            # away).  There is no event a trace specification could judge - the verdict is issued here.
            with open(hang_file) as f:
                h = json.load(f)
            v = {"case": 0, "codes": ["library_call_did_not_return"],
                 "detail": {"why": h.get("why"), "elapsed_s": h.get("elapsed_s"), "rss_mb": h.get("rss_mb"), "features": fs or "default"}}
            for e in open_known:
                if match_known(e, h.get("desc"), v["codes"], v["detail"]):
                    log("KNOWN-FINDING: property=%s %s: %s" % (pid, e["id"], e["what"]))
                    raise ToolError("the run was cut short by the known finding %s (a call that does not return)" % e["id"])
            rdir = os.path.join(os.environ.get("EGV_WORK") or ROOT, "replays", pid)
            os.makedirs(rdir, exist_ok=True)
            path = os.path.join(rdir, "hang_seed%d.json" % seed)
            with open(path, "w") as f:
                json.dump({"property": pid, "tier": tier, "seed": seed, "desc": h.get("desc"), "features": [fs], "verdicts": [v]}, f, indent=1)
            log("VIOLATION property=%s replay=%s codes=library_call_did_not_return" % (pid, path))
            log("  a library call of this case %s: desc=%s" % (h.get("why"), json.dumps(h.get("desc"))[:400]))
            return 1
        if p.returncode != 0:
            raise ToolError("harness %s failed (rc=%d):\n%s" % (P["bin"], p.returncode, p.stdout.decode("utf-8", "replace")[-3000:]))
        with open(os.path.join(out, "summary.json")) as f:
            s = json.load(f)
        s["features"] = fs or "default"
        summaries.append(s)
        shards += sorted(glob.glob(os.path.join(out, "*.ndjson")))
    t_rec = time.time()

    # 4. (T) trace validation, one JVM per shard
    results = []
    with cf.ThreadPoolExecutor(max_workers=min(16, NCPU)) as ex:
        for r in ex.map(validate_shard, [(P, s, workdir) for s in shards]):
            results.append(r)
    bad = [r for r in results if not r["ok"]]
    if bad:
        raise ToolError("trace structure rejected / TLC error on %s:\n%s" % (bad[0]["shard"], bad[0]["out_tail"]))

    # 5. verdicts -> known findings / violations
    ev_counts = {}
    for s in summaries:
        for k, v in s["events"].items():
            ev_counts[k] = ev_counts.get(k, 0) + v
    # vacuity guards are reported only if there is no violation: a defect that panics early empties the statistics,
    # and then the violation (with its replay file) is the finding, not the empty statistics
    vacuity = []
    if not replay:
        for need in P.get("required_events", []):
            if ev_counts.get(need, 0) == 0:
                vacuity.append("vacuity guard: no '%s' event was recorded" % need)
    verdicts = [v for r in results for v in r["verdicts"]]
    drifts = [d for r in results for d in r["drifts"]]
    stat_tot = {}
    for r in results:
        for st in r["stats"]:
            for k, v in st.items():
                if isinstance(v, int):
                    stat_tot[k] = stat_tot.get(k, 0) + v
    if not replay:
        for need in P.get("required_stats", []):
            if stat_tot.get(need, 0) == 0:
                vacuity.append("vacuity guard: trace spec statistic '%s' is zero" % need)
    failing_cases = {}
    for v in verdicts:
        failing_cases.setdefault((v.get("features") or "default", v["case"]), []).append(v)
    known_hits = {}
    violations = []
    desc_cache = index_case_descs(shards, set(failing_cases.keys()))
    for case, vs in sorted(failing_cases.items()):
        desc = desc_cache.get(case)
        for v in vs:
            hit = None
            for e in open_known:
                if match_known(e, desc, v["codes"], v["detail"]):
                    hit = e
                    break
            if hit:
                known_hits.setdefault(hit["id"], []).append((case, v))
            else:
                violations.append((case, desc, v))
    for e in open_known:
        if e["id"] in known_hits:
            log("KNOWN-FINDING: property=%s %s: %s (%d recorded occurrences)" % (pid, e["id"], e["what"], len(known_hits[e["id"]])))
    rdir = os.path.join(os.environ.get("EGV_WORK") or ROOT, "replays", pid)
    shown = 0
    seen_cases = set()
    if violations:
        os.makedirs(rdir, exist_ok=True)
    for case, desc, v in violations:
        if case in seen_cases:
            continue
        seen_cases.add(case)
        if shown >= 25:
            continue
        shown += 1
        path = os.path.join(rdir, "case_%d%s_seed%d.json" % (case[1], "" if case[0] == "default" else "_" + re.sub(r"\W", "", case[0]), seed))
        with open(path, "w") as f:
            vs_case = [x for (c, d, x) in violations if c == case]
            json.dump({"property": pid, "tier": tier, "seed": seed, "desc": desc,
                       "features": sorted({x.get("features") for x in vs_case}, key=lambda z: z or ""),
                       "verdicts": vs_case[:20]}, f, indent=1)
        log("VIOLATION property=%s replay=%s codes=%s" % (pid, path, ",".join(sorted(set(v["codes"])))))
    if len(seen_cases) > shown:
        log("... %d more violating cases not listed" % (len(seen_cases) - shown))
    if violations:
        groups = {}
        for case, desc, v in violations:
            key = (kind_of(desc), ",".join(sorted(set(v["codes"]))))
            g = groups.setdefault(key, [0, desc, v])
            g[0] += 1
        for (k, codes), (n, desc, v) in sorted(groups.items()):
            log("  group kind=%s codes=%s n=%d first=%s detail=%s" % (k, codes, n, json.dumps(desc)[:300], json.dumps(v["detail"])[:300]))

    # 6. evidence
    cases = sum(s["cases"] for s in summaries)
    tr_states = sum(r["states"] for r in results)
    tr_trans = sum(r["transitions"] for r in results)
    n_fail_cases = len(failing_cases)
    coverage = {
        "states": mc_dist + tr_states,
        "transitions": mc_gen + tr_trans,
        "traces_validated_against_impl": cases - n_fail_cases,
        "evaluations": cases,
        "distinct_nontrivial": sum(s["distinct_nontrivial"] for s in summaries),
        "rule": P["rule"],
        "samples": (summaries[0]["samples"][:6] if summaries else []),
        "model_checking": evx.get("mc", []),
        "tlaps_proofs": evx.get("tlaps", []),
        "mc_states_distinct": mc_dist, "mc_states_generated": mc_gen,
        "trace_events": ev_counts, "trace_lines_validated": sum(r["lines"] or 0 for r in results),
        "trace_shards": len(shards), "trace_spec_stats": stat_tot,
        "generated_cases_from_spec": len(gen_lines),
        "feature_sets": [s["features"] for s in summaries],
        "harness_notes": {k: v for s in summaries for k, v in s.get("notes", {}).items()},
        # exact comparison of the code with the implementation-shaped transcription on this run's domain:
        # True = the (M) result is evidence about the code, False = the model drifted, None = not compared
        "design_model_bound": (len(drifts) == 0) if P.get("drift_checked") else None,
        "spec_drift_reports": len(drifts),
        "spec_drift_samples": drifts[:5],
        "known_findings_reported": sorted(known_hits.keys()),
        "failing_cases": n_fail_cases,
        "record_s": round(t_rec - t0, 1),
        "checker_cmd": "java -cp tla2tools.jar tlc2.TLC -config %s.cfg %s.tla (TRACE=<shard>)" % (P["trace"], P["trace"]),
        "trusted_base": P.get("trusted", []),
    }
    if P.get("exhaustive", {}).get(tier):
        coverage["exhaustive"] = True
    if P.get("explanation"):
        coverage["explanation"] = P["explanation"]
    ev = {"property_id": pid, "tier": tier, "seed": seed, "level": P["level"], "coverage": coverage,
          "assumptions": P.get("assumptions", []), "wall_s": round(time.time() - t0, 1), "violations": len(seen_cases)}
    if not replay and not os.environ.get("EGV_NOEVIDENCE"):
        write_evidence(pid, ev)
    log("%s %s: cases=%d events=%d mc_states=%d trace_states=%d drift=%d known=%d violations=%d wall=%.0fs"
        % (pid, tier, cases, sum(ev_counts.values()), mc_dist, tr_states, len(drifts), len(known_hits), len(seen_cases), time.time() - t0))
    if replay:
        for v in verdicts[:20]:
            log("REPLAY-VERDICT " + json.dumps(v)[:1500])
    if violations:
        return 1
    if vacuity:
        raise ToolError("; ".join(vacuity))
    return 0


def main():
    a = sys.argv[1:]
    if not a:
        print(__doc__)
        return 2
    pid = a[0]
    if pid not in PROPS:
        print("unknown property", pid)
        return 2
    seed = int(os.environ.get("VERIF_SEED", "1"))
    tier = os.environ.get("VERIF_TIER", "quick")
    replay = None
    i = 1
    while i < len(a):
        if a[i] in ("quick", "thorough"):
            tier = a[i]
        elif a[i] == "--replay":
            replay = a[i + 1]
            i += 1
        elif a[i] == "--seed":
            seed = int(a[i + 1])
            i += 1
        i += 1
    try:
        return check(pid, tier, seed, replay)
    except ToolError as e:
        log("TOOL-ERROR property=%s: %s" % (pid, e))
        return 2
    except subprocess.TimeoutExpired as e:
        log("TOOL-ERROR property=%s: timeout %s" % (pid, e))
        return 2


if __name__ == "__main__":
    sys.exit(main())
