------------------------------- MODULE P_C13 -------------------------------
(* Property C13 -- colour conversions scale to the nearest value and preserve *)
(* the extremes.  Property-level predicates over what was observed for one    *)
(* ordered pair of colour types (ta -> tb); each returns a set of failure     *)
(* codes.  Only the ABSTRACT part of EGColor is used (Nearest, UpperHalf,     *)
(* Widens, the type table).                                                   *)
(*                                                                            *)
(* relation  the set of all observed <<x, y>> = <<source channel value,       *)
(*           result channel value>> over all converted source colours, as a   *)
(*           sequence sorted by x then y, without duplicates.  A conversion   *)
(*           that works channel by channel yields a function table; if any    *)
(*           other channel leaks in, some x occurs with two different y.      *)
EXTENDS EGColor

Sorted(p) == \A i \in 1..(Len(p) - 1) :
               p[i][1] < p[i + 1][1] \/ (p[i][1] = p[i + 1][1] /\ p[i][2] < p[i + 1][2])

\* channel cin of ta -> channel cout of tb, scaling rule
RelFails(ta, cin, tb, cout, p) ==
  LET ma == ChMax(ta, cin)  mb == ChMax(tb, cout)  n == Len(p) IN
  IF ~Sorted(p) THEN {"malformed_relation"}
  ELSE (IF \A i \in 1..(n - 1) : p[i][1] # p[i + 1][1] THEN {} ELSE {"channel_mixed"})
  \cup (IF \A i \in 1..n : p[i][1] \in 0..ma /\ Nearest(ma, mb, p[i][1], p[i][2]) THEN {} ELSE {"not_nearest"})
  \cup (IF \A i \in 1..n : p[i][1] = 0 => p[i][2] = 0 THEN {} ELSE {"zero_not_preserved"})
  \cup (IF \A i \in 1..n : p[i][1] = ma => p[i][2] = mb THEN {} ELSE {"max_not_preserved"})
  \cup (IF \A i \in 1..(n - 1) : p[i][2] <= p[i + 1][2] THEN {} ELSE {"not_monotone"})

\* -> BinaryColor: On exactly for the upper half of the luma range (luma of `bits` bits)
BinRelFails(bits, p) ==
  IF ~Sorted(p) THEN {"malformed_relation"}
  ELSE IF \A i \in 1..Len(p) : p[i][1] \in 0..(2 ^ bits - 1) /\ p[i][2] \in {0, 1} /\ ((p[i][2] = 1) <=> UpperHalf(bits, p[i][1]))
       THEN {} ELSE {"binary_threshold"}

\* A -> B -> A on channel cin of ta: the identity whenever tb has at least as many bits in every channel
BackFails(ta, tb, p) ==
  IF ~Widens(ta, tb) THEN {}
  ELSE IF \A i \in 1..Len(p) : p[i][1] = p[i][2] THEN {} ELSE {"roundtrip_not_identity"}

\* black -> black, white -> white (results as channel tuples of tb)
ExtremeFails(tb, black, white) ==
     (IF black = [ch \in 1..NChan(tb) |-> 0] THEN {} ELSE {"black_not_black"})
\cup (IF white = [ch \in 1..NChan(tb) |-> ChMax(tb, ch)] THEN {} ELSE {"white_not_white"})

\* RGB -> gray along one channel (the other two fixed): never decreasing, inside the gray range
LumaRowFails(tb, lumas) ==
     (IF \A i \in 1..Len(lumas) : lumas[i] \in 0..ChMax(tb, 1) THEN {} ELSE {"luma_range"})
\cup (IF \A i \in 1..(Len(lumas) - 1) : lumas[i] <= lumas[i + 1] THEN {} ELSE {"luma_not_monotone"})

\* which relations a pair must come with: <<cin, cout>>
RelShape(ta, tb) ==
  IF tb.kind = "bin" THEN (IF IsRgb(ta) THEN <<>> ELSE << <<1, 1>> >>)
  ELSE IF IsRgb(ta) THEN (IF IsRgb(tb) THEN << <<1, 1>>, <<2, 2>>, <<3, 3>> >> ELSE <<>>)
  ELSE [ch \in 1..NChan(tb) |-> <<1, ch>>]
\* which source channels come with an A -> B -> A relation
BackShape(ta, tb) ==
  IF ta.kind = "bin" THEN <<1>>
  ELSE IF tb.kind = "bin" THEN <<>>
  ELSE IF IsRgb(ta) THEN (IF IsRgb(tb) THEN <<1, 2, 3>> ELSE <<>>)
  ELSE <<1>>

\* the named web colours of type tb against the Rgb888 table: items <<r8, g8, b8, r, g, b>>; every channel is the
\* representable value nearest to the scaled 8-bit one (as for the conversion Rgb888 -> tb)
CssFails(tb, items) ==
  IF \A i \in 1..Len(items) : \A ch \in 1..3 : Nearest(255, ChMax(tb, ch), items[i][ch], items[i][3 + ch])
  THEN {} ELSE {"named_colour_not_nearest"}

\* one pair, observation record o: rels (sequence of relations in RelShape order), backs (in
\* BackShape order), l8on (RGB -> binary: relation <<luma of Gray8::from(c), is_on>>), black, white
PairFails(a, b, o) ==
  LET ta == Types[a]  tb == Types[b]  rs == RelShape(ta, tb)  bs == BackShape(ta, tb) IN
  IF Len(o.rels) # Len(rs) \/ Len(o.backs) # Len(bs) THEN {"malformed_pair"}
  ELSE UNION { IF tb.kind = "bin" THEN BinRelFails(ta.lb, o.rels[i])
               ELSE RelFails(ta, rs[i][1], tb, rs[i][2], o.rels[i]) : i \in 1..Len(rs) }
  \cup UNION { BackFails(ta, tb, o.backs[i]) : i \in 1..Len(bs) }
  \cup (IF IsRgb(ta) /\ tb.kind = "bin" THEN BinRelFails(8, o.l8on) ELSE {})
  \cup ExtremeFails(tb, o.black, o.white)
=============================================================================
