CONSTANTS
  G = 2
  Ws = {1, 2, 3, 4}
  D <- DQuick
  Als = {0, 1, 2}
  HasFill = TRUE
SPECIFICATION Spec
INVARIANTS Equivariant
CHECK_DEADLOCK FALSE
