//! C12 recorder: colour <-> raw storage round trips of the 14 built-in colour types.
//! Records only (no oracle); judged by spec/Trace_C12.tla.  Values are batched into rows
//! (one channel swept, the others fixed; see spec/P_C12.tla for the fields).
use egv::util::*;
use egv::*;
use embedded_graphics::pixelcolor::raw::{RawData, ToBytes};
use embedded_graphics::pixelcolor::*;
use embedded_graphics::prelude::*;

/// Uniform view of a colour type: construction from u8 arguments and all public observations.
trait Cx: PixelColor + Copy + PartialEq {
    const NAME: &'static str;
    const NCH: usize;
    const BITS: usize;
    /// width of every channel (recorder-side enumeration bounds only; never compared)
    const WIDTHS: [u32; 3];
    fn make(args: [u8; 3]) -> Self;
    fn chans(self) -> [u8; 3];
    fn raw_inner(self) -> u32;
    fn storage(self) -> u32;
    fn be(self) -> Vec<u8>;
    fn le(self) -> Vec<u8>;
    fn from_raw_value(x: u32) -> Self;
}
macro_rules! common {
    () => {
        const BITS: usize = <<Self as PixelColor>::Raw as RawData>::BITS_PER_PIXEL;
        fn raw_inner(self) -> u32 {
            let raw: <Self as PixelColor>::Raw = self.into();
            raw.into_inner().into()
        }
        fn storage(self) -> u32 {
            self.into_storage().into()
        }
        fn be(self) -> Vec<u8> {
            ToBytes::to_be_bytes(self).to_vec()
        }
        fn le(self) -> Vec<u8> {
            ToBytes::to_le_bytes(self).to_vec()
        }
        fn from_raw_value(x: u32) -> Self {
            Self::from(<<Self as PixelColor>::Raw as RawData>::from_u32(x))
        }
    };
}
macro_rules! cx_rgb {
    ($($t:ident ($r:expr, $g:expr, $b:expr)),*) => {$(
        impl Cx for $t {
            const NAME: &'static str = stringify!($t);
            const NCH: usize = 3;
            const WIDTHS: [u32; 3] = [$r, $g, $b];
            fn make(a: [u8; 3]) -> Self { <$t>::new(a[0], a[1], a[2]) }
            fn chans(self) -> [u8; 3] { [self.r(), self.g(), self.b()] }
            common!();
        }
    )*};
}
macro_rules! cx_gray {
    ($($t:ident ($l:expr)),*) => {$(
        impl Cx for $t {
            const NAME: &'static str = stringify!($t);
            const NCH: usize = 1;
            const WIDTHS: [u32; 3] = [$l, 0, 0];
            fn make(a: [u8; 3]) -> Self { <$t>::new(a[0]) }
            fn chans(self) -> [u8; 3] { [self.luma(), 0, 0] }
            common!();
        }
    )*};
}
cx_rgb!(Rgb332(3, 3, 2), Rgb444(4, 4, 4), Rgb555(5, 5, 5), Bgr555(5, 5, 5), Rgb565(5, 6, 5), Bgr565(5, 6, 5),
        Rgb666(6, 6, 6), Bgr666(6, 6, 6), Rgb888(8, 8, 8), Bgr888(8, 8, 8));
cx_gray!(Gray2(2), Gray4(4), Gray8(8));
impl Cx for BinaryColor {
    const NAME: &'static str = "BinaryColor";
    const NCH: usize = 1;
    const WIDTHS: [u32; 3] = [1, 0, 0];
    /// argument a (mod 2): 0 = Off, 1 = On
    fn make(a: [u8; 3]) -> Self {
        if a[0] % 2 == 1 {
            BinaryColor::On
        } else {
            BinaryColor::Off
        }
    }
    fn chans(self) -> [u8; 3] {
        [self.is_on() as u8, 0, 0]
    }
    common!();
}

macro_rules! dispatch {
    ($name:expr, $f:ident ( $($a:expr),* )) => {
        match $name {
            "BinaryColor" => $f::<BinaryColor>($($a),*),
            "Gray2" => $f::<Gray2>($($a),*),
            "Gray4" => $f::<Gray4>($($a),*),
            "Gray8" => $f::<Gray8>($($a),*),
            "Rgb332" => $f::<Rgb332>($($a),*),
            "Rgb444" => $f::<Rgb444>($($a),*),
            "Rgb555" => $f::<Rgb555>($($a),*),
            "Bgr555" => $f::<Bgr555>($($a),*),
            "Rgb565" => $f::<Rgb565>($($a),*),
            "Bgr565" => $f::<Bgr565>($($a),*),
            "Rgb666" => $f::<Rgb666>($($a),*),
            "Bgr666" => $f::<Bgr666>($($a),*),
            "Rgb888" => $f::<Rgb888>($($a),*),
            "Bgr888" => $f::<Bgr888>($($a),*),
            n => panic!("unknown colour type {}", n),
        }
    };
}
const NAMES: [&str; 14] = [
    "BinaryColor", "Gray2", "Gray4", "Gray8", "Rgb332", "Rgb444", "Rgb555", "Bgr555", "Rgb565", "Bgr565", "Rgb666",
    "Bgr666", "Rgb888", "Bgr888",
];

fn ints<T: Into<u64> + Copy>(v: &[T]) -> Value {
    Value::Array(
        v.iter()
            .map(|&x| {
                let y: u64 = x.into();
                json!(y)
            })
            .collect(),
    )
}

/// one row: channel `ch` (1-based) swept over the arguments a0..a0+n-1, the others from `fix`
fn row<T: Cx>(rec: &mut Rec, ch: usize, fix: [u8; 3], a0: u32, n: u32) {
    let n = n as usize;
    let (mut raw, mut sto, mut braw, mut beq) = (Vec::with_capacity(n), Vec::with_capacity(n), Vec::with_capacity(n), Vec::with_capacity(n));
    let (mut c1, mut c2, mut c3) = (Vec::with_capacity(n), vec![], vec![]);
    let (mut be, mut le) = (vec![], vec![]);
    for k in 0..n {
        let mut args = fix;
        args[ch - 1] = (a0 as usize + k) as u8;
        let c = T::make(args);
        raw.push(c.raw_inner());
        sto.push(c.storage());
        let ch_obs = c.chans();
        c1.push(ch_obs[0]);
        if T::NCH == 3 {
            c2.push(ch_obs[1]);
            c3.push(ch_obs[2]);
        }
        be.extend(c.be());
        le.extend(c.le());
        let raw_obj: T::Raw = c.into();
        let back = T::from(raw_obj);
        beq.push((back == c) as u8);
        braw.push(back.storage());
    }
    rec.note_n("colour_values", n as u64);
    rec.ev(
        "row",
        json!({"ty": T::NAME, "ch": ch, "fix": ints(&fix[..T::NCH]), "a0": a0, "n": n, "bits": T::BITS,
               "raw": ints(&raw), "sto": ints(&sto), "c1": ints(&c1), "c2": ints(&c2), "c3": ints(&c3),
               "be": ints(&be), "le": ints(&le), "beq": ints(&beq), "braw": ints(&braw)}),
    );
}

/// the raw values base..base+n-1 of the raw type: raw -> colour -> raw (twice) and the channels
fn rawrow<T: Cx>(rec: &mut Rec, base: u32, n: u32) {
    let n = n as usize;
    let (mut rt, mut rt2) = (Vec::with_capacity(n), Vec::with_capacity(n));
    let (mut c1, mut c2, mut c3) = (Vec::with_capacity(n), vec![], vec![]);
    let mut beq: Vec<u8> = Vec::with_capacity(n);
    for k in 0..n {
        let c = T::from_raw_value(base + k as u32);
        let r = c.raw_inner();
        rt.push(r);
        rt2.push(T::from_raw_value(r).raw_inner());
        // colour -> raw -> colour compared with the library's own PartialEq (also for colours that
        // were made from raw values with unused bits set)
        beq.push((T::from_raw_value(r) == c) as u8);
        let ch_obs = c.chans();
        c1.push(ch_obs[0]);
        if T::NCH == 3 {
            c2.push(ch_obs[1]);
            c3.push(ch_obs[2]);
        }
    }
    rec.note_n("raw_values", n as u64);
    rec.ev(
        "rawrow",
        json!({"ty": T::NAME, "base": base, "n": n, "rt": ints(&rt), "rt2": ints(&rt2), "beq": ints(&beq),
               "c1": ints(&c1), "c2": ints(&c2), "c3": ints(&c3)}),
    );
}

fn fix_from(v: &Value) -> [u8; 3] {
    let mut f = [0u8; 3];
    for (k, x) in v.as_array().unwrap().iter().enumerate() {
        f[k] = i(x) as u8;
    }
    f
}

fn run_case(rec: &mut Rec, d: &Value) {
    let ty = d["ty"].as_str().unwrap();
    rec.begin(d.clone());
    match d["k"].as_str().unwrap() {
        "colrows" => {
            let (ch, a0, n) = (i(&d["ch"]) as usize, i(&d["a0"]) as u32, i(&d["n"]) as u32);
            for f in d["fixes"].as_array().unwrap() {
                let fix = fix_from(f);
                dispatch!(ty, row(rec, ch, fix, a0, n));
            }
        }
        "rawrows" => {
            let n = i(&d["n"]) as u32;
            for b in d["bases"].as_array().unwrap() {
                let base = i(b) as u32;
                dispatch!(ty, rawrow(rec, base, n));
            }
        }
        k => panic!("unknown case kind {}", k),
    }
    rec.nontrivial();
}

fn widths<T: Cx>() -> (usize, [u32; 3], usize) {
    (T::NCH, T::WIDTHS, T::BITS)
}

const ROWS_PER_CASE: usize = 128;

fn emit_colrows(rec: &mut Rec, ty: &str, ch: usize, a0: u32, n: u32, fixes: Vec<[u8; 3]>, nch: usize) {
    for chunk in fixes.chunks(ROWS_PER_CASE) {
        let fx: Vec<Value> = chunk.iter().map(|f| ints(&f[..nch])).collect();
        run_case(rec, &json!({"k": "colrows", "ty": ty, "ch": ch, "a0": a0, "n": n, "fixes": fx}));
    }
}
fn emit_rawrows(rec: &mut Rec, ty: &str, n: u32, bases: Vec<u32>) {
    for chunk in bases.chunks(ROWS_PER_CASE) {
        run_case(rec, &json!({"k": "rawrows", "ty": ty, "n": n, "bases": chunk}));
    }
}

fn main() {
    let args = Args::parse();
    install_panic_hook();
    let mut rec = Rec::new(&args);
    let mut rng = Rng::new(args.seed ^ 0xC12);
    if let Some(cases) = &args.cases {
        for d in cases {
            run_case(&mut rec, d);
        }
        rec.finish(json!({}));
        return;
    }
    for d in args.gen.iter().chain(args.witnesses.iter()) {
        run_case(&mut rec, d);
    }
    let th = args.thorough();
    for ty in NAMES {
        let (nch, w, bits) = dispatch!(ty, widths());
        let used: u32 = w.iter().sum();
        let exhaustive = th || used <= 18;
        // (1) every colour value: last channel swept over exactly its values, for every value of the others
        if exhaustive {
            let mut fixes = vec![];
            if nch == 3 {
                for r in 0..(1u32 << w[0]) {
                    for g in 0..(1u32 << w[1]) {
                        fixes.push([r as u8, g as u8, 0]);
                    }
                }
            } else {
                fixes.push([0, 0, 0]);
            }
            emit_colrows(&mut rec, ty, nch, 0, 1 << w[nch - 1], fixes, nch);
        }
        // (2) constructor arguments beyond the channel width: every channel swept over all 256 u8
        //     arguments, the other arguments on a boundary set (incl. out-of-range values)
        let bset: [u8; 7] = [0, 1, 0x55, 0xAA, 0xFE, 0xFF, 0x80];
        for ch in 1..=nch {
            let mut fixes = vec![];
            if nch == 3 {
                let (o1, o2) = match ch {
                    1 => (1, 2),
                    2 => (0, 2),
                    _ => (0, 1),
                };
                for &x in &bset {
                    for &y in &bset {
                        let mut f = [0u8; 3];
                        f[o1] = x;
                        f[o2] = y;
                        fixes.push(f);
                    }
                }
                // seeded rows
                let nseed = if th { 2000 } else if used > 18 { 140 } else { 20 };
                for _ in 0..nseed {
                    let mut f = [0u8; 3];
                    f[o1] = rng.u32() as u8;
                    f[o2] = rng.u32() as u8;
                    fixes.push(f);
                }
            } else {
                fixes.push([0, 0, 0]);
            }
            emit_colrows(&mut rec, ty, ch, 0, 256, fixes, nch);
        }
        // (3) raw values incl. unused bits: every value of the raw type up to 16 bits (thorough: all),
        //     24-bit raws on a boundary lattice of the two upper bytes plus seeded rows
        let total: u64 = 1u64 << bits;
        let n = total.min(256) as u32;
        let mut bases: Vec<u32> = vec![];
        if th || bits <= 16 {
            bases = (0..(total / n as u64)).map(|c| c as u32 * n).collect();
        } else {
            let b8: [u32; 8] = [0, 1, 2, 0x55, 0x7F, 0x80, 0xFE, 0xFF];
            for &hi in &b8 {
                for &mid in &b8 {
                    bases.push(hi << 16 | mid << 8);
                }
            }
            for _ in 0..300 {
                bases.push((rng.u32() & 0xFF_FFFF) & !0xFF);
            }
            bases.sort();
            bases.dedup();
        }
        // from_u32 arguments beyond the range of the raw type (only the low bits count)
        if bits < 31 {
            for b in [total, 3 * total, total << 1 | (total >> 1), 1 << 16, 1 << 24, 0x5555_5500, 0x7fff_fe00] {
                let b = (b.min(0x7fff_fe00) as u32) & !0xFF;
                if (b as u64) >= total {
                    bases.push(b);
                }
            }
            if total < 256 {
                // sub-byte raws live in a u8: every other value of the storage type, and beyond
                let t = total as u32;
                bases.extend((1..256 / t).map(|c| c * t));
                bases.extend([256, 256 + t, 0x100_0000 + 3 * t, 0x7fff_ff00 + 5 * t]);
            }
            bases.sort();
            bases.dedup();
        }
        emit_rawrows(&mut rec, ty, n, bases);
    }
    rec.finish(json!({}));
}
