//! Stack use of one library call (run mode "@deep": dev-profile build, where recursion is not turned into loops).
//! The region below the stack pointer is painted, the call runs, the deepest overwritten word is found.
//! (Same technique as the `deep` run of egv_c08; kept separate so that C08's recorder stays as it is.)
pub const PAINT: usize = 48 << 20;
pub const MARGIN: usize = 64 << 10; // frames of the painting / scanning code itself live here
const PATTERN: u64 = 0xA5A5_5A5A_C3C3_3C3C;

/// Run `f` near the top of a thread created by `in_deep_thread`; returns its result and the stack it used in bytes
/// (0 = less than `MARGIN`).
#[inline(never)]
pub fn measure<T>(f: impl FnOnce() -> T) -> (T, i64) {
    let marker = 0u8;
    let sp = (&marker as *const u8 as usize) & !7;
    let lo = sp - MARGIN - PAINT;
    // SAFETY (harness only): [lo, sp - MARGIN) lies inside this thread's stack mapping (in_deep_thread creates the
    // thread with PAINT + MARGIN + 32 MB of stack and `measure` is called near its top) and below every live frame.
    unsafe { std::slice::from_raw_parts_mut(lo as *mut u64, PAINT / 8).fill(PATTERN) };
    let r = f();
    let used = unsafe {
        let s = std::slice::from_raw_parts(lo as *const u64, PAINT / 8);
        match s.iter().position(|w| *w != PATTERN) {
            Some(k) => (sp - (lo + 8 * k)) as i64,
            None => 0,
        }
    };
    (r, used)
}

/// Run `f` in a thread whose stack is large enough for `measure`.
pub fn in_deep_thread<T: Send>(f: impl FnOnce() -> T + Send) -> T {
    std::thread::scope(|sc| {
        std::thread::Builder::new().stack_size(PAINT + MARGIN + (32 << 20)).spawn_scoped(sc, f).expect("spawn").join().expect("deep worker")
    })
}
