CONSTANTS
  G = 2
  Rounding = "up"
SPECIFICATION Spec
INVARIANTS DenominatorInvariant Equivariant
CHECK_DEADLOCK FALSE
