------------------------------ MODULE Trace_C10 -----------------------------
(* (T) for C10: every recorded write history on a real Framebuffer is checked  *)
(* step by step: state = the framebuffer's format, the abstract content m and  *)
(* the bytes before the step; each `op` event applies the abstract meaning of  *)
(* the operation (EGFramebuffer.MApply) to m and judges the observation made   *)
(* after it (data(), pixel() probes, as_image() drawn) with P_C10.ObsFails.    *)
(* After a failing step m is re-based on what the bytes actually hold          *)
(* (m' = AbsMap(data)), so every step is judged on its own.  ONE verdict per   *)
(* case is printed when the case ends (codes = union, detail.items = the       *)
(* failing steps).  msb0_step (computed for failing steps only) tells whether  *)
(* the step is a correct step under the LittleEndianMsb0 layout, and           *)
(* pinned_writer_step whether the bytes are exactly what the snapshot's        *)
(* transcribed writer produces -- they characterise HOW a step failed (for the *)
(* known-findings matcher) and never produce a verdict themselves.             *)
EXTENDS TraceBase, P_C10
VARIABLES l, fb, m, prev, acc, cur, st
vars == <<l, fb, m, prev, acc, cur, st>>

NoFb == [bpp |-> 0, ord |-> 0, w |-> 0, h |-> 0, n |-> 0]
Init == /\ l = 1 /\ fb = NoFb /\ m = <<>> /\ prev = <<>> /\ acc = <<>> /\ cur = 0
        /\ st = [ops |-> 0, ops_without_inside_point |-> 0, ops_on_oversized_buffer |-> 0, drawable_ops |-> 0, failing_steps |-> 0]

LeView(f) == [f EXCEPT !.ord = 0]
Item(codes, f, i, op, before, data) ==
  [codes |-> codes,
   d |-> [i |-> i, k |-> op.k,
          msb0_step |-> Len(data) = f.n /\ Len(before) = f.n
                        /\ AbsMap(LeView(f), data) = MApply(f, AbsMap(LeView(f), before), op),
          pinned_writer_step |-> Len(before) = f.n /\ data = ApplyT(f, before, op, "pinned")]]
Known == {"case", "fb", "op", "panic"}
NewOp == [k |-> "new", p |-> <<0, 0>>, c |-> 0, px |-> <<>>, area |-> Zero]

Flush(case, a) ==
  IF a = <<>> THEN TRUE
  ELSE Verdict(case, UNION { a[i].codes : i \in 1..Len(a) }, [what |-> "case", fb |-> fb, items |-> a])

Next == /\ l <= NRec
        /\ Rec[l].ev \in Known
        /\ LET e == Rec[l] IN
           CASE e.ev = "case" ->
                  /\ Flush(cur, acc)
                  /\ acc' = <<>> /\ cur' = e.case /\ fb' = NoFb /\ m' = <<>> /\ prev' = <<>> /\ st' = st
                  /\ IF l = NRec THEN PrintT("STAT " \o ToJson(st)) ELSE TRUE
             [] e.ev = "fb" ->
                  \* Framebuffer::new(): nothing written yet, every pixel is the all-zero colour
                  LET f == [bpp |-> e.bpp, ord |-> e.ord, w |-> e.w, h |-> e.h, n |-> e.n]
                      codes == ObsFails(f, MZero(f), e.data, TRUE, e)
                      a == IF codes = {} THEN acc ELSE Append(acc, [codes |-> codes, d |-> [i |-> 0, k |-> "new", msb0_step |-> FALSE, pinned_writer_step |-> FALSE]])
                  IN /\ fb' = f /\ prev' = e.data /\ acc' = a /\ cur' = cur /\ st' = st
                     /\ m' = IF codes = {} \/ Len(e.data) # f.n THEN MZero(f) ELSE AbsMap(f, e.data)
                     /\ IF l = NRec THEN Flush(cur, a) /\ PrintT("STAT " \o ToJson(st)) ELSE TRUE
             [] e.ev = "op" ->
                  /\ fb.bpp # 0
                  /\ LET m2 == MApply(fb, m, e.op)
                         ins == WritesInside(fb, e.op)
                         codes == ObsFails(fb, m2, prev, ins, e)
                         a == IF codes = {} THEN acc ELSE Append(acc, Item(codes, fb, e.i, e.op, prev, e.data))
                         s2 == [st EXCEPT !.ops = @ + 1,
                                          !.ops_without_inside_point = @ + (IF ins THEN 0 ELSE 1),
                                          !.ops_on_oversized_buffer = @ + (IF fb.n > BufSize(fb) THEN 1 ELSE 0),
                                          !.drawable_ops = @ + (IF e.op.k = "draw" THEN 1 ELSE 0),
                                          !.failing_steps = @ + (IF codes = {} THEN 0 ELSE 1)]
                     IN /\ m' = IF codes = {} \/ Len(e.data) # fb.n THEN m2 ELSE AbsMap(fb, e.data)
                        /\ prev' = e.data /\ acc' = a /\ cur' = cur /\ fb' = fb /\ st' = s2
                        /\ IF l = NRec THEN Flush(cur, a) /\ PrintT("STAT " \o ToJson(s2)) ELSE TRUE
             [] e.ev = "panic" ->      \* a call that panics did not return the promised result; the recorder ends the history here
                  /\ LET a == Append(acc, [codes |-> {"library_call_panicked"}, msg |-> e.msg, loc |-> e.loc]) IN
                     /\ acc' = a /\ UNCHANGED <<fb, m, prev, cur, st>>
                     /\ IF l = NRec THEN Flush(cur, a) /\ PrintT("STAT " \o ToJson(st)) ELSE TRUE
        /\ l' = l + 1
Spec == Init /\ [][Next]_vars

Done == IF TLCGet("stats").diameter = NRec + 1
        THEN PrintT("TRACE-ACCEPTED " \o ToString(NRec))
        ELSE PrintT("TRACE-REJECTED at line " \o ToString(TLCGet("stats").diameter)) /\ FALSE
=============================================================================
