CONSTANTS
  Depth = 1
  Gen = FALSE
  Mutant = TRUE
SPECIFICATION Spec
INVARIANTS EffectMatchesLowering ClipRespected BoxesDocumented
CHECK_DEADLOCK FALSE
