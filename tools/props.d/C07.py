P = dict(
    proofs=["Proof_C07"],
    features={"quick": [None, "fixed_point"], "thorough": [None, "fixed_point"]},
    bin="egv_c07", trace="Trace_C07", level="model_checking",
    mc=[dict(module="MC_C07", quick_cfg="MC_C07.cfg", thorough_cfg="MC_C07_thorough.cfg", workers=8),
        dict(module="MC_C07", quick_cfg="MC_C07_control.cfg", expect_violation=True, coverage=False, workers=8),
        # the whole thick-polyline renderer (EGThick), original and translated side by side, one row per step
        dict(module="MC_C02p", quick_cfg="MC_C02p.cfg", thorough_cfg="MC_C02p_thorough.cfg", workers=10, thorough_timeout=3000, coverage=False),
        dict(module="MC_C02p", quick_cfg="MC_C07p_control.cfg", expect_violation=True, coverage=False, workers=6),
        dict(module="MC_C02t", quick_cfg="MC_C07t.cfg", thorough_cfg="MC_C02t.cfg", workers=10, coverage=False),
        dict(module="MC_C02t", quick_cfg="MC_C07t_control.cfg", expect_violation=True, coverage=False, workers=6)],
    required_events=["pair"],
    level_text="MC_C07 model-checks translation equivariance of the transcribed line-join intersection pipeline for all line "
               "pairs on a grid (control: the snapshot's half-away-from-zero rounding is refuted); MC_C02p runs the complete transcribed thick-polyline renderer (EGThick: extents, joins, segments, scanlines) for a polyline and its translate side by side and checks box and every row (control: the same rounding inside the renderer), MC_C02t does the same for centre-aligned thick triangle strokes (EGThickTri; same control); for every drawable of the catalogue (styled primitives, polylines, images, sub-images, text) and offsets that "
               "cross the coordinate axes, TLC checks that the pixel map, bounding box, points(), contains() and the text's "
               "next position of the translated object are the shifted originals, that translate_mut equals translate and that "
               "polylines with moved vertices render like translated ones; thick triangles / polylines on a vertex grid",
    level_note="trusted: P_C07 (shift of run lists), MapTarget, run encoding",
    rule="one case per (drawable, offset); non-trivial = the untranslated drawable painted at least one pixel; "
         "distinct = distinct descriptor",
    trusted=COMMON_TRUSTED + ["spec/P_C07.tla", "harness MapTarget"],
)
