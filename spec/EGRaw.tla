-------------------------------- MODULE EGRaw -------------------------------
(* Raw pixel data of embedded-graphics: the byte layout of the seven raw      *)
(* types (1, 2, 4, 8, 16, 24, 32 bits per pixel) in the two data orders, and  *)
(* the RawDataSlice iterator.  Constant-level module (no variables).          *)
(*                                                                            *)
(*   buffer   sequence of bytes 0..255 (1-based in TLA+, byte k of the Rust   *)
(*            slice is buf[k + 1])                                            *)
(*   index    pixel index, 0-based natural number                             *)
(*   value    "value bytes": the pixel value as a sequence of bytes, LEAST    *)
(*            significant byte first (1 byte for bpp <= 8, bpp/8 otherwise).  *)
(*            Values never appear as one integer because RawU32 values do not *)
(*            fit TLC's 32-bit integers.                                      *)
(*   option   <<>> = None, otherwise the value bytes (never empty)            *)
(*   order    LE = LittleEndianMsb0 (IS_ALTERNATE_ORDER = false)              *)
(*            BE = BigEndianLsb0    (IS_ALTERNATE_ORDER = true)               *)
(*                                                                            *)
(* ABSTRACT part  = the documented layout, core/src/pixelcolor/raw/mod.rs     *)
(*   267-272 "LittleEndianMsb0: ... bit depth is a multiple of 8: least       *)
(*            significant byte first.  Other bit depths: packed into bytes    *)
(*            from left to right with the most significant bits used first"   *)
(*   277-282 "BigEndianLsb0: ... most significant byte first.  Other bit      *)
(*            depths: packed from right to left with the least significant    *)
(*            bits used first within each byte"                               *)
(*   156-164 load "Returns None if the index is out of bounds", store         *)
(*            "Returns an error if the index is out of bounds".               *)
(* TRANSCRIBED part = what core/src/pixelcolor/raw/load_store.rs and          *)
(* src/iterator/raw.rs compute, item by item (operators ending in T).         *)
EXTENDS Integers, Sequences, EGInt

Bpps == {1, 2, 4, 8, 16, 24, 32}
LE == 0
BE == 1
Orders == {LE, BE}
None == <<>>

Ppb(bpp)    == 8 \div bpp                                 \* pixels per byte (bpp < 8)
NBytes(bpp) == IF bpp < 8 THEN 1 ELSE bpp \div 8           \* length of the value bytes
\* number of complete pixels in a buffer of len bytes (excess bytes hold no pixel)
PixelCount(bpp, len) == IF bpp < 8 THEN len * Ppb(bpp) ELSE len \div NBytes(bpp)
ValueMax1(bpp) == 2 ^ bpp - 1                             \* largest sub-byte value
IsBuffer(b)   == \A k \in 1..Len(b) : b[k] \in 0..255
IsValue(bpp, v) == /\ Len(v) = NBytes(bpp)
                   /\ IF bpp < 8 THEN v[1] \in 0..ValueMax1(bpp) ELSE \A k \in 1..Len(v) : v[k] \in 0..255
Rev(s) == [k \in 1..Len(s) |-> s[Len(s) + 1 - k]]

-----------------------------------------------------------------------------
(* ABSTRACT: documented layout *)

\* sub-byte pixels: pixel i lives in byte i \div ppb (0-based); its field starts at bit SlotShift.
\* LE (Msb0): slot 0 is the most significant field.  BE (Lsb0): slot 0 is the least significant one.
ByteOf(bpp, i) == i \div Ppb(bpp)
SlotShift(bpp, order, i) ==
  IF order = BE THEN (i % Ppb(bpp)) * bpp ELSE (Ppb(bpp) - 1 - (i % Ppb(bpp))) * bpp
Field(byte, shift, bpp) == (byte \div 2 ^ shift) % 2 ^ bpp
WithField(byte, shift, bpp, v) == byte - Field(byte, shift, bpp) * 2 ^ shift + v * 2 ^ shift

\* multi-byte pixels: pixel i occupies bytes i*n .. i*n+n-1 (0-based); value byte k (0 = least
\* significant) sits at offset k (LE) or n-1-k (BE).
BytePos(bpp, order, i, k) == i * NBytes(bpp) + (IF order = BE THEN NBytes(bpp) - 1 - k ELSE k)

InRange(bpp, buf, i) == i < PixelCount(bpp, Len(buf))

Load(bpp, order, buf, i) ==
  IF ~InRange(bpp, buf, i) THEN None
  ELSE IF bpp < 8 THEN << Field(buf[ByteOf(bpp, i) + 1], SlotShift(bpp, order, i), bpp) >>
  ELSE [k \in 1..NBytes(bpp) |-> buf[BytePos(bpp, order, i, k - 1) + 1]]

\* the buffer after storing value v at an in-range index i
Store(bpp, order, buf, i, v) ==
  IF bpp < 8
  THEN LET p == ByteOf(bpp, i) + 1 IN
       [buf EXCEPT ![p] = WithField(buf[p], SlotShift(bpp, order, i), bpp, v[1])]
  ELSE LET n == NBytes(bpp) IN
       [p \in 1..Len(buf) |->
          LET off == p - 1 - i * n IN
          IF off >= 0 /\ off < n THEN v[(IF order = BE THEN n - 1 - off ELSE off) + 1] ELSE buf[p]]

\* frame condition, stated independently of Store: b1 and b2 agree on every bit that does not
\* belong to pixel i (including excess bytes that belong to no pixel)
SameOutside(bpp, order, b1, b2, i) ==
  /\ Len(b1) = Len(b2)
  /\ \A p \in 1..Len(b1) :
       IF bpp < 8
       THEN IF p = ByteOf(bpp, i) + 1
            THEN LET s == SlotShift(bpp, order, i) IN
                 b1[p] - Field(b1[p], s, bpp) * 2 ^ s = b2[p] - Field(b2[p], s, bpp) * 2 ^ s
            ELSE b1[p] = b2[p]
       ELSE (p - 1 < i * NBytes(bpp) \/ p - 1 >= (i + 1) * NBytes(bpp)) => b1[p] = b2[p]

\* The same layout read off the prose of the documentation: the buffer as a string of bits.
\* Msb0: bytes left to right, most significant bit first, the pixel's own most significant bit
\* first.  Lsb0: least significant bit first, the pixel's least significant bit first.
MsbBit(buf, q) == (buf[q \div 8 + 1] \div 2 ^ (7 - (q % 8))) % 2
LsbBit(buf, q) == (buf[q \div 8 + 1] \div 2 ^ (q % 8)) % 2
DocLoadBits(bpp, order, buf, i) ==
  LET S[t \in 0..bpp] ==
        IF t = 0 THEN 0
        ELSE S[t - 1] + (IF order = LE THEN MsbBit(buf, i * bpp + t - 1) * 2 ^ (bpp - t)
                                       ELSE LsbBit(buf, i * bpp + t - 1) * 2 ^ (t - 1))
  IN S[bpp]
\* multi-byte: the numeric value, for n <= 3 (32-bit values do not fit a TLC integer)
DocLoadNum(bpp, order, buf, i) ==
  LET n == NBytes(bpp)
      S[k \in 0..n] ==
        IF k = 0 THEN 0
        ELSE S[k - 1] + buf[i * n + k] * 256 ^ (IF order = LE THEN k - 1 ELSE n - k)
  IN S[n]
NumOf(v) == LET S[k \in 0..Len(v)] == IF k = 0 THEN 0 ELSE S[k - 1] + v[k] * 256 ^ (k - 1) IN S[Len(v)]

-----------------------------------------------------------------------------
(* ABSTRACT: the iterator of a RawDataSlice is the sequence load(0), load(1), ...;            *)
(* position pos in 0..N, N = PixelCount.  An index or skip count too large for a TLC integer  *)
(* is represented by Huge = 2^28 (beyond every buffer considered here; 4 * Huge still fits a  *)
(* TLC integer, so the transcribed `index * n` can be evaluated).  The Rust code multiplies   *)
(* the index by the pixel size without a check (load_store.rs:73,92,102,125,135,154): for an  *)
(* index above usize::MAX / n that is an overflow panic (debug) or a wrapped index (release); *)
(* this corner is outside the model and recorded as a `panic` event by the harness.           *)
Huge == 268435456
CapAdd(a, b) == IF a >= Huge \/ b >= Huge THEN Huge ELSE Min(a + b, Huge)

\* next(): item at pos, advance if there was one.  nth(j): item at pos + j, continue behind it;
\* skipping past the end exhausts the iterator.
AbsNext(N, pos)   == [at |-> pos, pos |-> IF pos < N THEN pos + 1 ELSE pos]
AbsNth(N, pos, j) == LET q == CapAdd(pos, j) IN [at |-> q, pos |-> IF q < N THEN q + 1 ELSE N]
Remaining(N, pos) == IF pos < N THEN N - pos ELSE 0

-----------------------------------------------------------------------------
(* TRANSCRIBED: core/src/pixelcolor/raw/load_store.rs *)

\* load_store.rs:11-22  fn bit_position<R, O>(index) -> (byte_index, bit_index)
BitPositionT(bpp, order, index) ==
  LET ppb == 8 \div bpp                                                   \* :12
      byteIndex == index \div ppb                                         \* :14
      bitIndex == (IF order = BE THEN index % ppb                         \* :15-16
                   ELSE (ppb - 1) - (index % ppb)) * bpp                  \* :18-19
  IN <<byteIndex, bitIndex>>
\* raw/mod.rs:201  MASK = Storage::MAX >> (Storage::BITS - bpp), u8 storage
MaskT(bpp) == 255 \div 2 ^ (8 - bpp)
\* u8 arithmetic: x >> s, (x << s) as u8, x & !(m << s) for a contiguous mask m that fits the byte
ShrU8(x, s) == x \div 2 ^ s
ShlU8(x, s) == (x * 2 ^ s) % 256
AndMask(x, m) == x % (m + 1)                                              \* m = 2^k - 1
AndNotShifted(x, m, s) == x - AndMask(ShrU8(x, s), m) * 2 ^ s

\* load_store.rs:28-35 (RawU1, RawU2, RawU4): buffer.get(byte_index).map(|b| b >> bit_index).map(Into::into);
\* Into::into = RawUx::new = value & MASK (raw/mod.rs:186-188, 222-226)
LoadBitsT(bpp, order, buf, index) ==
  LET bp == BitPositionT(bpp, order, index) IN
  IF bp[1] >= Len(buf) THEN None
  ELSE << AndMask(ShrU8(buf[bp[1] + 1], bp[2]), MaskT(bpp)) >>
\* load_store.rs:38-48: *byte = (*byte & !(MASK << bit_index)) | (self.into_inner() << bit_index)
\* result: [ok, buffer]
StoreBitsT(bpp, order, buf, index, v) ==
  LET bp == BitPositionT(bpp, order, index) IN
  IF bp[1] >= Len(buf) THEN [ok |-> FALSE, buf |-> buf]
  ELSE [ok |-> TRUE,
        buf |-> [buf EXCEPT ![bp[1] + 1] = AndNotShifted(@, MaskT(bpp), bp[2]) + ShlU8(v[1], bp[2])]]

\* load_store.rs:58-60 / 62-67 (RawU8): buffer.get(index) / get_mut(index)
LoadU8T(buf, index) == IF index >= Len(buf) THEN None ELSE << buf[index + 1] >>
StoreU8T(buf, index, v) ==
  IF index >= Len(buf) THEN [ok |-> FALSE, buf |-> buf]
  ELSE [ok |-> TRUE, buf |-> [buf EXCEPT ![index + 1] = v[1]]]

\* load_store.rs:71-86 (RawU16), 100-119 (RawU24), 133-148 (RawU32):
\*   buffer.get(index * n..).and_then(|b| b.get(0..n)).map(|s| from_be_bytes / from_le_bytes by order)
\* (the u24 variant pads the three bytes into a u32 on the correct side; same byte selection)
SliceFromT(buf, start, n) ==          \* None or the n bytes starting at 0-based offset start
  IF start > Len(buf) THEN None
  ELSE IF Len(buf) - start < n THEN None
  ELSE [k \in 1..n |-> buf[start + k]]
LoadBytesT(bpp, order, buf, index) ==
  LET n == bpp \div 8
      s == SliceFromT(buf, index * n, n) IN
  IF s = None THEN None
  ELSE IF order = BE THEN Rev(s)                                          \* from_be_bytes :79/:110/:141
  ELSE s                                                                  \* from_le_bytes :81/:113/:143
\* load_store.rs:88-96 (RawU16), 121-129 (RawU24), 150-158 (RawU32)
\*   pinned = TRUE : the tree as pinned: `let bytes = self.into_inner().to_le_bytes();` for BOTH orders
\*                   (:89, :122, :151)  -- defect D1
\*   pinned = FALSE: the repaired code: to_be_bytes for the alternate order
StoreBytesT(pinned, bpp, order, buf, index, v) ==
  LET n == bpp \div 8
      bytes == IF order = BE /\ ~pinned THEN Rev(v) ELSE v
      start == index * n IN
  IF SliceFromT(buf, start, n) = None THEN [ok |-> FALSE, buf |-> buf]
  ELSE [ok |-> TRUE,
        buf |-> [p \in 1..Len(buf) |-> IF p > start /\ p <= start + n THEN bytes[p - start] ELSE buf[p]]]

\* raw/mod.rs:212-219 dispatch
LoadT(bpp, order, buf, index) ==
  IF bpp < 8 THEN LoadBitsT(bpp, order, buf, index)
  ELSE IF bpp = 8 THEN LoadU8T(buf, index)
  ELSE LoadBytesT(bpp, order, buf, index)
StoreT(pinned, bpp, order, buf, index, v) ==
  IF bpp < 8 THEN StoreBitsT(bpp, order, buf, index, v)
  ELSE IF bpp = 8 THEN StoreU8T(buf, index, v)
  ELSE StoreBytesT(pinned, bpp, order, buf, index, v)

-----------------------------------------------------------------------------
(* TRANSCRIBED: src/iterator/raw.rs:88-114, the RawDataIterator machine; state = index.       *)
(* usize::MAX is modelled by Huge (saturating_add saturates there).                           *)
ItNextT(bpp, order, buf, idx) ==                                          \* raw.rs:91-95
  LET r == IF idx >= Huge THEN None ELSE LoadT(bpp, order, buf, idx) IN
  [item |-> r, idx |-> IF r = None THEN idx ELSE idx + 1]
ItNthT(bpp, order, buf, idx, n) ==                                        \* raw.rs:98-101
  ItNextT(bpp, order, buf, CapAdd(idx, n))
\* raw.rs:103-113
\*   pinned = TRUE : as pinned, the two branches are swapped: `>= 8` multiplies by 8 / bpp (= 0 for
\*                   bpp > 8), `< 8` multiplies by bpp / 8 (= 0)  -- defect D2
\*   pinned = FALSE: repaired: len / (bpp / 8) resp. len * (8 / bpp)
ItSizeHintT(pinned, bpp, len, idx) ==
  LET total == IF pinned
               THEN (IF bpp >= 8 THEN len * (8 \div bpp) ELSE len * (bpp \div 8))
               ELSE (IF bpp >= 8 THEN len \div (bpp \div 8) ELSE len * (8 \div bpp))
      size == SatSubU(total, Min(idx, Huge)) IN                           \* :110 saturating_sub
  <<size, size>>                                                          \* :112 (size, Some(size))
=============================================================================
