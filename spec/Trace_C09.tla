------------------------------ MODULE Trace_C09 -----------------------------
(* (T) for C09: every recorded ImageRaw::new result, pixel() probe and every   *)
(* draw of an Image over a raw image / sub-image chain (on a draining native   *)
(* target and on a draw_iter-only target) is judged by the property-level      *)
(* predicates of P_C09.  State: the image of the current case.                 *)
(* The two counters pinned/patched only feed the drift statistic (which        *)
(* transcription of ContiguousPixels the observed stream lengths agree with);  *)
(* they never produce a verdict.                                               *)
EXTENDS TraceBase, P_C09
VARIABLES l, img, st

NoImg == [bpp |-> 0, ord |-> 0, w |-> 0, h |-> 0, data |-> <<>>]
Init == l = 1 /\ img = NoImg /\ st = [draws |-> 0, fc_calls |-> 0, fc_len_as_pinned_machine |-> 0, fc_len_as_patched_machine |-> 0]

FcOf(calls) == SelectSeq(calls, LAMBDA c : c.m = "fc")
DrawDetail(e, tgt, calls) ==
  LET abs == AbsChain(img, e.areas) IN
  [what |-> "draw", tgt |-> tgt, bpp |-> img.bpp, ord |-> img.ord, img |-> <<img.w, img.h>>, areas |-> e.areas,
   mode |-> e.mode, at |-> e.at, size |-> e.size,
   root |-> <<abs[1][1], abs[1][2], abs[2][1], abs[2][2]>>,
   streams |-> [i \in 1..Len(FcOf(calls)) |-> [n |-> FcOf(calls)[i].n, area |-> FcOf(calls)[i].area]]]

StepCase(e) == e.ev = "case" /\ img' = NoImg /\ st' = st
StepNew(e) ==
  /\ e.ev = "new"
  /\ \A i \in 1..Len(e.items) :
       Report(e.case, NewFails(e.bpp, e.w, e.h, e.items[i]),
              [what |-> "new", bpp |-> e.bpp, w |-> e.w, h |-> e.h, item |-> e.items[i]])
  /\ UNCHANGED <<img, st>>
\* ImageRaw::new accepted `data`
StepImage(e) ==
  /\ e.ev = "image"
  /\ Report(e.case, NewFails(e.bpp, e.w, e.h, <<Len(e.data), 1, -1>>),
            [what |-> "new", bpp |-> e.bpp, w |-> e.w, h |-> e.h, item |-> <<Len(e.data), 1, -1>>])
  /\ img' = IF Len(e.data) = ExpectedLen(e.w, e.h, e.bpp)
            THEN [bpp |-> e.bpp, ord |-> e.ord, w |-> e.w, h |-> e.h, data |-> e.data] ELSE NoImg
  /\ st' = st
\* ImageRaw::new rejected data of length e.len
StepNoImage(e) ==
  /\ e.ev = "noimage"
  /\ Report(e.case, NewFails(e.bpp, e.w, e.h, <<e.len, 0, ExpectedLen(e.w, e.h, e.bpp)>>),
            [what |-> "new", bpp |-> e.bpp, w |-> e.w, h |-> e.h, item |-> <<e.len, 0>>])
  /\ UNCHANGED <<img, st>>
StepPixels(e) ==
  /\ e.ev = "pixels"
  /\ IF img.bpp = 0 THEN TRUE
     ELSE Report(e.case, PixelFails(img, e.probes),
                 [what |-> "pixel", bpp |-> img.bpp, ord |-> img.ord, img |-> <<img.w, img.h>>,
                  bad |-> SelectSeq(e.probes, LAMBDA p : p[3] # PixelOpt(img, <<p[1], p[2]>>))])
  /\ UNCHANGED <<img, st>>
StatAfterDraw(e) ==
  LET abs == AbsChain(img, e.areas)
      ra == <<abs[1][1], abs[1][2], abs[2][1], abs[2][2]>>
      one == Len(e.native) = 1 /\ e.native[1].m = "fc"
  IN [draws |-> st.draws + 1, fc_calls |-> st.fc_calls + Len(FcOf(e.native)),
      fc_len_as_pinned_machine |-> st.fc_len_as_pinned_machine +
         (IF one /\ e.native[1].n = CPCount(img, ra, "pinned") THEN 1 ELSE 0),
      fc_len_as_patched_machine |-> st.fc_len_as_patched_machine +
         (IF one /\ e.native[1].n = CPCount(img, ra, "patched") THEN 1 ELSE 0)]
StepDraw(e) ==
  /\ e.ev = "draw"
  /\ IF img.bpp = 0 THEN st' = st
     ELSE /\ Report(e.case, DrawFails(img, e.areas, e.mode, e.at, e.size, e.native), DrawDetail(e, "native", e.native))
          /\ Report(e.case, DrawFails(img, e.areas, e.mode, e.at, e.size, e.dflt), DrawDetail(e, "draw_iter_only", e.dflt))
          /\ st' = StatAfterDraw(e)
  /\ img' = img
StepPanic(e) == e.ev = "panic" /\ UNCHANGED <<img, st>>     \* totality is C08's business; counted by the recorder

Next == /\ l <= NRec
        /\ LET e == Rec[l] IN
           StepCase(e) \/ StepNew(e) \/ StepImage(e) \/ StepNoImage(e) \/ StepPixels(e) \/ StepDraw(e) \/ StepPanic(e)
        /\ l' = l + 1
        /\ IF l = NRec THEN PrintT("STAT " \o ToJson(st')) ELSE TRUE
Spec == Init /\ [][Next]_<<l, img, st>>

Done == IF TLCGet("stats").diameter = NRec + 1
        THEN PrintT("TRACE-ACCEPTED " \o ToString(NRec))
        ELSE PrintT("TRACE-REJECTED at line " \o ToString(TLCGet("stats").diameter)) /\ FALSE
=============================================================================
