------------------------------- MODULE P_C11 -------------------------------
(* Property C11 -- raw pixel load/store and iteration round-trip in both data *)
(* orders.  Property-level predicates over an input and an OBSERVED result;   *)
(* each returns the set of failure codes (empty = allowed).  MC_C11 feeds     *)
(* them the transcribed code of EGRaw, Trace_C11 what the library did.        *)
(* Only the ABSTRACT (documented-layout) part of EGRaw is used here.          *)
(*                                                                            *)
(* Encodings of the trace (see harness/src/bin/egv_c11.rs):                   *)
(*   index / count  usize as four 16-bit limbs <<l0, l1, l2, l3>>, l0 lowest  *)
(*   value          value bytes, least significant first (EGRaw)              *)
(*   option         <<>> = None, else the value bytes                         *)
(*   store item     <<ix, v, res, after, back>>  res 1 = Ok(()), 0 = Err;     *)
(*                  after = the buffer after the call; back = load(after, ix) *)
(*   load item      <<ix, res>>                                               *)
(*   script step    <<op, l0, l1, l2, l3>>  op 0 = next(), 1 = nth(limbs),    *)
(*                  2 = size_hint()                                           *)
(*   observation    next/nth: option;  size_hint: <<lo limbs (4), hiPresent,  *)
(*                  hi limbs (4)>>                                            *)
EXTENDS EGRaw, SequencesExt

\* a usize as a model number; everything from 2^28 up is Huge (beyond every buffer used)
IxVal4(a, b, c, d) == IF c # 0 \/ d # 0 \/ b >= 4096 THEN Huge ELSE a + 65536 * b
IxVal(ix) == IxVal4(ix[1], ix[2], ix[3], ix[4])
Limbs(i)  == IF i >= Huge THEN <<65535, 65535, 65535, 65535>> ELSE <<i % 65536, i \div 65536, 0, 0>>

\* store(v, buf, i): Ok, pixel i holds v in the documented layout, nothing else changed, and the
\* library's own load returns v; beyond the buffer: Err, buffer unchanged, load = None
\* (it[6] = 1: the raw object held bits above its bit depth although it came from RawData::from_u32)
StoreFails(bpp, order, buf, it) ==
  LET i == IxVal(it[1])  v == it[2]  res == it[3]  after == it[4]  back == it[5] IN
  (IF it[6] = 0 THEN {} ELSE {"raw_value_exceeds_its_bit_depth"}) \cup
  IF InRange(bpp, buf, i)
  THEN (IF res = 1 THEN {} ELSE {"store_not_ok"})
  \cup (IF Len(after) = Len(buf) /\ Load(bpp, order, after, i) = v THEN {} ELSE {"store_layout"})
  \cup (IF SameOutside(bpp, order, buf, after, i) THEN {} ELSE {"store_frame"})
  \cup (IF back = v THEN {} ELSE {"roundtrip"})
  ELSE (IF res = 0 THEN {} ELSE {"oob_store_not_err"})
  \cup (IF after = buf THEN {} ELSE {"oob_buffer_changed"})
  \cup (IF back = None THEN {} ELSE {"oob_load_not_none"})

\* load(buf, i) returns the value the documented layout assigns to pixel i, None beyond the buffer
LoadFails(bpp, order, buf, it) ==
  LET i == IxVal(it[1]) IN
  IF it[2] = Load(bpp, order, buf, i) THEN {}
  ELSE IF InRange(bpp, buf, i) THEN {"load_layout"} ELSE {"oob_load_not_none"}

\* One run of the iterator: script and observations, judged against the sequence
\* load(0), load(1), ... .  Result: [pos, codes, step, bad] (step = first failing step, 0 = none;
\* bad = the distinct observations of all failing steps).
IterStep(bpp, order, buf, N, acc, sc, ob, k) ==
  IF sc[1] >= 3
  THEN \* consuming observations of the remaining items load(pos) .. load(N - 1) through provided Iterator methods
       LET rem == Remaining(N, acc.pos)
           c == CASE sc[1] = 3 -> IF IxVal4(ob[1], ob[2], ob[3], ob[4]) = rem THEN {} ELSE {"count"}
                  [] sc[1] = 4 -> IF ob = (IF rem = 0 THEN None ELSE Load(bpp, order, buf, N - 1)) THEN {} ELSE {"last"}
                  [] OTHER     -> IF Len(ob) = Min(rem, 4096) /\ \A j \in 1..Len(ob) : ob[j] = Load(bpp, order, buf, acc.pos + j - 1)
                                  THEN {} ELSE {"fold_items"}
       IN [pos |-> N, codes |-> acc.codes \cup c,
           step |-> IF acc.step = 0 /\ c # {} THEN k ELSE acc.step,
           bad |-> IF c # {} THEN acc.bad \cup {IF sc[1] = 5 THEN <<Len(ob)>> ELSE ob} ELSE acc.bad]
  ELSE IF sc[1] = 2
  THEN LET rem == Remaining(N, acc.pos)
           c == (IF IxVal4(ob[1], ob[2], ob[3], ob[4]) <= rem THEN {} ELSE {"size_hint_lower"})
           \cup (IF ob[5] = 0 \/ IxVal4(ob[6], ob[7], ob[8], ob[9]) >= rem THEN {} ELSE {"size_hint_upper"})
       IN [pos |-> acc.pos, codes |-> acc.codes \cup c,
           step |-> IF acc.step = 0 /\ c # {} THEN k ELSE acc.step,
           bad |-> IF c # {} THEN acc.bad \cup {ob} ELSE acc.bad]
  ELSE LET st == IF sc[1] = 0 THEN AbsNext(N, acc.pos)
                 ELSE AbsNth(N, acc.pos, IxVal4(sc[2], sc[3], sc[4], sc[5]))
           c == IF ob = Load(bpp, order, buf, st.at) THEN {}
                ELSE {IF sc[1] = 0 THEN "next_item" ELSE "nth_item"}
       IN [pos |-> st.pos, codes |-> acc.codes \cup c,
           step |-> IF acc.step = 0 /\ c # {} THEN k ELSE acc.step,
           bad |-> IF c # {} THEN acc.bad \cup {ob} ELSE acc.bad]
IterRun(bpp, order, buf, script, obs) ==
  LET N == PixelCount(bpp, Len(buf)) IN
  IF Len(obs) # Len(script) THEN [pos |-> 0, codes |-> {"malformed_run"}, step |-> 0, bad |-> {}]
  ELSE FoldLeftDomain(LAMBDA acc, k : IterStep(bpp, order, buf, N, acc, script[k], obs[k], k),
                      [pos |-> 0, codes |-> {}, step |-> 0, bad |-> {}], script)
=============================================================================
