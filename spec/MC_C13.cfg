SPECIFICATION Spec
INVARIANTS NearestOK ExtremesOK WidenBackOK TableOK PairOK LumaExtremesOK GrayBackOK GrayRgbOK
PROPERTIES MonoCC MonoLuma
CHECK_DEADLOCK FALSE
