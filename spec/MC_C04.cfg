CONSTANTS
  MaxLen = 4
  Mutant = "none"
SPECIFICATION Spec
INVARIANT Protocol
CHECK_DEADLOCK FALSE
