CONSTANTS
  SMax = 5
  Mutant = "none"
SPECIFICATION Spec
INVARIANTS RowsAgree ConfinedFits
CHECK_DEADLOCK FALSE
