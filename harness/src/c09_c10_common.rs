//! Helpers shared by the C09 and C10 recorders (included with #[path] by egv_c09.rs / egv_c10.rs;
//! not part of the egv library): the 32-bit test colour, the draining recording target, the
//! call encoding and the test byte patterns.  Record only, no oracle.
#![allow(dead_code)]
use egv::targets::Call;
use egv::util::*;
use egv::*;
use embedded_graphics::pixelcolor::raw::RawU32;
use embedded_graphics::pixelcolor::*;
use embedded_graphics::{prelude::*, primitives::Rectangle, Pixel};
use std::marker::PhantomData;

/// 32 bit test colour (the library has no colour type over RawU32)
#[derive(Copy, Clone, PartialEq, Eq, Debug)]
pub struct C32(pub u32);
impl PixelColor for C32 {
    type Raw = RawU32;
}
impl From<RawU32> for C32 {
    fn from(r: RawU32) -> Self {
        C32(r.into_inner())
    }
}
impl From<C32> for RawU32 {
    fn from(c: C32) -> Self {
        RawU32::new(c.0)
    }
}
impl Col for C32 {
    const NAME: &'static str = "C32";
    const BITS: u32 = 32;
    fn raw(self) -> u32 {
        self.0
    }
    fn from_u32(v: u32) -> Self {
        C32(v)
    }
}

pub fn ci<C: Col>(c: C) -> i32 {
    c.raw() as i32
}

/// Recording target that implements all four methods and drains colour streams to their first
/// `None` (through next() and through internal iteration, see fill_contiguous), counting every item
/// (stored: the first area + width + 16 of them).
pub struct Drain<C: Col> {
    pub calls: Vec<Value>,
    /// at most this many colours of a stream are stored (all are counted)
    pub store_cap: usize,
    /// the bounding box the target REPORTS (it logs whatever it receives)
    pub bbox: Rectangle,
    /// > 0: the first `skip` colours of every stream are skipped with ONE call of nth() (a driver that discards the rows
    /// above its window); the call record then holds "skip" and the colours from that position on
    pub skip: usize,
    _c: PhantomData<C>,
}
pub const HARD_CAP: usize = 1 << 20;
pub fn call_json(m: &str, area: &Rectangle, n: usize, over: bool, cs: Vec<i32>, px: Vec<Value>, c: i32) -> Value {
    json!({"m": m, "area": rect_json(area), "n": n, "over": over as i32, "cs": cs, "px": px, "c": c})
}
impl<C: Col> Drain<C> {
    pub fn new() -> Self {
        Drain { calls: vec![], store_cap: 1 << 17, bbox: Rectangle::new(Point::new(-(1 << 20), -(1 << 20)), Size::new(1 << 21, 1 << 21)), skip: 0, _c: PhantomData }
    }
}
impl<C: Col> Dimensions for Drain<C> {
    fn bounding_box(&self) -> Rectangle {
        self.bbox
    }
}
impl<C: Col> DrawTarget for Drain<C> {
    type Color = C;
    type Error = core::convert::Infallible;
    fn draw_iter<I: IntoIterator<Item = Pixel<C>>>(&mut self, pixels: I) -> Result<(), Self::Error> {
        let px: Vec<Value> = pixels.into_iter().take(HARD_CAP).map(|Pixel(p, c)| json!([p.x, p.y, ci(c)])).collect();
        self.calls.push(call_json("di", &Rectangle::zero(), 0, false, vec![], px, 0));
        Ok(())
    }
    fn fill_contiguous<I: IntoIterator<Item = C>>(&mut self, area: &Rectangle, colors: I) -> Result<(), Self::Error> {
        let keep = (area.size.width as usize * area.size.height as usize + area.size.width as usize + 16).min(self.store_cap);
        let mut cs = vec![];
        let mut n = 0usize;
        let mut over = false;
        let mut it = colors.into_iter();
        if self.skip > 0 {
            // nth(skip - 1) discards `skip` colours; everything after that is pulled with next()
            let _ = it.nth(self.skip - 1);
            for c in it {
                if n == HARD_CAP {
                    over = true;
                    break;
                }
                if cs.len() < keep {
                    cs.push(ci(c));
                }
                n += 1;
            }
            let mut call = call_json("fc", area, n, over, cs, vec![], 0);
            call["skip"] = json!(self.skip);
            self.calls.push(call);
            return Ok(());
        }
        // How a driver consumes the stream is its own business: pull the first `pre` colours one by one with next()
        // (nothing, half a row, one row, two rows - rotating from call to call - or everything) and take the rest by
        // internal iteration (for_each = fold), as an address-window streaming driver does.  Large areas are pulled
        // with next() only, so that an endless stream can be cut off.
        let w = area.size.width as usize;
        let small = (area.size.width as u64) * (area.size.height as u64) <= 1 << 16;
        // (rotating over all streams of the process: most targets live for a single call)
        static STREAMS: std::sync::atomic::AtomicUsize = std::sync::atomic::AtomicUsize::new(0);
        let k = STREAMS.fetch_add(1, std::sync::atomic::Ordering::Relaxed);
        let pre = if small { [0, (w + 1) / 2, w, 2 * w, usize::MAX, w, 1][k % 7] } else { usize::MAX };
        while n < pre {
            match it.next() {
                Some(c) => {
                    if n == HARD_CAP {
                        over = true;
                        break;
                    }
                    if cs.len() < keep {
                        cs.push(ci(c));
                    }
                    n += 1;
                }
                None => break,
            }
        }
        if pre != usize::MAX && !over {
            it.for_each(|c| {
                assert!(n < HARD_CAP, "harness: colour stream of a small area does not end");
                if cs.len() < keep {
                    cs.push(ci(c));
                }
                n += 1;
            });
        }
        self.calls.push(call_json("fc", area, n, over, cs, vec![], 0));
        Ok(())
    }
    fn fill_solid(&mut self, area: &Rectangle, color: C) -> Result<(), Self::Error> {
        self.calls.push(call_json("fs", area, 0, false, vec![], vec![], ci(color)));
        Ok(())
    }
    fn clear(&mut self, color: C) -> Result<(), Self::Error> {
        self.calls.push(call_json("clear", &Rectangle::zero(), 0, false, vec![], vec![], ci(color)));
        Ok(())
    }
}

/// calls of the draw_iter-only target (the library's trait defaults run for real) in the same shape
pub fn default_calls(calls: &[Call]) -> Vec<Value> {
    calls
        .iter()
        .map(|c| match c {
            Call::DrawIter { px } => {
                let px = px.iter().map(|&(x, y, c)| json!([x, y, c as i32])).collect();
                call_json("di", &Rectangle::zero(), 0, false, vec![], px, 0)
            }
            other => panic!("unexpected call on the draw_iter-only target: {:?}", other),
        })
        .collect()
}

pub fn splitmix(x: &mut u64) -> u64 {
    *x = x.wrapping_add(0x9E37_79B9_7F4A_7C15);
    let mut z = *x;
    z = (z ^ (z >> 30)).wrapping_mul(0xBF58_476D_1CE4_E5B9);
    z = (z ^ (z >> 27)).wrapping_mul(0x94D0_49BB_1331_11EB);
    z ^ (z >> 31)
}
/// test data; pat 0 / 1 are EGImage.PatByte
pub fn pat_data(pat: i64, seed: u64, len: usize) -> Vec<u8> {
    let mut s = seed;
    (0..len)
        .map(|k| match pat {
            0 => ((37 * k + 11) % 256) as u8,
            1 => 0xA5u8.rotate_left((k % 8) as u32),
            _ => (splitmix(&mut s) >> 24) as u8,
        })
        .collect()
}

