P = dict(
    proofs=["Proof_C19"],
    bin="egv_c19", trace="Trace_C19", level="model_checking",
    mc=[dict(module="MC_C19", quick_cfg="MC_C19.cfg", thorough_cfg="MC_C19_thorough.cfg"),
        # the 1 px outline rendered by the transcribed styled-triangle machine (EGThickTri) = the three edge lines
        dict(module="MC_C02t", quick_cfg="MC_C19t.cfg", workers=8, coverage=False),
        dict(module="MC_C02t", quick_cfg="MC_C19t_control.cfg", expect_violation=True, coverage=False, workers=4)],
    drift_checked=True,
    required_events=["tri", "pair", "poly"],
    level_text="MC_C02t (EGThickTri, the styled-triangle scanline machine) shows for every vertex triple of a grid that the 1 px outline is exactly the union of the three edge lines and that no row is lost (control: two edges only); TLC steps the transcribed fill scanline iterator of Triangle::points() (one scanline per action) for every "
               "vertex multiset of a grid and the transcribed polyline::Points machine (one next() per action) for every "
               "short polyline of a grid, with the clauses of the property (exact integer geometry: closed triangle by cross "
               "products, distance <= 1 to an edge segment, all 6 vertex orders, shared-edge pairs, concatenation of segment "
               "lines) as invariants; the cases it explored plus larger exhaustive grids and seeded triangles / pairs / "
               "polylines are run through the real library and TLC validates every recorded point set / sequence against "
               "the same predicates; the one-pixel triangle outline is checked on the real code only",
    level_note="trusted: EGTriangle abstract part, P_C19, recorder egv_c19; the edge / segment lines the outline and polyline "
               "clauses refer to are the real Line::points() (their correctness is C17); bounded grids + seeded sampling "
               "(|coordinates| <= 300), not a proof for all i32; the stroke path (LineJoin / ThickSegment) is not transcribed",
    rule="one case per triangle vertex multiset (all 6 orders recorded in the case), per pair of triangles sharing an edge, "
         "per polyline (vertices + translation): (G) every case explored by MC_C19, every vertex multiset of a 6x6 (thorough "
         "8x8) grid incl. colinear / coincident ones, seeded triangles up to +-300, sampled shared-edge pairs, all polylines "
         "with <= 3 vertices of a 4x4 grid and seeded ones with 4..6 vertices incl. repeats and reversals; "
         "non-trivial = points() non-empty; distinct = distinct descriptor",
    trusted=COMMON_TRUSTED + ["spec/EGTriangle.tla abstract part and spec/P_C19.tla"],
    assumptions=["the readings of 'within one pixel of an edge', 'same pixels along the shared edge' and 'consists of its three "
                 "edge lines' (direction of each edge line existential) are those fixed in DESIGN.md §6 C19"],
)
