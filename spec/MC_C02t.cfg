CONSTANTS
  G = 2
  Ws = {2, 3}
  D <- DQuick
  Als = {0, 1, 2}
  HasFill = TRUE
SPECIFICATION Spec
INVARIANTS RowInsideBox Equivariant RowsOrdered NoRowLost OutlineIsThreeLines
CHECK_DEADLOCK FALSE
