------------------------------ MODULE Trace_C11 -----------------------------
(* (T) for C11: every recorded load / store / iterator run of the real        *)
(* library is judged by the property-level predicates of P_C11 (documented    *)
(* layout of EGRaw).  One VERDICT per failing item.                           *)
EXTENDS TraceBase, P_C11
VARIABLE l

Init == l = 1

StepCase(e) == e.ev = "case"
StepLoad(e) ==
  /\ e.ev = "load"
  /\ \A k \in 1..Len(e.items) :
       LET it == e.items[k] IN
       Report(e.case, LoadFails(e.bpp, e.order, e.buf, it),
              [ev |-> "load", bpp |-> e.bpp, order |-> e.order, buf |-> e.buf, ix |-> it[1], res |-> it[2]])
StepStore(e) ==
  /\ e.ev = "store"
  /\ \A k \in 1..Len(e.items) :
       LET it == e.items[k] IN
       Report(e.case, StoreFails(e.bpp, e.order, e.buf, it),
              [ev |-> "store", bpp |-> e.bpp, order |-> e.order, buf |-> e.buf, ix |-> it[1],
               i |-> IxVal(it[1]), v |-> it[2], res |-> it[3], after |-> it[4], back |-> it[5]])
StepIter(e) ==
  /\ e.ev = "iter"
  /\ \A k \in 1..Len(e.runs) :
       LET r == IterRun(e.bpp, e.order, e.buf, e.runs[k][1], e.runs[k][2]) IN
       Report(e.case, r.codes,
              [ev |-> "iter", bpp |-> e.bpp, order |-> e.order, len |-> Len(e.buf),
               script |-> e.runs[k][1], step |-> r.step,
               obs |-> IF r.step > 0 THEN e.runs[k][2][r.step] ELSE <<>>, bad |-> r.bad])
\* a panic of the library is data (harness note `panicked_calls`), not a verdict of this property
\* a library call of this case panicked: the property promises a result for every input of its domain
StepPanic(e) == e.ev = "panic" /\ Report(e.case, {"library_call_panicked"}, [msg |-> e.msg, loc |-> e.loc])

Next == /\ l <= NRec
        /\ LET e == Rec[l] IN StepCase(e) \/ StepLoad(e) \/ StepStore(e) \/ StepIter(e) \/ StepPanic(e)
        /\ l' = l + 1
Spec == Init /\ [][Next]_l

Done == IF TLCGet("stats").diameter = NRec + 1
        THEN PrintT("TRACE-ACCEPTED " \o ToString(NRec))
        ELSE PrintT("TRACE-REJECTED at line " \o ToString(TLCGet("stats").diameter)) /\ FALSE
=============================================================================
