CONSTANTS
  DMax = 24
  EMax = 12
  Mutant = TRUE
  Gen = FALSE
SPECIFICATION Spec
INVARIANTS EmitsInOrder Complete
CHECK_DEADLOCK FALSE
