------------------------------ MODULE Trace_C03 -----------------------------
(* (T) for C03.  State: the adapter stack of the current case and the parent's *)
(* frame buffer `fb` (accumulated over the operations of the case).  Every     *)
(* `op` event carries the operation issued on the top adapter and the calls    *)
(* that reached the parent; the step is accepted iff the parent's new content  *)
(* is fb (+) Effect(stack, op) and no clipped point reached the parent.        *)
EXTENDS TraceBase, P_C03
VARIABLES l, pbox, stack, fb, native

\* conversion table of a cc layer as a function
CMapOf(table) == [c \in { table[i][1] : i \in 1..Len(table) } |->
                    LET i == CHOOSE j \in 1..Len(table) : table[j][1] = c IN table[i][2]]
MkStack(layers, cmaps) ==
  [i \in 1..Len(layers) |->
     CASE layers[i].k = "tr" -> [k |-> "tr", o |-> layers[i].o]
       [] layers[i].k = "cc" -> [k |-> "cc", cmap |-> CMapOf(cmaps[i])]
       [] OTHER -> [k |-> layers[i].k, a |-> layers[i].a]]

\* recorded call (with the recorder's extra fields) vs transcribed call; a recorded colour stream that was
\* cut off by the recorder (`over`) is compared as a prefix
SameCall(r, t) == /\ r.m = t.m /\ r.area = t.area /\ r.color = t.color /\ r.px = t.px
                  /\ IF r.over THEN Len(r.colors) <= Len(t.colors) /\ r.colors = SubSeq(t.colors, 1, Len(r.colors))
                     ELSE r.colors = t.colors
SameCalls(rs, ts) == Len(rs) = Len(ts) /\ \A i \in 1..Len(rs) : SameCall(rs[i], ts[i])

Init == l = 1 /\ pbox = Zero /\ stack = <<>> /\ fb = EmptyFb /\ native = 1

StepCase(e) == e.ev = "case" /\ pbox' = Zero /\ stack' = <<>> /\ fb' = EmptyFb /\ native' = 1
StepStack(e) ==
  /\ e.ev = "stack"
  /\ pbox' = e.pbox /\ stack' = MkStack(e.layers, e.cmaps) /\ fb' = EmptyFb /\ native' = e.native
  /\ Report(e.case, BoxFails(e.pbox, stack', e.boxes), [boxes |-> e.boxes])
StepOp(e) ==
  /\ e.ev = "op"
  /\ Report(e.case, OpFails(pbox, stack, fb, e.op, e.parent), [op |-> e.op, nparent |-> Len(e.parent)])
  /\ DriftReport(e.case,
        LET low == LowerStack(pbox, stack, Len(stack), e.op) IN
        SameCalls(e.parent, IF native = 1 THEN <<low>> ELSE <<LowerDefault(pbox, low)>>),
        "adapter_lowering_transcription", [op |-> e.op, nparent |-> Len(e.parent)])
  /\ fb' = ApplyAll(fb, pbox, e.parent)        \* continue from what the implementation did
  /\ UNCHANGED <<pbox, stack, native>>
\* an operation on a huge area: only the prefix of the parent's pixel stream is judged; fb is not tracked
StepHugeOp(e) ==
  /\ e.ev = "hugeop"
  /\ Report(e.case, HugeFails(pbox, stack, e.op, e.parent), [op |-> [m |-> e.op.m, area |-> e.op.area], nparent |-> Len(e.parent)])
  /\ UNCHANGED <<pbox, stack, fb, native>>
\* fill_contiguous of a huge area through ONE clipped layer, with the colour stream colour(row, column) =
\* (7 row + 3 column) mod 251 of the area: the parent holds exactly that picture on clip /\ pbox /\ area
StepHugeClip(e) ==
  /\ e.ev = "hugeclip"
  /\ LET inter == Intersection(Intersection(e.clip, e.pbox), e.area)
         got == ApplyAll(EmptyFb, e.pbox, e.parent)
         want == [p \in PointsOf(inter) |-> (7 * (p[2] - e.area[2]) + 3 * (p[1] - e.area[1])) % 251]
     IN Report(e.case, IF got = want THEN {} ELSE {"huge_area_through_clip_differs"},
               [area |-> e.area, clip |-> e.clip, nparent |-> Len(e.parent), npoints |-> Cardinality(DOMAIN got)])
  /\ UNCHANGED <<pbox, stack, fb, native>>
\* an operation that panicked did not leave the parent "exactly as if the operation had been applied"
StepOpPanic(e) ==
  /\ e.ev = "oppanic"
  /\ Report(e.case, {"operation_panicked"}, [op |-> e.op, msg |-> e.msg, loc |-> e.loc])
  /\ UNCHANGED <<pbox, stack, fb, native>>
StepPanic(e) == e.ev = "panic" /\ UNCHANGED <<pbox, stack, fb, native>>
Next == /\ l <= NRec
        /\ LET e == Rec[l] IN StepCase(e) \/ StepStack(e) \/ StepOp(e) \/ StepHugeOp(e) \/ StepHugeClip(e) \/ StepOpPanic(e) \/ StepPanic(e)
        /\ l' = l + 1
Spec == Init /\ [][Next]_<<l, pbox, stack, fb, native>>
Done == IF TLCGet("stats").diameter = NRec + 1
        THEN PrintT("TRACE-ACCEPTED " \o ToString(NRec))
        ELSE PrintT("TRACE-REJECTED at line " \o ToString(TLCGet("stats").diameter)) /\ FALSE
=============================================================================
