CONSTANTS
  SMax = 8
  Mutant = "none"
SPECIFICATION Spec
INVARIANTS RowsAgree ConfinedFits
CHECK_DEADLOCK FALSE
