CONSTANTS
  Full = FALSE
SPECIFICATION Spec
INVARIANTS RowOK RawRowOK TableOK
CHECK_DEADLOCK FALSE
