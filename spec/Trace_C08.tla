------------------------------ MODULE Trace_C08 -----------------------------
(* (T) for C08: a thin monitor.  Every recorded library call of a case inside *)
(* the display-scale domain (or of the rejection clause) must have returned,  *)
(* within its step budget, without heap allocation; rejected inputs must have *)
(* had no effect.  One VERDICT per failing call (the detail carries the panic *)
(* site so that each site is one finding).                                    *)
EXTENDS TraceBase, P_C08
VARIABLES l, ncalls
Init == l = 1 /\ ncalls = 0
StepCase(e)  == e.ev = "case" /\ UNCHANGED ncalls
StepCalls(e) ==
  /\ e.ev = "calls"
  /\ ncalls' = ncalls + Len(e.calls)
  /\ IF e.kind # "reject" /\ ~DisplayScale(e)
     THEN Report(e.case, {"recorder_left_the_display_scale_domain"}, [coords |-> e.coords, sizes |-> e.sizes, w |-> e.w])
     ELSE \A j \in 1..Len(e.calls) :
            LET c == e.calls[j] IN
            Report(e.case, CallFails(c), [api |-> c.api, outcome |-> c.outcome, msg |-> c.msg, loc |-> c.loc, allocs |-> c.allocs, stack |-> c.stack])
Next == /\ l <= NRec
        /\ LET e == Rec[l] IN StepCase(e) \/ StepCalls(e)
        /\ l' = l + 1
Spec == Init /\ [][Next]_<<l, ncalls>>
Done == IF TLCGet("stats").diameter = NRec + 1
        THEN PrintT("TRACE-ACCEPTED " \o ToString(NRec))
        ELSE PrintT("TRACE-REJECTED at line " \o ToString(TLCGet("stats").diameter)) /\ FALSE
=============================================================================
