CONSTANTS
  MaxLen = 4
  Depth = 4
  Pinned = FALSE
  Gen = TRUE
SPECIFICATION Spec
INVARIANTS StoreOK LoadOK IterOK PosRel LayoutOK DocOK OutOK
CHECK_DEADLOCK FALSE
