------------------------------- MODULE P_C03 -------------------------------
(* Property C03 — clipped / cropped / translated / converted targets and the  *)
(* trait defaults are exact.                                                  *)
(*  BoxFails : every layer reports the documented bounding box (as a point    *)
(*             set; for a non-empty box that is the exact rectangle).         *)
(*  OpFails  : after an operation issued on the top of the stack the parent   *)
(*             holds exactly fb (+) Effect(stack, op), and - if the stack     *)
(*             contains a clipped layer - no call that reaches the parent     *)
(*             addresses a point outside what the clip layers allow.          *)
(* Stacks containing a cropped layer whose area misses its parent have no     *)
(* documented coordinate shift: only their bounding boxes are checked.        *)
EXTENDS EGAdapters

BoxFails(pbox, stack, boxes) ==
  IF \A i \in 0..Len(stack) : SameSet(boxes[i + 1], BoxOf(pbox, SubSeq(stack, 1, i)))
  THEN {} ELSE {"bounding_box_of_adapter"}

OpFails(pbox, stack, fb, op, parentCalls) ==
  IF ~WellDefined(pbox, stack) THEN {}
  ELSE LET exp == ApplyPixels(fb, pbox, Effect(pbox, stack, op))
           got == ApplyAll(fb, pbox, parentCalls)
           allowed == Allowed(pbox, stack)
       IN   (IF exp = got THEN {} ELSE {"parent_content_differs"})
       \cup (IF ~HasClip(stack) \/ \A i \in 1..Len(parentCalls) : Addressed(pbox, parentCalls[i]) \subseteq allowed
             THEN {} ELSE {"point_outside_clip_reached_parent"})

\* Operations on areas with 2^32 or more points through a stack of translated / color_converted layers on a
\* draw_iter-only parent: the recorder pulls only a prefix of the pixel stream of the single draw_iter call.
\* That prefix must be the row-major points of the area paired with the colours, pushed through the stack.
HugeFails(pbox, stack, op, parentCalls) ==
  IF \E i \in 1..Len(stack) : stack[i].k \in {"cl", "cr"} THEN {}
  ELSE IF Len(parentCalls) # 1 \/ parentCalls[1].m # "draw_iter" THEN {"default_fill_is_not_one_draw_iter_call"}
  ELSE LET px == parentCalls[1].px  w == op.area[3]
           Exp(i) == PushToParent(pbox, stack, Len(stack),
                                  <<op.area[1] + ((i - 1) % w), op.area[2] + ((i - 1) \div w),
                                    IF op.m = "fill_solid" THEN op.color ELSE op.colors[i]>>)
           n == IF op.m = "fill_solid" THEN Len(px) ELSE Min(Len(px), Len(op.colors))
       IN   (IF \A i \in 1..n : px[i] = Exp(i) THEN {} ELSE {"default_fill_stream_prefix_differs"})
       \cup (IF op.m = "fill_solid" \/ Len(px) <= Len(op.colors) THEN {} ELSE {"default_fill_stream_too_long"})
       \cup (IF Len(px) > 0 THEN {} ELSE {"default_fill_stream_empty"})
=============================================================================
