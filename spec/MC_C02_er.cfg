CONSTANTS
  SMax = 4
  WMax = 4
  Mutant = "none"
SPECIFICATION Spec
INVARIANTS InsideStyledBox TransparentPaintsNothing
CHECK_DEADLOCK FALSE
