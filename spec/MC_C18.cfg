CONSTANTS
  DMax = 40
  EMax = 20
  Mutant = FALSE
SPECIFICATION Spec
INVARIANTS Band InBox MirrorInv RowsOK ColumnsOK Touches CircleIsEllipse
CHECK_DEADLOCK FALSE
