------------------------------ MODULE Trace_C17 -----------------------------
(* (T) for C17: every recorded line (Line::points(), and for each stroke      *)
(* width the pixels() sequence and the draw() result of the styled line) is   *)
(* judged by the property-level predicates of P_C17.  The transcribed         *)
(* machines of EGLine are compared with the code on short lines and reported  *)
(* as DRIFT (never a verdict).                                                *)
EXTENDS TraceBase, P_C17
VARIABLE l
Init == l = 1

\* transcription vs code, only where the transcription is cheap to run
DriftThin(e) ==
  IF MajorLen(e.s, e.e) > 40 \/ LinePoints(e.s, e.e) = e.pts THEN TRUE
  ELSE PrintT("DRIFT " \o ToJson([module |-> "EGLine", op |-> "LinePoints", s |-> e.s, e |-> e.e]))
DriftThick(e, st) ==
  IF MajorLen(e.s, e.e) > 20 \/ st[1] > 8 \/ ThickSeq(e.s, e.e, st[1]) = st[2] THEN TRUE
  ELSE PrintT("DRIFT " \o ToJson([module |-> "EGLine", op |-> "ThickSeq", s |-> e.s, e |-> e.e, w |-> st[1]]))

StepCase(e)  == e.ev = "case"
StepLine(e)  ==
  /\ e.ev = "line"
  /\ Report(e.case, ThinFails(e.s, e.e, e.pts), [s |-> e.s, e |-> e.e, w |-> 0, n |-> Len(e.pts)])
  /\ DriftThin(e)
  /\ \A i \in 1..Len(e.strokes) :
       LET st == e.strokes[i] IN
       /\ Report(e.case, StrokeObsFails(e.s, e.e, e.pts, st), [s |-> e.s, e |-> e.e, w |-> st[1], n |-> Len(st[2])])
       /\ (IF st[3] = 1 /\ DOMAIN st[6] # {} THEN Report(e.case, SeqProtoFails(st[2], st[6]), [s |-> e.s, e |-> e.e, w |-> st[1], what |-> "pixels_iterator_protocol"]) ELSE TRUE)
       /\ DriftThick(e, st)
StepLongLine(e) == e.ev = "longline" /\ Report(e.case, LongLineFails(e), [s |-> e.s, e |-> e.e, np |-> e.np])
StepHugeStroke(e) == e.ev = "hugestroke" /\ Report(e.case, HugeStrokeFails(e), [s |-> e.s, e |-> e.e, w |-> e.w, n |-> e.n, dup |-> e.dup])
StepXLong(e) == e.ev = "xlong" /\ Report(e.case, XLongFails(e), [s |-> e.s, e |-> e.e, np |-> e.np, last |-> e.last, samples |-> e.samples])
\* a library call of this case panicked: the property promises a result for every input of its domain
StepPanic(e) == e.ev = "panic" /\ Report(e.case, {"library_call_panicked"}, [msg |-> e.msg, loc |-> e.loc])
Next == /\ l <= NRec
        /\ LET e == Rec[l] IN StepCase(e) \/ StepLine(e) \/ StepLongLine(e) \/ StepXLong(e) \/ StepHugeStroke(e) \/ StepPanic(e)
        /\ l' = l + 1
Spec == Init /\ [][Next]_l
Done == IF TLCGet("stats").diameter = NRec + 1
        THEN PrintT("TRACE-ACCEPTED " \o ToString(NRec))
        ELSE PrintT("TRACE-REJECTED at line " \o ToString(TLCGet("stats").diameter)) /\ FALSE
=============================================================================
