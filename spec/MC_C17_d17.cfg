CONSTANTS
  R = 0
  RT = 0
  WMax = 1
  Broken = FALSE
  Gen = FALSE
  ThinCases <- NoCases
  ThickCases <- D17Cases
SPECIFICATION Spec
INVARIANTS ThickRemBound ThickEndOK
CHECK_DEADLOCK FALSE
