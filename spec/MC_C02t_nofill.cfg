CONSTANTS
  G = 3
  Ws = {1, 2, 3}
  D <- DQuick
  HasFill = FALSE
SPECIFICATION Spec
INVARIANTS RowInsideBox Equivariant RowsOrdered NoRowLost OutlineIsThreeLines
CHECK_DEADLOCK FALSE
