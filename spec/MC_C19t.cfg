CONSTANTS
  G = 3
  Ws = {1}
  D <- DQuick
  HasFill = TRUE
SPECIFICATION Spec
INVARIANTS OutlineIsThreeLines NoRowLost
CHECK_DEADLOCK FALSE
