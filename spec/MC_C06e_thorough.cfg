CONSTANTS
  SMax = 8
  WMax = 6
  Mutant = "none"
SPECIFICATION Spec
INVARIANTS PaintsByTheAreas AreasDocumented RowsOrdered StrokeSides MachineIsClosedForm
CHECK_DEADLOCK FALSE
