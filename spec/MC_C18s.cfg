CONSTANTS
  DMax = 16
  NoSwap = FALSE
SPECIFICATION Spec
INVARIANTS InsideTheSweep FullSweepIsCircle
CHECK_DEADLOCK FALSE
