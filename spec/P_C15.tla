------------------------------- MODULE P_C15 -------------------------------
(* Property C15 — text layout: positions, alignment, baselines and line       *)
(* breaks are consistent.  Property-level predicates over one layout          *)
(* observation o; each returns a set of failure codes (empty = allowed).      *)
(* They relate OBSERVATIONS of different API calls to each other and use only *)
(* the abstract part of EGFont / EGText (BaselineOff, LineHeightA, AlignOK,   *)
(* NormalizeCRLF, SplitLF).                                                   *)
(*                                                                            *)
(* o.font  [cw, ch, s, bl, ul, st]           metrics of the font              *)
(* o.text  T, o.pos, o.align, o.base, o.lh, o.sty   the Text that was drawn   *)
(* o.whole [ret, map, bbox]    Text(T).draw() / .bounding_box()               *)
(* o.lf    [text, ret, map, bbox]   the same for T' = T with every CR LF      *)
(*         replaced by LF (identical to o.whole when T' = T)                  *)
(* o.lines the lines of T (split at LF, without the CR of a CR LF line ending) *)
(*         drawn as separate single-line texts at (pos.x, pos.y + j LH):      *)
(*         [text, y, ret, map, m0, mp], m0 / mp = next_position returned by   *)
(*         character_style.measure_string(line, (0,0) / (pos.x, y), base)     *)
(* o.top   [used, ret, map]    T drawn with Baseline::Top (when base # Top)   *)
(* o.chains  [k, ret1, map1, at2, ret2, map2]: T[1..k] drawn at pos, the rest *)
(*         of T at at2 (= ret1)    (single line, Left)                        *)
(*                                                                            *)
(* Reading (DESIGN.md §6 C15), clause by clause:                              *)
(* (a) ret  a line returns the position measure_string predicts: Left:        *)
(*     ret = mp.  Right / Center (non-empty line): the box of the measured    *)
(*     width that ends at the returned position is aligned on pos.x.          *)
(* (b) chain  fonts without spacing: drawing s1 and then s2 at the returned   *)
(*     position leaves the same picture and returns the same position as      *)
(*     drawing s1 s2.                                                         *)
(* (c) align  with text and background colour a line paints its whole box:    *)
(*     the painted columns start at / end at / are centred on pos.x.          *)
(* (d) baseline  the top of the first line's cell (observable with text and   *)
(*     background colour) is pos.y - off; the picture                         *)
(*     is the Baseline::Top picture moved up by off.                          *)
(* (e) lines  the picture of T is the overlay of its lines drawn separately,  *)
(*     LH apart; draw returns what the last of them returns.                  *)
(* (f) crlf  T and T' leave the same picture, return the same position and    *)
(*     have the same bounding box.                                            *)
(* (g) bounded  the bounding box the target reports changes neither the       *)
(*     returned position nor what is painted inside that box.                 *)
(* A CR that is not followed by LF is an ordinary (unmapped) character of its *)
(* line: the separately drawn lines of T' keep it, and so must T (D26).       *)
(* Not constrained (the property text does not say): empty lines under Right  *)
(* / Center in (a); texts whose T' still contains CR LF (from CR CR LF) in    *)
(* (f); texts containing LF in (b).                                           *)
EXTENDS EGText

LayoutWellFormed(o) ==
  LET lh == LineHeightA(o.lh, o.font.ch)
      tl == NormalizeCRLF(o.text)
      ls == TrueLines(o.text)
  IN /\ o.font.cw >= 1 /\ o.font.ch >= 1 /\ o.font.s >= 0
     /\ o.lf.text = tl
     /\ Len(o.lines) = Len(ls)
     /\ \A j \in 1..Len(ls) : /\ o.lines[j].text = ls[j]
                              /\ o.lines[j].y = o.pos[2] + (j - 1) * lh
                              /\ RCanonical(o.lines[j].map)
     /\ RCanonical(o.whole.map) /\ RCanonical(o.lf.map)
     /\ (o.lf.text = o.text => o.lf.map = o.whole.map /\ o.lf.ret = o.whole.ret /\ o.lf.bbox = o.whole.bbox)
     /\ (o.top.used = 1 => o.base # 0 /\ RCanonical(o.top.map))
     /\ (o.chains # <<>> => ~HasLF(o.text) /\ o.align = 0)
     /\ \A i \in 1..Len(o.small) : RCanonical(o.small[i].map)
     /\ \A i \in 1..Len(o.chains) :
          LET c == o.chains[i] IN
          /\ c.k \in 0..Len(o.text) /\ c.at2 = c.ret1 /\ RCanonical(c.map1) /\ RCanonical(c.map2)

\* (a)
RetDev(o, j) ==
  LET ln == o.lines[j]  w == ln.m0[1] IN
  IF o.align = 0 THEN <<ln.ret[1] - ln.mp[1], ln.ret[2] - ln.mp[2]>>
  ELSE IF o.align = 2 THEN <<ln.ret[1] - (o.pos[1] + 1), ln.ret[2] - ln.mp[2]>>
  ELSE LET d == 2 * ((ln.ret[1] - w) - o.pos[1]) + w - 1 IN          \* doubled distance of the box middle from pos.x
                                                                      \* (differences first: positions may be near 2^31)
       <<IF Abs(d) <= 1 THEN 0 ELSE d, ln.ret[2] - ln.mp[2]>>
RetConstrained(o, j) ==
  LET ln == o.lines[j] IN
  o.align = 0 \/ (Len(ln.text) > 0 /\ ln.m0[1] >= 1)
RetFails(o, j) ==
  IF RetConstrained(o, j) /\ RetDev(o, j) # <<0, 0>> THEN {"ret_ne_measure"} ELSE {}
RetDetail(o, j) ==
  [rel |-> "ret", line |-> j, text |-> o.lines[j].text, n |-> Len(o.lines[j].text), align |-> o.align, base |-> o.base,
   tc |-> o.sty.tc, bg |-> o.sty.bg, s |-> o.font.s, cw |-> o.font.cw,
   ret |-> o.lines[j].ret, mp |-> o.lines[j].mp, m0 |-> o.lines[j].m0,
   dx |-> RetDev(o, j)[1], dy |-> RetDev(o, j)[2]]

\* (c)
\* (text and background colour: every pixel of every cell and of the spacing is painted)
AlignConstrained(o, j) ==
  o.sty.tc # NoCol /\ o.sty.bg # NoCol /\ ~RIsEmpty(o.lines[j].map)
AlignFails(o, j) ==
  IF AlignConstrained(o, j) /\ ~AlignOK(o.align, o.pos[1], RXMin(o.lines[j].map), RXMax(o.lines[j].map))
  THEN {"alignment"} ELSE {}
AlignDetail(o, j) ==
  [rel |-> "align", line |-> j, text |-> o.lines[j].text, align |-> o.align, posx |-> o.pos[1],
   xmin |-> RXMin(o.lines[j].map), xmax |-> RXMax(o.lines[j].map), s |-> o.font.s, tc |-> o.sty.tc, bg |-> o.sty.bg]

\* (d)
BaselineFails(o) ==
  LET off == BaselineOff(o.font, o.base)  l1 == o.lines[1] IN
     (IF o.sty.tc # NoCol /\ o.sty.bg # NoCol /\ ~RIsEmpty(l1.map) /\ RYMin(l1.map) # o.pos[2] - off
      THEN {"baseline_offset"} ELSE {})
\cup (IF o.top.used = 1 /\ o.whole.map # RShift(o.top.map, <<0, -off>>) THEN {"baseline_shift"} ELSE {})
BaselineDetail(o) ==
  [rel |-> "baseline", text |-> o.text, base |-> o.base, off |-> BaselineOff(o.font, o.base), posy |-> o.pos[2],
   ymin1 |-> RYMin(o.lines[1].map), box |-> RBox(o.whole.map),
   topbox |-> IF o.top.used = 1 THEN RBox(o.top.map) ELSE Zero, ch |-> o.font.ch, bl |-> o.font.bl]

\* (e)
LinesFails(o) ==
     (IF ROverlayEq(o.whole.map, [j \in 1..Len(o.lines) |-> o.lines[j].map]) THEN {} ELSE {"multiline_map"})
\cup (IF o.whole.ret = o.lines[Len(o.lines)].ret THEN {} ELSE {"multiline_ret"})
LinesDetail(o) ==
  [rel |-> "lines", text |-> o.text, align |-> o.align, base |-> o.base, lh |-> o.lh, ret |-> o.whole.ret,
   last_ret |-> o.lines[Len(o.lines)].ret, box |-> RBox(o.whole.map),
   line_boxes |-> [j \in 1..Len(o.lines) |-> RBox(o.lines[j].map)]]

\* (f)
CRLFConstrained(o) == o.lf.text # o.text /\ ~HasCRLF(o.lf.text)
CRLFFails(o) ==
  IF ~CRLFConstrained(o) THEN {}
  ELSE (IF o.whole.map = o.lf.map THEN {} ELSE {"crlf_map"})
  \cup (IF o.whole.ret = o.lf.ret THEN {} ELSE {"crlf_ret"})
  \cup (IF o.whole.bbox = o.lf.bbox THEN {} ELSE {"crlf_box"})
CRLFDetail(o) ==
  [rel |-> "crlf", text |-> o.text, align |-> o.align, ret |-> o.whole.ret, lf_ret |-> o.lf.ret,
   bbox |-> o.whole.bbox, lf_bbox |-> o.lf.bbox, box |-> RBox(o.whole.map), lf_box |-> RBox(o.lf.map)]

\* (b)
ChainFails(o, i) ==
  LET c == o.chains[i] IN
  IF o.font.s # 0 THEN {}
  ELSE (IF ROverlayEq(o.whole.map, <<c.map1, c.map2>>) THEN {} ELSE {"chain_map"})
  \cup (IF c.ret2 = o.whole.ret THEN {} ELSE {"chain_ret"})
ChainDetail(o, i) ==
  [rel |-> "chain", text |-> o.text, k |-> o.chains[i].k, ret |-> o.whole.ret, ret1 |-> o.chains[i].ret1,
   ret2 |-> o.chains[i].ret2, base |-> o.base]

\* (g) the size the target reports does not matter: the same position is returned, every pixel inside the reported
\*     box is painted as on an unbounded target, and outside of it nothing else than that is painted
SmallFails(o, i) ==
  LET b == o.small[i]
      h == Hull(<< RBox(o.whole.map), RBox(b.map) >>)
  IN   (IF b.ret = o.whole.ret THEN {} ELSE {"bounded_target_ret"})
  \cup (IF \A p \in PointsOf(h) :
            LET v == RGet(b.map, p[1], p[2])  w == RGet(o.whole.map, p[1], p[2]) IN
            v = w \/ (v = NoCol /\ ~InRect(b.box, p))
        THEN {} ELSE {"bounded_target_map"})
SmallDetail(o, i) ==
  [rel |-> "bounded_target", text |-> o.text, box |-> o.small[i].box, ret |-> o.small[i].ret, whole_ret |-> o.whole.ret,
   painted |-> RBox(o.small[i].map), whole_painted |-> RBox(o.whole.map)]

AllFails(o) ==
  UNION { RetFails(o, j) \cup AlignFails(o, j) : j \in 1..Len(o.lines) }
  \cup BaselineFails(o) \cup LinesFails(o) \cup CRLFFails(o)
  \cup UNION { ChainFails(o, i) : i \in 1..Len(o.chains) }
  \cup UNION { SmallFails(o, i) : i \in 1..Len(o.small) }

\* how many of the clauses were actually exercised by this observation (vacuity statistics)
Exercised(o) ==
  [ret |-> Cardinality({ j \in 1..Len(o.lines) : RetConstrained(o, j) }),
   align |-> Cardinality({ j \in 1..Len(o.lines) : AlignConstrained(o, j) }),
   baseline_shift |-> o.top.used,
   multiline |-> IF Len(o.lines) > 1 THEN 1 ELSE 0,
   crlf |-> IF CRLFConstrained(o) THEN 1 ELSE 0,
   chain |-> IF o.font.s = 0 THEN Len(o.chains) ELSE 0,
   bounded |-> Len(o.small)]
\* very large line heights (event "tall": sparse pictures as coloured runs <<y, x0, x1, c>>): the text equals its lines
\* drawn separately line_height apart, and returns what its last line returns
TallCRuns(rs) == UNION { { <<x, rs[i][1], rs[i][4]>> : x \in rs[i][2]..rs[i][3] } : i \in 1..Len(rs) }
TallFails(o) ==
  LET d == LineHeightA(o.lh, o.ch) IN
       (IF \A j \in 1..Len(o.lines) : o.lines[j].y - o.pos[2] = (j - 1) * d THEN {} ELSE {"tall_driver_used_another_line_distance"})
  \cup (IF TallCRuns(o.map) = UNION { TallCRuns(o.lines[j].map) : j \in 1..Len(o.lines) } THEN {} ELSE {"text_differs_from_lines_line_height_apart"})
  \cup (IF o.ret = o.lines[Len(o.lines)].ret THEN {} ELSE {"returned_position_differs_from_last_line"})
=============================================================================
