------------------------------- MODULE P_C12 -------------------------------
(* Property C12 -- colours survive the trip through their raw representation. *)
(* Property-level predicates over batched observations; each returns a record *)
(* [codes, k] (codes = set of failure codes, k = first failing entry).        *)
(* Only the ABSTRACT part of EGColor is used.                                 *)
(*                                                                            *)
(* row: one channel ch swept over the arguments a0 .. a0+n-1 (arguments are   *)
(* u8 values and may exceed the channel width), the other arguments fixed:    *)
(*   ty, ch, fix (argument tuple; entry ch is ignored), a0, n,                *)
(*   bits   BITS_PER_PIXEL of the raw type as reported by the library         *)
(*   raw    Raw::from(c).into_inner()         sto   c.into_storage()          *)
(*   c1,c2,c3  r()/g()/b() resp. luma() / is_on() (c2 = c3 = <<>> if 1 chan.) *)
(*   be, le    to_be_bytes() / to_le_bytes(), flattened (nb bytes per entry)  *)
(*   beq    1 iff C::from(Raw::from(c)) == c (the library's PartialEq)        *)
(*   braw   into_storage() of C::from(Raw::from(c))                           *)
(* rawrow: Raw::from_u32(x) for x = base .. base+n-1 (all values of the raw    *)
(*   type, and arguments beyond its range):                                   *)
(*   rt     raw -> colour -> raw          rt2  the same trip applied to rt    *)
(*   c1,c2,c3  channels of the colour made from the raw value                 *)
EXTENDS EGColor

ObsCol(t, e, k) == IF IsRgb(t) THEN <<e.c1[k], e.c2[k], e.c3[k]>> ELSE <<e.c1[k]>>

RowFails(e) ==
  LET t  == Types[e.ty]
      \* to_be_bytes / to_le_bytes: one byte up to 8 bits per pixel, BITS_PER_PIXEL / 8 bytes above
      \* (3 bytes for 24-bit raws); BITS_PER_PIXEL as the library reports it
      nb == IF e.bits <= 8 THEN 1 ELSE e.bits \div 8
      Arg(k, ch) == IF ch = e.ch THEN e.a0 + k - 1 ELSE e.fix[ch]
      \* new() keeps each channel modulo its width and the accessors return it
      ChanOK(k)   == \A ch \in 1..NChan(t) : ObsCol(t, e, k)[ch] = NewCh(t, ch, Arg(k, ch))
      \* documented storage layout (no layout is documented for BinaryColor: see Trace_C12 drift)
      LayoutOK(k) == t.kind = "bin" \/ e.raw[k] = Pack(t, [ch \in 1..NChan(t) |-> NewCh(t, ch, Arg(k, ch))])
      FitsOK(k)   == e.raw[k] >= 0 /\ e.raw[k] < 2 ^ e.bits
      StoOK(k)    == e.sto[k] = e.raw[k]
      BeOK(k)     == \A j \in 1..nb : e.be[(k - 1) * nb + j] = BeByte(nb, e.raw[k], j)
      LeOK(k)     == \A j \in 1..nb : e.le[(k - 1) * nb + j] = LeByte(nb, e.raw[k], j)
      BackOK(k)   == e.beq[k] = 1 /\ e.braw[k] = e.raw[k]
      AllOK(k)    == ChanOK(k) /\ LayoutOK(k) /\ FitsOK(k) /\ StoOK(k) /\ BeOK(k) /\ LeOK(k) /\ BackOK(k)
      K == 1..e.n
  IN
  IF Len(e.be) # e.n * nb \/ Len(e.le) # e.n * nb THEN [codes |-> {"bytes_len"}, k |-> 0]
  ELSE IF \A k \in K : AllOK(k) THEN [codes |-> {}, k |-> 0]
  ELSE [codes |-> (IF \A k \in K : ChanOK(k)   THEN {} ELSE {"channel_value"})
             \cup (IF \A k \in K : LayoutOK(k) THEN {} ELSE {"layout"})
             \cup (IF \A k \in K : FitsOK(k)   THEN {} ELSE {"raw_too_wide"})
             \cup (IF \A k \in K : StoOK(k)    THEN {} ELSE {"into_storage"})
             \cup (IF \A k \in K : BeOK(k)     THEN {} ELSE {"be_bytes"})
             \cup (IF \A k \in K : LeOK(k)     THEN {} ELSE {"le_bytes"})
             \cup (IF \A k \in K : BackOK(k)   THEN {} ELSE {"roundtrip"}),
        k |-> LET B == {k \in K : ~AllOK(k)} IN CHOOSE k \in B : \A j \in B : k <= j]

RawRowFails(e) ==
  LET t == Types[e.ty]
      \* RawData::from_u32 uses only the least significant BITS_PER_PIXEL bits of its argument (documented), so
      \* arguments beyond the raw type's range stand for their low bits
      X(k)      == (e.base + k - 1) % (2 ^ t.raw)
      \* raw -> colour -> raw only clears the unused bits
      MaskOK(k) == e.rt[k] = ClearUnused(t, X(k))
      \* ... hence it is idempotent
      IdemOK(k) == e.rt2[k] = e.rt[k]
      \* the colour made from the raw value has the channels the layout assigns to it
      ChanOK(k) == t.kind = "bin" \/ ObsCol(t, e, k) = Unpack(t, X(k))
      \* colour -> raw -> colour is the identity for the colour made from this raw value (PartialEq of the library)
      BackOK(k) == e.beq[k] = 1
      AllOK(k)  == MaskOK(k) /\ IdemOK(k) /\ ChanOK(k) /\ BackOK(k)
      K == 1..e.n
  IN
  IF e.base < 0 \/ e.n < 0 \/ e.base > 2147483647 - e.n THEN [codes |-> {"malformed_rawrow"}, k |-> 0]
  ELSE IF \A k \in K : AllOK(k) THEN [codes |-> {}, k |-> 0]
  ELSE [codes |-> (IF \A k \in K : MaskOK(k) THEN {} ELSE {"raw_roundtrip"})
             \cup (IF \A k \in K : IdemOK(k) THEN {} ELSE {"raw_not_idempotent"})
             \cup (IF \A k \in K : ChanOK(k) THEN {} ELSE {"raw_channels"})
             \cup (IF \A k \in K : BackOK(k) THEN {} ELSE {"colour_from_raw_roundtrip_not_identity"}),
        k |-> LET B == {k \in K : ~AllOK(k)} IN CHOOSE k \in B : \A j \in B : k <= j]
=============================================================================
