P = dict(
    bin="egv_c17", trace="Trace_C17", level="model_checking",
    mc=[dict(module="MC_C17", quick_cfg="MC_C17.cfg", thorough_cfg="MC_C17_thorough.cfg"),
        # negative controls TLC must refute: a Bresenham without minor steps; and the open finding D17 reproduced in the
        # MODEL of ParallelsIterator/ThickPoints (witness Line (3,-2)->(26,10), w = 40 leaves the band)
        dict(module="MC_C17", quick_cfg="MC_C17_control.cfg", thorough_cfg="MC_C17_control.cfg", expect_violation=True, coverage=False),
        dict(module="MC_C17", quick_cfg="MC_C17_d17.cfg", thorough_cfg="MC_C17_d17.cfg", expect_violation=True, coverage=False)],
    drift_checked=True,
    proofs=["Proof_C17"],
    required_events=["line"],
    level_text="TLC steps the transcribed Bresenham machine (one action per next()) for every delta of a square from two start "
               "points and the transcribed ParallelsIterator/ThickPoints machine for every delta and stroke width of a smaller "
               "square, with the clauses of the property as invariants; the lines it explored plus an exhaustive grid of "
               "lines x stroke widths and seeded long lines are run through the real Line::points(), Styled<Line>::pixels() "
               "and draw(), and TLC validates every recorded point sequence against the same exact-integer predicates",
    level_note="trusted: EGLine abstract part (exact integer distance / projection / width predicates), P_C17, recorder egv_c17; "
               "bounded grid + seeded sampling (|coordinates| <= 700, w * |delta| <= 20000), not a proof for all i32",
    rule="one case per line (start, end) with a list of stroke widths: (G) every line explored by MC_C17, every delta of "
         "[-8,8]^2 (thorough [-16,16]^2) from three start points with all widths 1..6 (1..16), seeded medium and long lines; "
         "non-trivial = Line::points() yielded at least one point; distinct = distinct descriptor",
    trusted=COMMON_TRUSTED + ["spec/EGLine.tla abstract part and spec/P_C17.tla"],
    assumptions=["the width-at-the-middle measure and the tolerance bands are the readings fixed in DESIGN.md §6 C17",
                 "seeded lines keep w * |delta| <= 20000 and |coordinates| <= 700: beyond that the library overflows in "
                 "thickness_threshold (thick_points.rs:96), which is C08's subject"],
)
