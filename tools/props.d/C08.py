P = dict(
    bin="egv_c08", trace="Trace_C08", level="exploration",
    mc=[dict(module="MC_C08", quick_cfg="MC_C08.cfg", workers=2),
        dict(module="MC_C08", quick_cfg="MC_C08_control.cfg", expect_violation=True, coverage=False, workers=2)],
    features={"quick": [None, "@deep"], "thorough": [None, "fixed_point", "@deep"]},
    required_events=["calls"],
    level_text="every constructor / query / draw call of boundary-biased display-scale inputs (all drawable kinds, adapter stack, "
               "text incl. the null font, images and sub-images, Framebuffer and raw load/store with out-of-range arguments) is "
               "run in a build with overflow checks and debug assertions under a counting allocator and a step budget; TLC "
               "monitors the recorded outcomes; MC_C08 checks an abstract-domain overflow model of the anchored arithmetic kernels",
    level_note="monitored, not derived: absence of panics is established only for the calls the recorder makes; the kernel model "
               "(EGKernels) is a bit-length abstraction; #![no_std] without alloc is a build fact, not checked here",
    rule="cases: seeded boundary-biased tuples over {0,1,2,63,64,65,240,255,256,257,320,480,1024} (+ negatives) per drawable "
         "kind, text in a rotating set of fonts + null font, images/sub-images, rejection probes; non-trivial = some call of "
         "the case did at least one step; distinct = distinct descriptor",
    trusted=COMMON_TRUSTED + ["counting #[global_allocator] and step budgets of harness/src/bin/egv_c08.rs", "spec/P_C08.tla"],
    assumptions=["points()/pixels() longer than 150000 steps are cut off and counted as terminated (large shapes)"],
)
