CONSTANTS
  FontIds = {1, 2, 3, 4}
  MaxLen = 5
  StyleIds = {1, 2, 3, 4, 5}
  LHIds = {1, 2, 3, 4, 5}
  Variant = "crlf"
  Strict = FALSE
  Gen = TRUE
SPECIFICATION Spec
INVARIANTS LayoutOK MachineOK
CHECK_DEADLOCK FALSE
