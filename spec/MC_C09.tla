------------------------------- MODULE MC_C09 ------------------------------
(* (M) for C09: the transcribed drawing path of a raw image / sub-image chain  *)
(* (SubImage::new, draw_sub_image, ContiguousPixels: initial skip,             *)
(* remaining_x / remaining_y, nth(row_skip)) is run as a machine, one next()   *)
(* per step, by a consumer that drains the stream to its first None -- for     *)
(* every image up to WMax x HMax, every sub-area inside it, and chains of two  *)
(* sub_image() calls over a set of inside / overlapping / outside / zero-sized *)
(* areas.  The property predicates of P_C09 are checked on the result, and the *)
(* stream length on every step.  Every initial state is printed as a (G) case. *)
(* Variant = "patched" is the machine of work/patches/D4.diff, "pinned" the    *)
(* snapshot's machine (negative control MC_C09_pinned.cfg: TLC must refute it) *)
EXTENDS P_C09, TLC, Json, SequencesExt
CONSTANTS WMax, HMax, BppSet, Variant, Gen
VARIABLES c,      \* the case: [bpp, ord, w, h, pat, data, areas, mode, at]
          ph,     \* "run" (stream being drained) | "end" (first None seen) | "nocall"
          s,      \* ContiguousPixels state
          cs      \* colours pulled so far
vars == <<c, ph, s, cs>>

AtNeg == <<-3, 2>>

ImgOf(k) == [bpp |-> k.bpp, ord |-> k.ord, w |-> k.w, h |-> k.h, data |-> k.data]

Inside(w, h) == { a \in (0..(w - 1)) \X (0..(h - 1)) \X (1..w) \X (1..h) : a[1] + a[3] <= w /\ a[2] + a[4] <= h }
\* requested areas for chains of two: whole, inside, overlapping each edge, outside, zero-sized
Cand(w, h) == { a \in { <<0, 0, w, h>>, <<1, 1, w - 2, h - 1>>, <<-1, 0, 3, h>>, <<w - 2, 1, 3, 2>>, <<1, -1, 2, 2>>,
                         <<0, h - 1, w, 3>>, <<w, 0, 2, 2>>, <<-2, -2, 2, 2>>, <<1, 1, 0, 2>>, <<-1, -1, w + 2, h + 2>> } :
                 a[3] >= 0 /\ a[4] >= 0 }

Chains(w, h) ==
  {<<>>} \cup { <<a>> : a \in Inside(w, h) }
         \cup { <<a, b>> : a \in Cand(w, h), b \in Cand(2, 2) \cup {<<1, 0, 1, 2>>, <<0, 1, 3, 1>>} }

CaseOf(b, o, w, h, ch) ==
  [bpp |-> b, ord |-> o, w |-> w, h |-> h, pat |-> (w + h + o) % 2,
   data |-> PatData((w + h + o) % 2, ExpectedLen(w, h, b)), areas |-> ch,
   mode |-> IF Len(ch) = 2 THEN 1 ELSE 0, at |-> IF Len(ch) = 1 THEN AtNeg ELSE <<2, 1>>]

Init == \E b \in BppSet, o \in {0, 1}, w \in 0..WMax, h \in 0..HMax : \E ch \in Chains(w, h) :
        /\ Len(ch) = 2 => w >= 2 /\ h >= 2
        /\ c = CaseOf(b, o, w, h, ch)
        /\ LET call == ImageDrawT(ImgOf(c), c.areas, c.mode, c.at, Variant) IN
           IF call = <<>> THEN ph = "nocall" /\ s = [idx |-> 0, rx |-> 0, ry |-> 0, w |-> 0, skip |-> 0]
           ELSE ph = "run" /\ s = call[1].cp
        /\ cs = <<>>
        /\ (Gen => PrintT("GEN " \o ToJson([k |-> "img", bpp |-> c.bpp, ord |-> c.ord, w |-> c.w, h |-> c.h, pat |-> c.pat,
                                            seed |-> 0, probe |-> 0,
                                            draws |-> << [areas |-> c.areas, mode |-> c.mode, at |-> c.at] >>])))

\* the consumer stops at the first None and gives up after one surplus row
Budget == (c.w + 1) * (c.h + 2)
Step == /\ ph = "run" /\ Len(cs) < Budget
        /\ LET r == CPNext(ImgOf(c), s) IN
           IF r[1] = NoneV THEN ph' = "end" /\ s' = r[2] /\ cs' = cs
           ELSE ph' = "run" /\ s' = r[2] /\ cs' = Append(cs, r[1][1])
        /\ c' = c
Next == Step
Spec == Init /\ [][Next]_vars

\* the call the target has seen so far
TArea == ImageDrawT(ImgOf(c), c.areas, c.mode, c.at, Variant)[1].area
Calls == IF ph = "nocall" THEN <<>>
         ELSE << [m |-> "fc", area |-> TArea, n |-> Len(cs), cs |-> cs, px |-> <<>>, c |-> 0] >>

\* the property, evaluated when the stream has ended (or no call was made)
DrawOK == ph \in {"end", "nocall"} =>
            DrawFails(ImgOf(c), c.areas, c.mode, c.at, SizeT(ImgOf(c), c.areas), Calls) = {}
\* never more colours than the area holds, every colour is the pixel it stands for
StreamOK == ph # "nocall" /\ cs # <<>> =>
  LET abs == AbsChain(ImgOf(c), c.areas)  n == Len(cs)  w == abs[2][1] IN
  /\ n <= abs[2][1] * abs[2][2]
  /\ cs[n] = Pixel(ImgOf(c), <<abs[1][1] + ((n - 1) % w), abs[1][2] + ((n - 1) \div w)>>)
\* the stream ends (the consumer never runs out of budget)
EndsOK == ph = "run" => Len(cs) < Budget
\* transcribed pixel() / new() against the abstract layout (initial states only: constant per case)
PixelTOK == cs = <<>> => \A p \in PointsOf(Grow(BoxOf(ImgOf(c)), 1)) : PixelT(ImgOf(c), p) = PixelOpt(ImgOf(c), p)
NewTOK == cs = <<>> => \A d \in {-1, 0, 1} :
            LET len == ExpectedLen(c.w, c.h, c.bpp) + d  r == NewT(len, c.w, c.h, c.bpp) IN
            len >= 0 => NewFails(c.bpp, c.w, c.h, <<len, IF r[1] THEN 1 ELSE 0, r[2]>>) = {}
\* the transcribed sub-image algebra agrees with the abstract chain
ChainOK == LET abs == AbsChain(ImgOf(c), c.areas) IN
           IF abs[2][1] = 0 \/ abs[2][2] = 0 THEN ph = "nocall" \/ c.areas = <<>>
           ELSE ph # "nocall" /\ (c.areas # <<>> => RootAreaT(ImgOf(c), c.areas) = <<abs[1][1], abs[1][2], abs[2][1], abs[2][2]>>)
=============================================================================
