------------------------------- MODULE MC_C02t ------------------------------
(* (M) for C02 / C07 / C19, stroked triangles with centre alignment: the        *)
(* TRANSCRIBED renderer of triangle/styled.rs (EGThickTri: joins of the         *)
(* clockwise sorted triangle, the three thick segments, left / right merging   *)
(* of their scanline intersections, the fill between the two stroke ranges,    *)
(* the iteration that ends at the first row without a line) as a machine that  *)
(* renders ONE ROW PER STEP, side by side for a triangle and its translate.    *)
(*   RowInsideBox    every fill / stroke range lies inside the transcribed      *)
(*                   styled bounding box (C02)                                  *)
(*   Equivariant     box and rows of the translated triangle are the translated *)
(*                   box and rows (C07)                                         *)
(*   RowsOrdered     two stroke ranges of a row do not touch (else they would   *)
(*                   have been merged) and the fill lies between them           *)
(*   NoRowLost       the iteration does not end before the last row of the box  *)
(*                   (an empty row would end it: scanline_iterator.rs)          *)
(*   OutlineIsThreeLines   for stroke width 1 the stroke is exactly the union   *)
(*                   of the three edge lines (C19)                              *)
EXTENDS EGThickTri, TLC
CONSTANTS G, Ws, D, HasFill
VARIABLES t, w, tc, segs, box, tc2, segs2, box2, y, row, row2, alive

DQuick == <<-7, 5>>
Pts == { <<x, yy>> : x \in 0..G, yy \in 0..G }
Mv(p) == <<p[1] + D[1], p[2] + D[2]>>
vars == <<t, w, tc, segs, box, tc2, segs2, box2, y, row, row2, alive>>
\* negative control of RowInsideBox (cfg: BoxUsed <- BoxWithoutStroke): the triangle's own box for every width
BoxUsed(tt, ww) == TriStyledBoxT(tt, ww)
BoxWithoutStroke(tt, ww) == TriBox(tt)
\* negative control of OutlineIsThreeLines (cfg: OutlineEdges <- TwoEdges)
OutlineEdges(c) == LinePoints(c[1], c[2]) \o LinePoints(c[2], c[3]) \o LinePoints(c[3], c[1])
TwoEdges(c) == LinePoints(c[1], c[2]) \o LinePoints(c[2], c[3])
NoRow == [fill |-> ScEmpty, strokes |-> <<>>]
Init == /\ t \in [1..3 -> Pts] /\ w \in Ws
        /\ tc = SortedClockwise(t) /\ segs = TriSegsT(tc, w) /\ box = BoxUsed(t, w)
        /\ LET t2 == [k \in 1..3 |-> Mv(t[k])] IN
           /\ tc2 = SortedClockwise(t2) /\ segs2 = TriSegsT(tc2, w) /\ box2 = BoxUsed(t2, w)
        /\ y = box[2] /\ row = NoRow /\ row2 = NoRow /\ alive = TRUE
Step == /\ alive /\ y < box[2] + box[4]
        /\ row' = TriRowT(tc, segs, w, HasFill, y) /\ row2' = TriRowT(tc2, segs2, w, HasFill, y + D[2])
        /\ alive' = ~RowIsEmpty(row')
        /\ y' = y + 1 /\ UNCHANGED <<t, w, tc, segs, box, tc2, segs2, box2>>
Next == Step
Spec == Init /\ [][Next]_vars

In(sc) == ScIsEmpty(sc) \/ (box[1] <= sc[1] /\ sc[2] <= box[1] + box[3])
RowInsideBox == In(row.fill) /\ \A k \in 1..Len(row.strokes) : In(row.strokes[k])
Sh(sc) == IF ScIsEmpty(sc) THEN sc ELSE <<sc[1] + D[1], sc[2] + D[1]>>
SameRange(a, b) == (ScIsEmpty(a) /\ ScIsEmpty(b)) \/ a = b
Equivariant == /\ box2 = <<box[1] + D[1], box[2] + D[2], box[3], box[4]>>
               /\ SameRange(row2.fill, Sh(row.fill))
               /\ row2.strokes = [k \in 1..Len(row.strokes) |-> Sh(row.strokes[k])]
RowsOrdered == Len(row.strokes) = 2 => ~TouchesT(row.strokes[1], row.strokes[2])
NoRowLost == alive
OutlineIsThreeLines ==
  w = 1 => LET es == OutlineEdges(tc)
               S == { es[i] : i \in 1..Len(es) } IN
           (y > box[2] /\ alive) =>
             UNION { { <<x, y - 1>> : x \in row.strokes[k][1]..(row.strokes[k][2] - 1) } : k \in 1..Len(row.strokes) } = { p \in S : p[2] = y - 1 }
=============================================================================
