CONSTANTS
  MaxLen = 4
  Depth = 2
  Pinned = TRUE
  Gen = FALSE
SPECIFICATION Spec
INVARIANTS StoreOK LoadOK IterOK PosRel LayoutOK DocOK OutOK
CHECK_DEADLOCK FALSE
