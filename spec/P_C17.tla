------------------------------- MODULE P_C17 -------------------------------
(* Property C17 — lines connect their end points and stay on the ideal line;  *)
(* stroked lines contain the thin line, yield no pixel twice, stay within     *)
(* w/2 + 2.5 pixels of the ideal line and within one pixel of the two ends,   *)
(* are at least w - 1 pixels wide at their middle, and for w = 1 equal        *)
(* points().  Property-level predicates over (input, OBSERVED point           *)
(* sequences); each returns the set of failure codes (empty = allowed).       *)
(* MC_C17 feeds them the transcribed machines of EGLine, Trace_C17 feeds them *)
(* what the real library yielded.  All arithmetic is exact (EGLine).          *)
(*                                                                            *)
(* Readings fixed in DESIGN.md §6 C17 (calibrated on the unchanged tree):     *)
(*  - "within w/2 + 2.5 of the ideal line": perpendicular distance of the     *)
(*    pixel centre to the infinite line, 2|c| <= (w + 5) L;                   *)
(*  - "within one pixel of the two ends": projection parameter in [-1, L+1];  *)
(*  - "at least w - 1 wide at its middle": the perpendicular extent of the    *)
(*    centres of the stroke pixels whose projection lies in the middle half   *)
(*    of the segment (+- 1/2 px), plus one pixel, is >= w - 1.  A row/column  *)
(*    count is NOT the reading (fails on short diagonals).                    *)
(*  - zero-length lines: the stroked line is only checked for "no pixel       *)
(*    twice" and "w = 1 equals points()".                                     *)
EXTENDS EGLine, SequencesExt, Functions

\* Line::points() = pts for the line s -> e
ThinFails(s, e, pts) ==
  LET d == PSub(e, s)   M == MajorLen(s, e)   n == Len(pts)
      D2 == LenSq(d)    r == ISqrt(D2)
      xmaj == Abs(d[1]) >= Abs(d[2])
      ymaj == Abs(d[2]) >= Abs(d[1])
      StepsOK(mj, mn) == \A i \in 2..n : /\ Abs(pts[i][mj] - pts[i - 1][mj]) = 1
                                         /\ Abs(pts[i][mn] - pts[i - 1][mn]) <= 1
  IN   (IF n = M + 1 THEN {} ELSE {"thin_count"})
  \cup (IF n >= 1 /\ pts[1] = s THEN {} ELSE {"thin_start"})
  \cup (IF n >= 1 /\ pts[n] = e THEN {} ELSE {"thin_end"})
  \cup (IF (xmaj /\ StepsOK(1, 2)) \/ (ymaj /\ StepsOK(2, 1)) THEN {} ELSE {"thin_step"})
  \cup (IF (IF s = e THEN \A i \in 1..n : pts[i] = s
            ELSE \A i \in 1..n : WithinHalf(D2, r, Cross(d, PSub(pts[i], s))))
        THEN {} ELSE {"thin_dist"})

\* one pass over the pixels T of a stroke:
\* <<all in the distance band, all within the ends, #pixels in the middle window, min c, max c over the window>>
StrokeScan(s, d, D2, r, r4, w, T) ==
  FoldLeft(LAMBDA a, p :
             LET v == PSub(p, s)   c == Cross(d, v)   dt == Dot(v, d)   mid == InMiddle(D2, r4, dt) IN
             << a[1] /\ DistLeHalves(D2, r, c, w + 5),
                a[2] /\ ProjWithinEnds(D2, r, dt),
                IF mid THEN a[3] + 1 ELSE a[3],
                IF mid /\ (a[3] = 0 \/ c < a[4]) THEN c ELSE a[4],
                IF mid /\ (a[3] = 0 \/ c > a[5]) THEN c ELSE a[5] >>,
           <<TRUE, TRUE, 0, 0, 0>>, T)

\* T = pixels of the stroked line s -> e of width w >= 1 (a sequence; order is irrelevant except for
\* nodup, which says that no pixel was yielded twice); pts = Line::points(); pre = prefix of the codes
StrokeFails(s, e, w, pts, T, nodup, pre) ==
  LET d == PSub(e, s)   D2 == LenSq(d)   r == ISqrt(D2)   r4 == ISqrt(4 * D2)
      TS == ToSet(T)    PS == ToSet(pts)
      sc == StrokeScan(s, d, D2, r, r4, w, T)
  IN   (IF nodup THEN {} ELSE {pre \o "stroke_dup"})
  \cup (IF w = 1 => TS = PS THEN {} ELSE {pre \o "stroke_w1"})
  \cup (IF s = e THEN {}
        ELSE   (IF PS \subseteq TS THEN {} ELSE {pre \o "stroke_thin"})
          \cup (IF sc[1] THEN {} ELSE {pre \o "stroke_band"})
          \cup (IF sc[2] THEN {} ELSE {pre \o "stroke_ends"})
          \cup (IF (IF sc[3] = 0 THEN w < 2 ELSE WidthOK(D2, r, sc[5] - sc[4], w))
                THEN {} ELSE {pre \o "stroke_width"}))

\* one recorded stroke: st = <<w, pixels() sequence, pixels() ended (0/1), draw() map as points, draw() writes or -1>>
StrokeObsFails(s, e, pts, st) ==
  LET w == st[1]   seq == st[2]   dm == st[4]   dw == st[5] IN
       StrokeFails(s, e, w, pts, seq, IsInjective(seq), "")
  \cup (IF dw < 0 \/ (dw = Len(dm) /\ dw = Len(seq) /\ ToSet(dm) = ToSet(seq)) THEN {}
        ELSE StrokeFails(s, e, w, pts, dm, dw = Len(dm), "draw_"))

\* very long lines: only the clauses that need no distance arithmetic (count and end points)
LongLineFails(o) ==
  LET m == Max(Abs(o.e[1] - o.s[1]), Abs(o.e[2] - o.s[2])) IN
       (IF o.np = m + 1 THEN {} ELSE {"thin_count"})
  \cup (IF o.first = o.s /\ o.last = o.e THEN {} ELSE {"thin_end"})
  \* nth(k) = the k-th point pulled with next() (<<>> beyond the end), and np - k - 1 points follow
  \cup (IF \A i \in 1..Len(o.nth) : LET q == o.nth[i] IN q[2] = q[3] /\ q[4] = (IF q[1] < o.np THEN o.np - q[1] - 1 ELSE 0)
        THEN {} ELSE {"thin_nth"})
  \* a stroke of width 1 has exactly the points of the thin line, a wider one at least as many
  \cup (IF \A i \in 1..Len(o.strokes) : IF o.strokes[i][1] = 1 THEN o.strokes[i][2] = o.np ELSE o.strokes[i][2] >= o.np
        THEN {} ELSE {"long_stroke_count"})

\* lines longer than 2^29 (event "xlong"; dx = M > 0, 0 <= dy = m <= M, and m <= 2 or M - m <= 2 so that the cross
\* product m a - M b of a sampled point (a, b) fits TLC's 32-bit integers:  m a - M b  =  M (a - b) - (M - m) a )
XLongFails(o) ==
  LET M == o.e[1] - o.s[1]  m == o.e[2] - o.s[2]
      XCross(a, b) == IF m <= 2 THEN m * a - M * b ELSE M * (a - b) - (M - m) * a
      SampleOK(q) == LET a == q[2] - o.s[1]  b == q[3] - o.s[2] IN
                     /\ a = q[1]                                   \* one pixel along the major axis per step
                     /\ b >= 0 /\ b <= m /\ a - b >= 0 /\ a - b <= M - m
                     /\ Abs(XCross(a, b)) <= M \div 2               \* within half a pixel of the ideal line
  IN   (IF o.np = M + 1 THEN {} ELSE {"thin_count"})
  \cup (IF o.first = o.s /\ o.last = o.e THEN {} ELSE {"thin_end"})
  \cup (IF \A i \in 1..Len(o.samples) : SampleOK(o.samples[i]) THEN {} ELSE {"thin_distance"})
\* very wide strokes on long lines (event "hugestroke"): a prefix of `asked` pixels of pixels() was pulled.  The stroke
\* contains the thin line (`thin` points), so it is not shorter than min(asked, thin); no pixel of the prefix repeats
HugeStrokeFails(o) ==
       (IF o.n >= (IF o.asked < o.thin THEN o.asked ELSE o.thin) THEN {} ELSE {"stroke_has_fewer_pixels_than_the_thin_line"})
  \cup (IF o.dup = 0 THEN {} ELSE {"stroke_pixel_repeated"})
=============================================================================
