------------------------------- MODULE MC_C10 ------------------------------
(* (M) for C10: the byte-level Framebuffer machine of EGFramebuffer (the       *)
(* transcribed writers of framebuffer.rs + the trait defaults) is explored for *)
(* all write histories of length <= Depth over an alphabet of set_pixel /      *)
(* draw_iter / fill_solid / clear operations with points inside and outside,   *)
(* on small framebuffers of all 14 formats with exact and oversized buffers.   *)
(* Invariants: the refinement mapping AbsMap(bytes) = m (m = abstract content,    *)
(* updated by MApply), pixel() reads m back, bytes >= BUFFER_SIZE unchanged,   *)
(* an operation without an inside point changes no byte.                       *)
(* Hist = TRUE : small alphabet, the history is part of the state and every    *)
(*               maximal history is printed as a (G) case.                     *)
(* Hist = FALSE: wide alphabet (every point of the box and of the ring around  *)
(*               it x 4 values), no history variable (states collapse).        *)
(* Writer = "patched" is the writer of work/patches/D3.diff; "pinned" the      *)
(* snapshot's writer, which ignores the data order for 1/2/4 bpp -- negative   *)
(* control MC_C10_pinned.cfg, TLC must refute it.                              *)
EXTENDS P_C10, TLC, Json
CONSTANTS Cfgs, BppSet, Depth, Hist, Writer, Gen
VARIABLES fb, bytes, m, prev, inside, depth, hist
vars == <<fb, bytes, m, prev, inside, depth, hist>>
\* tuples cannot be written in a TLC cfg file; the cfg substitutes these
\* <<w, h, N - BUFFER_SIZE>>; these are the Framebuffer types the recorder instantiates
CfgsQuick == {<<1, 1, 0>>, <<3, 2, 0>>, <<3, 2, 2>>, <<5, 1, 0>>, <<9, 2, 0>>, <<9, 2, 2>>}
CfgsWide == {<<1, 1, 0>>, <<3, 2, 2>>, <<9, 2, 0>>}
CfgsWide3 == {<<1, 1, 0>>, <<3, 2, 2>>, <<5, 1, 0>>}

VMax(bpp) == IF bpp = 32 THEN -1 ELSE 2 ^ bpp - 1
\* a value whose bits / bytes are not symmetric
VAlt(bpp) == CASE bpp = 1 -> 1 [] bpp = 2 -> 1 [] bpp = 4 -> 5 [] bpp = 8 -> 101
               [] bpp = 16 -> 4660 [] bpp = 24 -> 1193046 [] bpp = 32 -> -2023406815    \* 0x1234, 0x123456, 0x87654321
Op(k, p, c, px, area) == [k |-> k, p |-> p, c |-> c, px |-> px, area |-> area]
Sp(p, c) == Op("sp", p, c, <<>>, Zero)
Di(px) == Op("di", <<0, 0>>, 0, px, Zero)
Fs(area, c) == Op("fs", <<0, 0>>, c, <<>>, area)
Clear(c) == Op("clear", <<0, 0>>, c, <<>>, Zero)

SmallAlphabet(f) ==
  LET fw == f.w  fh == f.h  a == VMax(f.bpp)  b == VAlt(f.bpp) IN
  { Sp(<<0, 0>>, a), Sp(<<fw - 1, fh - 1>>, b), Sp(<<fw, 0>>, a), Sp(<<0, fh>>, b),
    Di(<< <<fw - 1, 0, a>>, <<fw, fh - 1, b>>, <<-1, 0, a>>, <<0, fh - 1, b>>, <<fw - 1, 0, b>> >>),
    Fs(<<fw - 1, -1, 2, 2>>, a), Clear(b) }
WideAlphabet(f) ==
  LET fw == f.w  fh == f.h  V == {0, 1, VMax(f.bpp), VAlt(f.bpp)} IN
       { Sp(p, v) : p \in PointsOf(Grow(FbBox(f), 1)), v \in V }
  \cup { Fs(ar, v) : ar \in { <<-1, -1, 2, 2>>, <<fw - 1, fh - 1, 2, 2>>, <<0, 0, fw, 1>>, <<fw, 0, 1, fh>>, <<1, 0, 1, fh + 1>> }, v \in {VMax(f.bpp), VAlt(f.bpp)} }
  \cup { Clear(v) : v \in {0, VAlt(f.bpp)} }
  \cup { Di(<< <<0, 0, v>>, <<fw, 0, v>>, <<fw - 1, fh - 1, v>>, <<0, 0, 1>> >>) : v \in {VMax(f.bpp), VAlt(f.bpp)} }
Alphabet(f) == IF Hist THEN SmallAlphabet(f) ELSE WideAlphabet(f)

Init == \E b \in BppSet, o \in {0, 1}, s \in Cfgs :
        /\ fb = [bpp |-> b, ord |-> o, w |-> s[1], h |-> s[2], n |-> ExpectedLen(s[1], s[2], b) + s[3]]
        /\ bytes = [k \in 1..(ExpectedLen(s[1], s[2], b) + s[3]) |-> 0]          \* Framebuffer::new (framebuffer.rs:90)
        /\ m = [p \in PointsOf(<<0, 0, s[1], s[2]>>) |-> 0]
        /\ prev = bytes /\ inside = TRUE /\ depth = 0 /\ hist = <<>>

GenLine(h) == PrintT("GEN " \o ToJson([k |-> "fb", bpp |-> fb.bpp, ord |-> fb.ord, w |-> fb.w, h |-> fb.h,
                                       extra |-> fb.n - BufSize(fb), ops |-> h]))
Next == /\ depth < Depth
        /\ \E op \in Alphabet(fb) :
             /\ bytes' = ApplyT(fb, bytes, op, Writer)
             /\ m' = MApply(fb, m, op)
             /\ prev' = bytes
             /\ inside' = WritesInside(fb, op)
             /\ hist' = IF Hist THEN Append(hist, op) ELSE hist
             /\ IF Gen /\ Hist /\ depth + 1 = Depth THEN GenLine(Append(hist, op)) ELSE TRUE
        /\ depth' = depth + 1
        /\ fb' = fb
Spec == Init /\ [][Next]_vars

Refines  == AbsMap(fb, bytes) = m
Readback == \A p \in PointsOf(Grow(FbBox(fb), 1)) :
              FbPixelT(fb, bytes, p) = IF InRect(FbBox(fb), p) THEN Some(m[p]) ELSE NoneV
TailOK   == SubSeq(bytes, BufSize(fb) + 1, fb.n) = SubSeq(prev, BufSize(fb) + 1, fb.n)
OutsideOK == ~inside => bytes = prev
\* the same four statements through the property predicate of P_C09/P_C10 (as_image drawn by the
\* transcribed ImageRaw::draw of EGImage is part of C09's model; here the call is the ideal one)
PropOK == ObsFails(fb, m, prev, inside,
                   [data |-> bytes,
                    probes |-> SetToSeq({ <<p[1], p[2], FbPixelT(fb, bytes, p)>> : p \in PointsOf(Grow(FbBox(fb), 1)) }),
                    isize |-> <<fb.w, fb.h>>, iclip |-> <<0, 0, 0, 0>>, iccalls |-> <<>>,
                    icalls |-> << [m |-> "fc", area |-> FbBox(fb), n |-> fb.w * fb.h, c |-> 0, px |-> <<>>,
                                   cs |-> [i \in 1..(fb.w * fb.h) |-> Pixel(AsImage(fb, bytes), <<(i - 1) % fb.w, (i - 1) \div fb.w>>)]] >>]) = {}
=============================================================================
