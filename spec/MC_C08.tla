------------------------------- MODULE MC_C08 ------------------------------
(* (M) for C08: TLC walks through the arithmetic kernels (one state per       *)
(* kernel intermediate) under the display-scale input bounds of the property  *)
(* (|coordinates| <= 1024, sizes <= 1024, stroke width <= 128) and checks     *)
(* that no intermediate leaves the Rust type that holds it.  With Wide =      *)
(* FALSE the kernels are those of the pinned snapshot (32 bit intermediates): *)
(* that configuration is the negative control and must be refuted (it is the  *)
(* design-level explanation of the panics recorded as D15).                   *)
EXTENDS EGKernels, TLC
CONSTANTS Wide
VARIABLES k, i

\* bit lengths: 1024 needs 11 bits, 128 needs 8 bits
CB == 11  SB == 11  WB == 8
KS == Kernels(CB, SB, WB, Wide)
Init == k = 1 /\ i = 1
Next == \/ /\ i < Len(KS[k][2]) /\ i' = i + 1 /\ k' = k
        \/ /\ i = Len(KS[k][2]) /\ k < Len(KS) /\ k' = k + 1 /\ i' = 1
Spec == Init /\ [][Next]_<<k, i>>
Fits == KS[k][2][i][2] <= KS[k][2][i][3]
=============================================================================
