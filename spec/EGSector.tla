------------------------------- MODULE EGSector -----------------------------
(* TRANSCRIBED: the plane sector behind Sector::contains / Sector::points /    *)
(* Arc::points (src/primitives/common/plane_sector.rs, linear_equation.rs).    *)
(* Angles in 1/16 degree.  The trigonometry of the code (micromath f32, or     *)
(* the 1-degree table of the fixed_point build) is replaced by the generated   *)
(* 2^-16 table, so this transcription mirrors the half-plane LOGIC (which      *)
(* angles become which half plane, intersection / union / entire plane, the    *)
(* degenerate zero sweep) and only approximates pixels next to a boundary.     *)
EXTENDS Integers, Sequences, EGInt, TrigTable

\* OriginLinearEquation::with_angle (linear_equation.rs:63-77): normal = rotate_90(1024 * (cos, sin)), truncated
NormalT(a) == <<-TruncDiv(Sin16(a) * 1024, 65536), TruncDiv(Cos16(a) * 1024, 65536)>>
DotP(n, p) == n[1] * p[1] + n[2] * p[2]
\* PlaneSector::new (plane_sector.rs:34-66).  NoSwap = TRUE is the negative control (angles not swapped for
\* negative sweeps)
PlaneSectorNew(a0, sw, NoSwap) ==
  LET abs == IF sw >= 0 THEN sw ELSE -sw
      op == IF abs >= 5760 THEN "entire" ELSE IF abs >= 2880 THEN "union" ELSE "intersection"
      endA == a0 + sw
      startS == IF sw < 0 /\ ~NoSwap THEN endA ELSE a0
      endS   == IF sw < 0 /\ ~NoSwap THEN a0 ELSE endA
  IN [op |-> op, right |-> NormalT(startS), left |-> NormalT(endS)]
\* PlaneSector::contains (:78-105, incl. the degenerate-ray guard of the D20 repair as widened by D30: the borders are
\* the same line when the truncated normals are parallel and point the same way; they need not be equal)
BehindRay(ps, p) ==
  /\ ps.op = "intersection"
  /\ ps.left[1] * ps.right[2] - ps.left[2] * ps.right[1] = 0 /\ DotP(ps.left, ps.right) > 0
  /\ DotP(<<ps.right[2], -ps.right[1]>>, p) < 0
PlaneContains(ps, p) ==
  LET s1 == DotP(ps.left, p) <= 0  s2 == DotP(ps.right, p) >= 0 IN
  /\ CASE ps.op = "entire" -> TRUE [] ps.op = "union" -> s1 \/ s2 [] OTHER -> s1 /\ s2
  /\ ~BehindRay(ps, p)
=============================================================================
