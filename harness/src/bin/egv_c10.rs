//! C10 recorder: Framebuffer write histories.  Replays a history of operations on a real
//! `Framebuffer<C, C::Raw, O, W, H, N>` and records, after every operation, data(), pixel() probes
//! and what drawing as_image() does on a recording target; judged by spec/Trace_C10.tla.  No oracle.
//!
//! case descriptor: {"k":"fb","bpp":..,"ord":0|1,"w":..,"h":..,"extra": N - BUFFER_SIZE,"ops":[op,..]}
//!   op = {"k":"sp","p":[x,y],"c":v}                 set_pixel
//!      | {"k":"di","px":[[x,y,v],..]}               draw_iter
//!      | {"k":"fs","area":[x,y,w,h],"c":v}          fill_solid
//!      | {"k":"fc","area":[x,y,w,h],"px":[v,..]}    fill_contiguous
//!      | {"k":"clear","c":v}                        clear
//!      | {"k":"draw","d":{..drawable..}}            an arbitrary drawable (see `draw_desc`)
//!   (missing fields default to 0 / [] / [0,0,0,0]; MC_C10 prints all of them)
//! Colour values are raw storage values; 32-bit values travel as the i32 with the same bit pattern.
//! The Framebuffer types are instantiated by `fb_types!` (14 formats x FB_SIZES).
#[path = "../c09_c10_common.rs"]
mod common;
use common::*;
use egv::targets::{Call, LogDefault};
use egv::util::*;
use egv::*;
use embedded_graphics::framebuffer::{buffer_size, Framebuffer};
use embedded_graphics::image::{GetPixel, Image, ImageRaw};
use embedded_graphics::pixelcolor::raw::{BigEndianLsb0, LittleEndianMsb0};
use embedded_graphics::pixelcolor::*;
use embedded_graphics::primitives::{Circle, Line, PrimitiveStyleBuilder, Rectangle};
use embedded_graphics::{prelude::*, Pixel};

/// what the recorder needs from a concrete Framebuffer type
trait Fb {
    fn set_pixel_raw(&mut self, p: Point, v: u32);
    fn pixel_raw(&self, p: Point) -> Option<i32>;
    fn bytes(&self) -> Vec<u8>;
    fn draw_iter_raw(&mut self, px: &[(i32, i32, u32)]);
    fn fill_solid_raw(&mut self, area: &Rectangle, v: u32);
    fn fill_contiguous_raw(&mut self, area: &Rectangle, cs: &[u32]);
    fn clear_raw(&mut self, v: u32);
    /// size of as_image() and the calls of drawing it at the origin on the draining target
    fn image_obs(&self) -> (Size, Vec<Value>);
    /// the calls of drawing as_image() at the origin on the draining target seen through `.clipped(clip)`
    fn image_obs_clipped(&self, clip: &Rectangle) -> Vec<Value>;
    /// draws the described drawable on the framebuffer; returns the pixel stream the same
    /// drawable emits on a draw_iter-only recording target with the same bounding box
    fn draw_drawable(&mut self, d: &Value) -> Vec<(i32, i32, u32)>;
}

/// Draw the drawable described by `d` on any target of colour C.
fn draw_desc<C: Col, T: DrawTarget<Color = C>>(t: &mut T, d: &Value) -> Result<(), T::Error> {
    // a missing / null colour field means "no colour"
    let col = |k: &str| -> Option<C> { d[k].as_i64().map(|v| C::from_u32(v as i32 as u32)) };
    let style = || {
        let mut b = PrimitiveStyleBuilder::new();
        if let Some(c) = col("fill") {
            b = b.fill_color(c);
        }
        if let Some(c) = col("stroke") {
            b = b.stroke_color(c).stroke_width(d["sw"].as_u64().unwrap_or(1) as u32);
        }
        b.build()
    };
    match d["t"].as_str().unwrap() {
        "rect" => rect_from(&d["r"]).into_styled(style()).draw(t),
        "line" => Line::new(pt_from(&d["a"]), pt_from(&d["b"])).into_styled(style()).draw(t),
        "circle" => Circle::new(pt_from(&d["a"]), i(&d["dia"]) as u32).into_styled(style()).draw(t),
        // a raw image of the same colour type (default data order): reaches the target as fill_contiguous
        "img" => {
            let (w, h) = (i(&d["w"]) as u32, i(&d["h"]) as u32);
            let len = (w as usize * C::BITS as usize + 7) / 8 * h as usize;
            let data = pat_data(i(&d["pat"]), i(&d["seed"]) as u64, len);
            let raw = ImageRaw::<C, LittleEndianMsb0>::new(&data, Size::new(w, h)).unwrap();
            Image::new(&raw, pt_from(&d["at"])).draw(t)
        }
        k => panic!("harness: unknown drawable {}", k),
    }
}

macro_rules! fb_impl {
    ($C:ty, $O:ty, $W:expr, $H:expr, $X:expr) => {
        impl Fb for Framebuffer<$C, <$C as PixelColor>::Raw, $O, $W, $H, { buffer_size::<$C>($W, $H) + $X }> {
            fn set_pixel_raw(&mut self, p: Point, v: u32) {
                self.set_pixel(p, <$C as Col>::from_u32(v));
            }
            fn pixel_raw(&self, p: Point) -> Option<i32> {
                self.pixel(p).map(ci)
            }
            fn bytes(&self) -> Vec<u8> {
                self.data().to_vec()
            }
            fn draw_iter_raw(&mut self, px: &[(i32, i32, u32)]) {
                self.draw_iter(px.iter().map(|&(x, y, v)| Pixel(Point::new(x, y), <$C as Col>::from_u32(v)))).unwrap();
            }
            fn fill_solid_raw(&mut self, area: &Rectangle, v: u32) {
                self.fill_solid(area, <$C as Col>::from_u32(v)).unwrap();
            }
            fn fill_contiguous_raw(&mut self, area: &Rectangle, cs: &[u32]) {
                self.fill_contiguous(area, cs.iter().map(|&v| <$C as Col>::from_u32(v))).unwrap();
            }
            fn clear_raw(&mut self, v: u32) {
                self.clear(<$C as Col>::from_u32(v)).unwrap();
            }
            fn image_obs(&self) -> (Size, Vec<Value>) {
                let img = self.as_image();
                let mut t = Drain::<$C>::new();
                Image::new(&img, Point::zero()).draw(&mut t).unwrap();
                (img.size(), t.calls)
            }
            fn image_obs_clipped(&self, clip: &Rectangle) -> Vec<Value> {
                let img = self.as_image();
                let mut t = Drain::<$C>::new();
                Image::new(&img, Point::zero()).draw(&mut t.clipped(clip)).unwrap();
                t.calls
            }
            fn draw_drawable(&mut self, d: &Value) -> Vec<(i32, i32, u32)> {
                let mut r = LogDefault::<$C>::new(self.bounding_box());
                draw_desc::<$C, _>(&mut r, d).unwrap();
                draw_desc::<$C, _>(self, d).unwrap();
                let mut out = vec![];
                for c in &r.calls {
                    match c {
                        Call::DrawIter { px } => out.extend(px.iter().copied()),
                        other => panic!("harness: unexpected call {:?}", other),
                    }
                }
                out
            }
        }
    };
}

/// (w, h, extra) of the instantiated types; MC_C10.CfgsQuick is the first six
// (3, 2, 40): an oversized buffer with room for several spare ROWS at every depth
// (4, 3) (6, 4) (12, 2) (2, 5) (8, 3): rows that END ON A BYTE BOUNDARY at 2 / 4 bpp although the width is not a multiple
// of 8 (and one that is), with more than one row - every other size has padded rows or a single row
const FB_SIZES: [(usize, usize, usize); 15] =
    [(1, 1, 0), (3, 2, 0), (3, 2, 2), (5, 1, 0), (9, 2, 0), (9, 2, 2), (13, 3, 0), (16, 1, 1), (1, 17, 0), (3, 2, 40),
     (4, 3, 0), (6, 4, 3), (12, 2, 0), (2, 5, 0), (8, 3, 1)];

macro_rules! fb_types {
    ($(($bpp:expr, $ord:expr, $C:ty, $O:ty)),*) => {
        $(
            fb_impl!($C, $O, 1, 1, 0);
            fb_impl!($C, $O, 3, 2, 0);
            fb_impl!($C, $O, 3, 2, 2);
            fb_impl!($C, $O, 5, 1, 0);
            fb_impl!($C, $O, 9, 2, 0);
            fb_impl!($C, $O, 9, 2, 2);
            fb_impl!($C, $O, 13, 3, 0);
            fb_impl!($C, $O, 16, 1, 1);
            fb_impl!($C, $O, 1, 17, 0);
            fb_impl!($C, $O, 3, 2, 40);
            fb_impl!($C, $O, 4, 3, 0);
            fb_impl!($C, $O, 6, 4, 3);
            fb_impl!($C, $O, 12, 2, 0);
            fb_impl!($C, $O, 2, 5, 0);
            fb_impl!($C, $O, 8, 3, 1);
        )*
        fn make_fb(bpp: i64, ord: i64, w: i64, h: i64, x: i64) -> Option<Box<dyn Fb>> {
            $(
                if bpp == $bpp && ord == $ord {
                    return match (w, h, x) {
                        (1, 1, 0) => Some(Box::new(Framebuffer::<$C, <$C as PixelColor>::Raw, $O, 1, 1, { buffer_size::<$C>(1, 1) }>::new())),
                        (3, 2, 0) => Some(Box::new(Framebuffer::<$C, <$C as PixelColor>::Raw, $O, 3, 2, { buffer_size::<$C>(3, 2) }>::new())),
                        (3, 2, 2) => Some(Box::new(Framebuffer::<$C, <$C as PixelColor>::Raw, $O, 3, 2, { buffer_size::<$C>(3, 2) + 2 }>::new())),
                        (5, 1, 0) => Some(Box::new(Framebuffer::<$C, <$C as PixelColor>::Raw, $O, 5, 1, { buffer_size::<$C>(5, 1) }>::new())),
                        (9, 2, 0) => Some(Box::new(Framebuffer::<$C, <$C as PixelColor>::Raw, $O, 9, 2, { buffer_size::<$C>(9, 2) }>::new())),
                        (9, 2, 2) => Some(Box::new(Framebuffer::<$C, <$C as PixelColor>::Raw, $O, 9, 2, { buffer_size::<$C>(9, 2) + 2 }>::new())),
                        (13, 3, 0) => Some(Box::new(Framebuffer::<$C, <$C as PixelColor>::Raw, $O, 13, 3, { buffer_size::<$C>(13, 3) }>::new())),
                        (16, 1, 1) => Some(Box::new(Framebuffer::<$C, <$C as PixelColor>::Raw, $O, 16, 1, { buffer_size::<$C>(16, 1) + 1 }>::new())),
                        (1, 17, 0) => Some(Box::new(Framebuffer::<$C, <$C as PixelColor>::Raw, $O, 1, 17, { buffer_size::<$C>(1, 17) }>::new())),
                        (3, 2, 40) => Some(Box::new(Framebuffer::<$C, <$C as PixelColor>::Raw, $O, 3, 2, { buffer_size::<$C>(3, 2) + 40 }>::new())),
                        (4, 3, 0) => Some(Box::new(Framebuffer::<$C, <$C as PixelColor>::Raw, $O, 4, 3, { buffer_size::<$C>(4, 3) }>::new())),
                        (6, 4, 3) => Some(Box::new(Framebuffer::<$C, <$C as PixelColor>::Raw, $O, 6, 4, { buffer_size::<$C>(6, 4) + 3 }>::new())),
                        (12, 2, 0) => Some(Box::new(Framebuffer::<$C, <$C as PixelColor>::Raw, $O, 12, 2, { buffer_size::<$C>(12, 2) }>::new())),
                        (2, 5, 0) => Some(Box::new(Framebuffer::<$C, <$C as PixelColor>::Raw, $O, 2, 5, { buffer_size::<$C>(2, 5) }>::new())),
                        (8, 3, 1) => Some(Box::new(Framebuffer::<$C, <$C as PixelColor>::Raw, $O, 8, 3, { buffer_size::<$C>(8, 3) + 1 }>::new())),
                        _ => None,
                    };
                }
            )*
            None
        }
    };
}

fb_types!(
    (1, 0, BinaryColor, LittleEndianMsb0),
    (1, 1, BinaryColor, BigEndianLsb0),
    (2, 0, Gray2, LittleEndianMsb0),
    (2, 1, Gray2, BigEndianLsb0),
    (4, 0, Gray4, LittleEndianMsb0),
    (4, 1, Gray4, BigEndianLsb0),
    (8, 0, Gray8, LittleEndianMsb0),
    (8, 1, Gray8, BigEndianLsb0),
    (16, 0, Rgb565, LittleEndianMsb0),
    (16, 1, Rgb565, BigEndianLsb0),
    (24, 0, Rgb888, LittleEndianMsb0),
    (24, 1, Rgb888, BigEndianLsb0),
    (32, 0, C32, LittleEndianMsb0),
    (32, 1, C32, BigEndianLsb0)
);

fn u(v: &Value) -> u32 {
    v.as_i64().unwrap_or(0) as i32 as u32
}
fn rect_or_zero(v: &Value) -> Rectangle {
    if v.is_array() {
        rect_from(v)
    } else {
        Rectangle::zero()
    }
}

/// data(), pixel() on the box grown by one and on far points, as_image()
fn observe(fb: &dyn Fb, w: i32, h: i32) -> Value {
    let mut probes = vec![];
    let mut pts = vec![];
    for y in -1..h + 1 {
        for x in -1..w + 1 {
            pts.push((x, y));
        }
    }
    pts.extend([(w + 7, 0), (0, h + 7), (-9, -9), (i32::MAX, 0), (0, i32::MAX), (i32::MIN, 0), (0, i32::MIN), (i32::MAX, i32::MAX)]);
    for (x, y) in pts {
        match fb.pixel_raw(Point::new(x, y)) {
            Some(c) => probes.push(json!([x, y, [c]])),
            None => probes.push(json!([x, y, []])),
        }
    }
    let (isize, icalls) = fb.image_obs();
    // as_image() through a clipped target: the crop seeks in the colour iterator (first column and first rows cut off)
    let clip = Rectangle::new(Point::new(1, if h >= 3 { 2 } else { 1 }), Size::new(w.max(0) as u32, h.max(0) as u32));
    let iccalls = fb.image_obs_clipped(&clip);
    json!({"data": fb.bytes(), "probes": probes, "isize": [isize.width, isize.height], "icalls": icalls,
           "iclip": rect_json(&clip), "iccalls": iccalls})
}

fn run_case(rec: &mut Rec, d: &Value) {
    assert_eq!(d["k"].as_str(), Some("fb"), "unknown case kind");
    let (bpp, ord, w, h, x) = (i(&d["bpp"]), i(&d["ord"]), i(&d["w"]), i(&d["h"]), i(&d["extra"]));
    let mut fb = make_fb(bpp, ord, w, h, x).unwrap_or_else(|| panic!("harness: no Framebuffer type for {}", d));
    rec.begin(d.clone());
    let n = fb.bytes().len();
    let first = catch(|| observe(fb.as_ref(), w as i32, h as i32));
    match first {
        Ok(o) => rec.ev(
            "fb",
            json!({"bpp": bpp, "ord": ord, "w": w, "h": h, "n": n, "data": o["data"], "probes": o["probes"], "isize": o["isize"], "icalls": o["icalls"],
                   "iclip": o["iclip"], "iccalls": o["iccalls"]}),
        ),
        Err(p) => {
            rec.ev("panic", json!({"msg": p.msg, "loc": p.loc}));
            return;
        }
    }
    for (k, op) in d["ops"].as_array().unwrap().iter().enumerate() {
        let kind = op["k"].as_str().unwrap().to_string();
        let px: Vec<(i32, i32, u32)> = match (&kind[..], op["px"].as_array()) {
            ("di", Some(a)) => a.iter().map(|e| (i(&e[0]) as i32, i(&e[1]) as i32, u(&e[2]))).collect(),
            _ => vec![],
        };
        let cs: Vec<u32> = match (&kind[..], op["px"].as_array()) {
            ("fc", Some(a)) => a.iter().map(u).collect(),
            _ => vec![],
        };
        let area = rect_or_zero(&op["area"]);
        let p = if op["p"].is_array() { pt_from(&op["p"]) } else { Point::zero() };
        let c = u(&op["c"]);
        let r = catch(|| {
            let mut stream = vec![];
            match &kind[..] {
                "sp" => fb.set_pixel_raw(p, c),
                "di" => fb.draw_iter_raw(&px),
                "fs" => fb.fill_solid_raw(&area, c),
                "fc" => fb.fill_contiguous_raw(&area, &cs),
                "clear" => fb.clear_raw(c),
                "draw" => stream = fb.draw_drawable(&op["d"]),
                k => panic!("harness: unknown op {}", k),
            }
            (stream, observe(fb.as_ref(), w as i32, h as i32))
        });
        match r {
            Ok((stream, o)) => {
                // the op as the trace spec reads it: uniform fields; for "draw" px = the reference stream,
                // for "fc" px = the colours
                let pxj: Value = match &kind[..] {
                    "di" => px.iter().map(|&(x, y, v)| json!([x, y, v as i32])).collect(),
                    "fc" => cs.iter().map(|&v| json!(v as i32)).collect(),
                    "draw" => stream.iter().map(|&(x, y, v)| json!([x, y, v as i32])).collect(),
                    _ => json!([]),
                };
                rec.ev(
                    "op",
                    json!({"i": k + 1,
                           "op": {"k": kind, "p": [p.x, p.y], "c": c as i32, "px": pxj, "area": rect_json(&area)},
                           "data": o["data"], "probes": o["probes"], "isize": o["isize"], "icalls": o["icalls"],
                   "iclip": o["iclip"], "iccalls": o["iccalls"]}),
                );
                rec.nontrivial();
            }
            Err(pn) => {
                // a panic is data; the framebuffer may be half written, so the history ends here
                rec.note("panicked_ops");
                rec.ev("panic", json!({"msg": pn.msg, "loc": pn.loc}));
                return;
            }
        }
    }
}

fn rnd_val(rng: &mut Rng, bpp: i64) -> i32 {
    let mask: u32 = if bpp == 32 { u32::MAX } else { (1u32 << bpp) - 1 };
    let v = match rng.u32r(0, 5) {
        0 => 0,
        1 => mask,
        2 => 1,
        3 => 0x8765_4321 & mask,
        _ => rng.u32() & mask,
    };
    v as i32
}
fn rnd_pt(rng: &mut Rng, w: i32, h: i32) -> (i32, i32) {
    match rng.u32r(0, 5) {
        0 => (rng.i32(-2, w + 1), rng.i32(-2, h + 1)),
        1 => (*rng.pick(&[-1, w, w + 1, i32::MAX, i32::MIN, 256, 65536]), rng.i32(0, h - 1)),
        2 => (rng.i32(0, w - 1), *rng.pick(&[-1, h, h + 1, i32::MAX, i32::MIN, 256, 65536])),
        _ => (rng.i32(0, w - 1), rng.i32(0, h - 1)),
    }
}
fn rnd_area(rng: &mut Rng, w: i32, h: i32) -> Value {
    json!([rng.i32(-2, w), rng.i32(-2, h), rng.i32(0, w + 2), rng.i32(0, h + 2)])
}
fn rnd_op(rng: &mut Rng, bpp: i64, w: i32, h: i32, drawables: bool) -> Value {
    match rng.u32r(0, if drawables { 11 } else { 8 }) {
        0..=3 => {
            let p = rnd_pt(rng, w, h);
            json!({"k":"sp","p":[p.0, p.1],"c":rnd_val(rng, bpp)})
        }
        4..=5 => {
            let n = rng.usize(0, 6);
            let px: Vec<Value> = (0..n)
                .map(|_| {
                    let p = rnd_pt(rng, w, h);
                    json!([p.0, p.1, rnd_val(rng, bpp)])
                })
                .collect();
            json!({"k":"di","px":px})
        }
        6 => json!({"k":"fs","area":rnd_area(rng, w, h),"c":rnd_val(rng, bpp)}),
        7 => {
            // half of the streams go to areas completely inside (an override can take a different path there)
            let a = if rng.bool() && w > 0 && h > 0 {
                let (x, y) = (rng.i32(0, w - 1), rng.i32(0, h - 1));
                json!([x, y, rng.i32(1, w - x), rng.i32(1, h - y)])
            } else {
                rnd_area(rng, w, h)
            };
            let n = (i(&a[2]) * i(&a[3])) as usize;
            let len = match rng.u32r(0, 6) {
                0 => n / 2,
                1 => n + 3,
                2 => n.saturating_sub(1),
                3 => rng.usize(0, n),
                _ => n,
            };
            let cs: Vec<i32> = (0..len).map(|_| rnd_val(rng, bpp)).collect();
            json!({"k":"fc","area":a,"px":cs})
        }
        8 => json!({"k":"clear","c":rnd_val(rng, bpp)}),
        9 => json!({"k":"draw","d":{"t":"rect","r":rnd_area(rng, w, h),"fill":rnd_val(rng, bpp),"stroke":rnd_val(rng, bpp),"sw":rng.u32r(0, 2)}}),
        10 => {
            let (a, b) = (rnd_pt(rng, w.min(40), h.min(40)), rnd_pt(rng, w.min(40), h.min(40)));
            let clampp = |p: (i32, i32)| (p.0.clamp(-20, 40), p.1.clamp(-20, 40));
            let (a, b) = (clampp(a), clampp(b));
            json!({"k":"draw","d":{"t":"line","a":[a.0, a.1],"b":[b.0, b.1],"stroke":rnd_val(rng, bpp),"sw":rng.u32r(1, 3)}})
        }
        _ => {
            if rng.bool() {
                json!({"k":"draw","d":{"t":"circle","a":[rng.i32(-3, w), rng.i32(-3, h)],"dia":rng.u32r(0, 8),"fill":rnd_val(rng, bpp),"stroke":rnd_val(rng, bpp),"sw":1}})
            } else {
                json!({"k":"draw","d":{"t":"img","w":rng.u32r(0, 5),"h":rng.u32r(0, 4),"pat":2,"seed":rng.u32() >> 1,"at":[rng.i32(-2, w), rng.i32(-2, h)]}})
            }
        }
    }
}

fn main() {
    let args = Args::parse();
    install_panic_hook();
    let mut rec = Rec::new(&args);
    let mut rng = Rng::new(args.seed ^ 0xC10);
    if let Some(cases) = &args.cases {
        for d in cases {
            run_case(&mut rec, d);
        }
        rec.finish(json!({}));
        return;
    }
    for d in args.gen.iter().chain(args.witnesses.iter()) {
        run_case(&mut rec, d);
    }
    // seeded histories on every instantiated type
    let (nhist, len) = if args.thorough() { (40, 200) } else { (12, 25) };
    for &bpp in &[1i64, 2, 4, 8, 16, 24, 32] {
        for ord in 0..2 {
            for &(w, h, x) in FB_SIZES.iter() {
                for _ in 0..nhist {
                    let ops: Vec<Value> = (0..len).map(|_| rnd_op(&mut rng, bpp, w as i32, h as i32, true)).collect();
                    run_case(&mut rec, &json!({"k":"fb","bpp":bpp,"ord":ord,"w":w,"h":h,"extra":x,"ops":ops}));
                }
            }
        }
    }
    rec.finish(json!({}));
}
