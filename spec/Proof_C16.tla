----------------------------- MODULE Proof_C16 -----------------------------
(* Unbounded (all integers) version of the interval-form lemmas that MC_C16   *)
(* checks on a grid: the rectangle computed in interval form denotes exactly  *)
(* the common points of two rectangles, and the hull contains both.           *)
(* Checked with TLAPS (tlapm); not load-bearing for any check.                *)
EXTENDS Integers, TLAPS

InRect(r, p) == /\ p[1] >= r[1] /\ p[1] < r[1] + r[3]
                /\ p[2] >= r[2] /\ p[2] < r[2] + r[4]
Max(a, b) == IF a >= b THEN a ELSE b
Min(a, b) == IF a <= b THEN a ELSE b
IsRect(r) == r[1] \in Int /\ r[2] \in Int /\ r[3] \in Nat /\ r[4] \in Nat
\* canonical intersection in interval form
Cap(a, b) ==
  LET l == Max(a[1], b[1])  rr == Min(a[1] + a[3], b[1] + b[3])
      t == Max(a[2], b[2])  bb == Min(a[2] + a[4], b[2] + b[4])
  IN IF l < rr /\ t < bb THEN <<l, t, rr - l, bb - t>> ELSE <<0, 0, 0, 0>>
Hull(a, b) ==
  LET l == Min(a[1], b[1])  rr == Max(a[1] + a[3], b[1] + b[3])
      t == Min(a[2], b[2])  bb == Max(a[2] + a[4], b[2] + b[4])
  IN <<l, t, rr - l, bb - t>>

THEOREM CapIsIntersection ==
  ASSUME NEW a, NEW b, NEW p, IsRect(a), IsRect(b), p[1] \in Int, p[2] \in Int
  PROVE  InRect(Cap(a, b), p) <=> (InRect(a, p) /\ InRect(b, p))
<1> DEFINE l == Max(a[1], b[1])  rr == Min(a[1] + a[3], b[1] + b[3])
           t == Max(a[2], b[2])  bb == Min(a[2] + a[4], b[2] + b[4])
<1>0. l \in Int /\ rr \in Int /\ t \in Int /\ bb \in Int
  BY DEF Max, Min, IsRect
<1>1. CASE l < rr /\ t < bb
  <2>1. Cap(a, b) = <<l, t, rr - l, bb - t>>
    BY <1>1 DEF Cap
  <2>2. InRect(<<l, t, rr - l, bb - t>>, p) <=> (p[1] >= l /\ p[1] < rr /\ p[2] >= t /\ p[2] < bb)
    BY <1>0 DEF InRect
  <2>3. (p[1] >= l /\ p[1] < rr /\ p[2] >= t /\ p[2] < bb) <=> (InRect(a, p) /\ InRect(b, p))
    BY DEF InRect, Max, Min, IsRect
  <2> QED BY <2>1, <2>2, <2>3
<1>2. CASE ~(l < rr /\ t < bb)
  <2>1. Cap(a, b) = <<0, 0, 0, 0>>
    BY <1>2 DEF Cap
  <2>2. ~InRect(<<0, 0, 0, 0>>, p)
    BY DEF InRect
  <2>3. ~(InRect(a, p) /\ InRect(b, p))
    BY <1>2 DEF InRect, Max, Min, IsRect
  <2> QED BY <2>1, <2>2, <2>3
<1> QED BY <1>1, <1>2

THEOREM HullContainsBoth ==
  ASSUME NEW a, NEW b, NEW p, IsRect(a), IsRect(b), p[1] \in Int, p[2] \in Int
  PROVE  (InRect(a, p) \/ InRect(b, p)) => InRect(Hull(a, b), p)
  BY DEF InRect, Hull, Max, Min, IsRect

THEOREM CapCommutes ==
  ASSUME NEW a, NEW b, IsRect(a), IsRect(b)
  PROVE  Cap(a, b) = Cap(b, a)
  BY DEF Cap, Max, Min, IsRect
=============================================================================
