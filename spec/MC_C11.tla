------------------------------- MODULE MC_C11 ------------------------------
(* (M) for C11.  Two small machines over the operators of EGRaw:              *)
(*  "sl": one store or one load on a buffer.  The TRANSCRIBED load/store of   *)
(*        load_store.rs is judged by the property predicates of P_C11, and    *)
(*        the ABSTRACT layout is checked against itself (round trip, frame    *)
(*        condition, neighbours, bit-string reading of the documentation).    *)
(*  "it": the RawDataIterator machine (index) driven by every script of       *)
(*        next / nth(0..3) / size_hint up to Depth steps, run in lock step    *)
(*        with the abstract position and judged by P_C11!IterStep.            *)
(* Pinned = TRUE selects the transcription of the tree as pinned (defects D1  *)
(* and D2): TLC must refute it (negative control, MC_C11_pinned.cfg).         *)
(* With Gen = TRUE the explored domain is printed as (G) case descriptors.    *)
EXTENDS P_C11, TLC, Json
CONSTANTS MaxLen, Depth, Pinned, Gen
VARIABLES s

ByteVals == {0, 255, 165}
Bufs(len) == [1..len -> ByteVals]
\* iterator buffers: distinct bytes so that every item identifies its position
IterBytes == <<27, 228, 165, 60, 129, 126>>
IterBuf(len) == SubSeq(IterBytes, 1, len)

AltBytes == <<18, 52, 86, 120>>                        \* 0x12 0x34 0x56 0x78: byte order is visible
Vals(bpp) ==
  IF bpp = 1 THEN {<<0>>, <<1>>}
  ELSE IF bpp = 2 THEN {<<0>>, <<1>>, <<3>>, <<2>>}
  ELSE IF bpp = 4 THEN {<<0>>, <<1>>, <<15>>, <<10>>}
  ELSE IF bpp = 8 THEN {<<0>>, <<1>>, <<255>>, <<165>>}
  ELSE LET n == NBytes(bpp) IN
       { [k \in 1..n |-> 0], [k \in 1..n |-> IF k = 1 THEN 1 ELSE 0], [k \in 1..n |-> 255], SubSeq(AltBytes, 1, n) }
Indices(bpp, len) == 0..(PixelCount(bpp, len) + 1) \cup {Huge}

\* script alphabet in trace encoding, and in descriptor encoding <<op, n>>
Steps == {<<0, 0, 0, 0, 0>>, <<2, 0, 0, 0, 0>>} \cup { <<1, n, 0, 0, 0>> : n \in 0..3 }
DescStep(st) == <<st[1], st[2]>>

GenSL(bpp, order, len) ==
  PrintT("GEN " \o ToJson([k |-> "sl", bpp |-> bpp, order |-> order, len |-> len,
                           bytes |-> SetToSeq(ByteVals),
                           ixs |-> SetToSeq({ Limbs(i) : i \in Indices(bpp, len) }),
                           vals |-> SetToSeq(Vals(bpp))]))
GenIT(bpp, order, len) ==
  PrintT("GEN " \o ToJson([k |-> "it", bpp |-> bpp, order |-> order, buf |-> IterBuf(len),
                           scripts |-> SetToSeq({ [j \in 1..Depth |-> DescStep(sc[j])] : sc \in [1..Depth -> Steps] })]))

InitSL == \E bpp \in Bpps, order \in Orders, len \in 0..MaxLen : \E buf \in Bufs(len) :
            /\ s = [m |-> "sl", op |-> "init", bpp |-> bpp, order |-> order, buf |-> buf]
            /\ IF Gen /\ (\A k \in 1..len : buf[k] = 0) THEN GenSL(bpp, order, len) ELSE TRUE
InitIT == \E bpp \in Bpps, order \in Orders, len \in 0..MaxLen :
            /\ s = [m |-> "it", op |-> "init", bpp |-> bpp, order |-> order, buf |-> IterBuf(len),
                    idx |-> 0, pos |-> 0, d |-> 0]
            /\ IF Gen THEN GenIT(bpp, order, len) ELSE TRUE
Init == InitSL \/ InitIT

\* ---- "sl": one call of the transcribed code, recorded like the harness records the library
DoStore == /\ s.m = "sl" /\ s.op = "init"
           /\ \E i \in Indices(s.bpp, Len(s.buf)), v \in Vals(s.bpp) :
                LET r == StoreT(Pinned, s.bpp, s.order, s.buf, i, v) IN
                s' = [s EXCEPT !.op = "store"] @@
                     [i |-> i, v |-> v,
                      item |-> <<Limbs(i), v, IF r.ok THEN 1 ELSE 0, r.buf, LoadT(s.bpp, s.order, r.buf, i), 0>>]
DoLoad  == /\ s.m = "sl" /\ s.op = "init"
           /\ \E i \in Indices(s.bpp, Len(s.buf)) :
                s' = [s EXCEPT !.op = "load"] @@
                     [i |-> i, item |-> <<Limbs(i), LoadT(s.bpp, s.order, s.buf, i)>>]

\* ---- "it": one step of the transcribed iterator and of the abstract position
HintObs(h) == Limbs(h[1]) \o <<1>> \o Limbs(h[2])
DoIter == /\ s.m = "it" /\ s.d < Depth
          /\ \E st \in Steps :
               LET N == PixelCount(s.bpp, Len(s.buf)) IN
               IF st[1] = 2
               THEN s' = [m |-> "it", op |-> "step", bpp |-> s.bpp, order |-> s.order, buf |-> s.buf,
                          idx |-> s.idx, pos |-> s.pos, d |-> s.d + 1, ppos |-> s.pos, sc |-> st,
                          ob |-> HintObs(ItSizeHintT(Pinned, s.bpp, Len(s.buf), s.idx))]
               ELSE LET r == IF st[1] = 0 THEN ItNextT(s.bpp, s.order, s.buf, s.idx)
                             ELSE ItNthT(s.bpp, s.order, s.buf, s.idx, st[2])
                        a == IF st[1] = 0 THEN AbsNext(N, s.pos) ELSE AbsNth(N, s.pos, st[2]) IN
                    s' = [m |-> "it", op |-> "step", bpp |-> s.bpp, order |-> s.order, buf |-> s.buf,
                          idx |-> r.idx, pos |-> a.pos, d |-> s.d + 1, ppos |-> s.pos, sc |-> st,
                          ob |-> r.item]

Next == DoStore \/ DoLoad \/ DoIter
Spec == Init /\ [][Next]_s

\* ---- the property predicates of P_C11 on the transcribed code
StoreOK == s.op = "store" => StoreFails(s.bpp, s.order, s.buf, s.item) = {}
LoadOK  == s.op = "load"  => LoadFails(s.bpp, s.order, s.buf, s.item) = {}
IterOK  == (s.m = "it" /\ s.op = "step") =>
             LET N == PixelCount(s.bpp, Len(s.buf))
                 r == IterStep(s.bpp, s.order, s.buf, N, [pos |-> s.ppos, codes |-> {}, step |-> 0, bad |-> {}], s.sc, s.ob, 1)
             IN r.codes = {} /\ r.pos = s.pos
\* abstraction relation between the iterator's index and the abstract position
PosRel  == s.m = "it" => s.pos = Min(s.idx, PixelCount(s.bpp, Len(s.buf)))

\* ---- the abstract layout against itself
LayoutOK == (s.op = "store" /\ InRange(s.bpp, s.buf, s.i)) =>
  LET b2 == Store(s.bpp, s.order, s.buf, s.i, s.v) IN
  /\ IsBuffer(b2) /\ Len(b2) = Len(s.buf)
  /\ Load(s.bpp, s.order, b2, s.i) = s.v
  /\ SameOutside(s.bpp, s.order, s.buf, b2, s.i)
  /\ \A j \in 0..(PixelCount(s.bpp, Len(s.buf)) - 1) :
       j # s.i => Load(s.bpp, s.order, b2, j) = Load(s.bpp, s.order, s.buf, j)
  \* a buffer that differs only inside pixel i and holds v there is this one
  /\ \A b3 \in {s.item[4]} : (Len(b3) = Len(b2) /\ SameOutside(s.bpp, s.order, s.buf, b3, s.i)
                              /\ Load(s.bpp, s.order, b3, s.i) = s.v) => b3 = b2
DocOK == (s.op = "load" /\ InRange(s.bpp, s.buf, s.i)) =>
  LET v == Load(s.bpp, s.order, s.buf, s.i) IN
  /\ IsValue(s.bpp, v)
  /\ IF s.bpp < 8 THEN v[1] = DocLoadBits(s.bpp, s.order, s.buf, s.i)
     ELSE s.bpp <= 24 => NumOf(v) = DocLoadNum(s.bpp, s.order, s.buf, s.i)
OutOK == (s.m = "sl" /\ s.op # "init" /\ ~InRange(s.bpp, s.buf, s.i)) => Load(s.bpp, s.order, s.buf, s.i) = None
=============================================================================
