------------------------------- MODULE MC_C01 ------------------------------
(* (M) for C01 / C03: the draw target as a state machine.                     *)
(* Two targets receive the same history of calls: `fbA` applies every call    *)
(* with its documented meaning (EGTarget!Apply, what a native implementation  *)
(* does), `fbL` first lowers the call through the TRANSCRIBED trait defaults  *)
(* (LowerDefault: fill_contiguous -> draw_iter(points zip colours), ...) and  *)
(* applies the resulting draw_iter call.  Invariant: the two frame buffers    *)
(* are equal after every history (the state space is finite because the frame *)
(* buffer is bounded by the box, so TLC explores ALL histories of any length).*)
EXTENDS EGTarget
CONSTANTS ALo, AHi, SMax, Colors, Mutant
VARIABLES box, fbA, fbL
ALoQ == -1

Boxes == { <<0, 0, 2, 2>>, <<1, -1, 2, 3>>, <<1, 1, 0, 0>>, <<-1, 0, 3, 1>> }
Areas == { <<x, y, w, h>> : x \in ALo..AHi, y \in ALo..AHi, w \in 0..SMax, h \in 0..SMax }
\* all colour sequences of length 0 .. n over Colors
SeqsUpTo(n) == UNION { [1..k -> Colors] : k \in 0..n }
MkCall(m, area, color, colors, px) == [m |-> m, area |-> area, color |-> color, colors |-> colors, px |-> px]
Calls ==
       { MkCall("fill_contiguous", a, -1, cs, <<>>) : a \in Areas, cs \in SeqsUpTo(SMax * SMax + 1) }
  \cup { MkCall("fill_solid", a, c, <<>>, <<>>) : a \in Areas, c \in Colors }
  \cup { MkCall("clear", Zero, c, <<>>, <<>>) : c \in Colors }
  \cup { MkCall("draw_iter", Zero, -1, <<>>, px) :
           px \in { << <<x, y, c>>, <<x + 1, y, d>>, <<x, y, d>> >> : x \in ALo..AHi, y \in {0, 1}, c \in Colors, d \in Colors } }

\* negative control: a default fill_contiguous that zips AFTER skipping the first point
BrokenLower(b, call) ==
  IF call.m = "fill_contiguous" /\ Len(call.colors) > 1
  THEN LET pts == PointsSeq(call.area) IN
       MkDrawIter([ i \in 1..Min(Len(pts) - 1, Len(call.colors)) |-> <<pts[i + 1][1], pts[i + 1][2], call.colors[i]>> ])
  ELSE LowerDefault(b, call)
Lower(b, call) == IF Mutant THEN BrokenLower(b, call) ELSE LowerDefault(b, call)

Init == box \in Boxes /\ fbA = EmptyFb /\ fbL = EmptyFb
Do(call) == /\ fbA' = Apply(fbA, box, call)
            /\ fbL' = Apply(fbL, box, Lower(box, call))
            /\ box' = box
Next == \E call \in Calls : Do(call)
Spec == Init /\ [][Next]_<<box, fbA, fbL>>

NativeEqualsDefault == fbA = fbL
OnlyInsideBox == DOMAIN fbA \subseteq PointsOf(box)
=============================================================================
