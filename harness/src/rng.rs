//! Small deterministic PRNG (splitmix64); all random choices derive from VERIF_SEED.

#[derive(Clone)]
pub struct Rng(u64);

impl Rng {
    pub fn new(seed: u64) -> Self {
        Rng(seed.wrapping_mul(0x9E37_79B9_7F4A_7C15) ^ 0xD1B5_4A32_D192_ED03)
    }
    pub fn next_u64(&mut self) -> u64 {
        self.0 = self.0.wrapping_add(0x9E37_79B9_7F4A_7C15);
        let mut z = self.0;
        z = (z ^ (z >> 30)).wrapping_mul(0xBF58_476D_1CE4_E5B9);
        z = (z ^ (z >> 27)).wrapping_mul(0x94D0_49BB_1331_11EB);
        z ^ (z >> 31)
    }
    pub fn u32(&mut self) -> u32 {
        (self.next_u64() >> 32) as u32
    }
    /// uniform in lo..=hi
    pub fn range(&mut self, lo: i64, hi: i64) -> i64 {
        debug_assert!(lo <= hi);
        let span = (hi - lo + 1) as u64;
        lo + (self.next_u64() % span) as i64
    }
    pub fn i32(&mut self, lo: i32, hi: i32) -> i32 {
        self.range(lo as i64, hi as i64) as i32
    }
    pub fn u32r(&mut self, lo: u32, hi: u32) -> u32 {
        self.range(lo as i64, hi as i64) as u32
    }
    pub fn usize(&mut self, lo: usize, hi: usize) -> usize {
        self.range(lo as i64, hi as i64) as usize
    }
    pub fn bool(&mut self) -> bool {
        self.next_u64() & 1 == 1
    }
    pub fn chance(&mut self, num: u32, den: u32) -> bool {
        (self.next_u64() % den as u64) < num as u64
    }
    pub fn pick<'a, T>(&mut self, xs: &'a [T]) -> &'a T {
        &xs[self.usize(0, xs.len() - 1)]
    }
}
