CONSTANTS
  R = 9
  RT = 6
  WMax = 6
  Broken = FALSE
  Gen = TRUE
SPECIFICATION Spec
INVARIANTS ThinCountsDown ThinErrorRange ThinErrIsCross ThinStepOK ThinDistOK ThinEndOK ThickRemBound ThickPrefixOK ThickEndOK ThickW1IsThin ThickInsideStyledBox ExtentsParallel
CHECK_DEADLOCK FALSE
