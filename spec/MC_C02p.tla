------------------------------- MODULE MC_C02p ------------------------------
(* (M) for C02 / C07 / C01, thick polylines: the TRANSCRIBED scanline renderer  *)
(* of polyline/styled.rs (EGThick: line joins from Line::extents and the       *)
(* rounded intersections, thick segments, Bresenham intersections of cap and   *)
(* edge lines with a scanline, merging of touching scanlines) as a machine      *)
(* that renders ONE ROW PER STEP, run side by side for the vertices v and for   *)
(* v moved by D.                                                               *)
(*   RowInsideBox      every scanline lies inside the transcribed styled        *)
(*                     bounding box (C02; the shape of defect D19: a segment    *)
(*                     whose start join collapsed is drawn along its right      *)
(*                     edge).  PreD19 = TRUE (edges_bounding_box before the     *)
(*                     repair) is the negative control.                         *)
(*   Equivariant       the rows of the moved polyline are the moved rows, the   *)
(*                     box is the moved box (C07 for the whole pipeline, not    *)
(*                     only the join intersection of MC_C07)                    *)
(*   RowsDisjointOrdered  scanlines of one row are non-empty (the call          *)
(*                     sequence draw_thick makes; overlapping scanlines of      *)
(*                     different segments are legal and paint the same colour)  *)
EXTENDS EGThick, TLC
CONSTANTS G, Ws, PreD19, D, NV
VARIABLES v, w, segs, box, segs2, box2, y, row, row2

DQuick == <<-7, 5>>
Pts == { <<x, yy>> : x \in 0..G, yy \in 0..G }
Mv(p) == <<p[1] + D[1], p[2] + D[2]>>
\* first vertices (cfg of the control: FirstPts <- OnlyCorner, to reach the 6x6 grid of the D19 witness quickly)
FirstPts == Pts
OnlyCorner == {<<0, G>>}
Init == /\ v \in { f \in [1..NV -> Pts] : f[1] \in FirstPts } /\ w \in Ws
        /\ segs = SegmentsT(v, w) /\ box = PolyBoxOfSegs(segs, PreD19)
        /\ segs2 = SegmentsT([k \in 1..NV |-> Mv(v[k])], w) /\ box2 = PolyBoxOfSegs(segs2, PreD19)
        /\ y = box[2] /\ row = <<>> /\ row2 = <<>>
Step == /\ y < box[2] + box[4]
        /\ row' = RowScanlinesT(segs, y) /\ row2' = RowScanlinesT(segs2, y + D[2])
        /\ y' = y + 1 /\ UNCHANGED <<v, w, segs, box, segs2, box2>>
Next == Step
Spec == Init /\ [][Next]_<<v, w, segs, box, segs2, box2, y, row, row2>>

RowInsideBox == \A k \in 1..Len(row) : box[1] <= row[k][1] /\ row[k][2] <= box[1] + box[3]
RowsNonEmpty == \A k \in 1..Len(row) : row[k][1] < row[k][2]
Equivariant == /\ box2 = <<box[1] + D[1], box[2] + D[2], box[3], box[4]>>
               /\ row2 = [k \in 1..Len(row) |-> <<row[k][1] + D[1], row[k][2] + D[1]>>]
\* the rows next to the box are empty: the box does not cut the stroke (design-level remark, not a listed property)
NothingAboveBelow == RowScanlinesT(segs, box[2] - 1) = <<>> /\ RowScanlinesT(segs, box[2] + box[4]) = <<>>
=============================================================================
