------------------------------- MODULE MC_C14 ------------------------------
(* (M) for C14.  The transcribed renderer of EGFont (StrGlyphMapping::chars / *)
(* index, MonoFont::glyph, line_elements, MonoFontDrawTarget colour modes,    *)
(* decorations) is explored as a machine, one action per loop body / branch:  *)
(*   Start -> Arm -> (Char | Spacing)* -> Done -> Strike -> Underline         *)
(* over small abstract fonts (atlases of RowsS rows of GPRs glyphs, possibly  *)
(* with unused pixel columns, possibly shorter than the mapping; mappings     *)
(* with ranges, duplicates and misses; replacement indices inside and outside *)
(* the atlas), all strings over Alphabet up to MaxLen and all colour /        *)
(* decoration modes.  When a line is complete the picture is judged by the    *)
(* property-level predicates of P_C14, i.e. (M) relates the transcription to  *)
(* the abstract reading.  Every font of the domain is also printed as a (G)   *)
(* case: the recorder builds the same MonoFont and draws the same lines.      *)
(* The 14 mapping strings of the library (EGFontMappings, generated from      *)
(* mapping.rs) are checked at constant level.                                 *)
EXTENDS P_C14, EGFontMappings, Json, SequencesExt
CONSTANTS CWs, CHs, Ss, GPRs, RowsS, Extras, MapIds, Repls, Alphabet, MaxLen, StyleSet, Gen, Strict
VARIABLES f, job, ds

\* mappings of the abstract fonts: 97.. = a..; 0 = NUL
Mappings == <<
  <<97, 98, 99>>,                 \* 1  plain
  <<0, 97, 99>>,                  \* 2  one range
  <<97, 0, 98, 100, 101>>,        \* 3  char, range, char (5 glyphs)
  <<98, 97, 98>>,                 \* 4  duplicate character
  <<0, 97, 98, 0, 97, 99>>,       \* 5  overlapping ranges
  <<>>,                           \* 6  empty: everything is replaced
  <<97, 0, 98>>,                  \* 7  ill-formed: range without end (transcription only)
  <<0, 99, 97, 98>> >>            \* 8  ill-formed: reversed range (transcription only)

Bit(x, y) == ((5 * x + 3 * y + x * y + (x \div 2) * (y + 1)) % 4) \in {0, 3}
ByteOf(b, y, aw) ==
  LET v(k) == IF 8 * (b - 1) + k < aw /\ Bit(8 * (b - 1) + k, y) THEN 2 ^ (7 - k) ELSE 0
  IN v(0) + v(1) + v(2) + v(3) + v(4) + v(5) + v(6) + v(7)
AlphaSeq == SetToSeq(Alphabet)

MkFont(c) ==
  LET aw == c.gpr * c.cw + c.extra
      ah == c.rows * c.ch
      m  == Mappings[c.mi]
      wf == WellFormedMapping(m)
  IN [cw |-> c.cw, ch |-> c.ch, s |-> c.s, bl |-> c.ch - 1,
      ul |-> <<c.ch, 1>>, st |-> <<c.ch \div 2, 1>>,
      aw |-> aw, ah |-> ah,
      atlas |-> [y \in 1..ah |-> [b \in 1..((aw + 7) \div 8) |-> ByteOf(b, y - 1, aw)]],
      map |-> m, repl |-> c.repl,
      builtin |-> 0, name |-> "mc", wf |-> wf, exp |-> IF wf THEN Expand(m) ELSE <<>>,
      probes |-> [k \in 1..Len(AlphaSeq) |-> <<AlphaSeq[k], IndexT(m, c.repl, AlphaSeq[k])>>]]

Configs == [cw : CWs, ch : CHs, s : Ss, gpr : GPRs, rows : RowsS, extra : Extras, mi : MapIds, repl : Repls]
Strings == UNION { [1..k -> Alphabet] : k \in 0..MaxLen }
\* colours: text 1, background 2, custom underline 3, custom strikethrough 4
StylesFull == [tc : {NoCol, 1}, bg : {NoCol, 2}, ulm : {0, 1, 2}, ulc : {3}, stm : {0, 1, 2}, stc : {4}]
StylesQuick == { s \in StylesFull : s.stm # 1 }
Styles == IF StyleSet = "full" THEN StylesFull ELSE StylesQuick
Pos == <<1, -1>>

GenDesc(c, fn) ==
  [k |-> "mc", cw |-> fn.cw, ch |-> fn.ch, s |-> fn.s, bl |-> fn.bl, ul |-> fn.ul, st |-> fn.st,
   aw |-> fn.aw, ah |-> fn.ah, atlas |-> fn.atlas, map |-> fn.map, repl |-> fn.repl,
   alphabet |-> AlphaSeq, maxlen |-> MaxLen, pos |-> Pos,
   styles |-> SetToSeq({ <<s.tc, s.bg, s.ulm, s.ulc, s.stm, s.stc>> : s \in Styles })]

Init == \E c \in Configs :
          /\ f = MkFont(c)
          /\ job = [on |-> FALSE]
          /\ ds = [phase |-> "idle"]
          /\ (Gen => PrintT("GEN " \o ToJson(GenDesc(c, f))))

Start == /\ ~job.on
         /\ \E chars \in Strings, sty \in Styles :
              /\ job' = [on |-> TRUE, chars |-> chars, sty |-> sty]
              /\ ds' = DSInit(f, Pos, 0, EmptyPic)
         /\ UNCHANGED f
Take(a) == /\ job.on /\ ~DSDone(ds)
           /\ DSAction(f, job.sty, job.chars, ds) = a
           /\ ds' = DSStep(f, job.sty, job.chars, ds)
           /\ UNCHANGED <<f, job>>
Arm       == Take("Arm")         \* mono_text_style.rs:205 match (text_color, background_color)
Char      == Take("Char")        \* :142-145
Spacing   == Take("Spacing")     \* :147-161
Done      == Take("Done")        \* :162
Strike    == Take("Strike")      \* :118-121
Underline == Take("Underline")   \* :123-126
Next == Start \/ Arm \/ Char \/ Spacing \/ Done \/ Strike \/ Underline
Spec == Init /\ [][Next]_<<f, job, ds>>

---------------------------------------------------------------------------
Obs == [chars |-> job.chars, pos |-> Pos, sty |-> job.sty, map |-> RasterOfPic(ds.pic)]
\* input class of the open known finding D12 (mono_text_style.rs:221-226: the transparent arm
\* advances n (cw + s), decorations are s pixels too wide)
InD12 == job.sty.tc = NoCol /\ job.sty.bg = NoCol /\ f.s > 0 /\ Len(job.chars) > 0
\* the completed line is what the abstract reading allows
LineOK == (job.on /\ DSDone(ds)) =>
            LET fl == LineFails(f, Obs) IN
            IF InD12 /\ ~Strict THEN fl \subseteq {"decoration_too_wide"} ELSE fl = {}
\* the picture is a canonical raster (sanity of RasterOfPic)
RasterOK == (job.on /\ DSDone(ds)) => RCanonical(RasterOfPic(ds.pic))
\* chars() / index() against the documented encoding; glyph() against the row-by-row layout
MappingOK == (~job.on /\ f.wf) =>
               /\ CharsT(f.map) = f.exp
               /\ FontFails(f) = {}
GlyphOK == ~job.on =>
             \A k \in 1..Len(f.probes) :
               LET c == f.probes[k][1]  i == f.probes[k][2]  a == GlyphT(f, c) IN
               IF CellInAtlas(f, i) THEN a = Cell(f, i) /\ SubImageDrawn(f, a) ELSE ~SubImageDrawn(f, a)

\* the mapping strings of the library (constant level)
BuiltinCount(name) == IF name = "ASCII" THEN 96 ELSE IF name = "JIS_X0201" THEN 160 ELSE 192
ASSUME \A i \in 1..Len(BuiltinMappings) :
         LET m == BuiltinMappings[i].map  e == Expand(m) IN
         /\ WellFormedMapping(m)
         /\ Cardinality({ e[j] : j \in 1..Len(e) }) = Len(e)
         /\ Len(e) = BuiltinCount(BuiltinMappings[i].name)
         /\ CharsT(m) = e
         /\ IndexIn(e, BuiltinReplacementIndex, 63) = BuiltinReplacementIndex
=============================================================================
