#!/usr/bin/env python3
"""Markdown table of the seeded changes (seeded/*/meta.json) for DESIGN.md section 0.6."""
import glob, json, os, re
ROOT = os.path.dirname(os.path.dirname(os.path.abspath(__file__)))
# what had to be strengthened before the change was detected (empty = detected by the checks as they were)
STRENGTHENED = {
    "C12-m2": "missed at first: colours were compared through their raw value only; the recorder now records the library's `==` for colour→raw→colour",
    "C20-m1": "missed at first: points were drawn in [−3, 67]² only; far-away points added",
    "C08-m2": "domain extended on reading the seeder's report, before the first run (custom fonts with spacing)",
    "C08-m3": "domain extended on reading the seeder's report, before the first run (indices around usize::MAX / n)",
    "C06-r2-m1": "domain extended before the first run: styles whose stroke and fill colour are EQUAL",
    "C06-r2-m2": "domain extended before the first run: extreme aspect ratios × wide strokes",
    "C03-r2-m1": "domain extended before the first run: areas with ≥ 2³² points (prefix of the pixel stream) and per-operation panic verdict",
    "C03-r2-m3": "detected by C16 after far-apart rectangle pairs (> 2³¹) were added; C03 itself does not go that far",
    "C01-r2-m1": "catalogue extended before the first run: degenerate triangles × all narrow styles",
    "C01-r2-m2": "catalogue extended before the first run: three styles per vertex shape, axis-aligned lines × all narrow styles",
    "C05-r2-m1": "domain extended before the first run: diameters 41..101 with start angles outside [0°, 360°)",
    "C05-r2-m3": "a panic in a band of sizes: reported by C08 (and would now be a `library_call_panicked` verdict in C05 if the size were in its domain)",
    "C18-r2-m1": "same change as C05-r2-m3 (another seeder): reported by C08; 300×200 is beyond what the band arithmetic of C18 can evaluate in 32-bit TLC integers",
    "C18-r2-m2": "domain extended before the first run: sweeps of exactly ±360° from start angles outside 0..360 at d ≥ 61",
    "C18-r2-m3": "detected by C05 after very far contains() probes were added (ellipse/rect/rrect/triangle only)",
    "C02-r2-m1": "missed at first: C02's own string list had no whitespace-only line; added",
    "C08-r2-m1": "domain extended before the first run: `StrokeStyle::Dotted` (C02/C04/C07/C08 now draw dotted strokes too)",
    "C08-r2-m3": "a panic of `size_hint()` after an overshooting `nth`: reported by C11 since panics are verdicts there",
    "C04-r2-m1": "catalogue extended before the first run: custom fonts with `character_spacing > 0`",
    "C04-r2-m2": "catalogue extended before the first run: dotted strokes",
    "C07-r2-m1": "missed at first: no dotted rectangle with round dots met a far offset (> 2²⁴); class added",
    "C07-r2-m2": "domain extended before the first run: nearly parallel joints at negative coordinates",
    "C07-r2-m3": "domain extended before the first run: offsets far from BOTH axes (this also exposed the genuine defect D21)",
    "C09-r2-m1": "missed at first: no huge image sizes; `ImageRaw::new` is now probed on sizes up to u32::MAX² (this exposed the genuine defect D23)",
    "C09-r2-m2": "missed at first: images were only drawn on unclipped targets, so nobody called `nth` on the colour iterator; C09 (and C10 for `as_image`) now draw through `.clipped()` with clips that cut several rows (this exposed the genuine defect D22)",
    "C09-r2-m3": "detected as a panic verdict of the far `pixel()` probes",
    "C10-r2-m1": "the same `nth` override as C09-r2-m2 from another seeder: same strengthening",
    "C10-r2-m3": "marginal at first (2 cases): fill_contiguous streams now also end at n−1 and at random positions, half of the areas lie completely inside",
    "C12-r2-m1": "missed at first: raw rows stopped at 2^bits; `from_u32` is now probed above the raw type's range (only the low bits count, as documented)",
    "C14-r2-m1": "missed at first: no line with CR; `Trace_C14` now models the one-trailing-CR rule of `Text` and the recorder draws lines ending in 1–4 CRs",
    "C15-r2-m1": "missed at first: every target was unbounded; clause (g) added: targets reporting tiny / empty bounding boxes return the same position and paint the same pixels inside",
    "C17-r2-m1": "domain extended before the first run: Inside / Outside stroke alignment on a third of the medium lines",
    "C17-r2-m2": "domain extended before the first run: very long lines (count and end points only)",
    "C17-r2-m3": "detected by C07 after single stroked lines at offsets up to 2·10⁹ were added",
    "C19-r2-m2": "reported by C08 at first; C19 now has display-scale triangles of its own",
    "C09-r3-m1": "missed at first: the draining target pulled colours with next() only; it now rotates between next(), internal iteration (for_each / fold) and mixtures (k x width colours with next(), the rest by fold)",
    "C09-r3-m2": "missed at first: no image beyond 2^32 pixels; one 65536 x 65540 image (lazily zeroed memory) with a sub-image behind raw index 2^32 added",
    "C09-r3-m3": "same strengthening as C09-r3-m2 (the whole giant image drawn on a target that stops reading)",
    "C10-r3-m1": "missed at first: same as C09-r3-m1 (as_image() drawn on the draining target)",
    "C11-r3-m1": "missed at first: the remaining items were only observed with next()/nth()/size_hint(); scripts now end with count(), last() or fold(), also on drained iterators and after an nth() beyond the end",
    "C14-r3-m1": "missed at first: styles were built by writing the public fields; they are now built along six routes (builder with the font first / last / in the middle, builder from another style with the font replaced, MonoTextStyle::new, fields)",
    "C14-r3-m3": "missed at first: custom mappings never started with the ASCII range and never mapped C0 control characters; a third of them do now",
    "C20-r3-m2": "missed at first: set_pixel was only called with points on the display; off-display points (incl. those whose linear index is valid) added; the next observation sees the phantom cell",
    "C20-r3-m3": "missed at first: no clear() in the histories; clear (also twice with the same colour), whole-display fill_solid and fill_contiguous with short / exact / long streams added (EGMock!FillSolidFast, proved equal to the stepped machine by MC_C20)",
    "C06-r3-m1": "missed at first: every target reported a huge bounding box; C06 now also draws on five small / offset / empty window targets and demands the reference picture inside each window",
    "C06-r3-m3": "missed at first: stroke widths stopped at 30; inside strokes up to u32::MAX added (recorded with an equivalent width the 32-bit checker can read)",
    "C06-r3-m2": "detected by C01 (native vs pixels() path on small boxes) before C06 had window targets; C06 detects it too now",
    "C02-r3-m3": "missed at first: no zero-width / invisible code points in the strings; seven exotic strings added to C02 and the shared catalogue",
    "C02-r3-m1": "catalogue extended before the first run: closed polylines (first vertex = last vertex)",
    "C02-r3-m2": "catalogue extended before the first run: dotted rectangles 1 or 2 pixels thin, odd and even lengths",
    "C13-r3-m2": "C13 extended before the first run: the named web colour tables (WebColors) of every RGB type against the Rgb888 table",
    "C03-r3-m1": "missed at first: huge areas only went through the trait defaults; one fill_contiguous of a 70 000 wide area through a clipped target with a constant-time-nth colour stream added (colour = f(row, column), predicted without forming the 2^32 index)",
    "C16-r3-m1": "missed at first (by C05, C16 has no iterator clause): points() was observed with next() only; count / last / nth / size_hint and MIXED consumption (k x next(), then count / last / fold, skip(k).count()) added to C05 and to the stroke pixels of C17",
    "C16-r3-m2": "missed at first: Rectangle::contains resolved to the inherent method everywhere; C05 now also probes through the ContainsPoint trait and demands agreement",
    "C16-r3-m3": "detected by C05's nth walk on rectangles once the iterator protocol existed",
    "C08-r3-m1": "this change re-introduces D22; detected by MC_C03's clip layer <1,1,2,0> replayed into the code and by C09's clipped draws",
    "C08-r3-m2": "missed at first: draw_sub_image was never called directly; C08 now calls it with ten out-of-range areas (C14 sees it too through glyph indices far beyond the atlas)",
    "C17-r3-m1": "missed at first: C17 never set a dotted stroke style (documented as rectangle-only); a sixth of the medium lines have it now",
    "C17-r3-m3": "missed at first: stroke pixels were pulled with next() only; iterator protocol with mixed consumption added",
    "C17-r3-m2": "C17's long lines got nth() probes before the first run",
    "C12-r3-m1": "a load() change: reported by C11 (layout of every load), C12 does not load",
    "C17-m1": "domain extended before the first run: long wide lines beyond w·len = 23 170 (the old overflow bound of the library)",
}
rows = []
for f in sorted(glob.glob(os.path.join(ROOT, "seeded", "*", "meta.json"))):
    m = json.load(open(f))
    det = ", ".join(sorted(set(x.split()[1] for x in m["detected_by"]))) or "**not detected**"
    what = re.sub(r"\s+", " ", m.get("summary", ""))[:150]
    rows.append("| %s | %s | %s | %s | %s |" % (m["id"], m["breaks_property"], what.replace("|", "/"), det, STRENGTHENED.get(m["id"], "")))
print("| seeded change | breaks | what was changed (seeder's summary, shortened) | detected by (quick tier) | note |")
print("|---|---|---|---|---|")
print("\n".join(rows))
print()
print("%d confirmed changes, %d detected." % (len(rows), sum(1 for r in rows if "not detected" not in r)))
