CONSTANTS
  MaxLen = 4
  Mutant = "swallow"
SPECIFICATION Spec
INVARIANT Protocol
CHECK_DEADLOCK FALSE
