CONSTANTS
  Depth = 2
  Gen = FALSE
  Mutant = FALSE
SPECIFICATION Spec
INVARIANTS EffectMatchesLowering ClipRespected BoxesDocumented UnsignedOK
CHECK_DEADLOCK FALSE
