------------------------------ MODULE Trace_C20 -----------------------------
(* (T) for C20: every recorded operation on the real MockDisplay is matched   *)
(* against one step of the EGMock machine (SIZE = 64).  State of the monitor: *)
(*   d, rf   the model's display under test and reference display             *)
(*   bad     a verdict has been printed for the current case                  *)
(* For every event the spec computes the successor state and the predicted    *)
(* outcome itself, compares them with the recorded observation by the         *)
(* property-level predicates of P_C20 and prints a VERDICT on a mismatch; it   *)
(* continues with its own predicted state and resets at the next `case`.      *)
(* Exact comparisons that the property text does not demand (panic kind, diff *)
(* colours, zero rectangle, the character of a colour) are DRIFT lines.       *)
EXTENDS TraceBase, P_C20
VARIABLES l, d, rf, bad
vars == <<l, d, rf, bad>>

Drift(e, what, detail) == PrintT("DRIFT " \o ToJson([case |-> e.case, what |-> what, detail |-> detail]))
DriftUnless(cond, e, what, detail) == IF cond \/ bad THEN TRUE ELSE Drift(e, what, detail)
\* at most one verdict per case: later deviations of the same case follow from the first
Judge(e, codes, detail) ==
  /\ IF bad \/ codes = {} THEN TRUE ELSE Verdict(e.case, codes, detail)
  /\ bad' = (bad \/ codes # {})

\* vacuity statistics (TLC registers; one worker)
NStat == 10
Bump(i) == TLCSet(i, TLCGet(i) + 1)
BumpIf(c, i) == IF c THEN Bump(i) ELSE TRUE

Init == /\ l = 1 /\ d = New /\ rf = New /\ bad = FALSE
        /\ \A i \in 1..NStat : TLCSet(i, 0)

StepCase(e) ==
  /\ e.ev = "case"
  /\ d' = New /\ rf' = New /\ bad' = FALSE

\* draw_iter(px) / fill_solid(area, c): predicted outcome and successor by the machine
DrawLike(e, px) ==
  LET r == DrawIter(d, px) IN
  /\ Judge(e, DrawFails(d, px, e.out), [ev |-> e.ev, out |-> e.out, predicted |-> r.out, at |-> r.at])
  /\ DriftUnless(e.out = r.out, e, "panic_kind", [out |-> e.out, predicted |-> r.out])
  /\ BumpIf(r.out = OutOk /\ e.out = OutOk, 1)
  /\ BumpIf(r.out = OutOob /\ e.out # OutOk, 2)
  /\ BumpIf(r.out = OutTwice /\ e.out # OutOk, 3)
  /\ BumpIf(r.out # OutOk /\ r.at > 1, 4)               \* pixels before the panicking one stay applied
  /\ d' = r.st /\ rf' = rf
StepDraw(e) == e.ev = "draw" /\ DrawLike(e, e.px)
\* fill_solid / clear: large areas through the set form of the machine (EGMock!FillSolidFast)
StepFill(e) ==
  /\ e.ev = "fill"
  /\ IF e.area[3] * e.area[4] <= 64 THEN DrawLike(e, FillPixels(e.area, e.c))
     ELSE LET r == FillSolidFast(d, e.area, e.c) IN
          /\ Judge(e, IF (e.out # OutOk) = (r.out # OutOk) THEN {} ELSE IF e.out # OutOk THEN {"panic_unexpected"} ELSE {"panic_missing"},
                   [ev |-> e.ev, area |-> e.area, out |-> e.out, predicted |-> r.out, at |-> r.at])
          /\ DriftUnless(e.out = r.out, e, "panic_kind", [out |-> e.out, predicted |-> r.out])
          /\ BumpIf(r.out = OutOk /\ e.out = OutOk, 1)
          /\ BumpIf(r.out = OutTwice /\ e.out # OutOk, 3)
          /\ d' = r.st /\ rf' = rf
\* fill_contiguous: the row-major points of the area zipped with the colour stream (the shorter one ends it)
FcPixels(area, cs) ==
  [i \in 1..(IF Len(cs) <= area[3] * area[4] THEN Len(cs) ELSE area[3] * area[4]) |->
     <<area[1] + ((i - 1) % area[3]), area[2] + ((i - 1) \div area[3]), cs[i]>>]
StepFillC(e) == e.ev = "fillc" /\ DrawLike(e, FcPixels(e.area, e.cs))

\* set_pixel: inside the display it must not panic; for a point that is not on the display the property only
\* says that no cell is touched (the next `obs` sees a phantom cell) - that set_pixel panics there is a DRIFT fact
StepSetPixel(e) ==
  /\ e.ev = "set_pixel"
  /\ LET r == SetPixel(d, e.p, e.c) IN
     /\ Judge(e, IF ~InDisplay(e.p) \/ e.out = OutOk THEN {} ELSE {"panic_unexpected"}, [ev |-> e.ev, p |-> e.p, out |-> e.out])
     /\ DriftUnless(InDisplay(e.p) \/ e.out # OutOk, e, "set_pixel_outside_did_not_panic", [p |-> e.p])
     /\ d' = r.st /\ rf' = rf

StepFlag(e) ==
  /\ e.ev = "flag"
  /\ e.which \in {"ovr", "oob"} /\ e.v \in {0, 1}
  /\ d' = IF e.which = "ovr" THEN SetAllowOverdraw(d, e.v = 1) ELSE SetAllowOutOfBounds(d, e.v = 1)
  /\ UNCHANGED <<rf, bad>>
StepSnap(e) == e.ev = "snap" /\ rf' = d /\ UNCHANGED <<d, bad>>       \* reference := display.clone()
StepSwap(e) == e.ev = "swap" /\ d' = rf /\ rf' = d /\ UNCHANGED bad   \* mem::swap(display, reference)

StepObs(e) ==
  /\ e.ev = "obs"
  /\ LET o == [cells |-> CRunsToTriples(e.cells), ref |-> CRunsToTriples(e.ref), aa |-> e.aa, raa |-> e.raa,
               eq |-> e.eq, eqr |-> e.eqr, ne |-> e.ne, diff |-> CRunsToTriples(e.diff), outside |-> e.outside,
               daa |-> e.daa, sw |-> CRunsToTriples(e.sw), swaa |-> e.swaa, mp |-> CRunsToTriples(e.mp), mpaa |-> e.mpaa]
         agree == CellsAgree(d.cells, rf.cells)
     IN /\ Judge(e, ObsFails(d, rf, o), [ev |-> "obs", aa |-> e.aa, predicted_aa |-> AffectedArea(d), eq |-> e.eq,
                                         predicted_eq |-> agree, ncells |-> Cardinality(DOMAIN d.cells),
                                         observed_ncells |-> Cardinality(o.cells), ndiff |-> Cardinality(o.diff)])
        /\ DriftUnless(o.diff = Triples(Diff(d, rf)), e, "diff_cells", [ndiff |-> Cardinality(o.diff)])
        /\ DriftUnless(e.aa = AffectedArea(d), e, "affected_area_exact", [aa |-> e.aa])
        /\ BumpIf(agree /\ DOMAIN d.cells # {}, 5)
        /\ BumpIf(~agree, 6)
  /\ UNCHANGED <<d, rf>>

\* an observer (get_pixel / affected_area / eq / diff / Debug) panicked: none of the property's
\* statements about its result can hold
StepObsPanic(e) ==
  /\ e.ev = "obs_panic"
  /\ Judge(e, {"observer_panicked"}, [what |-> e.what])
  /\ UNCHANGED <<d, rf>>

\* Debug(display) -> Lines -> from_pattern, at the end of a history
StepDbgBack(e) ==
  /\ e.ev = "dbg_back"
  /\ LET T == Triples(d.cells)
         txt == [n |-> e.n, w |-> e.w, chars |-> CRunsToTriples(e.chars)]
         want == DebugText(e.ct, d.cells)
     IN /\ Judge(e, DebugBackFails(e.ct, T, e.back_out, CRunsToTriples(e.back)),
                 [ev |-> "dbg_back", ct |-> e.ct, back_out |-> e.back_out, ncells |-> Cardinality(T)])
        /\ DriftUnless(txt = want, e, "debug_text", [n |-> e.n])
        /\ BumpIf(AllHaveChar(e.ct, T) /\ T # {}, 7)
        /\ BumpIf(~AllHaveChar(e.ct, T), 8)
  /\ UNCHANGED <<d, rf>>

\* from_pattern(rows) -> cells, Debug -> from_pattern again; independent of the machine state
StepPattern(e) ==
  /\ e.ev = "pattern"
  /\ LET t == [n |-> e.n, w |-> e.w, chars |-> CRunsToTriples(e.chars)]
         cells == CRunsToTriples(e.cells)
         dbg == CRunsToTriples(e.dbg)
         fp == FromPattern(e.ct, t)
     IN /\ Judge(e, PatternFails(e.ct, t, e.out, dbg)
                    \cup (IF e.out = OutOk THEN DebugBackFails(e.ct, cells, e.back_out, CRunsToTriples(e.back)) ELSE {}),
                 [ev |-> "pattern", ct |-> e.ct, n |-> e.n, out |-> e.out, back_out |-> e.back_out])
        /\ DriftUnless(fp.out = e.out /\ (e.out = OutOk => fp.cells = cells), e, "from_pattern_cells", [ct |-> e.ct, n |-> e.n])
        /\ BumpIf(ValidPattern(e.ct, t) /\ t.chars # {}, 9)
        /\ BumpIf(~ValidPattern(e.ct, t), 10)
  /\ UNCHANGED <<d, rf>>

StepFresh(e) ==
  /\ e.ev = "fresh"
  /\ Judge(e, FreshFails(e), [ev |-> "fresh", how |-> e.how, again_out |-> e.again_out, oob_out |-> e.oob_out, dbg_flags_same |-> e.dbg_flags_same])
  /\ UNCHANGED <<d, rf>>

Next == /\ l <= NRec
        /\ LET e == Rec[l] IN
           \/ StepCase(e) \/ StepDraw(e) \/ StepFill(e) \/ StepFillC(e) \/ StepSetPixel(e) \/ StepFlag(e) \/ StepSnap(e)
           \/ StepSwap(e) \/ StepObs(e) \/ StepObsPanic(e) \/ StepDbgBack(e) \/ StepPattern(e) \/ StepFresh(e)
        /\ l' = l + 1
Spec == Init /\ [][Next]_vars

Done == /\ PrintT("STAT " \o ToJson([draws_ok |-> TLCGet(1), panics_out_of_bounds |-> TLCGet(2),
                                     panics_drawn_twice |-> TLCGet(3), panics_after_applied_pixels |-> TLCGet(4),
                                     eq_true_nonempty |-> TLCGet(5), eq_false |-> TLCGet(6),
                                     debug_roundtrips |-> TLCGet(7), debug_roundtrip_exempt |-> TLCGet(8),
                                     patterns_valid |-> TLCGet(9), patterns_invalid |-> TLCGet(10)]))
        /\ IF TLCGet("stats").diameter = NRec + 1
           THEN PrintT("TRACE-ACCEPTED " \o ToString(NRec))
           ELSE PrintT("TRACE-REJECTED at line " \o ToString(TLCGet("stats").diameter)) /\ FALSE
=============================================================================
