CONSTANTS
  GT = 5
  GP = 4
  GL = 3
  NV = 4
  Gen = TRUE
SPECIFICATION Spec
INVARIANTS TriRowsInOrder TriRowOK TriEndOK TriFormsAgree TriAreaAgree TriEdgesInFill PairOK PolyPrefixOK PolyNoStutter PolyEndOK
CHECK_DEADLOCK FALSE
