CONSTANTS
  G = 4
  Ws = {2, 3, 4}
  PreD19 = FALSE
  D <- DQuick
  NV = 3
SPECIFICATION Spec
INVARIANTS RowInsideBox RowsNonEmpty Equivariant
CHECK_DEADLOCK FALSE
