CONSTANTS
  SIZE = 64
SPECIFICATION Spec
POSTCONDITION Done
CHECK_DEADLOCK FALSE
