------------------------------- MODULE P_C19 -------------------------------
(* Property C19 — triangles cover their interior and polylines are the union  *)
(* of their segments.  Property-level predicates over (input, OBSERVED point  *)
(* sets / sequences); each returns the set of failure codes (empty =          *)
(* allowed).  MC_C19 feeds them the transcribed machines of EGTriangle /      *)
(* EGLine, Trace_C19 feeds them what the real library yielded.                *)
(* Point sets are row runs <<y, x0, x1>> (EGGeom), sequences are <<x, y>>.    *)
(*                                                                            *)
(* Readings fixed in DESIGN.md §6 C19:                                        *)
(*  - cover:   every lattice point of the closed mathematical triangle is in  *)
(*             points() (non-zero area);                                      *)
(*  - outside: every point of points() is in the closed triangle or has       *)
(*             Euclidean distance <= 1 to one of the three edge SEGMENTS;     *)
(*  - order:   points() is the same set for all 6 vertex orders;              *)
(*  - pairs (a,b,c), (a,b,d), c and d strictly on opposite sides of ab: every *)
(*             lattice point of the closed quadrilateral is in T1 u T2, and   *)
(*             the line of the shared edge rasterised from its (y,x)-smaller  *)
(*             end is in both;                                                *)
(*  - outline: stroke width 1, no fill: the drawn set is L1 u L2 u L3, each   *)
(*             Li = Line between two vertices in ONE OF ITS TWO DIRECTIONS    *)
(*             (existential over the 8 choices; the direction is not part of  *)
(*             the property).  The edge lines are the real Line::points().    *)
(*  - polyline width 1: points() is, as a sequence, the concatenation of the  *)
(*             segment lines with the first point of every segment after the  *)
(*             first dropped; < 2 vertices => empty; the drawn set is the     *)
(*             union of the segment lines.                                    *)
(*  - degenerate (colinear / coincident) triangles: order and outline only.   *)
EXTENDS EGTriangle

\* the 6 vertex orders, in the order the recorder uses
Perms == << <<1, 2, 3>>, <<1, 3, 2>>, <<2, 1, 3>>, <<2, 3, 1>>, <<3, 1, 2>>, <<3, 2, 1>> >>
Perm(t, k) == <<t[Perms[k][1]], t[Perms[k][2]], t[Perms[k][3]]>>

\* T has exactly one run per row of the bounding box, in order (what a scanline fill produces)
RowsAligned(T, bb) == Len(T) = bb[4] /\ \A i \in 1..bb[4] : T[i][1] = bb[2] + i - 1

\* every lattice point of the closed triangle t is in the run set T
CoverOK(t, T) ==
  LET bb == TriBox(t) IN
  IF RowsAligned(T, bb)
  THEN \A i \in 1..Len(T) :
         LET iv == TriRowInterval(t, T[i][1]) IN iv[1] > iv[2] \/ (T[i][2] <= iv[1] /\ iv[2] <= T[i][3])
  ELSE LET S == RunsToSet(T) IN
       \A y \in bb[2]..(bb[2] + bb[4] - 1) :
         LET iv == TriRowInterval(t, y) IN \A x \in iv[1]..iv[2] : <<x, y>> \in S
\* every point of T is in the closed triangle or within one pixel of an edge segment
OutsideOK(t, T) ==
  \A i \in 1..Len(T) :
    LET y == T[i][1]  iv == TriRowInterval(t, y) IN
    \A x \in (T[i][2]..Min(T[i][3], iv[1] - 1)) \cup (Max(T[i][2], iv[2] + 1)..T[i][3]) : NearEdge(t, <<x, y>>)

\* t = <<a, b, c>>; ts = the run sets of points() for the 6 vertex orders (Perms)
TriFillFails(t, ts) ==
       (IF \A k \in 2..6 : SameRunSet(ts[1], ts[k]) THEN {} ELSE {"tri_order"})
  \cup (IF Area2(t) = 0 THEN {}
        ELSE   (IF CoverOK(t, ts[1]) THEN {} ELSE {"tri_cover"})
          \cup (IF OutsideOK(t, ts[1]) THEN {} ELSE {"tri_outside"}))

\* F = the set drawn through a fill-only style (runs), T = points() of the same triangle: the filled triangle IS its
\* point set, whatever stroke alignment the (absent) stroke has
TriStyledFillFails(F, T, code) == IF SameRunSet(T, F) THEN {} ELSE {code}

\* O = the set drawn with stroke width 1 and no fill (runs); L = <<ab, ba, bc, cb, ca, ac>> edge lines (point sequences)
OutlineOK(O, L) ==
  LET OS == RunsToSet(O)
      S(i) == ToSet(L[i]) IN
  \E i \in 0..1, j \in 0..1, k \in 0..1 : OS = S(1 + i) \cup S(3 + j) \cup S(5 + k)
TriOutlineFails(O, L, code) == IF OutlineOK(O, L) THEN {} ELSE {code}

\* q = <<a, b, c, d>>; T1 = points() of (a,b,c), T2 = points() of (a,b,d); Lab / Lba = the shared edge line a->b / b->a
PairFails(q, T1, T2, Lab, Lba) ==
  LET a == q[1]  b == q[2]  c == q[3]  d == q[4]
      t1 == <<a, b, c>>  t2 == <<a, b, d>>
      oc == Orient(a, b, c)  od == Orient(a, b, d)
      x0 == Min(Min(a[1], b[1]), Min(c[1], d[1]))  x1 == Max(Max(a[1], b[1]), Max(c[1], d[1]))
      y0 == Min(Min(a[2], b[2]), Min(c[2], d[2]))  y1 == Max(Max(a[2], b[2]), Max(c[2], d[2]))
      S == RunsToSet(T1) \cup RunsToSet(T2)
      Lsh == IF SortTwoYX(a, b)[1] = a THEN Lab ELSE Lba
  IN IF ~((oc > 0 /\ od < 0) \/ (oc < 0 /\ od > 0)) THEN {}      \* not a pair on opposite sides: nothing is claimed
     ELSE   (IF \A y \in y0..y1 : \A x \in x0..x1 :
                  (InsideTri(t1, <<x, y>>) \/ InsideTri(t2, <<x, y>>)) => <<x, y>> \in S
             THEN {} ELSE {"pair_gap"})
       \cup (IF \A i \in 1..Len(Lsh) : InRuns(T1, Lsh[i]) /\ InRuns(T2, Lsh[i]) THEN {} ELSE {"pair_edge"})

\* concatenation of the segment lines with the first point of every segment after the first dropped
RECURSIVE JoinSegs(_, _)
JoinSegs(segs, i) == IF i > Len(segs) THEN <<>>
                     ELSE (IF segs[i] = <<>> THEN <<>> ELSE Tail(segs[i])) \o JoinSegs(segs, i + 1)
PolyExpected(segs) == IF Len(segs) = 0 THEN <<>> ELSE segs[1] \o JoinSegs(segs, 2)
\* v = vertices; segs[i] = Line(v[i], v[i+1]).points() (translated); pts = Polyline::points();
\* pix = the points of Styled<Polyline>::pixels() for stroke width 1; dm = the set drawn with stroke width 1 (points)
PolyFails(v, segs, pts, pix, dm) ==
  LET exp == IF Len(v) < 2 THEN <<>> ELSE PolyExpected(segs)
      U == UNION { ToSet(segs[i]) : i \in 1..Len(segs) } IN
       (IF Len(v) >= 2 \/ pts = <<>> THEN {} ELSE {"poly_short_not_empty"})
  \cup (IF Len(v) < 2 \/ pts = exp THEN {} ELSE {"poly_points"})
  \cup (IF pix = exp THEN {} ELSE {"poly_pixels"})
  \cup (IF ToSet(dm) = (IF Len(v) < 2 THEN {} ELSE U) THEN {} ELSE {"poly_draw"})
=============================================================================
