CONSTANTS
  SIZE = 3
  MaxDepth = 5
  Gen = FALSE
  GenMod = 1
  Alphabet = "grid"
SPECIFICATION Spec
VIEW DepthView
INVARIANTS FillFastIsFill TypeOK EqIffCellsAgree DiffOK AreaTight ObsOK PatternBack PatternDomain
PROPERTIES StepProp
CHECK_DEADLOCK FALSE
