//! Drawables (styled primitives, images, sub-images, text) from JSON descriptors.
//!
//! descriptor kinds
//!   {"kind":"prim","shape":{..shapes.rs..},"style":{"fill","stroke","w","al"}}
//!   {"kind":"image","w","h","data":[bytes],"pos":[x,y],"sub":[]|[x,y,w,h],"sub2":[]|[x,y,w,h],"center":0|1}
//!   {"kind":"text","s":[code points],"font":"ascii::FONT_6X10","tc":c|-1,"bc":c|-1,
//!    "ul":-1 none|-2 text colour|c,"st":likewise,"al":0 left|1 center|2 right,
//!    "bl":0 top|1 bottom|2 middle|3 alphabetic,"lh":[0 pixels|1 percent, value],"pos":[x,y]}
//! The colour type is chosen by the caller (generic parameter).

use crate::fonts_table::FONTS;
use crate::shapes::*;
use crate::util::*;
use embedded_graphics::{
    image::{Image, ImageDrawable, ImageDrawableExt, ImageRaw},
    mono_font::{MonoFont, MonoTextStyle, MonoTextStyleBuilder},
    prelude::*,
    primitives::Rectangle,
    text::{Alignment, Baseline, DecorationColor, LineHeight, Text, TextStyle, TextStyleBuilder},
    Pixel,
};
use serde_json::{json, Value};

/// Built-in font by name, or a custom copy with non-zero character spacing: "spaced:<built-in name>:<spacing>"
/// (leaked once per distinct name; the harness is a short-lived process).
pub fn font_by_name(name: &str) -> &'static MonoFont<'static> {
    if let Some(rest) = name.strip_prefix("spaced:") {
        use std::collections::HashMap;
        use std::sync::{Mutex, OnceLock};
        static CACHE: OnceLock<Mutex<HashMap<String, &'static MonoFont<'static>>>> = OnceLock::new();
        let mut c = CACHE.get_or_init(|| Mutex::new(HashMap::new())).lock().unwrap();
        if let Some(f) = c.get(name) {
            return f;
        }
        let mut it = rest.rsplitn(2, ':');
        let sp: u32 = it.next().unwrap().parse().expect("spacing");
        let base = font_by_name(it.next().expect("base font"));
        let f: &'static MonoFont<'static> = Box::leak(Box::new(MonoFont { character_spacing: sp, ..*base }));
        c.insert(name.to_string(), f);
        return f;
    }
    FONTS.iter().find(|(n, _)| *n == name).unwrap_or_else(|| panic!("unknown font {}", name)).1
}

pub fn string_of(v: &Value) -> String {
    v.as_array().unwrap().iter().map(|c| char::from_u32(i(c) as u32).unwrap()).collect()
}
pub fn codepoints(s: &str) -> Value {
    Value::Array(s.chars().map(|c| json!(c as u32)).collect())
}

pub fn char_style<C: Col>(d: &Value) -> MonoTextStyle<'static, C> {
    // the same style along three builder routes (font first / font last / a builder made from a style with another
    // font whose font is then replaced), chosen by a hash of the style
    let font = font_by_name(d["font"].as_str().unwrap());
    let opts = |mut b: MonoTextStyleBuilder<'static, C>| {
        if i(&d["tc"]) >= 0 {
            b = b.text_color(C::from_u32(i(&d["tc"]) as u32));
        }
        if i(&d["bc"]) >= 0 {
            b = b.background_color(C::from_u32(i(&d["bc"]) as u32));
        }
        b = match i(&d["ul"]) {
            -1 => b,
            -2 => b.underline(),
            c => b.underline_with_color(C::from_u32(c as u32)),
        };
        b = match i(&d["st"]) {
            -1 => b,
            -2 => b.strikethrough(),
            c => b.strikethrough_with_color(C::from_u32(c as u32)),
        };
        b
    };
    match (i(&d["tc"]) + 3 * i(&d["bc"]) + 5 * i(&d["ul"]) + 7 * i(&d["st"]) + d["font"].as_str().unwrap().len() as i64).rem_euclid(3) {
        1 => opts(MonoTextStyleBuilder::new()).font(font).build(),
        2 => {
            let other = opts(MonoTextStyleBuilder::new().font(&embedded_graphics::mono_font::ascii::FONT_7X13)).build();
            MonoTextStyleBuilder::from(&other).font(font).build()
        }
        _ => opts(MonoTextStyleBuilder::new().font(font)).build(),
    }
}

pub fn text_style(d: &Value) -> TextStyle {
    TextStyleBuilder::new()
        .alignment(match i(&d["al"]) {
            0 => Alignment::Left,
            1 => Alignment::Center,
            _ => Alignment::Right,
        })
        .baseline(match i(&d["bl"]) {
            0 => Baseline::Top,
            1 => Baseline::Bottom,
            2 => Baseline::Middle,
            _ => Baseline::Alphabetic,
        })
        .line_height(if i(&d["lh"][0]) == 0 { LineHeight::Pixels(i(&d["lh"][1]) as u32) } else { LineHeight::Percent(i(&d["lh"][1]) as u32) })
        .build()
}

/// the Text of a text descriptor, constructed along one of several API routes (util::mk_text)
pub fn mk_text_desc<'a, S: Clone>(s: &'a str, d: &Value, cs: S) -> Text<'a, S> {
    let lh = (i(&d["lh"][0]) as u8, i(&d["lh"][1]) as u32);
    let pos = pt_from(&d["pos"]);
    mk_text(s, pos, cs, i(&d["al"]) as u8, i(&d["bl"]) as u8, lh, s.len() + pos.x.unsigned_abs() as usize + i(&d["bl"]) as usize)
}

/// Is every colour of the text style absent (completely transparent)?
pub fn text_transparent(d: &Value) -> bool {
    let tc = i(&d["tc"]);
    let dec = |v: i64| v == -1 || (v == -2 && tc < 0);
    tc < 0 && i(&d["bc"]) < 0 && dec(i(&d["ul"])) && dec(i(&d["st"]))
}

pub struct DrawOut {
    /// text: the returned next position
    pub next: Option<Point>,
}

/// Bounds needed to draw raw images of colour type C.
pub trait ImgCol: Col + From<<Self as PixelColor>::Raw> {}
impl<C: Col + From<<C as PixelColor>::Raw>> ImgCol for C {}

macro_rules! with_image {
    ($d:expr, $C:ty, |$img:ident, $pos:ident| $body:expr) => {{
        let d: &Value = $d;
        let data: Vec<u8> = d["data"].as_array().unwrap().iter().map(|b| i(b) as u8).collect();
        let size = Size::new(i(&d["w"]) as u32, i(&d["h"]) as u32);
        let raw = ImageRaw::<$C>::new(&data, size).expect("image data length");
        let $pos = pt_from(&d["pos"]);
        let center = i(&d["center"]) == 1;
        let _ = center;
        if d["sub"].as_array().unwrap().is_empty() {
            let $img = &raw;
            $body
        } else {
            let s1 = raw.sub_image(&rect_from(&d["sub"]));
            if d["sub2"].as_array().unwrap().is_empty() {
                let $img = &s1;
                $body
            } else {
                let s2 = s1.sub_image(&rect_from(&d["sub2"]));
                let $img = &s2;
                $body
            }
        }
    }};
}

fn mk_image<'a, T: ImageDrawable>(img: &'a T, pos: Point, center: bool) -> Image<'a, T> {
    if center {
        Image::with_center(img, pos)
    } else {
        Image::new(img, pos)
    }
}

/// Draw the described drawable on `t`.
pub fn draw_desc<C, T>(d: &Value, t: &mut T) -> Result<DrawOut, T::Error>
where
    C: ImgCol,
    T: DrawTarget<Color = C>,
    for<'a> ImageRaw<'a, C>: ImageDrawable<Color = C>,
{
    match d["kind"].as_str().unwrap() {
        "prim" => {
            let s = Shape::from_desc(&d["shape"]);
            let st = style_from::<C>(&d["style"]);
            s.draw(&st, t)?;
            Ok(DrawOut { next: None })
        }
        "image" => {
            let center = i(&d["center"]) == 1;
            with_image!(d, C, |img, pos| mk_image(img, pos, center).draw(t))?;
            Ok(DrawOut { next: None })
        }
        "text" => {
            let s = string_of(&d["s"]);
            let cs = char_style::<C>(d);
            let next = mk_text_desc(&s, d, cs).draw(t)?;
            Ok(DrawOut { next: Some(next) })
        }
        k => panic!("unknown drawable kind {}", k),
    }
}

/// Texts and images: the object that `Transform::translate` (mode 0) / `translate_mut` (mode 1) RETURNS is drawn itself
/// (not a drawable rebuilt from its public position); returns the next position (texts) and its `bounding_box()`.
pub fn draw_translated_object<C, T>(d: &Value, by: Point, mode: u32, t: &mut T) -> Result<(Option<Point>, Rectangle), T::Error>
where
    C: ImgCol,
    T: DrawTarget<Color = C>,
    for<'a> ImageRaw<'a, C>: ImageDrawable<Color = C>,
{
    match d["kind"].as_str().unwrap() {
        "image" => {
            let center = i(&d["center"]) == 1;
            with_image!(d, C, |img, pos| {
                let im = mk_image(img, pos, center);
                let moved = if mode == 1 {
                    let mut m = im;
                    m.translate_mut(by);
                    m
                } else {
                    im.translate(by)
                };
                moved.draw(t)?;
                Ok((None, moved.bounding_box()))
            })
        }
        "text" => {
            let s = string_of(&d["s"]);
            let tx = mk_text_desc(&s, d, char_style::<C>(d));
            let moved = if mode == 1 {
                let mut m = tx;
                m.translate_mut(by);
                m
            } else {
                tx.translate(by)
            };
            let next = moved.draw(t)?;
            Ok((Some(next), moved.bounding_box()))
        }
        k => panic!("draw_translated_object: kind {}", k),
    }
}

/// `bounding_box()` of the described drawable.
pub fn bbox_desc<C>(d: &Value) -> Rectangle
where
    C: ImgCol,
    for<'a> ImageRaw<'a, C>: ImageDrawable<Color = C>,
{
    match d["kind"].as_str().unwrap() {
        "prim" => Shape::from_desc(&d["shape"]).styled_bounding_box(&style_from::<C>(&d["style"])),
        "image" => {
            let center = i(&d["center"]) == 1;
            with_image!(d, C, |img, pos| mk_image(img, pos, center).bounding_box())
        }
        "text" => {
            let s = string_of(&d["s"]);
            mk_text_desc(&s, d, char_style::<C>(d)).bounding_box()
        }
        k => panic!("unknown drawable kind {}", k),
    }
}

/// `pixels()` for styled primitives (None for other drawables).
pub fn pixels_desc<C: Col>(d: &Value, budget: usize) -> Option<(Vec<Pixel<C>>, bool)> {
    if d["kind"] == "prim" {
        Some(Shape::from_desc(&d["shape"]).pixels(&style_from::<C>(&d["style"]), budget))
    } else {
        None
    }
}

/// The described drawable moved by `by` through its `Transform::translate` (mode 0),
/// `translate_mut` (mode 1) or, for polylines, by moving the vertices (mode 2).
/// Returns a new descriptor, except for text/images where the position field is what
/// `translate` changes: there the real `translate` is applied and the resulting public
/// position is read back.
pub fn translate_desc<C>(d: &Value, by: Point, mode: u32) -> Value
where
    C: ImgCol,
    for<'a> ImageRaw<'a, C>: ImageDrawable<Color = C>,
{
    let mut out = d.clone();
    match d["kind"].as_str().unwrap() {
        "prim" => {
            let s = Shape::from_desc(&d["shape"]);
            let t = match mode {
                0 => s.translate(by),
                1 => s.translate_mut(by),
                _ => s.moved_vertices(by),
            };
            out["shape"] = t.to_desc();
        }
        "image" => {
            // Image::translate changes the offset; read it back through bounding_box().top_left
            let center = i(&d["center"]) == 1;
            let tl = with_image!(d, C, |img, pos| {
                let im = mk_image(img, pos, center);
                if mode == 1 {
                    let mut m = im;
                    m.translate_mut(by);
                    m.bounding_box().top_left
                } else {
                    im.translate(by).bounding_box().top_left
                }
            });
            out["pos"] = pt_json(tl);
            out["center"] = json!(0);
        }
        "text" => {
            let s = string_of(&d["s"]);
            let tx = Text::with_text_style(&s, pt_from(&d["pos"]), char_style::<C>(d), text_style(d));
            let p = if mode == 1 {
                let mut m = tx;
                m.translate_mut(by);
                m.position
            } else {
                tx.translate(by).position
            };
            out["pos"] = pt_json(p);
        }
        k => panic!("unknown drawable kind {}", k),
    }
    out
}

/// Dispatch on a colour-type name.
#[macro_export]
macro_rules! with_color_type {
    ($name:expr, $f:ident ( $($arg:expr),* )) => {
        match $name {
            "BinaryColor" => $f::<embedded_graphics::pixelcolor::BinaryColor>($($arg),*),
            "Gray2" => $f::<embedded_graphics::pixelcolor::Gray2>($($arg),*),
            "Gray4" => $f::<embedded_graphics::pixelcolor::Gray4>($($arg),*),
            "Gray8" => $f::<embedded_graphics::pixelcolor::Gray8>($($arg),*),
            "Rgb565" => $f::<embedded_graphics::pixelcolor::Rgb565>($($arg),*),
            "Rgb888" => $f::<embedded_graphics::pixelcolor::Rgb888>($($arg),*),
            n => panic!("unsupported colour type {}", n),
        }
    };
}
