CONSTANTS
  Lo <- LoThorough
  Hi = 3
  SMax = 4
  OffMax = 3
  Gen = TRUE
SPECIFICATION Spec
INVARIANTS BinOK UnOK FormsAgree PointsMachineOK
CHECK_DEADLOCK FALSE
