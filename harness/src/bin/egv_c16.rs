//! C16 recorder: Rectangle algebra.  Records results only; judged by spec/Trace_C16.tla.
use egv::util::*;
use egv::*;
use embedded_graphics::geometry::{AnchorPoint, AnchorX, AnchorY};
use embedded_graphics::{prelude::*, primitives::Rectangle};

const ANCHORS: [AnchorPoint; 9] = [
    AnchorPoint::TopLeft,
    AnchorPoint::TopCenter,
    AnchorPoint::TopRight,
    AnchorPoint::CenterLeft,
    AnchorPoint::Center,
    AnchorPoint::CenterRight,
    AnchorPoint::BottomLeft,
    AnchorPoint::BottomCenter,
    AnchorPoint::BottomRight,
];
const AX: [AnchorX; 3] = [AnchorX::Left, AnchorX::Center, AnchorX::Right];
const AY: [AnchorY; 3] = [AnchorY::Top, AnchorY::Center, AnchorY::Bottom];

fn rect(x: i32, y: i32, w: u32, h: u32) -> Rectangle {
    Rectangle::new(Point::new(x, y), Size::new(w, h))
}

fn bin_item(a: &Rectangle, b: &Rectangle) -> Value {
    json!([rect_json(a), rect_json(b), rect_json(&a.intersection(b)), rect_json(&b.intersection(a)), rect_json(&a.envelope(b))])
}

fn grid(lo: i32, hi: i32, smax: u32) -> Vec<Rectangle> {
    let mut v = vec![];
    for x in lo..=hi {
        for y in lo..=hi {
            for w in 0..=smax {
                for h in 0..=smax {
                    v.push(rect(x, y, w, h));
                }
            }
        }
    }
    v
}

/// Rectangle::contains (inherent) as 0 / 1; 2 if the hit test through the ContainsPoint trait gives another answer
fn contains_both(r: &Rectangle, p: Point) -> i32 {
    fn via<S: embedded_graphics::primitives::ContainsPoint>(s: &S, p: Point) -> bool {
        s.contains(p)
    }
    let a = r.contains(p);
    if via(r, p) != a {
        2
    } else {
        a as i32
    }
}

fn unary(rec: &mut Rec, r: &Rectangle, sizes: &[(u32, u32)], offs: &[i32]) {
    let small = r.size.width <= 12 && r.size.height <= 12;
    let mut probes = vec![];
    let mut corners = vec![];
    if small {
        let g = rect(r.top_left.x - 1, r.top_left.y - 1, r.size.width + 2, r.size.height + 2);
        for p in g.points() {
            probes.push(json!([p.x, p.y, contains_both(r, p)]));
        }
    } else {
        // corner neighbourhoods only
        let xs = [r.top_left.x - 1, r.top_left.x, r.top_left.x + r.size.width as i32 - 1, r.top_left.x + r.size.width as i32];
        let ys = [r.top_left.y - 1, r.top_left.y, r.top_left.y + r.size.height as i32 - 1, r.top_left.y + r.size.height as i32];
        for &x in &xs {
            for &y in &ys {
                let p = Point::new(x, y);
                probes.push(json!([p.x, p.y, contains_both(r, p)]));
            }
        }
    }
    for d in [(-1, -1), (0, 0), (3, -2), (-4, 5), (r.size.width as i32, r.size.height as i32)] {
        let p = r.top_left + Point::new(d.0, d.1);
        let q = r.top_left;
        corners.push(json!([pt_json(p), pt_json(q), rect_json(&Rectangle::with_corners(p, q))]));
        corners.push(json!([pt_json(q), pt_json(p), rect_json(&Rectangle::with_corners(q, p))]));
    }
    // probe points at the ends of the coordinate range (the distance to the rectangle does not fit in an i32)
    for p in [Point::new(i32::MAX, 0), Point::new(i32::MIN, i32::MIN), Point::new(i32::MAX, i32::MAX), Point::new(0, i32::MIN),
              Point::new(r.top_left.x, i32::MAX), Point::new(i32::MIN, r.top_left.y)] {
        probes.push(json!([p.x, p.y, contains_both(r, p)]));
    }
    let pts_logged = (r.size.width as u64 * r.size.height as u64) <= 150;
    let points = if pts_logged { pts_json(r.points()) } else { json!([]) };
    // the points() iterator through count / last / nth / size_hint / fold / skip and indices beyond 2^32
    let proto = if pts_logged { iter_protocol(|| r.points(), 1 + (r.size.width as usize + r.size.height as usize) % 3) } else { json!({}) };
    let mut resized = vec![];
    let mut rw = vec![];
    let mut rh = vec![];
    for &(w, h) in sizes {
        for (ai, a) in ANCHORS.iter().enumerate() {
            resized.push(json!([w, h, ai + 1, rect_json(&r.resized(Size::new(w, h), *a))]));
        }
    }
    let mut ws: Vec<u32> = sizes.iter().map(|s| s.0).collect();
    ws.sort();
    ws.dedup();
    for &w in &ws {
        for k in 0..3 {
            rw.push(json!([w, k, rect_json(&r.resized_width(w, AX[k]))]));
            rh.push(json!([w, k, rect_json(&r.resized_height(w, AY[k]))]));
        }
    }
    // offset: the inherent method and the OffsetOutline trait method (a separate implementation in the main crate, used by
    // PrimitiveStyle::fill_area / stroke_area), plus the offsets at which a side collapses exactly (n = -width / 2, -height / 2)
    let mut offs: Vec<i32> = offs.to_vec();
    for s in [r.size.width, r.size.height] {
        if s < (1 << 30) {
            offs.extend([-((s / 2) as i32), -((s / 2) as i32) - 1, -(((s + 1) / 2) as i32)]);
        }
    }
    let mut off: Vec<Value> = offs.iter().map(|&n| json!([n, rect_json(&r.offset(n))])).collect();
    off.extend(offs.iter().map(|&n| json!([n, rect_json(&embedded_graphics::primitives::OffsetOutline::offset(r, n))])));
    let br = match r.bottom_right() {
        Some(p) => pt_json(p),
        None => json!([]),
    };
    let rows = r.rows();
    let cols = r.columns();
    rec.ev(
        "un",
        json!({
            "r": rect_json(r), "center": pt_json(r.center()),
            "wc": rect_json(&Rectangle::with_center(r.center(), r.size)), "br": br,
            "probes": probes, "pts_logged": pts_logged as i32, "points": points, "proto": proto,
            "rows": [rows.start, rows.end], "cols": [cols.start, cols.end],
            "anchors": ANCHORS.iter().map(|a| pt_json(r.anchor_point(*a))).collect::<Vec<_>>(),
            "resized": resized, "rw": rw, "rh": rh, "off": off, "corners": corners,
        }),
    );
}

fn run_case(rec: &mut Rec, d: &Value) {
    // a panic inside a Rectangle method is recorded (the events of the case so far are kept)
    if let Err(p) = catch(|| run_case_inner(rec, d)) {
        rec.note("panicked_cases");
        rec.ev("panic", json!({"msg": p.msg, "loc": p.loc}));
    }
}

fn run_case_inner(rec: &mut Rec, d: &Value) {
    match d["k"].as_str().unwrap() {
        // (G) one grid rectangle printed by MC_C16: all pairs with the grid + the unary battery
        "grid" => {
            let r = rect_from(&d["r"]);
            let (lo, hi, smax) = (i(&d["lo"]) as i32, i(&d["hi"]) as i32, i(&d["smax"]) as u32);
            rec.begin(d.clone());
            let items: Vec<Value> = grid(lo, hi, smax).iter().map(|b| bin_item(&r, b)).collect();
            rec.ev("bin", json!({ "items": items }));
            let mut sizes = vec![];
            for w in 0..=smax + 1 {
                for h in 0..=smax + 1 {
                    sizes.push((w, h));
                }
            }
            unary(rec, &r, &sizes, &[-3, -2, -1, 0, 1, 2, 3]);
            rec.nontrivial();
        }
        "pairs" => {
            rec.begin(d.clone());
            let items: Vec<Value> =
                d["pairs"].as_array().unwrap().iter().map(|p| bin_item(&rect_from(&p[0]), &rect_from(&p[1]))).collect();
            rec.ev("bin", json!({ "items": items }));
            rec.nontrivial();
        }
        // rectangles that are more than 2^31 apart: only intersection (the envelope is not representable)
        "farpairs" => {
            rec.begin(d.clone());
            let mut items = vec![];
            for p in d["pairs"].as_array().unwrap() {
                let (a, b) = (rect_from(&p[0]), rect_from(&p[1]));
                match catch(|| (a.intersection(&b), b.intersection(&a))) {
                    Ok((i1, i2)) => items.push(json!([rect_json(&a), rect_json(&b), rect_json(&i1), rect_json(&i2), 0])),
                    Err(_) => items.push(json!([rect_json(&a), rect_json(&b), [0, 0, 0, 0], [0, 0, 0, 0], 1])),
                }
            }
            rec.ev("farbin", json!({ "items": items }));
            rec.nontrivial();
        }
        // rectangles that end on (or just before) the last column / row of the coordinate range
        "edge" => {
            rec.begin(d.clone());
            let mut items = vec![];
            for rj in d["rects"].as_array().unwrap() {
                let r = rect_from(rj);
                let corner = Point::new((r.top_left.x as i64 + r.size.width as i64 - 1) as i32, (r.top_left.y as i64 + r.size.height as i64 - 1) as i32);
                match catch(|| (r.bottom_right(), r.contains(corner), r.contains(r.top_left), r.points().count())) {
                    Ok((br, c1, c2, n)) => items.push(json!([rect_json(&r), br.map_or(json!([]), pt_json), c1 as i32, c2 as i32, 0, n])),
                    Err(_) => items.push(json!([rect_json(&r), [], 0, 0, 1, 0])),
                }
            }
            // intersections among these rectangles and with partners that overlap their last column / row
            let mut pairs = vec![];
            let rs: Vec<Rectangle> = d["rects"].as_array().unwrap().iter().map(rect_from).collect();
            for (k, a) in rs.iter().enumerate() {
                let last = Point::new((a.top_left.x as i64 + a.size.width as i64 - 1) as i32, (a.top_left.y as i64 + a.size.height as i64 - 1) as i32);
                let partners = [*a, Rectangle::new(last, Size::new(1, 1)), Rectangle::new(Point::new(last.x - 2, last.y - 1), Size::new(3, 2)),
                                Rectangle::new(Point::new(a.top_left.x.saturating_sub(3), a.top_left.y.saturating_sub(2)), Size::new(a.size.width.min(1 << 20) + 1, a.size.height.min(1 << 20) + 1)),
                                rs[(k + 3) % rs.len()]];
                for b in partners {
                    match catch(|| (a.intersection(&b), b.intersection(a))) {
                        Ok((i1, i2)) => pairs.push(json!([rect_json(a), rect_json(&b), rect_json(&i1), rect_json(&i2), 0])),
                        Err(_) => pairs.push(json!([rect_json(a), rect_json(&b), [0, 0, 0, 0], [0, 0, 0, 0], 1])),
                    }
                }
            }
            // corners i32::MAX (and a little less) apart: extents of 2^31 - 3 .. 2^31 pixels
            let mut far = vec![];
            for (p, q) in [((-1000, 3), (i32::MAX - 1000, 9)), ((i32::MIN + 5, -4), (4, 2)), ((7, i32::MAX - 2), (9, -2)), ((-1, -1), (i32::MAX - 1, i32::MAX - 2)),
                           ((i32::MAX - 1000, 9), (-1000, 3)), ((0, 0), (i32::MAX - 3, 5)), ((i32::MIN, i32::MIN), (-1, -2))] {
                let (p, q) = (Point::new(p.0, p.1), Point::new(q.0, q.1));
                match catch(|| Rectangle::with_corners(p, q)) {
                    Ok(r) => {
                        let code = |s: u32| if s <= i32::MAX as u32 { json!([0, s]) } else { json!([1, s as i64 - i32::MAX as i64]) };
                        far.push(json!([pt_json(p), pt_json(q), pt_json(r.top_left), [code(r.size.width), code(r.size.height)], 0]))
                    }
                    Err(_) => far.push(json!([pt_json(p), pt_json(q), [0, 0], [[0, 0], [0, 0]], 1])),
                }
            }
            rec.ev("edge", json!({ "items": items, "pairs": pairs, "far": far }));
            rec.nontrivial();
        }
        "un" => {
            rec.begin(d.clone());
            let r = rect_from(&d["r"]);
            let sizes: Vec<(u32, u32)> =
                d["sizes"].as_array().unwrap().iter().map(|s| (i(&s[0]) as u32, i(&s[1]) as u32)).collect();
            let offs: Vec<i32> = d["offs"].as_array().unwrap().iter().map(|s| i(s) as i32).collect();
            unary(rec, &r, &sizes, &offs);
            rec.nontrivial();
        }
        // resizing far rectangles / to very large sizes, restricted to anchors for which the ideal result is representable
        // items [op (0 resized, 1 resized_width, 2 resized_height), w, h, anchor (1..9 | kx | ky), result]
        "xres" => {
            rec.begin(d.clone());
            let r = rect_from(&d["r"]);
            let (w, h) = (i(&d["size"][0]) as u32, i(&d["size"][1]) as u32);
            let fits = |pos: i32, len: u32, new: u32, k: usize| -> bool {
                let (p, l, n) = (pos as i64, (len as i64).max(1), (new as i64).max(1));
                let lo = match k {
                    0 => p,
                    2 => p + l - n,
                    _ => p + (l - n) / 2 - 2,
                };
                lo >= i32::MIN as i64 + 2 && lo + n + 4 <= i32::MAX as i64
            };
            let mut items = vec![];
            for (ai, a) in ANCHORS.iter().enumerate() {
                if fits(r.top_left.x, r.size.width, w, ai % 3) && fits(r.top_left.y, r.size.height, h, ai / 3) {
                    items.push(json!([0, w, h, ai + 1, rect_json(&r.resized(Size::new(w, h), *a))]));
                }
            }
            for k in 0..3 {
                if fits(r.top_left.x, r.size.width, w, k) {
                    items.push(json!([1, w, h, k, rect_json(&r.resized_width(w, AX[k]))]));
                }
                if fits(r.top_left.y, r.size.height, h, k) {
                    items.push(json!([2, w, h, k, rect_json(&r.resized_height(h, AY[k]))]));
                }
            }
            rec.ev("xres", json!({"r": rect_json(&r), "items": items}));
            rec.nontrivial();
        }
        k => panic!("unknown case kind {}", k),
    }
}

/// random rectangle; `related` builds touching / nested / shared-edge constructions
fn rnd_rect(rng: &mut Rng, m: i32, smax: u32) -> Rectangle {
    let s = |rng: &mut Rng| -> u32 {
        match rng.u32r(0, 9) {
            0 => 0,
            1 => 1,
            2 => rng.u32r(0, 4),
            _ => rng.u32r(0, smax),
        }
    };
    rect(rng.i32(-m, m), rng.i32(-m, m), s(rng), s(rng))
}
fn related(rng: &mut Rng, a: &Rectangle, m: i32, smax: u32) -> Rectangle {
    let (x, y, w, h) = (a.top_left.x, a.top_left.y, a.size.width as i32, a.size.height as i32);
    match rng.u32r(0, 7) {
        0 => rect(x + w, y + rng.i32(-3, 3), rng.u32r(0, smax), rng.u32r(0, smax)), // touching right
        1 => rect(x + rng.i32(-3, 3), y + h, rng.u32r(0, smax), rng.u32r(0, smax)), // touching bottom
        2 => rect(x + rng.i32(0, w.max(1)), y + rng.i32(0, h.max(1)), rng.u32r(0, (w as u32).max(1)), rng.u32r(0, (h as u32).max(1))), // inside-ish
        3 => rect(x - rng.i32(0, 5), y - rng.i32(0, 5), a.size.width + rng.u32r(0, 10), a.size.height + rng.u32r(0, 10)), // containing
        4 => rect(x + w - 1, y + h - 1, rng.u32r(0, 3), rng.u32r(0, 3)), // corner overlap
        5 => rect(x + rng.i32(-2, 2), y + rng.i32(-2, 2), a.size.width, a.size.height), // shifted copy
        _ => rnd_rect(rng, m, smax),
    }
}

fn main() {
    let args = Args::parse();
    install_panic_hook();
    let mut rec = Rec::new(&args);
    let mut rng = Rng::new(args.seed ^ 0xC16);
    if let Some(cases) = &args.cases {
        for d in cases {
            run_case(&mut rec, d);
        }
    } else {
        for d in args.gen.iter().chain(args.witnesses.iter()) {
            run_case(&mut rec, d);
        }
        // seeded part: rectangles up to +-2^20
        let (npairs, nun) = if args.thorough() { (1_000_000, 20_000) } else { (20_000, 2_000) };
        let mut batch = vec![];
        for n in 0..npairs {
            let (m, smax) = match n % 4 {
                0 => (8, 12),
                1 => (1000, 2000),
                _ => (1 << 20, 1 << 20),
            };
            let a = rnd_rect(&mut rng, m, smax);
            let b = related(&mut rng, &a, m, smax);
            batch.push(json!([rect_json(&a), rect_json(&b)]));
            if batch.len() == 250 || n + 1 == npairs {
                run_case(&mut rec, &json!({"k":"pairs","pairs":std::mem::take(&mut batch)}));
            }
        }
        // far apart rectangles with small sizes (all coordinate sums stay below 2^31)
        {
            let bases = [2_000_000_000i32, -2_000_000_000, 1_500_000_000, -500_000_000, 0, 2_147_480_000, -2_147_483_648];
            let mut pairs = vec![];
            for &ax in &bases {
                for &bx in &bases {
                    for (ay, by) in [(0, 0), (-2_000_000_000, 2_000_000_000), (5, 1_900_000_000)] {
                        let a = json!([ax, ay, rng.u32r(0, 900), rng.u32r(1, 900)]);
                        let b = json!([bx.saturating_add(rng.i32(0, 400)), by, rng.u32r(1, 900), rng.u32r(0, 900)]);
                        pairs.push(json!([a, b]));
                    }
                }
            }
            for chunk in pairs.chunks(49) {
                run_case(&mut rec, &json!({"k":"farpairs","pairs":chunk}));
            }
        }
        // rectangles ending exactly on / one before i32::MAX in x, y or both
        {
            let mut rects = vec![];
            for (w, h) in [(1u32, 1u32), (4, 6), (900, 2), (1, 700), (65536, 3)] {
                for back in [0i64, 1] {
                    let x = (i32::MAX as i64 - back - w as i64 + 1) as i32;
                    let y = (i32::MAX as i64 - back - h as i64 + 1) as i32;
                    rects.push(json!([x, 5, w, h]));
                    rects.push(json!([-7, y, w, h]));
                    rects.push(json!([x, y, w, h]));
                }
            }
            run_case(&mut rec, &json!({"k":"edge","rects":rects}));
        }
        for n in 0..nun {
            let (m, smax) = match n % 3 {
                0 => (6, 9),
                1 => (500, 700),
                _ => (1 << 20, 1 << 20),
            };
            let r = rnd_rect(&mut rng, m, smax);
            let sizes: Vec<Value> = (0..6).map(|_| json!([rng.u32r(0, smax), rng.u32r(0, smax)])).chain([json!([0, 0]), json!([1, 1])]).collect();
            let offs: Vec<i32> = (0..5).map(|_| rng.i32(-(smax.min(5000) as i32), smax.min(5000) as i32)).chain([0, 1, -1]).collect();
            run_case(&mut rec, &json!({"k":"un","r":rect_json(&r),"sizes":sizes,"offs":offs}));
        }
        // far rectangles and very large new sizes (<= 2^30, so that every difference the predicate takes fits in 32 bits)
        {
            let rects = [rect(10, 20, 5, 7), rect(2_000_000_000, -2_000_000_000, 100, 50), rect(-2_000_000_000, 2_000_000_000, 7, 9),
                         rect(2_147_483_000, 2_147_483_000, 100, 100), rect(-2_147_483_000, -2_147_483_000, 64, 1), rect(1_600_000_000, 3, 0, 0),
                         rect(1_000_000_000, -1_000_000_000, 1 << 30, 1 << 29), rect(-5, -5, 1 << 30, 3)];
            let sizes = [(1u32 << 30, 3u32), (3, 1 << 30), (1 << 30, 1 << 30), (300_000_000, 50), (100, 400_000_000), (1, 1), (0, 0), (640, 640),
                         (250_000_000, 120_000_000), ((1 << 30) - 1, (1 << 29) + 1)];
            for r in &rects {
                for &(w, h) in &sizes {
                    run_case(&mut rec, &json!({"k":"xres","r":rect_json(r),"size":[w, h]}));
                }
            }
        }
    }
    rec.finish(json!({}));
}
