---------------------------- MODULE EGFramebuffer ---------------------------
(* Framebuffer<C, C::Raw, O, WIDTH, HEIGHT, N> (src/framebuffer.rs).           *)
(*   fb     [bpp, ord, w, h, n]     format, size, length N of the byte array   *)
(*   bytes  sequence of n bytes      (the field `data`)                        *)
(*   m      the ABSTRACT content: function from the points of the w x h box to *)
(*          raw colour values (32-bit values as i32, see EGImage)              *)
(*   op     [k, p, c, px, area]   k = "sp" set_pixel(p, c) | "di" draw_iter(px)*)
(*          | "fs" fill_solid(area, c) | "clear" clear(c) | "fc"               *)
(*          fill_contiguous(area, px = colours) | "draw" a drawable whose      *)
(*          pixel stream is px;  px items are <<x, y, colour>>                 *)
(* ABSTRACT part: MApply (what the property says an operation means) and the   *)
(* abstraction function AbsMap(bytes) = the content read through the documented   *)
(* ImageRaw layout (EGImage.Pixel) -- padding bits of a row are free.          *)
(* TRANSCRIBED part: the byte-level writers of framebuffer.rs and the trait    *)
(* defaults of core/src/draw_target/mod.rs the Framebuffer relies on.          *)
(* writer "pinned" = the snapshot (impl_bit! ignores the data order),          *)
(* writer "patched" = work/patches/D3.diff (bit index by data order).          *)
EXTENDS EGImage, SequencesExt

FbBox(fb) == <<0, 0, fb.w, fb.h>>
BufSize(fb) == ExpectedLen(fb.w, fb.h, fb.bpp)             \* buffer_size_bpp (framebuffer.rs:32)
\* as_image (framebuffer.rs:119): an ImageRaw of the same format over data[0..BUFFER_SIZE]
AsImage(fb, bytes) == [bpp |-> fb.bpp, ord |-> fb.ord, w |-> fb.w, h |-> fb.h, data |-> SubSeq(bytes, 1, BufSize(fb))]

---------------------------------------------------------------------------
(* ABSTRACT *)
AbsMap(fb, bytes) == LET im == AsImage(fb, bytes) IN [p \in PointsOf(FbBox(fb)) |-> Pixel(im, p)]
MZero(fb) == [p \in PointsOf(FbBox(fb)) |-> 0]
MSet(fb, m, p, v) == IF InRect(FbBox(fb), p) THEN [m EXCEPT ![p] = v] ELSE m
MDrawIter(fb, m, px) == FoldLeft(LAMBDA acc, e : MSet(fb, acc, <<e[1], e[2]>>, e[3]), m, px)
MFillSolid(fb, m, area, v) == [p \in DOMAIN m |-> IF InRect(area, p) THEN v ELSE m[p]]
\* colours are matched with the points of the area in row-major order; surplus ones have no effect
MFillContiguous(fb, m, area, cs) ==
  [p \in DOMAIN m |->
     IF InRect(area, p)
     THEN LET i == (p[2] - area[2]) * area[3] + (p[1] - area[1]) + 1 IN IF i <= Len(cs) THEN cs[i] ELSE m[p]
     ELSE m[p]]
MApply(fb, m, op) ==
  CASE op.k = "sp"    -> MSet(fb, m, op.p, op.c)
    [] op.k = "di"    -> MDrawIter(fb, m, op.px)
    [] op.k = "draw"  -> MDrawIter(fb, m, op.px)
    [] op.k = "fs"    -> MFillSolid(fb, m, op.area, op.c)
    [] op.k = "fc"    -> MFillContiguous(fb, m, op.area, op.px)
    [] op.k = "clear" -> [p \in DOMAIN m |-> op.c]
\* does the operation address at least one point inside the box?
WritesInside(fb, op) ==
  CASE op.k = "sp"    -> InRect(FbBox(fb), op.p)
    [] op.k \in {"di", "draw"} -> \E i \in 1..Len(op.px) : InRect(FbBox(fb), <<op.px[i][1], op.px[i][2]>>)
    [] op.k = "fs"    -> \E p \in PointsOf(FbBox(fb)) : InRect(op.area, p)
    [] op.k = "fc"    -> \E p \in PointsOf(FbBox(fb)) :
                            InRect(op.area, p) /\ (p[2] - op.area[2]) * op.area[3] + (p[1] - op.area[1]) + 1 <= Len(op.px)
    [] op.k = "clear" -> fb.w > 0 /\ fb.h > 0

---------------------------------------------------------------------------
(* TRANSCRIBED: src/framebuffer.rs *)
SetByte(bytes, k, b) == [bytes EXCEPT ![k + 1] = b]      \* self.data[k] = b (k 0-based, in range)
\* value as bytes[0..n), least significant first (to_le_bytes); v may be an i32 standing for a u32
LeByte(v, j) == (v \div (2 ^ (8 * j))) % 256
\* impl_bit! set_pixel (framebuffer.rs:152-167)
SetPixelBits(fb, bytes, p, v, writer) ==
  LET x == p[1]  y == p[2] IN
  IF x >= 0 /\ y >= 0 /\ x < fb.w /\ y < fb.h                                  \* :153-154
  THEN LET ppb == 8 \div fb.bpp                                                 \* :155
           bytesPerRow == (fb.w * fb.bpp + 7) \div 8                            \* :156-157
           byteIndex == bytesPerRow * y + (x \div ppb)                          \* :159
           bitIndex == IF writer = "patched" /\ fb.ord = 1
                       THEN (x % ppb) * fb.bpp                                  \* D3.diff
                       ELSE 8 - ((x % ppb) + 1) * fb.bpp                        \* :159
           old == bytes[byteIndex + 1]
           field == (old \div (2 ^ bitIndex)) % (2 ^ fb.bpp)
       IN SetByte(bytes, byteIndex, old - field * (2 ^ bitIndex) + v * (2 ^ bitIndex))   \* :161-164
  ELSE bytes
\* RawU8 set_pixel (framebuffer.rs:204-213)
SetPixelU8(fb, bytes, p, v) ==
  IF p[1] >= 0 /\ p[2] >= 0 /\ p[1] < fb.w /\ p[2] < fb.h THEN SetByte(bytes, p[2] * fb.w + p[1], v) ELSE bytes
\* impl_bytes! set_pixel (framebuffer.rs:246-261): to_le_bytes / to_be_bytes by data order
SetPixelBytes(fb, bytes, p, v) ==
  IF p[1] >= 0 /\ p[2] >= 0 /\ p[1] < fb.w /\ p[2] < fb.h
  THEN LET n == fb.bpp \div 8
           index == (p[2] * fb.w + p[1]) * n
       IN [k \in 1..Len(bytes) |->
             IF k - 1 >= index /\ k - 1 < index + n
             THEN LeByte(v, IF fb.ord = 0 THEN k - 1 - index ELSE n - 1 - (k - 1 - index))
             ELSE bytes[k]]
  ELSE bytes
SetPixelT(fb, bytes, p, v, writer) ==
  IF fb.bpp < 8 THEN SetPixelBits(fb, bytes, p, v, writer)
  ELSE IF fb.bpp = 8 THEN SetPixelU8(fb, bytes, p, v)
  ELSE SetPixelBytes(fb, bytes, p, v)
\* DrawTarget::draw_iter (framebuffer.rs:178, 224, 271): set_pixel for every item
DrawIterT(fb, bytes, px, writer) ==
  FoldLeft(LAMBDA acc, e : SetPixelT(fb, acc, <<e[1], e[2]>>, e[3], writer), bytes, px)
(* TRANSCRIBED: trait defaults, core/src/draw_target/mod.rs:388, 407, 422 *)
\* fill_contiguous: draw_iter(area.points().zip(colors))
FillContiguousT(fb, bytes, area, cs, writer) ==
  LET pts == RowMajor(area)  k == Min(Len(pts), Len(cs)) IN
  DrawIterT(fb, bytes, [i \in 1..k |-> <<pts[i][1], pts[i][2], cs[i]>>], writer)
\* fill_solid: fill_contiguous(area, repeat(color))
FillSolidT(fb, bytes, area, v, writer) ==
  LET pts == RowMajor(area) IN DrawIterT(fb, bytes, [i \in 1..Len(pts) |-> <<pts[i][1], pts[i][2], v>>], writer)
\* clear: fill_solid(bounding_box(), color); bounding_box = OriginDimensions (framebuffer.rs:297)
ClearT(fb, bytes, v, writer) == FillSolidT(fb, bytes, FbBox(fb), v, writer)
ApplyT(fb, bytes, op, writer) ==
  CASE op.k = "sp"    -> SetPixelT(fb, bytes, op.p, op.c, writer)
    [] op.k \in {"di", "draw"} -> DrawIterT(fb, bytes, op.px, writer)
    [] op.k = "fs"    -> FillSolidT(fb, bytes, op.area, op.c, writer)
    [] op.k = "fc"    -> FillContiguousT(fb, bytes, op.area, op.px, writer)
    [] op.k = "clear" -> ClearT(fb, bytes, op.c, writer)
\* GetPixel::pixel (framebuffer.rs:137): as_image().pixel(p)
FbPixelT(fb, bytes, p) == PixelT(AsImage(fb, bytes), p)
=============================================================================
