//! C07 recorder: a drawable and its translated copy; purely relational observations.
use egv::catalog;
use egv::drawables::*;
use egv::shapes::*;
use egv::targets::*;
use egv::util::*;
use egv::*;
use embedded_graphics::{pixelcolor::Rgb565, prelude::*};
use std::collections::BTreeSet;

type C = Rgb565;

fn seq_runs(pts: &[Point]) -> Value {
    let mut out: Vec<Value> = vec![];
    let mut cur: Option<(i32, i32, i32)> = None;
    for p in pts {
        match cur {
            Some((y, x0, x1)) if p.y == y && p.x == x1 + 1 => cur = Some((y, x0, p.x)),
            Some((y, x0, x1)) => {
                out.push(json!([y, x0, x1]));
                cur = Some((p.y, p.x, p.x));
            }
            None => cur = Some((p.y, p.x, p.x)),
        }
    }
    if let Some((y, x0, x1)) = cur {
        out.push(json!([y, x0, x1]));
    }
    Value::Array(out)
}

struct Obs {
    map: Value,
    bbox: Value,
    next: Value,
    pts: Value,
    cont: Value,
    npx: usize,
}

thread_local! {
    /// which sub-observation is running (reported with a panic: "draw", "bbox", "points", "contains")
    static STAGE: std::cell::Cell<&'static str> = const { std::cell::Cell::new("") };
}
fn stage(s: &'static str) {
    STAGE.with(|c| c.set(s));
}

fn observe(d: &Value) -> Obs {
    stage("draw");
    let mut t = MapTarget::<C>::new();
    let out = draw_desc::<C, _>(d, &mut t).unwrap();
    stage("bbox");
    let bbox = bbox_desc::<C>(d);
    stage("points");
    let mut pts = json!([]);
    let mut cont = json!([]);
    if d["kind"] == "prim" {
        let s = Shape::from_desc(&d["shape"]);
        let bb = s.bounding_box();
        let (p, _) = s.points(bb.size.width as usize * bb.size.height as usize + 4096);
        pts = seq_runs(&p);
        if s.has_contains() {
            stage("contains");
            let mut c = BTreeSet::new();
            for y in bb.top_left.y - 2..bb.top_left.y + bb.size.height as i32 + 2 {
                for x in bb.top_left.x - 2..bb.top_left.x + bb.size.width as i32 + 2 {
                    if s.contains(Point::new(x, y)) {
                        c.insert((y, x));
                    }
                }
            }
            cont = runs_of(&c);
        }
    }
    Obs {
        npx: t.map.len(),
        map: cruns_of(&t.map),
        bbox: rect_json(&bbox),
        next: match out.next {
            Some(p) => pt_json(p),
            None => json!([]),
        },
        pts,
        cont,
    }
}

fn run_case(rec: &mut Rec, desc: &Value) {
    rec.begin(desc.clone());
    let d = &desc["d"];
    let by = pt_from(&desc["by"]);
    let r = catch(|| {
        let o0 = observe(d);
        let tr = translate_desc::<C>(d, by, 0);
        let trm = translate_desc::<C>(d, by, 1);
        let o1 = observe(&tr);
        // polylines: also translated by moving the vertices
        let is_poly = d["kind"] == "prim" && d["shape"]["k"] == "polyline";
        let map2 = if is_poly { observe(&translate_desc::<C>(d, by, 2)).map } else { json!([]) };
        // styled primitives: the STYLED object moved with Styled::translate / translate_mut
        stage("draw");
        let map3 = if d["kind"] == "prim" {
            let mut t = MapTarget::<C>::new();
            Shape::from_desc(&d["shape"]).draw_styled_translated(&style_from::<C>(&d["style"]), by, (o0.npx % 2) as u32, &mut t).unwrap();
            cruns_of(&t.map)
        } else {
            o1.map.clone()
        };
        // texts and images: the translated OBJECT drawn itself, by translate and by translate_mut
        let mut objs = vec![];
        if d["kind"] != "prim" {
            for mode in 0..2u32 {
                let mut t = MapTarget::<C>::new();
                let (next, bb) = draw_translated_object::<C, _>(d, by, mode, &mut t).unwrap();
                objs.push(json!({"map": cruns_of(&t.map), "box": rect_json(&bb), "next": next.map_or(json!([]), pt_json)}));
            }
        }
        (o0, o1, tr, trm, is_poly, map2, map3, objs)
    });
    match r {
        Ok((o0, o1, tr, trm, is_poly, map2, map3, objs)) => {
            if o0.npx > 0 {
                rec.nontrivial();
            }
            rec.ev(
                "pair",
                json!({"by": desc["by"], "map0": o0.map, "map1": o1.map, "box0": o0.bbox, "box1": o1.bbox, "next0": o0.next, "next1": o1.next,
                    "pts0": o0.pts, "pts1": o1.pts, "cont0": o0.cont, "cont1": o1.cont, "tr": tr, "trm": trm,
                    "poly": is_poly as i32, "map2": map2, "map3": map3, "objs": objs}),
            );
        }
        Err(p) => {
            rec.note("panicked_cases");
            rec.ev("panic", json!({"msg": p.msg, "loc": p.loc, "what": STAGE.with(|c| c.get())}));
        }
    }
}

fn main() {
    let args = Args::parse();
    install_panic_hook();
    let mut rec = Rec::new(&args);
    let mut rng = Rng::new(args.seed ^ 0xC07);
    let th = args.thorough();
    if let Some(cases) = &args.cases {
        for d in cases {
            run_case(&mut rec, d);
        }
        rec.finish(json!({}));
        return;
    }
    for d in args.gen.iter().chain(args.witnesses.iter()) {
        run_case(&mut rec, d);
    }
    // incl. far offsets: beyond 2^24 (f32 cannot represent odd integers there) and far from BOTH axes
    let offsets: Vec<(i32, i32)> = vec![(-7, -9), (5, -3), (-4, 6), (0, 0), (500, -500), (1, 0), (-13, 2), (0, 11), (-20_000_001, 3), (100_000, 200_000), (16_777_217, -70_001)];
    let noff = offsets.len();
    let tl = (2, 1);
    let mut all = catalog::prims("Rgb565", th, &mut rng, tl);
    all.extend(catalog::texts("Rgb565", th, tl));
    all.extend(catalog::images("Rgb565", th, &mut rng, tl));
    catalog::add_dotted(&mut all, if th { 2 } else { 5 });
    let mut n = 0usize;
    for d in &all {
        n += 1;
        let picks: Vec<usize> = if th { vec![n % noff, (n + 3) % noff, (n + 5) % noff] } else { vec![n % noff] };
        for k in picks {
            run_case(&mut rec, &json!({"d": d, "by": [offsets[k].0, offsets[k].1]}));
        }
        // right-aligned texts moved so that their anchor is the last but one column of the coordinate range (every pixel
        // of such a text lies left of the anchor; a text measured AT its anchor would not fit)
        // (not the input class of the open finding D12 - colourless text in a spaced font returns a position
        // `spacing` pixels too far right, which does not exist here; D12 is reported by C14 / C15)
        let d12 = d["tc"] == -1 && d["bc"] == -1 && d["font"].as_str().map_or(false, |f| f.starts_with("spaced:"));
        if d["kind"] == "text" && d["al"] == 2 && n % 2 == 0 && !d12 {
            let px = i(&d["pos"][0]) as i32;
            run_case(&mut rec, &json!({"d": d, "by": [i32::MAX - 1 - px, 3 - (n % 7) as i32]}));
        }
        // "origin alignment": the offset that moves the bounding box's corner onto (0, 0) / (-1, 0) / (0, -1) / (-1, -1)
        // (code that treats the coordinate 0 specially - empty ranges 0..0, sign tests - shows when a drawable
        // touches the origin, which fixed offsets never arrange)
        if th || n % 3 == 0 {
            if let Ok(bb) = catch(|| bbox_desc::<C>(d)) {
                let delta = [(0, 0), (-1, 0), (0, -1), (-1, -1)][(n / 3) % 4];
                if bb.top_left.x.abs() < 100_000 && bb.top_left.y.abs() < 100_000 {
                    run_case(&mut rec, &json!({"d": d, "by": [delta.0 - bb.top_left.x, delta.1 - bb.top_left.y]}));
                }
            }
        }
    }
    // thick triangles and polylines: all vertex triples of a grid x widths x offsets crossing the axes
    let g: i32 = if th { 6 } else { 5 };
    let col = catalog::colors_for("Rgb565");
    let mut k = 0usize;
    for n in 0..(g * g * g * g * g * g) {
        let c: Vec<i32> = (0..6).scan(n, |s, _| { let r = *s % g; *s /= g; Some(r) }).collect();
        k += 1;
        if !th && k % 4 != 0 {
            continue;
        }
        let w = 1 + (k as u32 / 4) % (if th { 9 } else { 5 });
        let by = offsets[(k / 4) % 3];
        let v = json!([[c[0], c[1]], [c[2], c[3]], [c[4], c[5]]]);
        let al = (k / 12) % 3;
        let shape = if (k / 4) % 2 == 0 { json!({"k":"polyline","v":v,"off":[0, 0]}) } else { json!({"k":"triangle","v":v}) };
        let fill = if k % 8 == 0 { col.fill } else { -1 };
        run_case(&mut rec, &json!({"d": {"kind":"prim","shape":shape,"style":style_desc(fill, col.stroke, w, al as u32)}, "by": [by.0, by.1]}));
    }
    // dotted strokes (round dots need stroke width >= 4 and a stroke area >= 8x8) x every offset incl. the far ones
    {
        let mut k = 0usize;
        for (w, h) in [(8u32, 8u32), (9, 14), (20, 11), (13, 13), (30, 8)] {
            for sw in [1u32, 3, 4, 5, 8] {
                for al in 0..3u32 {
                    for (oi, by) in offsets.iter().enumerate() {
                        k += 1;
                        if !th && (k + oi) % 2 == 0 && oi < 8 {
                            continue;
                        }
                        let mut style = style_desc(if k % 3 == 0 { col.fill } else { -1 }, col.stroke, sw, al);
                        style["dot"] = json!(1);
                        let shape = json!({"k":"rect","r":[3, -2, w, h]});
                        run_case(&mut rec, &json!({"d": {"kind":"prim","shape":shape,"style":style}, "by": [by.0, by.1]}));
                    }
                }
            }
        }
    }
    // stroked single lines very far from the origin (|coordinate| * |delta| > 2^31): a single line is rasterised
    // relative to its start point, so this must work (joins of polylines are only exact within about +-2^20)
    for k in 0..(if th { 600 } else { 120 }) {
        let a = (rng.i32(-20, 20), rng.i32(-20, 20));
        let b = (a.0 + rng.i32(-40, 40), a.1 + rng.i32(-40, 40));
        let by = *rng.pick(&[(300_000_000, 200_000_000), (-2_000_000_000, 1_500_000_000), (2_000_000, -1_500_000)]);
        let w = 1 + (k as u32 % 7);
        run_case(&mut rec, &json!({"d": {"kind":"prim","shape":{"k":"line","s":[a.0, a.1],"e":[b.0, b.1]},"style":style_desc(-1, col.stroke, w, 1)}, "by": [by.0, by.1]}));
    }
    // triangles and polylines very far from the origin.  Without a stroke (fill only, points()) and with a 1 px polyline
    // (drawn with Bresenham lines) this works up to +-2 * 10^9.  With joins (stroked triangles, polylines of width >= 2)
    // the library multiplies absolute coordinates with edge vectors in i32 (LinearEquation::from_line): the open
    // known finding D29.
    for (k, by) in [(300_000_000, 200_000_000), (-2_000_000_000, 1_500_000_000), (100_000_000, -70_000_000), (60_000_000, 60_000_000)].iter().enumerate() {
        let tri = json!({"k":"triangle","v":[[0, 0], [30, -11], [7, 25]]});
        let poly = json!({"k":"polyline","v":[[0, 0], [0, 30], [-30, 30], [-12, -5]],"off":[0, 0]});
        for (shape, style) in [
            (tri.clone(), style_desc(col.fill, -1, 0, 1)),
            (tri.clone(), style_desc(col.fill, col.stroke, 0, (k % 3) as u32)),
            (poly.clone(), style_desc(-1, col.stroke, 1, 1)),
            (tri.clone(), style_desc(-1, col.stroke, 1, 1)),
            (tri.clone(), style_desc(col.fill, col.stroke, 3, (k % 3) as u32)),
            (poly.clone(), style_desc(-1, col.stroke, 3, 1)),
        ] {
            run_case(&mut rec, &json!({"d": {"kind":"prim","shape":shape,"style":style}, "by": [by.0, by.1]}));
        }
    }
    // closed shapes, arcs, sectors, images and text beyond +-2^30 (sums of two absolute coordinates do not fit i32 there)
    for (k, by) in [(1_500_000_000, 7), (-1_600_000_000, -1_200_000_000), (9, 2_000_000_000), (1_073_741_900, -1_073_741_900)].iter().enumerate() {
        for (j, shape) in [json!({"k":"rect","r":[3, -2, 9, 6]}), json!({"k":"rrect","r":[0, 0, 12, 9],"radii":[[3, 2], [1, 4], [0, 0], [5, 5]]}),
                           json!({"k":"circle","tl":[-4, 1],"d":11}), json!({"k":"ellipse","tl":[2, 2],"size":[9, 14]}),
                           json!({"k":"arc","tl":[0, 0],"d":13,"a0":320,"sw":2000}), json!({"k":"sector","tl":[1, -1],"d":12,"a0":-800,"sw":-1500})].iter().enumerate() {
            for (f, sc, w) in [(col.fill, col.stroke, 2u32), (col.fill, -1, 0), (-1, col.stroke, 1)] {
                if (shape["k"] == "arc") && sc < 0 {
                    continue;
                }
                run_case(&mut rec, &json!({"d": {"kind":"prim","shape":shape,"style":style_desc(f, sc, w, ((k + j) % 3) as u32)}, "by": [by.0, by.1]}));
            }
        }
    }
    // nearly parallel joints (segments with almost the same or the opposite direction) of thick polylines and
    // triangles, moved to negative coordinates: the join falls back to edge end points there
    for k in 0..(if th { 30_000 } else { 2_500 }) {
        let a = (rng.i32(0, 12), rng.i32(0, 12));
        let d1 = (rng.i32(-9, 9), rng.i32(-9, 9));
        if d1 == (0, 0) {
            continue;
        }
        let f = *rng.pick(&[1, 1, 2, -1, -2, 3]);
        let d2 = (d1.0 * f + rng.i32(-1, 1), d1.1 * f + rng.i32(-1, 1));
        let b = (a.0 + d1.0, a.1 + d1.1);
        let c = (b.0 + d2.0, b.1 + d2.1);
        let v = json!([[a.0, a.1], [b.0, b.1], [c.0, c.1]]);
        let w = rng.u32r(2, 8);
        let by = *rng.pick(&[(-58, -38), (-31, -47), (-7, -9), (-64, 5), (3, -50), (-101, -101)]);
        let shape = if k % 3 == 0 { json!({"k":"triangle","v":v}) } else { json!({"k":"polyline","v":v,"off":[0, 0]}) };
        run_case(&mut rec, &json!({"d": {"kind":"prim","shape":shape,"style":style_desc(-1, col.stroke, w, (k % 3) as u32)}, "by": [by.0, by.1]}));
    }
    rec.finish(json!({}));
}
