#!/bin/sh
# developer helper: scratch worktree of /repo + harness copy bound to it (never used by registered checks)
#   tools/scratch.sh new <name>      -> /tmp/egv_<name>/{repo,harness}
#   tools/scratch.sh check <name> <ID> [tier]   run a check against the scratch tree
#   tools/scratch.sh rm <name>
set -e
cmd=$1; name=$2; base=/tmp/egv_$name
case "$cmd" in
  new)
    rm -rf "$base"; mkdir -p "$base"
    git -C /repo worktree prune
    git -C /repo worktree add --detach "$base/repo" HEAD >/dev/null
    mkdir -p "$base/harness"
    (cd /verif/harness && tar cf - --exclude=./target --exclude='./target_*' .) | (cd "$base/harness" && tar xf -)
    sed -i "s#/repo#$base/repo#g" "$base/harness/Cargo.toml"
    echo "$base" ;;
  sync)
    (cd /verif/harness && tar cf - --exclude=./target --exclude='./target_*' .) | (cd "$base/harness" && tar xf -)
    sed -i "s#\"/repo#\"$base/repo#g" "$base/harness/Cargo.toml" ;;
  check)
    cd /verif && EGV_HARNESS="$base/harness" EGV_WORK="$base/work" EGV_NOEVIDENCE=1 ./check "$3" "${4:-quick}" ;;
  rm)
    git -C /repo worktree remove --force "$base/repo" 2>/dev/null || true
    rm -rf "$base"; git -C /repo worktree prune ;;
esac
