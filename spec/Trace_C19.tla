------------------------------ MODULE Trace_C19 -----------------------------
(* (T) for C19: every recorded triangle (points() for the 6 vertex orders,    *)
(* the one-pixel outline, the edge lines), pair of triangles sharing an edge  *)
(* and polyline is judged by the property-level predicates of P_C19.  The     *)
(* transcribed machines of EGTriangle / EGLine are compared with the code on  *)
(* small inputs and reported as DRIFT (never a verdict).                      *)
EXTENDS TraceBase, P_C19
VARIABLE l
Init == l = 1

DriftTri(e) ==
  LET bb == TriBox(e.v) IN
  IF bb[3] > 16 \/ bb[4] > 16 \/ TriPointsRuns(e.v) = e.ts[1] THEN TRUE
  ELSE PrintT("DRIFT " \o ToJson([module |-> "EGTriangle", op |-> "TriPointsRuns", v |-> e.v]))
DriftPoly(e) ==
  IF Len(e.pts) > 60 \/ PolyPoints(e.v, e.off) = e.pts THEN TRUE
  ELSE PrintT("DRIFT " \o ToJson([module |-> "EGLine", op |-> "PolyPoints", v |-> e.v, off |-> e.off]))

StepCase(e) == e.ev = "case"
StepTri(e) ==
  /\ e.ev = "tri"
  /\ Report(e.case, TriFillFails(e.v, e.ts), [v |-> e.v, al |-> -1])
  /\ \A i \in 1..Len(e.ols) :
       LET o == e.ols[i] IN
       Report(e.case, TriOutlineFails(o[2], e.lines, "tri_outline") \cup TriOutlineFails(o[3], e.lines, "tri_outline_pixels"),
              [v |-> e.v, al |-> o[1]])
  /\ \A i \in 1..Len(e.fls) :
       LET f == e.fls[i] IN
       Report(e.case, TriStyledFillFails(f[3], e.ts[1], "tri_styled_fill") \cup TriStyledFillFails(f[4], e.ts[1], "tri_styled_fill_pixels")
                      \cup (IF f[5] = 1 THEN {} ELSE {"tri_styled_fill_pixels_endless"}),
              [v |-> e.v, al |-> f[1], variant |-> f[2], what |-> "styled_fill"])
  /\ DriftTri(e)
StepPair(e) ==
  /\ e.ev = "pair"
  /\ Report(e.case, PairFails(e.v, e.t1, e.t2, e.lab, e.lba), [v |-> e.v])
StepPoly(e) ==
  /\ e.ev = "poly"
  /\ Report(e.case, PolyFails(e.v, e.segs, e.pts, e.pix, e.dm), [v |-> e.v, off |-> e.off])
  /\ (IF Len(e.proto) = 2
      THEN Report(e.case, SeqProtoFails(e.pts, e.proto[1]) \cup SeqProtoFails(e.pix, e.proto[2]), [v |-> e.v, off |-> e.off, what |-> "iterator_protocol"])
      ELSE TRUE)
  /\ DriftPoly(e)
\* a library call of this case panicked: the property promises a result for every input of its domain
StepPanic(e) == e.ev = "panic" /\ Report(e.case, {"library_call_panicked"}, [msg |-> e.msg, loc |-> e.loc])
Next == /\ l <= NRec
        /\ LET e == Rec[l] IN StepCase(e) \/ StepTri(e) \/ StepPair(e) \/ StepPoly(e) \/ StepPanic(e)
        /\ l' = l + 1
Spec == Init /\ [][Next]_l
Done == IF TLCGet("stats").diameter = NRec + 1
        THEN PrintT("TRACE-ACCEPTED " \o ToString(NRec))
        ELSE PrintT("TRACE-REJECTED at line " \o ToString(TLCGet("stats").diameter)) /\ FALSE
=============================================================================
