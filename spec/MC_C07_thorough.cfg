CONSTANTS
  G = 3
  Rounding = "up"
SPECIFICATION Spec
INVARIANTS DenominatorInvariant Equivariant
CHECK_DEADLOCK FALSE
