------------------------------- MODULE MC_C18 ------------------------------
(* (M) for C18: the TRANSCRIBED closed-form hit tests of Circle and Ellipse    *)
(* (circle/mod.rs diameter_to_threshold incl. the d <= 4 correction,           *)
(* ellipse/mod.rs EllipseContains incl. the equal-axes special case) are       *)
(* rasterised row by row (one action per row) and the resulting point set is   *)
(* checked against the ABSTRACT reading of the property: half-pixel band       *)
(* around the ideal curve, mirror symmetry, contiguous rows and columns,       *)
(* circle touches its box, circle = ellipse with equal axes.                   *)
(* Mutant = TRUE applies the equal-axes special case to the wrong operand      *)
(* (threshold d^2 - d/2 for EVERY circle) - the negative control.              *)
EXTENDS EGCurve, TLC
CONSTANTS DMax, EMax, Mutant
VARIABLES shape, y, runs

Shapes == { [k |-> "circle", tl |-> <<-3, 2>>, size |-> <<d, d>>] : d \in 0..DMax }
     \cup { [k |-> "ellipse", tl |-> <<2, -1>>, size |-> <<w, h>>] : w \in 0..EMax, h \in 0..EMax }
Box(s) == <<s.tl[1], s.tl[2], s.size[1], s.size[2]>>
Thr(d) == IF Mutant THEN d * d - (d \div 2) ELSE DiameterToThreshold(d)
CircleM(tl, d, p) == LET dx == 2 * tl[1] + SatSubU(d, 1) - 2 * p[1]  dy == 2 * tl[2] + SatSubU(d, 1) - 2 * p[2] IN dx * dx + dy * dy < Thr(d)
Hit(s, p) == IF s.k = "circle" THEN CircleM(s.tl, s.size[1], p) ELSE EllipseContainsT(s.tl, s.size, p)
\* maximal runs of row yy, probed one pixel beyond the box
RowRuns(s, yy) ==
  LET b == Box(s)  xs == { x \in (b[1] - 1)..(b[1] + b[3]) : Hit(s, <<x, yy>>) }
      starts == { x \in xs : (x - 1) \notin xs }
      RECURSIVE Mk(_)
      Mk(st) == IF st = {} THEN <<>>
                ELSE LET x0 == CHOOSE x \in st : \A z \in st : x <= z
                         x1 == CHOOSE x \in xs : x >= x0 /\ (x + 1) \notin xs /\ \A z \in x0..x : z \in xs
                     IN << <<yy, x0, x1>> >> \o Mk(st \ {x0})
  IN Mk(starts)

Init == shape \in Shapes /\ y = shape.tl[2] - 1 /\ runs = <<>>
ScanRow == /\ y <= shape.tl[2] + shape.size[2]
           /\ runs' = runs \o RowRuns(shape, y) /\ y' = y + 1 /\ UNCHANGED shape
Next == ScanRow
Spec == Init /\ [][Next]_<<shape, y, runs>>

Finished == y > shape.tl[2] + shape.size[2]
Band      == Finished => BandOK(Box(shape), runs)
InBox     == Finished => RunsInRect(runs, Box(shape))
MirrorInv == Finished => MirrorOK(Box(shape), runs)
RowsOK    == Finished => RowsContiguous(runs)
ColumnsOK == Finished => ColumnsContiguous(Box(shape), runs)
Touches   == (Finished /\ shape.k = "circle" /\ shape.size[1] >= 1) => TouchesAllSides(Box(shape), runs)
CircleIsEllipse == (Finished /\ shape.k = "circle") =>
  \A p \in PointsOf(Grow(Box(shape), 1)) : InRuns(runs, p) = EllipseContainsT(shape.tl, shape.size, p)
=============================================================================
