CONSTANTS
  G = 5
  Ws = {2}
  PreD19 = TRUE
  D <- DQuick
  NV = 3
  FirstPts <- OnlyCorner
SPECIFICATION Spec
INVARIANTS RowInsideBox
CHECK_DEADLOCK FALSE
