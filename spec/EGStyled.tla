------------------------------ MODULE EGStyled ------------------------------
(* PrimitiveStyle (src/primitives/primitive_style.rs) and the painting rule   *)
(* of styled closed shapes.                                                   *)
(*   style  [fill, stroke (colour or -1), w (stroke width), al (0 inside,     *)
(*           1 center, 2 outside)]                                            *)
EXTENDS Integers, Sequences, FiniteSets, EGGeom

\* primitive_style.rs:86-105
OutsideW(st) == CASE st.al = 0 -> 0 [] st.al = 1 -> st.w \div 2 [] OTHER -> st.w
InsideW(st)  == CASE st.al = 0 -> st.w [] st.al = 1 -> (st.w + 1) \div 2 [] OTHER -> 0
HasFill(st)   == st.fill >= 0
HasStroke(st) == st.stroke >= 0 /\ st.w > 0          \* effective_stroke_color
IsTransparent(st) == ~HasFill(st) /\ ~HasStroke(st)

\* ABSTRACT painting rule (property C06): given the point sets F (fill area) and S (stroke area)
\* the set of painted <<x, y, colour>> triples
ExpectedPaint(st, F, S) ==
       (IF HasFill(st) THEN { <<p[1], p[2], st.fill>> : p \in F } ELSE {})
  \cup (IF HasStroke(st) THEN { <<p[1], p[2], st.stroke>> : p \in S \ F } ELSE {})

\* coloured runs <<y, x0, x1, c>> as a set of <<x, y, c>> triples
CRunsToSet(rs) == UNION { { <<x, rs[i][1], rs[i][4]>> : x \in rs[i][2]..rs[i][3] } : i \in 1..Len(rs) }

---------------------------------------------------------------------------
(* TRANSCRIBED: style areas and the call decomposition of styled shapes       *)
\* primitive_style.rs:119-139 with OffsetOutline for Rectangle (EGGeom!Offset) and Circle (circle/mod.rs:60-70)
RectStrokeArea(r, st) == Offset(r, OutsideW(st))
RectFillArea(r, st)   == Offset(r, -InsideW(st))
CircleOffsetT(tl, d, n) ==
  LET d2 == IF n >= 0 THEN d + 2 * n ELSE SatSubU(d, 2 * (-n))
      c == Center(<<tl[1], tl[2], d, d>>)
      r == WithCenter(c, <<d2, d2>>)
  IN <<<<r[1], r[2]>>, d2>>
\* rectangle/styled.rs:184-293 (solid stroke): the sequence of fill_solid calls <<area, colour>>
RectCalls(r, st) ==
  LET fa == RectFillArea(r, st)  sa == RectStrokeArea(r, st)  w == st.w
      topH == Min(w, sa[4] \div 2)
      top == <<sa[1], sa[2], sa[3], topH>>
      botW == Min(w, sa[4] - topH)
      bottom == <<sa[1], sa[2] + SatSubU(sa[4], botW), sa[3], botW>>
      leftW == Min(2 * w, sa[3] + 1) \div 2
      left == <<sa[1], sa[2] + topH, leftW, fa[4]>>
      right == <<left[1] + SatSubU(sa[3], leftW), left[2], leftW, fa[4]>>
  IN (IF HasFill(st) THEN << <<fa, st.fill>> >> ELSE <<>>)
  \o (IF HasStroke(st) THEN << <<top, st.stroke>>, <<bottom, st.stroke>> >>
                            \o (IF fa[4] > 0 THEN << <<left, st.stroke>>, <<right, st.stroke>> >> ELSE <<>>)
      ELSE <<>>)
=============================================================================
