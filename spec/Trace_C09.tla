------------------------------ MODULE Trace_C09 -----------------------------
(* (T) for C09: every recorded ImageRaw::new result, pixel() probe and every   *)
(* draw of an Image over a raw image / sub-image chain (on a draining native   *)
(* target and on a draw_iter-only target) is judged by the property-level      *)
(* predicates of P_C09.  State: the image of the current case and the failing  *)
(* observations of the case so far; ONE verdict per case is printed when the   *)
(* case ends: codes = union of the codes, detail.items = every failing         *)
(* observation with its own codes and detail.                                  *)
(* The counters in st only feed statistics (among them which transcription of  *)
(* ContiguousPixels the observed stream lengths agree with = drift); they      *)
(* never produce a verdict.                                                    *)
EXTENDS TraceBase, P_C09
VARIABLES l, img, st, acc, cur
vars == <<l, img, st, acc, cur>>

NoImg == [bpp |-> 0, ord |-> 0, w |-> 0, h |-> 0, data |-> <<>>]
Init == /\ l = 1 /\ img = NoImg /\ acc = <<>> /\ cur = 0
        /\ st = [draws |-> 0, fc_calls |-> 0, fc_len_as_pinned_machine |-> 0, fc_len_as_patched_machine |-> 0,
                 failing_observations |-> 0, clipped_draws |-> 0, huge_new_probes |-> 0, window_draws |-> 0, skipping_draws |-> 0]

FcOf(calls) == SelectSeq(calls, LAMBDA c : c.m = "fc")
DrawDetail(e, tgt, calls) ==
  LET abs == AbsChain(img, e.areas) IN
  [what |-> "draw", tgt |-> tgt, bpp |-> img.bpp, ord |-> img.ord, img |-> <<img.w, img.h>>, areas |-> e.areas,
   mode |-> e.mode, at |-> e.at, size |-> e.size,
   root |-> <<abs[1][1], abs[1][2], abs[2][1], abs[2][2]>>,
   streams |-> [i \in 1..Len(FcOf(calls)) |-> [n |-> FcOf(calls)[i].n, area |-> FcOf(calls)[i].area]]]
NewDetail(e, it) == [what |-> "new", bpp |-> e.bpp, w |-> e.w, h |-> e.h, item |-> it]
Failing(items) == SelectSeq(items, LAMBDA x : x.codes # {})

\* per event kind: the failing observations <<[codes, d]>> and the next image
ItemsNew(e) == Failing([i \in 1..Len(e.items) |-> [codes |-> NewFails(e.bpp, e.w, e.h, e.items[i]), d |-> NewDetail(e, e.items[i])]])
\* ImageRaw::new accepted `data`
ItemsImage(e) == Failing(<< [codes |-> NewFails(e.bpp, e.w, e.h, <<Len(e.data), 1, -1>>), d |-> NewDetail(e, <<Len(e.data), 1, -1>>)] >>)
ImageAfter(e) == IF Len(e.data) = ExpectedLen(e.w, e.h, e.bpp)
                 THEN [bpp |-> e.bpp, ord |-> e.ord, w |-> e.w, h |-> e.h, data |-> e.data] ELSE NoImg
\* ImageRaw::new rejected data of length e.len
ItemsNoImage(e) == Failing(<< [codes |-> NewFails(e.bpp, e.w, e.h, <<e.len, 0, ExpectedLen(e.w, e.h, e.bpp)>>), d |-> NewDetail(e, <<e.len, 0, -1>>)] >>)
ItemsPixels(e) ==
  IF img.bpp = 0 THEN <<>>
  ELSE Failing(<< [codes |-> PixelFails(img, e.probes),
                   d |-> [what |-> "pixel", bpp |-> img.bpp, ord |-> img.ord, img |-> <<img.w, img.h>>,
                          bad |-> SelectSeq(e.probes, LAMBDA p : p[3] # PixelOpt(img, <<p[1], p[2]>>))]] >>)
ItemsDraw(e) ==
  IF img.bpp = 0 THEN <<>>
  ELSE Failing(<< [codes |-> DrawFails(img, e.areas, e.mode, e.at, e.size, e.native), d |-> DrawDetail(e, "native", e.native)],
                  [codes |-> DrawFails(img, e.areas, e.mode, e.at, e.size, e.dflt), d |-> DrawDetail(e, "draw_iter_only", e.dflt)] >>)
ItemsCDraw(e) ==
  IF img.bpp = 0 THEN <<>>
  ELSE Failing(<< [codes |-> ClipDrawFails(img, e.areas, e.mode, e.at, e.size, e.clip, e.native),
                   d |-> [DrawDetail(e, "native_clipped", e.native) EXCEPT !.what = "cdraw"] @@ [clip |-> e.clip]] >>)
ItemsWDraw(e) ==
  IF img.bpp = 0 THEN <<>>
  ELSE Failing([k \in 1..Len(e.wins) |->
         [codes |-> WinDrawFails(img, e.areas, e.mode, e.at, e.size, e.wins[k].box, e.wins[k].calls),
          d |-> [what |-> "wdraw", bpp |-> img.bpp, img |-> <<img.w, img.h>>, areas |-> e.areas, mode |-> e.mode, at |-> e.at, window |-> e.wins[k].box]]])
ItemsSDraw(e) ==
  IF img.bpp = 0 THEN <<>>
  ELSE Failing([j \in 1..Len(e.obs) |->
         [codes |-> SkipDrawFails(img, e.areas, e.at, e.size, e.obs[j].k, e.obs[j].calls),
          d |-> [what |-> "sdraw", bpp |-> img.bpp, img |-> <<img.w, img.h>>, areas |-> e.areas, at |-> e.at, k |-> e.obs[j].k,
                 n |-> IF Len(e.obs[j].calls) > 0 THEN e.obs[j].calls[1].n ELSE -1]]])
ItemsHugeNew(e) ==
  Failing([i \in 1..Len(e.items) |-> [codes |-> HugeNewFails(e.bpp, e.items[i]), d |-> [what |-> "hugenew", bpp |-> e.bpp, item |-> e.items[i]]]])
StatAfterDraw(e) ==
  IF img.bpp = 0 THEN st ELSE
  LET abs == AbsChain(img, e.areas)
      ra == <<abs[1][1], abs[1][2], abs[2][1], abs[2][2]>>
      one == Len(e.native) = 1 /\ e.native[1].m = "fc"
  IN [st EXCEPT !.draws = @ + 1, !.fc_calls = @ + Len(FcOf(e.native)),
        !.fc_len_as_pinned_machine = @ + (IF one /\ e.native[1].n = CPCount(img, ra, "pinned") THEN 1 ELSE 0),
        !.fc_len_as_patched_machine = @ + (IF one /\ e.native[1].n = CPCount(img, ra, "patched") THEN 1 ELSE 0)]

\* <<failing observations, img', st'>> of a non-case event; the CASE has no OTHER: an unknown
\* event kind is a structural error (trace rejected)
Known == {"case", "new", "image", "noimage", "pixels", "draw", "cdraw", "wdraw", "sdraw", "hugenew", "giant", "deep", "panic"}
Eff(e) ==
  CASE e.ev = "new"     -> <<ItemsNew(e), img, st>>
    [] e.ev = "image"   -> <<ItemsImage(e), ImageAfter(e), st>>
    [] e.ev = "noimage" -> <<ItemsNoImage(e), img, st>>
    [] e.ev = "pixels"  -> <<ItemsPixels(e), img, st>>
    [] e.ev = "draw"    -> <<ItemsDraw(e), img, StatAfterDraw(e)>>
    [] e.ev = "wdraw"   -> <<ItemsWDraw(e), img, [st EXCEPT !.window_draws = @ + Len(e.wins)]>>
    [] e.ev = "sdraw"   -> <<ItemsSDraw(e), img, [st EXCEPT !.skipping_draws = @ + Len(e.obs)]>>
    [] e.ev = "cdraw"   -> <<ItemsCDraw(e), img, [st EXCEPT !.clipped_draws = @ + 1]>>
    [] e.ev = "giant"   -> <<Failing(<< [codes |-> GiantFails(e), d |-> [what |-> "giant", sub |-> e.sub, subcalls |-> e.subcalls, probes |-> e.probes]] >>), img, st>>
    [] e.ev = "deep"    -> <<Failing(<< [codes |-> DeepFails(e), d |-> [what |-> "deep", w |-> e.w, h |-> e.h, n |-> e.n, stack |-> e.stack]] >>), img, st>>
    [] e.ev = "hugenew" -> <<ItemsHugeNew(e), img, [st EXCEPT !.huge_new_probes = @ + Len(e.items)]>>
    [] e.ev = "panic"   -> << <<[codes |-> {"library_call_panicked"}, msg |-> e.msg, loc |-> e.loc]>>, img, st>>   \* a call that panics did not return the promised result

Flush(case, a) ==
  IF a = <<>> THEN TRUE
  ELSE Verdict(case, UNION { a[i].codes : i \in 1..Len(a) }, [what |-> "case", items |-> a])

Next == /\ l <= NRec
        /\ Rec[l].ev \in Known
        /\ (Rec[l].ev = "hugenew" => \A i \in 1..Len(Rec[l].items) : HugeNewWF(Rec[l].items[i]))
        /\ LET e == Rec[l] IN
           IF e.ev = "case"
           THEN /\ Flush(cur, acc)
                /\ acc' = <<>> /\ cur' = e.case /\ img' = NoImg /\ st' = st
                /\ IF l = NRec THEN PrintT("STAT " \o ToJson(st)) ELSE TRUE
           ELSE LET f == Eff(e)
                    drift == IF e.ev = "new" /\ \E i \in 1..Len(e.items) : ~NewExpectedOK(e.bpp, e.w, e.h, e.items[i])
                             THEN PrintT("DRIFT " \o ToJson([module |-> "EGImage", op |-> "NewT", case |-> e.case,
                                                             what |-> "expected_data_size differs from the transcribed ImageRaw::new"]))
                             ELSE TRUE
                    a == acc \o f[1]
                    s2 == [f[3] EXCEPT !.failing_observations = @ + Len(f[1])] IN
                /\ drift
                /\ acc' = a /\ cur' = cur /\ img' = f[2] /\ st' = s2
                /\ IF l = NRec THEN Flush(cur, a) /\ PrintT("STAT " \o ToJson(s2)) ELSE TRUE
        /\ l' = l + 1
Spec == Init /\ [][Next]_vars

Done == IF TLCGet("stats").diameter = NRec + 1
        THEN PrintT("TRACE-ACCEPTED " \o ToString(NRec))
        ELSE PrintT("TRACE-REJECTED at line " \o ToString(TLCGet("stats").diameter)) /\ FALSE
=============================================================================
