------------------------------- MODULE P_C08 -------------------------------
(* Property C08 — rendering is total and allocation-free on display-scale     *)
(* inputs; out-of-range coordinates / indices are rejected without a panic.   *)
(* Observation: one record per library call                                   *)
(*   [api, outcome ("returned" | "panic" | "budget"), msg, loc, allocs, steps, *)
(*    rej (-1 not applicable, 1 rejected without effect, 0 accepted),          *)
(*    stack (bytes of stack the call used, -1 = not measured: only the "deep"  *)
(*    run - dev profile, inputs with 12 000 vertices / characters - measures)] *)
(* of a case with the flat lists `coords`, `sizes` and the stroke width `w`.   *)
EXTENDS Integers, Sequences, FiniteSets

\* the domain of the property
DisplayScale(o) ==
  /\ \A j \in 1..Len(o.coords) : o.coords[j] >= -1024 /\ o.coords[j] <= 1024
  /\ \A j \in 1..Len(o.sizes) : o.sizes[j] >= 0 /\ o.sizes[j] <= 1024
  /\ o.w >= 0 /\ o.w <= 128

StackBudget == 262144
CallFails(c) ==
       (IF c.outcome # "panic" THEN {} ELSE {"panicked"})
  \cup (IF c.outcome # "budget" THEN {} ELSE {"did_not_terminate_within_step_budget"})
  \cup (IF c.allocs = 0 THEN {} ELSE {"heap_allocation"})
  \cup (IF c.rej # 0 THEN {} ELSE {"out_of_range_input_not_rejected"})
  \* a call that needs stack in proportion to the LENGTH of its input (recursion per vertex / line / character)
  \* does not terminate on a finite stack: 256 KB is far above anything a call needs for a fixed-size frame chain
  \cup (IF c.stack <= StackBudget THEN {} ELSE {"stack_use_grows_with_input_length"})
=============================================================================
