CONSTANTS
  CWs = {1, 2, 3}
  CHs = {1, 2}
  Ss = {0, 1, 2}
  GPRs = {1, 2, 4}
  RowsS = {1, 2, 3}
  Extras = {0, 1}
  MapIds = {1, 2, 3, 4, 5, 6, 7, 8}
  Repls = {0, 4}
  Alphabet = {97, 98, 101, 122}
  MaxLen = 2
  StyleSet = "full"
  Gen = TRUE
  Strict = FALSE
SPECIFICATION Spec
INVARIANTS LineOK RasterOK MappingOK GlyphOK
CHECK_DEADLOCK FALSE
