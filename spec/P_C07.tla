------------------------------- MODULE P_C07 -------------------------------
(* Property C07 — rendering commutes with translation.  A relational check,   *)
(* deliberately independent of what the picture is.  Observation o:           *)
(*   by            the offset d                                               *)
(*   map0, map1    pixel maps of x and of x.translate(d) (coloured runs)      *)
(*   box0, box1    bounding boxes;  next0, next1  text next positions         *)
(*   pts0, pts1    points() sequences (emission-order runs); cont0, cont1     *)
(*                 contains() sets (runs)                                     *)
(*   tr, trm       the objects produced by translate and translate_mut        *)
(*   poly, map2    polylines: map of the polyline with moved vertices         *)
EXTENDS EGGeom

ShiftRuns(rs, d)  == [k \in 1..Len(rs) |-> <<rs[k][1] + d[2], rs[k][2] + d[1], rs[k][3] + d[1]>>]
ShiftCRuns(rs, d) == [k \in 1..Len(rs) |-> <<rs[k][1] + d[2], rs[k][2] + d[1], rs[k][3] + d[1], rs[k][4]>>]

PairFails(o) ==
       (IF o.map1 = ShiftCRuns(o.map0, o.by) THEN {} ELSE {"pixel_map_not_shifted"})
  \cup (IF o.tr = o.trm THEN {} ELSE {"translate_mut_differs_from_translate"})
  \cup (IF IsEmpty(o.box0) \/ o.box1 = Shift(o.box0, o.by) THEN {} ELSE {"bounding_box_not_shifted"})
  \cup (IF o.pts1 = ShiftRuns(o.pts0, o.by) THEN {} ELSE {"points_not_shifted"})
  \cup (IF o.cont1 = ShiftRuns(o.cont0, o.by) THEN {} ELSE {"contains_not_shifted"})
  \cup (IF o.next0 = <<>> \/ o.next1 = <<o.next0[1] + o.by[1], o.next0[2] + o.by[2]>> THEN {} ELSE {"next_position_not_shifted"})
  \cup (IF o.poly = 0 \/ o.map2 = ShiftCRuns(o.map0, o.by) THEN {} ELSE {"moved_vertices_map_not_shifted"})
  \* the styled object moved with Styled::translate / translate_mut (for other drawables map3 = map1)
  \cup (IF o.map3 = ShiftCRuns(o.map0, o.by) THEN {} ELSE {"translated_styled_object_map_not_shifted"})
  \* texts and images: the object returned by translate / changed by translate_mut, drawn itself
  \cup (IF \A k \in 1..Len(o.objs) : o.objs[k].map = ShiftCRuns(o.map0, o.by) THEN {} ELSE {"translated_object_map_not_shifted"})
  \cup (IF \A k \in 1..Len(o.objs) : IsEmpty(o.box0) \/ o.objs[k].box = Shift(o.box0, o.by) THEN {} ELSE {"translated_object_bounding_box_not_shifted"})
  \cup (IF \A k \in 1..Len(o.objs) : o.next0 = <<>> \/ o.objs[k].next = <<o.next0[1] + o.by[1], o.next0[2] + o.by[2]>> THEN {} ELSE {"translated_object_next_position_not_shifted"})
=============================================================================
