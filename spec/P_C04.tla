------------------------------- MODULE P_C04 -------------------------------
(* Property C04 — target errors stop drawing immediately and are returned     *)
(* unchanged.  The predicates live in EGFault; this module names them for the *)
(* model (MC_C04) and the trace specification (Trace_C04).                    *)
EXTENDS EGFault
=============================================================================
