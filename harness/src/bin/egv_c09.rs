//! C09 recorder: ImageRaw / SubImage / Image.  Records what the library does (ImageRaw::new
//! results, pixel() probes, the calls an Image issues on two recording targets); judged by
//! spec/Trace_C09.tla.  No oracle.
//!
//! case descriptor: {"k":"img","bpp":1|2|4|8|16|24|32,"ord":0|1,"w":..,"h":..,"pat":0|1|2,"seed":..,
//!                   "probe":0|1,"draws":[{"areas":[[x,y,w,h],..],"mode":0|1,"at":[x,y]},..]}
//!   ord 0 = LittleEndianMsb0, 1 = BigEndianLsb0; pat 0/1 = the byte patterns of EGImage.PatByte,
//!   2 = seeded random bytes; areas = chain of sub_image() calls; mode 0 = Image::new(at),
//!   1 = Image::with_center(at); probe 1 = also record ImageRaw::new on wrong lengths and pixel().
//! 32-bit colour values are recorded as the i32 with the same bit pattern.
#[path = "../c09_c10_common.rs"]
mod common;
use common::*;
use egv::targets::LogDefault;
use egv::util::*;
use egv::*;
use embedded_graphics::image::{GetPixel, Image, ImageDrawable, ImageRaw, ImageRawError};
use embedded_graphics::iterator::raw::RawDataSlice;
use embedded_graphics::pixelcolor::raw::{BigEndianLsb0, DataOrder, LittleEndianMsb0};
use embedded_graphics::pixelcolor::*;
use embedded_graphics::{prelude::*, primitives::Rectangle};

/// draw `t` through an `Image` on both recording targets
fn draw_both<C: Col, T: ImageDrawable<Color = C>>(t: &T, mode: i64, at: Point) -> Value {
    let size = t.size();
    let image = if mode == 0 { Image::new(t, at) } else { Image::with_center(t, at) };
    let mut nat = Drain::<C>::new();
    image.draw(&mut nat).unwrap();
    let mut dfl = LogDefault::<C>::new(Rectangle::new(Point::new(-64, -64), Size::new(128, 128)));
    image.draw(&mut dfl).unwrap();
    json!({"size": [size.width, size.height], "native": nat.calls, "dflt": default_calls(&dfl.calls)})
}

/// draw `t` through an `Image` on draining targets that REPORT a small window as their bounding box
fn draw_windows<C: Col, T: ImageDrawable<Color = C>>(t: &T, mode: i64, at: Point) -> Value {
    let size = t.size();
    let image = if mode == 0 { Image::new(t, at) } else { Image::with_center(t, at) };
    let bb = image.bounding_box();
    let (w, h) = (bb.size.width as i32, bb.size.height as i32);
    let big = Size::new(w as u32 + 2, h as u32 + 2);
    let mut wins = vec![];
    for win in [Rectangle::new(bb.top_left + Point::new(w / 2, h / 2), big), Rectangle::new(bb.top_left - Point::new(w / 2 + 2, h / 2 + 2), big),
                Rectangle::new(bb.top_left + Point::new(w, 1), big), Rectangle::new(bb.top_left + Point::new(1, 1), Size::zero())] {
        let mut nat = Drain::<C>::new();
        nat.bbox = win;
        image.draw(&mut nat).unwrap();
        wins.push(json!({"box": rect_json(&win), "calls": nat.calls}));
    }
    json!({"size": [size.width, size.height], "wins": wins})
}

/// draw `t` through an `Image` on draining targets that discard the first k colours of the stream with one nth() call
fn draw_skipping<C: Col, T: ImageDrawable<Color = C>>(t: &T, at: Point) -> Value {
    let size = t.size();
    let image = Image::new(t, at);
    let (w, h) = (size.width as usize, size.height as usize);
    let mut obs = vec![];
    for k in [1usize, w, w + 1, 2 * w, 2 * w + 1, 3 * w + w / 2, w * h.saturating_sub(1), w * h, w * h + 3] {
        if k == 0 {
            continue;
        }
        let mut nat = Drain::<C>::new();
        nat.skip = k;
        image.draw(&mut nat).unwrap();
        obs.push(json!({"k": k, "calls": nat.calls}));
    }
    json!({"size": [size.width, size.height], "obs": obs})
}

/// draw `t` through an `Image` on the draining target seen through `.clipped(clip)`: the adapter crops the
/// colour stream with `Iterator::nth` (src/iterator/contiguous.rs), i.e. it SEEKS in the image's colour iterator
fn draw_clipped<C: Col, T: ImageDrawable<Color = C>>(t: &T, mode: i64, at: Point, clip: &Rectangle) -> Value {
    let size = t.size();
    let image = if mode == 0 { Image::new(t, at) } else { Image::with_center(t, at) };
    let mut nat = Drain::<C>::new();
    image.draw(&mut nat.clipped(clip)).unwrap();
    json!({"size": [size.width, size.height], "native": nat.calls})
}

fn bytes_per_row(w: usize, bpp: usize) -> usize {
    (w * bpp + 7) / 8
}

fn run<C, O>(rec: &mut Rec, d: &Value)
where
    C: Col,
    O: DataOrder,
    for<'a> RawDataSlice<'a, C::Raw, O>: IntoIterator<Item = C::Raw>,
{
    let (bpp, ord) = (i(&d["bpp"]), i(&d["ord"]));
    let (w, h) = (i(&d["w"]) as u32, i(&d["h"]) as u32);
    let (pat, seed) = (i(&d["pat"]), i(&d["seed"]) as u64);
    let size = Size::new(w, h);
    let want = bytes_per_row(w as usize, bpp as usize) * h as usize;
    rec.begin(d.clone());
    if i(&d["probe"]) == 1 {
        // ImageRaw::new on the required length and on near misses
        let mut lens = vec![want, want + 1, want + bytes_per_row(w as usize, bpp as usize), (w as usize * h as usize * bpp as usize + 7) / 8, 0];
        if want > 0 {
            lens.push(want - 1);
        }
        lens.sort();
        lens.dedup();
        let items: Vec<Value> = lens
            .iter()
            .map(|&len| {
                let data = pat_data(pat, seed, len);
                // new_const is the same constructor for const contexts: it panics exactly when new() returns an error
                let r_new = ImageRaw::<C, O>::new(&data, size);
                let const_ok = catch(|| ImageRaw::<C, O>::new_const(&data, size).size() == size).unwrap_or(false);
                if const_ok != r_new.is_ok() {
                    // reported as a third outcome (2 / 3) so that the acceptance rule of the trace spec fails for it
                    return json!([len, if const_ok { 3 } else { 2 }, -1]);
                }
                match r_new {
                    Ok(_) => json!([len, 1, -1]),
                    Err(ImageRawError::InvalidDataSize { expected_data_size }) => json!([len, 0, expected_data_size]),
                }
            })
            .collect();
        rec.ev("new", json!({"bpp": bpp, "ord": ord, "w": w, "h": h, "items": items}));
    }
    let data = pat_data(pat, seed, want);
    let raw = match ImageRaw::<C, O>::new(&data, size) {
        Ok(r) => r,
        Err(_) => {
            // recorded above as a `new` item when probing; nothing else can be observed
            rec.ev("noimage", json!({"bpp": bpp, "ord": ord, "w": w, "h": h, "len": want}));
            return;
        }
    };
    rec.ev("image", json!({"bpp": bpp, "ord": ord, "w": w, "h": h, "data": data}));
    if w > 0 && h > 0 {
        rec.nontrivial();
    }
    if i(&d["probe"]) == 1 {
        let mut probes = vec![];
        let mut pts = vec![];
        for y in -2..h as i32 + 2 {
            for x in -2..w as i32 + 2 {
                pts.push(Point::new(x, y));
            }
        }
        for p in [(1000, 0), (0, 1000), (-1000, -1000), (i32::MAX, 0), (0, i32::MAX), (i32::MIN, 0), (0, i32::MIN), (i32::MAX, i32::MAX)] {
            pts.push(Point::new(p.0, p.1));
        }
        for p in pts {
            let v = match catch(|| raw.pixel(p)) {
                Ok(Some(c)) => json!([ci(c)]),
                Ok(None) => json!([]),
                Err(pn) => {
                    rec.ev("panic", json!({"msg": pn.msg, "loc": pn.loc}));
                    continue;
                }
            };
            probes.push(json!([p.x, p.y, v]));
        }
        rec.ev("pixels", json!({ "probes": probes }));
    }
    for dr in d["draws"].as_array().unwrap() {
        let areas: Vec<Rectangle> = dr["areas"].as_array().unwrap().iter().map(rect_from).collect();
        let mode = i(&dr["mode"]);
        let at = pt_from(&dr["at"]);
        if let Some(c) = dr.get("clip") {
            let clip = rect_from(c);
            let r = catch(|| match areas.len() {
                0 => draw_clipped(&raw, mode, at, &clip),
                1 => draw_clipped(&raw.sub_image(&areas[0]), mode, at, &clip),
                2 => draw_clipped(&raw.sub_image(&areas[0]).sub_image(&areas[1]), mode, at, &clip),
                n => panic!("harness: chain length {} not supported with a clip", n),
            });
            match r {
                Ok(o) => rec.ev("cdraw", json!({"areas": dr["areas"], "mode": mode, "at": dr["at"], "clip": c, "size": o["size"], "native": o["native"]})),
                Err(pn) => {
                    rec.note("panicked_draws");
                    rec.ev("panic", json!({"msg": pn.msg, "loc": pn.loc}));
                }
            }
            continue;
        }
        // every seventh draw also on targets that skip into the stream
        if (areas.len() + at.x.unsigned_abs() as usize + 2 * at.y.unsigned_abs() as usize + w as usize + h as usize) % 7 == 0 && areas.len() <= 2 && mode == 0 {
            let r = catch(|| match areas.len() {
                0 => draw_skipping(&raw, at),
                1 => draw_skipping(&raw.sub_image(&areas[0]), at),
                _ => draw_skipping(&raw.sub_image(&areas[0]).sub_image(&areas[1]), at),
            });
            match r {
                Ok(o) => rec.ev("sdraw", json!({"areas": dr["areas"], "at": dr["at"], "size": o["size"], "obs": o["obs"]})),
                Err(pn) => {
                    rec.note("panicked_draws");
                    rec.ev("panic", json!({"msg": pn.msg, "loc": pn.loc}));
                }
            }
        }
        // every fifth draw also on window targets
        if (areas.len() + at.x.unsigned_abs() as usize + at.y.unsigned_abs() as usize + w as usize) % 5 == 0 && areas.len() <= 2 {
            let r = catch(|| match areas.len() {
                0 => draw_windows(&raw, mode, at),
                1 => draw_windows(&raw.sub_image(&areas[0]), mode, at),
                _ => draw_windows(&raw.sub_image(&areas[0]).sub_image(&areas[1]), mode, at),
            });
            match r {
                Ok(o) => rec.ev("wdraw", json!({"areas": dr["areas"], "mode": mode, "at": dr["at"], "size": o["size"], "wins": o["wins"]})),
                Err(pn) => {
                    rec.note("panicked_draws");
                    rec.ev("panic", json!({"msg": pn.msg, "loc": pn.loc}));
                }
            }
        }
        let r = catch(|| match areas.len() {
            0 => draw_both(&raw, mode, at),
            1 => draw_both(&raw.sub_image(&areas[0]), mode, at),
            2 => draw_both(&raw.sub_image(&areas[0]).sub_image(&areas[1]), mode, at),
            3 => draw_both(&raw.sub_image(&areas[0]).sub_image(&areas[1]).sub_image(&areas[2]), mode, at),
            n => panic!("harness: chain length {} not supported", n),
        });
        match r {
            Ok(o) => rec.ev(
                "draw",
                json!({"areas": dr["areas"], "mode": mode, "at": dr["at"], "size": o["size"], "native": o["native"], "dflt": o["dflt"]}),
            ),
            Err(pn) => {
                rec.note("panicked_draws");
                rec.ev("panic", json!({"msg": pn.msg, "loc": pn.loc}));
            }
        }
    }
}

/// ImageRaw::new on sizes whose required length is astronomically large, with short buffers: must be a plain Err
/// (or Ok for len 0 when a side is zero).  Sizes are recorded as 16-bit halves (TLC integers are 32 bit).
fn run_huge<C, O>(rec: &mut Rec, d: &Value)
where
    C: Col,
    O: DataOrder,
    for<'a> RawDataSlice<'a, C::Raw, O>: IntoIterator<Item = C::Raw>,
{
    rec.begin(d.clone());
    let m = u32::MAX;
    let sizes: [(u32, u32); 16] = [(m, m), (1 << 31, 1 << 31), (178_956_971, 1), (1 << 29, 1), (1 << 30, 2), (m, 1), (1, m), (0, m), (m, 0),
        (65536, 65536), (536_870_912, 8), (134_217_728, 1), (268_435_456, 1), (4097, 1), (3, 4097), (1_431_655_766, 3)];
    let mut items = vec![];
    for (w, h) in sizes {
        for len in [0usize, 1, 2, 3, 4, 8, 16, 64] {
            let data = vec![0x5au8; len];
            match catch(|| ImageRaw::<C, O>::new(&data, Size::new(w, h)).is_ok()) {
                Ok(acc) => items.push(json!([w >> 16, w & 0xffff, h >> 16, h & 0xffff, len, acc as i32])),
                Err(pn) => {
                    rec.note("panicked_new");
                    rec.ev("panic", json!({"msg": format!("ImageRaw::new(len {}, {}x{}): {}", len, w, h, pn.msg), "loc": pn.loc}));
                }
            }
        }
    }
    rec.nontrivial();
    rec.ev("hugenew", json!({"bpp": i(&d["bpp"]), "items": items}));
}

/// One image with more than 2^32 pixels (1 bpp, 65536 x 65540, 512 MiB of lazily zeroed memory of which a few pages are
/// touched): a sub-image behind raw pixel index 2^32, pixel() there, and the whole image on a target that stops reading.
fn run_giant(rec: &mut Rec, d: &Value) {
    rec.begin(d.clone());
    let (w, h) = (65536u32, 65540u32);
    let bpr = (w / 8) as usize;
    let mut data = vec![0u8; bpr * h as usize];
    let (sx, sy) = (8i32, 65536i32);
    let rowbytes = [[0xA5u8], [0x3Cu8]];
    for (k, rb) in rowbytes.iter().enumerate() {
        data[(sy as usize + k) * bpr + (sx / 8) as usize] = rb[0];
    }
    let r = catch(|| {
        let raw = ImageRaw::<BinaryColor>::new(&data, Size::new(w, h)).expect("giant image");
        let sub = raw.sub_image(&Rectangle::new(Point::new(sx, sy), Size::new(8, 2)));
        let mut t = Drain::<BinaryColor>::new();
        Image::new(&sub, Point::new(-3, 5)).draw(&mut t).unwrap();
        let probes: Vec<Value> = [(sx, sy), (sx + 2, sy), (sx + 7, sy + 1), (sx + 3, sy + 1), (0, 0), (65535, 65539), (65536, 0), (0, 65540), (sx, -1)]
            .iter()
            .map(|&(x, y)| match raw.pixel(Point::new(x, y)) {
                Some(c) => json!([x, y, [ci(c)]]),
                None => json!([x, y, []]),
            })
            .collect();
        let mut tw = Drain::<BinaryColor>::new();
        tw.store_cap = 64;
        Image::new(&raw, Point::zero()).draw(&mut tw).unwrap();
        json!({"size": [w, h], "sub": [sx, sy, 8, 2], "at": [-3, 5], "rowbytes": [[0xA5], [0x3C]], "subcalls": t.calls, "probes": probes, "whole": tw.calls,
               "cap": HARD_CAP})
    });
    match r {
        Ok(o) => {
            rec.nontrivial();
            rec.ev("giant", o);
        }
        Err(pn) => {
            rec.note("panicked_giant");
            rec.ev("panic", json!({"msg": pn.msg, "loc": pn.loc}));
        }
    }
}

fn run_case(rec: &mut Rec, d: &Value) {
    if d["k"].as_str() == Some("giant") {
        return run_giant(rec, d);
    }
    if d["k"].as_str() == Some("huge") {
        type LE = LittleEndianMsb0;
        type BE = BigEndianLsb0;
        return match (i(&d["bpp"]), i(&d["ord"])) {
            (1, 0) => run_huge::<BinaryColor, LE>(rec, d),
            (2, 1) => run_huge::<Gray2, BE>(rec, d),
            (4, 0) => run_huge::<Gray4, LE>(rec, d),
            (8, 1) => run_huge::<Gray8, BE>(rec, d),
            (16, 0) => run_huge::<Rgb565, LE>(rec, d),
            (24, 1) => run_huge::<Rgb888, BE>(rec, d),
            (24, 0) => run_huge::<Rgb888, LE>(rec, d),
            (32, 0) => run_huge::<C32, LE>(rec, d),
            f => panic!("unknown huge format {:?}", f),
        };
    }
    assert_eq!(d["k"].as_str(), Some("img"), "unknown case kind");
    type LE = LittleEndianMsb0;
    type BE = BigEndianLsb0;
    match (i(&d["bpp"]), i(&d["ord"])) {
        (1, 0) => run::<BinaryColor, LE>(rec, d),
        (1, 1) => run::<BinaryColor, BE>(rec, d),
        (2, 0) => run::<Gray2, LE>(rec, d),
        (2, 1) => run::<Gray2, BE>(rec, d),
        (4, 0) => run::<Gray4, LE>(rec, d),
        (4, 1) => run::<Gray4, BE>(rec, d),
        (8, 0) => run::<Gray8, LE>(rec, d),
        (8, 1) => run::<Gray8, BE>(rec, d),
        (16, 0) => run::<Rgb565, LE>(rec, d),
        (16, 1) => run::<Rgb565, BE>(rec, d),
        (24, 0) => run::<Rgb888, LE>(rec, d),
        (24, 1) => run::<Rgb888, BE>(rec, d),
        (32, 0) => run::<C32, LE>(rec, d),
        (32, 1) => run::<C32, BE>(rec, d),
        f => panic!("unknown format {:?}", f),
    }
}

/// the fixed set of 13 requested areas relative to a parent of size (w, h): whole, inside,
/// overlapping each edge, outside, zero-sized, larger, single pixels
fn area_set(w: i32, h: i32) -> Vec<[i32; 4]> {
    vec![
        [0, 0, w, h],
        [1, 1, (w - 2).max(0), (h - 2).max(0)],
        [-1, 0, 2, h],
        [w - 1, 0, 3, h],
        [0, -2, w, 3],
        [0, h - 1, w, 2],
        [w, 0, 2, 2],
        [-3, -3, 2, 2],
        [1, 1, 0, 2],
        [-1, -1, w + 2, h + 2],
        [0, 0, 1, 1],
        [w / 2, h / 2, (w + 1) / 2, 1],
        [w - 1, h - 1, 1, 1],
    ]
}
/// size of the part of `a` inside a parent of size (w, h) -- used only to CHOOSE the areas of the
/// next nesting level (the recorded behaviour does not depend on it)
fn inner_size(w: i32, h: i32, a: &[i32; 4]) -> (i32, i32) {
    let (l, r) = (a[0].max(0), (a[0] + a[2]).min(w));
    let (t, b) = (a[1].max(0), (a[1] + a[3]).min(h));
    ((r - l).max(0), (b - t).max(0))
}
fn draw_json(areas: &[[i32; 4]], mode: i64, at: (i32, i32)) -> Value {
    json!({"areas": areas, "mode": mode, "at": [at.0, at.1]})
}

const BPPS: [i64; 7] = [1, 2, 4, 8, 16, 24, 32];

/// "@deep" run (dev-profile build): images that are very long in one direction and degenerate or one pixel wide in the
/// other, drawn on a target that drains the colour stream; the stack every draw uses is measured. A colour stream
/// that needs stack per (empty) row or column overflows a real stack for tall images.
struct Pull<C> {
    n: u64,
    calls: u32,
    _c: std::marker::PhantomData<C>,
}
impl<C: PixelColor> Dimensions for Pull<C> {
    fn bounding_box(&self) -> Rectangle {
        Rectangle::new(Point::new(-1_000_000, -1_000_000), Size::new(3_000_000, 3_000_000))
    }
}
impl<C: PixelColor> DrawTarget for Pull<C> {
    type Color = C;
    type Error = core::convert::Infallible;
    fn draw_iter<I: IntoIterator<Item = Pixel<C>>>(&mut self, px: I) -> Result<(), Self::Error> {
        self.calls += 1;
        self.n += px.into_iter().count() as u64;
        Ok(())
    }
    fn fill_contiguous<I: IntoIterator<Item = C>>(&mut self, _area: &Rectangle, colors: I) -> Result<(), Self::Error> {
        self.calls += 1;
        for _ in colors {
            self.n += 1;
        }
        Ok(())
    }
}
fn deep_cases() -> Vec<Value> {
    let mut v = vec![];
    for (bpp, w, h) in [(1i64, 0u32, 200_000u32), (8, 0, 120_000), (24, 0, 65_536), (16, 200_000, 0), (1, 1, 100_000), (8, 100_000, 1), (32, 0, 150_000)] {
        v.push(json!({"k": "deep", "bpp": bpp, "w": w, "h": h}));
    }
    v
}
fn run_deep(rec: &mut Rec, d: &Value) {
    rec.begin(d.clone());
    let (bpp, w, h) = (i(&d["bpp"]), i(&d["w"]) as u32, i(&d["h"]) as u32);
    let len = ((w as usize * bpp as usize + 7) / 8) * h as usize;
    let data: Vec<u8> = (0..len).map(|j| (j * 29 + 3) as u8).collect();
    let r = egv::stackprobe::in_deep_thread(|| {
        catch(|| {
            macro_rules! go {
                ($ct:ty) => {{
                    let img = ImageRaw::<$ct>::new(&data, Size::new(w, h)).unwrap();
                    let mut out = vec![];
                    // the whole image, and its lower / right half as a sub-image
                    let ((), s1) = egv::stackprobe::measure(|| {
                        let mut t = Pull::<$ct> { n: 0, calls: 0, _c: std::marker::PhantomData };
                        Image::new(&img, Point::new(3, -4)).draw(&mut t).unwrap();
                        out.push(t.n);
                    });
                    let ((), s2) = egv::stackprobe::measure(|| {
                        let mut t = Pull::<$ct> { n: 0, calls: 0, _c: std::marker::PhantomData };
                        let sub = img.sub_image(&Rectangle::new(Point::new(0, (h / 2) as i32), Size::new(w.max(1), h)));
                        Image::new(&sub, Point::zero()).draw(&mut t).unwrap();
                        out.push(t.n);
                    });
                    (out, s1.max(s2))
                }};
            }
            match bpp {
                1 => go!(BinaryColor),
                8 => go!(Gray8),
                16 => go!(Rgb565),
                24 => go!(Rgb888),
                _ => go!(Rgb888),
            }
        })
    });
    match r {
        Ok((n, stack)) => {
            rec.nontrivial();
            // colour counts split into 16-bit halves would be overkill: w * h <= 200 000 here
            rec.ev("deep", json!({"bpp": bpp, "w": w, "h": h, "n": n, "stack": stack}));
        }
        Err(p) => rec.ev("panic", json!({"msg": p.msg, "loc": p.loc})),
    }
}

fn main() {
    let args = Args::parse();
    install_panic_hook();
    let mut rec = Rec::new(&args);
    if args.tier == "deep" {
        for d in args.cases.clone().unwrap_or_else(deep_cases) {
            run_deep(&mut rec, &d);
        }
        rec.finish(json!({}));
        return;
    }
    let mut rng = Rng::new(args.seed ^ 0xC09);
    if let Some(cases) = &args.cases {
        for d in cases {
            run_case(&mut rec, d);
        }
        rec.finish(json!({}));
        return;
    }
    for d in args.gen.iter().chain(args.witnesses.iter()) {
        run_case(&mut rec, d);
    }
    // enumerated part: every size (every width mod pixels-per-byte) x 14 formats x 3 byte patterns
    let (wmax, hmax) = if args.thorough() { (17, 6) } else { (9, 5) };
    let mut rot = 0usize;
    for &bpp in &BPPS {
        for ord in 0..2 {
            for w in 0..=wmax {
                for h in 0..=hmax {
                    for pat in 0..3 {
                        let mut draws = vec![draw_json(&[], 0, (0, 0)), draw_json(&[], 0, (-3, 2)), draw_json(&[], 1, (4, 3))];
                        let set = area_set(w, h);
                        for (k, a) in set.iter().enumerate() {
                            draws.push(draw_json(&[*a], (k % 2) as i64, if k % 3 == 0 { (0, 0) } else { (-3, 2) }));
                            // nested: three areas of the set of the inner size, rotating through the set
                            let (iw, ih) = inner_size(w, h, a);
                            let inner = area_set(iw, ih);
                            for j in 0..3 {
                                rot += 5;
                                let b = inner[rot % inner.len()];
                                draws.push(draw_json(&[*a, b], (j % 2) as i64, (j as i32 - 1, 2 - j as i32)));
                            }
                        }
                        // through `.clipped(clip)`: clips that cut rows off the top (the crop seeks over several
                        // row gaps at once), columns off either side (a seek per row), the bottom, everything
                        if pat == 2 || (w + h) % 2 == 0 {
                            let (x0, y0) = (-3, 2);
                            let clips = [[x0 + 1, y0 + 2, w, h], [x0 - 1, y0 + 1, w, h], [x0 + w / 2, y0 + 3, w, 1], [x0, y0 - 1, (w - 1).max(0), h],
                                         [x0 + 1, y0 + 2, (w - 2).max(0), 2], [x0 + w, y0, 2, 2], [x0 - 5, y0 - 5, w + 10, h + 10]];
                            for (k, c) in clips.iter().enumerate() {
                                let mut dj = draw_json(&[], 0, (x0, y0));
                                dj["clip"] = json!(c);
                                draws.push(dj);
                                // the same through a sub-image that is narrower than its parent (row gap = parent pixels)
                                let a = set[[1usize, 3, 11, 2, 5][(k + rot) % 5]];
                                let mut dj = draw_json(&[a], 0, (x0, y0));
                                dj["clip"] = json!(c);
                                draws.push(dj);
                            }
                        }
                        let d = json!({"k":"img","bpp":bpp,"ord":ord,"w":w,"h":h,"pat":pat,
                                       "seed": (args.seed.wrapping_mul(1000003) ^ ((w as u64) << 20 | (h as u64) << 10 | bpp as u64)) & 0x7fff_ffff,
                                       "probe":1,"draws":draws});
                        run_case(&mut rec, &d);
                    }
                }
            }
        }
    }
    // ImageRaw::new on huge sizes
    for (bpp, ord) in [(1, 0), (2, 1), (4, 0), (8, 1), (16, 0), (24, 1), (24, 0), (32, 0)] {
        run_case(&mut rec, &json!({"k":"huge","bpp":bpp,"ord":ord}));
    }
    run_case(&mut rec, &json!({"k":"giant"}));
    // seeded part: random sizes, random chains (depth <= 3), random data, with_center in all parities
    let (n, smax_w, smax_h) = if args.thorough() { (100_000, 33, 9) } else { (3_000, 12, 6) };
    for _ in 0..n {
        let bpp = *rng.pick(&BPPS);
        let ord = rng.i32(0, 1);
        let w = rng.i32(0, smax_w);
        let h = rng.i32(0, smax_h);
        let mut draws = vec![];
        for _ in 0..6 {
            let depth = rng.usize(0, 3);
            let (mut pw, mut ph) = (w, h);
            let mut areas = vec![];
            for _ in 0..depth {
                let a = if rng.chance(1, 3) {
                    *rng.pick(&area_set(pw, ph))
                } else {
                    [rng.i32(-2, pw + 1), rng.i32(-2, ph + 1), rng.i32(0, pw + 2), rng.i32(0, ph + 2)]
                };
                let s = inner_size(pw, ph, &a);
                pw = s.0;
                ph = s.1;
                areas.push(a);
            }
            let at = (rng.i32(-9, 9), rng.i32(-9, 9));
            let mut dj = draw_json(&areas, rng.i32(0, 1) as i64, at);
            if areas.len() <= 2 && rng.chance(1, 3) {
                dj["mode"] = json!(0);
                dj["clip"] = json!([at.0 + rng.i32(-2, pw), at.1 + rng.i32(-2, ph), rng.i32(0, pw + 2), rng.i32(0, ph + 2)]);
            }
            draws.push(dj);
        }
        let d = json!({"k":"img","bpp":bpp,"ord":ord,"w":w,"h":h,"pat":2,"seed":rng.u32() >> 1,"probe":rng.i32(0, 1),"draws":draws});
        run_case(&mut rec, &d);
    }
    rec.finish(json!({}));
}
