------------------------------- MODULE MC_C17 ------------------------------
(* (M) for C17.  Two machines transcribed in EGLine are stepped action by     *)
(* action and the clauses of P_C17 are invariants of them:                    *)
(*  thin  : line::Points — one Next step = one call of next() (points.rs:50,  *)
(*          bresenham.rs:140) for every delta in [-R, R]^2 from two starts;   *)
(*  thick : ThickPoints  — one Next step = one call of next()                 *)
(*          (thick_points.rs:232) for every delta in [-RT, RT]^2, w <= WMax.  *)
(* Every explored case is printed as a (G) descriptor, so the recorder        *)
(* replays exactly these lines into the real code.                            *)
EXTENDS P_C17, TLC, Json
CONSTANTS R, RT, WMax, Gen, Broken
VARIABLES mode, ln, it, out, done
vars == <<mode, ln, it, out, done>>

Starts == { <<0, 0>>, <<-3, 5>> }
ThinCases  == { [s |-> s, e |-> <<s[1] + dx, s[2] + dy>>, w |-> 1] : s \in Starts, dx \in (-R)..R, dy \in (-R)..R }
ThickCases == { [s |-> <<2, -1>>, e |-> <<2 + dx, dy - 1>>, w |-> w] : dx \in (-RT)..RT, dy \in (-RT)..RT, w \in 1..WMax }
\* the witnesses of the open known finding D17 (wide strokes at slopes around 1:2), for MC_C17_d17.cfg: TLC must
\* find the violation of ThickEndOK in the MODEL, i.e. the defect is a property of the algorithm as designed
D17Cases == { [s |-> <<3, -2>>, e |-> <<26, 10>>, w |-> 40] }
NoCases == {}
GenLine(c) == Gen => PrintT("GEN " \o ToJson([k |-> "line", s |-> c.s, e |-> c.e, ws |-> <<c.w>>]))

Init == \/ \E c \in ThinCases :
             mode = "thin" /\ ln = c /\ it = LPInit(c.s, c.e) /\ out = <<>> /\ done = FALSE /\ GenLine(c)
        \/ \E c \in ThickCases :
             mode = "thick" /\ ln = c /\ it = ThickInit(c.s, c.e, c.w) /\ out = <<>> /\ done = FALSE /\ GenLine(c)

\* negative control (Broken = TRUE): a Bresenham that forgets the minor step from the third point on
BrokenPt(prev, p) ==
  LET d == PSub(ln.e, ln.s) IN
  IF Abs(d[1]) >= Abs(d[2]) THEN <<p[1], prev[2]>> ELSE <<prev[1], p[2]>>
\* one call of line::Points::next()
StepThin ==
  /\ mode = "thin" /\ ~done
  /\ LET r == LPNext(it) IN
       IF r[1] THEN /\ out' = Append(out, IF Broken /\ Len(out) >= 2 THEN BrokenPt(out[Len(out)], r[2]) ELSE r[2])
                    /\ it' = r[3] /\ done' = FALSE
       ELSE out' = out /\ it' = it /\ done' = TRUE
  /\ UNCHANGED <<mode, ln>>
\* one call of ThickPoints::next()
StepThick ==
  /\ mode = "thick" /\ ~done
  /\ LET r == ThickNext(it) IN
       IF r[1] THEN out' = Append(out, r[2]) /\ it' = r[3] /\ done' = FALSE
       ELSE out' = out /\ it' = it /\ done' = TRUE
  /\ UNCHANGED <<mode, ln>>
Next == StepThin \/ StepThick
Spec == Init /\ [][Next]_vars

M  == MajorLen(ln.s, ln.e)
D  == PSub(ln.e, ln.s)
D2 == LenSq(D)
n  == Len(out)

\* points_remaining counts down: emitted + remaining = major length + 1
ThinCountsDown == mode = "thin" => it.rem + n = M + 1 /\ it.rem >= 0
\* the error, after the pending minor correction, stays in (-M, M]
ThinErrorRange == mode = "thin" =>
  LET ec == IF it.b.err > it.par.thr THEN it.b.err - it.par.esMinor ELSE it.b.err IN
  ec <= M /\ (ec > -M \/ (M = 0 /\ ec = 0))
\* the error accumulator is twice the cross product of the current point with the ideal line
ThinErrIsCross == mode = "thin" => Abs(it.b.err) = 2 * Abs(Cross(D, PSub(it.b.pt, ln.s)))
\* the clauses on the last step / last point (every prefix is a state)
ThinStepOK == (mode = "thin" /\ n >= 2) =>
  LET a == out[n - 1]   b == out[n]
      mj == IF Abs(D[1]) >= Abs(D[2]) THEN 1 ELSE 2   mn == 3 - mj IN
  Abs(b[mj] - a[mj]) = 1 /\ Abs(b[mn] - a[mn]) <= 1
ThinDistOK == (mode = "thin" /\ n >= 1 /\ M > 0) => WithinHalf(D2, ISqrt(D2), Cross(D, PSub(out[n], ln.s)))
\* at the end: the whole property-level battery
ThinEndOK == (mode = "thin" /\ done) => ThinFails(ln.s, ln.e, out) = {}

ThickRemBound == mode = "thick" => it.rem >= 0 /\ it.rem <= it.len
ThickPrefixOK == (mode = "thick" /\ n >= 1) =>
  /\ IsInjective(out)
  /\ M > 0 => LET v == PSub(out[n], ln.s) IN
              /\ DistLeHalves(D2, ISqrt(D2), Cross(D, v), ln.w + 5)
              /\ ProjWithinEnds(D2, ISqrt(D2), Dot(v, D))
ThickEndOK == (mode = "thick" /\ done) =>
  StrokeFails(ln.s, ln.e, ln.w, LinePoints(ln.s, ln.e), out, IsInjective(out), "") = {}
\* stroke width 1 is the thin line, as sequences (stronger than the property: design-level only)
ThickW1IsThin == (mode = "thick" /\ done /\ ln.w = 1) => out = LinePoints(ln.s, ln.e)
\* C02 at the design level for stroked lines: every point the ThickPoints machine returns lies inside the transcribed
\* styled bounding box (Line::extents -> Rectangle::with_corners, EGLine!LineStyledBoxT)
LineBoxUsed == LineStyledBoxT(ln.s, ln.e, ln.w)
\* negative control (cfg: LineBoxUsed <- LineBoxOneSided): only the left extent and the line itself
LineBoxOneSided == LET x == ExtentsT(ln.s, ln.e, ln.w) IN Envelope(WithCorners(x[1][1], x[1][2]), WithCorners(ln.s, ln.e))
ThickInsideStyledBox == (mode = "thick" /\ n >= 1) => InRect(LineBoxUsed, out[n])
\* the extents are parallels of the line: both have the line's direction, and the centre line lies between them
ExtentsParallel == mode = "thick" =>
  LET x == ExtentsT(ln.s, ln.e, ln.w) IN
  \A k \in 1..2 : LET dd == PSub(x[k][2], x[k][1]) IN dd = D \/ dd = PSub(D, PAdd(it.iter.par.psMajor, it.iter.par.psMinor))
=============================================================================
