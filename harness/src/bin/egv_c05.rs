//! C05 recorder: points() vs contains().  Records both; judged by spec/Trace_C05.tla.
use egv::shapes::*;
use egv::util::*;
use egv::*;
use embedded_graphics::prelude::*;
use std::collections::BTreeSet;

/// emission-order runs of a point sequence (lossless): consecutive points (x+1, same y) are merged
fn seq_runs(pts: &[Point]) -> Value {
    let mut out: Vec<Value> = vec![];
    let mut cur: Option<(i32, i32, i32)> = None;
    for p in pts {
        match cur {
            Some((y, x0, x1)) if p.y == y && p.x == x1 + 1 => cur = Some((y, x0, p.x)),
            Some((y, x0, x1)) => {
                out.push(json!([y, x0, x1]));
                cur = Some((p.y, p.x, p.x));
            }
            None => cur = Some((p.y, p.x, p.x)),
        }
    }
    if let Some((y, x0, x1)) = cur {
        out.push(json!([y, x0, x1]));
    }
    Value::Array(out)
}

fn run_case(rec: &mut Rec, d: &Value) {
    if d["k"].as_str() == Some("big") {
        return run_big(rec, d);
    }
    let s = Shape::from_desc(d);
    rec.begin(d.clone());
    let r = catch(|| {
        let bb = s.bounding_box();
        let area = bb.size.width as usize * bb.size.height as usize;
        let (pts, done) = s.points(area + 64);
        let m = 2;
        let mut c = BTreeSet::new();
        // ... and the same hit test through the ContainsPoint trait: the probes where the two routes disagree
        let mut ctd = vec![];
        for y in bb.top_left.y - m..bb.top_left.y + bb.size.height as i32 + m {
            for x in bb.top_left.x - m..bb.top_left.x + bb.size.width as i32 + m {
                let r = s.contains(Point::new(x, y));
                if r {
                    c.insert((y, x));
                }
                if s.contains_via_trait(Point::new(x, y)) != r && ctd.len() < 8 {
                    ctd.push(json!([x, y]));
                }
            }
        }
        let mut far = vec![];
        for (dx, dy) in [(-40, 0), (0, -40), (37, 41), (-45, -33), (60, 0), (0, 57)] {
            for base in [bb.top_left, bb.top_left + bb.size] {
                let p = base + Point::new(dx, dy);
                if !bb.contains(p) {
                    far.push(json!([p.x, p.y, s.contains(p) as i32]));
                }
            }
        }
        // very far probes (the circle based hit tests squared an i32 distance before the repair D27: a panic with
        // overflow checks, and without them e.g. a point 139 000 px away whose wrapped squared distance is 98)
        if let Shape::Circle(c) = &s {
            if c.diameter % 2 == 0 && c.diameter >= 10 {
                let c2 = c.top_left * 2 + Point::new(c.diameter as i32 - 1, c.diameter as i32 - 1);
                let p = Point::new((c2.x - 46375) / 2, (c2.y - 274151) / 2);
                far.push(json!([p.x, p.y, s.contains(p) as i32]));
            }
        }
        if matches!(s, Shape::Rect(_) | Shape::Ellipse(_) | Shape::RRect(_) | Shape::Triangle(_) | Shape::Circle(_) | Shape::Sector(..)) {
            // (until the repair D34 these probes were kept inside the range in which the 64-bit products of the
            // ellipse test are exact - beyond it the test panicked / wrapped; that restriction hid the defect)
            for dd in [23_171i32, 32_778, 65_537, 1_000_003, 16_700_000, 134_217_803, 268_435_606] {
                for (sx, sy) in [(1, 0), (0, 1), (-1, 0), (0, -1), (1, 1), (-1, 1)] {
                    let p = bb.center() + Point::new(sx * dd, sy * dd);
                    if !bb.contains(p) {
                        far.push(json!([p.x, p.y, s.contains(p) as i32]));
                    }
                }
            }
        }
        // the same sequence through count() / last() / nth() / size_hint(), if next() showed it to be finite
        let proto = if done { s.points_protocol(1 + (pts.len() % 5)) } else { json!({}) };
        (bb, pts, done, c, far, proto, ctd)
    });
    match r {
        Ok((bb, pts, done, c, far, proto, ctd)) => {
            if !c.is_empty() || !pts.is_empty() {
                rec.nontrivial();
            }
            rec.ev(
                "shape",
                json!({"bbox": rect_json(&bb), "np": pts.len(), "pr": seq_runs(&pts), "trunc": (!done) as i32,
                       "cr": runs_of(&c), "nc": c.len(), "far": far, "proto": proto, "ctd": ctd}),
            );
        }
        Err(p) => {
            rec.note("panicked_cases");
            rec.ev("panic", json!({"msg": p.msg, "loc": p.loc}));
        }
    }
}

/// very large shapes (their point sets cannot be enumerated): hit tests at the corners and the centre of the bounding
/// box and outside of it, and the first few points
fn run_big(rec: &mut Rec, d: &Value) {
    let s = Shape::from_desc(&d["shape"]);
    rec.begin(d.clone());
    let r = catch(|| {
        let bb = s.bounding_box();
        let (w, h) = (bb.size.width as i32, bb.size.height as i32);
        let tl = bb.top_left;
        let mut probes = vec![];
        for p in [tl, tl + Point::new(w - 1, 0), tl + Point::new(0, h - 1), tl + Point::new(w - 1, h - 1), bb.center(), tl + Point::new(w / 2, h / 2),
                  tl + Point::new(-1, h / 2), tl + Point::new(w, h / 2), tl + Point::new(w / 2, -1), tl + Point::new(w / 2, h), tl + Point::new(-3, -3), tl + Point::new(w + 2, h + 2)] {
            probes.push(json!([p.x, p.y, s.contains(p) as i32]));
        }
        // probes on the other side of the coordinate space (differences of coordinates exceed 32 bits there)
        if tl.x.unsigned_abs() > 1_000_000_000 || tl.y.unsigned_abs() > 1_000_000_000 {
            for p in [Point::new(-tl.x, tl.y + 1), Point::new(tl.x + 1, -tl.y), Point::new(-tl.x, -tl.y), Point::new(i32::MAX, tl.y + 1), Point::new(tl.x + 1, i32::MIN)] {
                if !bb.contains(p) {
                    probes.push(json!([p.x, p.y, s.contains(p) as i32]));
                }
            }
        }
        let (first, _) = s.points(12);
        let first_in: Vec<i32> = first.iter().map(|p| s.contains(*p) as i32).collect();
        (bb, probes, first, first_in)
    });
    match r {
        Ok((bb, probes, first, first_in)) => {
            rec.nontrivial();
            rec.ev("big", json!({"kind": s.kind(), "bbox": rect_json(&bb), "probes": probes, "first": pts_json(first), "first_in": first_in}));
        }
        Err(p) => {
            rec.note("panicked_cases");
            rec.ev("panic", json!({"msg": p.msg, "loc": p.loc}));
        }
    }
}

fn nonzero_area(v: &[Point; 3]) -> bool {
    let (a, b, c) = (v[0], v[1], v[2]);
    (b.x - a.x) as i64 * (c.y - a.y) as i64 - (c.x - a.x) as i64 * (b.y - a.y) as i64 != 0
}

fn main() {
    let args = Args::parse();
    install_panic_hook();
    let mut rec = Rec::new(&args);
    let mut rng = Rng::new(args.seed ^ 0xC05);
    let th = args.thorough();
    if let Some(cases) = &args.cases {
        for d in cases {
            run_case(&mut rec, d);
        }
        rec.finish(json!({}));
        return;
    }
    for d in args.gen.iter().chain(args.witnesses.iter()) {
        run_case(&mut rec, d);
    }
    let pos = [(0, 0), (-7, 3)];
    // rectangles
    for w in 0..=4 {
        for h in 0..=4 {
            run_case(&mut rec, &json!({"k":"rect","r":[-2, 1, w, h]}));
        }
    }
    // circles
    let dmax = if th { 128 } else { 40 };
    for d in 0..=dmax {
        let (x, y) = pos[(d % 2) as usize];
        run_case(&mut rec, &json!({"k":"circle","tl":[x, y],"d":d}));
    }
    // display-scale circles, ellipses and rounded rectangles between the exhaustive small range and the "big" probes
    // (a hit test with a fast path that is wrong only from some diameter on: 7/5 for the square root of 2 is exact
    // below 140)
    {
        let ds: Vec<u32> = if th { (129..=1024).step_by(7).chain([255, 256, 257, 511, 512, 513, 1000, 1023, 1024]).collect() }
                           else { vec![47, 64, 97, 128, 140, 147, 154, 181, 200, 255, 256, 257, 300, 333, 480, 640, 1000, 1024] };
        for (n, d) in ds.iter().enumerate() {
            let (x, y) = pos[n % 2];
            run_case(&mut rec, &json!({"k":"circle","tl":[x - (*d as i32) / 3, y],"d":d}));
        }
        for (w, h) in [(100u32, 37u32), (37, 100), (141, 140), (257, 256), (320, 240), (240, 320), (480, 101), (640, 480), (1024, 600), (333, 1000)] {
            run_case(&mut rec, &json!({"k":"ellipse","tl":[-(w as i32) / 2, 5 - h as i32],"size":[w, h]}));
            run_case(&mut rec, &json!({"k":"rrect","r":[-7, 3 - (h as i32) / 2, w, h],"radii":[[w / 3, h / 2], [w / 5, h / 7], [w / 2, h / 2], [9, h / 3]]}));
        }
    }
    // ellipses: all sizes up to N x N plus all thin ones
    let emax = if th { 64 } else { 24 };
    for w in 0..=emax {
        for h in 0..=emax {
            let (x, y) = pos[((w + h) % 2) as usize];
            run_case(&mut rec, &json!({"k":"ellipse","tl":[x, y],"size":[w, h]}));
        }
    }
    for thin in 0..=3 {
        for long in (emax + 1)..=(if th { 200 } else { 64 }) {
            run_case(&mut rec, &json!({"k":"ellipse","tl":[3, -5],"size":[thin, long]}));
            run_case(&mut rec, &json!({"k":"ellipse","tl":[3, -5],"size":[long, thin]}));
        }
    }
    // rounded rectangles: equal and unequal radii, radii larger than the rectangle
    let rmax = if th { 14 } else { 9 };
    let rads: &[(u32, u32)] = &[(0, 0), (1, 1), (2, 2), (1, 3), (3, 1), (5, 5), (2, 7), (20, 20), (1, 10), (10, 1)];
    for w in 0..=rmax {
        for h in 0..=rmax {
            for (ri, r) in rads.iter().enumerate() {
                run_case(&mut rec, &json!({"k":"rrect","r":[-3, -2, w, h],"radii":[[r.0,r.1],[r.0,r.1],[r.0,r.1],[r.0,r.1]]}));
                // unequal: combine with another radius for two corners
                let q = rads[(ri + 3) % rads.len()];
                let z = rads[(ri + 5) % rads.len()];
                run_case(&mut rec, &json!({"k":"rrect","r":[1, 0, w, h],"radii":[[r.0,r.1],[q.0,q.1],[z.0,z.1],[q.1,r.0]]}));
            }
        }
    }
    // small rectangles x every combination of four corner radii from a small set (corners that overlap
    // diagonally although the radii fit on every side)
    {
        let rset: &[(u32, u32)] = if th { &[(0, 0), (1, 1), (2, 2), (6, 6), (1, 2), (3, 1)] } else { &[(0, 0), (1, 1), (2, 2), (6, 6), (1, 2)] };
        let n = rset.len();
        let smax = if th { 6 } else { 4 };
        for w in 1..=smax {
            for h in 1..=smax {
                for k in 0..n * n * n * n {
                    // quick: half of the combinations per size, rotating
                    if !th && (k + w as usize + h as usize) % 2 == 1 {
                        continue;
                    }
                    let (a, b, c, d) = (rset[k % n], rset[(k / n) % n], rset[(k / n / n) % n], rset[k / n / n / n]);
                    run_case(&mut rec, &json!({"k":"rrect","r":[20, 30, w, h],"radii":[[a.0,a.1],[b.0,b.1],[c.0,c.1],[d.0,d.1]]}));
                }
            }
        }
    }
    // diagonal pairs: two opposite corners large (up to / beyond the rectangle), the other two small
    for k in 0..(if th { 20000 } else { 2500 }) {
        let m = if k % 3 == 0 { 30 } else { 12 };
        let w = rng.u32r(1, m);
        let h = rng.u32r(1, m);
        let mut big = || json!([rng.u32r(1, m + 6), rng.u32r(1, m + 6)]);
        let (a, c) = (big(), big());
        let mut small = || json!([rng.u32r(0, 2), rng.u32r(0, 2)]);
        let (b, d) = (small(), small());
        let radii = if k % 2 == 0 { json!([a, b, c, d]) } else { json!([b, a, d, c]) };
        run_case(&mut rec, &json!({"k":"rrect","r":[rng.i32(-5, 5), rng.i32(-5, 5), w, h],"radii":radii}));
    }
    let n_rr = if th { 20000 } else { 1500 };
    for _ in 0..n_rr {
        let big = rng.chance(1, 3);
        let m = if big { 40 } else { 14 };
        let w = rng.u32r(0, m);
        let h = rng.u32r(0, m);
        let mut rr = || json!([rng.u32r(0, m + 3), rng.u32r(0, m + 3)]);
        let radii = json!([rr(), rr(), rr(), rr()]);
        run_case(&mut rec, &json!({"k":"rrect","r":[rng.i32(-5, 5), rng.i32(-5, 5), w, h],"radii":radii}));
    }
    // triangles with non-zero area: all vertex triples of a grid
    let g = if th { 7 } else { 5 };
    for n in 0..(g * g * g * g * g * g) {
        let mut k = n;
        let mut c = [0i32; 6];
        for j in 0..6 {
            c[j] = (k % g) as i32;
            k /= g;
        }
        let v = [Point::new(c[0], c[1]), Point::new(c[2], c[3]), Point::new(c[4], c[5])];
        if nonzero_area(&v) {
            run_case(&mut rec, &json!({"k":"triangle","v":[[v[0].x - 2, v[0].y - 1],[v[1].x - 2, v[1].y - 1],[v[2].x - 2, v[2].y - 1]]}));
        }
    }
    let n_tri = if th { 100_000 } else { 4000 };
    for n in 0..n_tri {
        // contains() walks the three edge lines for every point that is not strictly inside, so the probe
        // of a large triangle is cubic: only a few large ones
        let m = if n % 64 == 0 { if th { 200 } else { 90 } } else if n % 4 == 0 { 45 } else { 25 };
        let v = [Point::new(rng.i32(-m, m), rng.i32(-m, m)), Point::new(rng.i32(-m, m), rng.i32(-m, m)), Point::new(rng.i32(-m, m), rng.i32(-m, m))];
        if nonzero_area(&v) {
            run_case(&mut rec, &json!({"k":"triangle","v":[[v[0].x, v[0].y],[v[1].x, v[1].y],[v[2].x, v[2].y]]}));
        }
    }
    // sectors
    let ds: Vec<u32> = if th { (0..=24).chain([31, 32, 33, 48, 63, 64]).collect() } else { vec![0, 1, 2, 3, 4, 5, 6, 7, 8, 9, 10, 15, 16, 31] };
    let step = if th { 5 } else { 15 };
    let sweeps: Vec<i32> = if th {
        vec![-720, -400, -360, -359, -270, -181, -180, -179, -135, -91, -90, -89, -45, -10, -1, 0, 1, 10, 45, 89, 90, 91, 135, 179, 180, 181, 270, 359, 360, 400, 720]
    } else {
        vec![-400, -360, -270, -180, -135, -90, -30, -1, 0, 1, 30, 90, 135, 180, 270, 359, 360, 400]
    };
    for &d in &ds {
        let mut a0 = -360;
        while a0 <= 360 {
            for &sw in &sweeps {
                run_case(&mut rec, &json!({"k":"sector","tl":[-4, 2],"d":d,"a0":a0 * 16,"sw":sw * 16}));
            }
            a0 += step;
        }
    }
    // larger sectors with start angles outside [0, 360) on a half-degree grid (trig argument reduction)
    {
        let big: Vec<u32> = if th { vec![41, 61, 63, 100, 101, 127] } else { vec![41, 61, 101] };
        for &d in &big {
            let mut a = -720 * 2;
            while a <= 720 * 2 {
                if a < 0 || a >= 720 {
                    run_case(&mut rec, &json!({"k":"sector","tl":[-7, 3],"d":d,"a0":a * 8,"sw":if a % 4 == 0 { 37 * 16 } else { -200 * 16 }}));
                }
                a += if th { 1 } else { 2 };
            }
        }
    }
    let n_sec = if th { 30000 } else { 1500 };
    for _ in 0..n_sec {
        let d = rng.u32r(0, if th { 100 } else { 40 });
        run_case(&mut rec, &json!({"k":"sector","tl":[rng.i32(-9, 9), rng.i32(-9, 9)],"d":d,"a0":rng.i32(-720*16, 720*16),"sw":rng.i32(-720*16, 720*16)}));
    }
    // sectors with sweeps just below / above half a turn, just below a full turn and too small to be resolved
    for &dia in &[9u32, 21, 34] {
        for a in (0..360).step_by(45) {
            for swm in [179_980, 179_950, -179_980, 180_020, -180_030, 359_980, -359_990, 20, -30, 1] {
                let sw16 = (swm as i64 * 16 / 1000) as i32;
                run_case(&mut rec, &json!({"k":"sector","tl":[-6, 3],"d":dia,"a0":(a as i32 - 90) * 16,"sw":sw16,"swm":swm}));
            }
        }
    }
    // very large shapes
    for shape in [
        json!({"k":"ellipse","tl":[-7, 3],"size":[40000, 40000]}), json!({"k":"ellipse","tl":[5, -9],"size":[33001, 33001]}),
        json!({"k":"ellipse","tl":[0, 0],"size":[40000, 39999]}), json!({"k":"ellipse","tl":[-20000, -20000],"size":[46000, 45999]}),
        json!({"k":"circle","tl":[-4, 4],"d":32768}), json!({"k":"circle","tl":[-16000, -16000],"d":32001}),
        json!({"k":"rrect","r":[0, 0, 60000, 3],"radii":[[60000, 60000], [60000, 60000], [60000, 60000], [60000, 60000]]}),
        json!({"k":"rrect","r":[-5, 2, 3, 60000],"radii":[[60000, 60000], [60000, 60000], [60000, 60000], [60000, 60000]]}),
        json!({"k":"rrect","r":[1, 1, 70000, 2],"radii":[[50000, 9], [70000, 1], [3, 70000], [65000, 65000]]}),
        json!({"k":"rrect","r":[0, 0, 500, 400],"radii":[[5000000, 5000000], [5000000, 5000000], [5000000, 5000000], [5000000, 5000000]]}),
        json!({"k":"rect","r":[-100000, -100000, 200001, 200001]}),
        json!({"k":"rect","r":[-2000000000, -2000000000, 7, 5]}), json!({"k":"rect","r":[2000000000, -1999999990, 40, 3]}),
        json!({"k":"triangle","v":[[-2000000000, -2000000000], [-1999999980, -1999999995], [-1999999990, -1999999970]]}),
        json!({"k":"triangle","v":[[-10, 7], [59990, 10], [20000, 12]]}), json!({"k":"triangle","v":[[-10, 7], [30000, 9], [12000, 12]]}),
    ] {
        run_case(&mut rec, &json!({"k":"big","shape":shape}));
    }
    rec.finish(json!({}));
}
