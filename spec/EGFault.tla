------------------------------ MODULE EGFault -------------------------------
(* Error propagation protocol between a drawable and its target (C04).        *)
(* A drawable's draw() is a loop that issues calls on the target and applies  *)
(* `?` to every result (e.g. src/primitives/*/styled.rs draw_styled,          *)
(* src/mono_font/mono_text_style.rs draw_string_*, src/image/mod.rs).         *)
(* A run is described by the calls observed on the UNDERLYING target (after   *)
(* all adapters) and the value draw() returned.                               *)
(*   call digest  [m, area, color, n, h, failed]   n/h = number and hash of   *)
(*                the items a completed call consumed                         *)
EXTENDS Integers, Sequences

SameScalars(a, b) == a.m = b.m /\ a.area = b.area /\ a.color = b.color
SameCompleted(a, b) == SameScalars(a, b) /\ a.n = b.n /\ a.h = b.h /\ a.failed = b.failed

\* The protocol: in the run where call k fails with token k, the observed calls are exactly
\* ref[1] .. ref[k] (the k-th marked failed), nothing follows, and Err(k) is returned.
FaultRunFails(ref, k, calls, ret) ==
     (IF Len(calls) <= k THEN {} ELSE {"call_after_error"})
\cup (IF Len(calls) >= k THEN {} ELSE {"stopped_before_failing_call"})
\cup (IF \A i \in 1..(k - 1) : i <= Len(calls) => SameCompleted(calls[i], ref[i]) THEN {} ELSE {"calls_before_failure_differ"})
\cup (IF Len(calls) < k \/ (calls[k].failed /\ SameScalars(calls[k], ref[k])) THEN {} ELSE {"failing_call_differs"})
\cup (IF ret # 0 THEN {} ELSE {"error_swallowed"})
\cup (IF ret = 0 \/ ret = k THEN {} ELSE {"error_changed"})
RefRunFails(ref, ret) ==
     (IF ret = 0 THEN {} ELSE {"fault_free_run_returned_error"})
\cup (IF \A i \in 1..Len(ref) : ~ref[i].failed THEN {} ELSE {"fault_free_run_has_failed_call"})
=============================================================================
