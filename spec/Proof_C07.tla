----------------------------- MODULE Proof_C07 -----------------------------
(* Unbounded version of what MC_C07 checks on a small grid for three offsets:  *)
(* the line-join intersection pipeline of thick polylines and triangles        *)
(* (LinearEquation::from_line -> IntersectionParams -> rounded point,          *)
(* transcribed in MC_C07) is translation EQUIVARIANT for ALL integer           *)
(* coordinates and ALL offsets, with the rounding of the repaired code (ties   *)
(* rounded up, D14):                                                           *)
(*   - moving both lines by o leaves normals and denominator unchanged and     *)
(*     adds o.x * den to the x numerator and o.y * den to the y numerator;     *)
(*   - RoundUp(num + k * den, den) = RoundUp(num, den) + k.                    *)
(* (Mathematical integers: the i32 limits of these products are the open      *)
(* finding D29 and are judged on recorded executions, not here.)               *)
(* Checked with TLAPS (tlapm); not load-bearing for any check.                 *)
EXTENDS Integers, TLAPS

Abs(x) == IF x < 0 THEN -x ELSE x
\* MC_C07!LE in scalar form for the line (sx, sy) -> (ex, ey)
NX(sy, ey) == -(ey - sy)
NY(sx, ex) == ex - sx
OD(sx, sy, ex, ey) == sx * NX(sy, ey) + sy * NY(sx, ex)
Den(nx1, ny1, nx2, ny2) == nx1 * ny2 - ny1 * nx2
XNum(od1, ny1, od2, ny2) == od1 * ny2 - od2 * ny1
YNum(nx1, od1, nx2, od2) == nx1 * od2 - nx2 * od1
RoundUp(num, den) == LET n == IF den < 0 THEN -num ELSE num  dd == Abs(den) IN (n + dd \div 2) \div dd

THEOREM NormalsUnmoved ==
  ASSUME NEW sx \in Int, NEW sy \in Int, NEW ex \in Int, NEW ey \in Int, NEW ox \in Int, NEW oy \in Int
  PROVE  /\ NX(sy + oy, ey + oy) = NX(sy, ey)
         /\ NY(sx + ox, ex + ox) = NY(sx, ex)
         /\ OD(sx + ox, sy + oy, ex + ox, ey + oy) = OD(sx, sy, ex, ey) + ox * NX(sy, ey) + oy * NY(sx, ex)
<1>1. NX(sy + oy, ey + oy) = NX(sy, ey) /\ NY(sx + ox, ex + ox) = NY(sx, ex)
  BY DEF NX, NY
<1>2. NX(sy, ey) \in Int /\ NY(sx, ex) \in Int
  BY DEF NX, NY
<1> HIDE DEF NX, NY
<1>3. OD(sx + ox, sy + oy, ex + ox, ey + oy) = (sx + ox) * NX(sy, ey) + (sy + oy) * NY(sx, ex)
  BY <1>1 DEF OD
<1>4. (sx + ox) * NX(sy, ey) = sx * NX(sy, ey) + ox * NX(sy, ey)
  BY <1>2
<1>5. (sy + oy) * NY(sx, ex) = sy * NY(sx, ex) + oy * NY(sx, ex)
  BY <1>2
<1> QED BY <1>1, <1>2, <1>3, <1>4, <1>5 DEF OD

\* numerators of the moved pair, in terms of the normals (n1, n2), the origin distances (d1, d2) and the offset
THEOREM NumeratorsShift ==
  ASSUME NEW nx1 \in Int, NEW ny1 \in Int, NEW nx2 \in Int, NEW ny2 \in Int, NEW d1 \in Int, NEW d2 \in Int,
         NEW ox \in Int, NEW oy \in Int
  PROVE  /\ XNum(d1 + ox * nx1 + oy * ny1, ny1, d2 + ox * nx2 + oy * ny2, ny2)
              = XNum(d1, ny1, d2, ny2) + ox * Den(nx1, ny1, nx2, ny2)
         /\ YNum(nx1, d1 + ox * nx1 + oy * ny1, nx2, d2 + ox * nx2 + oy * ny2)
              = YNum(nx1, d1, nx2, d2) + oy * Den(nx1, ny1, nx2, ny2)
  BY DEF XNum, YNum, Den

LEMMA DivMod ==
  ASSUME NEW m \in Int, NEW d \in Nat, d >= 1
  PROVE  /\ m \div d \in Int /\ m % d \in Int
         /\ m = d * (m \div d) + (m % d) /\ 0 <= m % d /\ m % d < d
  OBVIOUS

LEMMA MulSmall ==
  ASSUME NEW d \in Nat, d >= 1, NEW z \in Int, NEW w \in Int, d * z = w, -d < w, w < d
  PROVE  z = 0
<1>1. CASE z >= 1
  <2>1. d * z >= d  BY <1>1
  <2> QED BY <2>1
<1>2. CASE z <= -1
  <2>1. d * z <= -d  BY <1>2
  <2> QED BY <2>1
<1> QED BY <1>1, <1>2

\* (equations oriented expression = variable: with `n = B + r` the bundled Z3 4.8.9 diverges under tlapm's MBQI options)
LEMMA Lin ==
  ASSUME NEW n \in Int, NEW A \in Int, NEW B \in Int, NEW C \in Int, NEW r \in Int, NEW r2 \in Int,
         B + r = n, A + r2 = n + C
  PROVE  A - B - C = r - r2
  OBVIOUS

LEMMA QuotientUnique ==
  ASSUME NEW d \in Nat, d >= 1, NEW n \in Int, NEW k \in Int,
         NEW q \in Int, NEW r \in Int, NEW q2 \in Int, NEW r2 \in Int,
         n = d * q + r, 0 <= r, r < d, n + k * d = d * q2 + r2, 0 <= r2, r2 < d
  PROVE  q2 = q + k
<1>1. PICK z \in Int : z = q2 - q - k  OBVIOUS
<1>2. PICK w \in Int : w = r - r2  OBVIOUS
<1>3. d * z = d * q2 - d * q - d * k  BY <1>1
<1>4. d * k = k * d  OBVIOUS
<1>5. d * q2 \in Int /\ d * q \in Int /\ d * k \in Int /\ k * d \in Int /\ d * z \in Int  OBVIOUS
<1>6. d * q2 - d * q - d * k = r - r2
  <2>1. PICK A \in Int, B \in Int, C \in Int : A = d * q2 /\ B = d * q /\ C = d * k  BY <1>5
  <2>2. B + r = n /\ A + r2 = n + C  BY <2>1, <1>4
  <2>3. A - B - C = r - r2  BY <2>2, Lin
  <2> QED BY <2>1, <2>3
<1>7. d * z = w
  BY <1>2, <1>3, <1>6
<1>8. -d < w /\ w < d
  BY <1>2
<1>9. z = 0
  BY <1>7, <1>8, MulSmall
<1> QED BY <1>1, <1>9

LEMMA DivShiftGeneral ==
  ASSUME NEW n \in Int, NEW d \in Nat, d >= 1, NEW k \in Int
  PROVE  (n + k * d) \div d = (n \div d) + k
<1>1. k * d \in Int /\ n + k * d \in Int  OBVIOUS
<1>2. PICK m \in Int : m = n + k * d  BY <1>1
<1>3. /\ n \div d \in Int /\ n % d \in Int /\ n = d * (n \div d) + (n % d) /\ 0 <= n % d /\ n % d < d
  BY DivMod
<1>4. /\ m \div d \in Int /\ m % d \in Int /\ m = d * (m \div d) + (m % d) /\ 0 <= m % d /\ m % d < d
  BY DivMod
<1>5. PICK q \in Int, r \in Int : q = n \div d /\ r = n % d  BY <1>3
<1>6. PICK q2 \in Int, r2 \in Int : q2 = m \div d /\ r2 = m % d  BY <1>4
<1>7. n = d * q + r /\ 0 <= r /\ r < d  BY <1>3, <1>5
<1>8. n + k * d = d * q2 + r2 /\ 0 <= r2 /\ r2 < d  BY <1>2, <1>4, <1>6
<1>9. q2 = q + k
  BY <1>7, <1>8, QuotientUnique
<1> QED BY <1>2, <1>5, <1>6, <1>9

THEOREM RoundUpShift ==
  ASSUME NEW num \in Int, NEW den \in Int, den # 0, NEW k \in Int
  PROVE  RoundUp(num + k * den, den) = RoundUp(num, den) + k
<1> DEFINE dd == Abs(den)  n == IF den < 0 THEN -num ELSE num
<1>1. dd \in Nat /\ dd >= 1 /\ n \in Int /\ dd \div 2 \in Int /\ k * den \in Int /\ k * dd \in Int
  BY DEF Abs
<1>2. (IF den < 0 THEN -(num + k * den) ELSE num + k * den) = n + k * dd
  <2>1. CASE den < 0
    <3>1. k * dd = -(k * den)  BY <2>1 DEF Abs
    <3> QED BY <2>1, <3>1, <1>1
  <2>2. CASE den > 0
    BY <2>2 DEF Abs
  <2> QED BY <2>1, <2>2
<1>3. ((n + dd \div 2) + k * dd) \div dd = ((n + dd \div 2) \div dd) + k
  BY <1>1, DivShiftGeneral
<1>4. (n + k * dd) + dd \div 2 = (n + dd \div 2) + k * dd
  BY <1>1
<1> QED BY <1>1, <1>2, <1>3, <1>4 DEF RoundUp
=============================================================================
