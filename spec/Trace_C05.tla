------------------------------ MODULE Trace_C05 -----------------------------
(* (T) for C05: each recorded shape (bounding box, points() sequence,         *)
(* contains() probes) is checked against P_C05.                               *)
EXTENDS TraceBase, P_C05, EGCurve
VARIABLES l, cur      \* cur = descriptor of the current case (for the drift comparison)
Init == l = 1 /\ cur = [k |-> "none"]
StepCase(e)  == e.ev = "case" /\ cur' = e.desc
\* DRIFT: contains() of small circles / ellipses / rounded rectangles vs the transcribed hit tests of EGCurve
\* (binds MC_C05 / MC_C05r / MC_C06 / MC_C18, which explore those transcriptions, to the code)
TranscribedRuns(e) ==
  LET g == Grow(e.bbox, 2)
      S == { p \in PointsOf(g) :
               CASE cur.k = "circle"  -> CircleContainsT(cur.tl, cur.d, p)
                 [] cur.k = "ellipse" -> EllipseContainsT(cur.tl, cur.size, p)
                 [] OTHER             -> RRContainsT(cur.r, cur.radii, p) }
  IN RunsOfSet(S, g)
Small(e) == e.bbox[3] <= 14 /\ e.bbox[4] <= 14
StepShape(e) == /\ e.ev = "shape" /\ UNCHANGED cur
                /\ Report(e.case, ShapeFails(e), [bbox |-> e.bbox, np |-> e.np, nc |-> e.nc])
                /\ Report(e.case, ProtoFails(e), [bbox |-> e.bbox, np |-> e.np, what |-> "iterator_protocol",
                                                   proto |-> [e.proto EXCEPT !.walk = <<>>]])
                /\ DriftReport(e.case, cur.k \notin {"circle", "ellipse", "rrect"} \/ ~Small(e) \/ e.cr = TranscribedRuns(e),
                               "contains_transcription", [k |-> cur.k, bbox |-> e.bbox])
\* a library call of this case panicked: the property promises a result for every input of its domain
StepPanic(e) == e.ev = "panic" /\ UNCHANGED cur /\ Report(e.case, {"library_call_panicked"}, [msg |-> e.msg, loc |-> e.loc])
StepBig(e) == e.ev = "big" /\ UNCHANGED cur /\ Report(e.case, BigFails(e), [kind |-> e.kind, bbox |-> e.bbox, probes |-> e.probes])
Next == /\ l <= NRec
        /\ LET e == Rec[l] IN StepCase(e) \/ StepShape(e) \/ StepBig(e) \/ StepPanic(e)
        /\ l' = l + 1
Spec == Init /\ [][Next]_<<l, cur>>
Done == IF TLCGet("stats").diameter = NRec + 1
        THEN PrintT("TRACE-ACCEPTED " \o ToString(NRec))
        ELSE PrintT("TRACE-REJECTED at line " \o ToString(TLCGet("stats").diameter)) /\ FALSE
=============================================================================
