------------------------------- MODULE EGMock ------------------------------
(* The MockDisplay machine of embedded-graphics (src/mock_display/mod.rs,     *)
(* src/mock_display/color_mapping.rs) as constant-level operators.            *)
(*                                                                            *)
(*   display state   [cells, ovr, oob]                                        *)
(*     cells  sparse map  <<x, y>> |-> colour; a point that is not in the     *)
(*            domain is an untouched cell (`None` in `pixels`, mod.rs:212)    *)
(*     ovr    allow_overdraw               (mod.rs:213)                       *)
(*     oob    allow_out_of_bounds_drawing  (mod.rs:214)                       *)
(*   colour   the raw storage value of the colour (an integer >= 0)           *)
(*   pixel    <<x, y, colour>>                                                *)
(*   outcome  OutOk / OutOob / OutTwice / OutOther (how a call ended)         *)
(*                                                                            *)
(* SIZE is 64 in the library (mod.rs:201); MC_C20 explores the same machine   *)
(* with SIZE = 3.  Every operator is anchored to the Rust item it transcribes.*)
(* The abstract statements of property C20 live in P_C20.                     *)
EXTENDS Integers, Sequences, FiniteSets, EGGeom
CONSTANT SIZE

NoColour == -1                                   \* Option::None of a cell / of set_pixel
DisplayArea == <<0, 0, SIZE, SIZE>>              \* DISPLAY_AREA, mod.rs:202
Inside(p) == ContainsT(DisplayArea, p)           \* DISPLAY_AREA.contains(point), mod.rs:371

OutOk == 0        \* the call returned
OutOob == 1       \* panic "tried to draw pixel outside the display area", mod.rs:373
OutTwice == 2     \* panic "tried to draw pixel twice", mod.rs:383
OutOther == 3     \* any other panic

---------------------------------------------------------------------------
(* sparse cell maps *)
EmptyCells == <<>>
Store(cells, p, c) == [q \in (DOMAIN cells) \cup {p} |-> IF q = p THEN c ELSE cells[q]]
Erase(cells, p)    == [q \in (DOMAIN cells) \ {p} |-> cells[q]]
Get(cells, p)      == IF p \in DOMAIN cells THEN cells[p] ELSE NoColour
\* a cell map as a set of <<x, y, colour>> triples (bulk comparisons with recorded runs)
Triples(cells) == { <<p[1], p[2], cells[p]>> : p \in DOMAIN cells }
\* the inverse (quadratic; only for small maps)
CellsOfTriples(T) ==
  [p \in { <<t[1], t[2]>> : t \in T } |-> (CHOOSE t \in T : t[1] = p[1] /\ t[2] = p[2])[3]]
\* coloured row runs <<y, x0, x1, c>> (x1 inclusive) -> triples
CRunsToTriples(rs) ==
  UNION { { <<x, rs[i][1], rs[i][4]>> : x \in rs[i][2]..rs[i][3] } : i \in 1..Len(rs) }

SetMin(S) == CHOOSE x \in S : \A y \in S : x <= y
SetMax(S) == CHOOSE x \in S : \A y \in S : x >= y

---------------------------------------------------------------------------
(* the machine *)

\* MockDisplay::new / Default, mod.rs:222, 664-670
New == [cells |-> EmptyCells, ovr |-> FALSE, oob |-> FALSE]
\* set_allow_out_of_bounds_drawing, mod.rs:270
SetAllowOutOfBounds(d, b) == [d EXCEPT !.oob = b]
\* set_allow_overdraw, mod.rs:277
SetAllowOverdraw(d, b) == [d EXCEPT !.ovr = b]
\* get_pixel, mod.rs:282-293 (after the repair D25): None for every point that is not on the display
GetPixel(d, p) == Get(d.cells, p)
GetPixelT(d, p) == IF InRect(DisplayArea, p) THEN Get(d.cells, p) ELSE NoColour
\* ... and before the repair: pixels[x as usize + y as usize * SIZE] without a bounds check - a point right of the
\* display reads the cell of the next row with the same linear index; negative coordinates or an index beyond
\* the array panic (PanicV stands for that)
PanicV == -99
GetPixelPinnedT(d, p) ==
  LET i == p[1] + p[2] * SIZE IN
  IF p[1] < 0 \/ p[2] < 0 \/ i >= SIZE * SIZE THEN PanicV ELSE Get(d.cells, <<i % SIZE, i \div SIZE>>)

\* set_pixel, mod.rs:293-302: no overdraw check; asserts the point is inside
SetPixel(d, p, c) ==
  IF ~(p[1] >= 0 /\ p[2] >= 0 /\ p[1] < SIZE /\ p[2] < SIZE) THEN [st |-> d, out |-> OutOther]
  ELSE [st |-> [d EXCEPT !.cells = IF c = NoColour THEN Erase(@, p) ELSE Store(@, p, c)], out |-> OutOk]

\* draw_pixel, mod.rs:370-387: the two panicking guards, then the store
DrawPixelStep(d, p, c) ==
  IF ~Inside(p)
  THEN (IF ~d.oob THEN [st |-> d, out |-> OutOob]           \* mod.rs:372-376
                  ELSE [st |-> d, out |-> OutOk])           \* mod.rs:378 (ignored)
  ELSE IF ~d.ovr /\ GetPixel(d, p) # NoColour
       THEN [st |-> d, out |-> OutTwice]                    \* mod.rs:382-384
       ELSE [st |-> [d EXCEPT !.cells = Store(@, p, c)], out |-> OutOk]   \* mod.rs:386

\* DrawTarget::draw_iter, mod.rs:707-718: the pixels are processed in order; a panic ends the
\* call, the pixels before the panicking one stay applied.  n = number of pixels consumed
\* without a panic, at = index of the panicking pixel (0 = none).
RECURSIVE DrawFrom(_, _, _)
DrawFrom(d, px, i) ==
  IF i > Len(px) THEN [st |-> d, out |-> OutOk, n |-> Len(px), at |-> 0]
  ELSE LET r == DrawPixelStep(d, <<px[i][1], px[i][2]>>, px[i][3]) IN
       IF r.out # OutOk THEN [st |-> r.st, out |-> r.out, n |-> i - 1, at |-> i]
       ELSE DrawFrom(r.st, px, i + 1)
DrawIter(d, px) == DrawFrom(d, px, 1)

\* MockDisplay implements draw_iter only; fill_solid / fill_contiguous are the trait defaults
\* (core/src/draw_target/mod.rs:388-408): every point of the area in row-major order, unclipped
FillPixels(area, c) == LET pts == RowMajor(area) IN [i \in 1..Len(pts) |-> <<pts[i][1], pts[i][2], c>>]
FillSolid(d, area, c) == DrawIter(d, FillPixels(area, c))

\* The same as FillSolid without stepping through the pixels (the points of an area are distinct): the first
\* offending point in row-major order ends the call, the points before it are stored.  MC_C20 checks
\* FillSolidFast = FillSolid on the small display; Trace_C20 uses it for clear() and whole-display fills.
FillSolidFast(d, area, c) ==
  LET pts == PointsOf(area)
      Off == { p \in pts : IF Inside(p) THEN ~d.ovr /\ p \in DOMAIN d.cells ELSE ~d.oob }
      first == CHOOSE p \in Off : \A q \in Off : ~RMLess(q, p)
      applied == IF Off = {} THEN { p \in pts : Inside(p) } ELSE { p \in pts : Inside(p) /\ RMLess(p, first) }
  IN [st |-> [d EXCEPT !.cells = [p \in applied \cup DOMAIN @ |-> IF p \in applied THEN c ELSE @[p]]],
      out |-> IF Off = {} THEN OutOk ELSE IF Inside(first) THEN OutTwice ELSE OutOob,
      at |-> IF Off = {} THEN 0 ELSE 1 + Cardinality({ p \in pts : RMLess(p, first) })]

\* PartialEq, mod.rs:497-501: the pixel arrays are compared, the flags are not
Eq(a, b) == a.cells = b.cells

\* diff, mod.rs:476-494: a MockDisplay<Rgb888>
DiffGreen == 65280       \* Rgb888::GREEN 0x00FF00: set in self only
DiffRed   == 16711680    \* Rgb888::RED   0xFF0000: set in other only
DiffBlue  == 255         \* Rgb888::BLUE  0x0000FF: set to different colours
Diff(a, b) ==
  LET D == { p \in (DOMAIN a.cells) \cup (DOMAIN b.cells) : Get(a.cells, p) # Get(b.cells, p) } IN
  [p \in D |-> IF p \notin DOMAIN b.cells THEN DiffGreen
               ELSE IF p \notin DOMAIN a.cells THEN DiffRed ELSE DiffBlue]

\* affected_area, mod.rs:326-347: component-wise min / max of the touched cells,
\* Rectangle::with_corners; Rectangle::zero() for a display without touched cells
AffectedArea(d) ==
  IF DOMAIN d.cells = {} THEN Zero
  ELSE LET xs == { p[1] : p \in DOMAIN d.cells }  ys == { p[2] : p \in DOMAIN d.cells } IN
       WithCorners(<<SetMin(xs), SetMin(ys)>>, <<SetMax(xs), SetMax(ys)>>)

\* affected_area of any cell function (used for the displays derived from a display: diff, swap_xy, map)
AffectedAreaOf(cells) ==
  IF DOMAIN cells = {} THEN Zero
  ELSE LET xs == { p[1] : p \in DOMAIN cells }  ys == { p[2] : p \in DOMAIN cells } IN
       WithCorners(<<SetMin(xs), SetMin(ys)>>, <<SetMax(xs), SetMax(ys)>>)
\* swap_xy, mod.rs:424: the cell (x, y) of the result is the cell (y, x)
SwapXY(cells) == [p \in { <<q[2], q[1]>> : q \in DOMAIN cells } |-> cells[<<p[2], p[1]>>]]

---------------------------------------------------------------------------
(* pattern <-> display: the character tables of color_mapping.rs, documented in *)
(* mod.rs:42-111.  Characters are ASCII codes.                                *)
ColourTypes == { "BinaryColor", "Gray2", "Gray4", "Gray8", "Rgb332", "Rgb444", "Rgb555", "Bgr555",
                 "Rgb565", "Bgr565", "Rgb888", "Bgr888" }
Blank == 32          \* ' ' = untouched cell, mod.rs:548, 687
Unknown == 63        \* '?' = colour without a character (Gray8, RGB types)
HexCh(k) == IF k < 10 THEN 48 + k ELSE 55 + k          \* '0'..'9', 'A'..'F' (upper case)

\* <<r_bits, g_bits, b_bits, r_pos, g_pos, b_pos>>, core/src/pixelcolor/rgb_color.rs:200-246
RgbLayout(ct) ==
  CASE ct = "Rgb332" -> <<3, 3, 2, 5, 2, 0>>  [] ct = "Rgb444" -> <<4, 4, 4, 8, 4, 0>>
    [] ct = "Rgb555" -> <<5, 5, 5, 10, 5, 0>> [] ct = "Bgr555" -> <<5, 5, 5, 0, 5, 10>>
    [] ct = "Rgb565" -> <<5, 6, 5, 11, 5, 0>> [] ct = "Bgr565" -> <<5, 6, 5, 0, 5, 11>>
    [] ct = "Rgb888" -> <<8, 8, 8, 16, 8, 0>> [] ct = "Bgr888" -> <<8, 8, 8, 0, 8, 16>>
\* raw value of the colour whose channels are at their maximum (1) or zero (0)
Primary(ct, r, g, b) ==
  LET L == RgbLayout(ct) IN
  r * (2 ^ L[1] - 1) * 2 ^ L[4] + g * (2 ^ L[2] - 1) * 2 ^ L[5] + b * (2 ^ L[3] - 1) * 2 ^ L[6]

\* the character set of a colour type as a set of <<character, colour>> pairs
CharTable(ct) ==
  CASE ct = "BinaryColor" -> { <<46, 0>>, <<35, 1>> }          \* '.' Off, '#' On   color_mapping.rs:23-38
    [] ct = "Gray2" -> { <<HexCh(k), k>> : k \in 0..3 }        \* radix 4           color_mapping.rs:40-62
    [] ct = "Gray4" -> { <<HexCh(k), k>> : k \in 0..15 }       \* radix 16          color_mapping.rs:40-63
    [] ct = "Gray8" -> { <<HexCh(k), 17 * k>> : k \in 0..15 }  \* nibble doubled    color_mapping.rs:65-89
    \* the RGB types: the 8 primaries, color_mapping.rs:91-132
    [] OTHER -> { <<75, Primary(ct, 0, 0, 0)>>, <<82, Primary(ct, 1, 0, 0)>>,      \* K R
                  <<71, Primary(ct, 0, 1, 0)>>, <<66, Primary(ct, 0, 0, 1)>>,      \* G B
                  <<89, Primary(ct, 1, 1, 0)>>, <<77, Primary(ct, 1, 0, 1)>>,      \* Y M
                  <<67, Primary(ct, 0, 1, 1)>>, <<87, Primary(ct, 1, 1, 1)>> }     \* C W
\* ColorMapping::color_to_char / char_to_color as functions (evaluate once per use: LET f == ... IN)
ToChar(ct)   == LET tab == CharTable(ct) IN [c \in { e[2] : e \in tab } |-> (CHOOSE e \in tab : e[2] = c)[1]]
ToColour(ct) == LET tab == CharTable(ct) IN [ch \in { e[1] : e \in tab } |-> (CHOOSE e \in tab : e[1] = ch)[2]]
HasChar(ct, c)    == c \in DOMAIN ToChar(ct)
ValidChar(ct, ch) == ch \in DOMAIN ToColour(ct)
CharOf(ct, c)    == LET f == ToChar(ct) IN IF c \in DOMAIN f THEN f[c] ELSE Unknown
ColourOf(ct, ch) == ToColour(ct)[ch]

(* A text block: [n, w, chars]: n rows, w = sequence of the n row widths, chars = the non-blank  *)
(* characters as triples <<column, row, character>> (0-based).  Two text blocks are equal up to  *)
(* trailing blanks and trailing empty rows iff their `chars` are equal.                          *)

\* from_pattern, mod.rs:517-564: at most SIZE rows of one common width <= SIZE; blank = None,
\* every other character through char_to_color (which panics on an unknown character)
FromPattern(ct, t) ==
  LET g == ToColour(ct) IN
  IF \/ t.n > SIZE
     \/ (t.n > 0 /\ t.w[1] > SIZE)
     \/ \E i \in 1..t.n : t.w[i] # t.w[1]
     \/ \E ch \in { e[3] : e \in t.chars } : ch \notin DOMAIN g
  THEN [out |-> OutOther, cells |-> {}]
  ELSE [out |-> OutOk, cells |-> { <<e[1], e[2], g[e[3]]>> : e \in t.chars }]   \* triples

\* Debug, mod.rs:673-698: all rows up to the last touched one, each SIZE characters wide
DebugText(ct, cells) ==
  LET n == IF DOMAIN cells = {} THEN 0 ELSE 1 + SetMax({ p[2] : p \in DOMAIN cells })
      f == ToChar(ct)
  IN [n |-> n, w |-> [i \in 1..n |-> SIZE],
      chars |-> { <<p[1], p[2], IF cells[p] \in DOMAIN f THEN f[cells[p]] ELSE Unknown>> : p \in DOMAIN cells }]
=============================================================================
