CONSTANTS
  ALo <- ALoQ
  AHi = 2
  SMax = 2
  Colors = {7, 9}
  Mutant = TRUE
SPECIFICATION Spec
INVARIANTS NativeEqualsDefault OnlyInsideBox
CHECK_DEADLOCK FALSE
