#!/usr/bin/env python3
"""Binding demonstration (DESIGN §10.1), not a registered check.

For a few properties: record the real code (quick tier), take one shard, apply scripted corruptions to single
recorded fields and require that the trace specification reports a verdict (or rejects the trace structure)
for each of them — and reports NOTHING for the uncorrupted shard and for a neutral edit (case renumbering).

  tools/selftest.py            run all
  tools/selftest.py C03        run one property
"""
import copy, json, os, subprocess, sys, tempfile

ROOT = os.path.dirname(os.path.dirname(os.path.abspath(__file__)))
sys.path.insert(0, os.path.join(ROOT, "tools"))
import egv  # noqa: E402
from props import PROPS  # noqa: E402


def load(shard, limit=2500):
    out = []
    with open(shard) as f:
        for line in f:
            out.append(json.loads(line))
            if len(out) >= limit and out[-1]["ev"] == "case":
                out.pop()
                break
    return out


def run(pid, events, workdir, tag):
    path = os.path.join(workdir, tag + ".ndjson")
    with open(path, "w") as f:
        for e in events:
            f.write(json.dumps(e, separators=(",", ":")) + "\n")
    r = egv.validate_shard((PROPS[pid], path, workdir))
    return len(r["verdicts"]), r["ok"]


def first(events, ev, pred=lambda e: True):
    for i, e in enumerate(events):
        if e["ev"] == ev and pred(e):
            return i
    raise SystemExit("selftest: no %s event to corrupt" % ev)


def c01_flip_colour(ev):
    # change the colour of every native fill_solid of one case whose native and default maps are non-empty
    i = first(ev, "draw", lambda e: any(c["m"] == "fill_solid" for c in e["n"]) and any(len(c["px"]) > 0 for c in e["d"]))
    for c in ev[i]["n"]:
        if c["m"] == "fill_solid":
            c["color"] ^= 1


def c01_drop_default_call(ev):
    i = first(ev, "draw", lambda e: len(e["d"]) > 0 and len(e["d"][0]["px"]) > 0)
    ev[i]["d"][0]["px"].pop()


def c03_shift_parent_area(ev):
    # change the colour of one fill_solid that reached the parent and overlaps the parent's box
    pbox = None
    for e in ev:
        if e["ev"] == "stack":
            pbox = e["pbox"]
        if e["ev"] == "op" and pbox:
            for c in e["parent"]:
                a = c["area"]
                if (c["m"] == "fill_solid" and a[2] > 0 and a[3] > 0 and max(a[0], pbox[0]) < min(a[0] + a[2], pbox[0] + pbox[2])
                        and max(a[1], pbox[1]) < min(a[1] + a[3], pbox[1] + pbox[3])):
                    c["color"] = (c["color"] + 1) % 251
                    return
    raise SystemExit("selftest: no suitable parent call")


def c03_wrong_box(ev):
    i = first(ev, "stack", lambda e: len(e["boxes"]) > 1 and e["boxes"][-1][2] * e["boxes"][-1][3] > 0)
    ev[i]["boxes"][-1][2] += 1


def c04_extra_call(ev):
    i = first(ev, "faults", lambda e: len(e["runs"]) > 0 and len(e["runs"][0]["calls"]) > 0)
    r = ev[i]["runs"][0]
    r["calls"].append(copy.deepcopy(r["calls"][-1]))


def c04_swallow(ev):
    i = first(ev, "faults", lambda e: len(e["runs"]) > 0)
    ev[i]["runs"][0]["ret"] = 0


def c05_swap_points(ev):
    i = first(ev, "shape", lambda e: len(e["pr"]) >= 2)
    ev[i]["pr"][0], ev[i]["pr"][1] = ev[i]["pr"][1], ev[i]["pr"][0]


def c05_extra_contains(ev):
    i = first(ev, "shape", lambda e: len(e["cr"]) >= 1)
    ev[i]["cr"][-1][2] += 1


def c16_bump_intersection(ev):
    i = first(ev, "bin", lambda e: any(it[2][2] * it[2][3] > 0 for it in e["items"]))
    for it in ev[i]["items"]:
        if it[2][2] * it[2][3] > 0:
            it[2][2] += 1
            return


def c16_wrong_center(ev):
    i = first(ev, "un", lambda e: e["r"][2] > 2 and e["r"][3] > 0)
    ev[i]["center"][0] += 2


def renumber(ev):
    for e in ev:
        e["case"] += 100000


CORRUPTIONS = {
    "C01": [c01_flip_colour, c01_drop_default_call],
    "C03": [c03_shift_parent_area, c03_wrong_box],
    "C04": [c04_extra_call, c04_swallow],
    "C05": [c05_swap_points, c05_extra_contains],
    "C16": [c16_bump_intersection, c16_wrong_center],
}


def main():
    pids = sys.argv[1:] or sorted(CORRUPTIONS)
    ok = True
    for pid in pids:
        P = PROPS[pid]
        work = tempfile.mkdtemp(prefix="egv_selftest_")
        binpath = egv.build(P["bin"])
        out = os.path.join(work, "trace")
        open(os.path.join(work, "empty"), "w").close()
        subprocess.run([binpath, "--tier", "quick", "--seed", "1", "--out", out, "--shards", "4", "--gen", os.path.join(work, "empty"),
                        "--witnesses", os.path.join(work, "empty")], check=True, stdout=subprocess.DEVNULL)
        shard = sorted(p for p in os.listdir(out) if p.endswith(".ndjson"))[0]
        base = load(os.path.join(out, shard))
        n, accepted = run(pid, base, work, "clean")
        print("%s clean shard prefix (%d events): verdicts=%d accepted=%s" % (pid, len(base), n, accepted))
        ok &= (n == 0 and accepted)
        ev = copy.deepcopy(base)
        renumber(ev)
        n, accepted = run(pid, ev, work, "renumbered")
        print("%s neutral edit (case ids renumbered): verdicts=%d accepted=%s" % (pid, n, accepted))
        ok &= (n == 0 and accepted)
        for c in CORRUPTIONS[pid]:
            ev = copy.deepcopy(base)
            c(ev)
            n, accepted = run(pid, ev, work, c.__name__)
            print("%s corruption %-24s verdicts=%d accepted=%s -> %s" % (pid, c.__name__, n, accepted, "DETECTED" if (n > 0 or not accepted) else "MISSED"))
            ok &= (n > 0 or not accepted)
        subprocess.run(["rm", "-rf", work])
    print("selftest", "PASSED" if ok else "FAILED")
    return 0 if ok else 1


if __name__ == "__main__":
    sys.exit(main())
