----------------------------- MODULE Proof_C15 -----------------------------
(* Unbounded versions of the alignment and line-break arithmetic of text.rs   *)
(* that MC_C15 explores for short strings: for EVERY line width w >= 1 and    *)
(* EVERY position x the offsets Text::lines() computes (text.rs:128, :136)    *)
(* make the box of the line end at x (Right) resp. be centred on x within     *)
(* half a pixel (Center); and the line height in percent rounds down and is   *)
(* monotone.  Widths and positions range over all integers TLAPS knows, i.e.  *)
(* no overflow is modelled here (that is C08's subject).  Checked with TLAPS  *)
(* (tlapm); not load-bearing for any check.                                   *)
EXTENDS Integers, TLAPS

\* Rust's `/` on i32: truncation towards zero
TruncDiv(a, b) == IF a >= 0 THEN a \div b ELSE -((-a) \div b)
\* first column of a line of width w (= next_position.x of measure_string at 0) drawn at x
LeftOf(align, x, w) ==
  CASE align = 0 -> x
    [] align = 2 -> x - (w - 1)
    [] OTHER     -> x - TruncDiv(w - 1, 2)

THEOREM RightAlignedEndsAtX ==
  ASSUME NEW x \in Int, NEW w \in Nat, w >= 1
  PROVE  LeftOf(2, x, w) + w - 1 = x
  BY DEF LeftOf

THEOREM CenterWithinHalfAPixel ==
  ASSUME NEW x \in Int, NEW w \in Nat, w >= 1
  PROVE  LET l == LeftOf(1, x, w)  r == l + w - 1 IN (l + r) - 2 * x \in {0, 1}
<1> DEFINE m == w - 1
<1>0. m \in Nat
  OBVIOUS
<1>1. TruncDiv(m, 2) = m \div 2
  BY <1>0 DEF TruncDiv
<1>2. m = 2 * (m \div 2) + (m % 2) /\ (m % 2) \in {0, 1}
  BY <1>0
<1>3. LeftOf(1, x, w) = x - (m \div 2)
  BY <1>1 DEF LeftOf
<1>4. (x - (m \div 2)) + ((x - (m \div 2)) + w - 1) - 2 * x = m % 2
  BY <1>0, <1>2
<1> QED BY <1>2, <1>3, <1>4

\* an empty line (w = 0): Center and Left coincide, Right starts one pixel to the right of x
THEOREM EmptyLine ==
  ASSUME NEW x \in Int
  PROVE  LeftOf(1, x, 0) = x /\ LeftOf(2, x, 0) = x + 1
  BY DEF LeftOf, TruncDiv

\* LineHeight::Percent (text/mod.rs to_absolute): ch * p / 100 rounded down; 100 % is the font's line height
PercentOf(ch, p) == (ch * p) \div 100
THEOREM PercentLineHeight ==
  ASSUME NEW ch \in Nat, NEW p \in Nat, NEW q \in Nat, p <= q
  PROVE  /\ PercentOf(ch, 100) = ch
         /\ 100 * PercentOf(ch, p) <= ch * p /\ ch * p < 100 * PercentOf(ch, p) + 100
         /\ PercentOf(ch, p) <= PercentOf(ch, q)
<1>1. PercentOf(ch, 100) = ch
  BY DEF PercentOf
<1>2. 100 * PercentOf(ch, p) <= ch * p /\ ch * p < 100 * PercentOf(ch, p) + 100
  BY DEF PercentOf
<1> DEFINE d == q - p
<1>3. d \in Nat /\ ch * q = ch * p + ch * d /\ ch * d >= 0
  OBVIOUS
<1>4. ch * p <= ch * q
  BY <1>3
<1>5. PercentOf(ch, p) <= PercentOf(ch, q)
  BY <1>4 DEF PercentOf
<1> QED BY <1>1, <1>2, <1>5
=============================================================================
