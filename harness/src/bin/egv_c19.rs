//! C19 recorder: triangles (fill for all 6 vertex orders, one-pixel outline, edge lines), pairs of
//! triangles sharing an edge, polylines.  Records only; judged by spec/Trace_C19.tla.
//!   event `tri` : v = [a,b,c]; ts = points() of the 6 vertex orders as emission-order row runs
//!                 [y,x0,x1]; tdone = 6 flags "iterator ended within the budget";
//!                 ols = [[alignment 0 inside | 1 center | 2 outside, the set drawn by draw() with stroke
//!                 width 1 and no fill (sorted runs), the set of pixels() of the same styled triangle, ended 0/1]]
//!                 (an alignment whose stroke path panics is left out and recorded as a `panic` event);
//!                 lines = Line::points() of ab, ba, bc, cb, ca, ac as point lists
//!   event `pair`: v = [a,b,c,d]; t1 / t2 = points() of (a,b,c) / (a,b,d) as runs; lab / lba = Line::points() of ab / ba
//!   event `poly`: v, off; segs = Line(v[i]+off, v[i+1]+off).points(); pts = Polyline::points();
//!                 pix = points of Styled<Polyline>::pixels() with stroke width 1; dm = draw() result, points sorted by (y, x)
use egv::targets::MapTarget;
use egv::util::*;
use egv::*;
use embedded_graphics::{
    pixelcolor::BinaryColor,
    prelude::*,
    primitives::{Line, Polyline, PrimitiveStyle, Triangle},
    Pixel,
};
use std::collections::BTreeSet;

/// emission-order runs of a point sequence (lossless): consecutive points (x+1, same y) are merged
fn seq_runs(pts: &[Point]) -> Value {
    let mut out: Vec<Value> = vec![];
    let mut cur: Option<(i32, i32, i32)> = None;
    for p in pts {
        match cur {
            Some((y, x0, x1)) if p.y == y && p.x == x1 + 1 => cur = Some((y, x0, p.x)),
            Some((y, x0, x1)) => {
                out.push(json!([y, x0, x1]));
                cur = Some((p.y, p.x, p.x));
            }
            None => cur = Some((p.y, p.x, p.x)),
        }
    }
    if let Some((y, x0, x1)) = cur {
        out.push(json!([y, x0, x1]));
    }
    Value::Array(out)
}

const PERMS: [[usize; 3]; 6] = [[0, 1, 2], [0, 2, 1], [1, 0, 2], [1, 2, 0], [2, 0, 1], [2, 1, 0]];

fn tri_points(v: [Point; 3]) -> (Vec<Point>, bool) {
    let t = Triangle::new(v[0], v[1], v[2]);
    let bb = t.bounding_box();
    let budget = (bb.size.width as usize + 2) * (bb.size.height as usize + 2) + 64;
    pull(t.points(), budget)
}

fn pts_of(v: &Value) -> Vec<Point> {
    v.as_array().unwrap().iter().map(pt_from).collect()
}

fn run_tri(rec: &mut Rec, d: &Value) {
    let v = pts_of(&d["v"]);
    let v = [v[0], v[1], v[2]];
    // fill: points() for the 6 vertex orders, and the 6 directed edge lines
    let r = catch(|| {
        let mut ts = vec![];
        let mut tdone = vec![];
        let mut any = false;
        for p in PERMS.iter() {
            let (pts, done) = tri_points([v[p[0]], v[p[1]], v[p[2]]]);
            any |= !pts.is_empty();
            ts.push(seq_runs(&pts));
            tdone.push(done as i32);
        }
        let mut lines = vec![];
        for (i, j) in [(0, 1), (1, 0), (1, 2), (2, 1), (2, 0), (0, 2)] {
            lines.push(pts_json(Line::new(v[i], v[j]).points()));
        }
        (ts, tdone, lines, any)
    });
    let (ts, tdone, lines, any) = match r {
        Ok(x) => x,
        Err(p) => {
            rec.note("panicked_cases");
            rec.ev("panic", json!({"msg": p.msg, "loc": p.loc}));
            return;
        }
    };
    // one-pixel outline, no fill, for the three stroke alignments: [al, draw() set, pixels() set, pixels() ended]
    let t = Triangle::new(v[0], v[1], v[2]);
    let mut ols = vec![];
    for al in 0..3u32 {
        let st: PrimitiveStyle<BinaryColor> = egv::shapes::style_from(&egv::shapes::style_desc(-1, 1, 1, al));
        let r = catch(|| {
            let styled = t.into_styled(st);
            let mut m = MapTarget::<BinaryColor>::new();
            styled.draw(&mut m).unwrap();
            let ol: BTreeSet<(i32, i32)> = m.map.keys().copied().collect();
            let bb = t.bounding_box();
            let budget = (bb.size.width as usize + 4) * (bb.size.height as usize + 4) + 64;
            let (px, done) = pull(styled.pixels(), budget);
            let olp: BTreeSet<(i32, i32)> = px.iter().map(|Pixel(p, _)| (p.y, p.x)).collect();
            json!([al, runs_of(&ol), runs_of(&olp), done as i32])
        });
        match r {
            Ok(o) => ols.push(o),
            Err(p) => {
                rec.note("outline_panicked");
                rec.ev("panic", json!({"msg": p.msg, "loc": p.loc}));
            }
        }
    }
    // the triangle filled through a style without a stroke (no stroke colour / a stroke colour with width 0), for the
    // three stroke alignments: [al, variant, draw() set, pixels() set, pixels() ended]
    let mut fls = vec![];
    for al in 0..3u32 {
        for (variant, sc) in [(0, -1i64), (1, 0)] {
            let st: PrimitiveStyle<BinaryColor> = egv::shapes::style_from(&egv::shapes::style_desc(1, sc, 0, al));
            let r = catch(|| {
                let styled = t.into_styled(st);
                let mut m = MapTarget::<BinaryColor>::new();
                styled.draw(&mut m).unwrap();
                let fl: BTreeSet<(i32, i32)> = m.map.keys().copied().collect();
                let bb = t.bounding_box();
                let budget = (bb.size.width as usize + 4) * (bb.size.height as usize + 4) + 64;
                let (px, done) = pull(styled.pixels(), budget);
                let flp: BTreeSet<(i32, i32)> = px.iter().map(|Pixel(p, _)| (p.y, p.x)).collect();
                json!([al, variant, runs_of(&fl), runs_of(&flp), done as i32])
            });
            match r {
                Ok(o) => fls.push(o),
                Err(p) => {
                    rec.note("fill_panicked");
                    rec.ev("panic", json!({"msg": p.msg, "loc": p.loc}));
                }
            }
        }
    }
    if any {
        rec.nontrivial();
    }
    rec.ev("tri", json!({"v": d["v"], "ts": ts, "tdone": tdone, "ols": ols, "fls": fls, "lines": lines}));
}

fn run_pair(rec: &mut Rec, d: &Value) {
    let v = pts_of(&d["v"]);
    let r = catch(|| {
        let (t1, d1) = tri_points([v[0], v[1], v[2]]);
        let (t2, d2) = tri_points([v[0], v[1], v[3]]);
        let lab = pts_json(Line::new(v[0], v[1]).points());
        let lba = pts_json(Line::new(v[1], v[0]).points());
        (seq_runs(&t1), seq_runs(&t2), (d1 && d2) as i32, lab, lba)
    });
    match r {
        Ok((t1, t2, done, lab, lba)) => {
            rec.nontrivial();
            rec.ev("pair", json!({"v": d["v"], "t1": t1, "t2": t2, "done": done, "lab": lab, "lba": lba}));
        }
        Err(p) => {
            rec.note("panicked_cases");
            rec.ev("panic", json!({"msg": p.msg, "loc": p.loc}));
        }
    }
}

fn run_poly(rec: &mut Rec, d: &Value) {
    let v = pts_of(&d["v"]);
    let off = pt_from(&d["off"]);
    let r = catch(|| {
        let pl = Polyline::new(&v).translate(off);
        let mut segs = vec![];
        let mut total = 0usize;
        for w in v.windows(2) {
            let pts: Vec<Point> = Line::new(w[0] + off, w[1] + off).points().collect();
            total += pts.len();
            segs.push(pts_json(pts));
        }
        let budget = total + 64;
        let (pts, pdone) = pull(pl.points(), budget);
        let styled = pl.into_styled(PrimitiveStyle::with_stroke(BinaryColor::On, 1));
        let (px, xdone) = pull(styled.pixels(), budget);
        let pix: Vec<Point> = px.iter().map(|Pixel(p, _)| *p).collect();
        let mut m = MapTarget::<BinaryColor>::new();
        styled.draw(&mut m).unwrap();
        let dm: Vec<Value> = m.map.keys().map(|&(y, x)| json!([x, y])).collect();
        // both sequences through count / last / nth / size_hint / mixed consumption
        let stride = 1 + pts.len() % 3;
        let proto = if pdone && xdone {
            json!([iter_protocol(|| pl.points(), stride), iter_protocol_with(|| styled.pixels(), stride, |Pixel(p, _)| *p)])
        } else {
            json!([])
        };
        (segs, pts, pdone, pix, xdone, dm, proto)
    });
    match r {
        Ok((segs, pts, pdone, pix, xdone, dm, proto)) => {
            if !pts.is_empty() {
                rec.nontrivial();
            }
            rec.ev(
                "poly",
                json!({"v": d["v"], "off": d["off"], "segs": segs, "pts": pts_json(pts), "pdone": pdone as i32,
                       "pix": pts_json(pix), "xdone": xdone as i32, "dm": dm, "proto": proto}),
            );
        }
        Err(p) => {
            rec.note("panicked_cases");
            rec.ev("panic", json!({"msg": p.msg, "loc": p.loc}));
        }
    }
}

fn run_case(rec: &mut Rec, d: &Value) {
    rec.begin(d.clone());
    match d["k"].as_str().unwrap() {
        "tri" => run_tri(rec, d),
        "pair" => run_pair(rec, d),
        "poly" => run_poly(rec, d),
        k => panic!("unknown case kind {}", k),
    }
}

fn orient(a: (i32, i32), b: (i32, i32), p: (i32, i32)) -> i64 {
    (b.0 - a.0) as i64 * (p.1 - a.1) as i64 - (b.1 - a.1) as i64 * (p.0 - a.0) as i64
}
fn pj(p: (i32, i32)) -> Value {
    json!([p.0, p.1])
}

fn main() {
    let args = Args::parse();
    install_panic_hook();
    let mut rec = Rec::new(&args);
    let mut rng = Rng::new(args.seed ^ 0xC19);
    let th = args.thorough();
    if let Some(cases) = &args.cases {
        for d in cases {
            run_case(&mut rec, d);
        }
        rec.finish(json!({}));
        return;
    }
    // (G) the cases explored by MC_C19, and the witnesses of open findings
    for d in args.gen.iter().chain(args.witnesses.iter()) {
        run_case(&mut rec, d);
    }
    // triangles: every vertex multiset of a g x g grid (degenerate ones included); the case records all 6 orders
    let g: i32 = if th { 8 } else { 6 };
    let cell = |n: i32| (n % g - 2, n / g - 3);
    for i in 0..g * g {
        for j in i..g * g {
            for k in j..g * g {
                run_case(&mut rec, &json!({"k":"tri","v":[pj(cell(i)), pj(cell(j)), pj(cell(k))]}));
            }
        }
    }
    // seeded triangles: small / medium / display scale, with thin and nearly degenerate ones
    // (Triangle::points() evaluates is_collapsed() -> LineJoin: the i32 products there overflowed for +-300 triangles
    // before the repair D15c)
    let (n_small, n_big) = if th { (60_000, 10_000) } else { (1_500, 80) };
    for n in 0..n_small + n_big {
        let m = if n < n_small { if n % 3 == 0 { 12 } else { 40 } } else if n % 2 == 0 { 100 } else { 300 };
        let a = (rng.i32(-m, m), rng.i32(-m, m));
        let b = (rng.i32(-m, m), rng.i32(-m, m));
        let c = match rng.u32r(0, 5) {
            0 => (a.0 + rng.i32(-2, 2), b.1 + rng.i32(-2, 2)),                         // near right angle
            1 => ((a.0 + b.0) / 2 + rng.i32(-1, 1), (a.1 + b.1) / 2 + rng.i32(-1, 1)), // thin
            2 => (b.0 + (b.0 - a.0) / 2 + rng.i32(-1, 1), b.1 + (b.1 - a.1) / 2 + rng.i32(-1, 1)), // nearly colinear, beyond b
            _ => (rng.i32(-m, m), rng.i32(-m, m)),
        };
        run_case(&mut rec, &json!({"k":"tri","v":[pj(a), pj(b), pj(c)]}));
    }
    // display scale (the joins of the stroke path are computed for every triangle, also for points() and fills: their
    // products exceed 32 bits from about full-HD size on, or for medium triangles far from the origin)
    let mut big: Vec<[(i32, i32); 3]> = vec![[(0, 0), (1919, 0), (960, 1079)], [(0, 1000), (2400, 1000), (1200, 1012)],
        [(20_000, 20_000), (20_300, 20_010), (20_100, 20_280)], [(-1500, 900), (1700, -1100), (1650, 1000)]];
    for _ in 0..(if th { 150 } else { 4 }) {
        let o = (rng.i32(-30_000, 30_000), rng.i32(-30_000, 30_000));
        let m = *rng.pick(&[400, 1200, 2500]);
        big.push([(o.0 + rng.i32(-m, m), o.1 + rng.i32(-m, m)), (o.0 + rng.i32(-m, m), o.1 + rng.i32(-m, m)), (o.0 + rng.i32(-m, m), o.1 + rng.i32(-m, m))]);
    }
    for t in &big {
        run_case(&mut rec, &json!({"k":"tri","v":[pj(t[0]), pj(t[1]), pj(t[2])]}));
    }
    // pairs of triangles sharing the edge ab with c, d strictly on opposite sides
    let n_pairs = if th { 80_000 } else { 20_000 };
    let mut made = 0;
    while made < n_pairs {
        let m = if made % 4 == 3 && th { 20 } else if made % 4 == 3 { 8 } else { 4 };
        let lo = -(m / 2);
        let mut p = || (rng.i32(lo, lo + m), rng.i32(lo - 1, lo - 1 + m));
        let (a, b, c, d) = (p(), p(), p(), p());
        let (oc, od) = (orient(a, b, c), orient(a, b, d));
        if !((oc > 0 && od < 0) || (oc < 0 && od > 0)) {
            continue;
        }
        made += 1;
        run_case(&mut rec, &json!({"k":"pair","v":[pj(a), pj(b), pj(c), pj(d)]}));
    }
    // polylines: all with <= 3 vertices in a 4 x 4 grid, seeded ones with 4..=6 vertices
    let cell4 = |n: i32| (n % 4 - 1, n / 4 - 2);
    run_case(&mut rec, &json!({"k":"poly","v":[],"off":[0, 0]}));
    for i in 0..16 {
        run_case(&mut rec, &json!({"k":"poly","v":[pj(cell4(i))],"off":[0, 0]}));
        for j in 0..16 {
            run_case(&mut rec, &json!({"k":"poly","v":[pj(cell4(i)), pj(cell4(j))],"off":[3, -1]}));
            for k in 0..16 {
                run_case(&mut rec, &json!({"k":"poly","v":[pj(cell4(i)), pj(cell4(j)), pj(cell4(k))],"off":[0, 0]}));
            }
        }
    }
    let n_poly = if th { 100_000 } else { 20_000 };
    for n in 0..n_poly {
        let nv = rng.usize(4, 6);
        let m = if th && n % 2 == 1 { 30 } else { 3 };
        let mut v: Vec<(i32, i32)> = vec![];
        for _ in 0..nv {
            let p = match (rng.u32r(0, 7), v.len()) {
                (0, l) if l >= 1 => v[l - 1],     // repeated vertex
                (1, l) if l >= 2 => v[l - 2],     // reversal
                _ => (rng.i32(-1, m - 1), rng.i32(-2, m - 2)),
            };
            v.push(p);
        }
        let off = if rng.bool() { (0, 0) } else { (rng.i32(-9, 9), rng.i32(-9, 9)) };
        run_case(&mut rec, &json!({"k":"poly","v":v.iter().map(|&p| pj(p)).collect::<Vec<_>>(),"off":pj(off)}));
    }
    rec.finish(json!({}));
}
