CONSTANTS
  G = 2
  Ws = {1, 2, 3, 4, 5}
  D <- DQuick
  Als = {0, 1, 2}
  HasFill = FALSE
SPECIFICATION Spec
INVARIANTS RowInsideBox Equivariant RowsOrdered NoRowLost OutlineIsThreeLines
CHECK_DEADLOCK FALSE
