------------------------------ MODULE Trace_C01 -----------------------------
(* (T) for C01: the calls recorded on the native target, on the draw_iter-only *)
(* target and for pixels() are given their documented meaning (EGTarget) and   *)
(* the resulting pixel maps are compared.                                      *)
EXTENDS TraceBase, P_C01
VARIABLE l
Init == l = 1
StepCase(e) == e.ev = "case"
StepDraw(e) ==
  /\ e.ev = "draw"
  /\ LET f == PathFails(e.box, e.n, e.d, e.hasp, e.p, e.trunc) IN
     Report(e.case, f, IF f = {} THEN <<>> ELSE
            [nd |-> MapDiff(e.box, e.n, e.d), np |-> IF e.hasp = 1 THEN MapDiff(e.box, e.n, e.p) ELSE <<>>])
\* a library call of this case panicked: the property promises a result for every input of its domain
StepPanic(e) == e.ev = "panic" /\ Report(e.case, {"library_call_panicked"}, [msg |-> e.msg, loc |-> e.loc])
Next == /\ l <= NRec
        /\ LET e == Rec[l] IN StepCase(e) \/ StepDraw(e) \/ StepPanic(e)
        /\ l' = l + 1
Spec == Init /\ [][Next]_l
Done == IF TLCGet("stats").diameter = NRec + 1
        THEN PrintT("TRACE-ACCEPTED " \o ToString(NRec))
        ELSE PrintT("TRACE-REJECTED at line " \o ToString(TLCGet("stats").diameter)) /\ FALSE
=============================================================================
