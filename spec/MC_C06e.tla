------------------------------- MODULE MC_C06e ------------------------------
(* (M) for C06, second machine: the TRANSCRIBED drawing of styled ELLIPSES and *)
(* styled ROUNDED RECTANGLES (EGStyledCurve: StyledScanlines of                *)
(* ellipse/styled.rs and rounded_rectangle/styled.rs), one scanline per step,  *)
(* along both routes the library has: draw() (branch chosen by                 *)
(* effective_stroke_color(), fill-only shapes use the plain Scanlines of the   *)
(* fill area) and pixels() (branch chosen by the raw stroke colour, always     *)
(* the styled scanlines).  When the machine has finished, the pixel map must   *)
(* equal the ABSTRACT painting rule (EGStyled!ExpectedPaint) over the          *)
(* transcribed hit tests of fill_area() / stroke_area().                       *)
(* Mutant: "none" | "ell" (fill end of an ellipse row not mirrored) | "rr"     *)
(* (fill of a rounded-rectangle row runs to the end of the stroke scanline).   *)
EXTENDS EGStyledCurve, EGTarget
CONSTANTS SMax, WMax, Mutant
VARIABLES shape, st, route, pc, fb

Styles == { [fill |-> f, stroke |-> s, w |-> w, al |-> al] : f \in {7, -1}, s \in {9, -1}, w \in 0..WMax, al \in 0..2 }
Z == <<0, 0>>
\* radii quadruples: none, equal round, equal elliptical, larger than the box (confined), one corner, a diagonal pair
RadSet == { <<Z, Z, Z, Z>>, << <<1, 1>>, <<1, 1>>, <<1, 1>>, <<1, 1>> >>, << <<2, 1>>, <<2, 1>>, <<2, 1>>, <<2, 1>> >>,
            << <<4, 4>>, <<4, 4>>, <<4, 4>>, <<4, 4>> >>, << <<3, 2>>, Z, Z, Z >>, << <<2, 2>>, Z, <<3, 3>>, Z >> }
Shapes == { [k |-> "ellipse", b |-> <<1, -2, w, h>>] : w \in 0..SMax, h \in 0..SMax }
     \cup { [k |-> "rrect", rr |-> << <<-1, 2, w, h>>, rad >>] : w \in 0..SMax, h \in 0..SMax, rad \in RadSet }
Huge == <<-60, -60, 120, 120>>

\* stroke / fill areas
SA == IF shape.k = "ellipse" THEN EllStrokeArea(shape.b, st) ELSE RRStrokeArea(shape.rr, st)
FA == IF shape.k = "ellipse" THEN EllFillArea(shape.b, st) ELSE RRFillArea(shape.rr, st)
BoxOf(a) == IF shape.k = "ellipse" THEN a ELSE a[1]
\* which branch: draw() looks at the effective stroke colour, pixels() at the raw one
StrokeOn == IF route = "draw" THEN HasStroke(st) ELSE st.stroke >= 0
\* fill-only branch of draw(): plain scanlines of the FILL area
PlainFill == route = "draw" /\ ~HasStroke(st) /\ HasFill(st)
RowsBox == IF PlainFill THEN BoxOf(FA) ELSE BoxOf(SA)
NRows == IF ~StrokeOn /\ ~HasFill(st) THEN 0 ELSE RowsBox[4]

StyledRow(y) == IF shape.k = "ellipse" THEN EllStyledRowT(SA, FA, y, Mutant # "ell") ELSE RRStyledRowT(SA, FA, y, Mutant # "rr")
PlainRow(y) == IF shape.k = "ellipse"
               THEN LET r == EllScanlineT(FA, y) IN IF r = <<>> THEN <<y, 0, 0>> ELSE <<y, r[1], r[2]>>
               ELSE RRScanlineT(FA[1], FA[2], y)
RowCalls(y) ==
  IF PlainFill THEN LET r == PlainRow(y) IN SpanCall(y, r[2], r[3], st.fill)
  ELSE IF StrokeOn THEN StyledRowCalls(StyledRow(y), st, TRUE)
  ELSE LET r == StyledRow(y) IN SpanCall(y, r[4], r[5], st.fill)      \* pixels(), (None, Some(fill)): scanline.fill()

Init == shape \in Shapes /\ st \in Styles /\ route \in {"draw", "pixels"} /\ pc = 1 /\ fb = EmptyFb
Step == /\ pc <= NRows
        /\ fb' = ApplyAll(fb, Huge, RowCalls(RowsBox[2] + pc - 1))
        /\ pc' = pc + 1 /\ UNCHANGED <<shape, st, route>>
Next == Step
Spec == Init /\ [][Next]_<<shape, st, route, pc, fb>>

Finished == pc > NRows
InFill(p)   == IF shape.k = "ellipse" THEN EllipseContainsT(<<FA[1], FA[2]>>, <<FA[3], FA[4]>>, p) ELSE RRContainsT(FA[1], FA[2], p)
InStroke(p) == IF shape.k = "ellipse" THEN EllipseContainsT(<<SA[1], SA[2]>>, <<SA[3], SA[4]>>, p) ELSE RRContainsT(SA[1], SA[2], p)
ShapeBox == IF shape.k = "ellipse" THEN shape.b ELSE shape.rr[1]
Region == PointsOf(Grow(BoxOf(SA), 1)) \cup PointsOf(Grow(ShapeBox, 1))
Expected == ExpectedPaint(st, { p \in Region : InFill(p) }, { p \in Region : InStroke(p) })
PaintsByTheAreas == Finished => FbAsSet(fb) = Expected
\* the stepped machine ends in the closed form the trace specification compares the code with (Trace_C06 DRIFT)
MachineIsClosedForm == Finished => FbAsSet(fb) = StyledMapT(shape.k, IF shape.k = "ellipse" THEN shape.b ELSE shape.rr, st, route)
\* each row is painted left to right without overlap: stroke | fill | stroke
RowsOrdered == \A y \in RowsBox[2]..(RowsBox[2] + NRows - 1) :
  (~PlainFill) => LET r == StyledRow(y) IN (r[2] < r[3]) => (r[2] <= r[4] /\ r[4] <= r[5] /\ r[5] <= r[3])
\* documented geometry of the areas for non-degenerate shapes
AreasDocumented ==
  LET sb == ShapeBox IN
  (sb[3] >= 1 /\ sb[4] >= 1 /\ sb[3] - 2 * InsideW(st) >= 1 /\ sb[4] - 2 * InsideW(st) >= 1) =>
    /\ BoxOf(SA) = Grow(sb, OutsideW(st))
    /\ BoxOf(FA) = Grow(sb, -InsideW(st))
\* an inside stroke stays inside the shape, an outside stroke outside of it (on the transcribed hit tests)
InShape(p) == IF shape.k = "ellipse" THEN EllipseContainsT(<<shape.b[1], shape.b[2]>>, <<shape.b[3], shape.b[4]>>, p)
              ELSE RRContainsT(shape.rr[1], shape.rr[2], p)
StrokeSides ==
  LET sb == ShapeBox IN
  (Finished /\ HasStroke(st) /\ sb[3] >= 1 /\ sb[4] >= 1 /\ sb[3] - 2 * InsideW(st) >= 1 /\ sb[4] - 2 * InsideW(st) >= 1) =>
    \A t \in FbAsSet(fb) : (t[3] = st.stroke) =>
        /\ (st.al = 0 => InShape(<<t[1], t[2]>>))
        /\ (st.al = 2 => ~InShape(<<t[1], t[2]>>))
\* C02 at the design level, in every state: painted points lie inside styled_bounding_box() =
\* bounding_box().offset(outside stroke width) (ellipse/styled.rs:140, rounded_rectangle/styled.rs:146)
StyledBox == Offset(ShapeBox, OutsideW(st))
\* negative control (cfg: StyledBox <- BoxWithoutStroke): the stroke forgotten
BoxWithoutStroke == ShapeBox
InsideStyledBox == DOMAIN fb \subseteq PointsOf(StyledBox)
TransparentPaintsNothing == IsTransparent(st) => fb = EmptyFb
=============================================================================
