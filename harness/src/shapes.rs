//! Primitives from / to JSON case descriptors, and uniform access to their public API.
//! Angles travel as integers in sixteenths of a degree (exactly representable in f32).

use crate::util::*;
use embedded_graphics::{
    geometry::AnchorPoint,
    prelude::*,
    primitives::{
        Arc, Circle, CornerRadii, Ellipse, Line, Polyline, PrimitiveStyle, PrimitiveStyleBuilder, Rectangle,
        RoundedRectangle, Sector, StrokeAlignment, Triangle,
    },
    Pixel,
};
use serde_json::{json, Value};

#[derive(Clone, Debug)]
pub enum Shape {
    Rect(Rectangle),
    Circle(Circle),
    Ellipse(Ellipse),
    RRect(RoundedRectangle),
    Triangle(Triangle),
    Sector(Sector, i32, i32),
    Arc(Arc, i32, i32),
    Line(Line),
    Polyline(Vec<Point>, Point),
}

pub fn deg16(a: i32) -> Angle {
    Angle::from_degrees(a as f32 / 16.0)
}

/// the sweep of an arc / sector descriptor: "sw" in 1/16 degree, or - if present - "swm" in 1/1000 degree (then "sw" is
/// the value the trace checker works with: the sweep rounded towards zero to 1/16 degree)
fn sweep_of(d: &Value, sw: i32) -> Angle {
    match d.get("swm").and_then(|v| v.as_i64()) {
        Some(m) => Angle::from_degrees(m as f32 / 1000.0),
        _ => deg16(sw),
    }
}

fn size_json(s: Size) -> Value {
    json!([s.width, s.height])
}
fn size_from(v: &Value) -> Size {
    Size::new(i(&v[0]) as u32, i(&v[1]) as u32)
}

impl Shape {
    pub fn kind(&self) -> &'static str {
        match self {
            Shape::Rect(_) => "rect",
            Shape::Circle(_) => "circle",
            Shape::Ellipse(_) => "ellipse",
            Shape::RRect(_) => "rrect",
            Shape::Triangle(_) => "triangle",
            Shape::Sector(..) => "sector",
            Shape::Arc(..) => "arc",
            Shape::Line(_) => "line",
            Shape::Polyline(..) => "polyline",
        }
    }

    pub fn to_desc(&self) -> Value {
        match self {
            Shape::Rect(r) => json!({"k":"rect","r":rect_json(r)}),
            Shape::Circle(c) => json!({"k":"circle","tl":pt_json(c.top_left),"d":c.diameter}),
            Shape::Ellipse(e) => json!({"k":"ellipse","tl":pt_json(e.top_left),"size":size_json(e.size)}),
            Shape::RRect(r) => json!({"k":"rrect","r":rect_json(&r.rectangle),"radii":[
                size_json(r.corners.top_left), size_json(r.corners.top_right),
                size_json(r.corners.bottom_right), size_json(r.corners.bottom_left)]}),
            Shape::Triangle(t) => json!({"k":"triangle","v":[pt_json(t.vertices[0]),pt_json(t.vertices[1]),pt_json(t.vertices[2])]}),
            // "swm": a sweep that is not a multiple of the 1/16 degree unit of "sw", in 1/1000 degree
            Shape::Sector(s, a0, sw) => {
                let mut v = json!({"k":"sector","tl":pt_json(s.top_left),"d":s.diameter,"a0":a0,"sw":sw});
                let swm = (s.angle_sweep.to_degrees() * 1000.0).round() as i32;
                if (*sw as i64 * 125 - swm as i64 * 2).abs() > 2 {
                    v["swm"] = json!(swm);
                }
                v
            }
            Shape::Arc(s, a0, sw) => {
                let mut v = json!({"k":"arc","tl":pt_json(s.top_left),"d":s.diameter,"a0":a0,"sw":sw});
                let swm = (s.angle_sweep.to_degrees() * 1000.0).round() as i32;
                if (*sw as i64 * 125 - swm as i64 * 2).abs() > 2 {
                    v["swm"] = json!(swm);
                }
                v
            }
            Shape::Line(l) => json!({"k":"line","s":pt_json(l.start),"e":pt_json(l.end)}),
            Shape::Polyline(v, off) => json!({"k":"polyline","v":v.iter().map(|p| pt_json(*p)).collect::<Vec<_>>(),"off":pt_json(*off)}),
        }
    }

    pub fn from_desc(d: &Value) -> Shape {
        match d["k"].as_str().unwrap() {
            "rect" => Shape::Rect(rect_from(&d["r"])),
            "circle" => Shape::Circle(Circle::new(pt_from(&d["tl"]), i(&d["d"]) as u32)),
            "ellipse" => Shape::Ellipse(Ellipse::new(pt_from(&d["tl"]), size_from(&d["size"]))),
            "rrect" => {
                let r = &d["radii"];
                Shape::RRect(RoundedRectangle::new(
                    rect_from(&d["r"]),
                    CornerRadii { top_left: size_from(&r[0]), top_right: size_from(&r[1]), bottom_right: size_from(&r[2]), bottom_left: size_from(&r[3]) },
                ))
            }
            "triangle" => Shape::Triangle(Triangle::new(pt_from(&d["v"][0]), pt_from(&d["v"][1]), pt_from(&d["v"][2]))),
            "sector" => {
                let (a0, sw) = (i(&d["a0"]) as i32, i(&d["sw"]) as i32);
                Shape::Sector(Sector::new(pt_from(&d["tl"]), i(&d["d"]) as u32, deg16(a0), sweep_of(d, sw)), a0, sw)
            }
            "arc" => {
                let (a0, sw) = (i(&d["a0"]) as i32, i(&d["sw"]) as i32);
                Shape::Arc(Arc::new(pt_from(&d["tl"]), i(&d["d"]) as u32, deg16(a0), sweep_of(d, sw)), a0, sw)
            }
            "line" => Shape::Line(Line::new(pt_from(&d["s"]), pt_from(&d["e"]))),
            "polyline" => Shape::Polyline(
                d["v"].as_array().unwrap().iter().map(pt_from).collect(),
                if d["off"].is_array() { pt_from(&d["off"]) } else { Point::zero() },
            ),
            k => panic!("unknown shape kind {}", k),
        }
    }

    pub fn bounding_box(&self) -> Rectangle {
        match self {
            Shape::Rect(s) => s.bounding_box(),
            Shape::Circle(s) => s.bounding_box(),
            Shape::Ellipse(s) => s.bounding_box(),
            Shape::RRect(s) => s.bounding_box(),
            Shape::Triangle(s) => s.bounding_box(),
            Shape::Sector(s, ..) => s.bounding_box(),
            Shape::Arc(s, ..) => s.bounding_box(),
            Shape::Line(s) => s.bounding_box(),
            Shape::Polyline(v, off) => Polyline::new(v).translate(*off).bounding_box(),
        }
    }

    pub fn has_contains(&self) -> bool {
        !matches!(self, Shape::Arc(..) | Shape::Line(_) | Shape::Polyline(..))
    }

    pub fn contains(&self, p: Point) -> bool {
        match self {
            Shape::Rect(s) => s.contains(p),
            Shape::Circle(s) => s.contains(p),
            Shape::Ellipse(s) => s.contains(p),
            Shape::RRect(s) => s.contains(p),
            Shape::Triangle(s) => s.contains(p),
            Shape::Sector(s, ..) => s.contains(p),
            _ => panic!("no contains()"),
        }
    }

    /// the hit test through the `ContainsPoint` trait (a generic caller's route; `Rectangle` also has an inherent
    /// `contains`, which is what `contains()` above resolves to)
    pub fn contains_via_trait(&self, p: Point) -> bool {
        fn via<S: embedded_graphics::primitives::ContainsPoint>(s: &S, p: Point) -> bool {
            s.contains(p)
        }
        match self {
            Shape::Rect(s) => via(s, p),
            Shape::Circle(s) => via(s, p),
            Shape::Ellipse(s) => via(s, p),
            Shape::RRect(s) => via(s, p),
            Shape::Triangle(s) => via(s, p),
            Shape::Sector(s, ..) => via(s, p),
            _ => panic!("no contains()"),
        }
    }

    /// `points()` pulled with a step budget; returns (points, exhausted)
    pub fn points(&self, budget: usize) -> (Vec<Point>, bool) {
        match self {
            Shape::Rect(s) => pull(s.points(), budget),
            Shape::Circle(s) => pull(s.points(), budget),
            Shape::Ellipse(s) => pull(s.points(), budget),
            Shape::RRect(s) => pull(s.points(), budget),
            Shape::Triangle(s) => pull(s.points(), budget),
            Shape::Sector(s, ..) => pull(s.points(), budget),
            Shape::Arc(s, ..) => pull(s.points(), budget),
            Shape::Line(s) => pull(s.points(), budget),
            Shape::Polyline(v, off) => pull(Polyline::new(v).translate(*off).points(), budget),
        }
    }

    /// `points()` observed through count / last / nth / size_hint (see util::iter_protocol)
    pub fn points_protocol(&self, stride: usize) -> Value {
        match self {
            Shape::Rect(s) => iter_protocol(|| s.points(), stride),
            Shape::Circle(s) => iter_protocol(|| s.points(), stride),
            Shape::Ellipse(s) => iter_protocol(|| s.points(), stride),
            Shape::RRect(s) => iter_protocol(|| s.points(), stride),
            Shape::Triangle(s) => iter_protocol(|| s.points(), stride),
            Shape::Sector(s, ..) => iter_protocol(|| s.points(), stride),
            Shape::Arc(s, ..) => iter_protocol(|| s.points(), stride),
            Shape::Line(s) => iter_protocol(|| s.points(), stride),
            Shape::Polyline(v, off) => iter_protocol(|| Polyline::new(v).translate(*off).points(), stride),
        }
    }

    pub fn translate(&self, d: Point) -> Shape {
        match self {
            Shape::Rect(s) => Shape::Rect(s.translate(d)),
            Shape::Circle(s) => Shape::Circle(s.translate(d)),
            Shape::Ellipse(s) => Shape::Ellipse(s.translate(d)),
            Shape::RRect(s) => Shape::RRect(s.translate(d)),
            Shape::Triangle(s) => Shape::Triangle(s.translate(d)),
            Shape::Sector(s, a, b) => Shape::Sector(s.translate(d), *a, *b),
            Shape::Arc(s, a, b) => Shape::Arc(s.translate(d), *a, *b),
            Shape::Line(s) => Shape::Line(s.translate(d)),
            Shape::Polyline(v, off) => Shape::Polyline(v.clone(), Polyline::new(v).translate(*off).translate(d).translate),
        }
    }

    /// the same object obtained through `translate_mut`
    pub fn translate_mut(&self, d: Point) -> Shape {
        match self {
            Shape::Rect(s) => { let mut t = *s; t.translate_mut(d); Shape::Rect(t) }
            Shape::Circle(s) => { let mut t = *s; t.translate_mut(d); Shape::Circle(t) }
            Shape::Ellipse(s) => { let mut t = *s; t.translate_mut(d); Shape::Ellipse(t) }
            Shape::RRect(s) => { let mut t = *s; t.translate_mut(d); Shape::RRect(t) }
            Shape::Triangle(s) => { let mut t = *s; t.translate_mut(d); Shape::Triangle(t) }
            Shape::Sector(s, a, b) => { let mut t = *s; t.translate_mut(d); Shape::Sector(t, *a, *b) }
            Shape::Arc(s, a, b) => { let mut t = *s; t.translate_mut(d); Shape::Arc(t, *a, *b) }
            Shape::Line(s) => { let mut t = *s; t.translate_mut(d); Shape::Line(t) }
            Shape::Polyline(v, off) => {
                let mut t = Polyline::new(v).translate(*off);
                t.translate_mut(d);
                Shape::Polyline(v.clone(), t.translate)
            }
        }
    }

    /// polyline whose vertices were moved instead of using `translate`
    pub fn moved_vertices(&self, d: Point) -> Shape {
        match self {
            Shape::Polyline(v, off) => Shape::Polyline(v.iter().map(|p| *p + d).collect(), *off),
            s => s.translate(d),
        }
    }

    pub fn draw<C: Col, T: DrawTarget<Color = C>>(&self, st: &PrimitiveStyle<C>, t: &mut T) -> Result<(), T::Error> {
        match self {
            Shape::Rect(s) => s.into_styled(*st).draw(t),
            Shape::Circle(s) => s.into_styled(*st).draw(t),
            Shape::Ellipse(s) => s.into_styled(*st).draw(t),
            Shape::RRect(s) => s.into_styled(*st).draw(t),
            Shape::Triangle(s) => s.into_styled(*st).draw(t),
            Shape::Sector(s, ..) => s.into_styled(*st).draw(t),
            Shape::Arc(s, ..) => s.into_styled(*st).draw(t),
            Shape::Line(s) => s.into_styled(*st).draw(t),
            Shape::Polyline(v, off) => Polyline::new(v).translate(*off).into_styled(*st).draw(t),
        }
    }

    /// the STYLED primitive moved with `Styled::translate` (mode 0) / `Styled::translate_mut` (mode 1), then drawn
    pub fn draw_styled_translated<C: Col, T: DrawTarget<Color = C>>(&self, st: &PrimitiveStyle<C>, by: Point, mode: u32, t: &mut T) -> Result<(), T::Error> {
        macro_rules! go {
            ($s:expr) => {{
                let styled = $s.into_styled(*st);
                if mode == 0 {
                    styled.translate(by).draw(t)
                } else {
                    let mut m = styled;
                    m.translate_mut(by);
                    m.draw(t)
                }
            }};
        }
        match self {
            Shape::Rect(s) => go!(s),
            Shape::Circle(s) => go!(s),
            Shape::Ellipse(s) => go!(s),
            Shape::RRect(s) => go!(s),
            Shape::Triangle(s) => go!(s),
            Shape::Sector(s, ..) => go!(s),
            Shape::Arc(s, ..) => go!(s),
            Shape::Line(s) => go!(s),
            Shape::Polyline(v, off) => go!(Polyline::new(v).translate(*off)),
        }
    }

    /// `pixels()` of the styled primitive observed through count / last / nth / size_hint / mixed consumption
    pub fn pixels_protocol<C: Col>(&self, st: &PrimitiveStyle<C>, stride: usize) -> Value {
        macro_rules! go {
            ($s:expr) => {{
                let styled = $s.into_styled(*st);
                iter_protocol_with(|| styled.pixels(), stride, |Pixel(p, _)| *p)
            }};
        }
        match self {
            Shape::Rect(s) => go!(s),
            Shape::Circle(s) => go!(s),
            Shape::Ellipse(s) => go!(s),
            Shape::RRect(s) => go!(s),
            Shape::Triangle(s) => go!(s),
            Shape::Sector(s, ..) => go!(s),
            Shape::Arc(s, ..) => go!(s),
            Shape::Line(s) => go!(s),
            Shape::Polyline(v, off) => go!(Polyline::new(v).translate(*off)),
        }
    }

    /// `pixels()` of the styled primitive, pulled with a budget; returns (pixels, exhausted)
    pub fn pixels<C: Col>(&self, st: &PrimitiveStyle<C>, budget: usize) -> (Vec<Pixel<C>>, bool) {
        match self {
            Shape::Rect(s) => pull(s.into_styled(*st).pixels(), budget),
            Shape::Circle(s) => pull(s.into_styled(*st).pixels(), budget),
            Shape::Ellipse(s) => pull(s.into_styled(*st).pixels(), budget),
            Shape::RRect(s) => pull(s.into_styled(*st).pixels(), budget),
            Shape::Triangle(s) => pull(s.into_styled(*st).pixels(), budget),
            Shape::Sector(s, ..) => pull(s.into_styled(*st).pixels(), budget),
            Shape::Arc(s, ..) => pull(s.into_styled(*st).pixels(), budget),
            Shape::Line(s) => pull(s.into_styled(*st).pixels(), budget),
            Shape::Polyline(v, off) => pull(Polyline::new(v).translate(*off).into_styled(*st).pixels(), budget),
        }
    }

    pub fn styled_bounding_box<C: Col>(&self, st: &PrimitiveStyle<C>) -> Rectangle {
        match self {
            Shape::Rect(s) => s.into_styled(*st).bounding_box(),
            Shape::Circle(s) => s.into_styled(*st).bounding_box(),
            Shape::Ellipse(s) => s.into_styled(*st).bounding_box(),
            Shape::RRect(s) => s.into_styled(*st).bounding_box(),
            Shape::Triangle(s) => s.into_styled(*st).bounding_box(),
            Shape::Sector(s, ..) => s.into_styled(*st).bounding_box(),
            Shape::Arc(s, ..) => s.into_styled(*st).bounding_box(),
            Shape::Line(s) => s.into_styled(*st).bounding_box(),
            Shape::Polyline(v, off) => Polyline::new(v).translate(*off).into_styled(*st).bounding_box(),
        }
    }
}

/// Style descriptor: {"fill": c|-1, "stroke": c|-1, "w": n, "al": 0 inside | 1 center | 2 outside}
pub fn style_from<C: Col>(d: &Value) -> PrimitiveStyle<C> {
    // The same style along several routes of the public API (chosen by a hash of the style): the builder in two call
    // orders, a builder made from a finished style, the public fields, with_fill / with_stroke where they apply.
    let fill = if i(&d["fill"]) >= 0 { Some(C::from_u32(i(&d["fill"]) as u32)) } else { None };
    let stroke = if i(&d["stroke"]) >= 0 { Some(C::from_u32(i(&d["stroke"]) as u32)) } else { None };
    // optional "wreal": the real stroke width when it does not fit the 32-bit integers of the trace checker ("w" then
    // holds an equivalent smaller width, see egv_c06)
    let w = d.get("wreal").and_then(|v| v.as_str()).map(|v| v.parse::<u32>().expect("wreal")).unwrap_or(i(&d["w"]) as u32);
    let al = match i(&d["al"]) {
        0 => StrokeAlignment::Inside,
        1 => StrokeAlignment::Center,
        _ => StrokeAlignment::Outside,
    };
    // optional: {"dot": 1} selects the dotted stroke style (the default is solid)
    let dotted = d["dot"].as_i64() == Some(1);
    let route = (i(&d["fill"]) + 3 * i(&d["stroke"]) + 5 * w as i64 + 7 * i(&d["al"])).rem_euclid(5);
    let full = |b: PrimitiveStyleBuilder<C>| {
        let mut b = b;
        if let Some(c) = fill {
            b = b.fill_color(c);
        }
        if let Some(c) = stroke {
            b = b.stroke_color(c);
        }
        b = b.stroke_width(w).stroke_alignment(al);
        if dotted {
            b = b.stroke_style(embedded_graphics::primitives::StrokeStyle::Dotted);
        }
        b
    };
    match route {
        1 => {
            // reverse call order
            let mut b = PrimitiveStyleBuilder::new();
            if dotted {
                b = b.stroke_style(embedded_graphics::primitives::StrokeStyle::Dotted);
            }
            b = b.stroke_alignment(al).stroke_width(w);
            if let Some(c) = stroke {
                b = b.stroke_color(c);
            }
            if let Some(c) = fill {
                b = b.fill_color(c);
            }
            b.build()
        }
        2 => {
            // a finished style with OTHER settings converted back into a builder, everything set again / reset
            let other = PrimitiveStyleBuilder::new().fill_color(C::from_u32(1)).stroke_color(C::from_u32(0)).stroke_width(9).stroke_alignment(StrokeAlignment::Outside).build();
            let mut b = PrimitiveStyleBuilder::from(&other);
            if fill.is_none() {
                b = b.reset_fill_color();
            }
            if stroke.is_none() {
                b = b.reset_stroke_color();
            }
            full(b).build()
        }
        3 => {
            let mut st = PrimitiveStyle::<C>::new();
            st.fill_color = fill;
            st.stroke_color = stroke;
            st.stroke_width = w;
            st.stroke_alignment = al;
            if dotted {
                st.stroke_style = embedded_graphics::primitives::StrokeStyle::Dotted;
            }
            st
        }
        4 if !dotted && al == StrokeAlignment::Center && stroke.is_none() && w == 0 && fill.is_some() => PrimitiveStyle::with_fill(fill.unwrap()),
        4 if !dotted && al == StrokeAlignment::Center && fill.is_none() && stroke.is_some() => PrimitiveStyle::with_stroke(stroke.unwrap(), w),
        _ => full(PrimitiveStyleBuilder::new()).build(),
    }
}
pub fn style_desc(fill: i64, stroke: i64, w: u32, al: u32) -> Value {
    json!({"fill":fill,"stroke":stroke,"w":w,"al":al})
}

pub const ANCHORS: [AnchorPoint; 9] = [
    AnchorPoint::TopLeft,
    AnchorPoint::TopCenter,
    AnchorPoint::TopRight,
    AnchorPoint::CenterLeft,
    AnchorPoint::Center,
    AnchorPoint::CenterRight,
    AnchorPoint::BottomLeft,
    AnchorPoint::BottomCenter,
    AnchorPoint::BottomRight,
];

/// Allocation-free iteration (used by the totality property): visit `points()` with a step budget.
/// Returns (steps, exhausted).
pub fn visit<I: Iterator>(it: I, budget: usize, f: &mut dyn FnMut(I::Item)) -> (usize, bool) {
    let mut n = 0usize;
    for x in it {
        if n >= budget {
            return (n, false);
        }
        n += 1;
        f(x);
    }
    (n, true)
}

impl Shape {
    pub fn visit_points(&self, budget: usize, f: &mut dyn FnMut(Point)) -> (usize, bool) {
        match self {
            Shape::Rect(s) => visit(s.points(), budget, f),
            Shape::Circle(s) => visit(s.points(), budget, f),
            Shape::Ellipse(s) => visit(s.points(), budget, f),
            Shape::RRect(s) => visit(s.points(), budget, f),
            Shape::Triangle(s) => visit(s.points(), budget, f),
            Shape::Sector(s, ..) => visit(s.points(), budget, f),
            Shape::Arc(s, ..) => visit(s.points(), budget, f),
            Shape::Line(s) => visit(s.points(), budget, f),
            Shape::Polyline(v, off) => visit(Polyline::new(v).translate(*off).points(), budget, f),
        }
    }
    pub fn visit_pixels<C: Col>(&self, st: &PrimitiveStyle<C>, budget: usize, f: &mut dyn FnMut(Pixel<C>)) -> (usize, bool) {
        match self {
            Shape::Rect(s) => visit(s.into_styled(*st).pixels(), budget, f),
            Shape::Circle(s) => visit(s.into_styled(*st).pixels(), budget, f),
            Shape::Ellipse(s) => visit(s.into_styled(*st).pixels(), budget, f),
            Shape::RRect(s) => visit(s.into_styled(*st).pixels(), budget, f),
            Shape::Triangle(s) => visit(s.into_styled(*st).pixels(), budget, f),
            Shape::Sector(s, ..) => visit(s.into_styled(*st).pixels(), budget, f),
            Shape::Arc(s, ..) => visit(s.into_styled(*st).pixels(), budget, f),
            Shape::Line(s) => visit(s.into_styled(*st).pixels(), budget, f),
            Shape::Polyline(v, off) => visit(Polyline::new(v).translate(*off).into_styled(*st).pixels(), budget, f),
        }
    }
}
