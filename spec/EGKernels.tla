------------------------------ MODULE EGKernels -----------------------------
(* Overflow model of the arithmetic kernels that property C08 anchors          *)
(* (EGInt-style transcriptions).  TLC integers are 32 bit, so the kernels are  *)
(* evaluated in an ABSTRACT DOMAIN: a value is represented by an upper bound   *)
(* on its bit length (|v| < 2^bits).  Products add bit lengths, sums take the  *)
(* maximum plus one.  A kernel is a sequence of named intermediates, each with *)
(* the bit length bound computed from the input bounds and the width of the    *)
(* Rust type that holds it (signed types keep one bit for the sign).           *)
(* `NoOverflow(k, cb, sb, wb)` says: for all inputs with |coordinates| < 2^cb, *)
(* sizes < 2^sb and stroke widths < 2^wb no intermediate leaves its type.      *)
EXTENDS Integers, Sequences, EGInt

Mul(a, b) == a + b
Add(a, b) == Max(a, b) + 1
Sq(a)     == 2 * a
I32 == 31   U32 == 32   I64 == 63   U64 == 64   USIZE == 64

\* every kernel: <<name, sequence of <<intermediate name, bit length bound, type width>> >>
\* `wide` selects the repaired code (64 bit intermediates) or the code of the pinned snapshot
Kernels(cb, sb, wb, wide) ==
  LET big == IF wide THEN U64 ELSE U32   sbig == IF wide THEN I64 ELSE I32
      \* a doubled coordinate relative to a doubled centre: |2p - (2 tl + size - 1)|
      rel == Add(Add(cb + 1, cb + 1), sb)
      \* a vertex difference
      delta == Add(cb, cb)
      \* ellipse/mod.rs:190-215 EllipseContains::new / contains
      a == Sq(sb)  x == Sq(rel)
      \* line/thick_points.rs:96 ParallelsIterator::new
      len2 == Add(Sq(delta), Sq(delta))
      thr == Mul(Sq(wb + 1), len2)
      \* the accumulator grows until its square exceeds the threshold
      acc == (thr \div 2) + 2
      \* common/linear_equation.rs LinearEquation::from_line, line/intersection_params.rs
      normal == delta
      od == Add(Mul(cb, normal), Mul(cb, normal))
      den == Add(Mul(normal, normal), Mul(normal, normal))
      num == Add(Mul(od, normal), Mul(od, normal))
  IN <<
    <<"EllipseContains", << <<"a = width^2", a, big>>, <<"threshold = b * a", Mul(a, a), big>>,
                            <<"x = point.x^2", x, big>>, <<"b * x + a * y", Add(Mul(a, x), Mul(a, x)), big>> >> >>,
    <<"CircleContains",  << <<"delta.length_squared()", Add(Sq(rel), Sq(rel)), I32>>, <<"threshold = d^2", Sq(sb), U32>> >> >>,
    <<"ParallelsIterator", << <<"delta.length_squared()", len2, I32>>, <<"thickness_threshold", thr, sbig>>,
                              <<"thickness_accumulator", acc, I32>>, <<"thickness_accumulator^2", Sq(acc), sbig>> >> >>,
    <<"LinearEquation", << <<"origin_distance", od, I32>>, <<"denominator", den, I32>> >> >>,
    <<"IntersectionParams", << <<"denominator^2", Sq(den), sbig>>, <<"numerator", num, sbig>>,
                               <<"delta1 . delta2", Add(Mul(delta, delta), Mul(delta, delta)), I32>> >> >>,
    <<"LineJoin", << <<"miter_limit = (2 width)^2", Sq(wb + 1), IF wide THEN I64 ELSE U32>>,
                     \* the intersection is limited to +-2^30 in the repaired code, to the i32 range before
                     <<"miter delta", IF wide THEN 31 ELSE 32, I32>>,
                     <<"miter_length_squared", Add(Sq(IF wide THEN 31 ELSE 32), Sq(IF wide THEN 31 ELSE 32)), IF wide THEN I64 ELSE I32>> >> >>,
    <<"RectangleOffset", << <<"offset as u32 * 2", wb + 1, U32>>, <<"size + 2 * offset", Add(sb, wb + 1), U32>> >> >>,
    <<"CroppedNew", << <<"y * width + x", Add(Mul(sb, sb), sb), USIZE>> >> >>,
    <<"Bresenham", << <<"error_step = 2 * delta", delta + 1, I32>>, <<"error", delta + 2, I32>> >> >>
  >>

Overflows(k) == { i \in 1..Len(k[2]) : k[2][i][2] > k[2][i][3] }
NoOverflow(k) == Overflows(k) = {}
=============================================================================
