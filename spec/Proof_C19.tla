----------------------------- MODULE Proof_C19 -----------------------------
(* Unbounded facts behind the abstract reading of C19 (EGTriangle, ABSTRACT    *)
(* part) that MC_C19 and Trace_C19 use on bounded grids, here for ALL integer  *)
(* coordinates (scalar form: a = (ax, ay), ...):                               *)
(*  - the orientation determinant is cyclic, antisymmetric under a swap of two *)
(*    vertices, and invariant under translation;                               *)
(*  - the transcription of Triangle::area_doubled IS that determinant;         *)
(*  - hence "p is in the closed triangle" (InsideTri) does not depend on the   *)
(*    order in which the three vertices are given (all six orders) nor on a    *)
(*    common translation of triangle and point - the reading against which     *)
(*    the vertex-order clause of C19 and the triangle part of C07 are judged.  *)
(* Checked with TLAPS (tlapm); not load-bearing for any check.                 *)
EXTENDS Integers, TLAPS

\* EGTriangle!Orient in scalar form: Cross(b - a, p - a)
O(ax, ay, bx, by, px, py) == (bx - ax) * (py - ay) - (by - ay) * (px - ax)
\* EGTriangle!AreaDoubled (Triangle::area_doubled) in scalar form
AD(x1, y1, x2, y2, x3, y3) == (-y2) * x3 + y1 * (x3 - x2) + x1 * (y2 - y3) + x2 * y3
\* EGTriangle!InsideTri in scalar form
In(ax, ay, bx, by, cx, cy, px, py) ==
  LET o1 == O(ax, ay, bx, by, px, py)  o2 == O(bx, by, cx, cy, px, py)  o3 == O(cx, cy, ax, ay, px, py) IN
  (o1 >= 0 /\ o2 >= 0 /\ o3 >= 0) \/ (o1 <= 0 /\ o2 <= 0 /\ o3 <= 0)

LEMMA OInt ==
  ASSUME NEW ax \in Int, NEW ay \in Int, NEW bx \in Int, NEW by \in Int, NEW px \in Int, NEW py \in Int
  PROVE  O(ax, ay, bx, by, px, py) \in Int
  BY DEF O

THEOREM OrientSwap ==
  ASSUME NEW ax \in Int, NEW ay \in Int, NEW bx \in Int, NEW by \in Int, NEW px \in Int, NEW py \in Int
  PROVE  O(bx, by, ax, ay, px, py) = -O(ax, ay, bx, by, px, py)
  BY DEF O

THEOREM OrientCyclic ==
  ASSUME NEW ax \in Int, NEW ay \in Int, NEW bx \in Int, NEW by \in Int, NEW cx \in Int, NEW cy \in Int
  PROVE  /\ O(bx, by, cx, cy, ax, ay) = O(ax, ay, bx, by, cx, cy)
         /\ O(cx, cy, ax, ay, bx, by) = O(ax, ay, bx, by, cx, cy)
  BY DEF O

THEOREM OrientTranslate ==
  ASSUME NEW ax \in Int, NEW ay \in Int, NEW bx \in Int, NEW by \in Int, NEW px \in Int, NEW py \in Int,
         NEW dx \in Int, NEW dy \in Int
  PROVE  O(ax + dx, ay + dy, bx + dx, by + dy, px + dx, py + dy) = O(ax, ay, bx, by, px, py)
<1>1. (bx + dx) - (ax + dx) = bx - ax /\ (py + dy) - (ay + dy) = py - ay
      /\ (by + dy) - (ay + dy) = by - ay /\ (px + dx) - (ax + dx) = px - ax
  OBVIOUS
<1> QED BY <1>1 DEF O

THEOREM AreaDoubledIsOrient ==
  ASSUME NEW x1 \in Int, NEW y1 \in Int, NEW x2 \in Int, NEW y2 \in Int, NEW x3 \in Int, NEW y3 \in Int
  PROVE  AD(x1, y1, x2, y2, x3, y3) = O(x1, y1, x2, y2, x3, y3)
  BY DEF AD, O

\* exchanging two vertices flips all three orientations (and permutes them), so membership is unchanged
THEOREM InsideSwap ==
  ASSUME NEW ax \in Int, NEW ay \in Int, NEW bx \in Int, NEW by \in Int, NEW cx \in Int, NEW cy \in Int,
         NEW px \in Int, NEW py \in Int
  PROVE  In(bx, by, ax, ay, cx, cy, px, py) <=> In(ax, ay, bx, by, cx, cy, px, py)
<1> DEFINE o1 == O(ax, ay, bx, by, px, py)  o2 == O(bx, by, cx, cy, px, py)  o3 == O(cx, cy, ax, ay, px, py)
<1>1. o1 \in Int /\ o2 \in Int /\ o3 \in Int
  BY OInt
<1>2. /\ O(bx, by, ax, ay, px, py) = -o1
      /\ O(ax, ay, cx, cy, px, py) = -o3
      /\ O(cx, cy, bx, by, px, py) = -o2
  <2>1. O(bx, by, ax, ay, px, py) = -o1  BY DEF O
  <2>2. O(ax, ay, cx, cy, px, py) = -o3  BY DEF O
  <2>3. O(cx, cy, bx, by, px, py) = -o2  BY DEF O
  <2> QED BY <2>1, <2>2, <2>3
<1> HIDE DEF o1, o2, o3
<1>3. In(bx, by, ax, ay, cx, cy, px, py) <=>
        (((-o1) >= 0 /\ (-o3) >= 0 /\ (-o2) >= 0) \/ ((-o1) <= 0 /\ (-o3) <= 0 /\ (-o2) <= 0))
  BY <1>2 DEF In
<1>4. In(ax, ay, bx, by, cx, cy, px, py) <=> ((o1 >= 0 /\ o2 >= 0 /\ o3 >= 0) \/ (o1 <= 0 /\ o2 <= 0 /\ o3 <= 0))
  BY DEF In, o1, o2, o3
<1> QED BY <1>1, <1>3, <1>4

\* a cyclic shift of the vertices permutes the three orientations
THEOREM InsideCyclic ==
  ASSUME NEW ax \in Int, NEW ay \in Int, NEW bx \in Int, NEW by \in Int, NEW cx \in Int, NEW cy \in Int,
         NEW px \in Int, NEW py \in Int
  PROVE  In(bx, by, cx, cy, ax, ay, px, py) <=> In(ax, ay, bx, by, cx, cy, px, py)
  BY DEF In

THEOREM InsideTranslate ==
  ASSUME NEW ax \in Int, NEW ay \in Int, NEW bx \in Int, NEW by \in Int, NEW cx \in Int, NEW cy \in Int,
         NEW px \in Int, NEW py \in Int, NEW dx \in Int, NEW dy \in Int
  PROVE  In(ax + dx, ay + dy, bx + dx, by + dy, cx + dx, cy + dy, px + dx, py + dy)
           <=> In(ax, ay, bx, by, cx, cy, px, py)
<1>1. /\ O(ax + dx, ay + dy, bx + dx, by + dy, px + dx, py + dy) = O(ax, ay, bx, by, px, py)
      /\ O(bx + dx, by + dy, cx + dx, cy + dy, px + dx, py + dy) = O(bx, by, cx, cy, px, py)
      /\ O(cx + dx, cy + dy, ax + dx, ay + dy, px + dx, py + dy) = O(cx, cy, ax, ay, px, py)
  BY OrientTranslate
<1> QED BY <1>1 DEF In
=============================================================================
