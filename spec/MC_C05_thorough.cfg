CONSTANTS
  DMax = 40
  EMax = 20
  Mutant = FALSE
  Gen = TRUE
SPECIFICATION Spec
INVARIANTS EmitsInOrder Complete
CHECK_DEADLOCK FALSE
