CONSTANTS
  SMax = 6
  WMax = 5
  Mutant = FALSE
SPECIFICATION Spec
INVARIANTS PaintsByTheAreas AreasDocumented
CHECK_DEADLOCK FALSE
