P = dict(
    bin="egv_c01", trace="Trace_C01", level="model_checking",
    mc=[dict(module="MC_C01", quick_cfg="MC_C01.cfg"),
        dict(module="MC_C01", quick_cfg="MC_C01_control.cfg", expect_violation=True, coverage=False)],
    required_events=["draw"],
    level_text="TLC gives every call recorded on a native target, on a draw_iter-only target (real trait defaults) and from "
               "pixels() its documented meaning (EGTarget.Apply) and compares the three pixel maps, for a catalogue of all "
               "built-in drawables x styles x target boxes; MC_C01 model-checks the default-method lowering against Apply",
    level_note="trusted: EGTarget.Apply (documented meaning of the four DrawTarget methods), the two logging targets",
    rule="one case per (drawable descriptor, colour type, target bounding box); non-trivial = the native target received at "
         "least one call; distinct = distinct descriptor",
    trusted=COMMON_TRUSTED + ["spec/EGTarget.tla Apply", "harness/src/targets.rs LogNative / LogDefault (loggers)"],
)
