P = dict(
    bin="egv_c20", trace="Trace_C20", level="model_checking",
    mc=[dict(module="MC_C20", quick_cfg="MC_C20.cfg", thorough_cfg="MC_C20_thorough.cfg"),
        dict(module="MC_C20", quick_cfg="MC_C20_gen.cfg", thorough_cfg="MC_C20_gen_thorough.cfg", coverage=False),
        # negative control: get_pixel without the bounds check (the tree before the repair D25) must be refuted
        dict(module="MC_C20", quick_cfg="MC_C20_d25.cfg", thorough_cfg="MC_C20_d25.cfg", expect_violation=True, coverage=False)],
    required_events=["draw", "fill", "set_pixel", "flag", "snap", "swap", "obs", "dbg_back", "pattern"],
    required_stats=["draws_ok", "panics_out_of_bounds", "panics_drawn_twice", "panics_after_applied_pixels",
                    "eq_true_nonempty", "eq_false", "debug_roundtrips", "debug_roundtrip_exempt", "patterns_valid"],
    level_text="the MockDisplay machine (spec/EGMock.tla: cells, allow_overdraw, allow_out_of_bounds_drawing; draw_pixel with its two "
               "panicking guards, draw_iter, set_pixel, eq, diff, affected_area, pattern <-> display) is model checked by TLC on a 3x3 "
               "abstraction for ALL histories over a 21-operation alphabet (unbounded length; two displays with clone / swap) against "
               "the statements of the property; every history of length 4 the model checker visits is replayed into the real 64x64 "
               "MockDisplay together with seeded display-scale histories and pattern round trips, and TLC validates every recorded "
               "operation (outcome incl. panics, all 4096 cells read back with get_pixel, affected_area, ==, diff, Debug/from_pattern) "
               "as a step of the same machine",
    level_note="trusted: spec/P_C20.tla (abstract statements), spec/EGMock.tla, recorder egv_c20 (run encoding of cells / text, "
               "classification of panic messages, parsing of the Debug rendering into rows); bounded histories + seeded sampling, "
               "not a proof for all histories on 64x64; get_pixel outside the display, panic messages, diff colours and the "
               "character chosen for a colour are outside the property text (reported as DRIFT only)",
    rule="cases: (G) one per history of length 4 printed by MC_C20 (quick: every 5th, thorough: all) and per generated pattern, "
         "plus seeded histories of length 20 (points in [-3,67]^2, repeated points, four flag combinations), twin histories "
         "(same cells by different histories, one cell changed) and seeded / edge patterns per colour type; "
         "non-trivial = a history that touched a cell or panicked, a pattern with a non-blank character; distinct = distinct descriptor",
    trusted=COMMON_TRUSTED + ["spec/P_C20.tla and spec/EGMock.tla (character tables transcribed from the module documentation)"],
    assumptions=["the recorder calls set_pixel and get_pixel only inside the display (outside is not covered by the property)",
                 "a caught panic leaves the display usable (the harness continues the history after catch_unwind)"],
)
