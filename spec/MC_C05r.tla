------------------------------- MODULE MC_C05r ------------------------------
(* (M) for C05, rounded rectangles: the TRANSCRIBED scanline iterator          *)
(* (rounded_rectangle/points.rs, one row per step) against the TRANSCRIBED     *)
(* contains() (rounded_rectangle/mod.rs with confine and the four ellipse      *)
(* quadrants) for every quadruple of corner radii from a small set on every    *)
(* small rectangle - including radii that must be confined and diagonally      *)
(* opposite corners whose boxes overlap.  Invariant: the rows emitted so far   *)
(* are exactly the rows of contains() (the abstract row-major enumerator).     *)
(* Mutant = "first_corner_only" re-creates defect D18 (contains() decided by   *)
(* the first corner box that matches), the negative control.                   *)
EXTENDS EGCurve, TLC
CONSTANTS SMax, Mutant
VARIABLES cfg, y, ok

RSet == { <<0, 0>>, <<1, 1>>, <<2, 2>>, <<1, 3>>, <<6, 6>> }
Cfgs == [w : 1..SMax, h : 1..SMax, a : RSet, b : RSet, c : RSet, d : RSet]
B == <<2, -1, cfg.w, cfg.h>>
Rad == <<cfg.a, cfg.b, cfg.c, cfg.d>>
\* D18: only the FIRST matching corner decides
ContainsD18(p) ==
  LET rad == ConfineT(Rad, <<B[3], B[4]>>)  cb == CornerBoxes(B, rad)
      slStart == B[2] + rad[1][2]  slEnd == B[2] + B[4] - rad[4][2]
      srStart == B[2] + rad[2][2]  srEnd == B[2] + B[4] - rad[3][2] IN
  IF ~InRect(B, p) THEN FALSE
  ELSE IF p[2] < slStart /\ p[1] < cb[1][1] + cb[1][3] THEN QuadrantContainsT(B, rad, 1, p)
  ELSE IF p[2] < srStart /\ p[1] >= cb[2][1] THEN QuadrantContainsT(B, rad, 2, p)
  ELSE IF p[2] >= slEnd /\ p[1] < cb[4][1] + cb[4][3] THEN QuadrantContainsT(B, rad, 4, p)
  ELSE IF p[2] >= srEnd /\ p[1] >= cb[3][1] THEN QuadrantContainsT(B, rad, 3, p)
  ELSE TRUE
Contains(p) == IF Mutant = "first_corner_only" THEN ContainsD18(p) ELSE RRContainsT(B, Rad, p)

Init == cfg \in Cfgs /\ y = B[2] /\ ok = TRUE
\* one row: the points of the scanline are exactly the contains() points of that row (probed one pixel beyond the box)
Row == /\ y < B[2] + B[4]
       /\ LET sl == RRScanlineT(B, Rad, y)
              pts == { x \in sl[2]..(sl[3] - 1) : TRUE }
              cs  == { x \in (B[1] - 1)..(B[1] + B[3]) : Contains(<<x, y>>) }
          IN ok' = (ok /\ pts = cs)
       /\ y' = y + 1 /\ UNCHANGED cfg
Next == Row
Spec == Init /\ [][Next]_<<cfg, y, ok>>
RowsAgree == ok
ConfinedFits == ConfinedOK(<<B[3], B[4]>>, ConfineT(Rad, <<B[3], B[4]>>))
=============================================================================
