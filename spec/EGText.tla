------------------------------- MODULE EGText ------------------------------
(* The `Text` drawable of embedded-graphics (src/text/text.rs, text/mod.rs).  *)
(*   text        sequence of code points; LF = 10, CR = 13                    *)
(*   text style  record [align, base, lh]: align 0 Left, 1 Center, 2 Right;   *)
(*               base as in EGFont; lh = <<0, pixels>> or <<1, percent>>      *)
(* ABSTRACT part: what property C15 talks about.  TRANSCRIBED part: lines(),  *)
(* draw() and bounding_box() of text.rs as written.                           *)
EXTENDS EGFont

LF == 10
CR == 13

---------------------------------------------------------------------------
(* ABSTRACT *)
\* the lines of a text: split at every LF ("" has one empty line, "a\n" has the lines "a" and "")
RECURSIVE SplitFrom(_, _, _)
SplitFrom(t, i, cur) ==
  IF i > Len(t) THEN <<cur>>
  ELSE IF t[i] = LF THEN <<cur>> \o SplitFrom(t, i + 1, <<>>)
  ELSE SplitFrom(t, i + 1, Append(cur, t[i]))
SplitLF(t) == SplitFrom(t, 1, <<>>)
\* every CR LF replaced by LF (one pass, left to right)
RECURSIVE NormFrom(_, _)
NormFrom(t, i) ==
  IF i > Len(t) THEN <<>>
  ELSE IF t[i] = CR /\ i < Len(t) /\ t[i + 1] = LF THEN <<LF>> \o NormFrom(t, i + 2)
  ELSE <<t[i]>> \o NormFrom(t, i + 1)
NormalizeCRLF(t) == NormFrom(t, 1)
\* the lines of a text without their line endings: split at LF, and a CR in front of that LF belongs to the
\* line ending (the last line has no line ending)
TrueLines(t) ==
  LET ls == SplitLF(t) IN
  [j \in 1..Len(ls) |-> IF j < Len(ls) /\ Len(ls[j]) > 0 /\ ls[j][Len(ls[j])] = CR THEN SubSeq(ls[j], 1, Len(ls[j]) - 1) ELSE ls[j]]
HasCRLF(t) == \E i \in 1..(Len(t) - 1) : t[i] = CR /\ t[i + 1] = LF
EndsWithCR(line) == Len(line) > 0 /\ line[Len(line)] = CR
HasCRorLF(t) == \E i \in 1..Len(t) : t[i] = CR \/ t[i] = LF
HasLF(t) == \E i \in 1..Len(t) : t[i] = LF
\* distance between consecutive lines
\* (percent split into hundreds and rest: ch * percent itself may exceed the 32-bit integers of TLC, the quotient is the same)
PercentOf(ch, pct) == ch * (pct \div 100) + (ch * (pct % 100)) \div 100
LineHeightA(lh, ch) == IF lh[1] = 0 THEN lh[2] ELSE PercentOf(ch, lh[2])
\* a line whose painted box spans the columns xmin..xmax is aligned on x: it starts at x (Left),
\* ends at x (Right), or its middle is within half a pixel of x (Center)
AlignOK(align, x, xmin, xmax) ==
  CASE align = 0 -> xmin = x
    [] align = 2 -> xmax = x
    [] OTHER     -> Abs((xmin - x) + (xmax - x)) <= 1      \* (differences first: positions may be near 2^31)
\* the same for a box given by its first column x0 and its width w >= 1
AlignBoxOK(align, x, x0, w) == AlignOK(align, x, x0, x0 + w - 1)

---------------------------------------------------------------------------
(* TRANSCRIBED: text.rs.  `variant` selects the order of the two steps of     *)
(* lines(): "pinned"  = text.rs:116-150 of the pinned tree: the alignment is  *)
(*                      measured on the line as split, the trailing CR is     *)
(*                      removed afterwards (defect D11);                      *)
(*          "fixed"   = after the repair D11: the CR is removed first;        *)
(*          "crlf"    = after the repair D26 (current tree): ... and only     *)
(*                      from lines that are followed by a line ending.        *)
LineHeightT(f, ts) ==                                                       \* text.rs:109-114, text/mod.rs to_absolute
  SatAsI32(IF ts.lh[1] = 0 THEN ts.lh[2] ELSE PercentOf(FontLineHeightT(f), ts.lh[2]))
StripCR(line) == IF EndsWithCR(line) THEN SubSeq(line, 1, Len(line) - 1) ELSE line   \* :126-130
\* "crlf" (the tree after the repair D26): the CR is removed only from a line that is followed by a line ending,
\* i.e. not from the last item of split('\n'); "pinned" and "fixed" removed it from every line
StripOf(lines, j, variant) == IF variant = "crlf" /\ j = Len(lines) THEN lines[j] ELSE StripCR(lines[j])
\* the j-th item of lines(): [line, p]
LineItemT(f, sty, ts, pos, lines, j, variant) ==
  LET position == <<pos[1], pos[2] + (j - 1) * LineHeightT(f, ts)>>         \* :117, :140
      measured == IF variant = "pinned" THEN lines[j] ELSE StripOf(lines, j, variant)
      nx == MeasureStringT(f, sty, Len(measured), <<0, 0>>, ts.base).next   \* :123-127 / :131-135
      p == CASE ts.align = 0 -> position                                    \* :121
             [] ts.align = 2 -> <<position[1] - (nx[1] - 1), position[2] - nx[2]>>             \* :128
             [] OTHER -> <<position[1] - TruncDiv(nx[1] - 1, 2), position[2] - TruncDiv(nx[2], 2)>>  \* :136
  IN [line |-> StripOf(lines, j, variant), p |-> p]

(* Text::draw (text.rs:157-173) as a machine over the draw_string machine.    *)
(* State tm: li = index of the next line, next = next_position, inl = inside  *)
(* a draw_string call, ds = its state, pic = picture so far.                  *)
TMInit(pos, pic) == [li |-> 1, next |-> pos, inl |-> FALSE, ds |-> <<>>, line |-> <<>>, pic |-> pic]   \* :161
TMDone(lines, tm) == ~tm.inl /\ tm.li > Len(lines)
TMAction(f, sty, ts, lines, tm) ==
  IF tm.inl THEN DSAction(f, sty, tm.line, tm.ds)
  ELSE IF tm.li <= Len(lines) THEN "NextLine" ELSE "End"
TMStep(f, sty, ts, pos, lines, variant, tm) ==
  IF tm.inl
  THEN IF DSDone(tm.ds)
       THEN [tm EXCEPT !.inl = FALSE, !.next = DSReturn(f, ts.base, tm.ds), !.pic = tm.ds.pic, !.li = @ + 1]   \* :164-169
       ELSE [tm EXCEPT !.ds = DSStep(f, sty, tm.line, @)]
  ELSE IF tm.li <= Len(lines)
  THEN LET it == LineItemT(f, sty, ts, pos, lines, tm.li, variant) IN                                  \* :163
       [tm EXCEPT !.inl = TRUE, !.line = it.line, !.ds = DSInit(f, it.p, ts.base, tm.pic)]
  ELSE tm
RECURSIVE TMRun(_, _, _, _, _, _, _)
TMRun(f, sty, ts, pos, lines, variant, tm) ==
  IF TMDone(lines, tm) THEN tm ELSE TMRun(f, sty, ts, pos, lines, variant, TMStep(f, sty, ts, pos, lines, variant, tm))
\* Text::draw as a function: [pic, ret]
TextDrawT(f, sty, ts, text, pos, variant) ==
  LET tm == TMRun(f, sty, ts, pos, SplitLF(text), variant, TMInit(pos, EmptyPic)) IN [pic |-> tm.pic, ret |-> tm.next]
\* the returned position alone (no pictures: usable on fonts of any size)
RECURSIVE TextRetFrom(_, _, _, _, _, _, _, _)
TextRetFrom(f, sty, ts, pos, lines, variant, j, acc) ==
  IF j > Len(lines) THEN acc
  ELSE LET it == LineItemT(f, sty, ts, pos, lines, j, variant)
           n == Len(it.line)
           p == <<it.p[1], it.p[2] - BaselineOffT(f, ts.base)>>
           nxt == IF sty.tc = NoCol /\ sty.bg = NoCol THEN <<p[1] + (f.cw + f.s) * n, p[2]>>
                  ELSE <<p[1] + (IF n = 0 THEN 0 ELSE n * (f.cw + f.s) - f.s), p[2]>>   \* sum of the line_elements advances
       IN TextRetFrom(f, sty, ts, pos, lines, variant, j + 1, <<nxt[1], nxt[2] + BaselineOffT(f, ts.base)>>)
TextRetT(f, sty, ts, text, pos, variant) == TextRetFrom(f, sty, ts, pos, SplitLF(text), variant, 1, pos)

(* Text::bounding_box (text.rs:176-205) *)
RECURSIVE BBoxFrom(_, _, _, _, _, _, _, _)
BBoxFrom(f, sty, ts, pos, lines, variant, j, mm) ==
  IF j > Len(lines) THEN mm
  ELSE LET it == LineItemT(f, sty, ts, pos, lines, j, variant)
           b == MeasureStringT(f, sty, Len(it.line), it.p, ts.base).box     \* :194-196
           br == BottomRight(b)                                            \* :177
           mm2 == IF br = None THEN mm
                  ELSE IF mm = None THEN <<b[1], b[2], br[1], br[2]>>        \* :184
                  ELSE <<Min(mm[1], b[1]), Min(mm[2], b[2]), Max(mm[3], br[1]), Max(mm[4], br[2])>>   \* :179-182
       IN BBoxFrom(f, sty, ts, pos, lines, variant, j + 1, mm2)
BoundingBoxT(f, sty, ts, text, pos, variant) ==
  LET mm == BBoxFrom(f, sty, ts, pos, SplitLF(text), variant, 1, None) IN
  IF mm = None THEN <<pos[1], pos[2], 0, 0>>                                \* :203
  ELSE WithCorners(<<mm[1], mm[2]>>, <<mm[3], mm[4]>>)                      \* :201
=============================================================================
