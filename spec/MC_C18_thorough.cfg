CONSTANTS
  DMax = 96
  EMax = 40
  Mutant = FALSE
SPECIFICATION Spec
INVARIANTS Band InBox MirrorInv RowsOK ColumnsOK Touches CircleIsEllipse
CHECK_DEADLOCK FALSE
