#!/usr/bin/env python3
"""Confirm a seeded change and run the checks against it (development tool, not a registered check).

  tools/seedtest.py <mutant dir> <basename> <seed id> <property> [other properties to run ...]

<mutant dir>/<basename>.diff, <basename>_demo.rs, <basename>.json come from a bug-seeding sub-agent.
Everything runs in a scratch worktree + scratch harness copy (tools/scratch.sh), never in /repo.
Steps: demo passes on the clean tree; with the change applied the library's own suite passes and the
demo fails; then `./check <property> quick` (and the other listed properties) against the changed tree.
The result is stored as /verif/seeded/<seed id>/{patch.diff, demo.rs, meta.json}.
"""
import json, os, re, shutil, subprocess, sys, time

ROOT = os.path.dirname(os.path.dirname(os.path.abspath(__file__)))


def sh(cmd, cwd=None, timeout=3600, env=None):
    p = subprocess.run(cmd, shell=True, cwd=cwd, stdout=subprocess.PIPE, stderr=subprocess.STDOUT, timeout=timeout, env=env)
    return p.returncode, p.stdout.decode("utf-8", "replace")


def suite(repo):
    rc, out = sh("cargo test --workspace --no-fail-fast --offline 2>&1", cwd=repo)
    passed = sum(int(m) for m in re.findall(r"test result: \w+\. (\d+) passed", out))
    failed = sum(int(m) for m in re.findall(r"test result: \w+\. \d+ passed; (\d+) failed", out))
    return rc, passed, failed


def demo(repo, demo_src, name):
    dst = os.path.join(repo, "tests", name + ".rs")
    shutil.copy(demo_src, dst)
    rc, out = sh("cargo test --offline --test %s 2>&1" % name, cwd=repo)
    os.remove(dst)
    return rc, out[-1500:]


def main():
    mdir, base, sid, prop = sys.argv[1:5]
    others = sys.argv[5:]
    name = "egvseed_" + re.sub(r"\W", "_", sid)
    base_dir = "/tmp/egv_" + name
    sh("%s/tools/scratch.sh rm %s; %s/tools/scratch.sh new %s" % (ROOT, name, ROOT, name))
    repo = base_dir + "/repo"
    diff = os.path.join(mdir, base + ".diff")
    demo_src = os.path.join(mdir, base + "_demo.rs")
    meta_in = {}
    try:
        meta_in = json.load(open(os.path.join(mdir, base + ".json")))
    except Exception:
        pass
    res = {"id": sid, "property": prop, "from": meta_in, "ran": []}
    rc, out = demo(repo, demo_src, name)
    res["demo_clean_passes"] = (rc == 0)
    rc, out = sh("git apply %s" % diff, cwd=repo)
    if rc != 0:
        res["error"] = "patch does not apply to the current /repo HEAD: " + out[-400:]
        print(json.dumps(res, indent=1))
        sh("%s/tools/scratch.sh rm %s" % (ROOT, name))
        return 1
    rc, passed, failed = suite(repo)
    res["suite_with_change"] = {"rc": rc, "passed": passed, "failed": failed}
    rc, out = demo(repo, demo_src, name)
    res["demo_with_change_fails"] = (rc != 0)
    for p in [prop] + others:
        t0 = time.time()
        env = dict(os.environ, EGV_HARNESS=base_dir + "/harness", EGV_WORK=base_dir + "/work", EGV_NOEVIDENCE="1")
        rc, out = sh("./check %s quick" % p, cwd=ROOT, env=env)
        groups = [l.strip()[:400] for l in out.splitlines() if l.strip().startswith("group ")]
        nviol = len([l for l in out.splitlines() if l.startswith("VIOLATION")])
        res["ran"].append({"check": "./check %s quick" % p, "exit": rc, "violation_lines": nviol, "groups": groups[:6],
                           "summary": (out.strip().splitlines() or [""])[-1][:300], "wall_s": round(time.time() - t0)})
    res["confirmed"] = bool(res["demo_clean_passes"] and res["demo_with_change_fails"] and failed == 0 and passed >= 560)
    res["detected_by"] = [r["check"] for r in res["ran"] if r["exit"] == 1]
    out_dir = os.path.join(ROOT, "seeded", sid)
    os.makedirs(out_dir, exist_ok=True)
    shutil.copy(diff, os.path.join(out_dir, "patch.diff"))
    shutil.copy(demo_src, os.path.join(out_dir, "demo.rs"))
    meta = {"id": sid, "breaks_property": prop, "summary": meta_in.get("summary", ""), "needs_to_manifest": meta_in.get("needs", ""),
            "files": meta_in.get("files", []), "confirmed": res["confirmed"],
            "what_i_ran": ["demo on clean tree: %s" % ("passes" if res["demo_clean_passes"] else "FAILS"),
                           "cargo test --workspace --offline with the change: %d passed, %d failed" % (passed, failed),
                           "demo with the change: %s" % ("fails" if res["demo_with_change_fails"] else "PASSES")] +
                          ["%s -> exit %d (%d VIOLATION lines) %s" % (r["check"], r["exit"], r["violation_lines"], "; ".join(r["groups"][:2])[:300]) for r in res["ran"]],
            "detected_by": res["detected_by"]}
    json.dump(meta, open(os.path.join(out_dir, "meta.json"), "w"), indent=1)
    print(json.dumps({k: res[k] for k in ("id", "confirmed", "suite_with_change", "demo_clean_passes", "demo_with_change_fails", "detected_by")}, indent=None))
    for r in res["ran"]:
        print("  ", r["check"], "exit", r["exit"], r["summary"])
        for g in r["groups"][:3]:
            print("      ", g[:260])
    sh("%s/tools/scratch.sh rm %s" % (ROOT, name))
    return 0


if __name__ == "__main__":
    sys.exit(main())
