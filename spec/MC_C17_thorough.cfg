CONSTANTS
  R = 24
  RT = 10
  WMax = 10
  Broken = FALSE
  Gen = TRUE
SPECIFICATION Spec
INVARIANTS ThinCountsDown ThinErrorRange ThinErrIsCross ThinStepOK ThinDistOK ThinEndOK ThickRemBound ThickPrefixOK ThickEndOK ThickW1IsThin ThickInsideStyledBox ExtentsParallel
CHECK_DEADLOCK FALSE
