CONSTANTS
  G = 2
  Ws = {3}
  D <- DQuick
  Als = {2}
  HasFill = TRUE
  BoxUsed <- BoxWithoutStroke
SPECIFICATION Spec
INVARIANTS RowInsideBox
CHECK_DEADLOCK FALSE
