------------------------------- MODULE EGThick ------------------------------
(* TRANSCRIBED: the thick-stroke machinery of polylines (stroke width >= 2).   *)
(*   line/intersection_params.rs      IntersectionParams (from_lines,          *)
(*                                    intersection, nearly_colinear_has_error) *)
(*   common/linear_equation.rs        LinearEquation::from_line / distance /   *)
(*                                    check_side                               *)
(*   common/line_join.rs              LineJoin::start / end / from_points,     *)
(*                                    filler_line, cap, intersections()        *)
(*   common/thick_segment.rs          ThickSegment: is_skeleton, edges,        *)
(*                                    edges_bounding_box, intersection         *)
(*   common/scanline.rs               Scanline: extend, bresenham_intersection,*)
(*                                    touches, try_extend, try_take            *)
(*   polyline/scanline_intersections.rs, scanline_iterator.rs, styled.rs       *)
(* A line is <<start, end>>; a join is [kind, side, fee, sss] with the corner  *)
(* pairs fee (first_edge_end) and sss (second_edge_start) as [l, r]; a         *)
(* scanline is the half-open column range <<x0, x1>> (<<0, 0>> = empty).       *)
(* Polylines only use StrokeOffset::None: ThickSegmentIter::new fixes it       *)
(* (thick_segment_iter.rs:31-34) and ScanlineIntersections passes it; the      *)
(* joins take the offset as a parameter ("N" | "L" | "R") for triangles.       *)
EXTENDS EGLine

ExtL(x) == x[1]
ExtR(x) == x[2]
\* LinearEquation::from_line: normal = delta.rotate_90() = (-dy, dx); origin_distance = start . normal
LinEq(ln) == LET d == PSub(ln[2], ln[1])  n == <<-d[2], d[1]>> IN [n |-> n, od |-> Dot(ln[1], n)]
Distance(le, p) == Dot(p, le.n) - le.od
CheckSide(le, p, side) == IF side = "L" THEN Distance(le, p) <= 0 ELSE Distance(le, p) >= 0
\* round_div of IntersectionParams::intersection (ties up, clamped to i32 / 2)
\* RoundMode = "away" (cfg: RoundMode <- AwayMode) is the snapshot's rounding half away from zero (defect D14): control
RoundMode == "up"
AwayMode == "away"
RoundDivT(num, den) ==
  LET n == IF den < 0 THEN -num ELSE num  dd == Abs(den)
      q == IF RoundMode = "up" THEN (n + dd \div 2) \div dd
           ELSE TruncDiv(IF num < 0 THEN num - Abs(den) \div 2 ELSE num + Abs(den) \div 2, den) IN
  Max(-1073741824, Min(1073741823, q))
\* IntersectionParams::from_lines(line1, line2).intersection(): <<>> = Colinear, else <<point, outer side, nearly colinear>>
IntersectT(l1, l2) ==
  LET e1 == LinEq(l1)  e2 == LinEq(l2)
      den == e1.n[1] * e2.n[2] - e1.n[2] * e2.n[1]
      xn == e1.od * e2.n[2] - e2.od * e1.n[2]
      yn == e1.n[1] * e2.od - e2.n[1] * e1.od IN
  IF den = 0 THEN <<>>
  ELSE << <<RoundDivT(xn, den), RoundDivT(yn, den)>>, IF den < 0 THEN "L" ELSE "R",
          den * den < Abs(Dot(PSub(l1[2], l1[1]), PSub(l2[2], l2[1]))) >>
\* line_join.rs intersections(): <<>> or <<l_intersection, outer_side, r_intersection>>
IntersectionsT(fl, fr, sl, sr) ==
  LET a == IntersectT(sl, fl) IN
  IF a = <<>> THEN <<>>
  ELSE LET b == IntersectT(sr, fr) IN
       IF b = <<>> THEN <<>>
       ELSE << IF a[3] THEN fl[2] ELSE a[1], a[2], IF b[3] THEN fr[2] ELSE b[1] >>

Corners(l, r) == [l |-> l, r |-> r]
JoinStartT(s, m, w, off) == LET x == ExtentsO(s, m, w, off)  c == Corners(ExtL(x)[1], ExtR(x)[1]) IN
                       [kind |-> "Start", side |-> "-", fee |-> c, sss |-> c]
JoinEndT(m, e, w, off)   == LET x == ExtentsO(m, e, w, off)  c == Corners(ExtL(x)[2], ExtR(x)[2]) IN
                       [kind |-> "End", side |-> "-", fee |-> c, sss |-> c]
JoinFromPointsT(s, m, e, w, off) ==
  LET f == ExtentsO(s, m, w, off)  g == ExtentsO(m, e, w, off)
      fl == ExtL(f)  fr == ExtR(f)  sl == ExtL(g)  sr == ExtR(g)
      ix == IntersectionsT(fl, fr, sl, sr) IN
  IF ix = <<>>
  THEN [kind |-> "Colinear", side |-> "-", fee |-> Corners(fl[2], fr[2]), sss |-> Corners(sl[1], sr[1])]
  ELSE LET li == ix[1]  side == ix[2]  ri == ix[3]
           selfInt == IF side = "R" THEN CheckSide(LinEq(fl), sl[2], "R") ELSE CheckSide(LinEq(fr), sr[2], "L") IN
       IF selfInt
       THEN [kind |-> "Degenerate", side |-> side, fee |-> Corners(fl[2], fr[2]), sss |-> Corners(sl[1], sr[1])]
       ELSE LET md == PSub(IF side = "L" THEN li ELSE ri, m) IN
            IF LenSq(md) <= (2 * w) * (2 * w)
            THEN [kind |-> "Miter", side |-> "-", fee |-> Corners(li, ri), sss |-> Corners(li, ri)]
            ELSE IF side = "R"
                 THEN [kind |-> "Bevel", side |-> side, fee |-> Corners(li, fr[2]), sss |-> Corners(li, sr[1])]
                 ELSE [kind |-> "Bevel", side |-> side, fee |-> Corners(fl[2], ri), sss |-> Corners(sl[1], ri)]

\* filler_line / cap: the sequence of cap lines (one, or two through the midpoint of the filler line)
MidpointT(ln) == LET d == PSub(ln[2], ln[1]) IN PAdd(ln[1], <<TruncDiv(d[1], 2), TruncDiv(d[2], 2)>>)
CapLinesT(j, cap) ==
  IF j.kind \in {"Bevel", "Degenerate"}
  THEN LET filler == IF j.side = "L" THEN <<j.fee.l, j.sss.l>> ELSE <<j.fee.r, j.sss.r>>
           mid == MidpointT(filler) IN
       << <<cap.l, mid>>, <<mid, cap.r>> >>
  ELSE << <<cap.l, cap.r>> >>

\* ThickSegment = <<start join, end join>>
IsSkeleton(sg) == sg[1].fee.l = sg[1].fee.r
EdgeRight(sg) == <<sg[1].sss.r, sg[2].fee.r>>
EdgeLeft(sg)  == <<sg[2].fee.l, sg[1].sss.l>>
\* edges_bounding_box; PreD19 = TRUE is the function before the repair f5e5dad (box of the LEFT edge for a skeleton): negative control
EdgesBoxT(sg, PreD19) ==
  LET r == EdgeRight(sg)  l == EdgeLeft(sg) IN
  IF IsSkeleton(sg) THEN (IF PreD19 THEN WithCorners(l[1], l[2]) ELSE WithCorners(r[1], r[2]))
  ELSE LET xs == {r[1][1], r[2][1], l[1][1], l[2][1]}  ys == {r[1][2], r[2][2], l[1][2], l[2][2]}
           x0 == CHOOSE m \in xs : \A z \in xs : m <= z   x1 == CHOOSE m \in xs : \A z \in xs : m >= z
           y0 == CHOOSE m \in ys : \A z \in ys : m <= z   y1 == CHOOSE m \in ys : \A z \in ys : m >= z
       IN <<x0, y0, x1 - x0 + 1, y1 - y0 + 1>>

ScEmpty == <<0, 0>>
ScIsEmpty(sc) == sc[1] >= sc[2]
\* bresenham_intersection: the hull of the scanline and the columns the Bresenham line occupies in row y
BresIntT(sc, ln, y) ==
  IF y < Min(ln[1][2], ln[2][2]) \/ y > Max(ln[1][2], ln[2][2]) THEN sc
  ELSE LET pts == LinePoints(ln[1], ln[2])
           xs == { pts[i][1] : i \in { k \in 1..Len(pts) : pts[k][2] = y } } IN
       IF xs = {} THEN sc
       ELSE LET lo == CHOOSE m \in xs : \A z \in xs : m <= z   hi == CHOOSE m \in xs : \A z \in xs : m >= z IN
            IF ScIsEmpty(sc) THEN <<lo, hi + 1>> ELSE <<Min(sc[1], lo), Max(sc[2], hi + 1)>>
RECURSIVE BresIntAll(_, _, _, _)
BresIntAll(sc, lns, i, y) == IF i > Len(lns) THEN sc ELSE BresIntAll(BresIntT(sc, lns[i], y), lns, i + 1, y)
\* ThickSegment::intersection
SegIntersectionT(sg, y) ==
  IF IsSkeleton(sg) THEN BresIntT(ScEmpty, EdgeRight(sg), y)
  ELSE BresIntAll(ScEmpty, CapLinesT(sg[1], sg[1].sss) \o CapLinesT(sg[2], sg[2].fee) \o <<EdgeRight(sg), EdgeLeft(sg)>>, 1, y)

\* the joins and segments of a vertex sequence (ScanlineIntersections::next_segment, ThickSegmentIter)
JoinsT(v, w) == [k \in 1..Len(v) |->
                   IF k = 1 THEN JoinStartT(v[1], v[2], w, "N")
                   ELSE IF k = Len(v) THEN JoinEndT(v[Len(v) - 1], v[Len(v)], w, "N")
                   ELSE JoinFromPointsT(v[k - 1], v[k], v[k + 1], w, "N")]
SegmentsT(v, w) == IF Len(v) < 2 THEN <<>> ELSE LET j == JoinsT(v, w) IN [i \in 1..(Len(v) - 1) |-> <<j[i], j[i + 1]>>]

\* Scanline::touches / try_extend
TouchesT(a, b) ==
  /\ ~ScIsEmpty(a) /\ ~ScIsEmpty(b)
  /\ \/ (a[1] - 1 <= b[1] /\ b[1] <= a[2]) \/ (a[1] - 1 <= b[2] - 1 /\ b[2] - 1 <= a[2])
     \/ (b[1] - 1 <= a[1] /\ a[1] <= b[2]) \/ (b[1] - 1 <= a[2] - 1 /\ a[2] - 1 <= b[2])
\* ScanlineIntersections for row y, drained (ScanlineIterator skips the empty ones): the sequence of scanlines
RECURSIVE RowFrom(_, _, _, _, _)
RowFrom(segs, i, y, acc, out) ==
  IF i > Len(segs) THEN (IF ScIsEmpty(acc) THEN out ELSE Append(out, acc))                  \* try_take
  ELSE LET ns == SegIntersectionT(segs[i], y) IN
       IF TouchesT(acc, ns) THEN RowFrom(segs, i + 1, y, <<Min(acc[1], ns[1]), Max(acc[2], ns[2])>>, out)
       ELSE RowFrom(segs, i + 1, y, ns, IF ScIsEmpty(acc) THEN out ELSE Append(out, acc))
RowScanlinesT(segs, y) == RowFrom(segs, 1, y, ScEmpty, <<>>)

\* polyline/styled.rs untranslated_bounding_box for an effective stroke colour and >= 2 vertices
RECURSIVE HullOfBoxes(_, _, _)
HullOfBoxes(bs, i, acc) == IF i > Len(bs) THEN acc ELSE HullOfBoxes(bs, i + 1,
  IF acc = <<>> THEN bs[i]
  ELSE LET x0 == Min(acc[1], bs[i][1])  y0 == Min(acc[2], bs[i][2])
           x1 == Max(acc[1] + acc[3], bs[i][1] + bs[i][3])  y1 == Max(acc[2] + acc[4], bs[i][2] + bs[i][4])
       IN <<x0, y0, x1 - x0, y1 - y0>>)
PolyBoxOfSegs(segs, PreD19) == HullOfBoxes([i \in 1..Len(segs) |-> EdgesBoxT(segs[i], PreD19)], 1, <<>>)
PolyThickBoxT(v, w) == PolyBoxOfSegs(SegmentsT(v, w), FALSE)
\* everything draw_thick paints (one fill_solid per scanline), as a point set
PolyThickSetT(v, w) ==
  LET segs == SegmentsT(v, w)  b == PolyBoxOfSegs(segs, FALSE) IN
  UNION { LET row == RowScanlinesT(segs, y) IN UNION { { <<x, y>> : x \in row[k][1]..(row[k][2] - 1) } : k \in 1..Len(row) }
          : y \in b[2]..(b[2] + b[4] - 1) }
=============================================================================
