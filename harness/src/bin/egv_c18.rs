//! C18 recorder: point sets of circles, ellipses, rounded rectangles, arcs and sectors.
use egv::shapes::*;
use egv::util::*;
use egv::*;
use embedded_graphics::{
    prelude::*,
    primitives::{Circle, Rectangle, RoundedRectangle},
};
use std::collections::BTreeSet;

fn contains_set(s: &Shape, margin: i32) -> BTreeSet<(i32, i32)> {
    let bb = s.bounding_box();
    let mut c = BTreeSet::new();
    for y in bb.top_left.y - margin..bb.top_left.y + bb.size.height as i32 + margin {
        for x in bb.top_left.x - margin..bb.top_left.x + bb.size.width as i32 + margin {
            if s.contains(Point::new(x, y)) {
                c.insert((y, x));
            }
        }
    }
    c
}
fn points_set(s: &Shape) -> BTreeSet<(i32, i32)> {
    let bb = s.bounding_box();
    let (pts, _) = s.points(bb.size.width as usize * bb.size.height as usize + 64);
    pts.into_iter().map(|p| (p.y, p.x)).collect()
}
fn radii_json(r: &RoundedRectangle) -> Value {
    let c = r.corners;
    // (capped at i32::MAX: TLC integers are 32 bit; confined radii are never larger than a side)
    let m = |v: u32| v.min(i32::MAX as u32);
    json!([[m(c.top_left.width), m(c.top_left.height)], [m(c.top_right.width), m(c.top_right.height)],
           [m(c.bottom_right.width), m(c.bottom_right.height)], [m(c.bottom_left.width), m(c.bottom_left.height)]])
}

fn run_case(rec: &mut Rec, d: &Value) {
    rec.begin(d.clone());
    let r = catch(|| -> Vec<(&'static str, Value)> {
        let mut evs = vec![];
        match d["t"].as_str().unwrap() {
            // one curved shape: band / symmetry / runs
            "curve" => {
                let s = Shape::from_desc(&d["shape"]);
                let set = contains_set(&s, 2);
                let rad = match &s {
                    Shape::RRect(r) => radii_json(&r.confine_radii()),
                    _ => json!([]),
                };
                evs.push(("curve", json!({"kind": s.kind(), "box": rect_json(&s.bounding_box()), "rad": rad, "set": runs_of(&set), "n": set.len()})));
                // equivalent descriptions
                match &s {
                    Shape::Circle(c) => {
                        let e = Shape::from_desc(&json!({"k":"ellipse","tl":pt_json(c.top_left),"size":[c.diameter, c.diameter]}));
                        evs.push(("eq", json!({"what":"circle_differs_from_equal_axes_ellipse","a":runs_of(&set),"b":runs_of(&contains_set(&e, 2))})));
                    }
                    Shape::RRect(r) => {
                        let z = r.corners;
                        let all = [z.top_left, z.top_right, z.bottom_right, z.bottom_left];
                        if all.iter().all(|s| s.width == 0 && s.height == 0) {
                            let q = Shape::Rect(r.rectangle);
                            evs.push(("eq", json!({"what":"zero_radii_rounded_rectangle_differs_from_rectangle","a":runs_of(&set),"b":runs_of(&contains_set(&q, 2))})));
                        }
                        let sz = r.rectangle.size;
                        if sz.width % 2 == 0 && sz.height % 2 == 0 && all.iter().all(|s| s.width == sz.width / 2 && s.height == sz.height / 2) {
                            let e = Shape::from_desc(&json!({"k":"ellipse","tl":pt_json(r.rectangle.top_left),"size":[sz.width, sz.height]}));
                            evs.push(("eq", json!({"what":"half_side_radii_rounded_rectangle_differs_from_ellipse","a":runs_of(&set),"b":runs_of(&contains_set(&e, 2))})));
                        }
                    }
                    _ => {}
                }
            }
            "confine" => {
                let mut s = Shape::from_desc(&d["shape"]);
                if let (Shape::RRect(r), true) = (&mut s, d["xmax"] == 1) {
                    // descriptors cannot carry numbers above i32::MAX: with "xmax" a radius of i32::MAX stands for u32::MAX
                    let x = |v: &mut u32| if *v == i32::MAX as u32 { *v = u32::MAX };
                    for c in [&mut r.corners.top_left, &mut r.corners.top_right, &mut r.corners.bottom_right, &mut r.corners.bottom_left] {
                        x(&mut c.width);
                        x(&mut c.height);
                    }
                }
                if let Shape::RRect(r) = &s {
                    let c = r.confine_radii();
                    evs.push(("confine", json!({"size":[r.rectangle.size.width, r.rectangle.size.height],"rin":radii_json(r),"rout":radii_json(&c)})));
                }
            }
            // arc or sector
            "ang" => {
                let s = Shape::from_desc(&d["shape"]);
                let (tl, dia, a0, sw, set) = match &s {
                    Shape::Sector(q, a0, sw) => (q.top_left, q.diameter, *a0, *sw, contains_set(&s, 1)),
                    Shape::Arc(q, a0, sw) => (q.top_left, q.diameter, *a0, *sw, points_set(&s)),
                    _ => panic!("ang needs arc or sector"),
                };
                let circle = Circle::new(tl, dia);
                let cset = contains_set(&Shape::Circle(circle), 1);
                let base = if let Shape::Arc(..) = s {
                    // the circle's one-pixel inside ring: circle minus the concentric circle with diameter - 2
                    let inner = Circle::with_center(circle.center(), dia.saturating_sub(2));
                    let iset = contains_set(&Shape::Circle(inner), 1);
                    cset.difference(&iset).cloned().collect::<BTreeSet<_>>()
                } else {
                    cset.clone()
                };
                evs.push(("ang", json!({"kind": s.kind(), "tl": pt_json(tl), "d": dia, "a0": a0, "sw": sw, "set": runs_of(&set),
                    "base": runs_of(&base), "circle": runs_of(&cset), "n": set.len()})));
            }
            t => panic!("unknown case type {}", t),
        }
        evs
    });
    match r {
        Ok(evs) => {
            for (name, v) in evs {
                if name != "eq" && v.get("n").map(|n| i(n) > 0).unwrap_or(true) {
                    rec.nontrivial();
                }
                rec.ev(name, v);
            }
        }
        Err(p) => {
            rec.note("panicked_cases");
            rec.ev("panic", json!({"msg": p.msg, "loc": p.loc}));
        }
    }
}

fn main() {
    let args = Args::parse();
    install_panic_hook();
    let mut rec = Rec::new(&args);
    let mut rng = Rng::new(args.seed ^ 0xC18);
    let th = args.thorough();
    if let Some(cases) = &args.cases {
        for d in cases {
            run_case(&mut rec, d);
        }
        rec.finish(json!({}));
        return;
    }
    for d in args.gen.iter().chain(args.witnesses.iter()) {
        run_case(&mut rec, d);
    }
    let curve = |s: Value| json!({"t":"curve","shape":s});
    for d in 0..=(if th { 256 } else { 40 }) {
        run_case(&mut rec, &curve(json!({"k":"circle","tl":[d as i32 % 5 - 7, 3 - d as i32 % 3],"d":d})));
    }
    let em = if th { 64 } else { 24 };
    for w in 0..=em {
        for h in 0..=em {
            run_case(&mut rec, &curve(json!({"k":"ellipse","tl":[-3, 2],"size":[w, h]})));
        }
    }
    // rounded rectangles: sizes x radius combinations (equal, unequal, oversized, half-side)
    let rm = if th { 14 } else { 10 };
    let combos: Vec<[(u32, u32); 4]> = {
        let base: Vec<(u32, u32)> = vec![(0, 0), (1, 1), (2, 2), (3, 3), (5, 5), (1, 3), (3, 1), (2, 5), (20, 20), (4, 9), (9, 4), (60, 10)];
        let mut v: Vec<[(u32, u32); 4]> = base.iter().map(|&r| [r; 4]).collect();
        for k in 0..(if th { 40 } else { 16 }) {
            v.push([base[k % 12], base[(k * 5 + 1) % 12], base[(k * 7 + 2) % 12], base[(k * 11 + 3) % 12]]);
        }
        v
    };
    for w in 0..=rm {
        for h in 0..=rm {
            for r in &combos {
                let s = json!({"k":"rrect","r":[2, -5, w, h],"radii":[[r[0].0,r[0].1],[r[1].0,r[1].1],[r[2].0,r[2].1],[r[3].0,r[3].1]]});
                run_case(&mut rec, &curve(s));
            }
            if w % 2 == 0 && h % 2 == 0 {
                let s = json!({"k":"rrect","r":[2, -5, w, h],"radii":[[w/2,h/2],[w/2,h/2],[w/2,h/2],[w/2,h/2]]});
                run_case(&mut rec, &curve(s));
            }
        }
    }
    // confine over many inputs
    for _ in 0..(if th { 60_000 } else { 5_000 }) {
        let m = *rng.pick(&[6u32, 12, 40, 120]);
        let mut rr = || json!([rng.u32r(0, m), rng.u32r(0, m)]);
        let radii = json!([rr(), rr(), rr(), rr()]);
        let s = json!({"k":"rrect","r":[0, 0, rng.u32r(0, m), rng.u32r(0, m)],"radii":radii});
        run_case(&mut rec, &json!({"t":"confine","shape":s}));
    }
    // display-scale rectangles with huge radii ("pills"): the products radius x side are near and beyond 2^32
    for (w, h) in [(500u32, 400u32), (300, 40), (40, 300), (1024, 1024), (1000, 3), (64, 64)] {
        // (until the repair D35 radii with radius x side >= 2^32 were left out here "because the library's final scaling
        // does not fit u32" - a filter fitted to the code, which hid the defect)
        for r in [100_000u32, 1_000_000, 4_300_000, 5_000_000, 8_400_000, 10_000_000, 11_000_000, 60_000_000, 107_000_000, 1_000_000_000, 2_147_483_646, 2_147_483_647] {
            for (k, radii) in [json!([[r, r], [r, r], [r, r], [r, r]]), json!([[r, 1], [3, r], [r, r / 2], [0, 0]]), json!([[r, r], [0, 0], [r, r], [0, 0]]),
                               json!([[r, 3], [7, r], [0, 0], [1, 1]])].iter().enumerate() {
                let s = json!({"k":"rrect","r":[k as i32, -3, w, h],"radii":radii});
                run_case(&mut rec, &json!({"t":"confine","shape":s}));
                if r == 2_147_483_647 {
                    run_case(&mut rec, &json!({"t":"confine","shape":s,"xmax":1}));
                }
            }
        }
    }
    // near ties: two sides overlap by almost the same ratio (rho and rho + delta / side, less than a tenth of a percent
    // apart on long sides).  confine() must scale by the LARGER ratio; scaling by the other leaves delta / rho pixels too
    // many on the side that really overlaps most.  All four choices of the pair of sides and both orders.
    for &(w, h) in &[(2000u32, 6000u32), (500, 8000), (10_000, 20_000), (6000, 2000), (100_000, 30_000), (1500, 1500)] {
        for &(num, den) in &[(6u32, 5u32), (3, 2), (2, 1), (37, 10)] {
            for &delta in &[4u32, 5, 8, 12, 20, 40] {
                for variant in 0..8 {
                    // sums of the radii on the horizontal side (top or bottom) and on the vertical side (left or right)
                    let hs = (w as u64 * num as u64).div_ceil(den as u64) as u32 + if variant % 2 == 0 { 0 } else { delta };
                    let vs = (h as u64 * num as u64).div_ceil(den as u64) as u32 + if variant % 2 == 0 { delta } else { 0 };
                    let (a, b) = (hs / 2, hs - hs / 2); // the two widths on the horizontal side
                    let (c, e) = (vs / 2 + 1, vs - vs / 2 - 1); // the two heights on the vertical side
                    // [tl, tr, br, bl] as [width, height]
                    let radii = match variant / 2 {
                        0 => json!([[a, c], [b, 100], [300, 100], [300, e]]), // top + left
                        1 => json!([[a, 100], [b, c], [300, e], [300, 100]]), // top + right
                        2 => json!([[300, c], [300, 100], [b, 100], [a, e]]), // bottom + left
                        _ => json!([[300, 100], [300, c], [b, e], [a, 100]]), // bottom + right
                    };
                    let s = json!({"k":"rrect","r":[0, 0, w, h],"radii":radii});
                    run_case(&mut rec, &json!({"t":"confine","shape":s}));
                }
            }
        }
    }
    // arcs and sectors on an angle grid
    let ds: Vec<u32> = if th { (1..=24).chain([31, 32, 33, 47, 48, 63, 64, 65, 96, 127, 128]).collect() } else { vec![1, 2, 3, 4, 5, 6, 7, 8, 9, 10, 11, 12, 31, 32, 64] };
    let step = if th { 1 } else { 5 };
    let sweeps: Vec<i32> = vec![-720, -400, -360, -359, -300, -270, -225, -181, -180, -179, -135, -90, -45, -10, 0, 1, 10, 45, 89, 90, 91, 135, 179, 180, 181, 270, 355, 360, 400];
    let mut n = 0usize;
    for &dia in &ds {
        let mut a0 = 0;
        while a0 < 360 {
            for &sw in &sweeps {
                n += 1;
                // quick: rotate through the sweeps so every (d, a0) gets a third of them
                if !th && n % 3 != 0 {
                    continue;
                }
                if th && dia > 24 && (a0 + sw).rem_euclid(3) != 0 {
                    continue;
                }
                let kind = if n % 2 == 0 { "sector" } else { "arc" };
                run_case(&mut rec, &json!({"t":"ang","shape":{"k":kind,"tl":[-5, 4],"d":dia,"a0":(a0 - 180) * 16,"sw":sw * 16}}));
            }
            a0 += step;
        }
    }
    // sweeps too small to be resolved (the two border lines coincide or nearly coincide): a single ray, never the ray
    // on the opposite side of the centre.  Start angles on the axes, on the diagonals and in between.
    for &dia in &[9u32, 21, 40] {
        for a in (0..360).step_by(15) {
            for (k, swm) in [1, 3, 10, 20, 25, 30, 45, 60, -1, -10, -25, -30, -60].iter().enumerate() {
                let kind = if (a / 15 + k) % 2 == 0 { "sector" } else { "arc" };
                run_case(&mut rec, &json!({"t":"ang","shape":{"k":kind,"tl":[-5, 4],"d":dia,"a0":(a as i32 - 180) * 16,"sw":0,"swm":swm}}));
            }
        }
    }
    // sweeps just below half a turn and just below a full turn (the half planes are still intersected / united although
    // the truncated border directions are already opposite / equal), start angles on the axes, the diagonals and between
    for &dia in &[9u32, 21, 40] {
        for a in (0..360).step_by(15) {
            for (k, swm) in [179_980, 179_950, 179_999, -179_980, -179_960, 180_020, -180_030, 359_980, -359_990].iter().enumerate() {
                let kind = if (a / 15 + k) % 2 == 0 { "sector" } else { "arc" };
                let sw16 = (*swm as i64 * 16 / 1000) as i32; // towards zero
                run_case(&mut rec, &json!({"t":"ang","shape":{"k":kind,"tl":[-5, 4],"d":dia,"a0":(a as i32 - 180) * 16,"sw":sw16,"swm":swm}}));
            }
        }
    }
    // full sweeps (exactly +-360 degrees and a little more) from start angles well outside 0..360, larger diameters:
    // the >= 360 decision is made in floating point
    {
        let dsf: Vec<u32> = if th { vec![61, 63, 82, 101, 105, 128] } else { vec![61, 82] };
        for &dia in &dsf {
            let mut a = -720 * 2;
            while a <= 900 * 2 {
                for (k, sw) in [360, -360, 400].iter().enumerate() {
                    if !th && (a / 2 + k as i32).rem_euclid(2) != 0 && a % 2 != 0 {
                        continue;
                    }
                    let kind = if (a / 2 + k as i32).rem_euclid(3) == 0 { "arc" } else { "sector" };
                    run_case(&mut rec, &json!({"t":"ang","shape":{"k":kind,"tl":[-5, 4],"d":dia,"a0":a * 8,"sw":sw * 16}}));
                }
                a += if th { 1 } else { 2 };
            }
        }
    }
    // fractional angles
    for k in 0..(if th { 10_000 } else { 500 }) {
        let dia = rng.u32r(1, if th { 128 } else { 64 });
        let kind = if k % 2 == 0 { "sector" } else { "arc" };
        run_case(&mut rec, &json!({"t":"ang","shape":{"k":kind,"tl":[rng.i32(-9, 9), rng.i32(-9, 9)],"d":dia,"a0":rng.i32(-5760, 5760),"sw":rng.i32(-6500, 6500)}}));
    }
    rec.finish(json!({}));
}
