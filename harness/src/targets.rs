//! Recording draw targets.  They only LOG calls; the meaning of a call lives in spec/EGTarget.tla.
//!
//! * `LogNative`  implements all four `DrawTarget` methods and logs each call with its arguments,
//!   draining colour / pixel iterators (bounded by `area + SLACK` items for colour streams).
//! * `LogDefault` implements `draw_iter` only, so the trait defaults of the library run for real.
//! * both can fail the k-th call at entry with error token k (fault injection for C04).
//! * `MapTarget`  is the trivial draw_iter-only target "set these pixels, later wins" on an
//!   effectively unbounded box; it is used where only the final picture matters.

use crate::util::{rect_json, Col};
use embedded_graphics::{prelude::*, primitives::Rectangle, Pixel};
use serde_json::{json, Value};
use std::collections::BTreeMap;
use std::marker::PhantomData;

#[derive(Debug, Clone, Copy, PartialEq, Eq)]
pub struct FaultErr(pub u32);

#[derive(Debug, Clone)]
pub enum Call {
    DrawIter { px: Vec<(i32, i32, u32)> },
    FillContiguous { area: Rectangle, colors: Vec<u32>, over: bool },
    FillSolid { area: Rectangle, color: u32 },
    Clear { color: u32 },
    /// a call that was failed at entry: only the scalar arguments are known
    Failed { m: &'static str, area: Rectangle, color: i64 },
}

pub const SLACK: usize = 8;

impl Call {
    /// Uniform JSON shape (every field present) so TLA+ can access fields unconditionally.
    pub fn to_json(&self) -> Value {
        let zero = Rectangle::zero();
        match self {
            Call::DrawIter { px } => json!({"m":"draw_iter","area":rect_json(&zero),"color":-1,"colors":[],"over":false,
                "px": px.iter().map(|&(x,y,c)| json!([x,y,c])).collect::<Vec<_>>(), "failed": false}),
            Call::FillContiguous { area, colors, over } => json!({"m":"fill_contiguous","area":rect_json(area),"color":-1,
                "colors":colors,"over":over,"px":[], "failed": false}),
            Call::FillSolid { area, color } => json!({"m":"fill_solid","area":rect_json(area),"color":color,"colors":[],
                "over":false,"px":[], "failed": false}),
            Call::Clear { color } => json!({"m":"clear","area":rect_json(&zero),"color":color,"colors":[],"over":false,
                "px":[], "failed": false}),
            Call::Failed { m, area, color } => json!({"m":m,"area":rect_json(area),"color":color,"colors":[],"over":false,
                "px":[], "failed": true}),
        }
    }
    /// Compact form for fault traces: method, scalar args, item count and FNV-1a hash of items.
    pub fn digest(&self) -> Value {
        fn fnv(items: impl Iterator<Item = i64>) -> (u32, u32) {
            let mut h: u32 = 0x811c9dc5;
            let mut n = 0u32;
            for v in items {
                for b in (v as i32).to_le_bytes() {
                    h ^= b as u32;
                    h = h.wrapping_mul(0x01000193);
                }
                n += 1;
            }
            (n, h >> 1)
        }
        let zero = Rectangle::zero();
        match self {
            Call::DrawIter { px } => {
                let (n, h) = fnv(px.iter().flat_map(|&(x, y, c)| [x as i64, y as i64, c as i64]));
                json!({"m":"draw_iter","area":rect_json(&zero),"color":-1,"n":n,"h":h,"failed":false})
            }
            Call::FillContiguous { area, colors, .. } => {
                let (n, h) = fnv(colors.iter().map(|&c| c as i64));
                json!({"m":"fill_contiguous","area":rect_json(area),"color":-1,"n":n,"h":h,"failed":false})
            }
            Call::FillSolid { area, color } => {
                json!({"m":"fill_solid","area":rect_json(area),"color":color,"n":0,"h":0,"failed":false})
            }
            Call::Clear { color } => {
                json!({"m":"clear","area":rect_json(&zero),"color":color,"n":0,"h":0,"failed":false})
            }
            Call::Failed { m, area, color } => {
                json!({"m":m,"area":rect_json(area),"color":color,"n":0,"h":0,"failed":true})
            }
        }
    }
}

macro_rules! common_impl {
    ($name:ident) => {
        pub struct $name<C: Col> {
            pub bbox: Rectangle,
            pub calls: Vec<Call>,
            /// fail the k-th call (1-based) at entry
            pub fail_at: Option<u32>,
            pub ncalls: u32,
            /// draw_iter stops pulling pixels after this many (the call is then logged with over = true)
            pub cap: usize,
            _c: PhantomData<C>,
        }
        impl<C: Col> $name<C> {
            pub fn new(bbox: Rectangle) -> Self {
                $name { bbox, calls: vec![], fail_at: None, ncalls: 0, cap: 8_000_000, _c: PhantomData }
            }
            pub fn failing(bbox: Rectangle, k: u32) -> Self {
                $name { bbox, calls: vec![], fail_at: Some(k), ncalls: 0, cap: 8_000_000, _c: PhantomData }
            }
            fn enter(&mut self, m: &'static str, area: Rectangle, color: i64) -> Result<(), FaultErr> {
                self.ncalls += 1;
                if self.fail_at == Some(self.ncalls) {
                    self.calls.push(Call::Failed { m, area, color });
                    return Err(FaultErr(self.ncalls));
                }
                Ok(())
            }
            pub fn calls_json(&self) -> Vec<Value> {
                self.calls.iter().map(|c| c.to_json()).collect()
            }
        }
        impl<C: Col> Dimensions for $name<C> {
            fn bounding_box(&self) -> Rectangle {
                self.bbox
            }
        }
    };
}

common_impl!(LogNative);
common_impl!(LogDefault);

impl<C: Col> DrawTarget for LogNative<C> {
    type Color = C;
    type Error = FaultErr;

    fn draw_iter<I>(&mut self, pixels: I) -> Result<(), FaultErr>
    where
        I: IntoIterator<Item = Pixel<C>>,
    {
        self.enter("draw_iter", Rectangle::zero(), -1)?;
        let px = pixels.into_iter().map(|Pixel(p, c)| (p.x, p.y, c.raw())).collect();
        self.calls.push(Call::DrawIter { px });
        Ok(())
    }

    fn fill_contiguous<I>(&mut self, area: &Rectangle, colors: I) -> Result<(), FaultErr>
    where
        I: IntoIterator<Item = C>,
    {
        self.enter("fill_contiguous", *area, -1)?;
        let cap = (area.size.width as usize) * (area.size.height as usize) + SLACK;
        let mut it = colors.into_iter();
        let mut v = Vec::new();
        let mut over = false;
        // the stream is pulled along rotating routes: next() only, internal iteration only (for_each = fold), a few
        // next() calls followed by internal iteration of the rest (also through Map / Enumerate, which forward fold)
        let route = self.calls.len() % 4;
        let lead = match route {
            0 => usize::MAX,
            1 => 0,
            2 => 1 + self.calls.len() % 3,
            _ => 1 + (area.size.width as usize + self.calls.len()) % 5,
        };
        let mut pulled = 0usize;
        let mut ended = false;
        while pulled < lead {
            match it.next() {
                None => {
                    ended = true;
                    break;
                }
                Some(c) => {
                    if v.len() == cap {
                        over = true;
                        ended = true;
                        break;
                    }
                    v.push(c.raw());
                    pulled += 1;
                }
            }
        }
        if !ended {
            let mut push = |c: C| {
                if v.len() == cap {
                    over = true;
                } else {
                    v.push(c.raw());
                }
            };
            if route == 3 {
                it.map(|c| c).enumerate().for_each(|(_, c)| push(c));
            } else {
                it.for_each(&mut push);
            }
        }
        self.calls.push(Call::FillContiguous { area: *area, colors: v, over });
        Ok(())
    }

    fn fill_solid(&mut self, area: &Rectangle, color: C) -> Result<(), FaultErr> {
        self.enter("fill_solid", *area, color.raw() as i64)?;
        self.calls.push(Call::FillSolid { area: *area, color: color.raw() });
        Ok(())
    }

    fn clear(&mut self, color: C) -> Result<(), FaultErr> {
        self.enter("clear", Rectangle::zero(), color.raw() as i64)?;
        self.calls.push(Call::Clear { color: color.raw() });
        Ok(())
    }
}

impl<C: Col> DrawTarget for LogDefault<C> {
    type Color = C;
    type Error = FaultErr;

    fn draw_iter<I>(&mut self, pixels: I) -> Result<(), FaultErr>
    where
        I: IntoIterator<Item = Pixel<C>>,
    {
        self.enter("draw_iter", Rectangle::zero(), -1)?;
        // bounded: a default `fill_solid` zips an infinite colour stream with the area points, so
        // the pixel stream itself is always finite; the cap only guards against a broken library.
        let mut px = Vec::new();
        for Pixel(p, c) in pixels.into_iter() {
            if px.len() >= self.cap {
                break;
            }
            px.push((p.x, p.y, c.raw()));
        }
        self.calls.push(Call::DrawIter { px });
        Ok(())
    }
}

/// "Set these pixels, later wins" on a huge box; also remembers every touched point.
pub struct MapTarget<C: Col> {
    pub map: BTreeMap<(i32, i32), u32>, // key (y, x)
    pub writes: u64,
    pub bbox: Rectangle,
    _c: PhantomData<C>,
}

impl<C: Col> MapTarget<C> {
    pub fn new() -> Self {
        MapTarget {
            map: BTreeMap::new(),
            writes: 0,
            bbox: Rectangle::new(Point::new(-(1 << 20), -(1 << 20)), Size::new(1 << 21, 1 << 21)),
            _c: PhantomData,
        }
    }
    pub fn with_box(bbox: Rectangle) -> Self {
        let mut t = Self::new();
        t.bbox = bbox;
        t
    }
}

impl<C: Col> Dimensions for MapTarget<C> {
    fn bounding_box(&self) -> Rectangle {
        self.bbox
    }
}

impl<C: Col> DrawTarget for MapTarget<C> {
    type Color = C;
    type Error = core::convert::Infallible;
    fn draw_iter<I>(&mut self, pixels: I) -> Result<(), Self::Error>
    where
        I: IntoIterator<Item = Pixel<C>>,
    {
        for Pixel(p, c) in pixels {
            self.map.insert((p.y, p.x), c.raw());
            self.writes += 1;
        }
        Ok(())
    }
}
